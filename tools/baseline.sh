#!/bin/bash
# usage: baseline.sh [tree]   -- runs the pinned suite (guard OFF) in <tree> (default /repo)
# and reports every BASELINE stable_pass test that did not pass. exit 0 iff none.
# The suite writes into testdata/ and removes $TMPDIR/scratch, so it gets a private TMPDIR
# and runs on a throw-away copy when the tree is /repo.
set -u
TREE=${1:-/repo}
WORK=/var/tmp/slipwork
# always run on a private copy with a private TMPDIR (several invocations may run at once)
COPY=$WORK/basecopy.$$
mkdir -p $WORK/tmp.$$
unset GOFLAGS; export GOPROXY=off TMPDIR=$WORK/tmp.$$
rm -rf $COPY && cp -a $TREE $COPY && TREE=$COPY
CLEAN=1
OUT=$WORK/baseline.$$.json
: > $OUT
# the suite has port-using tests (test/watch) that occasionally fail; a test counts as passing
# when it passes in one of up to three runs (BASELINE.json was built from three runs as well)
for try in $(seq 1 ${BASELINE_TRIES:-3}); do
(cd $TREE && go test -mod=mod -json -vet=off -count=1 -timeout ${BASELINE_GO_TIMEOUT:-25m} ./... > $OUT.run 2>/dev/null)
python3 - "$OUT.run" "$OUT" <<'PY'
import json,sys
base=json.load(open('/root/.vp/BASELINE.json'))
passed=set(); failed=set()
for line in open(sys.argv[1],errors='replace'):
    line=line.strip()
    if not line.startswith('{'): continue
    try: ev=json.loads(line)
    except Exception: continue
    a=ev.get('Action'); t=ev.get('Test'); p=ev.get('Package','')
    if t is None or a not in('pass','fail'): continue
    (passed if a=='pass' else failed).add(p+'::'+t)
passed-=failed
acc=set(l.strip() for l in open(sys.argv[2]))
acc|=passed
open(sys.argv[2],'w').write('\n'.join(sorted(acc))+'\n')
passed=acc
missing=[t for t in base['stable_pass'] if t not in passed]
print('stable_pass',len(base['stable_pass']),'passed_now',len(passed),'missing',len(missing))
for t in missing[:40]: print('  MISSING',t)
sys.exit(1 if missing else 0)
PY
rc=$?
[ $rc = 0 ] && break
done
rm -f $OUT $OUT.run
rm -rf $COPY $WORK/tmp.$$
exit $rc
