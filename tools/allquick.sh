#!/bin/bash
# allquick.sh SEED : every quick check once at VERIF_SEED=SEED, one line per check (exit code and summary)
S=${1:-1}
for i in $(seq -w 1 20); do
  OUT=$(VERIF_SEED=$S /verif/check C$i --tier quick 2>&1); RC=$?
  echo "seed=$S C$i exit=$RC $(echo "$OUT" | grep -v KNOWN-FINDING | tail -1 | cut -c1-200)"
  if [ $RC != 0 ]; then echo "$OUT" | grep -v KNOWN-FINDING | grep -A1 "^VIOLATION\|INCONCLUSIVE" | head -6 | cut -c1-600; fi
done
