#!/usr/bin/env python3
"""mutsweep.py CXX [--n 40] [--seed 1] [--files a.go,b.go] [--suite]

Sensitivity sweep: samples simple textual mutants (relational operator, boolean connective, off-by-one,
dropped statement, negated condition) from the files a property is anchored in, applies each one in a scratch
worktree of /repo's HEAD (never in /repo), and runs the quick check of the property against it through
`./check CXX --repo <scratch>`. For a mutant the check misses, `--suite` runs the pinned suite
(tools/baseline.sh): a mutant that the suite kills is of no interest (the brief asks for changes that pass the
suite); a SURVIVOR (compiles, suite passes, check silent) is either an equivalent mutant, outside the property, or
a weakness of the check and is looked at by hand. Results: /verif/mutation/CXX.jsonl (one line per mutant).
"""
import argparse, glob, json, os, random, re, subprocess, sys, time

ap = argparse.ArgumentParser()
ap.add_argument("pid")
ap.add_argument("--n", type=int, default=40)
ap.add_argument("--seed", type=int, default=1)
ap.add_argument("--files", default="")
ap.add_argument("--suite", action="store_true")
a = ap.parse_args()
pid = a.pid.upper()
WT = "/var/tmp/slipwork/mut-" + pid
ENV = dict(os.environ, GOFLAGS="-mod=mod", GOPROXY="off", BASELINE_GO_TIMEOUT="6m", BASELINE_TRIES="2")
ENV.pop("GOTOOLCHAIN", None)


def sh(cmd, cwd=None, timeout=3600):
    p = subprocess.run(cmd, shell=True, cwd=cwd, env=ENV, stdout=subprocess.PIPE, stderr=subprocess.STDOUT, text=True, timeout=timeout)
    return p.returncode, p.stdout


head = sh("git -C /repo rev-parse HEAD")[1].strip()
if not os.path.isdir(WT):
    rc, out = sh("git -C /repo worktree add -q --detach %s HEAD" % WT)
    if rc:
        print(out); sys.exit(2)
sh("git checkout -q --detach %s && git checkout -q -- ." % head, cwd=WT)

files = [f for f in a.files.split(",") if f]
if not files:
    for l in open("/verif/properties.jsonl"):
        p = json.loads(l)
        if p["id"] == pid:
            for f in p["anchors"]["files"]:
                f = f.split(" ")[0]
                for g in sorted(glob.glob(os.path.join(WT, f))):
                    if g.endswith(".go") and not g.endswith("_test.go"):
                        files.append(os.path.relpath(g, WT))
files = sorted(set(files))

OPS = [
    (r"(?<![<>=!:+\-*/&|])<=(?!=)", "<", "<= -> <"),
    (r"(?<![<>=!:+\-*/&|\-])<(?![<=\-])", "<=", "< -> <="),
    (r"(?<![<>=!:+\-*/&|])>=(?!=)", ">", ">= -> >"),
    (r"(?<![<>=!:+\-*/&|\-])>(?![>=])", ">=", "> -> >="),
    (r"==", "!=", "== -> !="),
    (r"!=", "==", "!= -> =="),
    (r"&&", "||", "&& -> ||"),
    (r"\|\|", "&&", "|| -> &&"),
    (r" \+ 1\b", "", "drop + 1"),
    (r" - 1\b", "", "drop - 1"),
    (r"\+ 1\b", "+ 2", "+1 -> +2"),
    (r"\[1:\]", "[0:]", "[1:] -> [0:]"),
    (r"\bbreak\b", "continue", "break -> continue"),
]


def sites(path):
    src = open(os.path.join(WT, path)).read().split("\n")
    out = []
    in_init = False
    in_func = False
    for i, line in enumerate(src):
        if line.startswith("func init()"):
            in_init = True
        elif line.startswith("func "):
            in_func = True
            in_init = False
        elif line.startswith("}"):
            in_init = False
            in_func = False
        if not in_func or in_init:
            continue
        code = line.split("//")[0]
        st = code.strip()
        if not st or st.startswith("//") or '"' in code and not re.search(r"\b(if|for|case|return)\b", code):
            continue
        # do not touch string literals: mutate only the part before the first quote
        pre = code.split('"')[0]
        for rx, new, desc in OPS:
            for m in re.finditer(rx, pre):
                if "<-" in pre and new in ("<=",):
                    continue
                nl = line[:m.start()] + new + line[m.end():]
                out.append((i, nl, desc))
        # negate an if condition
        m = re.match(r"^(\s*)(if|} else if) (.+) \{\s*$", pre) if '"' not in code else None
        if m and ";" not in m.group(3):
            out.append((i, "%s%s !(%s) {" % (m.group(1), m.group(2), m.group(3)), "negate condition"))
        # drop a simple statement (assignment to an existing place, or a call)
        if re.match(r"^\s+[A-Za-z_][\w\.\[\]\*\(\)]*\s*(=|\+=|-=)\s*[^=].*$", pre) and ":=" not in pre and '"' not in code and not st.endswith("{") and not st.endswith(","):
            out.append((i, re.match(r"^\s*", line).group(0) + "// dropped", "drop assignment"))
        elif re.match(r"^\s+[A-Za-z_][\w\.]*\([^{}]*\)\s*$", pre) and '"' not in code and not st.startswith(("return", "defer", "go ", "panic")):
            out.append((i, re.match(r"^\s*", line).group(0) + "// dropped", "drop call"))
    return [(path, i, nl, d) for (i, nl, d) in out]


allsites = []
for f in files:
    try:
        allsites += sites(f)
    except FileNotFoundError:
        pass
rnd = random.Random(a.seed)
rnd.shuffle(allsites)
picked = allsites[: a.n]
os.makedirs("/verif/mutation", exist_ok=True)
logp = "/verif/mutation/%s.jsonl" % pid
done = set()
if os.path.exists(logp):
    for l in open(logp):
        try:
            r = json.loads(l)
            done.add((r["file"], r["line"], r["mutant"]))
        except Exception:
            pass
print("%s: %d files, %d candidate sites, running %d" % (pid, len(files), len(allsites), len(picked)), flush=True)
for (path, i, nl, desc) in picked:
    full = os.path.join(WT, path)
    src = open(full).read().split("\n")
    orig = src[i]
    key = (path, i + 1, nl.strip())
    if key in done:
        continue
    src[i] = nl
    open(full, "w").write("\n".join(src))
    rec = {"property": pid, "head": head[:8], "file": path, "line": i + 1, "op": desc, "original": orig.strip(), "mutant": nl.strip()}
    t0 = time.time()
    rc, out = sh("go build ./... 2>&1 | grep -v 'plugin\\|^#\\|main_main' | head -5", cwd=WT)
    if out.strip():
        rec["result"] = "does-not-compile"
    else:
        rc, out = sh("./check %s --repo %s 2>&1 | grep -v KNOWN-FINDING" % (pid, WT), cwd="/verif", timeout=2400)
        if "\nVIOLATION" in "\n" + out:
            rec["result"] = "caught"
            m = re.search(r"^VIOLATION.*\n(.*)", out, re.M)
            rec["first"] = (m.group(1) if m else "")[:300]
        elif rc == 2 or "INCONCLUSIVE" in out:
            rec["result"] = "inconclusive"
            rec["first"] = out[-300:]
        else:
            rec["result"] = "missed"
            if a.suite:
                rc, out = sh("/verif/tools/baseline.sh %s | tail -1" % WT, timeout=3600)
                rec["suite"] = out.strip()
                rec["result"] = "SURVIVOR" if out.strip().endswith("missing 0") else "killed-by-suite-only"
    rec["secs"] = round(time.time() - t0, 1)
    open(logp, "a").write(json.dumps(rec) + "\n")
    print("%-22s %s:%d %s | %s" % (rec["result"], path, i + 1, desc, rec.get("first", "")[:120]), flush=True)
    src[i] = orig
    open(full, "w").write("\n".join(src))
sh("git checkout -q -- .", cwd=WT)
print("DONE", pid, flush=True)
