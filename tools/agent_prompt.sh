#!/bin/bash
# prints the standard prompt for a check-building sub-agent: agent_prompt.sh CXX
ID=$1
python3 - "$ID" <<'PY'
import json,sys
pid=sys.argv[1]
for l in open('/verif/properties.jsonl'):
    p=json.loads(l)
    if p['id']==pid: break
print(f"""You are building ONE property check in an existing property-based-testing harness for the Go project ohler55/slip (a Common Lisp interpreter in Go) checked out at /repo. The sandbox is offline.

PROPERTY {pid}: {p['title']}
Statement: {p['statement']}
Quantifier: {p['quantifier']['text']}
Why tests cannot settle it: {p['why_tests_cant']}
Anchors (files in /repo): {', '.join(p['anchors']['files'])}
Mechanisms: {json.dumps(p['anchors'].get('mechanism'))}

READ FIRST, in this order:
1. /verif/harness/README.md  (the harness API, environment, the mandatory triage protocol, what files you create)
2. the section "## {pid}" of /verif/DESIGN.md (planned generator, oracle, sound domain, non-trivial rule, bounds, defects already seen while reading, mutants). Also section 0 of DESIGN.md for conventions.
3. /verif/harness/c05/c05_test.go and /verif/harness/internal/h/h.go, ev/ev.go, sx/sx.go (worked example and core)
4. the anchored slip sources.

YOUR JOB: implement /verif/harness/{pid.lower()}/ (package {pid.lower()}, one or more *_test.go files, plus your own reference-model package under /verif/harness/internal/ if it is sizeable) so that `cd /verif && ./check {pid}` and `./check {pid} --tier thorough` decide the property as DESIGN.md describes: generated cases (rapid) and exhaustive enumerations against an explicit, independently written oracle; counters for evidence (h.Rule, NonTrivial, Classes); JSON-serialisable cases so replay and known-finding witnesses work. Follow the DESIGN.md plan, simplify where needed, but keep the oracle sound: assert only what the property statement and slip's documentation fix; everything else is don't-care.

The pinned tree is known to violate many properties. When your check fires on the unchanged tree follow the triage protocol of the README exactly: false alarm -> fix the oracle; genuine defect -> small 'fix:' commit in YOUR PRIVATE WORKTREE /var/tmp/slipwork/wt-{pid} on branch fix-{pid} (create with `git -C /repo worktree add /var/tmp/slipwork/wt-{pid} -b fix-{pid}`), verified with /verif/tools/baseline.sh <worktree> ('missing 0'), or else an open finding with a by-construction exclusion. NEVER edit or commit in /repo itself, never `git commit` in /verif, never touch files of other properties (other agents work in parallel on c01..c20), never change the behaviour of internal/h, internal/ev, internal/sx (you may add new cases/functions to them if strictly needed; say so in your notes). One root cause = one fix commit or one finding.

Deliverables (all under /verif): harness/{pid.lower()}/..., known_findings.d/{pid}.json, tools/claims.d/{pid}.json (claimed, level, technique naming the PBT method + oracle, text, note), notes/{pid}.md (what is checked, generator distribution numbers you measured, every finding with input and disposition, corrections to the DESIGN plan, the sensitivity mutants you tried with results). Sensitivity self-test as in the README is required. Budget: quick tier about one minute, thorough <= 15 minutes on 16 shards. Finish with `./check {pid} --repo /var/tmp/slipwork/wt-{pid}` (or plain ./check if you made no fix) exiting 0 at VERIF_SEED=1,2,3 in both tiers, and /verif/tools/validate.sh passing for your evidence file (run plain `./check {pid}` once at the end only if you have no fix commits; otherwise leave evidence to the lead).

Work autonomously and efficiently; do not ask questions. Your final message must be a short report: what sub-properties are checked, counts per tier, list of fix commits (subject lines) on branch fix-{pid}, list of open findings, mutants caught/missed, and anything the lead must do.""")
PY
