#!/bin/bash
# fuzzdev.sh cNN FuzzTarget SECONDS : build the fuzz binary of a package and run one campaign in .build/fz-cNN (development aid)
P=$1; T=$2; S=${3:-60}
export GOFLAGS=-mod=mod GOPROXY=off
cd /verif/harness && go test -c -tags verif -vet=off -fuzz=Fuzz -o /verif/.build/$P.fuzz.test ./$P || exit 2
mkdir -p /verif/.build/fz-$P && cd /verif/.build/fz-$P && rm -rf testdata
[ -n "$KEEP" ] || rm -rf cache
VERIF_TIER=thorough timeout $((S+300)) /verif/.build/$P.fuzz.test -test.run '^$' -test.fuzz "^$T\$" -test.fuzztime ${S}s -test.fuzzcachedir $PWD/cache -test.parallel ${PAR:-12} 2>&1 | tail -${TAIL:-8} | cut -c1-900
ls testdata/fuzz/* 2>/dev/null | head
