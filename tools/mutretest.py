#!/usr/bin/env python3
"""mutretest.py [CXX ...] : re-runs every SURVIVOR of mutation/CXX.jsonl against the current quick check (scratch
worktree of /repo's HEAD) and appends one record {"retest":true,...} per mutant: caught | SURVIVOR | gone (the original
line no longer exists). Used after a check has been strengthened."""
import glob, json, os, re, subprocess, sys, time
ENV = dict(os.environ, GOFLAGS="-mod=mod", GOPROXY="off"); ENV.pop("GOTOOLCHAIN", None)
def sh(cmd, cwd=None, timeout=3600):
    p = subprocess.run(cmd, shell=True, cwd=cwd, env=ENV, stdout=subprocess.PIPE, stderr=subprocess.STDOUT, text=True, timeout=timeout)
    return p.returncode, p.stdout
pids = [p.upper() for p in sys.argv[1:]] or sorted(os.path.basename(f)[:3] for f in glob.glob("/verif/mutation/C??.jsonl"))
head = sh("git -C /repo rev-parse HEAD")[1].strip()
for pid in pids:
    logp = "/verif/mutation/%s.jsonl" % pid
    recs = [json.loads(l) for l in open(logp) if l.strip()]
    last = {}
    for r in recs:
        last[(r["file"], r["original"], r["mutant"])] = r
    todo = [r for r in last.values() if r["result"] == "SURVIVOR" and not r.get("triage")]
    if not todo: continue
    WT = "/var/tmp/slipwork/mutre-" + pid
    sh("git -C /repo worktree remove --force " + WT)
    rc, out = sh("git -C /repo worktree add -q --detach %s HEAD" % WT)
    if rc: print(out); sys.exit(2)
    for r in todo:
        full = os.path.join(WT, r["file"])
        src = open(full).read().split("\n")
        idx = [i for i, l in enumerate(src) if l.strip() == r["original"]]
        rec = dict(r); rec["retest"] = True; rec["head"] = head[:8]; rec.pop("suite", None); rec.pop("first", None)
        if not idx:
            rec["result"] = "gone"
        else:
            i = min(idx, key=lambda k: abs(k + 1 - r["line"]))
            orig = src[i]
            indent = re.match(r"^\s*", orig).group(0)
            src[i] = indent + r["mutant"]
            open(full, "w").write("\n".join(src))
            t0 = time.time()
            rc, out = sh("./check %s --repo %s 2>&1 | grep -v KNOWN-FINDING" % (pid, WT), cwd="/verif", timeout=2400)
            if "\nVIOLATION" in "\n" + out:
                rec["result"] = "caught"
                m = re.search(r"^VIOLATION.*\n(.*)", out, re.M)
                rec["first"] = (m.group(1) if m else "")[:300]
            elif "INCONCLUSIVE" in out or "inconclusive" in out:
                rec["result"] = "inconclusive"; rec["first"] = out[-300:]
            else:
                rec["result"] = "SURVIVOR"
            rec["line"] = i + 1
            rec["secs"] = round(time.time() - t0, 1)
            src[i] = orig
            open(full, "w").write("\n".join(src))
        open(logp, "a").write(json.dumps(rec) + "\n")
        print("%s %-10s %s:%d %s | %s" % (pid, rec["result"], r["file"], rec["line"], r["op"], rec.get("first", "")[:140]), flush=True)
    sh("git -C /repo worktree remove --force " + WT)
print("DONE")
