#!/bin/bash
# seed_prompt.sh CXX N : creates worktree /var/tmp/slipwork/seed-CXX-N and prints the prompt for a seeding sub-agent
ID=$1; N=$2
WT=/var/tmp/slipwork/seed-$ID-$N
[ -d $WT ] || git -C /repo worktree add -q --detach $WT HEAD
python3 - "$ID" "$WT" <<'PY'
import json,sys,glob
pid,wt=sys.argv[1:3]
# places that earlier changes (by other people) already used: the new change has to be somewhere else
used=[]
for f in sorted(glob.glob('/verif/seeded/%s-*/meta.json'%pid)):
    try: m=json.load(open(f))
    except Exception: continue
    used.append("%s: %s"%(", ".join(m.get('files') or []), (m.get('summary') or '').split('. ')[0][:200]))
avoid=""
if used:
    avoid="\nOther people have already made changes of this kind at the following places; yours must use a DIFFERENT mechanism and a different function (ideally a different file):\n"+"".join("  - %s\n"%u for u in used)
for l in open('/verif/properties.jsonl'):
    p=json.loads(l)
    if p['id']==pid: break
print(f"""You work on the Go project ohler55/slip (a mostly-Common-Lisp interpreter written in Go). Your private copy is the git worktree {wt} (offline sandbox). Do NOT read or modify anything under /repo or /verif — work only inside {wt} (and /var/tmp/slipwork/seedtools/baseline.sh, a test runner).

Here is a semantic property the project is supposed to satisfy:

  Title: {p['title']}
  Statement: {p['statement']}
  Quantified over: {p['quantifier']['text']}

YOUR TASK: make ONE small, realistic change to slip's source code in {wt} that BREAKS this property, while
  (a) the project still compiles, and
  (b) the existing test suite still passes: run `/var/tmp/slipwork/seedtools/baseline.sh {wt}` (takes 20-60 s, copies the tree and runs the whole pinned suite); it must print a line ending in `missing 0`.
The change should look like a plausible regression a developer could introduce (an optimisation, a refactoring slip, a boundary condition, a dropped copy or lock, a cache that is not invalidated, ...), and it should need something SPECIFIC to manifest — a multi-step sequence of operations, an unusual input or size, a particular interleaving, or two cooperating sites that each look fine alone — not something that ordinary use or a one-line smoke test would expose at once. Do not add dead code, comments announcing the bug, or special-casing of magic constants that no maintainer would write.
{avoid}
Also write a DEMONSTRATION: a small Go test (e.g. {wt}/seed/demo/demo_test.go in package demo, importing github.com/ohler55/slip and _ "github.com/ohler55/slip/pkg" and evaluating Lisp with slip.ReadString(src, scope).Eval(scope, nil) inside a recover) that FAILS with your change and PASSES without it (verify both by un-applying and re-applying your patch: `git diff -- . ':!seed' > seed/patch.diff; git apply -R seed/patch.diff; <run demo>; git apply seed/patch.diff`. NEVER use `git stash`: the stash is shared between all worktrees of the repository and other people work in them). Run it with: cd {wt} && GOFLAGS=-mod=mod GOPROXY=off go test -vet=off -count=1 ./seed/demo/ (do not set GOTOOLCHAIN or GOSUMDB; never run the cmd/slip binary, it blocks on stdin).

Deliver inside {wt}/seed/:
  patch.diff  — `git diff` of the source change only (not the demo), applicable with `git apply` at the worktree's HEAD
  demo/       — the demonstration test
  meta.json   — {{"property": "{pid}", "summary": "...what the change does...", "needs": "...what is needed for it to manifest...", "files": [...], "verified": "...commands you ran and what they printed..."}}
Leave the worktree with your change APPLIED (uncommitted). Your final message: a 5-10 line summary (the change, why the suite does not notice, what input/sequence exposes it, the verification you did).""")
PY
