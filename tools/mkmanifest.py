#!/usr/bin/env python3
"""Regenerates MANIFEST.json from the table below (keeps it valid at all times)."""
import json, os, subprocess
V = os.path.dirname(os.path.dirname(os.path.abspath(__file__)))
props = [json.loads(l) for l in open(os.path.join(V, "properties.jsonl"))]
CLAIMS = json.load(open(os.path.join(V, "tools", "claims.json")))
import glob
INTEGRATED = set(open(os.path.join(V, "tools", "integrated.txt")).read().split())
for f in sorted(glob.glob(os.path.join(V, "tools", "claims.d", "*.json"))):
    if os.path.basename(f)[:-5] in INTEGRATED:  # checks still under construction are not claimed yet
        CLAIMS[os.path.basename(f)[:-5]] = json.load(open(f))
hooks_commits = []
try:
    out = subprocess.run(["git", "-C", "/repo", "log", "--format=%H %s"], capture_output=True, text=True).stdout
    hooks_commits = [l.split()[0] for l in out.splitlines() if l.split(" ", 1)[1].startswith("verif hook:")]
except Exception:
    pass
checks, na = [], []
for p in props:
    pid = p["id"]
    c = CLAIMS.get(pid)
    if not c or not c.get("claimed"):
        na.append({"property_id": pid, "reason": (c or {}).get("reason", "check not built yet in this session; see DESIGN.md for the planned generator and oracle")})
        continue
    checks.append({
        "property_id": pid,
        "quick_cmd": "./check %s --tier quick" % pid,
        "thorough_cmd": "./check %s --tier thorough" % pid,
        "evidence_file": "/verif/evidence/%s.json" % pid,
        "replay_cmd_template": "./check %s --replay {path}" % pid,
        "engine": "rapid-harness",
        "level_claimed": {"category": c.get("level", "exploration"), "text": c["text"], "design_ref": "DESIGN.md section " + pid},
        "level_note": c["note"],
        "technique": c["technique"],
    })
m = {
    "version": 1,
    "setup_cmd": "cd /verif/harness && GOFLAGS=-mod=mod GOPROXY=off go test -tags verif -vet=off -count=1 -run XXX ./... > /dev/null 2>&1; mkdir -p /verif/.build /verif/evidence; true",
    "hooks": {
        "guard": "verif",
        "enable": "go test -tags verif (the harness module replaces github.com/ohler55/slip with /repo, so every check recompiles /repo's working tree)",
        "baseline_off_cmd": "cd /repo && GOPROXY=off go test -mod=mod -json -vet=off -count=1 -timeout 25m ./...",
        "source_commits": hooks_commits,
        "add_only": True,
    },
    "engines": [{"name": "rapid-harness", "path": "/verif/harness", "serves_properties": [c["property_id"] for c in checks],
                 "kind_free_text": "Go test binaries per property (pgregory.net/rapid v1.3.0 generators + exhaustive enumerations + explicit reference models), driven by /verif/check"}],
    "checks": checks,
    "not_applicable": na,
    "notes": "Known findings (genuine defects not repaired) are in /verif/known_findings.json; fixed ones are listed there with status fixed and the /repo commit.",
}
json.dump(m, open(os.path.join(V, "MANIFEST.json"), "w"), indent=1)
print("claimed", len(checks), "not_applicable", len(na))
