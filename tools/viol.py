#!/usr/bin/env python3
# summarise replay/<ID>/*.json by (sub, first field of case)
import json,glob,collections,sys
pid=sys.argv[1]; n=int(sys.argv[2]) if len(sys.argv)>2 else 5
c=collections.Counter(); ex={}
for f in glob.glob('/verif/replay/%s/*.json'%pid):
    d=json.load(open(f))
    case=d['case']
    k=(d['sub'], str(case.get('op','')) if isinstance(case,dict) else '')
    c[k]+=1; ex.setdefault(k,[]).append(d['msg'])
for k,v in sorted(c.items()):
    print(k,v)
    for m in ex[k][:n]: print('    ',m[:300])
