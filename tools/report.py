#!/usr/bin/env python3
"""Prints the markdown tables for the 'Implementation status and results' appendix of DESIGN.md."""
import json, glob, os, subprocess, collections
V = os.path.dirname(os.path.dirname(os.path.abspath(__file__)))
F = json.load(open(os.path.join(V, "known_findings.json")))
integ = open(os.path.join(V, "tools", "integrated.txt")).read().split()
byp = collections.defaultdict(lambda: {"open": [], "fixed": []})
for f in F:
    byp[f["property"]][f.get("status", "open")].append(f)
seeds = collections.defaultdict(list)
for m in sorted(glob.glob(os.path.join(V, "seeded", "*", "meta.json"))):
    d = json.load(open(m)); lv = d.get("lead_verification", {})
    seeds[d.get("property")].append((os.path.basename(os.path.dirname(m)), lv.get("caught_by_check"), d.get("summary", "")[:110]))
print("| id | claimed | quick: evaluations / distinct non-trivial / wall s | fixed in /repo | open findings | seeded changes (caught) |")
print("|----|---------|------|------|------|------|")
for i in range(1, 21):
    pid = "C%02d" % i
    ev = os.path.join(V, "evidence", pid + ".json")
    q = "-"
    if os.path.exists(ev):
        d = json.load(open(ev)); c = d["coverage"]
        q = "%s / %s / %.0f (%s)" % (c["evaluations"], c["distinct_nontrivial"], d["wall_s"], d["tier"])
    sd = ", ".join("%s:%s" % (n, "yes" if c else "NO") for n, c, _ in seeds.get(pid, [])) or "-"
    print("| %s | %s | %s | %d | %s | %s |" % (pid, "yes" if pid in integ else "no", q, len(byp[pid]["fixed"]),
          ", ".join(f["id"] for f in byp[pid]["open"]) or "-", sd))
print()
print("Seeded changes:")
for pid in sorted(seeds):
    for n, c, s in seeds[pid]:
        print("* %s (%s): %s" % (n, "caught" if c else "MISSED", s))
