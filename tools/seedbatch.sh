#!/bin/bash
# seedbatch.sh C01:4 C02:4 ... : runs tools/seedtest.sh for each, one after the other; summary lines in /var/tmp/slipwork/seedbatch.log
for x in "$@"; do id=${x%:*}; n=${x#*:}; echo "=== $id-$n $(date +%T)"; /verif/tools/seedtest.sh $id $n 2>&1 | tail -6; done
echo BATCH-DONE
