#!/bin/bash
# mutate.sh <CXX> <file> <python-regex-old> <new>  : apply one textual mutant (first match) in a scratch worktree,
# run the quick check against it, report caught / MISSED. The worktree is reused and cleaned each time.
PID=$1; FILE=$2; OLD=$3; NEW=$4
WT=/var/tmp/slipwork/wt-mut-$PID
[ -d $WT ] || git -C /repo worktree add -q --detach $WT HEAD >/dev/null 2>&1
git -C $WT checkout -q --detach $(git -C /repo rev-parse HEAD) 2>/dev/null; git -C $WT checkout -q -- . 
python3 - "$WT/$FILE" "$OLD" "$NEW" <<'PY' || { echo "MUTANT NOT APPLICABLE: $FILE"; exit 3; }
import sys
p,old,new=sys.argv[1:4]
s=open(p).read()
if s.count(old)<1: sys.exit(1)
open(p,'w').write(s.replace(old,new,1))
PY
(cd $WT && GOFLAGS=-mod=mod GOPROXY=off go build ./... 2>&1 | grep -v "main is undeclared\|^#" | head -3)
OUT=$(cd /verif && ./check $PID --repo $WT 2>&1 | grep -v KNOWN)
if echo "$OUT" | grep -q "^VIOLATION"; then echo "caught: $FILE: $(echo "$OUT" | grep -A1 '^VIOLATION' | sed -n 2p | cut -c1-200)"; else echo "MISSED: $FILE [$OLD] -> [$NEW]: $(echo "$OUT" | tail -1)"; fi
git -C $WT checkout -q -- .
