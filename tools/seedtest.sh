#!/bin/bash
# seedtest.sh CXX N [tier] : verify a seeded change delivered in /var/tmp/slipwork/seed-CXX-N/seed and run the check against it.
# Everything happens in a scratch worktree of /repo's current HEAD; /repo itself is not touched.
ID=$1; N=$2; TIER=${3:-quick}
SRC=/var/tmp/slipwork/seed-$ID-$N/seed
NAME=$ID-$N
WT=/var/tmp/slipwork/seedrun-$NAME
OUT=/verif/seeded/$NAME
export GOFLAGS=-mod=mod GOPROXY=off
if [ ! -f $SRC/patch.diff ] && [ -f /verif/seeded/$ID-$N/patch.diff ]; then
  # the author's worktree is gone: re-test the copy kept under /verif/seeded
  SRC=/var/tmp/slipwork/seedsrc-$ID-$N; rm -rf $SRC; mkdir -p $SRC; cp -r /verif/seeded/$ID-$N/. $SRC/
fi
[ -f $SRC/patch.diff ] || { echo "no patch.diff in $SRC"; exit 2; }
git -C /repo worktree remove --force $WT 2>/dev/null
git -C /repo worktree add -q --detach $WT HEAD || exit 2
mkdir -p $WT/seed && cp -r $SRC/demo $WT/seed/
echo "== demo without the change (must pass)"
(cd $WT && go test -vet=off -count=1 ./seed/demo/ 2>&1 | tail -3); R0=${PIPESTATUS[0]}
(cd $WT && go test -vet=off -count=1 ./seed/demo/ >/dev/null 2>&1); R0=$?
if ! git -C $WT apply --3way $SRC/patch.diff 2>/tmp/seedapply.$$; then echo "PATCH DOES NOT APPLY to current HEAD"; cat /tmp/seedapply.$$; rm -f /tmp/seedapply.$$; git -C /repo worktree remove --force $WT; exit 2; fi
rm -f /tmp/seedapply.$$
echo "== demo with the change (must fail)"
(cd $WT && go test -vet=off -count=1 ./seed/demo/ >/tmp/seeddemo.$$ 2>&1); R1=$?; tail -5 /tmp/seeddemo.$$; rm -f /tmp/seeddemo.$$
echo "== pinned suite with the change"
rm -rf $WT/seed
BASE=$(/verif/tools/baseline.sh $WT | tail -1)
echo "$BASE"
echo "== check $ID ($TIER) against the change"
CHK=$(cd /verif && ./check $ID --tier $TIER --repo $WT 2>&1 | grep -v KNOWN-FINDING)
echo "$CHK" | tail -4 | cut -c1-600
if echo "$CHK" | grep -q "^VIOLATION"; then CAUGHT=true; else CAUGHT=false; fi
mkdir -p $OUT && cp $SRC/patch.diff $OUT/ && rm -rf $OUT/demo && cp -r $SRC/demo $OUT/demo
python3 - "$SRC/meta.json" "$OUT/meta.json" "$ID" "$R0" "$R1" "$BASE" "$CAUGHT" "$TIER" "$(echo "$CHK" | grep -A1 '^VIOLATION' | sed -n 2p | cut -c1-400)" "$(git -C /repo rev-parse --short HEAD)" <<'PY'
import json,sys
src,dst,pid,r0,r1,base,caught,tier,first,head=sys.argv[1:11]
try: m=json.load(open(src))
except Exception as e: m={"note":"author meta.json unreadable: %s"%e}
m["property"]=pid
m["lead_verification"]={"repo_head":head,"demo_passes_without_change":r0=="0","demo_fails_with_change":r1!="0","pinned_suite_with_change":base,
  "check_tier":tier,"caught_by_check":caught=="true","first_violation":first,
  "commands":["git worktree add --detach <scratch> HEAD; git apply --3way patch.diff","go test ./seed/demo/ (before and after applying)","tools/baseline.sh <scratch>","./check %s --tier %s --repo <scratch>"%(pid,tier)]}
json.dump(m,open(dst,"w"),indent=1)
print("demo ok without:",r0=="0"," demo fails with:",r1!="0"," suite:",base," CAUGHT:",caught)
PY
git -C /repo worktree remove --force $WT
