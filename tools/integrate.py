#!/usr/bin/env python3
"""integrate.py CXX : cherry-pick the commits of branch fix-CXX into /repo main, map commit subjects in
known_findings.d/CXX.json to hashes, merge that fragment into known_findings.json."""
import json, os, subprocess, sys
pid = sys.argv[1]
def git(*a, check=True):
    r = subprocess.run(["git", "-C", "/repo"] + list(a), capture_output=True, text=True)
    if check and r.returncode != 0:
        print(r.stdout, r.stderr); sys.exit(1)
    return r.stdout
branch = "fix-" + pid
have = git("branch", "--list", branch).strip()
subj2hash = {}
if have:
    commits = git("log", "--reverse", "--format=%H", "main.." + branch).split()
    mainsubj = {}
    for l in git("log", "--format=%h %s", "-400", "main").splitlines():
        h, sj = l.split(" ", 1)
        mainsubj.setdefault(sj, h)
    for c in commits:
        subj = git("log", "-1", "--format=%s", c).strip()
        if not (subj.startswith("fix:") or subj.startswith("verif hook:")):
            print("skipping non-fix commit", c[:8], subj); continue
        if subj in mainsubj:
            subj2hash[subj] = mainsubj[subj]
            print("already in main", mainsubj[subj], subj); continue
        r = subprocess.run(["git", "-C", "/repo", "cherry-pick", c], capture_output=True, text=True)
        if r.returncode != 0:
            if "previous cherry-pick is now empty" in (r.stdout + r.stderr) or "nothing to commit" in (r.stdout + r.stderr):
                git("cherry-pick", "--skip", check=False)
                print("empty (already applied), skipped", c[:8], subj); continue
            print("CONFLICT cherry-picking", c[:8], subj); print(r.stdout[-2000:], r.stderr[-2000:]); sys.exit(1)
        subj2hash[subj] = git("rev-parse", "--short", "HEAD").strip()
        print("picked", subj2hash[subj], subj)
frag = "/verif/known_findings.d/%s.json" % pid
if os.path.exists(frag):
    F = json.load(open(frag))
    for f in F:
        if f.get("status") == "fixed":
            c = f.get("commit", "")
            for subj, h in subj2hash.items():
                if c.strip() == subj or c.strip() in subj or subj in c:
                    f["commit"] = h + " " + subj
            if not any(f["commit"].startswith(h) for h in subj2hash.values()):
                print("WARNING: no commit matched for", f["id"], f.get("commit"))
    main = json.load(open("/verif/known_findings.json"))
    main = [m for m in main if m.get("property") != pid] + F
    json.dump(main, open("/verif/known_findings.json", "w"), indent=1, ensure_ascii=False)
    os.remove(frag)
    print("merged", len(F), "findings of", pid)
