package c04

import (
	"fmt"
	"strconv"
	"strings"
)

// The reference binder: CLHS 3.4.1 (ordinary lambda lists) restricted to what the property statement fixes.
// It works on the text of the case only and knows nothing of slip.

// Param is an &optional, &key or &aux parameter. Def is the text of its default form ("" = none).
// Default forms are restricted to the closed set understood by defValue below.
type Param struct {
	Name string `json:"name"`
	Def  string `json:"def,omitempty"`
}

// Case is a lambda list, an argument vector and the names that also have a binding outside the function.
type Case struct {
	Req  []string `json:"req,omitempty"`
	Opt  []Param  `json:"opt,omitempty"`
	Rest string   `json:"rest,omitempty"`
	// Body: the rest parameter is introduced by &body, which the lambda list of a function or macro may use for &rest
	Body bool    `json:"body,omitempty"`
	Key  []Param `json:"key,omitempty"`
	Aux  []Param `json:"aux,omitempty"`
	// Args: each is an integer text, a keyword (":name") or a plain symbol name (passed quoted).
	Args []string `json:"args,omitempty"`
	// Outer lists parameter names that are also bound by a let around the definition and the call.
	Outer []string `json:"outer,omitempty"`
}

// LambdaList renders the lambda list as Lisp text.
func (c Case) LambdaList() string {
	var b strings.Builder
	b.WriteByte('(')
	sep := func() {
		if b.Len() > 1 {
			b.WriteByte(' ')
		}
	}
	par := func(p Param) {
		sep()
		if p.Def == "" {
			b.WriteString(p.Name)
		} else {
			fmt.Fprintf(&b, "(%s %s)", p.Name, p.Def)
		}
	}
	for _, r := range c.Req {
		sep()
		b.WriteString(r)
	}
	if len(c.Opt) > 0 {
		sep()
		b.WriteString("&optional")
		for _, p := range c.Opt {
			par(p)
		}
	}
	if c.Rest != "" {
		sep()
		if c.Body {
			b.WriteString("&body " + c.Rest)
		} else {
			b.WriteString("&rest " + c.Rest)
		}
	}
	if len(c.Key) > 0 {
		sep()
		b.WriteString("&key")
		for _, p := range c.Key {
			par(p)
		}
	}
	if len(c.Aux) > 0 {
		sep()
		b.WriteString("&aux")
		for _, p := range c.Aux {
			par(p)
		}
	}
	b.WriteByte(')')
	return b.String()
}

// Params lists all parameter names in lambda list order.
func (c Case) Params() (ps []string) {
	ps = append(ps, c.Req...)
	for _, p := range c.Opt {
		ps = append(ps, p.Name)
	}
	if c.Rest != "" {
		ps = append(ps, c.Rest)
	}
	for _, p := range c.Key {
		ps = append(ps, p.Name)
	}
	for _, p := range c.Aux {
		ps = append(ps, p.Name)
	}
	return
}

// sections counts the non-empty sections of the lambda list.
func (c Case) sections() (n int) {
	for _, has := range []bool{len(c.Req) > 0, len(c.Opt) > 0, c.Rest != "", len(c.Key) > 0, len(c.Aux) > 0} {
		if has {
			n++
		}
	}
	return
}

// formDefault reports whether a default has to be evaluated to get its value (is not a self-evaluating literal).
func formDefault(def string) bool {
	return def != "" && (def[0] == '(' || def[0] == '\'' || refDefault(def))
}

// refDefault reports whether a default is the name of another parameter.
func refDefault(def string) bool {
	return def != "" && def[0] >= 'a' && def[0] <= 'z' && def != "t" && def != "nil"
}

func (c Case) hasFormDefault() bool {
	for _, ps := range [][]Param{c.Opt, c.Key, c.Aux} {
		for _, p := range ps {
			if formDefault(p.Def) {
				return true
			}
		}
	}
	return false
}

func isKeyword(a string) bool { return strings.HasPrefix(a, ":") }

// argText is the canonical text (package sx) of the value of an argument.
func argText(a string) string {
	if a == "()" {
		return "nil"
	}
	return strings.ToLower(a)
}

// verdict of the reference binder.
type verdict struct {
	reject   string // non-empty: the call must be rejected with an error before the body runs (the reason)
	openTail string // non-empty: the keyword part of the call is not fixed by the property (the reason)
	errOK    bool   // an error is acceptable too (unknown keyword argument, open keyword part)
	// accept[i] is the set of acceptable texts of parameter i (Params() order); nil = not fixed.
	accept [][]string
	// what the call exercises, for the non-triviality rule and the histogram
	usedDefault, keyOutOfOrder, dupKey, unknownKey bool
}

// defValue evaluates a default form of the closed set: integer, string, keyword, t, nil, (+ i j), (list i j),
// 'symbol, or the name of an earlier parameter. env maps earlier parameters to their acceptable texts (nil = open).
func defValue(def string, env map[string][]string) []string {
	switch {
	case def == "" || def == "nil":
		return []string{"nil"}
	case def[0] == '\'':
		return []string{def[1:]}
	case strings.HasPrefix(def, "(+ "):
		sum := 0
		for _, f := range strings.Fields(strings.Trim(def[3:], ")")) {
			n, err := strconv.Atoi(f)
			if err != nil {
				panic("bad default " + def)
			}
			sum += n
		}
		return []string{strconv.Itoa(sum)}
	case strings.HasPrefix(def, "(list "):
		return []string{"(" + strings.Trim(def[6:], ")") + ")"}
	case def[0] == '(':
		panic("bad default " + def)
	case refDefault(def):
		v, has := env[def]
		if !has {
			panic("default refers to unknown parameter " + def)
		}
		return v
	}
	return []string{def} // integer, "string", :keyword, t
}

// bind is the reference binder.
func bind(c Case) (v verdict) {
	n := len(c.Args)
	if n < len(c.Req) {
		v.reject = "too few arguments"
		return
	}
	env := map[string][]string{}
	set := func(name string, texts []string) {
		env[name] = texts
		v.accept = append(v.accept, texts)
	}
	for i, r := range c.Req {
		set(r, []string{argText(c.Args[i])})
	}
	pos := len(c.Req)
	for _, p := range c.Opt {
		if pos < n {
			set(p.Name, []string{argText(c.Args[pos])})
			pos++
		} else {
			v.usedDefault = true
			set(p.Name, defValue(p.Def, env))
		}
	}
	tail := c.Args[pos:]
	if c.Rest == "" && len(c.Key) == 0 && len(tail) > 0 {
		v.reject = "too many arguments"
		return
	}
	// &rest together with &key: CLHS puts the whole tail into the rest parameter and requires it to be keyword/value
	// pairs; slip (pinned by its suite: ((lambda (x &optional y &rest z &key k1 k2) ...) 1 2 3 4 :k1 5) binds z to
	// (3 4)) collects the arguments before the first declared keyword. The property statement does not choose, so the
	// rest parameter may hold either of the two when keys follow; a tail that is not made of pairs may also be rejected.
	both := c.Rest != "" && len(c.Key) > 0
	if c.Rest != "" {
		switch {
		case len(tail) == 0:
			set(c.Rest, []string{"nil"})
		case both:
			// one of the two documented readings: the whole tail (CLHS), or the arguments before the first keyword
			// that names a &key parameter of this lambda list (slip, pinned by its suite)
			declared := map[string]bool{}
			for _, p := range c.Key {
				declared[":"+p.Name] = true
			}
			var whole, prefix []string
			stop := false
			for _, a := range tail {
				whole = append(whole, argText(a))
				if isKeyword(a) && declared[strings.ToLower(a)] {
					stop = true
				}
				if !stop {
					prefix = append(prefix, argText(a))
				}
			}
			text := func(ts []string) string {
				if len(ts) == 0 {
					return "nil"
				}
				return "(" + strings.Join(ts, " ") + ")"
			}
			set(c.Rest, []string{text(whole), text(prefix)})
		default:
			ts := make([]string, len(tail))
			for i, a := range tail {
				ts[i] = argText(a)
			}
			set(c.Rest, []string{"(" + strings.Join(ts, " ") + ")"})
		}
	}
	if len(c.Key) > 0 {
		open := func(why string) {
			// the keyword part is not fixed: an error is fine, and so is any binding of the key parameters
			v.errOK = true
			v.openTail = why
			for _, p := range c.Key {
				set(p.Name, nil)
			}
		}
		wellFormed := len(tail)%2 == 0
		for i := 0; wellFormed && i < len(tail); i += 2 {
			wellFormed = isKeyword(tail[i])
		}
		switch {
		case wellFormed:
			known := map[string]int{}
			for i, p := range c.Key {
				known[":"+p.Name] = i
			}
			supplied := make([][]string, len(c.Key))
			last := -1
			for i := 0; i < len(tail); i += 2 {
				ki, has := known[strings.ToLower(tail[i])]
				if !has {
					v.unknownKey = true
					v.errOK = true // slip documents that other keys are allowed; CLHS makes it an error
					continue
				}
				if len(supplied[ki]) > 0 {
					v.dupKey = true // CLHS: the first one is used; the property leaves it open
				}
				if ki < last {
					v.keyOutOfOrder = true
				}
				last = ki
				supplied[ki] = append(supplied[ki], argText(tail[i+1]))
			}
			for i, p := range c.Key {
				if len(supplied[i]) > 0 {
					set(p.Name, supplied[i])
				} else {
					v.usedDefault = true
					set(p.Name, defValue(p.Def, env))
				}
			}
		case both:
			open("&rest and &key with a tail that is not keyword/value pairs")
		case len(tail)%2 == 1:
			v.reject = "odd number of keyword arguments"
			return
		default:
			// CLHS 3.5.1.5 leaves the consequences open outside safe code; the property statement is silent
			open("a non-keyword in keyword position")
		}
	}
	for _, p := range c.Aux {
		set(p.Name, defValue(p.Def, env))
	}
	return
}
