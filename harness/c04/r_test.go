package c04

import (
	"fmt"
	"io"
	"strconv"
	"strings"
	"testing"

	"github.com/ohler55/slip"
	"pgregory.net/rapid"

	"verif/harness/internal/ev"
	"verif/harness/internal/h"
)

// ---- Part R: one name, several definitions ------------------------------------------------------------------
//
// The same function name is defined with lambda list shape 0, called (whatever slip keeps per function - resolved
// call sites, cached counts - is warm then), defined again with shape 1 (and 2), and after every definition called with
// every argument vector through every call form. The oracle is the reference binder applied to the lambda list that
// is current at the time of the call; the body of each definition marks its own index, so a call that runs the body
// of an earlier definition shows too.

// CaseR is a history of definitions of one name.
type CaseR struct {
	// Shapes are the lambda lists of the successive definitions (Args and Outer are not used).
	Shapes []Case `json:"shapes"`
	// Vecs are the argument vectors; each is used after every definition.
	Vecs [][]string `json:"vecs"`
	// Forward: the functions that contain a compiled call of the name are defined before the name is (forward
	// reference); otherwise right after its first definition.
	Forward bool `json:"forward,omitempty"`
	// Early (with Forward): one of those callers is called once before the name is defined.
	Early bool `json:"early,omitempty"`
	// Rot rotates the list of calls made after each definition, so that any of them can be the first one.
	Rot int `json:"rot,omitempty"`
	// Docs: bit k set = definition k carries a documentation string (a redefinition must take over the whole new
	// definition also when only one of the two has documentation)
	Docs int `json:"docs,omitempty"`
	// Unbind: bit k set (k >= 1) = the name is made unbound with fmakunbound right before definition k; the callers
	// compiled earlier must see definition k all the same
	Unbind int `json:"unbind,omitempty"`
	// Generic: the name is a generic function (defgeneric, then one unspecialised defmethod per definition); only when
	// every shape has required parameters only and all have the same number of them (Docs and Unbind are not used)
	Generic bool `json:"generic,omitempty"`
}

var callForms = []string{"direct", "funcall-name", "funcall-function", "apply-name", "compiled-caller"}

func runR(c CaseR) *h.Result {
	res := &h.Result{}
	if len(c.Shapes) < 2 || len(c.Vecs) == 0 {
		return h.Fail("bad case: %d shapes, %d vectors", len(c.Shapes), len(c.Vecs))
	}
	res.Classes = append(res.Classes, "R:definitions:"+strconv.Itoa(len(c.Shapes)))
	switch {
	case c.Forward && c.Early:
		res.Classes = append(res.Classes, "R:callers-compiled-before-the-definition-and-called-early")
	case c.Forward:
		res.Classes = append(res.Classes, "R:callers-compiled-before-the-definition")
	default:
		res.Classes = append(res.Classes, "R:callers-compiled-after-the-first-definition")
	}
	// verdicts of every (definition, vector)
	verdicts := make([][]verdict, len(c.Shapes))
	for k, sh := range c.Shapes {
		for _, vec := range c.Vecs {
			sh.Args = vec
			sh.Outer = nil
			verdicts[k] = append(verdicts[k], bind(sh))
		}
	}
	for k := 1; k < len(c.Shapes); k++ {
		a, b := len(c.Shapes[k-1].Req), len(c.Shapes[k].Req)
		switch {
		case a < b:
			res.Classes = append(res.Classes, "R:required-grows")
		case a > b:
			res.Classes = append(res.Classes, "R:required-shrinks")
		default:
			res.Classes = append(res.Classes, "R:required-same")
		}
		// non-trivial: a redefinition changes the number of required parameters and some vector is accepted under
		// one of the two lambda lists and must be rejected under the other
		if a != b {
			for j := range c.Vecs {
				if (verdicts[k-1][j].reject == "") != (verdicts[k][j].reject == "") {
					res.NonTrivial = true
				}
			}
		}
	}
	generic := c.Generic
	for _, sh := range c.Shapes {
		if len(sh.Opt)+len(sh.Key)+len(sh.Aux) > 0 || sh.Rest != "" || len(sh.Req) != len(c.Shapes[0].Req) || len(sh.Req) == 0 {
			generic = false
		}
	}
	if generic {
		res.Classes = append(res.Classes, "R:generic-function")
	}
	n := fnCounter.Add(1)
	name := "c04r" + strconv.FormatInt(n, 10)
	caller := func(j int) string { return name + "c" + strconv.Itoa(j) }
	scope := slip.NewScope()
	scope.Let(slip.Symbol("*error-output*"), &slip.OutputStream{Writer: io.Discard}) // the redefinition warning
	defer func() {
		slip.CurrentPackage.Undefine(name)
		for j := range c.Vecs {
			slip.CurrentPackage.Undefine(caller(j))
		}
	}()
	var history []string
	fail := func(format string, args ...any) *h.Result {
		res.Err = fmt.Sprintf("%s\n  history: %s", fmt.Sprintf(format, args...), strings.Join(history, " "))
		return res
	}
	setup := func(src string) *h.Result {
		history = append(history, src)
		res.Evals++
		if o := ev.Eval(scope, src); o.Kind != ev.Value {
			return fail("definition failed: %s", o)
		}
		return nil
	}
	defCallers := func() *h.Result {
		for j, vec := range c.Vecs {
			if r := setup("(defun " + caller(j) + " () (" + name + evalArgs(vec) + "))"); r != nil {
				return r
			}
		}
		return nil
	}
	if c.Forward {
		if r := defCallers(); r != nil {
			return r
		}
		if c.Early {
			src := "(" + caller(0) + ")"
			history = append(history, src)
			res.Evals++
			_ = ev.Eval(scope, src) // undefined function; the outcome is not judged here
		}
	}
	type one struct {
		form string
		vec  int
		src  string
	}
	for k, sh := range c.Shapes {
		ps := sh.Params()
		mark := "entered-" + strconv.Itoa(k)
		if k > 0 && c.Unbind&(1<<k) != 0 && !generic {
			if r := setup("(fmakunbound '" + name + ")"); r != nil {
				return r
			}
			res.Classes = append(res.Classes, "R:fmakunbound-before-redefinition")
		}
		doc := ""
		if c.Docs&(1<<k) != 0 && !generic {
			doc = " \"definition " + strconv.Itoa(k) + "\""
			res.Classes = append(res.Classes, "R:docstring")
		}
		if generic {
			if k == 0 {
				if r := setup("(defgeneric " + name + " " + sh.LambdaList() + ")"); r != nil {
					return r
				}
			}
			if r := setup("(defmethod " + name + " " + sh.LambdaList() + " (vt:mark '" + mark + ") (list " + strings.Join(ps, " ") + "))"); r != nil {
				return r
			}
		} else if r := setup("(defun " + name + " " + sh.LambdaList() + doc + " (vt:mark '" + mark + ") (list " + strings.Join(ps, " ") + "))"); r != nil {
			return r
		}
		if k == 0 && !c.Forward {
			if r := defCallers(); r != nil {
				return r
			}
		}
		var list []one
		for j, vec := range c.Vecs {
			args := evalArgs(vec)
			list = append(list,
				one{"direct", j, "(" + name + args + ")"},
				one{"funcall-name", j, "(funcall '" + name + args + ")"},
				one{"funcall-function", j, "(funcall #'" + name + args + ")"},
				one{"apply-name", j, "(apply '" + name + " '(" + strings.Join(vec, " ") + "))"},
				one{"compiled-caller", j, "(" + caller(j) + ")"},
			)
		}
		rot := c.Rot % len(list)
		if rot < 0 {
			rot += len(list)
		}
		list = append(list[rot:], list[:rot]...)
		for _, cl := range list {
			history = append(history, cl.src)
			res.Evals++
			ev.ResetTrace()
			o := ev.Eval(scope, cl.src)
			in := false
			for _, e := range ev.Trace() {
				if strings.HasPrefix(e.ID, "entered-") {
					in = true
					if e.ID != mark {
						return fail("%s after definition %d %s: the body of definition %s ran", cl.src, k, sh.LambdaList(), strings.TrimPrefix(e.ID, "entered-"))
					}
				}
			}
			if msg := judge(sh, verdicts[k][cl.vec], ps, o, in); msg != "" {
				return fail("%s (%s) after definition %d with lambda list %s: %s; outcome %s", cl.src, cl.form, k, sh.LambdaList(), msg, o)
			}
		}
	}
	return res
}

func genR(rt *rapid.T) (c CaseR) {
	n := rapid.IntRange(2, 3).Draw(rt, "ndefs")
	c.Generic = rapid.IntRange(0, 4).Draw(rt, "generic") == 0
	arity := rapid.IntRange(1, 3).Draw(rt, "generic-arity")
	for i := 0; i < n; i++ {
		var sh Case
		if c.Generic {
			// required parameters only, the same number in every definition, other names each time
			for k := 0; k < arity; k++ {
				sh.Req = append(sh.Req, fmt.Sprintf("g%d%c", i, 'a'+k))
			}
		} else if i > 0 && rapid.IntRange(0, 3).Draw(rt, "variant") == 0 {
			// the previous shape with one required parameter more or less (the smallest change of the arity)
			sh = c.Shapes[i-1]
			sh.Req = append([]string{}, sh.Req...)
			if len(sh.Req) > 0 && rapid.Bool().Draw(rt, "drop") {
				sh.Req = sh.Req[1:]
				// defaults may name the dropped parameter: make them literals
				fix := func(ps []Param) []Param {
					out := append([]Param{}, ps...)
					for i := range out {
						if refDefault(out[i].Def) {
							out[i].Def = "77"
						}
					}
					return out
				}
				sh.Opt, sh.Key, sh.Aux = fix(sh.Opt), fix(sh.Key), fix(sh.Aux)
			} else {
				sh.Req = append(sh.Req, "zq"+strconv.Itoa(i))
			}
		} else {
			sh = genShape(rt)
		}
		c.Shapes = append(c.Shapes, sh)
	}
	// a vector drawn for each lambda list, and one more for one of them
	for _, sh := range c.Shapes {
		c.Vecs = append(c.Vecs, genArgs(rt, sh))
	}
	c.Vecs = append(c.Vecs, genArgs(rt, c.Shapes[rapid.IntRange(0, n-1).Draw(rt, "extrafor")]))
	for j := range c.Vecs {
		if c.Vecs[j] == nil {
			c.Vecs[j] = []string{}
		}
	}
	c.Forward = rapid.Bool().Draw(rt, "forward")
	if c.Forward {
		c.Early = rapid.Bool().Draw(rt, "early")
	}
	c.Rot = rapid.IntRange(0, len(c.Vecs)*len(callForms)-1).Draw(rt, "rot")
	c.Docs = rapid.IntRange(0, 1<<n-1).Draw(rt, "docs")
	if rapid.IntRange(0, 2).Draw(rt, "unbind") == 0 {
		c.Unbind = rapid.IntRange(1, 1<<n-1).Draw(rt, "unbindmask") &^ 1
	}
	return
}

var (
	propR     = h.Prop[CaseR]{Name: "R-redefinition", Gen: genR, Run: runR}
	propRGrid = h.Prop[CaseR]{Name: "R-redefinition-grid", Run: runR}
)

// gridR enumerates: ordered pairs of different lambda lists out of {0-2 required} x {0-1 optional} x {0-1 key}
// (132 pairs; thorough: followed by the first one again) x callers compiled after the first definition | before it |
// before it and called early x two rotations of the call list; 12 fixed argument vectors (5 with an explicit nil).
func gridR(three bool, yield func(CaseR) bool) {
	var shapes []Case
	for nreq := 0; nreq <= 2; nreq++ {
		for nopt := 0; nopt <= 1; nopt++ {
			for nkey := 0; nkey <= 1; nkey++ {
				var c Case
				for i := 0; i < nreq; i++ {
					c.Req = append(c.Req, "r"+strconv.Itoa(i))
				}
				if nopt == 1 {
					c.Opt = []Param{{Name: "o0", Def: "70"}}
				}
				if nkey == 1 {
					c.Key = []Param{{Name: "k0", Def: "80"}}
				}
				shapes = append(shapes, c)
			}
		}
	}
	vecs := [][]string{{}, {"101"}, {"101", "102"}, {"101", "102", "103"}, {"101", "102", "103", "104"}, {":k0", "200"}, {"101", "102", ":k0", "200"},
		{"nil"}, {"101", "nil"}, {"101", "102", "nil"}, {":k0", "nil"}, {"101", "102", ":k0", "nil"}}
	idx := 0
	for i, a := range shapes {
		for j, b := range shapes {
			if i == j {
				continue
			}
			for mode := 0; mode < 3; mode++ {
				for _, rot := range []int{0, 8} { // first call: direct with no argument | apply-name with one argument
					idx++
					if idx%h.C.NShards != h.C.Shard {
						continue
					}
					c := CaseR{Shapes: []Case{a, b}, Vecs: vecs, Forward: mode > 0, Early: mode == 2, Rot: rot, Docs: idx % 4, Unbind: (idx / 4 % 3 / 2) * 6}
					if three {
						c.Shapes = append(c.Shapes, a)
					}
					if !yield(c) {
						return
					}
				}
			}
		}
	}
}

func TestR(t *testing.T) {
	rules()
	h.RunProp(t, propRGrid, 0)
	h.RunProp(t, propR, h.N(2500, 25000))
	h.Enumerate(t, propRGrid, func(yield func(CaseR) bool) { gridR(h.Thorough(), yield) })
}
