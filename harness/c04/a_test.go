package c04

import (
	"fmt"
	"strconv"
	"strings"
	"sync"
	"sync/atomic"
	"testing"

	"github.com/ohler55/slip"
	"pgregory.net/rapid"

	"verif/harness/internal/ev"
	"verif/harness/internal/h"
	"verif/harness/internal/sx"
)

// ---- Part A: user functions -------------------------------------------------

var fnCounter atomic.Int64

// globalVar is a parameter name that is also a global variable (defined once, never changed).
const globalVar = "c04-gv"

func init() {
	ev.MustEval(slip.NewScope(), "(defvar "+globalVar+" 'outer-global)")
}

func evalArg(a string) string {
	if isKeyword(a) || (a[0] >= '0' && a[0] <= '9') || a[0] == '-' {
		return a
	}
	return "'" + a
}

func evalArgs(as []string) string {
	var b strings.Builder
	for _, a := range as {
		b.WriteByte(' ')
		b.WriteString(evalArg(a))
	}
	return b.String()
}

// call is one way of calling the function.
type call struct {
	style string
	src   string
	defun string // name to undefine afterwards
}

// calls builds every way the case is called: defun + call, funcall/apply of the name, lambda + funcall,
// lambda + apply with the last list split at every point.
func calls(c Case, valid bool) (out []call) {
	ps := c.Params()
	// every parameter is also a body form of its own (a bare symbol in the body is compiled apart from one in a call)
	body := "(vt:mark 'entered) " + strings.Join(ps, " ") + " (list " + strings.Join(ps, " ") + ")"
	ll := c.LambdaList()
	wrap := func(src string) string {
		if len(c.Outer) == 0 {
			return src
		}
		var b strings.Builder
		b.WriteString("(let (")
		for _, o := range c.Outer {
			fmt.Fprintf(&b, "(%s 'outer-%s)", o, o)
		}
		b.WriteString(") ")
		b.WriteString(src)
		b.WriteString(")")
		return b.String()
	}
	lam := "(lambda " + ll + " " + body + ")"
	args := evalArgs(c.Args)
	name := "c04f" + strconv.FormatInt(fnCounter.Add(1), 10)
	def := "(defun " + name + " " + ll + " " + body + ")"
	out = append(out,
		call{style: "defun", src: wrap("(progn " + def + " (" + name + args + "))"), defun: name},
		call{style: "funcall-lambda", src: wrap("(funcall " + lam + args + ")")},
		// the definition spells the name with a capital letter, the call does not: symbols are compared without regard to case
		call{style: "defun-capitalised", src: wrap("(progn (defun C" + name[1:] + " " + ll + " " + body + ") (" + name + args + "))"), defun: name},
		call{style: "funcall-name", src: wrap("(progn " + def + " (funcall '" + name + args + "))"), defun: name},
		call{style: "funcall-function", src: wrap("(progn " + def + " (funcall #'" + name + args + "))"), defun: name},
		call{style: "apply-name", src: wrap("(progn " + def + " (apply '" + name + " '(" + strings.Join(c.Args, " ") + ")))"), defun: name},
	)
	if valid && len(c.Args) >= 2 {
		// the call is written once in a function that calls itself while the last argument of that call is being
		// evaluated: the activation of the same call expression inside gets another first argument; the outer one must
		// still bind its own arguments. Run twice, the second time every call expression is resolved already.
		n := len(c.Args)
		rec := name + "r"
		site := "(" + name + " (if (= n 2) " + evalArg(c.Args[0]) + " 'c04-inner)" + evalArgs(c.Args[1:n-1]) +
			" (progn (ignore-errors (" + rec + " (- n 1))) " + evalArg(c.Args[n-1]) + "))"
		out = append(out, call{style: "reentrant-call-site", defun: name,
			src: wrap("(progn " + def + " (defun " + rec + " (n) (if (< n 1) nil " + site + ")) (ignore-errors (" + rec + " 2)) (vt:mark 'second-run) (" + rec + " 2))")})
	}
	for k := 0; k <= len(c.Args); k++ {
		lst := "'(" + strings.Join(c.Args[k:], " ") + ")"
		out = append(out, call{style: "apply-lambda/" + strconv.Itoa(k), src: wrap("(apply " + lam + evalArgs(c.Args[:k]) + " " + lst + ")")})
	}
	return
}

func entered() bool {
	for _, e := range ev.Trace() {
		if e.ID == "entered" {
			return true
		}
	}
	return false
}

// arityFamily is the exclusion of C04-F? style findings decided by the case alone.
func runA(c Case) *h.Result {
	v := bind(c)
	res := &h.Result{}
	switch {
	case v.reject != "":
		res.Classes = append(res.Classes, "A:must-reject:"+v.reject)
	default:
		if v.openTail != "" {
			res.Classes = append(res.Classes, "A:open-tail:"+v.openTail)
		} else {
			res.Classes = append(res.Classes, "A:valid")
		}
		for _, fl := range []struct {
			on    bool
			label string
		}{{v.usedDefault, "A:valid:default-used"}, {v.keyOutOfOrder, "A:valid:key-out-of-order"}, {v.dupKey, "A:valid:duplicate-key"}, {v.unknownKey, "A:valid:unknown-key"}} {
			if fl.on {
				res.Classes = append(res.Classes, fl.label)
			}
		}
	}
	res.Classes = append(res.Classes, fmt.Sprintf("A:shape:req%d-opt%d-rest%d-key%d-aux%d", len(c.Req), len(c.Opt), btoi(c.Rest != ""), len(c.Key), len(c.Aux)),
		"A:nargs:"+strconv.Itoa(len(c.Args)))
	if len(c.Outer) > 0 {
		res.Classes = append(res.Classes, "A:outer-binding")
	}
	if c.hasFormDefault() {
		res.Classes = append(res.Classes, "A:default-form")
	}
	for _, a := range c.Args {
		if a == "nil" || a == "()" {
			res.Classes = append(res.Classes, "A:explicit-nil-argument")
			break
		}
	}
	res.NonTrivial = c.sections() >= 2 && (v.usedDefault || v.keyOutOfOrder || v.reject != "")
	if tag := excludedA(c, v); tag != "" {
		res.Skip = tag
		return res
	}
	cs := calls(c, v.reject == "")
	res.Evals = len(cs)
	ps := c.Params()
	for _, cl := range cs {
		ev.ResetTrace()
		scope := slip.NewScope()
		o := ev.Eval(scope, cl.src)
		in := entered()
		if cl.defun != "" {
			slip.CurrentPackage.Undefine(cl.defun)
			if slip.FindFunc(cl.defun+"r") != nil {
				slip.CurrentPackage.Undefine(cl.defun + "r")
			}
		}
		fail := func(format string, args ...any) *h.Result {
			res.Err = fmt.Sprintf("%s: %s\n  lambda list %s args (%s)\n  source %s\n  outcome %s", cl.style, fmt.Sprintf(format, args...),
				c.LambdaList(), strings.Join(c.Args, " "), cl.src, o)
			return res
		}
		if msg := judge(c, v, ps, o, in); msg != "" {
			return fail("%s", msg)
		}
	}
	return res
}

// judge compares the outcome of one call with the verdict of the reference binder; in tells whether the body ran.
// It returns "" when the call behaved as the lambda list prescribes.
func judge(c Case, v verdict, ps []string, o ev.Outcome, in bool) string {
	if o.Kind == ev.Fault {
		return "host fault"
	}
	if v.reject != "" {
		if o.Kind == ev.Value {
			return fmt.Sprintf("the call must be rejected (%s) but returned a value", v.reject)
		}
		if in {
			return fmt.Sprintf("the call must be rejected (%s) but the body ran", v.reject)
		}
		return ""
	}
	if o.Kind != ev.Value {
		if v.errOK {
			return ""
		}
		return "valid call signalled"
	}
	var got slip.List
	switch tv := o.Val.(type) {
	case nil:
	case slip.List:
		got = tv
	default:
		return "result is not a list"
	}
	if len(got) != len(ps) {
		return fmt.Sprintf("result has %d elements, %d parameters", len(got), len(ps))
	}
	for i, g := range got {
		if v.accept[i] == nil {
			continue
		}
		gt := sx.Text(g)
		ok := false
		for _, a := range v.accept[i] {
			if a == gt {
				ok = true
				break
			}
		}
		if !ok {
			return fmt.Sprintf("parameter %s is bound to %s, expected %s", ps[i], gt, strings.Join(v.accept[i], " or "))
		}
	}
	return ""
}

func btoi(b bool) int {
	if b {
		return 1
	}
	return 0
}

// excludedA names the open finding (if any, and if its exclusion is active) whose root cause covers the case.
// Every predicate is over the case and the verdict of the reference binder, never over slip's outcome.
func excludedA(c Case, v verdict) string {
	return ""
}

// ---- generator ---------------------------------------------------------------

// (e is a constant in slip and can not be a parameter)
var namePool = []string{"a", "b", "c", "d", "f", "g", "h", "i", "j", "k", globalVar}

func genDefault(rt *rapid.T, earlier []string, label string) string {
	switch rapid.IntRange(0, 9).Draw(rt, label+"-defkind") {
	case 0, 1, 2:
		return ""
	case 3, 4:
		return strconv.Itoa(rapid.IntRange(70, 79).Draw(rt, label+"-defint"))
	case 5:
		return rapid.SampledFrom([]string{`"str"`, ":dk", "t", `""`}).Draw(rt, label+"-deflit")
	case 6:
		return rapid.SampledFrom([]string{"(+ 30 3)", "(list 41 42)", "'q"}).Draw(rt, label+"-defform")
	case 7:
		if len(earlier) > 0 {
			return rapid.SampledFrom(earlier).Draw(rt, label+"-defref")
		}
		return "'q"
	}
	return strconv.Itoa(rapid.IntRange(80, 89).Draw(rt, label+"-defint2"))
}

func genCase(rt *rapid.T) (c Case) {
	c = genShape(rt)
	c.Args = genArgs(rt, c)
	for _, p := range c.Params() {
		if rapid.IntRange(0, 7).Draw(rt, "outer") == 0 {
			c.Outer = append(c.Outer, p)
		}
	}
	return
}

// genShape draws a lambda list.
func genShape(rt *rapid.T) (c Case) {
	names := rapid.Permutation(namePool).Draw(rt, "names")
	next := 0
	take := func() string {
		next++
		return names[next-1]
	}
	var earlier []string
	nreq := rapid.IntRange(0, 3).Draw(rt, "nreq")
	for i := 0; i < nreq; i++ {
		c.Req = append(c.Req, take())
	}
	earlier = append(earlier, c.Req...)
	nopt := rapid.IntRange(0, 2).Draw(rt, "nopt")
	for i := 0; i < nopt; i++ {
		p := Param{Name: take()}
		p.Def = genDefault(rt, earlier, "opt")
		c.Opt = append(c.Opt, p)
		earlier = append(earlier, p.Name)
	}
	if rapid.IntRange(0, 2).Draw(rt, "rest") == 0 {
		c.Rest = take()
		c.Body = rapid.IntRange(0, 3).Draw(rt, "body-for-rest") == 0
	}
	nkey := rapid.IntRange(0, 3).Draw(rt, "nkey")
	for i := 0; i < nkey; i++ {
		p := Param{Name: take()}
		// a key default may refer to required and optional parameters (not to &rest: its value is open when keys follow)
		p.Def = genDefault(rt, earlier, "key")
		c.Key = append(c.Key, p)
	}
	naux := rapid.IntRange(0, 3).Draw(rt, "naux")
	if naux == 3 {
		naux = 0
	}
	for i := 0; i < naux; i++ {
		p := Param{Name: take()}
		p.Def = genDefault(rt, earlier, "aux")
		c.Aux = append(c.Aux, p)
	}
	return
}

// genArgs draws an argument vector of length 0-8 for the lambda list of c.
func genArgs(rt *rapid.T, c Case) []string {
	nreq, nopt, nkey := len(c.Req), len(c.Opt), len(c.Key)
	c.Args = nil
	val := 100
	value := func() string {
		val++
		switch rapid.IntRange(0, 13).Draw(rt, "valkind") {
		case 0:
			return "s" + strconv.Itoa(val)
		case 12, 13:
			// an explicit nil (or the empty list, or t): a supplied argument, however false, is not an absent one
			return rapid.SampledFrom([]string{"nil", "nil", "nil", "()", "t"}).Draw(rt, "falsy")
		case 1:
			// a keyword as a plain value: a declared key, the name of another parameter, or a foreign one
			cand := []string{":zz"}
			for _, p := range c.Params() {
				cand = append(cand, ":"+p)
			}
			return rapid.SampledFrom(cand).Draw(rt, "kwval")
		}
		return strconv.Itoa(val)
	}
	unknown := func() string {
		cand := []string{":zz", ":yy"}
		for _, p := range c.Req {
			cand = append(cand, ":"+p)
		}
		for _, p := range c.Opt {
			cand = append(cand, ":"+p.Name)
		}
		if c.Rest != "" {
			cand = append(cand, ":"+c.Rest)
		}
		for _, p := range c.Aux {
			cand = append(cand, ":"+p.Name)
		}
		return rapid.SampledFrom(cand).Draw(rt, "unknown")
	}
	if rapid.IntRange(0, 3).Draw(rt, "mode") > 0 {
		// structured: positional part, then a keyword part
		lo, hi := nreq, nreq+nopt
		var npos int
		switch k := rapid.IntRange(0, 9).Draw(rt, "poskind"); {
		case k < 6:
			npos = rapid.IntRange(lo, hi).Draw(rt, "npos")
		case k < 8 && lo > 0:
			npos = rapid.IntRange(0, lo-1).Draw(rt, "nposfew")
		default:
			npos = rapid.IntRange(hi, hi+3).Draw(rt, "nposmany")
		}
		for i := 0; i < npos; i++ {
			c.Args = append(c.Args, value())
		}
		if nkey > 0 {
			order := rapid.Permutation(c.Key).Draw(rt, "keyorder")
			nk := rapid.IntRange(0, nkey).Draw(rt, "nsupplied")
			for _, p := range order[:nk] {
				c.Args = append(c.Args, ":"+p.Name, value())
			}
			switch rapid.IntRange(0, 11).Draw(rt, "keytwist") {
			case 0: // unknown key
				at := rapid.IntRange(0, nk).Draw(rt, "unknownat")*2 + npos
				c.Args = insert(c.Args, at, unknown(), value())
			case 1: // duplicate key
				if nk > 0 {
					at := rapid.IntRange(0, nk).Draw(rt, "dupat")*2 + npos
					c.Args = insert(c.Args, at, ":"+order[rapid.IntRange(0, nk-1).Draw(rt, "dupwhich")].Name, value())
				}
			case 2: // odd tail
				if nk > 0 {
					c.Args = c.Args[:len(c.Args)-1]
				} else {
					c.Args = append(c.Args, ":"+c.Key[0].Name)
				}
			case 3: // a non-keyword in keyword position
				at := rapid.IntRange(0, nk).Draw(rt, "nonkwat")*2 + npos
				c.Args = insert(c.Args, at, value(), value())
			}
		}
	} else {
		n := rapid.IntRange(0, 8).Draw(rt, "nfree")
		for i := 0; i < n; i++ {
			if nkey > 0 && rapid.IntRange(0, 2).Draw(rt, "freekw") == 0 {
				if rapid.IntRange(0, 4).Draw(rt, "freeunknown") == 0 {
					c.Args = append(c.Args, unknown())
				} else {
					c.Args = append(c.Args, ":"+c.Key[rapid.IntRange(0, nkey-1).Draw(rt, "freekey")].Name)
				}
			} else {
				c.Args = append(c.Args, value())
			}
		}
	}
	if len(c.Args) > 8 {
		c.Args = c.Args[:8]
	}
	return c.Args
}

func insert(as []string, at int, xs ...string) []string {
	if at > len(as) {
		at = len(as)
	}
	out := append([]string{}, as[:at]...)
	out = append(out, xs...)
	return append(out, as[at:]...)
}

var (
	propA     = h.Prop[Case]{Name: "A-binding", Gen: genCase, Run: runA}
	propAGrid = h.Prop[Case]{Name: "A-binding-grid", Run: runA}
)

// gridShapes enumerates lambda list shapes: 0-3 required x 0-2 optional x rest x 0-3 keys x 0-1 aux; in the thorough
// tier every with/without-default pattern, in the quick tier the alternating pattern.
func gridShapes(all bool, yield func(Case) bool) {
	patterns := func(n int) [][]bool {
		if !all {
			p := make([]bool, n)
			for i := range p {
				p[i] = i%2 == 0
			}
			return [][]bool{p}
		}
		var out [][]bool
		for m := 0; m < 1<<n; m++ {
			p := make([]bool, n)
			for i := range p {
				p[i] = m>>i&1 == 1
			}
			out = append(out, p)
		}
		return out
	}
	for nreq := 0; nreq <= 3; nreq++ {
		for nopt := 0; nopt <= 2; nopt++ {
			for _, od := range patterns(nopt) {
				for rest := 0; rest <= 2; rest++ { // 2: the rest parameter after &body
					for nkey := 0; nkey <= 3; nkey++ {
						for _, kd := range patterns(nkey) {
							for naux := 0; naux <= 1; naux++ {
								var c Case
								for i := 0; i < nreq; i++ {
									c.Req = append(c.Req, "r"+strconv.Itoa(i))
								}
								for i := 0; i < nopt; i++ {
									p := Param{Name: "o" + strconv.Itoa(i)}
									if od[i] {
										p.Def = strconv.Itoa(70 + i)
									}
									c.Opt = append(c.Opt, p)
								}
								if rest >= 1 {
									c.Rest = "more"
									c.Body = rest == 2
								}
								for i := 0; i < nkey; i++ {
									p := Param{Name: "k" + strconv.Itoa(i)}
									if kd[i] {
										p.Def = strconv.Itoa(80 + i)
									}
									c.Key = append(c.Key, p)
								}
								if naux == 1 {
									c.Aux = []Param{{Name: "x", Def: "90"}}
								}
								if !yield(c) {
									return
								}
							}
						}
					}
				}
			}
		}
	}
}

// gridArgs enumerates the argument vectors of one shape: every positional count from 0 to required+optional+2,
// (all integers; the last one nil; all nil) followed by each keyword tail of a fixed family (none, each key alone with
// an integer and with nil as value, all keys in order, all keys reversed,
// a duplicated key, an unknown key, a key without value); at most 8 arguments.
func gridArgs(c Case, yield func(Case) bool) bool {
	var tails [][]string
	tails = append(tails, nil)
	if nk := len(c.Key); nk > 0 {
		var fwd, rev []string
		for i, p := range c.Key {
			tails = append(tails, []string{":" + p.Name, strconv.Itoa(200 + i)}, []string{":" + p.Name, "nil"})
			fwd = append(fwd, ":"+p.Name, strconv.Itoa(200+i))
			rev = append([]string{":" + p.Name, strconv.Itoa(200 + i)}, rev...)
		}
		if nk > 1 {
			tails = append(tails, fwd, rev)
		}
		tails = append(tails,
			[]string{":" + c.Key[0].Name, "210", ":" + c.Key[0].Name, "211"},
			[]string{":zz", "220", ":" + c.Key[nk-1].Name, "221"},
			[]string{":" + c.Key[nk-1].Name},
		)
		if len(c.Req) > 0 {
			tails = append(tails, []string{":" + c.Req[0], "230"})
		}
	}
	for npos := 0; npos <= len(c.Req)+len(c.Opt)+2; npos++ {
		for _, tl := range tails {
			if npos+len(tl) > 8 {
				continue
			}
			cc := c
			cc.Args = nil
			for i := 0; i < npos; i++ {
				cc.Args = append(cc.Args, strconv.Itoa(101+i))
			}
			cc.Args = append(cc.Args, tl...)
			if !yield(cc) {
				return false
			}
			if npos > 0 {
				// the same with an explicit nil as last positional argument (the last required, an optional, the
				// first of the rest, or one too many), and with nil for all of them
				for _, all := range []bool{false, true} {
					nc := c
					nc.Args = append([]string{}, cc.Args...)
					for i := 0; i < npos; i++ {
						if all || i == npos-1 {
							nc.Args[i] = "nil"
						}
					}
					if all && npos == 1 {
						nc.Args[0] = "()"
					}
					if !yield(nc) {
						return false
					}
				}
			}
		}
	}
	return true
}

// rules records the generation rule and the trusted base in the evidence.
func rules() { rulesOnce.Do(rulesDo) }

var rulesOnce sync.Once

func rulesDo() {
	h.Rule("A (user functions): lambda list shape (0-3 required x 0-2 &optional x &rest x 0-3 &key x 0-2 &aux; each default absent | literal | form | " +
		"name of an earlier parameter; names from a pool of 11, one of them a global variable; each parameter with probability 1/8 also bound by a let around definition and call) " +
		"x argument vector of length 0-8 (3/4 structured: positional count inside, below or above the range, then a permutation of a subset of the keys, optionally with an unknown key " +
		"(also one named like another parameter), a repeated key, a missing value or a non-keyword; 1/4 free draws of integers, symbols, declared and foreign keywords; one value in seven is an explicit nil, () or t). Every case is called " +
		"6+n ways: defun+call, funcall 'name, funcall #'name, apply 'name, lambda+funcall, lambda+apply with the list split at every point. Oracle: reference binder written from CLHS 3.4.1 " +
		"working on the text of the case: exact list of parameter values, or 'must be rejected before the body runs' (vt:mark in the body). Grid: every shape (thorough: every default pattern) x " +
		"positional count 0..required+optional+2 x a fixed family of keyword tails. Non-trivial A: at least 2 lambda list sections and the call uses a default, supplies keys out of " +
		"declaration order, or must be rejected. B (built-ins): every function of every linked package x every argument count 0..documented max+2 (min+3 when unbounded; with &key: the positional " +
		"counts, a keyword without value, then 1, 2 and all documented keys), really called in a child process with a neutral sample per documented argument type; count inside the documented " +
		"range -> the outcome is not the function's own argument count error; outside -> the outcome is not a normal return. Non-trivial B: count in {min-1, min, max, max+1}. " +
		"R (redefinition): one name is defined 2-3 times with different lambda lists (drawn as in A, or the previous one with one required parameter more or less); functions holding a compiled " +
		"call of the name are defined before the name (forward reference, optionally called once before it exists) or after its first definition; after every definition 3-4 argument vectors " +
		"(drawn for each of the lambda lists) are passed through 5 call forms (direct, funcall 'name, funcall #'name, apply 'name, the compiled caller) in a rotated order; the reference binder is " +
		"applied to the lambda list current at the call and the body marks the index of its definition. Grid: 132 ordered pairs of {0-2 required x 0-1 optional x 0-1 key} x 3 caller modes x 2 " +
		"rotations x 12 vectors (5 with an explicit nil). Non-trivial R: a redefinition changes the number of required parameters and some vector is valid under one list and must be rejected under the other. " +
		"Distinct by the JSON of the case.")
	h.Assume("the reference binder (harness/c04/binder_test.go, about 150 lines, independent of slip)")
	h.Assume("vt:mark (Go side trace) shows whether the body ran; results are compared through internal/sx")
	h.Assume("FuncDoc.Args of a FuncInfo is the function's documented lambda list (it is what describe prints)")
	h.Assume("part B: a host fault (Go runtime error) on a count outside the documented range counts as 'rejected'; faults are judged by C09")
	h.Assume("part B: the argument count error family is the one of argcounterror.go ('Too few|many arguments to <name>.'), the generic function variant and the message of Lambda.Call")
}

func TestA(t *testing.T) {
	rules()
	h.RunProp(t, propAGrid, 0)
	h.RunProp(t, propA, h.N(12000, 100000))
	h.Enumerate(t, propAGrid, func(yield func(Case) bool) {
		idx := 0
		gridShapes(h.Thorough(), func(c Case) bool {
			idx++
			if idx%h.C.NShards != h.C.Shard {
				return true
			}
			return gridArgs(c, yield)
		})
	})
}
