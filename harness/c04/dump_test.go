package c04

import (
	"fmt"
	"os"
	"sort"
	"strings"
	"testing"

	"github.com/ohler55/slip"
	_ "verif/harness/internal/ev"
)

// TestDump lists every function with its documented lambda list (development aid; C04_DUMP=1).
func TestDump(t *testing.T) {
	if os.Getenv("C04_DUMP") == "" {
		t.Skip()
	}
	var lines []string
	for _, p := range slip.AllPackages() {
		p.EachFuncInfo(func(fi *slip.FuncInfo) {
			if fi.Pkg != p {
				return
			}
			var ll []string
			for _, da := range fi.Doc.Args {
				s := da.Name
				if da.Type != "" {
					s += "[" + da.Type + "]"
				}
				if da.Default != nil {
					s += "=" + slip.ObjectString(da.Default)
				}
				ll = append(ll, s)
			}
			lines = append(lines, fmt.Sprintf("%s\t%s\t%s\t(%s)", p.Name, fi.Name, fi.Kind, strings.Join(ll, " ")))
		})
	}
	sort.Strings(lines)
	for _, l := range lines {
		fmt.Println(l)
	}
}
