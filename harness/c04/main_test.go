package c04

import (
	"os"
	"testing"

	"verif/harness/internal/h"
)

func TestMain(m *testing.M) {
	if os.Getenv("C04_WORKER") != "" {
		runWorker() // part B child process; never returns
	}
	h.Main(m, "C04")
}
