package c04

import (
	"encoding/json"
	"fmt"
	"io"
	"os"
	"strings"

	"github.com/ohler55/slip"

	"verif/harness/internal/ev"
	"verif/harness/internal/sx"
)

// The worker: the test binary re-executed with C04_WORKER=1. It performs the calls listed in C04_JOBS one after
// another and appends "B <index>" before and "E <index> <outcome json>" after each call to C04_OUT.

// sampleByType gives, for one alternative of a documented argument type, the text of a form whose value is a
// neutral sample of that type (used where the argument is evaluated) and the text of the sample itself (used where
// the function takes the argument unevaluated).
var sampleByType = map[string][2]string{
	"number": {"1", "1"}, "real": {"1", "1"}, "rational": {"1", "1"}, "integer": {"1", "1"}, "fixnum": {"1", "1"},
	"octet": {"1", "1"}, "byte": {"1", "1"}, "unsigned-byte": {"1", "1"}, "bit": {"1", "1"},
	"float": {"1.5", "1.5"}, "double-float": {"1.5", "1.5"}, "single-float": {"1.5", "1.5"},
	"string": {`"abc"`, `"abc"`}, "pathname": {`"c04-file"`, `"c04-file"`}, "filepath": {`"c04-file"`, `"c04-file"`},
	"symbol": {"'c04-sym", "c04-sym"}, "keyword": {":test", ":test"}, "function-name": {"'c04-sym", "c04-sym"},
	"character": {`#\a`, `#\a`}, "boolean": {"t", "t"},
	"list": {"'((a 1) (b 2))", "((a 1) (b 2))"}, "cons": {"'((a 1) (b 2))", "((a 1) (b 2))"},
	"association list": {"'((a . 1) (b . 2))", "((a . 1) (b . 2))"}, "property list": {"'(a 1 b 2)", "(a 1 b 2)"},
	"lambda-list": {"'(x)", "(x)"},
	"sequence":    {"(list 1 2 3)", "(1 2 3)"}, "sequemce": {"(list 1 2 3)", "(1 2 3)"},
	"vector": {"(vector 1 2 3)", "#(1 2 3)"}, "simple-vector": {"(vector 1 2 3)", "#(1 2 3)"},
	"array":     {"(make-array '(2 2))", "#2A((1 2) (3 4))"},
	"bit-array": {"(make-array 4 :element-type 'bit)", "#*1010"}, "simple-bit-array": {"(make-array 4 :element-type 'bit)", "#*1010"},
	"bit-vector": {"(make-array 4 :element-type 'bit)", "#*1010"},
	"hash-table": {"(make-hash-table)", "(make-hash-table)"},
	"object":     {"1", "1"}, "value": {"1", "1"}, "t": {"1", "1"},
	"form": {"1", "1"}, "statement": {"1", "1"}, "tag": {"1", "1"},
	"place": {"c04-place", "c04-place"}, "placer": {"c04-place", "c04-place"}, "list placer": {"c04-lplace", "c04-lplace"},
	"function": {"'list", "list"}, "lambda": {"'list", "list"}, "function-designator": {"'list", "list"},
	"stream": {"(make-string-output-stream)", "c04-out"}, "output-stream": {"(make-string-output-stream)", "c04-out"},
	"string-output-stream": {"(make-string-output-stream)", "c04-out"},
	"input-stream":         {`(make-string-input-stream "abc def")`, "c04-in"},
	"broadcast-stream":     {"(make-broadcast-stream)", "c04-out"},
	"concatenated-stream":  {"(make-concatenated-stream)", "c04-in"},
	"two-way-stream":       {`(make-two-way-stream (make-string-input-stream "abc") (make-string-output-stream))`, "c04-in"},
	"echo-stream":          {`(make-echo-stream (make-string-input-stream "abc") (make-string-output-stream))`, "c04-in"},
	"synonym-stream":       {"(make-synonym-stream '*standard-output*)", "c04-out"},
	"package":              {`(find-package "c04-scratch")`, "c04-scratch"}, "package designator": {`"c04-scratch"`, "c04-scratch"},
	"condition": {"(make-condition 'error)", "1"},
	"instance":  {"(make-instance 'vanilla-flavor)", "1"}, "standard-object": {"(make-instance 'vanilla-flavor)", "1"},
	"class": {"(find-class 'vanilla-flavor)", "vanilla-flavor"}, "class designator": {"'vanilla-flavor", "vanilla-flavor"},
	"flavor": {"(find-flavor 'vanilla-flavor)", "vanilla-flavor"},
	"bag":    {"(make-bag '(1 2))", "1"}, "bag-path": {`"a"`, `"a"`},
	"time": {"(now)", "1"}, "uuid": {"(make-uuid)", "1"}, "octets": {"(make-octets 2)", "1"},
	"channel": {"(make-channel 100)", "1"}, "mutex": {"(make-mutex)", "1"},
	"random-state": {"(make-random-state)", "1"}, "type specifier": {"'fixnum", "fixnum"},
	"socket": {"(make-socket :domain :inet :type :stream)", "1"},
}

// the condition types that appear as argument types
var conditionTypes = []string{"arithmetic-error", "cell-error", "type-error", "simple-condition", "file-error", "package-error",
	"stream-error", "print-not-readable", "unbound-slot", "invalid-method-error"}

func init() {
	for _, ct := range conditionTypes {
		sampleByType[ct] = [2]string{"(make-condition '" + ct + ")", "1"}
	}
}

// sampleFor picks the sample for a documented argument. Alternatives (a|b|c) are tried in a fixed preference order.
func sampleFor(da *slip.DocArg, raw bool) (string, bool) {
	idx := 0
	if raw {
		idx = 1
	}
	name := strings.ToLower(da.Name)
	typ := strings.ToLower(da.Type)
	alts := strings.Split(typ, "|")
	// a function designator: a function that takes any number of arguments
	for _, a := range alts {
		if a == "lambda" || a == "function" || a == "function-designator" {
			return sampleByType["function"][idx], true
		}
	}
	switch name {
	case "function", "predicate", "test", "test-not", "key", "fn":
		return sampleByType["function"][idx], true
	}
	// prefer a list over a channel or stream (they may block), then the first known alternative
	for _, a := range alts {
		if a == "list" {
			return sampleByType["list"][idx], true
		}
	}
	for _, a := range alts {
		if s, has := sampleByType[strings.TrimSpace(a)]; has {
			return s[idx], true
		}
	}
	if s, has := sampleByType[typ]; has {
		return s[idx], true
	}
	return "1", false
}

// buildArgs builds the n argument forms of a call from the documented lambda list.
func buildArgs(fi *slip.FuncInfo, n int, scope *slip.Scope) (args slip.List, defaulted int) {
	skip := func(int) bool { return false }
	if f, ok := fi.Create(nil).(interface{ SkipArgEval(int) bool }); ok {
		skip = f.SkipArgEval
	}
	read := func(src string) slip.Object {
		code := slip.ReadString(src, scope)
		if len(code) == 0 {
			return nil
		}
		return code[0]
	}
	var req, opt []*slip.DocArg
	var rest *slip.DocArg
	var keys []*slip.DocArg
	mode := 0
	for _, da := range fi.Doc.Args {
		switch strings.ToLower(da.Name) {
		case slip.AmpOptional:
			mode = 1
		case slip.AmpRest, slip.AmpBody:
			mode = 2
		case slip.AmpKey:
			mode = 3
		case slip.AmpAllowOtherKeys:
		case slip.AmpAux:
			mode = 4
		default:
			switch mode {
			case 0:
				req = append(req, da)
			case 1:
				opt = append(opt, da)
			case 2:
				if rest == nil {
					rest = da
				}
			case 3:
				keys = append(keys, da)
			}
		}
	}
	pos := append(append([]*slip.DocArg{}, req...), opt...)
	add := func(da *slip.DocArg) {
		i := len(args)
		src, known := "1", false
		if da != nil {
			src, known = sampleFor(da, skip(i))
		}
		if !known {
			defaulted++
		}
		args = append(args, read(src))
	}
	for len(args) < n && len(args) < len(pos) {
		add(pos[len(args)])
	}
	switch {
	case len(args) == n:
	case rest != nil:
		for len(args) < n {
			add(rest)
		}
	case len(keys) > 0:
		for k := 0; len(args) < n; k++ {
			if k < len(keys) {
				args = append(args, slip.Symbol(":"+strings.TrimPrefix(strings.ToLower(keys[k].Name), ":")))
				if len(args) < n {
					add(keys[k])
				}
			} else {
				add(nil)
			}
		}
	default:
		// beyond the documented maximum: repeat the last documented argument (or a number)
		var last *slip.DocArg
		if len(pos) > 0 {
			last = pos[len(pos)-1]
		}
		for len(args) < n {
			add(last)
		}
	}
	return
}

func workerCall(c CaseB) (o outcomeB) {
	p := slip.FindPackage(c.Pkg)
	if p == nil {
		return outcomeB{Kind: "fault", Msg: "no package " + c.Pkg}
	}
	fi := p.GetFunc(c.Fn)
	if fi == nil {
		return outcomeB{Kind: "fault", Msg: "no function " + c.Fn}
	}
	scope := slip.NewScope()
	scope.Let(slip.Symbol("c04-place"), slip.Fixnum(1))
	scope.Let(slip.Symbol("c04-lplace"), slip.List{slip.Fixnum(1), slip.Fixnum(2)})
	scope.Let(slip.Symbol("c04-out"), &slip.OutputStream{Writer: io.Discard})
	scope.Let(slip.Symbol("c04-in"), slip.NewStringStream([]byte("abc def")))
	var args slip.List
	if r := ev.Try(func() slip.Object { args, _ = buildArgs(fi, c.N, scope); return nil }); r.Kind != ev.Value {
		return outcomeB{Kind: "fault", Msg: "harness: building the arguments failed: " + r.Msg}
	}
	r := ev.Try(func() slip.Object {
		switch c.Via {
		case "funcall":
			// (funcall <function object> arg...): the argument forms are evaluated by funcall
			return slip.NewFunc("funcall", append(slip.List{fi}, args...)).Eval(scope, 0)
		case "apply":
			// (apply <function object> (list arg...))
			return slip.NewFunc("apply", slip.List{fi, slip.NewFunc("list", args)}).Eval(scope, 0)
		}
		return slip.NewFunc(c.Pkg+"::"+c.Fn, args).Eval(scope, 0)
	})
	o.Kind, o.Class, o.Msg = r.Kind, r.Class, r.Msg
	if r.Kind == ev.Value {
		o.Msg = func() (s string) {
			defer func() {
				if recover() != nil {
					s = "?"
				}
			}()
			return sx.Text(r.Val)
		}()
	}
	if len(o.Msg) > 300 {
		o.Msg = o.Msg[:300]
	}
	return
}

// healthy checks after every call that the interpreter still works: an argument count error is still signalled as
// such and a plain call still returns its value.
func healthy() bool {
	scope := slip.NewScope()
	bad := ev.Eval(scope, "(car)")
	good := ev.Eval(scope, "(cadr (list 1 (make-hash-table)))")
	return bad.Kind == ev.Condition && strings.HasPrefix(bad.Msg, "Too few arguments to car") && good.Kind == ev.Value
}

func runWorker() {
	var jobs []CaseB
	b, err := os.ReadFile(os.Getenv("C04_JOBS"))
	if err == nil {
		err = json.Unmarshal(b, &jobs)
	}
	if err != nil {
		fmt.Fprintln(os.Stderr, "worker:", err)
		os.Exit(4)
	}
	out, err := os.OpenFile(os.Getenv("C04_OUT"), os.O_CREATE|os.O_WRONLY|os.O_APPEND, 0o644)
	if err != nil {
		fmt.Fprintln(os.Stderr, "worker:", err)
		os.Exit(4)
	}
	// a scratch package for the package designator samples; the standard output of the calls is discarded
	_ = ev.Eval(slip.NewScope(), `(make-package "c04-scratch")`)
	slip.StandardOutput = &slip.OutputStream{Writer: io.Discard}
	slip.ErrorOutput = &slip.OutputStream{Writer: io.Discard}
	for i, c := range jobs {
		fmt.Fprintf(out, "B %d\n", i)
		o := workerCall(c)
		jb, _ := json.Marshal(o)
		fmt.Fprintf(out, "E %d %s\n", i, jb)
		if !healthy() {
			// the call damaged interpreter-global state (later outcomes would be meaningless): tell the parent, which
			// continues with a fresh worker
			fmt.Fprintf(out, "X %d\n", i)
			break
		}
	}
	out.Close()
	os.Exit(0)
}
