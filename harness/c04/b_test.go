package c04

import (
	"encoding/json"
	"fmt"
	"os"
	"os/exec"
	"path/filepath"
	"regexp"
	"sort"
	"strconv"
	"strings"
	"sync"
	"sync/atomic"
	"testing"
	"time"
	"verif/harness/internal/ev"

	"github.com/ohler55/slip"

	"verif/harness/internal/h"
)

// ---- Part B: every built-in x every argument count ---------------------------------

// CaseB is one call: function Fn of package Pkg with N arguments.
type CaseB struct {
	Pkg string `json:"pkg"`
	Fn  string `json:"fn"`
	N   int    `json:"n"`
	// Via: "" = the call is a form (fn args...); "funcall" / "apply" = the function object is called with the evaluated
	// arguments through funcall or apply (ordinary functions only): the accepted counts are the same
	Via string `json:"via,omitempty"`
}

// viasOf: the ways a function is called in part B.
func viasOf(f fnInfo) []string {
	if f.ordinary {
		return []string{"", "funcall", "apply"}
	}
	return []string{""}
}

// arity is what a documented lambda list allows.
type arity struct {
	min, maxPos int      // required; required + optional
	unbounded   bool     // &rest or &body
	keys        []string // names after &key
	otherKeys   bool     // &allow-other-keys
}

// docArity derives the accepted argument counts from the documented lambda list (FuncDoc.Args).
func docArity(fd *slip.FuncDoc) (a arity) {
	mode := 0
	for _, da := range fd.Args {
		switch strings.ToLower(da.Name) {
		case slip.AmpOptional:
			mode = 1
		case slip.AmpRest, slip.AmpBody:
			mode = 2
			a.unbounded = true
		case slip.AmpKey:
			mode = 3
		case slip.AmpAllowOtherKeys:
			a.otherKeys = true
		case slip.AmpAux:
			mode = 4
		default:
			switch mode {
			case 0:
				a.min++
				a.maxPos++
			case 1:
				a.maxPos++
			case 3:
				a.keys = append(a.keys, strings.TrimPrefix(da.Name, ":"))
			}
		}
	}
	return
}

// counts lists the argument counts that are judged for a function and whether each is inside the documented
// range. 0 .. max+2 for a bounded lambda list, 0 .. min+3 for an unbounded one. With &key the documented maximum is
// positional + 2 x keys: the counts judged are the positional ones, then one more (a keyword without value, outside
// the range) and every even number of keyword arguments in documented order (inside). More than the documented keys
// means unknown or repeated keys, which the property leaves open.
func (a arity) counts() (ns []int, in []bool) {
	switch {
	case a.unbounded:
		for n := 0; n <= a.min+3; n++ {
			ns = append(ns, n)
			in = append(in, n >= a.min)
		}
	case len(a.keys) > 0:
		for n := 0; n <= a.maxPos; n++ {
			ns = append(ns, n)
			in = append(in, n >= a.min)
		}
		ns = append(ns, a.maxPos+1)
		in = append(in, false)
		nk := len(a.keys)
		for j := 1; j <= nk; j++ {
			if j > 2 && j < nk {
				continue // 1 key, 2 keys, all keys
			}
			ns = append(ns, a.maxPos+2*j)
			in = append(in, true)
		}
	default:
		for n := 0; n <= a.maxPos+2; n++ {
			ns = append(ns, n)
			in = append(in, n >= a.min && n <= a.maxPos)
		}
	}
	return
}

func (a arity) String() string {
	s := fmt.Sprintf("min %d", a.min)
	switch {
	case a.unbounded:
		s += ", no maximum"
	case len(a.keys) > 0:
		s += fmt.Sprintf(", %d positional then %d keys", a.maxPos, len(a.keys))
	default:
		s += fmt.Sprintf(", max %d", a.maxPos)
	}
	return s
}

// deny lists the functions that are never called, with the reason. The list is committed and reported.
var deny = map[string]string{
	// block by design or wait for an event
	"common-lisp:loop":        "loops for ever on plain forms",
	"common-lisp:sleep":       "blocks",
	"gi:channel-pop":          "blocks on an empty channel",
	"gi:signal-wait":          "waits for a signal",
	"gi:select":               "waits for a channel",
	"gi:time-ticker":          "starts a ticker that never stops",
	"test:benchmark":          "runs for a wall clock duration",
	"common-lisp:y-or-n-p":    "reads the terminal",
	"common-lisp:yes-or-no-p": "reads the terminal",
	// act on other processes, start programs or servers, use the network
	"gi:send-signal":          "signals another process",
	"gi:make-app":             "runs the Go tool chain",
	"swank:create-server":     "starts a server",
	"swank:restart-server":    "starts a server",
	"swank:setup-server":      "starts a server",
	"swank:start-server":      "starts a server",
	"swank:stop-server":       "stops a server",
	"swank:swank-server":      "starts a server",
	"swank:swank-stop":        "stops a server",
	"swank:swank-verbose":     "rebinds server flags",
	"net:socket-accept":       "waits for a connection",
	"net:socket-connect":      "uses the network",
	"net:socket-bind":         "binds a port",
	"net:socket-listen":       "listens on a port",
	"net:socket-receive":      "waits for data",
	"net:socket-send":         "uses the network",
	"net:socket-select":       "waits for sockets",
	"net:wait-for-input":      "waits for sockets",
	"net:get-host-by-name":    "uses the resolver",
	"net:get-host-by-address": "uses the resolver",
	"net:graphql-query":       "uses the network",
	// rebind interpreter or process globals that later calls depend on
	"common-lisp:in-package": "rebinds *package*",
	"common-lisp:trace":      "traces every later call",
	"common-lisp:untrace":    "rebinds the trace state",
	"common-lisp:dribble":    "redirects the standard streams",
	"gi:clearenv":            "clears the process environment",
}

// fnInfo is one function under test.
type fnInfo struct {
	pkg, name string
	kind      string
	ordinary  bool // every argument is evaluated
	ar        arity
	ll        string
}

func (f fnInfo) key() string { return f.pkg + ":" + f.name }

var (
	fnOnce  sync.Once
	fnList  []fnInfo
	fnIndex map[string]int
)

func lambdaListText(fd *slip.FuncDoc) string {
	var parts []string
	for _, da := range fd.Args {
		parts = append(parts, da.Name)
	}
	return "(" + strings.Join(parts, " ") + ")"
}

// functions lists every function of every package (except the harness's own vt), sorted.
func functions() []fnInfo {
	fnOnce.Do(func() {
		for _, p := range slip.AllPackages() {
			if p.Name == "vt" {
				continue
			}
			p.EachFuncInfo(func(fi *slip.FuncInfo) {
				if fi.Pkg != p || fi.Doc == nil {
					return
				}
				if strings.HasPrefix(fi.Name, "c04f") {
					return // left over from part A
				}
				info := fnInfo{pkg: p.Name, name: fi.Name, kind: string(fi.Kind), ar: docArity(fi.Doc), ll: lambdaListText(fi.Doc)}
				// an ordinary function: every argument is evaluated (funcall and apply can call it like a form does)
				info.ordinary = info.kind == "function" || info.kind == "built-in"
				if obj := ev.Try(func() slip.Object { return fi.Create(nil) }); obj.Kind == ev.Value {
					if sk, ok := obj.Val.(interface{ SkipArgEval(int) bool }); ok {
						for i := 0; i < 6; i++ {
							if sk.SkipArgEval(i) {
								info.ordinary = false
							}
						}
					}
				} else {
					info.ordinary = false
				}
				fnList = append(fnList, info)
			})
		}
		sort.Slice(fnList, func(i, j int) bool { return fnList[i].key() < fnList[j].key() })
		fnIndex = map[string]int{}
		for i, f := range fnList {
			fnIndex[f.key()] = i
		}
	})
	return fnList
}

// ---- outcome of one call, produced by the worker --------------------------------

type outcomeB struct {
	Kind  string `json:"kind"` // value | condition | partial | fault | dead | hung
	Class string `json:"class,omitempty"`
	Msg   string `json:"msg,omitempty"`
}

var (
	cacheMu sync.Mutex
	cacheB  = map[CaseB]outcomeB{}
)

var arityMsg = regexp.MustCompile(`(?i)^Too (few|many) arguments to (\S+)\.`)
var lambdaMsg = regexp.MustCompile(`(?i)^Too (few|many) arguments to #<function`)
var genericMsg = regexp.MustCompile(`(?i)^generic-function (\S+) requires at least`)

// arityErrorOf reports whether the message is the argument count error of the function itself (the single family of
// argcounterror.go and the generic function variant).
func arityErrorOf(msg, name string) (own, other bool) {
	if lambdaMsg.MatchString(msg) {
		// the message of Lambda.Call: the function under test is defined in Lisp (the sample callbacks are built-ins)
		return true, false
	}
	for _, re := range []*regexp.Regexp{arityMsg, genericMsg} {
		if m := re.FindStringSubmatch(msg); m != nil {
			if strings.EqualFold(m[len(m)-1], name) {
				return true, false
			}
			return false, true
		}
	}
	return false, false
}

func runB(c CaseB) *h.Result {
	fns := functions()
	i, has := fnIndex[c.Pkg+":"+c.Fn]
	if !has {
		return h.Fail("no function %s:%s", c.Pkg, c.Fn)
	}
	f := fns[i]
	res := &h.Result{}
	if why, denied := deny[f.key()]; denied {
		_ = why
		res.Classes = append(res.Classes, "B:denied")
		return res
	}
	ns, ins := f.ar.counts()
	inRange, judged := false, false
	for k, n := range ns {
		if n == c.N {
			inRange, judged = ins[k], true
		}
	}
	if !judged {
		res.Classes = append(res.Classes, "B:count-not-judged")
		return res
	}
	if tag := excludedB(f, c, inRange); tag != "" {
		res.Skip = tag
		return res
	}
	cacheMu.Lock()
	o, cached := cacheB[c]
	cacheMu.Unlock()
	if !cached {
		o = runJobs([]CaseB{c})[0]
	}
	res.NonTrivial = c.N == f.ar.min-1 || c.N == f.ar.min || (!f.ar.unbounded && (c.N == f.ar.maxPos || c.N == f.ar.maxPos+1))
	res.Classes = append(res.Classes, "B:kind:"+f.kind, "B:outcome:"+o.Kind)
	if c.Via != "" {
		res.Classes = append(res.Classes, "B:via-"+c.Via)
	}
	if inRange {
		res.Classes = append(res.Classes, "B:inside-documented-range")
	} else {
		res.Classes = append(res.Classes, "B:outside-documented-range")
	}
	if o.Kind == "dead" || o.Kind == "hung" {
		// the worker died or stalled twice on this call, also alone: not a verdict
		res.Classes = append(res.Classes, "B:inconclusive")
		h.Note("inconclusive: (%s:%s with %d arguments) worker %s: %s", c.Pkg, c.Fn, c.N, o.Kind, o.Msg)
		res.NonTrivial = false
		return res
	}
	own, other := arityErrorOf(o.Msg, f.name)
	if other {
		res.Classes = append(res.Classes, "B:arity-error-of-another-function")
	}
	if inRange {
		if o.Kind != "value" && own {
			res.Err = fmt.Sprintf("%s:%s is documented as %s (%s) but a call %swith %d arguments is rejected as an argument count error: %s",
				c.Pkg, c.Fn, f.ll, f.ar, viaText(c.Via), c.N, o.Msg)
		}
		return res
	}
	if o.Kind == "value" {
		res.Err = fmt.Sprintf("%s:%s is documented as %s (%s) but a call %swith %d arguments is accepted: value %s", c.Pkg, c.Fn, f.ll, f.ar, viaText(c.Via), c.N, o.Msg)
	}
	if o.Kind == "fault" {
		res.Classes = append(res.Classes, "B:rejected-by-host-fault")
	}
	return res
}

func viaText(via string) string {
	if via == "" {
		return ""
	}
	return "through " + via + " "
}

// excludedB names the open finding whose root cause covers the call (decided by function and count only).
func excludedB(f fnInfo, c CaseB, inRange bool) string {
	return ""
}

// ---- parent side: batches of calls run in child processes -----------------------------

var jobSeq atomic.Int64

func stallLimit() time.Duration {
	if v, err := strconv.Atoi(os.Getenv("C04_STALL_SECONDS")); err == nil && v > 0 {
		return time.Duration(v) * time.Second
	}
	return 240 * time.Second
}

func workRoot() string {
	root := os.Getenv("VERIF_WORK")
	if root == "" {
		root = os.TempDir()
	}
	return root
}

// runChild runs the jobs in one child process and returns the outcomes that were completed, and the index of the
// job the child died or stalled in (-1 if it finished) with the reason.
func runChild(jobs []CaseB) (done map[int]outcomeB, culprit int, reason string) {
	id := jobSeq.Add(1)
	dir := filepath.Join(workRoot(), fmt.Sprintf("c04b-%d-%d", os.Getpid(), id))
	cwd := filepath.Join(dir, "cwd")
	if err := os.MkdirAll(cwd, 0o755); err != nil {
		panic(err)
	}
	defer os.RemoveAll(dir)
	jobFile := filepath.Join(dir, "jobs.json")
	outFile := filepath.Join(dir, "out.txt")
	b, _ := json.Marshal(jobs)
	if err := os.WriteFile(jobFile, b, 0o644); err != nil {
		panic(err)
	}
	bin := os.Getenv("VERIF_BIN")
	if bin == "" {
		bin, _ = os.Executable()
	}
	cmd := exec.Command(bin, "-test.run", "^$")
	cmd.Dir = cwd
	cmd.Env = append(os.Environ(), "C04_WORKER=1", "C04_JOBS="+jobFile, "C04_OUT="+outFile, "VERIF_STATS=", "HOME="+cwd)
	cmd.Stdin = nil // /dev/null
	logf, _ := os.Create(filepath.Join(dir, "log.txt"))
	cmd.Stdout, cmd.Stderr = logf, logf
	if err := cmd.Start(); err != nil {
		panic(err)
	}
	exited := make(chan struct{})
	go func() {
		_ = cmd.Wait()
		close(exited)
	}()
	// progress watchdog: the size of the output file must grow; many short wake-ups, no single long timer
	var lastSize int64 = -1
	lastGrow := time.Now()
	stalled := false
wait:
	for {
		select {
		case <-exited:
			break wait
		case <-time.After(250 * time.Millisecond):
		}
		if st, err := os.Stat(outFile); err == nil && st.Size() != lastSize {
			lastSize = st.Size()
			lastGrow = time.Now()
		} else if time.Since(lastGrow) > stallLimit() {
			stalled = true
			_ = cmd.Process.Kill()
			<-exited
			break wait
		}
	}
	logf.Close()
	done = map[int]outcomeB{}
	culprit = -1
	started := -1
	corrupt := -1
	data, _ := os.ReadFile(outFile)
	for _, line := range strings.Split(string(data), "\n") {
		switch {
		case strings.HasPrefix(line, "B "):
			started, _ = strconv.Atoi(line[2:])
		case strings.HasPrefix(line, "X "):
			corrupt, _ = strconv.Atoi(line[2:])
		case strings.HasPrefix(line, "E "):
			rest := line[2:]
			sp := strings.IndexByte(rest, ' ')
			if sp < 0 {
				continue
			}
			idx, _ := strconv.Atoi(rest[:sp])
			var o outcomeB
			if json.Unmarshal([]byte(rest[sp+1:]), &o) == nil {
				done[idx] = o
				if idx == started {
					started = -1
				}
			}
		}
	}
	if corrupt >= 0 {
		// the worker stopped by itself after the call that damaged global state; its outcome is recorded
		reason = "corrupt|" + jobs[corrupt].Pkg + ":" + jobs[corrupt].Fn + " with " + strconv.Itoa(jobs[corrupt].N) + " arguments"
		return
	}
	if len(done) < len(jobs) {
		culprit = started
		if culprit < 0 {
			// died between two calls (or before the first): blame the first unfinished one
			for i := range jobs {
				if _, ok := done[i]; !ok {
					culprit = i
					break
				}
			}
		}
		reason = "dead"
		if stalled {
			reason = "hung"
		}
		if lg, err := os.ReadFile(filepath.Join(dir, "log.txt")); err == nil {
			tail := string(lg)
			if len(tail) > 400 {
				tail = tail[len(tail)-400:]
			}
			reason += "|" + strings.ReplaceAll(tail, "\n", " / ")
		}
	}
	return
}

// runJobs runs the calls in child processes. A call in which the child dies or stalls is run once more alone; if
// that fails too its outcome is dead/hung (inconclusive for that call).
func runJobs(jobs []CaseB) []outcomeB {
	out := make([]outcomeB, len(jobs))
	pending := make([]int, len(jobs))
	for i := range jobs {
		pending[i] = i
	}
	for len(pending) > 0 {
		batch := make([]CaseB, len(pending))
		for k, i := range pending {
			batch[k] = jobs[i]
		}
		done, culprit, reason := runChild(batch)
		if strings.HasPrefix(reason, "corrupt|") {
			h.Class("B:worker-restarted-after-a-call-damaged-global-state", 1)
			h.Note("worker restarted: the call (%s) left the interpreter unable to signal an argument count error", strings.TrimPrefix(reason, "corrupt|"))
		}
		var next []int
		for k, i := range pending {
			if o, ok := done[k]; ok {
				out[i] = o
				continue
			}
			if k == culprit {
				if len(batch) == 1 {
					kind, msg, _ := strings.Cut(reason, "|")
					out[i] = outcomeB{Kind: kind, Msg: msg}
					continue
				}
				solo, _, r2 := runChild([]CaseB{jobs[i]})
				if o, ok := solo[0]; ok {
					out[i] = o
				} else {
					kind, msg, _ := strings.Cut(r2, "|")
					out[i] = outcomeB{Kind: kind, Msg: msg}
				}
				continue
			}
			next = append(next, i)
		}
		pending = next
	}
	return out
}

var propB = h.Prop[CaseB]{Name: "B-builtin-arity", Run: runB}

func TestB(t *testing.T) {
	rules()
	h.RunProp(t, propB, 0)
	if h.C.ReplayIn != "" {
		return
	}
	fns := functions()
	// this shard's functions, in chunks handled by parallel children
	var mine []fnInfo
	for i, f := range fns {
		if i%h.C.NShards == h.C.Shard {
			mine = append(mine, f)
		}
	}
	var all []CaseB
	denied := 0
	for _, f := range mine {
		if _, d := deny[f.key()]; d {
			denied++
			continue
		}
		ns, _ := f.ar.counts()
		for _, via := range viasOf(f) {
			for _, n := range ns {
				all = append(all, CaseB{Pkg: f.pkg, Fn: f.name, N: n, Via: via})
			}
		}
	}
	par := 4
	if h.C.NShards > 1 {
		par = 1
	}
	chunk := (len(all) + par - 1) / par
	var wg sync.WaitGroup
	for p := 0; p < par; p++ {
		lo, hi := p*chunk, (p+1)*chunk
		if lo >= len(all) {
			break
		}
		if hi > len(all) {
			hi = len(all)
		}
		wg.Add(1)
		go func(jobs []CaseB) {
			defer wg.Done()
			outs := runJobs(jobs)
			cacheMu.Lock()
			for i, j := range jobs {
				cacheB[j] = outs[i]
			}
			cacheMu.Unlock()
		}(all[lo:hi])
	}
	wg.Wait()
	if path := os.Getenv("C04_DUMP_B"); path != "" {
		// development aid: every outcome, one per line
		var sb strings.Builder
		for _, j := range all {
			o := cacheB[j]
			fmt.Fprintf(&sb, "%s:%s\t%d\t%s\t%s\t%s\n", j.Pkg, j.Fn, j.N, o.Kind, o.Class, o.Msg)
		}
		_ = os.WriteFile(path, []byte(sb.String()), 0o644)
	}
	h.Note("part B: %d functions in %d packages, %d on the deny list (not called), %d (function, count) calls in this shard",
		len(fns), len(slip.AllPackages())-1, len(deny), len(all))
	h.Enumerate(t, propB, func(yield func(CaseB) bool) {
		for _, f := range mine {
			if _, d := deny[f.key()]; d {
				if !yield(CaseB{Pkg: f.pkg, Fn: f.name, N: 0}) {
					return
				}
				continue
			}
			ns, _ := f.ar.counts()
			for _, via := range viasOf(f) {
				for _, n := range ns {
					if !yield(CaseB{Pkg: f.pkg, Fn: f.name, N: n, Via: via}) {
						return
					}
				}
			}
		}
	})
}
