// lisp evaluates each argument (or each line of stdin) in one scope and prints
// the outcome; a development aid, not part of any check.
package main

import (
	"bufio"
	"fmt"
	"os"

	"github.com/ohler55/slip"

	"verif/harness/internal/ev"
	"verif/harness/internal/sx"
)

func main() {
	scope := slip.NewScope()
	do := func(src string) {
		ev.ResetTrace()
		o := ev.Eval(scope, src)
		if o.Kind == ev.Value {
			fmt.Printf("%s\n  => %s   [%s]", src, ev.Show(o.Val), sx.Typed(o.Val))
		} else {
			fmt.Printf("%s\n  => %s", src, o)
		}
		if tr := ev.TraceString(); tr != "" {
			fmt.Printf("   trace: %s", tr)
		}
		fmt.Println()
	}
	if len(os.Args) > 1 {
		for _, a := range os.Args[1:] {
			do(a)
		}
		return
	}
	sc := bufio.NewScanner(os.Stdin)
	sc.Buffer(make([]byte, 1<<20), 1<<20)
	for sc.Scan() {
		if sc.Text() != "" {
			do(sc.Text())
		}
	}
}
