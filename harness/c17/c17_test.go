package c17

import (
	"bytes"
	"encoding/json"
	"fmt"
	"os"
	"os/exec"
	"path/filepath"
	"regexp"
	"runtime"
	"sort"
	"strings"
	"sync"
	"sync/atomic"
	"testing"
	"time"

	"github.com/ohler55/slip"
	"github.com/ohler55/slip/pkg/gi"
	"pgregory.net/rapid"

	"verif/harness/internal/ev"
	"verif/harness/internal/h"
	"verif/harness/internal/sx"
)

// The concurrent programs run in worker processes (this test binary re-executed with VERIF_C17_WORKER=1,
// built with -race): a Go fatal error or a race report then belongs to one case and cannot take the
// search down with it.
func TestMain(m *testing.M) {
	if os.Getenv("VERIF_C17_WORKER") == "1" {
		worker()
		return
	}
	h.Main(m, "C17")
}

// Case is a concurrent program template with its parameters.
type Case struct {
	Template string `json:"template"` // channels | mutex | sync-instance | tables
	N        int    `json:"routines"`
	M        int    `json:"ops"`
	Cap      int    `json:"capacity"`
	Procs    int    `json:"gomaxprocs"`
	Variant  int    `json:"variant"`
	Warm     bool   `json:"warm"` // the program's functions were evaluated once sequentially before
}

// Report is what a worker prints.
type Report struct {
	OK       bool     `json:"ok"`
	Msg      string   `json:"msg"`
	Overlap  int      `json:"max_overlap"` // routines inside the measured region at the same time
	Shared   int      `json:"shared_ops"`
	Program  string   `json:"program"`
	Outcomes []string `json:"outcomes"`
}

// ---------------------------------------------------------------- observation primitives (worker side)

var (
	sinkMu  sync.Mutex
	sinks   = map[int64][]slip.Object{}
	inCS    atomic.Int32
	maxCS   atomic.Int32
	csViol  atomic.Int32
	active  atomic.Int32
	maxAct  atomic.Int32
	sharedN atomic.Int64
)

type fn struct {
	slip.Function
	call func(s *slip.Scope, args slip.List, depth int) slip.Object
}

func (f *fn) Call(s *slip.Scope, args slip.List, depth int) slip.Object {
	return f.call(s, args, depth)
}

func define(name string, min, max int, call func(args slip.List) slip.Object) {
	ev.VT.Define(func(args slip.List) slip.Object {
		f := fn{Function: slip.Function{Name: name, Args: args}}
		f.call = func(s *slip.Scope, a slip.List, depth int) slip.Object {
			slip.CheckArgCount(s, depth, &f, a, min, max)
			return call(a)
		}
		f.Self = &f
		return &f
	}, &slip.FuncDoc{Name: name, Args: []*slip.DocArg{{Name: "&rest"}, {Name: "args", Type: "object"}}, Return: "object", Text: "verification primitive"})
}

func bump(cur *atomic.Int32, max *atomic.Int32, d int32) int32 {
	v := cur.Add(d)
	for {
		m := max.Load()
		if v <= m || max.CompareAndSwap(m, v) {
			return v
		}
	}
}

func definePrimitives() {
	// (vt:sink id value): per-routine result list
	define("sink", 2, 2, func(a slip.List) slip.Object {
		id, _ := a[0].(slip.Fixnum)
		sinkMu.Lock()
		sinks[int64(id)] = append(sinks[int64(id)], a[1])
		sinkMu.Unlock()
		sharedN.Add(1)
		return a[1]
	})
	// (vt:cs-enter) / (vt:cs-exit): overlap detector for critical sections
	define("cs-enter", 0, 0, func(a slip.List) slip.Object {
		if bump(&inCS, &maxCS, 1) > 1 {
			csViol.Add(1)
		}
		runtime.Gosched()
		sharedN.Add(1)
		return nil
	})
	define("cs-exit", 0, 0, func(a slip.List) slip.Object {
		inCS.Add(-1)
		return nil
	})
	// (vt:begin) / (vt:end): routine activity gauge (non-triviality: did routines really overlap?)
	define("begin", 0, 0, func(a slip.List) slip.Object { bump(&active, &maxAct, 1); return nil })
	define("end", 0, 0, func(a slip.List) slip.Object { active.Add(-1); return nil })
}

// ---------------------------------------------------------------- program templates

func program(c Case) (setup, main string) {
	var sb strings.Builder
	switch c.Template {
	case "channels":
		// P producers push (id . seq); C consumers pop until close; main joins through *done*
		p := (c.N + 1) / 2
		q := c.N - p
		if q < 1 {
			q = 1
		}
		setup = fmt.Sprintf(`
(defvar *ch* nil) (defvar *done* nil)
(defun producer (id) (vt:begin) (dotimes (i %d) (channel-push *ch* (cons id i))) (vt:end) (channel-push *done* id))
(defun consumer (id) (vt:begin) (do ((v (channel-pop *ch*) (channel-pop *ch*))) ((null v)) (vt:sink id v)) (vt:end) (channel-push *done* id))
(defun consumer-range (id) (vt:begin) (range (lambda (v) (vt:sink id v)) *ch*) (vt:end) (channel-push *done* id))
(defvar *quit* nil) (defvar *ack* nil)
(defun consumer-select (id) (vt:begin)
  (do ((stop nil)) (stop)
    (select (*ch* v (vt:sink id v) (channel-push *ack* 1))
            (*quit* q (setq stop t))))
  (vt:end) (channel-push *done* id))
`, c.M)
		if c.Variant%4 == 2 {
			// consumers wait with select on the item channel and on a quit channel. M rounds: fresh channels, the
			// consumers are started, one item per producer id is pushed, every item is acknowledged, then the quit
			// channel is closed and the consumers are joined: a consumer must see the closed quit channel whatever it
			// looked at before (with so few items two consumers often look at the same last item)
			fmt.Fprintf(&sb, "(progn (setq *done* (make-channel %d)) (setq *ack* (make-channel 100000)) (dotimes (r %d) (setq *ch* (make-channel 4)) (setq *quit* (make-channel 1))", c.N+2, c.M)
			for i := 0; i < q; i++ {
				fmt.Fprintf(&sb, " (run (consumer-select %d))", 100+i)
			}
			for i := 0; i < p; i++ {
				fmt.Fprintf(&sb, " (channel-push *ch* (cons %d r))", i)
			}
			fmt.Fprintf(&sb, " (dotimes (i %d) (channel-pop *ack*)) (channel-close *quit*) (dotimes (i %d) (channel-pop *done*))) 'finished)", p, q)
			break
		}
		fmt.Fprintf(&sb, "(progn (setq *ch* (make-channel %d)) (setq *done* (make-channel %d))", c.Cap, c.N+2)
		for i := 0; i < q; i++ {
			cons := "consumer"
			if c.Variant%2 == 1 && i%2 == 0 {
				cons = "consumer-range"
			}
			fmt.Fprintf(&sb, " (run (%s %d))", cons, 100+i)
		}
		for i := 0; i < p; i++ {
			fmt.Fprintf(&sb, " (run (producer %d))", i)
		}
		fmt.Fprintf(&sb, " (dotimes (i %d) (channel-pop *done*)) (channel-close *ch*) (dotimes (i %d) (channel-pop *done*)) 'finished)", p, q)
	case "mutex":
		body := "(with-mutex-lock *mu* (vt:cs-enter) (setq *counter* (1+ *counter*)) (vt:cs-exit))"
		switch c.Variant % 3 {
		case 1: // leave the lock by return-from on every third round
			body = "(block out (with-mutex-lock *mu* (vt:cs-enter) (setq *counter* (1+ *counter*)) (vt:cs-exit) (when (= 0 (mod i 3)) (return-from out nil)) nil))"
		case 2: // leave the lock by an error on every third round
			body = "(ignore-errors (with-mutex-lock *mu* (vt:cs-enter) (setq *counter* (1+ *counter*)) (vt:cs-exit) (when (= 0 (mod i 3)) (error \"leave\")) nil))"
		}
		setup = fmt.Sprintf(`
(defvar *mu* (make-mutex)) (defvar *counter* 0) (defvar *done* nil)
(defun locker (id) (vt:begin) (dotimes (i %d) %s) (vt:end) (channel-push *done* id))
`, c.M, body)
		fmt.Fprintf(&sb, "(progn (setq *counter* 0) (setq *done* (make-channel %d))", c.N+2)
		for i := 0; i < c.N; i++ {
			fmt.Fprintf(&sb, " (run (locker %d))", i)
		}
		fmt.Fprintf(&sb, " (dotimes (i %d) (channel-pop *done*)) *counter*)", c.N)
	case "sync-instance":
		// every routine increments its own slot of one synchronized instance and reads a neighbour's
		var slots, slotsF strings.Builder
		for i := 0; i < c.N; i++ {
			fmt.Fprintf(&slots, " (s%d :initform 0)", i)
			fmt.Fprintf(&slotsF, " (s%d 0)", i)
		}
		// variants 4 and 6: every routine also asks for synchronization again before each of its updates (an
		// instance that is synchronized already must keep the lock the other routines are using)
		rearm := ""
		if c.Variant%8 >= 4 {
			rearm = "(set-synchronized *box* t) "
		}
		if c.Variant%2 == 0 && c.Variant%4 == 2 {
			// a flavor instance: own instance variable set through the settable method, a neighbour's read
			setup = fmt.Sprintf(`
(defflavor c17-fbox (%s) () :gettable-instance-variables :settable-instance-variables)
(defvar *box* nil) (defvar *done* nil)
(defun fbumper (id getter setter other) (vt:begin)
  (dotimes (i %d) %%s(send *box* setter (1+ (send *box* getter))) (vt:sink id (send *box* other)))
  (vt:end) (channel-push *done* id))
`, slotsF.String(), c.M)
			setup = fmt.Sprintf(setup, rearm)
			fmt.Fprintf(&sb, "(progn (setq *box* (make-instance 'c17-fbox)) (set-synchronized *box* t) (setq *done* (make-channel %d))", c.N+2)
			for i := 0; i < c.N; i++ {
				fmt.Fprintf(&sb, " (run (fbumper %d :s%d :set-s%d :s%d))", i, i, i, (i+1)%c.N)
			}
			fmt.Fprintf(&sb, " (dotimes (i %d) (channel-pop *done*)) (list", c.N)
			for i := 0; i < c.N; i++ {
				fmt.Fprintf(&sb, " (send *box* :s%d)", i)
			}
			sb.WriteString("))")
		} else if c.Variant%2 == 0 {
			setup = fmt.Sprintf(`
(defclass c17-box () (%s))
(defvar *box* nil) (defvar *done* nil)
(defun bumper (id slot other) (vt:begin)
  (dotimes (i %d) %%s(setf (slot-value *box* slot) (1+ (slot-value *box* slot))) (vt:sink id (slot-value *box* other)))
  (vt:end) (channel-push *done* id))
`, slots.String(), c.M)
			setup = fmt.Sprintf(setup, rearm)
			fmt.Fprintf(&sb, "(progn (setq *box* (make-instance 'c17-box)) (set-synchronized *box* t) (setq *done* (make-channel %d))", c.N+2)
			for i := 0; i < c.N; i++ {
				fmt.Fprintf(&sb, " (run (bumper %d 's%d 's%d))", i, i, (i+1)%c.N)
			}
			fmt.Fprintf(&sb, " (dotimes (i %d) (channel-pop *done*)) (list", c.N)
			for i := 0; i < c.N; i++ {
				fmt.Fprintf(&sb, " (slot-value *box* 's%d)", i)
			}
			sb.WriteString("))")
		} else {
			// a hash table of counters, updated only inside with-mutex-lock
			setup = fmt.Sprintf(`
(defvar *tab* nil) (defvar *mu* (make-mutex)) (defvar *done* nil)
(defun tally (id key) (vt:begin)
  (dotimes (i %d) (with-mutex-lock *mu* (vt:cs-enter) (setf (gethash key *tab*) (1+ (or (gethash key *tab*) 0))) (vt:cs-exit)))
  (vt:end) (channel-push *done* id))
`, c.M)
			fmt.Fprintf(&sb, "(progn (setq *tab* (make-hash-table)) (setq *done* (make-channel %d))", c.N+2)
			for i := 0; i < c.N; i++ {
				fmt.Fprintf(&sb, " (run (tally %d %d))", i, i%2)
			}
			fmt.Fprintf(&sb, " (dotimes (i %d) (channel-pop *done*)) (list (or (gethash 0 *tab*) 0) (or (gethash 1 *tab*) 0)))", c.N)
		}
	case "generic":
		// one routine redefines the only method of a generic K times (each version returns its number) and checks
		// that the very next call sees the new version; the others call the generic all the time
		k := c.M
		if k > 40 {
			k = 40
		}
		setup = fmt.Sprintf(`
(defvar *done* nil)
(defgeneric c17-ver (x y z))
(defmethod c17-ver ((x fixnum) (y fixnum) (z fixnum)) 0)
(defun ver-caller (id) (vt:begin) (dotimes (i %d) (vt:sink id (c17-ver 1 2 3))) (vt:end) (channel-push *done* id))
`, c.M*3)
		// version 0 is (re)established first: a warm-up run leaves the generic at its last version
		fmt.Fprintf(&sb, "(progn (defmethod c17-ver ((x fixnum) (y fixnum) (z fixnum)) 0) (setq *done* (make-channel %d))", c.N+2)
		for i := 1; i < c.N; i++ {
			fmt.Fprintf(&sb, " (run (ver-caller %d))", i)
		}
		sb.WriteString(" (run (progn (vt:begin)")
		for v := 1; v <= k; v++ {
			fmt.Fprintf(&sb, " (defmethod c17-ver ((x fixnum) (y fixnum) (z fixnum)) %d) (vt:sink 0 (c17-ver 1 2 3))", v)
		}
		fmt.Fprintf(&sb, " (vt:end) (channel-push *done* 0))) (dotimes (i %d) (channel-pop *done*)) (c17-ver 1 2 3))", c.N)
	case "tables":
		// routines define distinct variables, functions and methods, call a shared function and a shared generic, and print
		setup = fmt.Sprintf(`
(defvar *done* nil)
(defun shared-fn (x) (+ (* x 2) 1))
(defgeneric shared-gf (x))
(defmethod shared-gf ((x fixnum)) (list 'fixnum x))
(defmethod shared-gf ((x string)) (list 'string x))
(defstruct (c17-pt (:print-function (lambda (p s d) (format s "<~A,~D>" (c17-pt-x p) (c17-pt-y p))))) x y)
(defun definer (id) (vt:begin)
  (dotimes (i %d)
    (vt:sink id (shared-fn i))
    (vt:sink id (shared-gf i))
    (vt:sink id (shared-gf "s"))
    (vt:sink id (write-to-string (list id i (list "a" 'b 1.5 (list i i i) "cccccccccc") (list id id)) :pretty t :right-margin (+ 10 (mod (+ id i) 30))))
    (vt:sink id (prin1-to-string (list id i (+ 4000000 (* id 1000) i) "payload" 'done)))
    (vt:sink id (princ-to-string (list id i (+ 4000000 (* id 1000) i) "payload" 'done)))
    (vt:sink id (format nil "~S|~A|~8D|~R" (list id "x" i) (list id "x" i) (+ (* id 1000) i) (+ (* id 1000) i)))
    (vt:sink id (write-to-string (make-c17-pt :x (+ 250 id) :y i) :base 16 :radix t)))
  (vt:end))
`, c.M)
		// every routine also (re)defines, three times, a method of the shared generic on a class of its own
		// while the others call the generic: the dispatch cache is filled and cleared concurrently
		classes := []string{"symbol", "character", "double-float", "ratio", "list", "vector", "bignum", "single-float"}
		fmt.Fprintf(&sb, "(progn (setq *done* (make-channel %d))", c.N+2)
		for i := 0; i < c.N; i++ {
			cl := classes[i%len(classes)]
			fmt.Fprintf(&sb, " (run (progn (defvar *c17-v%d* %d) (defun c17-f%d (x) (+ x %d)) (dotimes (k 3) (defmethod shared-gf ((x %s)) (list '%s x)) (definer %d)) (channel-push *done* %d)))",
				i, i*7, i, i, cl, cl, i, i)
		}
		fmt.Fprintf(&sb, " (dotimes (i %d) (channel-pop *done*)) (list", c.N)
		for i := 0; i < c.N; i++ {
			fmt.Fprintf(&sb, " *c17-v%d* (c17-f%d 1)", i, i)
		}
		sb.WriteString("))")
	case "late-globals":
		// M rounds: N routines, released together, each make four functions whose body is a global variable that does
		// not exist yet (the same four names in every routine); then the variables get their value and every function
		// is called: all of them must see it (the package's variable table holds one entry per name, whoever made it)
		rounds := c.M
		if rounds > 120 {
			rounds = 120
		}
		tagw := "c"
		if c.N == 1 {
			tagw = "w"
		}
		setup = "(defvar *go* nil) (defvar *done* nil)"
		sb.WriteString("(progn")
		for r := 0; r < rounds; r++ {
			fmt.Fprintf(&sb, " (setq *go* (make-channel 0)) (setq *done* (make-channel %d))", c.N+2)
			for i := 0; i < c.N; i++ {
				sb.WriteString(" (run (progn (vt:begin) (channel-pop *go*) (channel-push *done* (list")
				for k := 0; k < 4; k++ {
					fmt.Fprintf(&sb, " (lambda () *lg%s-%d-%d*)", tagw, r, k)
				}
				sb.WriteString(")) (vt:end)))")
			}
			fmt.Fprintf(&sb, " (channel-close *go*) (let ((all nil)) (dotimes (i %d) (setq all (cons (channel-pop *done*) all)))", c.N)
			for k := 0; k < 4; k++ {
				fmt.Fprintf(&sb, " (setq *lg%s-%d-%d* 7)", tagw, r, k)
			}
			sb.WriteString(" (dolist (fs all) (dolist (f fs) (vt:sink 0 (funcall f)))))")
		}
		fmt.Fprintf(&sb, " %d)", rounds)
	}
	return setup, sb.String()
}

// ---------------------------------------------------------------- worker

func worker() {
	var c Case
	if err := json.Unmarshal([]byte(os.Getenv("VERIF_C17_CASE")), &c); err != nil {
		fmt.Println(`{"ok":false,"msg":"bad case"}`)
		os.Exit(0)
	}
	runtime.GOMAXPROCS(c.Procs)
	definePrimitives()
	rep := runCase(c)
	b, _ := json.Marshal(rep)
	fmt.Println("C17-REPORT " + string(b))
	os.Exit(0)
}

func runCase(c Case) (rep Report) {
	scope := slip.NewScope()
	setup, main := program(c)
	rep.Program = strings.TrimSpace(setup) + "\n" + main
	if o := ev.EvalForms(scope, setup); o.Kind != ev.Value {
		rep.Msg = "set-up failed: " + o.String()
		return
	}
	if c.Warm {
		// a sequential warm-up of the same functions (first evaluation rewrites argument slots of shared code)
		warm := Case{Template: c.Template, N: 1, M: 2, Cap: 4, Variant: c.Variant}
		_, wmain := program(warm)
		o, stuck := evalWatched(warm, scope, wmain)
		if stuck != "" {
			rep.Msg = stuck + " (during the sequential warm-up)"
			return
		}
		if o.Kind != ev.Value {
			rep.Msg = "warm-up failed: " + o.String()
			return
		}
		sinkMu.Lock()
		sinks = map[int64][]slip.Object{}
		sinkMu.Unlock()
		inCS.Store(0)
		maxCS.Store(0)
		csViol.Store(0)
		active.Store(0)
		maxAct.Store(0)
		sharedN.Store(0)
	}
	out, stuck := evalWatched(c, scope, main)
	if stuck != "" {
		rep.Msg = stuck
		return
	}
	rep.Overlap = int(maxAct.Load())
	rep.Shared = int(sharedN.Load())
	if out.Kind != ev.Value {
		rep.Msg = "main form: " + out.String()
		return
	}
	rep.Msg = judge(c, scope, out.Val)
	rep.OK = rep.Msg == ""
	return
}

// evalWatched evaluates src and watches it: the programs finish in milliseconds; a program that makes no progress (no
// shared operation) for 20 s and has not finished is stuck. For the mutex template the state is looked at: a mutex
// that is locked while no routine is inside a critical section was not released on some exit - a state, not a timing.
func evalWatched(c Case, scope *slip.Scope, src string) (out ev.Outcome, stuck string) {
	done := make(chan ev.Outcome, 1)
	go func() { done <- ev.EvalForms(scope, src) }()
	lastShared, lastChange, held := sharedN.Load(), time.Now(), 0
	tick := time.NewTicker(100 * time.Millisecond)
	defer tick.Stop()
	for {
		select {
		case out = <-done:
			return out, ""
		case <-tick.C:
			if n := sharedN.Load(); n != lastShared {
				lastShared, lastChange, held = n, time.Now(), 0
				continue
			}
			if c.Template == "mutex" {
				if mu, ok := scope.Get(slip.Symbol("*mu*")).(*gi.Mutex); ok && inCS.Load() == 0 {
					if (*sync.Mutex)(mu).TryLock() {
						(*sync.Mutex)(mu).Unlock()
						held = 0
					} else {
						held++
					}
				} else {
					held = 0
				}
				if held >= 30 && time.Since(lastChange) > 3*time.Second {
					return out, fmt.Sprintf("STUCK: the mutex has been locked for %d looks in a row while no routine is inside with-mutex-lock and nothing made progress for %.0f s: it was not released on some exit (%d routines still wait)",
						held, time.Since(lastChange).Seconds(), active.Load())
				}
			}
			if time.Since(lastChange) > 20*time.Second {
				return out, "DEADLINE: the program made no progress for 20 s and has not finished"
			}
		}
	}
}

func judge(c Case, scope *slip.Scope, val slip.Object) string {
	sinkMu.Lock()
	defer sinkMu.Unlock()
	switch c.Template {
	case "channels":
		p := (c.N + 1) / 2
		// every (id . seq) exactly once; per consumer, the items of one producer in increasing order
		seen := map[string]int{}
		for cid, items := range sinks {
			last := map[string]int64{}
			for _, it := range items {
				l, ok := it.(slip.List)
				if !ok || len(l) != 2 {
					return fmt.Sprintf("consumer %d received %s", cid, sx.Text(it))
				}
				id := sx.Text(l[0])
				tail, _ := l[1].(slip.Tail)
				seq, _ := tail.Value.(slip.Fixnum)
				seen[fmt.Sprintf("%s.%d", id, seq)]++
				if prev, has := last[id]; has && int64(seq) <= prev {
					return fmt.Sprintf("consumer %d received item %d of producer %s after item %d", cid, seq, id, prev)
				}
				last[id] = int64(seq)
			}
		}
		for id := 0; id < p; id++ {
			for i := 0; i < c.M; i++ {
				if n := seen[fmt.Sprintf("%d.%d", id, i)]; n != 1 {
					return fmt.Sprintf("item (%d . %d) was received %d times", id, i, n)
				}
			}
		}
		if len(seen) != p*c.M {
			return fmt.Sprintf("%d distinct items received, %d pushed", len(seen), p*c.M)
		}
	case "mutex":
		if v := csViol.Load(); v > 0 {
			return fmt.Sprintf("two routines were inside with-mutex-lock on the same mutex at the same time (%d times)", v)
		}
		if w, g := fmt.Sprint(c.N*c.M), sx.Text(val); w != g {
			return fmt.Sprintf("counter is %s after %d x %d guarded increments", g, c.N, c.M)
		}
		mu, ok := scope.Get(slip.Symbol("*mu*")).(*gi.Mutex)
		if !ok || !(*sync.Mutex)(mu).TryLock() {
			return "the mutex is not free after all routines finished"
		}
		(*sync.Mutex)(mu).Unlock()
	case "sync-instance":
		if c.Variant%2 == 0 {
			want := make([]string, c.N)
			for i := range want {
				want[i] = fmt.Sprint(c.M)
			}
			if w, g := "("+strings.Join(want, " ")+")", sx.Text(val); w != g {
				return fmt.Sprintf("slots are %s, expected %s (lost update)", g, w)
			}
			for id, items := range sinks {
				prev := int64(-1)
				for _, it := range items {
					v, ok := it.(slip.Fixnum)
					if !ok || int64(v) < prev || int64(v) > int64(c.M) {
						return fmt.Sprintf("routine %d read %s from a neighbour's slot after %d", id, sx.Text(it), prev)
					}
					prev = int64(v)
				}
			}
		} else {
			if v := csViol.Load(); v > 0 {
				return fmt.Sprintf("critical sections overlapped %d times", v)
			}
			a, b := 0, 0
			for i := 0; i < c.N; i++ {
				if i%2 == 0 {
					a += c.M
				} else {
					b += c.M
				}
			}
			if w, g := fmt.Sprintf("(%d %d)", a, b), sx.Text(val); w != g {
				return fmt.Sprintf("counters are %s, expected %s (lost update)", g, w)
			}
		}
	case "generic":
		k := c.M
		if k > 40 {
			k = 40
		}
		if w, g := fmt.Sprint(k), sx.Text(val); w != g {
			return fmt.Sprintf("after the last defmethod the generic returns %s, expected %s", g, w)
		}
		for id, items := range sinks {
			prev := int64(0)
			for i, it := range items {
				v, ok := it.(slip.Fixnum)
				if !ok || int64(v) < prev || int64(v) > int64(k) {
					return fmt.Sprintf("routine %d saw version %s after version %d (a call ran a method older than one it had already seen)", id, sx.Text(it), prev)
				}
				if id == 0 && int64(v) != int64(i+1) {
					return fmt.Sprintf("the call right after (defmethod ... %d) returned ran version %s", i+1, sx.Text(it))
				}
				prev = int64(v)
			}
		}
	case "late-globals":
		rounds, _ := val.(slip.Fixnum)
		items := sinks[0]
		if want := int(rounds) * c.N * 4; len(items) != want {
			return fmt.Sprintf("%d function results, expected %d", len(items), want)
		}
		for _, it := range items {
			if sx.Text(it) != "7" {
				return fmt.Sprintf("a function made before its variable existed returned %s after the variable was set to 7", sx.Text(it))
			}
		}
	case "tables":
		var want []string
		for i := 0; i < c.N; i++ {
			want = append(want, fmt.Sprint(i*7), fmt.Sprint(1+i))
		}
		if w, g := "("+strings.Join(want, " ")+")", sx.Text(val); w != g {
			return fmt.Sprintf("definitions made by the routines read back as %s, expected %s", g, w)
		}
		for id, items := range sinks {
			const per = 8 // results per iteration
			if len(items) != 3*per*c.M {
				return fmt.Sprintf("routine %d recorded %d results, expected %d", id, len(items), 3*per*c.M)
			}
			for i := 0; i < c.M; i++ { // the three rounds give the same results; the first is compared in detail
				for round := 1; round < 3; round++ {
					for k := 0; k < per; k++ {
						if sx.Text(items[per*i+k]) != sx.Text(items[round*per*c.M+per*i+k]) {
							return fmt.Sprintf("routine %d: result %d of iteration %d differs between rounds: %s vs %s", id, k, i, sx.Text(items[per*i+k]), sx.Text(items[round*per*c.M+per*i+k]))
						}
					}
				}
				if w, g := fmt.Sprint(i*2+1), sx.Text(items[per*i]); w != g {
					return fmt.Sprintf("routine %d: (shared-fn %d) => %s", id, i, g)
				}
				if w, g := fmt.Sprintf("(fixnum %d)", i), sx.Text(items[per*i+1]); w != g {
					return fmt.Sprintf("routine %d: (shared-gf %d) => %s", id, i, g)
				}
				if w, g := `(string "s")`, sx.Text(items[per*i+2]); w != g {
					return fmt.Sprintf("routine %d: (shared-gf \"s\") => %s", id, g)
				}
				// printed text must equal the single-threaded rendering (computed now, all routines have finished)
				form := fmt.Sprintf(`(write-to-string (list %d %d (list "a" 'b 1.5 (list %d %d %d) "cccccccccc") (list %d %d)) :pretty t :right-margin %d)`,
					id, i, i, i, i, id, id, 10+(int(id)+i)%30)
				ref := ev.Eval(scope, form)
				if ref.Kind != ev.Value || sx.Text(ref.Val) != sx.Text(items[per*i+3]) {
					return fmt.Sprintf("routine %d printed %s, single-threaded rendering is %s", id, sx.Text(items[per*i+3]), ref)
				}
				// the other printing functions, each on data only this routine has
				for k, f := range []string{
					`(prin1-to-string (list %[1]d %[2]d (+ 4000000 (* %[1]d 1000) %[2]d) "payload" 'done))`,
					`(princ-to-string (list %[1]d %[2]d (+ 4000000 (* %[1]d 1000) %[2]d) "payload" 'done))`,
					`(format nil "~S|~A|~8D|~R" (list %[1]d "x" %[2]d) (list %[1]d "x" %[2]d) (+ (* %[1]d 1000) %[2]d) (+ (* %[1]d 1000) %[2]d))`,
					// a structure with a print function, written under settings of its own: whatever the printer does to
					// let the function see them must not be seen by the other routines
					`(write-to-string (make-c17-pt :x (+ 250 %[1]d) :y %[2]d) :base 16 :radix t)`,
				} {
					ref := ev.Eval(scope, fmt.Sprintf(f, id, i))
					if ref.Kind != ev.Value || sx.Text(ref.Val) != sx.Text(items[per*i+4+k]) {
						return fmt.Sprintf("routine %d printed %s, single-threaded rendering is %s", id, sx.Text(items[per*i+4+k]), ref)
					}
				}
			}
		}
	}
	return ""
}

// ---------------------------------------------------------------- parent side

var raceBlock = regexp.MustCompile(`(?s)WARNING: DATA RACE.*?==================`)
var frameRx = regexp.MustCompile(`(?m)^  (github\.com/ohler55/slip[^\s(]*(?:\([^)]*\))?[^\s(]*)\(\)`)

// signature of a race report: the innermost slip frames of the accesses, sorted.
func signature(block string) string {
	parts := regexp.MustCompile(`(?m)^(Read|Write|Previous read|Previous write|Previous atomic|Atomic)[^\n]*$`).Split(block, -1)
	var tops []string
	for _, p := range parts[1:] {
		if m := frameRx.FindStringSubmatch(p); m != nil {
			tops = append(tops, strings.TrimPrefix(m[1], "github.com/ohler55/slip"))
		}
		if len(tops) == 2 {
			break
		}
	}
	if len(tops) == 0 {
		return ""
	}
	sort.Strings(tops)
	return strings.Join(tops, " <-> ")
}

type knownRace struct {
	ID   string `json:"id"`
	What string `json:"what"`
	Sig  string `json:"race_signature"`
	Prop string `json:"property"`
	Stat string `json:"status"`
}

var (
	known     []knownRace
	knownSeen = map[string]int{}
	knownMu   sync.Mutex
)

func loadKnown() {
	for _, path := range []string{h.C.Findings} {
		b, err := os.ReadFile(path)
		if err != nil {
			continue
		}
		var all []knownRace
		if json.Unmarshal(b, &all) == nil {
			for _, k := range all {
				if k.Prop == "C17" && k.Sig != "" && k.Stat == "open" {
					known = append(known, k)
				}
			}
		}
	}
}

func isKnown(sig string) bool {
	for _, k := range known {
		// race_signature is a regular expression over "frameA <-> frameB" (the innermost slip frames, sorted)
		if rx, err := regexp.Compile(k.Sig); err == nil && rx.MatchString(sig) {
			knownMu.Lock()
			knownSeen[k.ID]++
			knownMu.Unlock()
			return true
		}
	}
	return false
}

var runCtr atomic.Int64

// ExitCase is one way of leaving with-mutex-lock in a single routine.
type ExitCase struct {
	Form string `json:"form"`
}

// exitForms: every way control can leave the body of with-mutex-lock, alone and with a second mutex nested, wrapped so
// that the whole form returns normally. After each one both mutexes must be free (TryLock from go succeeds at once).
func exitForms() (out []string) {
	exits := []struct{ wrap, exit string }{
		{"(progn %s)", "nil"},
		{"(block out %s)", "(return-from out 1)"},
		{"(block nil %s)", "(return 2)"},
		{"(tagbody %s done)", "(go done)"},
		{"(ignore-errors %s)", "(error \"leave\")"},
		{"(ignore-errors %s)", "(car 1)"},
		{"(ignore-errors %s)", "(/ 1 0)"},
		{"(ignore-errors %s)", "(c17-undefined-function 1)"},
		{"(ignore-errors %s)", "c17-unbound-variable"},
		{"(recover rec 8 %s)", "(panic \"leave\")"},
		{"(block out (unwind-protect %s (return-from out 4)))", "(error \"leave\")"},
		{"(dotimes (i 3) %s)", "(when (= i 1) (return 5))"},
		{"(dolist (x '(1 2 3)) %s)", "(when (= x 2) (return 6))"},
		{"(funcall (lambda () (block f %s)))", "(return-from f 7)"},
	}
	bodies := []string{
		"(with-mutex-lock *mu* (vt:mark 1) %s (vt:mark 2))",
		"(with-mutex-lock *mu* (with-mutex-lock *mu2* (vt:mark 1) %s (vt:mark 2)) (vt:mark 3))",
		"(with-mutex-lock *mu* (let ((v 1)) (when v %s)) (vt:mark 2))",
		"(with-mutex-lock *mu* (unwind-protect %s (vt:mark 9)))",
		"(with-mutex-lock *mu* (mapcar (lambda (v) %s) '(1 2)))",
	}
	for _, e := range exits {
		for _, b := range bodies {
			out = append(out, fmt.Sprintf(e.wrap, fmt.Sprintf(b, e.exit)))
		}
	}
	return
}

func runExit(c ExitCase) *h.Result {
	res := &h.Result{NonTrivial: true, Classes: []string{"mutex-exit"}}
	scope := slip.NewScope()
	mu, mu2 := &gi.Mutex{}, &gi.Mutex{}
	scope.Let(slip.Symbol("*mu*"), mu)
	scope.Let(slip.Symbol("*mu2*"), mu2)
	done := make(chan ev.Outcome, 1)
	go func() { done <- ev.Eval(scope, c.Form) }()
	var out ev.Outcome
	select {
	case out = <-done:
	case <-time.After(30 * time.Second):
		return h.Fail("%s does not return (single routine, both mutexes free at the start)", c.Form)
	}
	if out.Kind == ev.Fault {
		return h.Fail("%s => %s", c.Form, out)
	}
	for i, m := range []*gi.Mutex{mu, mu2} {
		if !(*sync.Mutex)(m).TryLock() {
			return h.Fail("after %s (outcome %s) mutex %d is still locked: with-mutex-lock did not release it on this exit", c.Form, out, i+1)
		}
		(*sync.Mutex)(m).Unlock()
	}
	return res
}

var exitGrid = h.Prop[ExitCase]{Name: "mutex-exit-grid", Run: runExit}

func run(c Case) *h.Result {
	res := &h.Result{Classes: []string{"template:" + c.Template, fmt.Sprintf("procs:%d", c.Procs)}}
	bin := os.Getenv("VERIF_BIN")
	if bin == "" {
		bin, _ = os.Executable()
	}
	work := os.Getenv("VERIF_WORK")
	if work == "" {
		work = os.TempDir()
	}
	dir := filepath.Join(work, fmt.Sprintf("c17-%d-%d", os.Getpid(), runCtr.Add(1)))
	_ = os.MkdirAll(dir, 0o755)
	defer os.RemoveAll(dir)
	cj, _ := json.Marshal(c)
	attempt := func() (rep Report, stderr string, died bool, races string) {
		cmd := exec.Command(bin)
		cmd.Dir = dir
		logp := filepath.Join(dir, "race")
		cmd.Env = append(os.Environ(), "VERIF_C17_WORKER=1", "VERIF_C17_CASE="+string(cj), "GORACE=log_path="+logp+" halt_on_error=0 history_size=3")
		var so, se bytes.Buffer
		cmd.Stdout, cmd.Stderr = &so, &se
		err := cmd.Run()
		found := false
		for _, line := range strings.Split(so.String(), "\n") {
			if strings.HasPrefix(line, "C17-REPORT ") {
				found = json.Unmarshal([]byte(strings.TrimPrefix(line, "C17-REPORT ")), &rep) == nil
			}
		}
		files, _ := filepath.Glob(logp + ".*")
		var rb strings.Builder
		for _, f := range files {
			b, _ := os.ReadFile(f)
			rb.Write(b)
		}
		died = !found || err != nil && !found
		return rep, se.String(), died, rb.String()
	}
	rep, stderr, died, races := attempt()
	if died {
		// a Go fatal error (concurrent map access, unrecovered panic in a routine) or a kill: confirm alone once more
		rep2, stderr2, died2, _ := attempt()
		if died2 {
			tail := stderr2
			if len(tail) > 1500 {
				tail = tail[:1500]
			}
			_, main := program(c)
			res.Err = fmt.Sprintf("the worker process died twice running %s %+v\n  main: %s\n  stderr: %s", c.Template, c, main, tail)
			return res
		}
		_ = stderr
		rep = rep2
		res.Classes = append(res.Classes, "worker-died-once")
	}
	if strings.HasPrefix(rep.Msg, "DEADLINE") || strings.HasPrefix(rep.Msg, "STUCK") {
		rep2, _, _, _ := attempt()
		if strings.HasPrefix(rep2.Msg, "DEADLINE") || strings.HasPrefix(rep2.Msg, "STUCK") {
			res.Err = fmt.Sprintf("%s %+v: %s (twice)\n%s", c.Template, c, rep.Msg, rep.Program)
			return res
		}
		rep = rep2
	}
	if !rep.OK {
		res.Err = fmt.Sprintf("%s %+v: %s\n%s", c.Template, c, rep.Msg, rep.Program)
		return res
	}
	for _, block := range raceBlock.FindAllString(races, -1) {
		sig := signature(block)
		if sig == "" {
			continue // no slip frame: a race inside the harness primitives or the Go runtime
		}
		res.Classes = append(res.Classes, "race-report")
		if isKnown(sig) {
			continue
		}
		if os.Getenv("VERIF_C17_COLLECT") == "1" { // triage aid: list every signature instead of stopping at the first
			res.Classes = append(res.Classes, "race:"+sig)
			continue
		}
		if len(block) > 3000 {
			block = block[:3000]
		}
		res.Err = fmt.Sprintf("data race in slip while running %s %+v\n  signature: %s\n%s", c.Template, c, sig, block)
		return res
	}
	res.NonTrivial = rep.Overlap >= 2 && rep.Shared >= 50
	return res
}

func gen(rt *rapid.T) Case {
	c := Case{
		Template: rapid.SampledFrom([]string{"channels", "mutex", "sync-instance", "tables", "generic", "generic", "late-globals"}).Draw(rt, "template"),
		N:        rapid.IntRange(2, 8).Draw(rt, "routines"),
		M:        rapid.SampledFrom([]int{5, 20, 50, 100, 200}).Draw(rt, "ops"),
		Cap:      rapid.IntRange(0, 8).Draw(rt, "cap"),
		Procs:    rapid.SampledFrom([]int{1, 2, 4, 16}).Draw(rt, "procs"),
		Variant:  rapid.IntRange(0, 7).Draw(rt, "variant"),
		Warm:     rapid.Bool().Draw(rt, "warm"),
	}
	if c.Template == "tables" && c.M > 20 {
		c.M = 20
	}
	return c
}

var conc = h.Prop[Case]{Name: "concurrent", Gen: gen, Run: run}
var concGrid = h.Prop[Case]{Name: "concurrent-grid", Run: run}

func TestC17(t *testing.T) {
	h.Rule("program template x parameters: producers/consumers over buffered and unbuffered channels (pop loop and range), mutex-guarded counters leaving the lock normally, by return-from and by error, " +
		"a synchronized CLOS instance and a synchronized flavor instance with one slot per routine (also with every routine asking for synchronization again before each update), a hash table of counters under a mutex, concurrent defvar/defun plus calls of a shared function and a shared generic and pretty printing; " +
		"2-8 routines x 5-200 operations x capacity 0-8 x GOMAXPROCS {1,2,4,16} x cold/warm; every run in its own -race worker process. Oracles: exactly-once delivery and per-producer order, no overlap of critical " +
		"sections and exact counter, no lost update, definitions visible and results equal to the sequential ones, printed text equal to the single-threaded rendering, no Go fatal error, no deadline, " +
		"no race report with a slip frame whose signature is not a known finding. Non-trivial: >= 2 routines were active at the same time and >= 50 shared operations. Distinct by case JSON. " +
		"Schedules are sampled by the Go scheduler under the race detector, not enumerated.")
	h.Assume("the Go race detector reports only real races; a schedule that was not hit is not covered")
	loadKnown()
	// every template in every variant once (cold and warm), so that no template/variant depends on being drawn
	// every way of leaving with-mutex-lock in one routine: the mutex must be free afterwards (decided from go with TryLock)
	h.RunProp(t, exitGrid, 0)
	if h.C.Shard == 0 {
		h.Enumerate(t, exitGrid, func(yield func(ExitCase) bool) {
			for _, f := range exitForms() {
				if !yield(ExitCase{Form: f}) {
					return
				}
			}
		})
	}
	h.RunProp(t, concGrid, 0)
	h.Enumerate(t, concGrid, func(yield func(Case) bool) {
		sh := h.C.Shard
		for _, tv := range []struct {
			t  string
			vs []int
		}{{"channels", []int{0, 1, 2}}, {"mutex", []int{0, 1, 2}}, {"sync-instance", []int{0, 1, 2, 4, 6}}, {"tables", []int{0}}, {"generic", []int{0}}, {"late-globals", []int{0}}} {
			for _, v := range tv.vs {
				for _, warm := range []bool{false, true} {
					c := Case{Template: tv.t, N: 3 + (sh+v)%4, M: 40 + 20*((sh+v)%3), Cap: (sh + v) % 3, Procs: []int{4, 16, 2, 8}[(sh+v)%4], Variant: v, Warm: warm}
					if c.Template == "tables" && c.M > 20 {
						c.M = 20
					}
					if !yield(c) {
						return
					}
				}
			}
		}
	})
	h.RunProp(t, conc, h.N(50, 800))
	for _, k := range known {
		line := fmt.Sprintf("KNOWN-FINDING: property=C17 %s %s (race signature %s; observed in %d runs of this check)", k.ID, k.What, k.Sig, knownSeen[k.ID])
		fmt.Println(line)
	}
}
