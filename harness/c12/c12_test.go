// Package c12 checks property C12: CLOS class precedence, slots and initialisation do not depend on the order
// in which the defclass forms were evaluated, and follow the stated rule.
package c12

import (
	"fmt"
	"os"
	"sort"
	"strings"
	"sync/atomic"
	"testing"

	"github.com/ohler55/slip"
	"pgregory.net/rapid"

	"verif/harness/internal/ev"
	"verif/harness/internal/h"
	"verif/harness/internal/refclos"
	"verif/harness/internal/sx"
)

func TestMain(m *testing.M) { h.Main(m, "C12") }

// Make asks for instances of class C. Args are the initargs passed (in that order); the value passed for an
// initarg is a function of its name (see runner.argVal). All = one instance for every subset of the (first
// five) initargs valid for the class.
type Make struct {
	C    string   `json:"c"`
	Args []string `json:"args,omitempty"`
	All  bool     `json:"all,omitempty"`
}

// Case is a history of defclass forms followed by queries. A class name may occur twice in Forms: the second
// form is a redefinition. Names are abstract; Run makes them unique in the interpreter.
type Case struct {
	Forms  []refclos.Def `json:"forms"`
	Makes  []Make        `json:"makes,omitempty"`
	Probe  []string      `json:"probe,omitempty"`  // classes with a primary method on the probe generic
	Before []string      `json:"before,omitempty"` // classes with a :before method on the second probe generic
	Mid    bool          `json:"mid,omitempty"`    // also run the queries just before a redefinition (if all classes are complete there)
}

var runCounter int64

type runner struct {
	lastDef string // the class defined or redefined last
	c       Case
	id      int64
	scope   *slip.Scope
	w       *refclos.World
	evals   int
	argVal  map[string]int
	tainted map[string]bool // accessor names whose methods an earlier definition left behind
	ppDone  map[string]bool
	pbDone  map[string]bool
	gens    bool
	funcs   map[string]bool // function names to undefine
	classes map[string]bool
	labels  map[string]bool
	skip    string
}

func (r *runner) cn(abstract string) string { return fmt.Sprintf("c12k%d%s", r.id, abstract) }

func (r *runner) lisp(format string, args ...any) ev.Outcome {
	r.evals++
	return ev.Eval(r.scope, fmt.Sprintf(format, args...))
}

func (r *runner) label(s string) { r.labels[s] = true }

func (r *runner) defclassText(d refclos.Def) string {
	var b strings.Builder
	fmt.Fprintf(&b, "(defclass %s (", r.cn(d.C))
	for i, s := range d.Sup {
		if i > 0 {
			b.WriteByte(' ')
		}
		b.WriteString(r.cn(s))
	}
	b.WriteString(") (")
	for i, s := range d.Slots {
		if i > 0 {
			b.WriteByte(' ')
		}
		b.WriteString("(" + s.N)
		for _, ia := range s.IA {
			b.WriteString(" :initarg :" + ia)
		}
		if s.IF != 0 {
			fmt.Fprintf(&b, " :initform %d", s.IF)
		}
		if s.R != "" {
			b.WriteString(" :reader " + r.cn(s.R))
			r.funcs[r.cn(s.R)] = true
		}
		if s.W != "" {
			b.WriteString(" :writer " + r.cn(s.W))
			r.funcs[r.cn(s.W)] = true
		}
		if s.A != "" {
			b.WriteString(" :accessor " + r.cn(s.A))
			r.funcs[r.cn(s.A)] = true
			r.funcs["(setf "+r.cn(s.A)+")"] = true
		}
		b.WriteByte(')')
	}
	b.WriteString("))")
	return b.String()
}

// valid checks the structural assumptions the generator guarantees (replayed and witness cases pass through
// here as well).
func valid(c Case) bool {
	if len(c.Forms) == 0 || len(c.Forms) > 8 {
		return false
	}
	w := refclos.New()
	count := map[string]int{}
	for _, f := range c.Forms {
		count[f.C]++
		if count[f.C] > 2 || f.C == "" {
			return false
		}
		seen := map[string]bool{}
		for _, s := range f.Sup {
			if seen[s] || s == f.C {
				return false
			}
			seen[s] = true
		}
		slots := map[string]bool{}
		acc := map[string]bool{}
		for _, s := range f.Slots {
			if slots[s.N] || s.N == "" {
				return false
			}
			slots[s.N] = true
			ias := map[string]bool{}
			for _, ia := range s.IA {
				if ias[ia] {
					return false
				}
				ias[ia] = true
			}
			for _, n := range []string{s.R, s.W, s.A} {
				if n != "" {
					if acc[n] {
						return false
					}
					acc[n] = true
				}
			}
		}
		w.Define(f)
		if !w.Acyclic() {
			return false
		}
	}
	if !w.Closed() {
		return false
	}
	for _, m := range c.Makes {
		if !w.Defined(m.C) {
			return false
		}
		seen := map[string]bool{}
		valid := w.Initargs(m.C)
		for _, a := range m.Args {
			if seen[a] || !in(valid, a) {
				return false
			}
			seen[a] = true
		}
	}
	for _, p := range append(append([]string{}, c.Probe...), c.Before...) {
		if !w.Defined(p) {
			return false
		}
	}
	return true
}

func in(list []string, s string) bool {
	for _, x := range list {
		if x == s {
			return true
		}
	}
	return false
}

// excluded names the classes of cases removed while an open finding is active (by construction, over the case).
func excluded(c Case) string {
	return ""
}

func run(c Case) (res *h.Result) {
	res = &h.Result{}
	if !valid(c) {
		res.Classes = []string{"invalid-case"}
		return
	}
	if tag := excluded(c); tag != "" {
		res.Skip = tag
		return
	}
	r := &runner{
		c: c, id: atomic.AddInt64(&runCounter, 1), scope: slip.NewScope(), w: refclos.New(),
		argVal: map[string]int{}, tainted: map[string]bool{}, ppDone: map[string]bool{}, pbDone: map[string]bool{},
		funcs: map[string]bool{}, classes: map[string]bool{}, labels: map[string]bool{},
	}
	defer r.cleanup()
	var ias []string
	for _, f := range c.Forms {
		for _, s := range f.Slots {
			for _, ia := range s.IA {
				if !in(ias, ia) {
					ias = append(ias, ia)
				}
			}
		}
	}
	sort.Strings(ias)
	for i, ia := range ias {
		r.argVal[ia] = 7000 + i
	}
	forward, redefSub := false, false
	var oldPrec []string
	oldOf, oldSub := "", ""
	for _, f := range c.Forms {
		redef := r.w.Defined(f.C)
		if redef {
			if len(subclassesOf(r.w, f.C)) > 0 {
				redefSub = true
				r.label("redef:with-subclasses")
			} else {
				r.label("redef:leaf")
			}
			old := r.w.Def(f.C)
			if strings.Join(old.Sup, " ") != strings.Join(f.Sup, " ") {
				r.label("redef:supers-changed")
			}
			if fmt.Sprint(old.Slots) != fmt.Sprint(f.Slots) {
				r.label("redef:slots-changed")
			}
			if c.Mid && r.w.Closed() {
				r.label("mid-query")
				if msg := r.query("before the redefinition"); msg != "" {
					return r.fail(res, msg)
				}
			}
			r.taint(old, f)
			// an instance made before the redefinition keeps the class it was made from (slip documents that): after
			// the redefinition typep and class-of must still agree about it, both with the old precedence list
			if r.w.Complete(f.C) {
				if o := r.lisp("(make-instance '%s)", r.cn(f.C)); o.Kind == ev.Value {
					r.scope.Let(slip.Symbol("old-instance"), o.Val)
					oldPrec = r.w.Precedence(f.C)
					oldOf = f.C
				}
			}
			// an instance of a subclass made before the redefinition: its class is the same class afterwards, merged
			// again, so the instance follows the new precedence list
			oldSub = ""
			for _, sub := range subclassesOf(r.w, f.C) {
				if r.w.Complete(sub) {
					if o := r.lisp("(make-instance '%s)", r.cn(sub)); o.Kind == ev.Value {
						r.scope.Let(slip.Symbol("old-sub-instance"), o.Val)
						oldSub = sub
					}
					break
				}
			}
		}
		for _, s := range f.Sup {
			if !r.w.Defined(s) {
				forward = true
			}
		}
		src := r.defclassText(f)
		r.classes[r.cn(f.C)] = true
		if out := r.lisp("%s", src); out.Kind != ev.Value {
			return r.fail(res, fmt.Sprintf("%s => %s", src, out))
		}
		r.w.Define(f)
		r.lastDef = f.C
		if redef && oldSub != "" && r.w.Complete(oldSub) {
			r.label("old-subclass-instance-after-redefinition")
			prec := r.w.Precedence(oldSub)
			for _, other := range r.w.Names() {
				o := r.lisp("(typep old-sub-instance '%s)", r.cn(other))
				if o.Kind != ev.Value || (sx.Text(o.Val) != "nil") != in(prec, other) {
					return r.fail(res, fmt.Sprintf("instance of %s made before %s (a superclass): (typep old '%s) => %s, the precedence list of %s is now %v", oldSub, describeForm(f), other, o, oldSub, prec))
				}
			}
			oldSub = ""
		}
		if redef && oldOf == f.C && oldPrec != nil {
			r.label("old-instance-after-redefinition")
			for _, other := range r.w.Names() {
				o := r.lisp("(typep old-instance '%s)", r.cn(other))
				// the class object of `other` itself may have been replaced by this redefinition (other = the
				// redefined class): membership is judged by name through the precedence list of the instance's class
				n := r.lisp("(if (member '%s (class-precedence (class-of old-instance))) t nil)", r.cn(other))
				if o.Kind != ev.Value || n.Kind != ev.Value {
					return r.fail(res, fmt.Sprintf("instance of %s made before %s: (typep old '%s) => %s, precedence of its class => %s", oldOf, describeForm(f), other, o, n))
				}
				if other != f.C && (sx.Text(o.Val) != "nil") != (sx.Text(n.Val) != "nil") {
					return r.fail(res, fmt.Sprintf("instance of %s made before %s: (typep old '%s) => %s but (member '%s (class-precedence (class-of old))) => %s; before the redefinition the precedence was %v",
						oldOf, describeForm(f), other, sx.Text(o.Val), other, sx.Text(n.Val), oldPrec))
				}
				if other != f.C && (sx.Text(o.Val) != "nil") != in(oldPrec, other) {
					return r.fail(res, fmt.Sprintf("instance of %s made before %s: (typep old '%s) => %s, its class had the precedence %v when it was made", oldOf, describeForm(f), other, sx.Text(o.Val), oldPrec))
				}
			}
			// method applicability follows the same list: after a call with an instance of the new class (which fills
			// the dispatch cache under the class name) the old instance still runs the method its own precedence selects
			if len(r.ppDone) > 0 && r.w.Complete(f.C) {
				if o := r.lisp("(make-instance '%s)", r.cn(f.C)); o.Kind == ev.Value {
					r.scope.Let(slip.Symbol("new-instance"), o.Val)
					_ = r.lisp("(%s new-instance)", r.cn("pp"))
					wantPP := ""
					for _, p := range oldPrec {
						if r.ppDone[p] {
							wantPP = p
							break
						}
					}
					got := r.lisp("(%s old-instance)", r.cn("pp"))
					if wantPP != "" && (got.Kind != ev.Value || sx.Text(got.Val) != wantPP) {
						return r.fail(res, fmt.Sprintf("instance of %s made before %s: the probe generic with methods on %v ran %s, the precedence list of its class (%v) selects the method of %s", oldOf, describeForm(f), keys(r.ppDone), got, oldPrec, wantPP))
					}
				}
			}
			oldPrec, oldOf = nil, ""
		}
		// every class whose direct and indirect superclasses are all defined has its final precedence list now
		for _, k := range r.w.Names() {
			if r.w.Complete(k) {
				if msg := r.checkPrecedence(k, "after "+describeForm(f)); msg != "" {
					return r.fail(res, msg)
				}
			}
		}
	}
	if msg := r.query("at the end"); msg != "" {
		return r.fail(res, msg)
	}
	shadow, shared := false, false
	for _, k := range r.w.Names() {
		if r.w.MaxShadow(k) >= 3 {
			shadow = true
		}
		if r.w.SharedInitarg(k) {
			shared = true
		}
	}
	if forward {
		r.label("forward-reference")
	}
	if shadow {
		r.label("slot-shadowed-2-levels")
	}
	if shared {
		r.label("initarg-shared-by-two-slots")
	}
	r.label(fmt.Sprintf("classes:%d", len(r.w.Names())))
	res.NonTrivial = (forward && (shadow || shared)) || redefSub
	return r.finish(res)
}

func (r *runner) finish(res *h.Result) *h.Result {
	for l := range r.labels {
		res.Classes = append(res.Classes, l)
	}
	sort.Strings(res.Classes)
	res.Evals = 1
	h.Class("lisp-evaluations", int64(r.evals))
	return res
}

func (r *runner) fail(res *h.Result, msg string) *h.Result {
	var forms []string
	for _, f := range r.c.Forms {
		forms = append(forms, describeForm(f))
	}
	res.Err = msg + "   [history: " + strings.Join(forms, " ") + "]"
	return r.finish(res)
}

func describeForm(d refclos.Def) string {
	var slots []string
	for _, s := range d.Slots {
		t := s.N
		for _, ia := range s.IA {
			t += " :" + ia
		}
		if s.IF != 0 {
			t += fmt.Sprintf(" =%d", s.IF)
		}
		for _, n := range []string{s.R, s.W, s.A} {
			if n != "" {
				t += " " + n
			}
		}
		slots = append(slots, "("+t+")")
	}
	return fmt.Sprintf("(defclass %s (%s) (%s))", d.C, strings.Join(d.Sup, " "), strings.Join(slots, " "))
}

// subclassesOf: defined classes that reach c through defined superclasses.
func subclassesOf(w *refclos.World, c string) []string {
	var out []string
	for _, k := range w.Names() {
		if k == c {
			continue
		}
		seen := map[string]bool{}
		var reach func(x string) bool
		reach = func(x string) bool {
			if seen[x] {
				return false
			}
			seen[x] = true
			for _, s := range w.Def(x).Sup {
				if s == c || (w.Defined(s) && reach(s)) {
					return true
				}
			}
			return false
		}
		if reach(k) {
			out = append(out, k)
		}
	}
	return out
}

// taint: an accessor name that the old definition attached to a slot and the new definition does not attach to
// the same slot keeps its old method in slip (Common Lisp removes it; the property statement says nothing), so
// that name is not queried afterwards.
func (r *runner) taint(old, now refclos.Def) {
	type key struct{ slot, kind, name string }
	cur := map[key]bool{}
	for _, s := range now.Slots {
		cur[key{s.N, "r", s.R}] = true
		cur[key{s.N, "w", s.W}] = true
		cur[key{s.N, "a", s.A}] = true
	}
	for _, s := range old.Slots {
		for kind, n := range map[string]string{"r": s.R, "w": s.W, "a": s.A} {
			if n != "" && !cur[key{s.N, kind, n}] {
				r.tainted[n] = true
			}
		}
	}
}

func (r *runner) cleanup() {
	p := slip.CurrentPackage
	for n := range r.funcs {
		p.Undefine(n)
	}
	for n := range r.classes {
		p.Remove(n)
	}
}

func (r *runner) checkPrecedence(k, when string) string {
	var want []string
	for _, x := range r.w.Precedence(k) {
		want = append(want, r.cn(x))
	}
	w := "(" + strings.Join(want, " ") + " standard-object t)"
	out := r.lisp("(class-precedence '%s)", r.cn(k))
	if out.Kind != ev.Value {
		return fmt.Sprintf("%s: (class-precedence '%s) => %s, expected %s", when, k, out, r.abs(w))
	}
	if g := sx.Text(out.Val); g != w {
		return fmt.Sprintf("%s: (class-precedence '%s) = %s, expected %s", when, k, r.abs(g), r.abs(w))
	}
	return ""
}

// abs strips the uniqueness prefix for messages.
func (r *runner) abs(s string) string { return strings.ReplaceAll(s, fmt.Sprintf("c12k%d", r.id), "") }

func (r *runner) defineProbes() string {
	pp, pb := r.cn("pp"), r.cn("pb")
	if !r.gens {
		r.gens = true
		r.funcs[pp], r.funcs[pb] = true, true
		for _, src := range []string{
			fmt.Sprintf("(defgeneric %s (x))", pp),
			fmt.Sprintf("(defgeneric %s (x))", pb),
			fmt.Sprintf("(defmethod %s ((x standard-object)) 'base)", pb),
		} {
			if out := r.lisp("%s", src); out.Kind != ev.Value {
				return fmt.Sprintf("%s => %s", src, out)
			}
		}
	}
	for _, k := range r.c.Probe {
		if r.w.Defined(k) && !r.ppDone[k] {
			r.ppDone[k] = true
			src := fmt.Sprintf("(defmethod %s ((x %s)) '%s)", pp, r.cn(k), k)
			if out := r.lisp("%s", src); out.Kind != ev.Value {
				return fmt.Sprintf("%s => %s", r.abs(src), out)
			}
		}
	}
	for _, k := range r.c.Before {
		if r.w.Defined(k) && !r.pbDone[k] {
			r.pbDone[k] = true
			src := fmt.Sprintf("(defmethod %s :before ((x %s)) (vt:mark '%s))", pb, r.cn(k), k)
			if out := r.lisp("%s", src); out.Kind != ev.Value {
				return fmt.Sprintf("%s => %s", r.abs(src), out)
			}
		}
	}
	return ""
}

type slotState struct {
	bound bool
	val   int
	any   []int // non-empty: several supplied initargs name the slot; any of these values is accepted
}

// expectSlots computes the state of every slot of a new instance of k made with the given initargs.
func (r *runner) expectSlots(k string, args []string) (map[string]*slotState, bool) {
	st := map[string]*slotState{}
	ambiguous := false
	for _, s := range r.w.Slots(k) {
		var vals []int
		for _, a := range args {
			if in(s.Initargs, a) {
				vals = append(vals, r.argVal[a])
			}
		}
		switch {
		case len(vals) == 1:
			st[s.Name] = &slotState{bound: true, val: vals[0]}
		case len(vals) > 1:
			st[s.Name] = &slotState{bound: true, any: vals}
			ambiguous = true
		case s.Initform != 0:
			st[s.Name] = &slotState{bound: true, val: s.Initform}
		default:
			st[s.Name] = &slotState{}
		}
	}
	return st, ambiguous
}

func (r *runner) makeText(k string, args []string) string {
	var b strings.Builder
	fmt.Fprintf(&b, "(make-instance '%s", r.cn(k))
	for _, a := range args {
		fmt.Fprintf(&b, " :%s %d", a, r.argVal[a])
	}
	b.WriteByte(')')
	return b.String()
}

// checkSlots compares every slot of the instance bound to variable v with the expected state.
func (r *runner) checkSlots(v, what string, st map[string]*slotState) string {
	names := make([]string, 0, len(st))
	for n := range st {
		names = append(names, n)
	}
	sort.Strings(names)
	for _, n := range names {
		e := st[n]
		out := r.lisp("(slot-boundp %s '%s)", v, n)
		if out.Kind != ev.Value {
			return fmt.Sprintf("%s: (slot-boundp o '%s) => %s", what, n, out)
		}
		if g := sx.Text(out.Val) != "nil"; g != e.bound {
			return fmt.Sprintf("%s: slot %s bound = %v, expected %v%s", what, n, g, e.bound, expectText(e))
		}
		out = r.lisp("(slot-value %s '%s)", v, n)
		if !e.bound {
			if out.Kind != ev.Condition || out.Class != "unbound-slot" {
				return fmt.Sprintf("%s: (slot-value o '%s) of an unbound slot => %s, expected an unbound-slot condition", what, n, out)
			}
			continue
		}
		if out.Kind != ev.Value {
			return fmt.Sprintf("%s: (slot-value o '%s) => %s, expected%s", what, n, out, expectText(e))
		}
		g := sx.Typed(out.Val)
		ok := false
		if len(e.any) > 0 {
			for _, a := range e.any {
				if g == fmt.Sprintf("fix:%d", a) {
					ok = true
				}
			}
		} else {
			ok = g == fmt.Sprintf("fix:%d", e.val)
		}
		if !ok {
			return fmt.Sprintf("%s: slot %s = %s, expected%s", what, n, g, expectText(e))
		}
	}
	return ""
}

func expectText(e *slotState) string {
	switch {
	case !e.bound:
		return " unbound"
	case len(e.any) > 0:
		return fmt.Sprintf(" one of %v", e.any)
	}
	return fmt.Sprintf(" %d", e.val)
}

func (r *runner) slotUniverse() []string {
	var out []string
	for _, f := range r.c.Forms {
		for _, s := range f.Slots {
			if !in(out, s.N) {
				out = append(out, s.N)
			}
		}
	}
	sort.Strings(out)
	return out
}

// query runs all observations on the current (closed) world.
func (r *runner) query(when string) string {
	if msg := r.defineProbes(); msg != "" {
		return when + ": " + msg
	}
	// the class defined last is looked at last: a call with an instance of a freshly (re)defined class is a miss in every
	// dispatch cache, and a miss may heal what a hit on an untouched subclass would show
	names := r.w.Names()
	sort.SliceStable(names, func(i, j int) bool { return names[i] != r.lastDef && names[j] == r.lastDef })
	for _, k := range names {
		if msg := r.checkPrecedence(k, when); msg != "" {
			return msg
		}
		makes := [][]string{nil}
		seen := map[string]bool{"": true}
		add := func(args []string) {
			key := strings.Join(args, ",")
			if !seen[key] {
				seen[key] = true
				makes = append(makes, args)
			}
		}
		for _, m := range r.c.Makes {
			if m.C != k {
				continue
			}
			if m.All {
				ias := r.w.Initargs(k)
				if len(ias) > 5 {
					ias = ias[:5]
				}
				for mask := 1; mask < 1<<len(ias); mask++ {
					var args []string
					for i, a := range ias {
						if mask&(1<<i) != 0 {
							args = append(args, a)
						}
					}
					if len(args)%2 == 0 { // vary the order in which they are written
						for i, j := 0, len(args)-1; i < j; i, j = i+1, j-1 {
							args[i], args[j] = args[j], args[i]
						}
					}
					add(args)
				}
				continue
			}
			// the case was built for the final world; initargs that are not valid (yet) are left out
			valid := r.w.Initargs(k)
			var args []string
			for _, a := range m.Args {
				if in(valid, a) {
					args = append(args, a)
				}
			}
			add(args)
		}
		for i, args := range makes {
			if msg := r.instance(when, k, args, i == 0 || i == len(makes)-1); msg != "" {
				return msg
			}
		}
	}
	return ""
}

// instance makes one instance and checks it; full = also typep, class-of, probes, readers, writers.
func (r *runner) instance(when, k string, args []string, full bool) string {
	src := r.makeText(k, args)
	what := when + ": " + r.abs(src)
	st, ambiguous := r.expectSlots(k, args)
	out := r.lisp("%s", src)
	if out.Kind != ev.Value {
		if ambiguous && out.Kind == ev.Condition {
			// two supplied initargs name one slot: which one wins (or an error) is not fixed by the property
			h.Class("make:two-initargs-for-one-slot-rejected", 1)
			return ""
		}
		return fmt.Sprintf("%s => %s", what, out)
	}
	r.scope.Let(slip.Symbol("o"), out.Val)
	if msg := r.checkSlots("o", what, st); msg != "" {
		return msg
	}
	h.Class("instances-checked", 1)
	if !full {
		return ""
	}
	// slots of classes that are not in the precedence list do not exist
	for _, n := range r.slotUniverse() {
		if _, has := st[n]; has {
			continue
		}
		o := r.lisp("(slot-exists-p o '%s)", n)
		if o.Kind != ev.Value || sx.Text(o.Val) != "nil" {
			return fmt.Sprintf("%s: (slot-exists-p o '%s) => %s, but no class in the precedence list %v has that slot", what, n, o, r.w.Precedence(k))
		}
	}
	prec := r.w.Precedence(k)
	for _, other := range r.w.Names() {
		o := r.lisp("(typep o '%s)", r.cn(other))
		want := in(prec, other)
		if o.Kind != ev.Value || (sx.Text(o.Val) != "nil") != want {
			return fmt.Sprintf("%s: (typep o '%s) => %s, expected %v (precedence %v)", what, other, o, want, prec)
		}
	}
	if o := r.lisp("(typep o 'standard-object)"); o.Kind != ev.Value || sx.Text(o.Val) == "nil" {
		return fmt.Sprintf("%s: (typep o 'standard-object) => %s", what, o)
	}
	if o := r.lisp("(list (class-name (class-of o)) (eq (class-of o) (find-class '%s)))", r.cn(k)); o.Kind != ev.Value || sx.Text(o.Val) != "("+r.cn(k)+" t)" {
		return fmt.Sprintf("%s: (class-name (class-of o)), (eq (class-of o) (find-class ..)) => %s", what, r.abs(o.String()))
	}
	// probe generics
	wantPP := ""
	for _, p := range prec {
		if r.ppDone[p] {
			wantPP = p
			break
		}
	}
	o := r.lisp("(%s o)", r.cn("pp"))
	switch {
	case wantPP == "" && len(r.ppDone) > 0 && o.Kind != ev.Condition:
		return fmt.Sprintf("%s: probe generic with methods on %v => %s, expected no applicable method (precedence %v)", what, keys(r.ppDone), o, prec)
	case wantPP != "" && (o.Kind != ev.Value || sx.Text(o.Val) != wantPP):
		return fmt.Sprintf("%s: probe generic with methods on %v ran %s, expected the method of %s (precedence %v)", what, keys(r.ppDone), o, wantPP, prec)
	}
	var wantTrace []string
	for _, p := range prec {
		if r.pbDone[p] {
			wantTrace = append(wantTrace, p)
		}
	}
	ev.ResetTrace()
	o = r.lisp("(%s o)", r.cn("pb"))
	if g, w := ev.TraceString(), strings.Join(wantTrace, " "); o.Kind != ev.Value || sx.Text(o.Val) != "base" || g != w {
		return fmt.Sprintf("%s: :before methods on %v ran in order [%s] (result %s), expected [%s] (precedence %v)", what, keys(r.pbDone), g, o, w, prec)
	}
	// readers
	for _, kind := range []string{refclos.Reader, refclos.Accessor} {
		acc := r.w.Accessors(k, kind)
		for _, n := range keys2(acc) {
			if r.tainted[n] {
				continue
			}
			e := st[acc[n]]
			if !e.bound || len(e.any) > 0 {
				continue // what a reader does with an unbound slot is not fixed by the property
			}
			o := r.lisp("(%s o)", r.cn(n))
			if o.Kind != ev.Value || sx.Typed(o.Val) != fmt.Sprintf("fix:%d", e.val) {
				return fmt.Sprintf("%s: reader (%s o) => %s, expected slot %s = %d (precedence %v)", what, n, o, acc[n], e.val, prec)
			}
			h.Class("reader-calls", 1)
		}
	}
	// writers: each writes one slot; all slots are read back after each write, and a second instance made the
	// same way must stay as it was
	o2 := r.lisp("%s", src)
	if o2.Kind != ev.Value {
		return fmt.Sprintf("%s (second time) => %s", what, o2)
	}
	r.scope.Let(slip.Symbol("o2"), o2.Val)
	st2, _ := r.expectSlots(k, args)
	for s, e := range st2 { // the second instance may have resolved an ambiguity differently: read it
		if len(e.any) > 0 {
			v := r.lisp("(slot-value o2 '%s)", s)
			if v.Kind == ev.Value {
				if f, ok := v.Val.(slip.Fixnum); ok {
					e.val, e.any = int(f), nil
				}
			}
		}
	}
	for s, e := range st {
		if len(e.any) > 0 {
			v := r.lisp("(slot-value o '%s)", s)
			if v.Kind == ev.Value {
				if f, ok := v.Val.(slip.Fixnum); ok {
					e.val, e.any = int(f), nil
				}
			}
		}
	}
	next := 9000
	for _, kind := range []string{refclos.Writer, refclos.Accessor} {
		acc := r.w.Accessors(k, kind)
		for _, n := range keys2(acc) {
			if r.tainted[n] {
				continue
			}
			next++
			var wsrc string
			if kind == refclos.Writer {
				wsrc = fmt.Sprintf("(%s o %d)", r.cn(n), next)
			} else {
				wsrc = fmt.Sprintf("(setf (%s o) %d)", r.cn(n), next)
			}
			o := r.lisp("%s", wsrc)
			if o.Kind != ev.Value {
				return fmt.Sprintf("%s: %s => %s", what, r.abs(wsrc), o)
			}
			st[acc[n]] = &slotState{bound: true, val: next}
			if msg := r.checkSlots("o", what+" then "+r.abs(wsrc)+" (writes slot "+acc[n]+")", st); msg != "" {
				return msg
			}
			h.Class("writer-calls", 1)
		}
	}
	// (setf slot-value) and slot-makunbound act on the named slot only
	slots := r.w.Slots(k)
	if len(slots) > 0 {
		a, b := slots[0].Name, slots[len(slots)-1].Name
		next++
		wsrc := fmt.Sprintf("(setf (slot-value o '%s) %d)", a, next)
		if o := r.lisp("%s", wsrc); o.Kind != ev.Value {
			return fmt.Sprintf("%s: %s => %s", what, wsrc, o)
		}
		st[a] = &slotState{bound: true, val: next}
		if msg := r.checkSlots("o", what+" then "+wsrc, st); msg != "" {
			return msg
		}
		wsrc = fmt.Sprintf("(slot-makunbound o '%s)", b)
		if o := r.lisp("%s", wsrc); o.Kind != ev.Value {
			return fmt.Sprintf("%s: %s => %s", what, wsrc, o)
		}
		st[b] = &slotState{}
		if msg := r.checkSlots("o", what+" then "+wsrc, st); msg != "" {
			return msg
		}
	}
	if next > 9000 {
		if msg := r.checkSlots("o2", what+": a second instance after writes to the first", st2); msg != "" {
			return msg
		}
	}
	return ""
}

func keys(m map[string]bool) []string {
	out := make([]string, 0, len(m))
	for k := range m {
		out = append(out, k)
	}
	sort.Strings(out)
	return out
}

func keys2(m map[string]string) []string {
	out := make([]string, 0, len(m))
	for k := range m {
		out = append(out, k)
	}
	sort.Strings(out)
	return out
}

// ---------------------------------------------------------------- generator

var (
	classNames = []string{"a", "b", "c", "d", "e"}
	slotPool   = []string{"s0", "s1", "s2", "s3"}
	argPool    = []string{"k0", "k1", "k2", "k3"}
	readers    = []string{"r0", "r1", "r2"}
	writers    = []string{"w0", "w1", "w2"}
	accessors  = []string{"a0", "a1", "a2"}
)

func subset(rt *rapid.T, label string, pool []string, max int) []string {
	if max > len(pool) {
		max = len(pool)
	}
	n := rapid.IntRange(0, max).Draw(rt, label+"-n")
	perm := rapid.Permutation(pool).Draw(rt, label)
	return append([]string{}, perm[:n]...)
}

func genSlots(rt *rapid.T, ci int, base int) []refclos.Slot {
	names := subset(rt, "slots", slotPool, 3)
	var out []refclos.Slot
	usedR, usedW, usedA := map[string]bool{}, map[string]bool{}, map[string]bool{}
	for j, n := range names {
		s := refclos.Slot{N: n}
		s.IA = subset(rt, "initargs", argPool, 2)
		if rapid.Bool().Draw(rt, "initform") {
			s.IF = base + 10*ci + j + 1
		}
		pick := func(label string, pool []string, used map[string]bool, odds int) string {
			if rapid.IntRange(0, 9).Draw(rt, label) >= odds {
				return ""
			}
			n := rapid.SampledFrom(pool).Draw(rt, label+"-name")
			if used[n] {
				return ""
			}
			used[n] = true
			return n
		}
		s.R = pick("reader", readers, usedR, 3)
		s.W = pick("writer", writers, usedW, 3)
		s.A = pick("accessor", accessors, usedA, 3)
		out = append(out, s)
	}
	return out
}

func gen(rt *rapid.T) Case {
	n := rapid.IntRange(2, 5).Draw(rt, "classes")
	names := classNames[:n]
	defs := make([]refclos.Def, n)
	for i := 0; i < n; i++ {
		d := refclos.Def{C: names[i]}
		if i > 0 {
			max := []int{0, 1, 1, 2, 2, 3}[rapid.IntRange(0, 5).Draw(rt, "nsup")]
			if max > i {
				max = i
			}
			perm := rapid.Permutation(names[:i]).Draw(rt, "supers")
			d.Sup = append([]string{}, perm[:max]...)
		}
		d.Slots = genSlots(rt, i, 100)
		defs[i] = d
	}
	var c Case
	if rapid.IntRange(0, 3).Draw(rt, "canonical-order") == 0 {
		c.Forms = append(c.Forms, defs...)
	} else {
		c.Forms = rapid.Permutation(defs).Draw(rt, "order")
	}
	final := refclos.New()
	for _, d := range defs {
		final.Define(d)
	}
	if rapid.Bool().Draw(rt, "redefine") {
		ri := rapid.IntRange(0, n-1).Draw(rt, "redef-class")
		nd := refclos.Def{C: names[ri], Sup: append([]string{}, defs[ri].Sup...)}
		for _, s := range defs[ri].Slots {
			s.IA = append([]string{}, s.IA...)
			nd.Slots = append(nd.Slots, s)
		}
		changes := rapid.IntRange(1, 3).Draw(rt, "changes")
		for k := 0; k < changes; k++ {
			switch rapid.IntRange(0, 7).Draw(rt, "change") {
			case 0: // reorder the superclasses
				if len(nd.Sup) > 1 {
					nd.Sup = rapid.Permutation(nd.Sup).Draw(rt, "new-super-order")
				}
			case 1: // drop a superclass
				if len(nd.Sup) > 0 {
					i := rapid.IntRange(0, len(nd.Sup)-1).Draw(rt, "drop-super")
					nd.Sup = append(append([]string{}, nd.Sup[:i]...), nd.Sup[i+1:]...)
				}
			case 2: // add a superclass (any class that keeps the graph acyclic)
				cand := rapid.SampledFrom(names).Draw(rt, "add-super")
				if cand != nd.C && !in(nd.Sup, cand) {
					try := refclos.New()
					for _, d := range defs {
						try.Define(d)
					}
					at := rapid.IntRange(0, len(nd.Sup)).Draw(rt, "add-super-at")
					sup := append(append(append([]string{}, nd.Sup[:at]...), cand), nd.Sup[at:]...)
					try.Define(refclos.Def{C: nd.C, Sup: sup})
					if try.Acyclic() {
						nd.Sup = sup
					}
				}
			case 3: // remove a slot
				if len(nd.Slots) > 0 {
					i := rapid.IntRange(0, len(nd.Slots)-1).Draw(rt, "drop-slot")
					nd.Slots = append(append([]refclos.Slot{}, nd.Slots[:i]...), nd.Slots[i+1:]...)
				}
			case 4: // add a slot
				var free []string
				for _, s := range slotPool {
					has := false
					for _, x := range nd.Slots {
						if x.N == s {
							has = true
						}
					}
					if !has {
						free = append(free, s)
					}
				}
				if len(free) > 0 {
					s := refclos.Slot{N: rapid.SampledFrom(free).Draw(rt, "new-slot")}
					s.IA = subset(rt, "new-slot-initargs", argPool, 2)
					if rapid.Bool().Draw(rt, "new-slot-initform") {
						s.IF = 500 + 10*ri + len(nd.Slots)
					}
					nd.Slots = append(nd.Slots, s)
				}
			case 5: // change, add or remove an initform
				if len(nd.Slots) > 0 {
					i := rapid.IntRange(0, len(nd.Slots)-1).Draw(rt, "initform-slot")
					if nd.Slots[i].IF != 0 && rapid.Bool().Draw(rt, "initform-remove") {
						nd.Slots[i].IF = 0
					} else {
						nd.Slots[i].IF = 600 + 10*ri + i
					}
				}
			case 6: // change the initargs of a slot
				if len(nd.Slots) > 0 {
					i := rapid.IntRange(0, len(nd.Slots)-1).Draw(rt, "initarg-slot")
					nd.Slots[i].IA = subset(rt, "new-initargs", argPool, 2)
				}
			case 7: // same definition again
			}
		}
		// place the redefinition somewhere after the first definition
		first := 0
		for i, f := range c.Forms {
			if f.C == nd.C {
				first = i
			}
		}
		at := rapid.IntRange(first+1, len(c.Forms)).Draw(rt, "redef-at")
		if rapid.Bool().Draw(rt, "redef-last") {
			at = len(c.Forms)
		}
		forms := append([]refclos.Def{}, c.Forms[:at]...)
		forms = append(forms, nd)
		c.Forms = append(forms, c.Forms[at:]...)
		final.Define(nd)
		c.Mid = rapid.Bool().Draw(rt, "mid")
		if at == len(forms)-1+0 && len(c.Forms) == at+1 && rapid.Bool().Draw(rt, "redefine-twice") {
			// a second redefinition right after the first (no other definition in between): mostly of a superclass
			// of the class redefined first, with a slot added or an initform changed (the superclasses stay)
			second := rapid.SampledFrom(names).Draw(rt, "redef2-class")
			if sups := final.Precedence(nd.C); len(sups) > 1 && rapid.IntRange(0, 3).Draw(rt, "redef2-super") > 0 {
				second = sups[rapid.IntRange(1, len(sups)-1).Draw(rt, "redef2-which")]
			}
			if final.Defined(second) {
				old := final.Def(second)
				nd2 := refclos.Def{C: second, Sup: append([]string{}, old.Sup...)}
				for _, sl := range old.Slots {
					sl.IA = append([]string{}, sl.IA...)
					nd2.Slots = append(nd2.Slots, sl)
				}
				if len(nd2.Slots) > 0 && rapid.Bool().Draw(rt, "redef2-initform") {
					i := rapid.IntRange(0, len(nd2.Slots)-1).Draw(rt, "redef2-slot")
					nd2.Slots[i].IF = 700 + i
				} else {
					for _, sn := range slotPool {
						has := false
						for _, x := range nd2.Slots {
							has = has || x.N == sn
						}
						if !has {
							nd2.Slots = append(nd2.Slots, refclos.Slot{N: sn, IF: 710, IA: subset(rt, "redef2-initargs", argPool, 2)})
							break
						}
					}
				}
				c.Forms = append(c.Forms, nd2)
				final.Define(nd2)
			}
		}
	}
	// the add-super change was checked against the first definitions only; every prefix must be acyclic
	if !prefixesAcyclic(c.Forms) {
		// fall back to the history without the redefinition's superclass change
		for i := range c.Forms {
			for j := 0; j < i; j++ {
				if c.Forms[j].C == c.Forms[i].C {
					c.Forms[i].Sup = append([]string{}, c.Forms[j].Sup...)
					final.Define(c.Forms[i])
				}
			}
		}
	}
	nm := rapid.IntRange(0, 3).Draw(rt, "makes")
	for i := 0; i < nm; i++ {
		k := rapid.SampledFrom(names).Draw(rt, "make-class")
		m := Make{C: k}
		if rapid.IntRange(0, 4).Draw(rt, "make-all") == 0 {
			m.All = true
		} else {
			ias := final.Initargs(k)
			if len(ias) > 0 {
				perm := rapid.Permutation(ias).Draw(rt, "make-args")
				m.Args = append([]string{}, perm[:rapid.IntRange(0, len(perm)).Draw(rt, "make-nargs")]...)
			}
		}
		c.Makes = append(c.Makes, m)
	}
	c.Probe = subset(rt, "probe", names, n)
	c.Before = subset(rt, "before", names, n)
	sort.Strings(c.Probe)
	sort.Strings(c.Before)
	return c
}

func prefixesAcyclic(forms []refclos.Def) bool {
	w := refclos.New()
	for _, f := range forms {
		w.Define(f)
		if !w.Acyclic() {
			return false
		}
	}
	return true
}

// ---------------------------------------------------------------- enumerations

// orderedSubsets returns every arrangement of every subset of 0..k-1.
func orderedSubsets(k int) [][]int {
	out := [][]int{{}}
	var rec func(cur []int, used int)
	rec = func(cur []int, used int) {
		for i := 0; i < k; i++ {
			if used&(1<<i) == 0 {
				next := append(append([]int{}, cur...), i)
				out = append(out, next)
				rec(next, used|1<<i)
			}
		}
	}
	rec(nil, 0)
	return out
}

// dags enumerates every assignment of ordered superclass lists where class i takes its superclasses among
// the classes 0..i-1.
func dags(n int, yield func(sup [][]int) bool) {
	cur := make([][]int, n)
	var rec func(i int) bool
	rec = func(i int) bool {
		if i == n {
			cp := make([][]int, n)
			copy(cp, cur)
			return yield(cp)
		}
		for _, s := range orderedSubsets(i) {
			cur[i] = s
			if !rec(i + 1) {
				return false
			}
		}
		return true
	}
	rec(0)
}

func permutations(n int) [][]int {
	var out [][]int
	var rec func(cur []int, used int)
	rec = func(cur []int, used int) {
		if len(cur) == n {
			out = append(out, append([]int{}, cur...))
			return
		}
		for i := 0; i < n; i++ {
			if used&(1<<i) == 0 {
				rec(append(cur, i), used|1<<i)
			}
		}
	}
	rec(nil, 0)
	return out
}

// templates give class i of n its slots in the grids.
const nTemplates = 3

func templateSlots(t, i, n int) []refclos.Slot {
	is := fmt.Sprint(i)
	switch t {
	case 0:
		// slot s in every class (shadowing over every level), initform in the even classes, one initarg per
		// class; an own slot with reader and writer
		s := refclos.Slot{N: "s", IA: []string{"s" + is}}
		if i%2 == 0 {
			s.IF = 100 + i
		}
		return []refclos.Slot{s, {N: "u" + is, IA: []string{"u" + is}, R: "r" + is, W: "w" + is}}
	case 1:
		// initarg k shared by slots s and v; initforms in the odd classes; accessors
		s := refclos.Slot{N: "s", IA: []string{"k"}}
		if i%2 == 1 {
			s.IF = 100 + i
		}
		out := []refclos.Slot{s}
		if i >= 1 {
			out = append(out, refclos.Slot{N: "v", IA: []string{"k", "v"}, IF: 200 + i, A: "a" + is})
		}
		return out
	}
	// slot s without initform in the two last classes and with one in class 0; a reader name shared by all
	// classes, attached to alternating slots
	var out []refclos.Slot
	if i == 0 {
		out = append(out, refclos.Slot{N: "s", IF: 100, IA: []string{"s"}})
	} else if i >= n-2 {
		out = append(out, refclos.Slot{N: "s"})
	}
	out = append(out, refclos.Slot{N: "t" + fmt.Sprint(i%2), IF: 300 + i, R: "rd", IA: []string{"t"}})
	return out
}

func gridDefs(t int, sup [][]int) []refclos.Def {
	n := len(sup)
	defs := make([]refclos.Def, n)
	for i := range defs {
		defs[i] = refclos.Def{C: classNames[i], Slots: templateSlots(t, i, n)}
		for _, s := range sup[i] {
			defs[i].Sup = append(defs[i].Sup, classNames[s])
		}
	}
	return defs
}

func gridCase(defs []refclos.Def, perm []int, all bool) Case {
	var c Case
	for _, p := range perm {
		c.Forms = append(c.Forms, defs[p])
	}
	n := len(defs)
	c.Makes = []Make{{C: classNames[n-1], All: all}}
	for i := 0; i < n; i++ {
		if i%2 == 0 {
			c.Probe = append(c.Probe, classNames[i])
		}
		c.Before = append(c.Before, classNames[i])
	}
	return c
}

// redefinitions of class r for the redefinition grid.
func redefinitions(defs []refclos.Def, r int) []refclos.Def {
	base := defs[r]
	var out []refclos.Def
	cp := func() refclos.Def {
		d := refclos.Def{C: base.C, Sup: append([]string{}, base.Sup...)}
		for _, s := range base.Slots {
			s.IA = append([]string{}, s.IA...)
			d.Slots = append(d.Slots, s)
		}
		return d
	}
	if len(base.Sup) > 1 {
		d := cp()
		for i, j := 0, len(d.Sup)-1; i < j; i, j = i+1, j-1 {
			d.Sup[i], d.Sup[j] = d.Sup[j], d.Sup[i]
		}
		out = append(out, d)
	}
	if len(base.Sup) > 0 {
		d := cp()
		d.Sup = d.Sup[1:]
		out = append(out, d)
	}
	for j := range defs {
		if j == r || in(base.Sup, defs[j].C) {
			continue
		}
		for _, front := range []bool{true, false} {
			d := cp()
			if front {
				d.Sup = append([]string{defs[j].C}, d.Sup...)
			} else {
				d.Sup = append(d.Sup, defs[j].C)
			}
			w := refclos.New()
			for _, x := range defs {
				w.Define(x)
			}
			w.Define(d)
			if w.Acyclic() {
				out = append(out, d)
			}
			if len(base.Sup) == 0 {
				break
			}
		}
	}
	{
		d := cp()
		d.Slots = append(d.Slots, refclos.Slot{N: "z", IF: 900 + r, IA: []string{"z"}})
		out = append(out, d)
	}
	{
		d := cp()
		d.Slots = d.Slots[1:]
		out = append(out, d)
	}
	{
		d := cp()
		if d.Slots[0].IF != 0 {
			d.Slots[0].IF = 0
		} else {
			d.Slots[0].IF = 800 + r
		}
		out = append(out, d)
	}
	return out
}

var (
	classes   = h.Prop[Case]{Name: "classes", Gen: gen, Run: run}
	permGrid  = h.Prop[Case]{Name: "permutation-grid", Run: run}
	redefGrid = h.Prop[Case]{Name: "redefinition-grid", Run: run}
	// every DAG of 5 classes with a fifth of the permutations: a sample, not an exhaustive space
	permSample = h.Prop[Case]{Name: "permutation-sample", Run: run}
)

func TestC12(t *testing.T) {
	h.Rule("a case is a history of defclass forms (2-5 classes a..e, class i takes an ordered list of 0-3 superclasses among the earlier ones; 0-3 slots per class out of s0..s3, " +
		"each with 0-2 initargs out of k0..k3, an integer initform with probability 1/2, reader/writer/accessor names out of small pools so that names are shared between classes), " +
		"evaluated in a random permutation, optionally with a second defclass of one class (1-3 changes out of: superclasses reordered/dropped/added, slot added/removed, initform changed, initargs changed) " +
		"placed anywhere after the first; then instances of every class with no initargs, with chosen initargs, or with every subset of its initargs; two probe generics. " +
		"Oracle = reference model internal/refclos (precedence, effective slots, accessor resolution) written from the property statement. " +
		"Non-trivial: (some form names a superclass that is not defined yet) and (some slot is defined by >= 3 classes of one precedence list, or an initarg names two different slots of a class), " +
		"or a class is redefined while it has subclasses. Distinct by the whole case (history, makes, probes). " +
		"permutation-grid: every DAG of n classes (class i inherits from an ordered subset of classes 0..i-1), n = 2..3 (quick) / 2..4 (thorough), x 3 slot templates x every permutation of the forms, " +
		"instances for every subset of the initargs of the last class; plus n = 4 in quick: every DAG x one template x every permutation, one instance per class. " +
		"permutation-sample (thorough): every DAG of 5 classes x one template x 24 of the 120 permutations. " +
		"redefinition-grid: every DAG (n = 2..3 quick, 2..4 thorough) x 3 templates x every class x a fixed list of redefinitions (superclasses reversed, first dropped, each other class added in front or at the end, " +
		"slot added, slot removed, initform toggled) x {canonical, reversed} order x {queried before the redefinition or not}.")
	h.Assume("internal/refclos encodes the precedence rule of the property statement (direct superclasses in written order, then theirs), not the CLOS topological sort")
	h.Assume("a writer is called as (writer object value), the argument order slip's suite pins; initforms are integer literals; slots have instance allocation; no :default-initargs, no :type")
	h.Assume("of an instance made before a redefinition only this is examined afterwards: typep and the precedence list of its class-of still agree and are the ones from before (slip documents that such instances keep the old class)")

	h.RunProp(t, permGrid, 0)
	h.RunProp(t, redefGrid, 0)
	h.RunProp(t, permSample, 0)
	h.RunProp(t, classes, h.N(3000, 45000))

	if os.Getenv("C12_ONLY_RAPID") != "" { // development aid: histogram of the generator alone
		return
	}
	maxN := 3
	if h.Thorough() {
		maxN = 4
	}
	var count int
	mine := func() bool { // split enumerations over the shards
		count++
		return (count-1)%h.C.NShards == h.C.Shard
	}
	// permutation grid. Sizes up to maxN: every DAG x 3 templates x every permutation, instances for every
	// initarg subset. Size maxN+1: every DAG x one template (chosen by the DAG) x every permutation (quick) or
	// 24 of the 120 permutations (thorough, n = 5; reported as the separate, non-exhaustive sub-property
	// permutation-sample), one instance per class.
	permCases := func(n int, sample bool, yield func(Case) bool) {
		perms := permutations(n)
		di := 0
		dags(n, func(sup [][]int) bool {
			di++
			for tpl := 0; tpl < nTemplates; tpl++ {
				if n > maxN && tpl != (len(sup[n-1])+len(sup[1]))%nTemplates {
					continue
				}
				defs := gridDefs(tpl, sup)
				for pi, p := range perms {
					if sample && (pi+di)%5 != 0 {
						continue
					}
					if !mine() {
						continue
					}
					if !yield(gridCase(defs, p, n <= maxN)) {
						return false
					}
				}
			}
			return true
		})
	}
	h.Enumerate(t, permGrid, func(yield func(Case) bool) {
		stop := false
		for n := 2; n <= maxN+1 && !stop; n++ {
			if n == 5 {
				break
			}
			permCases(n, false, func(c Case) bool {
				if !yield(c) {
					stop = true
				}
				return !stop
			})
		}
	})
	if h.Thorough() && h.C.ReplayIn == "" {
		viol := 0
		permCases(5, true, func(c Case) bool {
			if !h.One(t, permSample, c) {
				viol++
			}
			return viol < 3
		})
	}
	h.Enumerate(t, redefGrid, func(yield func(Case) bool) {
		for n := 2; n <= maxN; n++ {
			ok := true
			dags(n, func(sup [][]int) bool {
				for tpl := 0; tpl < nTemplates; tpl++ {
					defs := gridDefs(tpl, sup)
					for r := 0; r < n; r++ {
						for _, nd := range redefinitions(defs, r) {
							for _, reversed := range []bool{false, true} {
								for _, mid := range []bool{false, true} {
									if !mine() {
										continue
									}
									perm := make([]int, n)
									for i := range perm {
										perm[i] = i
										if reversed {
											perm[i] = n - 1 - i
										}
									}
									c := gridCase(defs, perm, false)
									c.Forms = append(c.Forms, nd)
									c.Mid = mid
									c.Makes = append(c.Makes, Make{C: nd.C, All: true})
									if !yield(c) {
										ok = false
										return false
									}
								}
							}
						}
					}
				}
				return true
			})
			if !ok {
				return
			}
		}
	})
}
