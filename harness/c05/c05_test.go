package c05

import (
	"fmt"
	"math"
	"math/big"
	"strconv"
	"strings"
	"testing"

	"github.com/ohler55/slip"
	"pgregory.net/rapid"

	"verif/harness/internal/ev"
	"verif/harness/internal/h"
	"verif/harness/internal/refnum"
	"verif/harness/internal/sx"
)

func TestMain(m *testing.M) { h.Main(m, "C05") }

// Case is an operator applied to operand descriptors (see refnum.Parse).
type Case struct {
	Op string   `json:"op"`
	A  []string `json:"args"`
}

func (c Case) String() string { return "(" + c.Op + " " + strings.Join(c.A, " ") + ")" }

var (
	one    = big.NewRat(1, 1)
	maxI64 = new(big.Int).Sub(refnum.Pow2(63), big.NewInt(1))
	minI64 = new(big.Int).Neg(refnum.Pow2(63))
)

func fitsFix(r *big.Rat) bool { return r.IsInt() && r.Num().IsInt64() }

// expectation: either a list of exact values (1 or 2 = multiple values), or a condition class.
type expect struct {
	vals   []*big.Rat
	cond   string // "division-by-zero" or "error" (any error)
	interm []*big.Rat
}

func ints(ns []refnum.Num) bool {
	for _, n := range ns {
		if n.Kind != "int" {
			return false
		}
	}
	return true
}

// model computes the expected exact outcome. ok=false means the case is outside the model's domain.
func model(op string, ns []refnum.Num) (e expect, ok bool) {
	ok = true
	r := func(i int) *big.Rat { return ns[i].R }
	switch op {
	case "+", "-", "*", "/":
		if len(ns) == 0 {
			switch op {
			case "+":
				e.vals = []*big.Rat{new(big.Rat)}
			case "*":
				e.vals = []*big.Rat{big.NewRat(1, 1)}
			default:
				e.cond = "error"
			}
			return
		}
		acc := new(big.Rat).Set(r(0))
		if len(ns) == 1 {
			switch op {
			case "-":
				acc.Neg(acc)
			case "/":
				if acc.Sign() == 0 {
					e.cond = "division-by-zero"
					return
				}
				acc.Inv(acc)
			}
			e.vals = []*big.Rat{acc}
			return
		}
		for i := 1; i < len(ns); i++ {
			switch op {
			case "+":
				acc.Add(acc, r(i))
			case "-":
				acc.Sub(acc, r(i))
			case "*":
				acc.Mul(acc, r(i))
			case "/":
				if r(i).Sign() == 0 {
					e.cond = "division-by-zero"
					return
				}
				acc.Quo(acc, r(i))
			}
			e.interm = append(e.interm, new(big.Rat).Set(acc))
		}
		e.vals = []*big.Rat{acc}
	case "1+":
		e.vals = []*big.Rat{new(big.Rat).Add(r(0), one)}
	case "1-":
		e.vals = []*big.Rat{new(big.Rat).Sub(r(0), one)}
	case "abs":
		e.vals = []*big.Rat{new(big.Rat).Abs(r(0))}
	case "incf", "decf":
		d := one
		if len(ns) > 1 {
			d = r(1)
		}
		v := new(big.Rat)
		if op == "incf" {
			v.Add(r(0), d)
		} else {
			v.Sub(r(0), d)
		}
		e.vals = []*big.Rat{v, v} // returned value and the variable afterwards
	case "gcd":
		g := new(big.Int)
		for _, n := range ns {
			a := new(big.Int).Abs(n.R.Num())
			g.GCD(nil, nil, g, a)
		}
		e.vals = []*big.Rat{new(big.Rat).SetInt(g)}
	case "lcm":
		l := big.NewInt(1)
		for _, n := range ns {
			a := new(big.Int).Abs(n.R.Num())
			if a.Sign() == 0 {
				l.SetInt64(0)
				break
			}
			g := new(big.Int).GCD(nil, nil, l, a)
			l.Mul(l, a)
			l.Quo(l, g)
		}
		e.vals = []*big.Rat{new(big.Rat).SetInt(l)}
	case "expt":
		k := int(r(1).Num().Int64())
		v, good := refnum.Expt(r(0), k)
		if !good {
			e.cond = "division-by-zero"
			return
		}
		e.vals = []*big.Rat{v}
	case "isqrt":
		if r(0).Sign() < 0 {
			e.cond = "error"
			return
		}
		e.vals = []*big.Rat{new(big.Rat).SetInt(new(big.Int).Sqrt(r(0).Num()))}
	case "ash":
		k := int(r(1).Num().Int64())
		e.vals = []*big.Rat{new(big.Rat).SetInt(refnum.Ash(r(0).Num(), k))}
	case "logand", "logior", "logxor":
		acc := big.NewInt(0)
		if op == "logand" {
			acc.SetInt64(-1)
		}
		for _, n := range ns {
			switch op {
			case "logand":
				acc.And(acc, n.R.Num())
			case "logior":
				acc.Or(acc, n.R.Num())
			case "logxor":
				acc.Xor(acc, n.R.Num())
			}
		}
		e.vals = []*big.Rat{new(big.Rat).SetInt(acc)}
	case "lognot":
		e.vals = []*big.Rat{new(big.Rat).SetInt(new(big.Int).Not(r(0).Num()))}
	case "logeqv":
		// n-ary exclusive nor: the identity is -1, (logeqv a b) = (lognot (logxor a b)), associative
		acc := big.NewInt(-1)
		for _, n := range ns {
			acc.Not(acc.Xor(acc, n.R.Num()))
		}
		e.vals = []*big.Rat{new(big.Rat).SetInt(acc)}
	case "logandc1", "logandc2", "lognand", "lognor", "logorc1", "logorc2":
		a, b := r(0).Num(), r(1).Num()
		na, nb := new(big.Int).Not(a), new(big.Int).Not(b)
		v := new(big.Int)
		switch op {
		case "logandc1":
			v.And(na, b)
		case "logandc2":
			v.And(a, nb)
		case "lognand":
			v.Not(v.And(a, b))
		case "lognor":
			v.Not(v.Or(a, b))
		case "logorc1":
			v.Or(na, b)
		case "logorc2":
			v.Or(a, nb)
		}
		e.vals = []*big.Rat{new(big.Rat).SetInt(v)}
	case "boole-clr", "boole-set", "boole-1", "boole-2", "boole-c1", "boole-c2", "boole-and", "boole-ior", "boole-xor", "boole-eqv",
		"boole-nand", "boole-nor", "boole-andc1", "boole-andc2", "boole-orc1", "boole-orc2":
		// (boole op a b), the sixteen operations of two bits
		a, b := r(0).Num(), r(1).Num()
		na, nb := new(big.Int).Not(a), new(big.Int).Not(b)
		v := new(big.Int)
		switch op {
		case "boole-clr":
		case "boole-set":
			v.SetInt64(-1)
		case "boole-1":
			v.Set(a)
		case "boole-2":
			v.Set(b)
		case "boole-c1":
			v.Set(na)
		case "boole-c2":
			v.Set(nb)
		case "boole-and":
			v.And(a, b)
		case "boole-ior":
			v.Or(a, b)
		case "boole-xor":
			v.Xor(a, b)
		case "boole-eqv":
			v.Not(v.Xor(a, b))
		case "boole-nand":
			v.Not(v.And(a, b))
		case "boole-nor":
			v.Not(v.Or(a, b))
		case "boole-andc1":
			v.And(na, b)
		case "boole-andc2":
			v.And(a, nb)
		case "boole-orc1":
			v.Or(na, b)
		case "boole-orc2":
			v.Or(a, nb)
		}
		e.vals = []*big.Rat{new(big.Rat).SetInt(v)}
	case "logcount", "integer-length":
		// both are defined on the two's complement representation: for a negative integer they look at (lognot n)
		n := new(big.Int).Set(r(0).Num())
		if n.Sign() < 0 {
			n.Not(n)
		}
		if op == "integer-length" {
			e.vals = []*big.Rat{big.NewRat(int64(n.BitLen()), 1)}
		} else {
			cnt := 0
			for _, w := range n.Bits() {
				for ; w != 0; w &= w - 1 {
					cnt++
				}
			}
			e.vals = []*big.Rat{big.NewRat(int64(cnt), 1)}
		}
	case "logtest":
		// predicate, read as 1 / 0 through (if ... 1 0)
		if new(big.Int).And(r(0).Num(), r(1).Num()).Sign() != 0 {
			e.vals = []*big.Rat{big.NewRat(1, 1)}
		} else {
			e.vals = []*big.Rat{new(big.Rat)}
		}
	case "logbitp":
		// (logbitp index integer): bit index of the two's complement representation
		idx := int(r(0).Num().Int64())
		n := r(1).Num()
		bit := uint(0)
		if n.Sign() >= 0 {
			bit = n.Bit(idx)
		} else {
			bit = 1 - new(big.Int).Not(n).Bit(idx)
		}
		e.vals = []*big.Rat{big.NewRat(int64(bit), 1)}
	case "floor", "ceiling", "truncate", "round":
		kind := map[string]refnum.DivKind{"floor": refnum.Floor, "ceiling": refnum.Ceiling, "truncate": refnum.Truncate, "round": refnum.Round}[op]
		d := one
		if len(ns) > 1 {
			d = r(1)
		}
		if d.Sign() == 0 {
			e.cond = "division-by-zero"
			return
		}
		q, rem := refnum.Div(kind, r(0), d)
		e.vals = []*big.Rat{new(big.Rat).SetInt(q), rem}
	case "mod", "rem":
		if r(1).Sign() == 0 {
			e.cond = "division-by-zero"
			return
		}
		kind := refnum.Floor
		if op == "rem" {
			kind = refnum.Truncate
		}
		_, rem := refnum.Div(kind, r(0), r(1))
		e.vals = []*big.Rat{rem}
	default:
		ok = false
	}
	return
}

func bind(scope *slip.Scope, c Case) (objs []slip.Object, before []string, names []string) {
	for i, a := range c.A {
		o := refnum.Object(a)
		objs = append(objs, o)
		before = append(before, sx.Typed(o))
		name := "a" + strconv.Itoa(i)
		names = append(names, name)
		scope.Let(slip.Symbol(name), o)
	}
	return
}

func form(c Case, names []string) string {
	switch c.Op {
	case "incf", "decf":
		if len(names) == 1 {
			return fmt.Sprintf("(let ((v a0)) (list (%s v) v))", c.Op)
		}
		return fmt.Sprintf("(let ((v a0)) (list (%s v a1) v))", c.Op)
	}
	if strings.HasPrefix(c.Op, "boole-") {
		return "(boole " + c.Op + " " + strings.Join(names, " ") + ")"
	}
	if c.Op == "logtest" || c.Op == "logbitp" {
		return "(if (" + c.Op + " " + strings.Join(names, " ") + ") 1 0)"
	}
	return "(" + c.Op + " " + strings.Join(names, " ") + ")"
}

func flatten(o slip.Object) []slip.Object {
	switch t := o.(type) {
	case slip.Values:
		return []slip.Object(t)
	case slip.List:
		return []slip.Object(t)
	}
	return []slip.Object{o}
}

// classification used for non-triviality and exclusion tags.
type shape struct {
	allFix      bool // every operand a fixnum
	anyBigOrRat bool
	resultBig   bool // some result value outside int64
	resultRatio bool
	intermBig   bool
	hard        bool
}

func shapeOf(ns []refnum.Num, e expect) (s shape) {
	s.allFix = true
	for _, n := range ns {
		if !(n.Kind == "int" && n.R.Num().IsInt64()) {
			s.allFix = false
		}
		if n.Kind == "ratio" || (n.Kind == "int" && !n.R.Num().IsInt64()) {
			s.anyBigOrRat = true
		}
	}
	for _, v := range e.vals {
		if !v.IsInt() {
			s.resultRatio = true
		} else if !v.Num().IsInt64() {
			s.resultBig = true
		}
	}
	for _, v := range e.interm {
		if v.IsInt() && !v.Num().IsInt64() {
			s.intermBig = true
		}
	}
	s.hard = s.anyBigOrRat || s.resultBig || s.resultRatio || s.intermBig
	return
}

// exclusion tags of open findings (known_findings.json); each names a class of cases by construction.
func arithExcluded(c Case, ns []refnum.Num, e expect, s shape) string {
	isMin := func(n refnum.Num) bool { return n.Kind == "int" && n.R.Num().Cmp(minI64) == 0 }
	big62 := func(n refnum.Num) bool { return n.Kind == "int" && new(big.Int).Abs(n.R.Num()).BitLen() > 62 }
	anyRatio, anyBigInt := false, false
	for _, n := range ns {
		if n.Kind == "ratio" {
			anyRatio = true
		} else if !n.R.Num().IsInt64() {
			anyBigInt = true
		}
	}
	if c.Op == "decf" && len(ns) == 2 && isMin(ns[1]) {
		anyBigInt = true // decf negates its delta first
	}
	for _, v := range e.interm {
		if !v.IsInt() {
			anyRatio = true
		} else if !v.Num().IsInt64() {
			anyBigInt = true
		}
	}
	switch {
	case (c.Op == "logeqv" || c.Op == "boole-eqv") && anyBigInt && h.ExclOn("logeqv-bignum"):
		// finding C05-F17: logeqv combines the magnitudes of bignums (pinned by TestLogeqvBignum)
		return "logeqv-bignum"
	case anyRatio && anyBigInt && in(c.Op, "+", "-", "*", "/", "floor", "ceiling", "truncate", "round", "mod", "rem", "incf", "decf") && h.ExclOn("ratio-bignum-longfloat"):
		// NormalizeNumber turns (ratio, bignum) into long-floats (mod and rem: these were covered by
		// mod-rem-ratio-float while C05-F8 was open)
		return "ratio-bignum-longfloat"
	case c.Op == "floor" && s.allFix && len(ns) == 2 && ns[1].R.Sign() < 0 && h.ExclOn("floor-neg-divisor"):
		return "floor-neg-divisor"
	case in(c.Op, "floor", "ceiling", "truncate", "round", "mod", "rem") && s.allFix && len(ns) == 2 && h.ExclOn("div-fixnum-extreme") &&
		(isMin(ns[0]) || isMin(ns[1]) || (c.Op == "round" && (big62(ns[0]) || big62(ns[1])))):
		return "div-fixnum-extreme"
	case in(c.Op, "gcd", "lcm") && h.ExclOn("gcd-lcm-fixnum-only"):
		for _, n := range ns {
			if !n.R.Num().IsInt64() || isMin(n) {
				return "gcd-lcm-fixnum-only"
			}
			// lcm multiplies in int64 before dividing
		}
		if c.Op == "lcm" { // lcm multiplies in int64 before dividing
			prod := big.NewInt(1)
			for _, n := range ns {
				prod.Mul(prod, new(big.Int).Abs(n.R.Num()))
			}
			if prod.BitLen() > 62 {
				return "gcd-lcm-fixnum-only"
			}
		}
	case c.Op == "expt" && h.ExclOn("expt-float"):
		// expt is math.Pow: exact only for a fixnum base, a non-negative exponent and 1 <= |result| < 2^53
		exact := s.allFix && ns[1].R.Sign() >= 0 && len(e.vals) == 1 && e.vals[0].IsInt() &&
			e.vals[0].Sign() != 0 && new(big.Int).Abs(e.vals[0].Num()).BitLen() <= 53
		if !exact {
			return "expt-float"
		}
	case c.Op == "expt" && ns[0].Kind == "int" && ns[1].R.Sign() < 0 && h.ExclOn("expt-neg-int-float"):
		// what is left of C05-F7 (C05-F9): an integer base with a negative exponent gives a double-float,
		// pinned by TestExptFixnum (expt 8 -1) => 0.125
		return "expt-neg-int-float"
	case in(c.Op, "mod", "rem") && !ints(ns) && h.ExclOn("mod-rem-ratio-float"):
		return "mod-rem-ratio-float"
	}
	return ""
}

func absInt(r *big.Rat) int64 {
	v := r.Num().Int64()
	if v < 0 {
		return -v
	}
	return v
}

func in(s string, set ...string) bool {
	for _, x := range set {
		if s == x {
			return true
		}
	}
	return false
}

func runArith(c Case) *h.Result {
	ns := make([]refnum.Num, len(c.A))
	for i, a := range c.A {
		ns[i] = refnum.Parse(a)
	}
	e, ok := model(c.Op, ns)
	if !ok {
		return h.Fail("operator %s not modelled", c.Op)
	}
	s := shapeOf(ns, e)
	res := &h.Result{NonTrivial: s.hard, Classes: []string{"op:" + c.Op}}
	if tag := arithExcluded(c, ns, e, s); tag != "" {
		res.Skip = tag
		return res
	}
	scope := slip.NewScope()
	objs, before, names := bind(scope, c)
	src := form(c, names)
	out := ev.Eval(scope, src)
	// operands must be unaltered whatever happened
	for i, o := range objs {
		if now := sx.Typed(o); now != before[i] {
			res.Err = fmt.Sprintf("%s: operand %d altered: %s -> %s", c, i, before[i], now)
			return res
		}
		if v, _ := scope.LocalGet(slip.Symbol(names[i])); v != nil && sx.Typed(v) != before[i] {
			res.Err = fmt.Sprintf("%s: variable %s altered: %s -> %s", c, names[i], before[i], sx.Typed(v))
			return res
		}
	}
	if e.cond != "" {
		switch {
		case out.Kind == ev.Fault:
			res.Err = fmt.Sprintf("%s: expected condition %s, got %s", c, e.cond, out)
		case out.Kind != ev.Condition:
			res.Err = fmt.Sprintf("%s: expected condition %s, got %s", c, e.cond, out)
		}
		// which error class a zero divisor gives is not part of the statement (slip uses
		// division-by-zero, arithmetic-error or error depending on the operator)
		return res
	}
	if out.Kind != ev.Value {
		res.Err = fmt.Sprintf("%s: expected %s, got %s", c, want(e), out)
		return res
	}
	got := flatten(out.Val)
	if len(got) != len(e.vals) {
		res.Err = fmt.Sprintf("%s: expected %s, got %s", c, want(e), sx.Typed(out.Val))
		return res
	}
	loose := h.ExclOn("result-not-canonical")
	// what is left of C05-F1 (C05-F10): the bignum step of a binary - keeps a bignum that fits a fixnum
	// (pinned by TestRandomBignum); only the type of the result of such a call is relaxed
	looseSub := false
	if c.Op == "-" && len(ns) >= 2 && h.ExclOn("sub-bignum-not-canonical") {
		// by construction: some operand or intermediate difference is an integer outside int64
		for _, n := range ns {
			looseSub = looseSub || (n.Kind == "int" && !n.R.Num().IsInt64())
		}
		looseSub = looseSub || s.intermBig
	}
	for i, v := range e.vals {
		w, g := refnum.Canon(v), sx.Typed(got[i])
		if w == g {
			continue
		}
		if looseSub && strings.HasPrefix(w, "fix:") && strings.HasPrefix(g, "big:") && refnum.Loose(w) == refnum.Loose(g) {
			h.Excluded("sub-bignum-not-canonical")
			continue
		}
		if loose && strings.HasPrefix(w, "fix:") && strings.HasPrefix(g, "big:") && refnum.Loose(w) == refnum.Loose(g) {
			h.Excluded("result-not-canonical")
			continue
		}
		if loose && !strings.HasPrefix(w, "rat:") && g == "rat:"+w[4:]+"/1" {
			h.Excluded("result-not-canonical")
			continue
		}
		res.Err = fmt.Sprintf("%s: value %d expected %s, got %s", c, i, w, g)
		return res
	}
	return res
}

func want(e expect) string {
	var parts []string
	for _, v := range e.vals {
		parts = append(parts, refnum.Canon(v))
	}
	return strings.Join(parts, ", ")
}

// ---------------------------------------------------------------- comparisons

func cmpChain(op string, ns []refnum.Num) bool {
	switch op {
	case "/=":
		for i := range ns {
			for j := i + 1; j < len(ns); j++ {
				if ns[i].R.Cmp(ns[j].R) == 0 {
					return false
				}
			}
		}
		return true
	}
	for i := 0; i+1 < len(ns); i++ {
		c := ns[i].R.Cmp(ns[i+1].R)
		var good bool
		switch op {
		case "=":
			good = c == 0
		case "<":
			good = c < 0
		case "<=":
			good = c <= 0
		case ">":
			good = c > 0
		case ">=":
			good = c >= 0
		}
		if !good {
			return false
		}
	}
	return true
}

// throughFloat models how slip compares a rational with a float: the rational is rounded to the
// float's format first. It returns the sign of the comparison done that way.
func roundTo(kind string, r *big.Rat) *big.Rat {
	switch kind {
	case "double":
		f, _ := r.Float64()
		if math.IsInf(f, 0) {
			return nil
		}
		return new(big.Rat).SetFloat64(f)
	case "single":
		f, _ := r.Float64()
		f = float64(float32(f))
		if math.IsInf(f, 0) {
			return nil
		}
		return new(big.Rat).SetFloat64(f)
	}
	return r
}

// roundToLong models NormalizeNumber for a long-float partner: a fixnum or ratio is converted through a
// float64, a bignum exactly.
func roundToLong(x refnum.Num) *big.Rat {
	if x.Kind == "int" && !x.R.Num().IsInt64() {
		return x.R
	}
	if x.Kind == "single" || x.Kind == "double" {
		return x.R
	}
	f, _ := x.R.Float64()
	if math.IsInf(f, 0) {
		return nil
	}
	return new(big.Rat).SetFloat64(f)
}

func isFloat(n refnum.Num) bool { return in(n.Kind, "single", "double", "long") }

// lossyPair: a rational and a float whose comparison changes when the rational is first rounded
// to the float's format (finding C05-F6: comparisons go through floats).
func lossyPair(a, b refnum.Num) bool {
	if isFloat(a) == isFloat(b) {
		return false
	}
	f, x := a, b
	if isFloat(b) {
		f, x = b, a
	}
	if f.Kind == "long" {
		rx := roundToLong(x)
		if rx == nil {
			return x.R.Sign() != x.R.Cmp(f.R)
		}
		return rx.Cmp(f.R) != x.R.Cmp(f.R)
	}
	rx := roundTo(f.Kind, x.R)
	if rx == nil { // rounds to an infinity: compares like its sign against any finite float
		return x.R.Sign() != x.R.Cmp(f.R)
	}
	if rx.Cmp(f.R) != x.R.Cmp(f.R) {
		return true
	}
	if f.Kind == "single" { // direct rounding to single (fixnum operands) as well as via double (bignum, ratio)
		f32, _ := x.R.Float32()
		if !math.IsInf(float64(f32), 0) && new(big.Rat).SetFloat64(float64(f32)).Cmp(f.R) != x.R.Cmp(f.R) {
			return true
		}
	}
	return false
}

func closeMixed(ns []refnum.Num) bool {
	for i := range ns {
		for j := i + 1; j < len(ns); j++ {
			if lossyPair(ns[i], ns[j]) {
				return true
			}
		}
	}
	return false
}

// ratioBig: a ratio and an integer outside int64 among the operands (finding C05-F5: such a pair is
// normalised to long-floats, also for comparisons).
func ratioBig(ns []refnum.Num) bool {
	r, b := false, false
	for _, n := range ns {
		if n.Kind == "ratio" {
			r = true
		}
		if n.Kind == "int" && !n.R.Num().IsInt64() {
			b = true
		}
	}
	return r && b
}

func hasFloat(ns []refnum.Num) bool {
	for _, n := range ns {
		if in(n.Kind, "single", "double", "long") {
			return true
		}
	}
	return false
}

func mixedFloatExact(ns []refnum.Num) bool {
	f, x := false, false
	for _, n := range ns {
		if in(n.Kind, "single", "double", "long") {
			f = true
		} else {
			x = true
		}
	}
	// also single vs double vs long count as mixed representations
	kinds := map[string]bool{}
	for _, n := range ns {
		kinds[n.Kind] = true
	}
	return (f && x) || (f && len(kinds) > 1)
}

func runCmp(c Case) *h.Result {
	ns := make([]refnum.Num, len(c.A))
	for i, a := range c.A {
		ns[i] = refnum.Parse(a)
	}
	nt := false
	for _, n := range ns {
		if n.Kind != "int" || !n.R.Num().IsInt64() {
			nt = true
		}
	}
	res := &h.Result{NonTrivial: nt && (len(ns) > 1 || in(c.Op, "zerop", "plusp", "minusp")), Classes: []string{"op:" + c.Op}}
	if closeMixed(ns) {
		res.Classes = append(res.Classes, "cmp:rational-vs-float-lossy")
	}
	if closeMixed(ns) && h.ExclOn("cmp-through-float") {
		res.Skip = "cmp-through-float"
		return res
	}
	// C05-F5 reaches the comparisons only while they go through NormalizeNumber (C05-F6 open)
	if ratioBig(ns) && h.ExclOn("ratio-bignum-longfloat") && h.ExclOn("cmp-through-float") {
		res.Skip = "ratio-bignum-longfloat"
		return res
	}
	scope := slip.NewScope()
	objs, before, names := bind(scope, c)
	out := ev.Eval(scope, form(c, names))
	for i, o := range objs {
		if now := sx.Typed(o); now != before[i] {
			res.Err = fmt.Sprintf("%s: operand %d altered: %s -> %s", c, i, before[i], now)
			return res
		}
	}
	if out.Kind != ev.Value {
		res.Err = fmt.Sprintf("%s: got %s", c, out)
		return res
	}
	truth := func(b bool) string {
		if b {
			return "t"
		}
		return "nil"
	}
	switch c.Op {
	case "=", "/=", "<", "<=", ">", ">=":
		if w, g := truth(cmpChain(c.Op, ns)), sx.Text(out.Val); w != g {
			res.Err = fmt.Sprintf("%s: expected %s, got %s", c, w, g)
		}
	case "zerop", "plusp", "minusp":
		sg := ns[0].R.Sign()
		w := truth(map[string]bool{"zerop": sg == 0, "plusp": sg > 0, "minusp": sg < 0}[c.Op])
		if g := sx.Text(out.Val); w != g {
			res.Err = fmt.Sprintf("%s: expected %s, got %s", c, w, g)
		}
	case "min", "max":
		ext := ns[0].R
		for _, n := range ns[1:] {
			cmp := n.R.Cmp(ext)
			if (c.Op == "min" && cmp < 0) || (c.Op == "max" && cmp > 0) {
				ext = n.R
			}
		}
		g, ok := refnum.Exact(out.Val)
		if !ok {
			res.Err = fmt.Sprintf("%s: result %s is not a real", c, sx.Typed(out.Val))
			break
		}
		if g.Cmp(ext) != 0 {
			// the representation is not judged (contagion), but a float result must be the conversion of the exact extremum
			if f, isf := out.Val.(slip.DoubleFloat); isf {
				if ef, _ := ext.Float64(); ef == float64(f) {
					break
				}
			}
			if f, isf := out.Val.(slip.SingleFloat); isf {
				if ef, _ := ext.Float32(); ef == float32(f) {
					break
				}
			}
			res.Err = fmt.Sprintf("%s: expected an argument of value %s, got %s", c, ext.RatString(), sx.Typed(out.Val))
			break
		}
		// among integers and ratios there is no contagion: the result is one of the arguments, in canonical form
		// (an integer is not a ratio with denominator 1, a small integer not a bignum)
		allRational := true
		for _, n := range ns {
			allRational = allRational && (n.Kind == "int" || n.Kind == "ratio")
		}
		if allRational {
			if w, g := refnum.Canon(ext), sx.Typed(out.Val); w != g {
				res.Err = fmt.Sprintf("%s: expected %s, got %s (not in canonical form)", c, w, g)
			}
		}
	default:
		res.Err = "unknown op " + c.Op
	}
	return res
}

// trichotomy: for a pair exactly one of < = > holds, and it is the right one.
func runTri(c Case) *h.Result {
	ns := []refnum.Num{refnum.Parse(c.A[0]), refnum.Parse(c.A[1])}
	res := &h.Result{NonTrivial: ns[0].Kind != ns[1].Kind || !ns[0].R.Num().IsInt64() || !ns[1].R.Num().IsInt64(), Classes: []string{"tri"}}
	if closeMixed(ns) && h.ExclOn("cmp-through-float") {
		res.Skip = "cmp-through-float"
		return res
	}
	// C05-F5 reaches the comparisons only while they go through NormalizeNumber (C05-F6 open)
	if ratioBig(ns) && h.ExclOn("ratio-bignum-longfloat") && h.ExclOn("cmp-through-float") {
		res.Skip = "ratio-bignum-longfloat"
		return res
	}
	scope := slip.NewScope()
	_, _, _ = bind(scope, c)
	out := ev.Eval(scope, "(list (< a0 a1) (= a0 a1) (> a0 a1))")
	if out.Kind != ev.Value {
		res.Err = fmt.Sprintf("%s: got %s", c, out)
		return res
	}
	cmp := ns[0].R.Cmp(ns[1].R)
	w := map[int]string{-1: "(t nil nil)", 0: "(nil t nil)", 1: "(nil nil t)"}[cmp]
	if g := sx.Text(out.Val); g != w {
		res.Err = fmt.Sprintf("(< = >) on %s %s: expected %s, got %s", c.A[0], c.A[1], w, g)
	}
	return res
}

// ---------------------------------------------------------------- generators

func genInt(rt *rapid.T, label string) *big.Int {
	if rapid.IntRange(0, 2).Draw(rt, label+"-kind") == 0 {
		b := refnum.Boundary()
		v := new(big.Int).Set(b[rapid.IntRange(0, len(b)-1).Draw(rt, label+"-b")])
		v.Add(v, big.NewInt(int64(rapid.IntRange(-2, 2).Draw(rt, label+"-off"))))
		return v
	}
	bits := rapid.IntRange(0, 200).Draw(rt, label+"-bits")
	v := new(big.Int)
	for i := 0; i < (bits+31)/32; i++ {
		v.Lsh(v, 32)
		v.Or(v, big.NewInt(int64(rapid.Uint32().Draw(rt, label+"-w"))))
	}
	if bits > 0 {
		v.Rsh(v, uint((32-bits%32)%32))
		v.SetBit(v, bits-1, 1)
	}
	if rapid.Bool().Draw(rt, label+"-neg") {
		v.Neg(v)
	}
	return v
}

func genRational(rt *rapid.T, label string, ratioOdds int) string {
	n := genInt(rt, label+"n")
	if rapid.IntRange(0, 9).Draw(rt, label+"-isratio") < ratioOdds {
		d := genInt(rt, label+"d")
		if d.Sign() != 0 {
			return new(big.Rat).SetFrac(n, d).RatString()
		}
	}
	return n.String()
}

func genReal(rt *rapid.T, label string) string {
	k := rapid.IntRange(0, 9).Draw(rt, label+"-real")
	if k < 5 {
		return genRational(rt, label, 3)
	}
	// a float at or next to an exact value
	base := genRational(rt, label+"f", 3)
	r, _ := new(big.Rat).SetString(base)
	fs := refnum.FloatsNear(r)
	if r.IsInt() {
		// long floats with integer values at and beside r (exactly representable with 256 bits of precision)
		for _, d := range []int64{-1, 0, 1} {
			fs = append(fs, "l:"+new(big.Int).Add(r.Num(), big.NewInt(d)).String())
		}
	}
	if len(fs) == 0 {
		return base
	}
	return fs[rapid.IntRange(0, len(fs)-1).Draw(rt, label+"-near")]
}

var booleOps = []string{"boole-clr", "boole-set", "boole-1", "boole-2", "boole-c1", "boole-c2", "boole-and", "boole-ior", "boole-xor", "boole-eqv",
	"boole-nand", "boole-nor", "boole-andc1", "boole-andc2", "boole-orc1", "boole-orc2"}

var (
	naryRat  = []string{"+", "-", "*", "/"}
	unaryRat = []string{"1+", "1-", "abs"}
	divs     = []string{"floor", "ceiling", "truncate", "round"}
	naryInt  = []string{"gcd", "lcm", "logand", "logior", "logxor"}
	cmpOps   = []string{"=", "/=", "<", "<=", ">", ">="}
)

func genArith(rt *rapid.T) Case {
	group := rapid.IntRange(0, 9).Draw(rt, "group")
	switch group {
	case 0, 1, 2:
		op := rapid.SampledFrom(naryRat).Draw(rt, "op")
		n := rapid.IntRange(1, 4).Draw(rt, "n")
		c := Case{Op: op}
		for i := 0; i < n; i++ {
			c.A = append(c.A, genRational(rt, "a", 4))
		}
		return c
	case 3:
		op := rapid.SampledFrom(append(append([]string{}, unaryRat...), "incf", "decf")).Draw(rt, "op")
		c := Case{Op: op, A: []string{genRational(rt, "a", 3)}}
		if (op == "incf" || op == "decf") && rapid.Bool().Draw(rt, "delta") {
			c.A = append(c.A, genRational(rt, "d", 3))
		}
		return c
	case 4, 5:
		op := rapid.SampledFrom(append(append([]string{}, divs...), "mod", "rem")).Draw(rt, "op")
		c := Case{Op: op, A: []string{genRational(rt, "a", 4)}}
		if op == "mod" || op == "rem" || rapid.IntRange(0, 3).Draw(rt, "two") > 0 {
			c.A = append(c.A, genRational(rt, "d", 4))
		}
		return c
	case 6:
		op := rapid.SampledFrom(naryInt).Draw(rt, "op")
		n := rapid.IntRange(0, 3).Draw(rt, "n")
		c := Case{Op: op}
		for i := 0; i < n; i++ {
			c.A = append(c.A, genInt(rt, "a").String())
		}
		return c
	case 7:
		return Case{Op: "expt", A: []string{genRational(rt, "a", 3), strconv.Itoa(rapid.IntRange(-8, 80).Draw(rt, "e"))}}
	case 8:
		switch rapid.IntRange(0, 5).Draw(rt, "bitop") {
		case 0:
			op := rapid.SampledFrom([]string{"logandc1", "logandc2", "lognand", "lognor", "logorc1", "logorc2", "logtest"}).Draw(rt, "op2")
			return Case{Op: op, A: []string{genInt(rt, "a").String(), genInt(rt, "b").String()}}
		case 1:
			return Case{Op: rapid.SampledFrom([]string{"logcount", "integer-length"}).Draw(rt, "op1"), A: []string{genInt(rt, "a").String()}}
		case 2:
			return Case{Op: "logbitp", A: []string{strconv.Itoa(rapid.SampledFrom([]int{0, 1, 2, 31, 32, 62, 63, 64, 65, 127, 128, 200}).Draw(rt, "bit")), genInt(rt, "a").String()}}
		case 4:
			return Case{Op: rapid.SampledFrom(booleOps).Draw(rt, "boole"), A: []string{genInt(rt, "a").String(), genInt(rt, "b").String()}}
		case 3:
			c := Case{Op: "logeqv"}
			for i, n := 0, rapid.IntRange(0, 3).Draw(rt, "n"); i < n; i++ {
				c.A = append(c.A, genInt(rt, "a").String())
			}
			return c
		}
		if rapid.Bool().Draw(rt, "isqrt") {
			return Case{Op: "isqrt", A: []string{new(big.Int).Abs(genInt(rt, "a")).String()}}
		}
		return Case{Op: "lognot", A: []string{genInt(rt, "a").String()}}
	}
	return Case{Op: "ash", A: []string{genInt(rt, "a").String(), strconv.Itoa(rapid.IntRange(-130, 130).Draw(rt, "k"))}}
}

func genCmp(rt *rapid.T) Case {
	group := rapid.IntRange(0, 9).Draw(rt, "group")
	switch {
	case group < 6:
		op := rapid.SampledFrom(cmpOps).Draw(rt, "op")
		n := rapid.IntRange(1, 3).Draw(rt, "n")
		c := Case{Op: op}
		first := genReal(rt, "a")
		c.A = append(c.A, first)
		for i := 1; i < n; i++ {
			// often compare with a neighbour of the first operand
			if rapid.Bool().Draw(rt, "near") {
				r := refnum.Parse(first).R
				near := append(refnum.FloatsNear(r), r.RatString())
				c.A = append(c.A, near[rapid.IntRange(0, len(near)-1).Draw(rt, "nearsel")])
			} else {
				c.A = append(c.A, genReal(rt, "b"))
			}
		}
		return c
	case group < 8:
		return Case{Op: rapid.SampledFrom([]string{"zerop", "plusp", "minusp"}).Draw(rt, "op"), A: []string{genReal(rt, "a")}}
	}
	c := Case{Op: rapid.SampledFrom([]string{"min", "max"}).Draw(rt, "op")}
	n := rapid.IntRange(1, 4).Draw(rt, "n")
	for i := 0; i < n; i++ {
		c.A = append(c.A, genReal(rt, "a"))
	}
	return c
}

func genTri(rt *rapid.T) Case {
	a := genReal(rt, "a")
	var b string
	if rapid.Bool().Draw(rt, "near") {
		r := refnum.Parse(a).R
		near := append(refnum.FloatsNear(r), r.RatString())
		b = near[rapid.IntRange(0, len(near)-1).Draw(rt, "nearsel")]
	} else {
		b = genReal(rt, "b")
	}
	return Case{Op: "tri", A: []string{a, b}}
}

var (
	arith = h.Prop[Case]{Name: "arith", Gen: genArith, Run: runArith}
	cmp   = h.Prop[Case]{Name: "cmp", Gen: genCmp, Run: runCmp}
	tri   = h.Prop[Case]{Name: "trichotomy", Gen: genTri, Run: runTri}
	// the grids are separate sub-properties so that their exhaustiveness is reported on its own
	arithGrid = h.Prop[Case]{Name: "arith-grid", Run: runArith}
	cmpGrid   = h.Prop[Case]{Name: "cmp-grid", Run: runCmp}
	triGrid   = h.Prop[Case]{Name: "trichotomy-grid", Run: runTri}
)

func TestC05(t *testing.T) {
	h.Rule("operator x operand tuple; operands are built by the harness (boundary grid +-{0,1,2,3,2^31,2^32,2^62,2^63-1,2^63,2^64,2^64+-1} in all pairs for every binary operator, " +
		"random integers up to 200 bits, ratios of those, single/double floats at and one ulp beside exact values); oracle = math/big model, canonical typed text, operands re-read after the call. " +
		"Non-trivial: some operand or exact result or intermediate is outside int64 or a non-integer ratio, or (comparisons) operands of different representation. Distinct by (operator, operands).")
	h.Assume("math/big is correct")
	h.Assume("operands are constructed through slip's exported Go types (Fixnum, *Bignum, *Ratio, SingleFloat, DoubleFloat), bound with Scope.Let, and the call is read and evaluated as Lisp text")

	h.RunProp(t, arithGrid, 0)
	h.RunProp(t, arith, h.N(40000, 1500000))
	h.RunProp(t, cmpGrid, 0)
	h.RunProp(t, cmp, h.N(20000, 800000))
	h.RunProp(t, triGrid, 0)
	h.RunProp(t, tri, h.N(10000, 500000))

	if h.C.Shard != 0 {
		return // the grids are enumerated by shard 0 only
	}
	grid := refnum.Boundary()
	gs := make([]string, len(grid))
	for i, g := range grid {
		gs[i] = g.String()
	}
	h.Enumerate(t, arithGrid, func(yield func(Case) bool) {
		for _, op := range []string{"+", "-", "*", "/", "floor", "ceiling", "truncate", "round", "mod", "rem", "gcd", "lcm", "logand", "logior", "logxor", "incf", "decf", "logandc1", "logandc2", "lognand", "lognor", "logorc1", "logorc2", "logeqv", "logtest",
			"boole-clr", "boole-set", "boole-1", "boole-2", "boole-c1", "boole-c2", "boole-and", "boole-ior", "boole-xor", "boole-eqv",
			"boole-nand", "boole-nor", "boole-andc1", "boole-andc2", "boole-orc1", "boole-orc2"} {
			for _, a := range gs {
				for _, b := range gs {
					if !yield(Case{Op: op, A: []string{a, b}}) {
						return
					}
				}
			}
		}
		for _, op := range []string{"+", "-", "*", "/", "1+", "1-", "abs", "floor", "ceiling", "truncate", "round", "lognot", "isqrt", "incf", "decf", "gcd", "lcm", "logcount", "integer-length", "logeqv"} {
			for _, a := range gs {
				if op == "isqrt" && strings.HasPrefix(a, "-") {
					continue
				}
				if !yield(Case{Op: op, A: []string{a}}) {
					return
				}
			}
		}
		for _, a := range gs {
			for _, k := range []int{-130, -65, -64, -63, -62, -33, -32, -31, -2, -1, 0, 1, 2, 31, 32, 33, 62, 63, 64, 65, 130} {
				if !yield(Case{Op: "ash", A: []string{a, strconv.Itoa(k)}}) {
					return
				}
			}
			for _, k := range []int{-8, -3, -2, -1, 0, 1, 2, 3, 31, 32, 62, 63, 64, 65, 80} {
				if !yield(Case{Op: "expt", A: []string{a, strconv.Itoa(k)}}) {
					return
				}
			}
			for _, k := range []int{0, 1, 2, 30, 31, 32, 33, 61, 62, 63, 64, 65, 66, 127, 128, 200} {
				if !yield(Case{Op: "logbitp", A: []string{strconv.Itoa(k), a}}) {
					return
				}
			}
		}
		// ratios of grid values
		for _, op := range []string{"+", "-", "*", "/", "floor", "round"} {
			for i, a := range grid {
				for j, b := range grid {
					if b.Sign() == 0 || i == j {
						continue
					}
					r := new(big.Rat).SetFrac(a, b).RatString()
					for _, c := range []string{"1", "-2", "1/2", gs[(i+j)%len(gs)]} {
						if !yield(Case{Op: op, A: []string{r, c}}) {
							return
						}
					}
				}
			}
		}
	})
	// reals for the comparison grids: every grid integer, floats at/next to it, and 1/3, 1/10 with neighbours
	var reals []string
	seen := map[string]bool{}
	addReal := func(s string) {
		if !seen[s] {
			seen[s] = true
			reals = append(reals, s)
		}
	}
	for _, g := range grid {
		addReal(g.String())
		for _, f := range refnum.FloatsNear(new(big.Rat).SetInt(g)) {
			addReal(f)
		}
		addReal("l:" + g.String())
	}
	for _, r := range []*big.Rat{big.NewRat(1, 3), big.NewRat(1, 10), big.NewRat(-1, 3)} {
		addReal(r.RatString())
		for _, f := range refnum.FloatsNear(r) {
			addReal(f)
		}
	}
	h.Note("comparison grid has %d reals (%d pairs)", len(reals), len(reals)*len(reals))
	h.Enumerate(t, triGrid, func(yield func(Case) bool) {
		for _, a := range reals {
			for _, b := range reals {
				if !yield(Case{Op: "tri", A: []string{a, b}}) {
					return
				}
			}
		}
	})
	h.Enumerate(t, cmpGrid, func(yield func(Case) bool) {
		for _, op := range append(append([]string{}, cmpOps...), "min", "max") {
			for _, a := range reals {
				for _, b := range reals {
					if !yield(Case{Op: op, A: []string{a, b}}) {
						return
					}
				}
			}
		}
		for _, op := range []string{"zerop", "plusp", "minusp"} {
			for _, a := range reals {
				if !yield(Case{Op: op, A: []string{a}}) {
					return
				}
			}
		}
	})
}
