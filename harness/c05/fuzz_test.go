package c05

import (
	"testing"

	"verif/harness/internal/h"
)

// Native fuzz targets over the generators of arith and cmp (h.FuzzRapid): the fuzzer's bytes are rapid's bit stream.

func warmAll() {
	for _, p := range []h.Prop[Case]{arith, cmp, tri, arithGrid, cmpGrid, triGrid} {
		h.Warm(p)
	}
}

func FuzzArith(f *testing.F) { h.FuzzRapid(f, "c05", arith, warmAll) }

func FuzzCmp(f *testing.F) { h.FuzzRapid(f, "c05", cmp, warmAll) }
