package c02

import (
	"regexp"
	"testing"

	"pgregory.net/rapid"

	"verif/harness/internal/h"
)

// Native fuzz target for delivery invariance over arbitrary texts (not only texts of the grammar).
// bytes: [base index] [float format index] [number of cuts] [cut positions...] text

const fuzzMaxText = 96

var slowFloat = regexp.MustCompile(`[0-9.][a-zA-Z][+-]?[0-9]{6,}`)

func decodeDelivery(b []byte) (c Case, ok bool) {
	if len(b) < 4 {
		return c, false
	}
	c.Base = bases[int(b[0])%len(bases)]
	c.Float = floats[int(b[1])%len(floats)]
	k := int(b[2]) % 6
	b = b[3:]
	if len(b) < k+1 {
		return c, false
	}
	cuts := b[:k]
	text := b[k:]
	if len(text) > fuzzMaxText {
		text = text[:fuzzMaxText]
	}
	if slowFloat.Match(text) {
		// a float with an exponent of six and more digits (a long float, or any float while the default format is
		// long-float): comparing and showing the objects needs math/big to produce millions of digits - minutes,
		// bounded, not what the property is about (see the correction about slow long floats in DESIGN.md)
		return c, false
	}
	c.Text = string(text)
	seen := map[int]bool{}
	if len(text) > 1 {
		for _, x := range cuts {
			p := 1 + int(x)%(len(text)-1)
			if !seen[p] {
				seen[p] = true
				c.Cuts = append(c.Cuts, p)
			}
		}
	}
	return c, true
}

func encodeDelivery(c Case) []byte {
	bi, fi := 0, 0
	for i, x := range bases {
		if x == c.Base {
			bi = i
			break
		}
	}
	for i, x := range floats {
		if x == c.Float {
			fi = i
		}
	}
	cuts := c.Cuts
	if len(cuts) > 5 {
		cuts = cuts[:5]
	}
	out := []byte{byte(bi), byte(fi), byte(len(cuts))}
	for _, p := range cuts {
		out = append(out, byte(p-1))
	}
	return append(out, c.Text...)
}

var deliveryFuzz = h.Prop[Case]{Name: "delivery-fuzz", Run: func(c Case) *h.Result { return runDeliveryMode(c, false) }}

func FuzzDelivery(f *testing.F) {
	var seeds [][]byte
	g := rapid.Custom(genCase)
	for i := 1; i <= 40; i++ {
		c := g.Example(i)
		if len(c.Text) <= fuzzMaxText && len(c.Text) > 0 {
			seeds = append(seeds, encodeDelivery(c))
		}
	}
	for _, s := range []string{"(a . b)", "#2A((1 2)(3 4))", "\"a\\\"b\" |x y| #\\space", "#x-1F/a `(a ,b ,@c) ; c\n#| b |# 'q", "#*101 #(1 #(2)) 1.5d0 -1/2 @2020-01-01T00:00:00Z"} {
		seeds = append(seeds, append([]byte{0, 0, 0}, s...))
	}
	h.FuzzProp(f, "c02", deliveryFuzz, decodeDelivery, seeds)
}
