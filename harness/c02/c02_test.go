package c02

import (
	"bytes"
	"fmt"
	"io"
	"strings"
	"testing"

	"github.com/ohler55/slip"
	"pgregory.net/rapid"

	"verif/harness/internal/ev"
	"verif/harness/internal/h"
	"verif/harness/internal/sx"
)

func TestMain(m *testing.M) { h.Main(m, "C02") }

// result of one delivery: outcome class plus the objects.
type result struct {
	kind string // objects | incomplete | error | fault
	objs []slip.Object
	text string // canonical text of the objects (typed)
	msg  string
}

func render(objs []slip.Object) string {
	var sb strings.Builder
	for i, o := range objs {
		if i > 0 {
			sb.WriteString(" ;; ")
		}
		sb.WriteString(sx.Typed(expand(o)))
		if o != nil {
			sb.WriteString(" :" + string(o.Hierarchy()[0]))
		}
	}
	return sb.String()
}

// expand replaces the objects the reader makes for ' ` , ,@ and #' (function call objects whose printed form is the
// prefix syntax again, so that `(comma @b)` and `(comma-at b)` both print as ,@b) by lists of the function name and the
// arguments, all the way down: two deliveries agree only if they built the same calls.
func expand(o slip.Object) slip.Object {
	switch to := o.(type) {
	case slip.List:
		out := make(slip.List, len(to))
		for i, e := range to {
			out[i] = expand(e)
		}
		return out
	case slip.Tail:
		return slip.Tail{Value: expand(to.Value)}
	case *slip.Vector:
		l := to.AsList()
		out := make(slip.List, 0, len(l)+1)
		out = append(out, slip.Symbol("#vector"))
		for _, e := range l {
			out = append(out, expand(e))
		}
		return out
	case slip.Funky:
		args := to.GetArgs()
		out := make(slip.List, 0, len(args)+1)
		out = append(out, slip.Symbol("#call:"+strings.ToLower(to.GetName())))
		for _, e := range args {
			out = append(out, expand(e))
		}
		return out
	}
	return o
}

func classify(fn func() []slip.Object) (r result) {
	var objs []slip.Object
	out := ev.Try(func() slip.Object {
		objs = fn()
		return nil
	})
	switch out.Kind {
	case ev.Value:
		r.kind = "objects"
		r.objs = objs
		r.text = render(objs)
	case ev.Partial:
		r.kind = "incomplete"
		r.msg = out.Msg
	case ev.Condition:
		r.kind = "error"
		r.msg = out.Class + ": " + out.Msg
	default:
		r.kind = "fault"
		r.msg = out.Msg
	}
	return
}

func (r result) String() string {
	if r.kind == "objects" {
		return "objects[" + r.text + "]"
	}
	return r.kind + "(" + r.msg + ")"
}

// same reports whether two deliveries agree: same outcome class, and for object sequences Equal objects
// of the same type with the same canonical text in the same order. "incomplete" and "error" are both
// "not read" for the purposes of the statement only when judging truncation, not here.
func same(a, b result) bool {
	if a.kind != b.kind {
		return false
	}
	if a.kind != "objects" {
		return true
	}
	if a.text != b.text || len(a.objs) != len(b.objs) {
		return false
	}
	for i := range a.objs {
		if !slip.ObjectEqual(a.objs[i], b.objs[i]) || !slip.ObjectEqual(b.objs[i], a.objs[i]) {
			// function-like objects (quote, function) are not Equal to one another in slip; their text was compared
			if _, isList := a.objs[i].(slip.List); isList {
				return false
			}
			switch a.objs[i].(type) {
			case slip.Fixnum, slip.String, slip.Symbol, slip.Character, *slip.Bignum, *slip.Ratio, slip.DoubleFloat, slip.SingleFloat:
				return false
			}
		}
	}
	return true
}

// chunker hands out the text in the given pieces. zero: also returns (0, nil) before every piece.
// eofWithData: the last piece is returned together with io.EOF.
type chunker struct {
	data        []byte
	cuts        []int // ascending cut positions
	pos         int
	zero        bool
	zeroNext    bool
	eofWithData bool
}

func (c *chunker) Read(p []byte) (int, error) {
	if c.zero && !c.zeroNext {
		c.zeroNext = true
		return 0, nil
	}
	c.zeroNext = false
	if c.pos >= len(c.data) {
		return 0, io.EOF
	}
	end := len(c.data)
	for _, k := range c.cuts {
		if k > c.pos {
			end = k
			break
		}
	}
	if end-c.pos > len(p) {
		end = c.pos + len(p)
	}
	n := copy(p, c.data[c.pos:end])
	c.pos = end
	if c.eofWithData && c.pos >= len(c.data) {
		return n, io.EOF
	}
	return n, nil
}

func fixed(n, size int) []int {
	var cuts []int
	for k := size; k < n; k += size {
		cuts = append(cuts, k)
	}
	return cuts
}

func scopeFor(c Case) *slip.Scope {
	scope := slip.NewScope()
	scope.Let(slip.Symbol("*read-base*"), slip.Fixnum(c.Base))
	scope.Let(slip.Symbol("*read-default-float-format*"), slip.Symbol(c.Float))
	return scope
}

func readStream(c Case, data []byte, cuts []int, zero, eofData bool) result {
	return classify(func() []slip.Object {
		code, _ := slip.ReadStream(&chunker{data: data, cuts: cuts, zero: zero, eofWithData: eofData}, scopeFor(c))
		return []slip.Object(code)
	})
}

func sortedCuts(cuts []int) []int {
	out := append([]int(nil), cuts...)
	for i := range out {
		for j := i + 1; j < len(out); j++ {
			if out[j] < out[i] {
				out[i], out[j] = out[j], out[i]
			}
		}
	}
	return out
}

// insideToken: is cut position k strictly inside a token/string/escape/dispatch, by ground truth?
// Approximation from the text itself: both neighbours are non-blank and not both parentheses.
func cutInside(text string, k int) bool {
	if k <= 0 || k >= len(text) {
		return false
	}
	a, b := text[k-1], text[k]
	blank := func(x byte) bool { return x == ' ' || x == '\n' || x == '\t' }
	if blank(a) || blank(b) {
		return false
	}
	if (a == '(' || a == ')') && (b == '(' || b == ')') {
		return false
	}
	return true
}

func runDelivery(c Case) *h.Result { return runDeliveryMode(c, true) }

// runDeliveryMode: strict = the text comes from the grammar, every delivery must give the outcome class of ReadString.
// Not strict = the text is arbitrary (native fuzzing): when ReadString gives objects every delivery must give equal
// objects (the text denotes that sequence); when it does not, a delivery must not read objects out of it and must not
// fault - whether a malformed text is called incomplete or a parse error is not judged.
func runDeliveryMode(c Case, strict bool) *h.Result {
	res := &h.Result{Classes: []string{fmt.Sprintf("base:%d", c.Base)}}
	data := []byte(c.Text)
	n := len(data)
	ref := classify(func() []slip.Object { return []slip.Object(slip.ReadString(c.Text, scopeFor(c))) })
	res.Classes = append(res.Classes, "ref:"+ref.kind)
	if ref.kind == "fault" {
		return h.Fail("ReadString faults on %q: %s", c.Text, ref.msg)
	}
	evals := 1
	check := func(name string, got result) string {
		evals++
		if !strict && ref.kind != "objects" {
			if got.kind == "objects" || got.kind == "fault" {
				return fmt.Sprintf("%s reads a text that ReadString rejects, %q (base %d, %s):\n   ReadString: %s\n   %s: %s", name, c.Text, c.Base, c.Float, ref, name, got)
			}
			return ""
		}
		if !same(ref, got) {
			return fmt.Sprintf("%s differs from ReadString on %q (base %d, %s):\n   ReadString: %s\n   %s: %s", name, c.Text, c.Base, c.Float, ref, name, got)
		}
		return ""
	}
	fail := func(msg string) *h.Result {
		res.Err = msg
		res.Evals = evals
		return res
	}
	if msg := check("Read", classify(func() []slip.Object { return []slip.Object(slip.Read(data, scopeFor(c))) })); msg != "" {
		return fail(msg)
	}
	// every single cut
	inside := 0
	for k := 1; k < n; k++ {
		if cutInside(c.Text, k) {
			inside++
		}
		if msg := check(fmt.Sprintf("ReadStream cut at %d", k), readStream(c, data, []int{k}, false, k%2 == 0)); msg != "" {
			return fail(msg)
		}
	}
	// every fixed chunk size 1..8
	for size := 1; size <= 8 && size < n; size++ {
		if msg := check(fmt.Sprintf("ReadStream chunks of %d", size), readStream(c, data, fixed(n, size), false, size%2 == 1)); msg != "" {
			return fail(msg)
		}
	}
	// byte at a time with empty reads in between
	if msg := check("ReadStream byte-at-a-time with (0,nil) reads", readStream(c, data, fixed(n, 1), true, false)); msg != "" {
		return fail(msg)
	}
	// the drawn multi-cut
	if len(c.Cuts) > 0 {
		if msg := check(fmt.Sprintf("ReadStream cuts %v", sortedCuts(c.Cuts)), readStream(c, data, sortedCuts(c.Cuts), false, false)); msg != "" {
			return fail(msg)
		}
	}
	// push and each
	for _, size := range []int{1, 3, 7, n + 1} {
		cuts := fixed(n, size)
		got := classify(func() []slip.Object {
			ch := make(chan slip.Object, 1000)
			slip.ReadStreamPush(&chunker{data: data, cuts: cuts}, scopeFor(c), ch)
			close(ch)
			var objs []slip.Object
			for o := range ch {
				objs = append(objs, o)
			}
			return objs
		})
		if msg := check(fmt.Sprintf("ReadStreamPush chunks of %d", size), got); msg != "" {
			return fail(msg)
		}
		got = classify(func() []slip.Object {
			var objs []slip.Object
			slip.ReadStreamEach(&chunker{data: data, cuts: cuts}, scopeFor(c), collector{objs: &objs})
			return objs
		})
		if msg := check(fmt.Sprintf("ReadStreamEach chunks of %d", size), got); msg != "" {
			return fail(msg)
		}
	}
	// the same through the functions a program calls: read-each and read-push on a stream that hands over its bytes in
	// pieces, and read called until the end of the stream
	for _, size := range []int{1, 4, n + 1} {
		cuts := fixed(n, size)
		lisp := func(body string, post func(*slip.Scope, slip.Object) []slip.Object) result {
			return classify(func() []slip.Object {
				scope := scopeFor(c)
				scope.Let(slip.Symbol("c02-in"), slip.NewInputStream(&chunker{data: data, cuts: cuts}))
				code := slip.ReadString(body, slip.NewScope())
				var v slip.Object
				for _, f := range code {
					v = f.Eval(scope, 0)
				}
				return post(scope, v)
			})
		}
		rev := func(_ *slip.Scope, v slip.Object) []slip.Object {
			l, _ := v.(slip.List)
			out := make([]slip.Object, len(l))
			for i, o := range l {
				out[len(l)-1-i] = o
			}
			return out
		}
		got := lisp("(let ((acc nil)) (read-each c02-in (lambda (x) (setq acc (cons x acc)))) acc)", rev)
		if msg := check(fmt.Sprintf("(read-each stream fn) chunks of %d", size), got); msg != "" {
			return fail(msg)
		}
		if ref.kind == "objects" {
			got = lisp(fmt.Sprintf("(let ((ch (make-channel %d)) (acc nil)) (read-push c02-in ch) (channel-close ch) (dotimes (i %d) (setq acc (cons (channel-pop ch) acc))) acc)", len(ref.objs)+1, len(ref.objs)), rev)
			if msg := check(fmt.Sprintf("(read-push stream channel) chunks of %d", size), got); msg != "" {
				return fail(msg)
			}
		}
		evals += 2
	}
	res.Evals = evals
	res.NonTrivial = inside > 0 && ref.kind == "objects"
	return res
}

type collector struct{ objs *[]slip.Object }

func (c collector) Call(s *slip.Scope, args slip.List, depth int) slip.Object {
	*c.objs = append(*c.objs, args[0])
	return nil
}

// one form at a time: ReadOne in a loop, ReadStream(one), read-from-string :start, cl:read on a string stream.
func runOneAtATime(c Case) *h.Result {
	res := &h.Result{Classes: []string{fmt.Sprintf("base:%d", c.Base)}}
	data := []byte(c.Text)
	ref := classify(func() []slip.Object { return []slip.Object(slip.ReadString(c.Text, scopeFor(c))) })
	if ref.kind != "objects" {
		res.Skip = "" // not an exclusion: texts that do not read have no positions to check
		res.Classes = append(res.Classes, "one:ref-not-objects")
		return res
	}
	evals := 1
	nForms := len(ref.objs)
	if nForms != len(c.Ends) {
		// the generator's ground truth disagrees with slip about the number of top-level forms
		return h.Fail("ReadString on %q gives %d forms, the grammar says %d: %s", c.Text, nForms, len(c.Ends), ref)
	}
	posOK := func(i, pos int) bool {
		lo := c.Ends[i]
		hi := len(data)
		if i+1 < len(c.Starts) {
			hi = c.Starts[i+1]
		}
		return lo <= pos && pos <= hi
	}
	// ReadOne loop
	{
		var objs []slip.Object
		off := 0
		for i := 0; i < nForms; i++ {
			var code slip.Code
			var pos int
			out := ev.Try(func() slip.Object {
				code, pos = slip.ReadOne(data[off:], scopeFor(c))
				return nil
			})
			evals++
			if out.Kind != ev.Value || len(code) != 1 {
				return h.Fail("ReadOne #%d at offset %d of %q: %s (%d objects); ReadString: %s", i, off, c.Text, out, len(code), ref)
			}
			objs = append(objs, code[0])
			if !posOK(i, off+pos) {
				return h.Fail("ReadOne #%d of %q reports position %d, the form ends at %d and the next starts at %v", i, c.Text, off+pos, c.Ends[i], c.Starts[i+1:])
			}
			off += pos
		}
		got := result{kind: "objects", objs: objs, text: render(objs)}
		if !same(ref, got) {
			return h.Fail("ReadOne loop differs on %q:\n   ReadString: %s\n   ReadOne: %s", c.Text, ref, got)
		}
		// nothing but white space and comments may remain
		rest := classify(func() []slip.Object { return []slip.Object(slip.ReadString(string(data[off:]), scopeFor(c))) })
		evals++
		if rest.kind != "objects" || len(rest.objs) != 0 {
			return h.Fail("after the last ReadOne of %q the rest %q still reads as %s", c.Text, data[off:], rest)
		}
	}
	// ReadStream(one) under chunking
	for _, size := range []int{1, 2, 5, len(data) + 1} {
		var code slip.Code
		var pos int
		out := ev.Try(func() slip.Object {
			code, pos = slip.ReadStream(&chunker{data: data, cuts: fixed(len(data), size)}, scopeFor(c), true)
			return nil
		})
		evals++
		if out.Kind != ev.Value || len(code) != 1 {
			return h.Fail("ReadStream(one) chunks of %d on %q: %s (%d objects)", size, c.Text, out, len(code))
		}
		got := result{kind: "objects", objs: code, text: render(code)}
		first := result{kind: "objects", objs: ref.objs[:1], text: render(ref.objs[:1])}
		if !same(first, got) {
			return h.Fail("ReadStream(one) chunks of %d differs on %q:\n   ReadString first: %s\n   got: %s", size, c.Text, first, got)
		}
		if !posOK(0, pos) {
			return h.Fail("ReadStream(one) chunks of %d on %q reports position %d, the form ends at %d", size, c.Text, pos, c.Ends[0])
		}
	}
	// read-from-string with :start at every form start, and cl:read on a string stream
	// the harness's own forms are read in the default base; the case's reader variables are bound around the call
	scope := slip.NewScope()
	scope.Let(slip.Symbol("txt"), slip.String(c.Text))
	bind := func(body string) string {
		return fmt.Sprintf("(let ((*read-base* %d) (*read-default-float-format* '%s)) %s)", c.Base, c.Float, body)
	}
	runes := func(byteOff int) int { return len([]rune(c.Text[:byteOff])) }
	for i := 0; i < nForms; i++ {
		out := ev.Eval(scope, bind(fmt.Sprintf("(multiple-value-list (read-from-string txt t nil :start %d))", runes(c.Starts[i]))))
		evals++
		if out.Kind != ev.Value {
			return h.Fail("read-from-string :start %d on %q: %s", runes(c.Starts[i]), c.Text, out)
		}
		vals, _ := out.Val.(slip.List)
		if len(vals) != 2 {
			return h.Fail("read-from-string on %q returned %s", c.Text, sx.Text(out.Val))
		}
		got := result{kind: "objects", objs: vals[:1], text: render(vals[:1])}
		want := result{kind: "objects", objs: ref.objs[i : i+1], text: render(ref.objs[i : i+1])}
		if !same(want, got) {
			return h.Fail("read-from-string :start %d differs on %q:\n   ReadString form %d: %s\n   got: %s", runes(c.Starts[i]), c.Text, i, want, got)
		}
		// the same read bounded by :end at the end of the form (and at the end of the text) gives the same object
		for _, end := range []int{runes(c.Ends[i]), len([]rune(c.Text))} {
			oe := ev.Eval(scope, bind(fmt.Sprintf("(multiple-value-list (read-from-string txt t nil :start %d :end %d))", runes(c.Starts[i]), end)))
			evals++
			ve, _ := oe.Val.(slip.List)
			if oe.Kind != ev.Value || len(ve) != 2 {
				return h.Fail("read-from-string :start %d :end %d on %q: %s", runes(c.Starts[i]), end, c.Text, oe)
			}
			if ge := (result{kind: "objects", objs: ve[:1], text: render(ve[:1])}); !same(want, ge) {
				return h.Fail("read-from-string :start %d :end %d differs on %q:\n   ReadString form %d: %s\n   got: %s", runes(c.Starts[i]), end, c.Text, i, want, ge)
			}
		}
		// :start s :end e reads the text between the two bounds: for every e inside the form (a text that stops inside
		// a token or a list, and the empty text for e = s) the outcome is the one of reading (subseq txt s e)
		s0 := runes(c.Starts[i])
		for e := s0; e <= runes(c.Ends[i]) && e <= s0+24; e++ {
			bounded := ev.Eval(scope, bind(fmt.Sprintf("(multiple-value-list (read-from-string txt nil 'at-end :start %d :end %d))", s0, e)))
			sub := ev.Eval(scope, bind(fmt.Sprintf("(multiple-value-list (read-from-string (subseq txt %d %d) nil 'at-end))", s0, e)))
			evals += 2
			if bounded.Kind == ev.Fault || sub.Kind == ev.Fault {
				return h.Fail("read-from-string :start %d :end %d on %q: %s / on the subseq: %s", s0, e, c.Text, bounded, sub)
			}
			if bounded.Kind != sub.Kind {
				return h.Fail("read-from-string :start %d :end %d on %q: %s, but reading (subseq txt %d %d): %s", s0, e, c.Text, bounded, s0, e, sub)
			}
			if bounded.Kind == ev.Value {
				vb, _ := bounded.Val.(slip.List)
				vs, _ := sub.Val.(slip.List)
				if len(vb) != 2 || len(vs) != 2 {
					return h.Fail("read-from-string :start %d :end %d on %q returned %s / %s", s0, e, c.Text, sx.Text(bounded.Val), sx.Text(sub.Val))
				}
				rb, rs := result{kind: "objects", objs: vb[:1], text: render(vb[:1])}, result{kind: "objects", objs: vs[:1], text: render(vs[:1])}
				if !same(rb, rs) {
					return h.Fail("read-from-string :start %d :end %d on %q reads %s, but (subseq txt %d %d) reads %s", s0, e, c.Text, rb, s0, e, rs)
				}
				pb, okb := vb[1].(slip.Fixnum)
				ps, oks := vs[1].(slip.Fixnum)
				if !(s0 > 0 && h.Excluded("rfs-start-whitespace")) && (!okb || !oks || int(pb) != int(ps)+s0) {
					return h.Fail("read-from-string :start %d :end %d on %q reports position %s, reading (subseq txt %d %d) reports %s", s0, e, c.Text, sx.Text(vb[1]), s0, e, sx.Text(vs[1]))
				}
			}
		}
		p, ok := vals[1].(slip.Fixnum)
		hi := len([]rune(c.Text))
		if i+1 < nForms {
			hi = runes(c.Starts[i+1])
		}
		if c.Starts[i] > 0 && h.Excluded("rfs-start-whitespace") {
			continue // finding C02-F1: the position after a read with :start > 0 is not judged
		}
		if !ok || int(p) < runes(c.Ends[i]) || int(p) > hi {
			return h.Fail("read-from-string :start %d on %q reports position %s, the form ends at %d (next starts at %d)", runes(c.Starts[i]), c.Text, sx.Text(vals[1]), runes(c.Ends[i]), hi)
		}
	}
	{
		var sb strings.Builder
		sb.WriteString("(let ((s (make-string-input-stream txt))) (list")
		for i := 0; i <= nForms; i++ {
			sb.WriteString(" (read s nil :eof)")
		}
		sb.WriteString("))")
		out := ev.Eval(scope, bind(sb.String()))
		evals++
		if out.Kind != ev.Value {
			return h.Fail("repeated (read stream) on %q: %s", c.Text, out)
		}
		vals, _ := out.Val.(slip.List)
		if len(vals) != nForms+1 || sx.Text(vals[nForms]) != ":eof" {
			return h.Fail("repeated (read stream) on %q returned %s; ReadString: %s", c.Text, sx.Typed(out.Val), ref)
		}
		got := result{kind: "objects", objs: vals[:nForms], text: render(vals[:nForms])}
		if !same(ref, got) {
			return h.Fail("repeated (read stream) differs on %q:\n   ReadString: %s\n   read: %s", c.Text, ref, got)
		}
	}
	res.Evals = evals
	res.NonTrivial = nForms >= 2
	return res
}

// truncation: every prefix is either reported as incomplete/parse error (mandatory where the ground truth says
// it ends inside a list, string, |symbol| or #( ) or is a text of its own that reads the same under every delivery.
func runTruncation(c Case) *h.Result {
	res := &h.Result{}
	evals := 0
	insideCount := 0
	for k := 0; k < len(c.Text); k++ {
		prefix := c.Text[:k]
		data := []byte(prefix)
		ref := classify(func() []slip.Object { return []slip.Object(slip.ReadString(prefix, scopeFor(c))) })
		evals++
		if ref.kind == "fault" {
			res.Err = fmt.Sprintf("ReadString faults on prefix %q of %q: %s", prefix, c.Text, ref.msg)
			break
		}
		deliveries := []result{
			readStream(c, data, fixed(k, 1), false, false),
			readStream(c, data, fixed(k, 3), false, true),
			readStream(c, data, nil, false, false),
		}
		evals += len(deliveries)
		for di, d := range deliveries {
			if !same(ref, d) {
				res.Err = fmt.Sprintf("prefix %q of %q: stream delivery %d differs:\n   ReadString: %s\n   stream: %s", prefix, c.Text, di, ref, d)
				break
			}
		}
		if res.Err != "" {
			break
		}
		if c.State[k] == 'i' {
			insideCount++
			if ref.kind == "objects" {
				res.Err = fmt.Sprintf("prefix %q of %q stops inside a form but is read as %s", prefix, c.Text, ref)
				break
			}
		}
	}
	res.Evals = evals
	res.NonTrivial = insideCount > 0
	return res
}

// the real 64 KiB block boundary: filler in front so that byte `Big` of the block is where the text starts.
func runBig(c Case) *h.Result {
	res := &h.Result{}
	filler := "(pad x) "
	var sb strings.Builder
	for sb.Len()+len(filler) <= c.Big {
		sb.WriteString(filler)
	}
	for sb.Len() < c.Big {
		sb.WriteByte(' ')
	}
	sb.WriteString(c.Text)
	full := sb.String()
	ref := classify(func() []slip.Object { return []slip.Object(slip.ReadString(full, scopeFor(c))) })
	got := classify(func() []slip.Object {
		code, _ := slip.ReadStream(bytes.NewReader([]byte(full)), scopeFor(c))
		return []slip.Object(code)
	})
	res.Evals = 2
	if !same(ref, got) {
		// report only the tail
		tail := func(r result) string {
			s := r.String()
			if len(s) > 300 {
				s = "..." + s[len(s)-300:]
			}
			return s
		}
		res.Err = fmt.Sprintf("text %q placed at offset %d of a stream read in 64 KiB blocks differs:\n   ReadString: %s\n   ReadStream: %s", c.Text, c.Big, tail(ref), tail(got))
	}
	off := 65536 - c.Big // where in the text the block boundary falls
	res.NonTrivial = ref.kind == "objects" && off > 0 && off < len(c.Text) && cutInside(c.Text, off)
	return res
}

var (
	delivery   = h.Prop[Case]{Name: "delivery", Gen: genCase, Run: runDelivery}
	oneAtATime = h.Prop[Case]{Name: "one-at-a-time", Gen: genCase, Run: runOneAtATime}
	truncation = h.Prop[Case]{Name: "truncation", Gen: genCase, Run: runTruncation}
)

func TestC02(t *testing.T) {
	h.Rule("texts from a token grammar with ground truth (lists, dotted pairs, strings with escapes and UTF-8, |symbols|, characters, numbers in every radix syntax, " +
		"ratios, floats with every marker, #( #2A #0A #* #C ' ` , ,@ #' @time, line and block comments) x read-base {2,8,10,16,36} x 4 float formats; " +
		"each text is delivered through Read, ReadStream with every single cut, every chunk size 1-8, byte-at-a-time with empty reads, a drawn multi-cut, " +
		"ReadStreamPush/Each, ReadOne loop, ReadStream(one), read-from-string :start, repeated cl:read, every prefix, and across the real 64 KiB block boundary; " +
		"oracle: same outcome class and Equal objects of the same type and canonical text as ReadString, positions within [end of form, start of next], " +
		"prefixes ending inside a list/string/|symbol|/#( must be incomplete or a parse error. " +
		"Non-trivial: at least one cut strictly inside a token (delivery), >= 2 forms (one-at-a-time), a prefix ending inside a form (truncation). Distinct by case JSON.")
	h.Assume("ReadString (the whole text in one piece) is the reference delivery")
	h.Assume("the generator's ground truth (form starts/ends, inside-a-form flags) is cross-checked against the number of forms ReadString returns")
	h.RunProp(t, delivery, h.N(1500, 25000))
	h.RunProp(t, oneAtATime, h.N(3000, 60000))
	h.RunProp(t, truncation, h.N(600, 10000))
	// block boundary: reuse generated texts at every offset that puts the boundary inside the text
	{
		bigGen := h.Prop[Case]{Name: "block-boundary", Run: runBig, Gen: func(rt *rapid.T) Case {
			c := genCase(rt)
			n := len(c.Text)
			if n < 2 {
				c.Big = 65536 - 1
				return c
			}
			c.Big = 65536 - rapid.IntRange(1, n-1).Draw(rt, "boundary")
			return c
		}}
		h.RunProp(t, bigGen, h.N(400, 6000))
	}
}
