package c02

import (
	"fmt"
	"strings"

	"pgregory.net/rapid"
)

// Case is a source text with its ground truth, produced by the token-grammar generator.
type Case struct {
	Text   string `json:"text"`
	Base   int    `json:"read_base"`
	Float  string `json:"float_format"`
	Starts []int  `json:"starts"` // byte offset where each top-level form starts
	Ends   []int  `json:"ends"`   // byte offset just after each top-level form
	// State[i] describes the prefix of length i: 'i' = ends inside a list, string, |symbol|, #( or #nA(
	// (must be reported as incomplete or as a parse error); 'o' = ends at depth 0 outside any
	// delimited token (a text of its own); '?' = not judged (inside a # dispatch, after a prefix
	// character, inside a block comment or an escape).
	State string `json:"state"`
	Cuts  []int  `json:"cuts"` // one drawn multi-cut
	// Big: number of filler bytes put in front so that the text straddles the reader's 64 KiB block.
	Big int `json:"big,omitempty"`
}

type builder struct {
	rt    *rapid.T
	sb    strings.Builder
	state []byte
	depth int
	base  int
	bq    int // backquote nesting (comma only legal inside)
	toks  int
}

// emit appends text whose interior has the given state for prefixes ending strictly inside it;
// after the last byte the state is given by the current depth.
func (b *builder) emit(s string, inner byte) {
	for i := 0; i < len(s); i++ {
		b.sb.WriteByte(s[i])
		if i < len(s)-1 {
			b.state = append(b.state, inner)
		} else {
			b.state = append(b.state, b.after())
		}
	}
}

func (b *builder) after() byte {
	if b.depth > 0 {
		return 'i'
	}
	return 'o'
}

// outer state for prefixes ending inside an undelimited token: by depth.
func (b *builder) tok(s string) {
	b.emit(s, b.after())
	b.toks++
}

func (b *builder) ws() {
	k := rapid.IntRange(0, 9).Draw(b.rt, "ws")
	switch {
	case k < 6:
		b.emit(" ", b.after())
	case k == 6:
		b.emit("\n", b.after())
	case k == 7:
		b.emit(" \t", b.after())
	case k == 8:
		b.emit("\n; "+rapid.StringMatching(`[a-z "()|#;]{0,6}`).Draw(b.rt, "cmt")+"\n", b.after())
	default:
		// block comment: interior not judged when at depth 0
		inner := byte('?')
		if b.depth > 0 {
			inner = 'i'
		}
		b.emit(" #| "+rapid.StringMatching(`[a-z ()"]{0,5}`).Draw(b.rt, "bcmt")+" |# ", inner)
	}
}

func (b *builder) digits(n int) string {
	const alpha = "0123456789abcdefghijklmnopqrstuvwxyz"
	var sb strings.Builder
	for i := 0; i < n; i++ {
		sb.WriteByte(alpha[rapid.IntRange(0, b.base-1).Draw(b.rt, "dig")])
	}
	return sb.String()
}

func (b *builder) decDigits(n int) string {
	var sb strings.Builder
	for i := 0; i < n; i++ {
		sb.WriteByte("0123456789"[rapid.IntRange(0, 9).Draw(b.rt, "ddig")])
	}
	return sb.String()
}

func (b *builder) sign() string {
	return []string{"", "", "-", "+"}[rapid.IntRange(0, 3).Draw(b.rt, "sign")]
}

func (b *builder) str() {
	var sb strings.Builder
	sb.WriteByte('"')
	n := rapid.IntRange(0, 6).Draw(b.rt, "strn")
	for i := 0; i < n; i++ {
		switch rapid.IntRange(0, 11).Draw(b.rt, "strk") {
		case 0:
			sb.WriteString(`\n`)
		case 1:
			sb.WriteString(`\t`)
		case 2:
			sb.WriteString(`\"`)
		case 3:
			sb.WriteString(`\\`)
		case 4:
			sb.WriteString(fmt.Sprintf(`\u%04x`, rapid.IntRange(0x20, 0xd7ff).Draw(b.rt, "u4")))
		case 5:
			sb.WriteString(fmt.Sprintf(`\U%08x`, rapid.IntRange(0x10000, 0x10ffff).Draw(b.rt, "u8")))
		case 6:
			sb.WriteString("é")
		case 7:
			sb.WriteString("😀")
		case 8:
			sb.WriteString(rapid.SampledFrom([]string{"(", ")", ";", "|", "#", "'", " ", "\n"}).Draw(b.rt, "strp"))
		default:
			sb.WriteString(rapid.StringMatching(`[a-z0-9]{1,3}`).Draw(b.rt, "strs"))
		}
	}
	sb.WriteByte('"')
	b.emit(sb.String(), 'i')
	b.toks++
}

func (b *builder) pipeSym() {
	body := rapid.StringMatching(`[a-zA-Z0-9 ();'#,]{1,5}`).Draw(b.rt, "pipe")
	b.emit("|"+body+"|", 'i')
	b.toks++
}

func (b *builder) symbol() string {
	if b.base > 10 {
		// keep symbols clear of the digit alphabet of the read base: start with a non-digit
		return rapid.SampledFrom([]string{"z-a", "zz*", "-z", "zq!", "z.z", "&zopt", ":zkey", "z/=z"}).Draw(b.rt, "symhi")
	}
	return rapid.SampledFrom([]string{"a", "b", "abc", "Foo", "x-y", "*v*", "+", "-", "&rest", ":key", "a.b", "t", "nil", "car", "1+", "<=", "e", "d1", "f"}).Draw(b.rt, "sym")
}

func (b *builder) number() string {
	switch rapid.IntRange(0, 9).Draw(b.rt, "numk") {
	case 0, 1:
		return b.sign() + b.digits(rapid.IntRange(1, 4).Draw(b.rt, "nd"))
	case 2:
		return b.sign() + b.digits(rapid.IntRange(18, 24).Draw(b.rt, "ndbig"))
	case 3:
		return b.sign() + b.decDigits(rapid.IntRange(1, 3).Draw(b.rt, "nd")) + "."
	case 4:
		return b.sign() + b.digits(rapid.IntRange(1, 3).Draw(b.rt, "nn")) + "/" + b.digits(rapid.IntRange(1, 3).Draw(b.rt, "nq"))
	case 5:
		return b.sign() + b.decDigits(rapid.IntRange(1, 3).Draw(b.rt, "fi")) + "." + b.decDigits(rapid.IntRange(1, 3).Draw(b.rt, "ff"))
	case 6:
		m := rapid.SampledFrom([]string{"e", "d", "f", "s", "l", "E", "D"}).Draw(b.rt, "fm")
		return b.sign() + b.decDigits(rapid.IntRange(1, 2).Draw(b.rt, "fi")) + "." + b.decDigits(rapid.IntRange(1, 2).Draw(b.rt, "ff")) + m + b.sign() + b.decDigits(1)
	case 7:
		return rapid.SampledFrom([]string{"#b", "#B"}).Draw(b.rt, "bp") + b.sign() + rapid.StringMatching(`[01]{1,8}`).Draw(b.rt, "bd")
	case 8:
		if rapid.Bool().Draw(b.rt, "ox") {
			return "#o" + b.sign() + rapid.StringMatching(`[0-7]{1,6}`).Draw(b.rt, "od")
		}
		return "#x" + b.sign() + rapid.StringMatching(`[0-9a-fA-F]{1,6}`).Draw(b.rt, "xd")
	default:
		r := rapid.SampledFrom([]int{2, 3, 8, 10, 16, 36}).Draw(b.rt, "rr")
		const alpha = "0123456789abcdefghijklmnopqrstuvwxyz"
		var sb strings.Builder
		for i := rapid.IntRange(1, 4).Draw(b.rt, "rn"); i > 0; i-- {
			sb.WriteByte(alpha[rapid.IntRange(0, r-1).Draw(b.rt, "rd")])
		}
		return fmt.Sprintf("#%dr%s", r, sb.String())
	}
}

func (b *builder) character() string {
	switch rapid.IntRange(0, 5).Draw(b.rt, "chk") {
	case 0:
		return `#\` + rapid.SampledFrom([]string{"Space", "Newline", "Tab", "space", "Backspace", "Return"}).Draw(b.rt, "chn")
	case 1:
		return `#\` + "é"
	case 2:
		return fmt.Sprintf(`#\u%04x`, rapid.IntRange(0x21, 0xd7ff).Draw(b.rt, "chu"))
	default:
		return `#\` + rapid.StringMatching(`[a-zA-Z0-9]`).Draw(b.rt, "chc")
	}
}

func (b *builder) form(depth int) {
	if b.toks > 40 {
		b.tok(b.symbol())
		return
	}
	k := rapid.IntRange(0, 24).Draw(b.rt, "formk")
	if depth >= 4 && k >= 14 {
		k %= 14
	}
	switch k {
	case 0, 1, 2:
		b.tok(b.symbol())
	case 3, 4, 5:
		b.tok(b.number())
	case 6, 7:
		b.str()
	case 8:
		b.pipeSym()
	case 9:
		b.tok(b.character())
	case 10:
		b.tok("#*" + rapid.StringMatching(`[01]{0,8}`).Draw(b.rt, "bits"))
	case 11:
		b.tok("@2024-01-02T03:04:05Z")
	case 12:
		b.tok("#'" + rapid.SampledFrom([]string{"car", "cdr", "list"}).Draw(b.rt, "fn"))
	case 13:
		// prefix character then a form
		p := rapid.SampledFrom([]string{"'", "'", "`"}).Draw(b.rt, "prefix")
		b.emit(p, '?')
		// a prefix with nothing after it stops inside a (quote ...) form: it must be reported as incomplete
		b.state[len(b.state)-1] = 'i'
		if p == "`" {
			b.bq++
			b.form(depth + 1)
			b.bq--
		} else {
			b.form(depth + 1)
		}
	case 14, 15, 16, 17:
		b.list(depth, "(")
	case 18:
		b.list(depth, "#(")
	case 19:
		// dotted pair
		b.open("(")
		b.form(depth + 1)
		b.emit(" . ", 'i')
		b.form(depth + 1)
		b.closeParen()
	case 20:
		// 2-d array
		b.open("#2A(")
		for i := 0; i < 2; i++ {
			b.open("(")
			b.tok(b.number())
			b.emit(" ", 'i')
			b.tok(b.symbol())
			b.closeParen()
		}
		b.closeParen()
	case 21:
		b.open("#C(")
		b.tok("1")
		b.emit(" ", 'i')
		b.tok("2")
		b.closeParen()
	case 22:
		if b.bq > 0 {
			b.emit(rapid.SampledFrom([]string{",", ",@"}).Draw(b.rt, "comma"), '?')
			b.state[len(b.state)-1] = 'i'
			b.bq--
			if rapid.Bool().Draw(b.rt, "commalist") {
				b.list(depth, "(")
			} else {
				b.tok(b.symbol())
			}
			b.bq++
		} else {
			b.tok(b.symbol())
		}
	case 24:
		// a dot that is not in the place of a dotted pair: slip reads it as the symbol |.| - (. x), (x . y z), (x .)
		b.open("(")
		shape := rapid.IntRange(0, 3).Draw(b.rt, "straydot")
		if shape != 0 {
			b.form(depth + 1)
			b.emit(" ", 'i')
		}
		b.emit(".", 'i')
		if shape != 3 {
			b.emit(" ", 'i')
			b.form(depth + 1)
		}
		if shape == 1 {
			b.emit(" ", 'i')
			b.form(depth + 1)
		}
		b.closeParen()
	default:
		b.open("#0A")
		b.depth-- // #0A takes one object, no list: undo the depth of open()
		b.state[len(b.state)-1] = '?'
		b.tok(b.number())
	}
}

func (b *builder) open(s string) {
	// prefixes ending inside the opener ("#", "#2", "#2A") are not judged
	for i := 0; i < len(s)-1; i++ {
		b.sb.WriteByte(s[i])
		b.state = append(b.state, '?')
	}
	b.sb.WriteByte(s[len(s)-1])
	b.depth++
	b.state = append(b.state, 'i')
}

func (b *builder) closeParen() {
	b.depth--
	b.sb.WriteByte(')')
	b.state = append(b.state, b.after())
}

func (b *builder) list(depth int, opener string) {
	b.open(opener)
	n := rapid.IntRange(0, 4).Draw(b.rt, "listn")
	for i := 0; i < n; i++ {
		if i > 0 || rapid.IntRange(0, 4).Draw(b.rt, "lead") == 0 {
			b.ws()
		}
		b.form(depth + 1)
	}
	if rapid.IntRange(0, 4).Draw(b.rt, "trail") == 0 {
		b.ws()
	}
	b.closeParen()
}

var bases = []int{10, 10, 10, 2, 8, 16, 36}
var floats = []string{"double-float", "single-float", "short-float", "long-float"}

func genCase(rt *rapid.T) Case {
	b := &builder{rt: rt, base: rapid.SampledFrom(bases).Draw(rt, "base")}
	b.state = append(b.state, 'o') // prefix of length 0
	c := Case{Base: b.base, Float: rapid.SampledFrom(floats).Draw(rt, "float")}
	n := rapid.IntRange(1, 4).Draw(rt, "forms")
	if rapid.IntRange(0, 5).Draw(rt, "leadws") == 0 {
		b.ws()
	}
	glued := false
	for i := 0; i < n; i++ {
		c.Starts = append(c.Starts, b.sb.Len())
		if glued {
			// directly behind the form before it, without white space: a form that starts with its own delimiter
			if rapid.Bool().Draw(rt, "gluedstr") {
				b.str()
			} else {
				b.list(0, "(")
			}
		} else {
			b.form(0)
		}
		c.Ends = append(c.Ends, b.sb.Len())
		glued = i < n-1 && rapid.IntRange(0, 3).Draw(rt, "glue") == 0
		if glued {
			continue
		}
		if i < n-1 || rapid.Bool().Draw(rt, "trailws") {
			b.ws()
		}
		if b.sb.Len() > 200 {
			break
		}
	}
	c.Text = b.sb.String()
	c.State = string(b.state)
	// a drawn multi-cut
	if len(c.Text) > 1 {
		k := rapid.IntRange(1, 5).Draw(rt, "ncuts")
		seen := map[int]bool{}
		for i := 0; i < k; i++ {
			p := rapid.IntRange(1, len(c.Text)-1).Draw(rt, "cut")
			if !seen[p] {
				seen[p] = true
				c.Cuts = append(c.Cuts, p)
			}
		}
	}
	return c
}
