package c13

import (
	"fmt"
	"strings"
	"sync/atomic"
	"testing"

	"github.com/ohler55/slip"

	"verif/harness/internal/ev"
	"verif/harness/internal/h"
	"verif/harness/internal/sx"
)

// Sub-property unbind-inherited: makunbound / fmakunbound / unintern issued in a package that only inherits the name
// (the owner exports it, the package uses the owner). Whatever that does to the package's own view (the model of the
// histories leaves it open), it must not lose the owner's definition: the owner itself, another user of the owner and
// the qualified names owner:name / owner::name read from common-lisp-user still give the owner's value.

type UCase struct {
	Fn     bool   `json:"fn"`     // a function instead of a variable
	Op     string `json:"op"`     // makunbound | fmakunbound | unintern
	Late   bool   `json:"late"`   // the packages use the owner before it exports the name
	Rebind bool   `json:"rebind"` // the owner assigns / defines once more before the unbinding step
	Chain  int    `json:"chain"`  // a further package uses the unbinding package and the owner: 1 in that order, 2 owner first
}

var uctr atomic.Int64

func runUnbindInherited(c UCase) *h.Result {
	res := &h.Result{NonTrivial: true}
	n := uctr.Add(1)
	a, b, d, e := fmt.Sprintf("c13ua%d", n), fmt.Sprintf("c13ub%d", n), fmt.Sprintf("c13uc%d", n), fmt.Sprintf("c13ud%d", n)
	scope := slip.NewScope()
	defer func() {
		_ = ev.Eval(scope, "(in-package :common-lisp-user)")
		for _, p := range []string{e, b, d, a} {
			if pk := slip.FindPackage(p); pk != nil {
				_ = ev.Try(func() slip.Object { slip.RemovePackage(pk); return nil })
			}
		}
	}()
	name, def, read := "x", "(defvar x 11)", "x"
	if c.Fn {
		name, def, read = "f", "(defun f () 11)", "(f)"
	}
	var steps []string
	for _, p := range []string{a, b, d, e} {
		steps = append(steps, fmt.Sprintf("(defpackage %s (:use common-lisp))", p))
	}
	use := []string{"(in-package :" + b + ")", "(use-package '" + a + ")", "(in-package :" + d + ")", "(use-package '" + a + ")"}
	switch c.Chain {
	case 1:
		use = append(use, "(in-package :"+e+")", "(use-package '"+b+")", "(use-package '"+a+")")
	case 2:
		use = append(use, "(in-package :"+e+")", "(use-package '"+a+")", "(use-package '"+b+")")
	}
	own := []string{"(in-package :" + a + ")", def, "(export '" + name + ")"}
	if c.Late {
		steps = append(append(steps, use...), own...)
	} else {
		steps = append(append(steps, own...), use...)
	}
	if c.Rebind {
		if c.Fn {
			steps = append(steps, "(in-package :"+a+")", "(defun f () 11)")
		} else {
			steps = append(steps, "(in-package :"+a+")", "(setq x 11)")
		}
	}
	steps = append(steps, "(in-package :"+b+")", "("+c.Op+" '"+name+")")
	for i, s := range steps {
		if o := ev.Eval(scope, s); o.Kind != ev.Value && i < len(steps)-1 {
			return h.Fail("set-up step %s: %s", s, o)
		}
		// the unbinding step itself may signal (the name is not the package's own): not judged
	}
	probes := []struct{ in, form string }{
		{a, read}, {d, read}, {"common-lisp-user", strings.Replace(read, name, a+":"+name, 1)}, {"common-lisp-user", strings.Replace(read, name, a+"::"+name, 1)},
	}
	if c.Chain > 0 {
		probes = append(probes, struct{ in, form string }{e, read})
	}
	for _, p := range probes {
		_ = ev.Eval(scope, "(in-package :"+p.in+")")
		o := ev.Eval(scope, p.form)
		if o.Kind != ev.Value || sx.Text(o.Val) != "11" {
			return h.Fail("after %s in %s (which only inherits %s from %s): %s read in %s => %s, the owner's definition (11) is gone\n  steps: %s",
				steps[len(steps)-1], b, name, a, p.form, p.in, o, strings.Join(steps, " "))
		}
		res.Evals++
	}
	return res
}

var unbindInherited = h.Prop[UCase]{Name: "unbind-inherited", Run: runUnbindInherited}

func testUnbindInherited(t *testing.T) {
	h.RunProp(t, unbindInherited, 0)
	if h.C.Shard != 0 {
		return
	}
	h.Enumerate(t, unbindInherited, func(yield func(UCase) bool) {
		for _, fn := range []bool{false, true} {
			ops := []string{"makunbound", "unintern"}
			if fn {
				ops = []string{"fmakunbound"}
			}
			for _, op := range ops {
				for _, late := range []bool{false, true} {
					for _, rebind := range []bool{false, true} {
						for chain := 0; chain < 3; chain++ {
							if !yield(UCase{Fn: fn, Op: op, Late: late, Rebind: rebind, Chain: chain}) {
								return
							}
						}
					}
				}
			}
		}
	})
}
