package c13

import (
	"fmt"
	"io"
	"runtime"
	"runtime/debug"
	"strings"
	"testing"

	"github.com/ohler55/slip"
	"pgregory.net/rapid"

	"verif/harness/internal/ev"
	"verif/harness/internal/h"
	"verif/harness/internal/refpkg"
)

func TestMain(m *testing.M) {
	// unuse-package rebuilds a whole table per call: with the default settings most of the time goes
	// into garbage-collector hand-offs between idle Ps (measured 2.1 ms -> 0.2 ms per history)
	debug.SetGCPercent(400)
	runtime.GOMAXPROCS(2)
	h.Main(m, "C13")
}

// Case is a history over NP fresh user packages (c13a, c13b, c13c). The replay and witness format.
type Case struct {
	NP  int         `json:"np"`
	Ops []refpkg.Op `json:"ops"`
	// Late: the last package does not exist at the start, a defpkg step of the history creates it with defpackage
	// and its :use, :export and :nicknames options
	Late bool `json:"late,omitempty"`
}

var (
	pkgNames = []string{"c13a", "c13b", "c13c"}
	varNames = []string{"x", "y"}
	fnNames  = []string{"f", "g"}
	neutral  = "common-lisp-user"
)

// ---------------------------------------------------------------- rendering of steps as Lisp

func token(op refpkg.Op, step int) string {
	return fmt.Sprintf("%s.%s#%d", pkgNames[op.A][3:], op.N, step)
}

// forms gives the Lisp text of one step; cur is the current package index before the step (-1 neutral).
func forms(op refpkg.Op, step int, cur int) (out []string) {
	a := pkgNames[op.A]
	cl, q1, q2 := "", "'", ""
	if op.K == "defpkg" {
		src := "(defpackage :" + a + " (:use :cl :c13cond"
		for q := range pkgNames {
			if op.Q&(1<<q) != 0 {
				src += " :" + pkgNames[q]
			}
		}
		src += ") (:nicknames \"" + a + "nick\")"
		if names := refpkg.SplitNames(op.N); len(names) > 0 {
			src += " (:export"
			for _, n := range names {
				src += " \"" + n + "\""
			}
			src += ")"
		}
		return []string{src + ")"}
	}
	if !op.Arg && cur != op.A {
		out = append(out, "("+cl+"in-package :"+a+")")
	}
	switch op.K {
	case "inpkg":
		if len(out) == 0 {
			out = append(out, "("+cl+"in-package :"+a+")")
		}
	case "use", "unuse":
		q := pkgNames[op.Q]
		if op.Arg {
			out = append(out, fmt.Sprintf("(%s%s-package :%s :%s)", cl, op.K, q, a))
		} else {
			out = append(out, fmt.Sprintf("(%s%s-package :%s)", cl, op.K, q))
		}
	case "export", "unexport":
		name := q1 + op.N + q2
		switch step % 5 {
		case 3:
			name = "'(" + op.N + ")" // a list of symbols
		case 4:
			name = "\"" + op.N + "\"" // a string designator
		}
		if op.Arg {
			out = append(out, fmt.Sprintf("(%s%s %s :%s)", cl, op.K, name, a))
		} else {
			out = append(out, fmt.Sprintf("(%s%s %s)", cl, op.K, name))
		}
	case "setq":
		out = append(out, fmt.Sprintf("(%ssetq %s %q)", cl, op.N, token(op, step)))
	case "defvar":
		out = append(out, fmt.Sprintf("(%sdefvar %s %q)", cl, op.N, token(op, step)))
	case "defun":
		out = append(out, fmt.Sprintf("(%sdefun %s () %q)", cl, op.N, token(op, step)))
	case "makunbound", "fmakunbound", "unintern":
		out = append(out, fmt.Sprintf("(%s%s %s%s%s)", cl, op.K, q1, op.N, q2))
	}
	return
}

// ---------------------------------------------------------------- evaluation helpers

var parsed = map[string]slip.Object{}

// evalForm evaluates src (read once, the reader is not the subject here) in scope.
func evalForm(scope *slip.Scope, src string) ev.Outcome {
	obj, has := parsed[src]
	if !has {
		code := slip.ReadString(src, scope)
		if len(code) != 1 {
			panic("bad probe form " + src)
		}
		obj = code[0]
		parsed[src] = obj
	}
	return ev.Try(func() slip.Object { return obj.Eval(scope, 0) })
}

type world struct {
	scope *slip.Scope
	np    int
	cur   int
	nick  bool     // the last package has a nickname: qualified names are also read through it
	text  []string // the Lisp text executed so far
}

func (w *world) inPackage(i int) {
	name := neutral
	if i >= 0 {
		name = pkgNames[i]
	}
	if o := evalForm(w.scope, "(cl:in-package :"+name+")"); o.Kind != ev.Value {
		panic("in-package " + name + ": " + o.String())
	}
}

var (
	baseFeatures = -1
	allNames     = []string{"x", "y", "f", "g"}
	// condPkg holds the condition classes. slip registers them in common-lisp-user only (the package
	// that is current while pkg/clos initialises), and signalling any condition in a package that cannot
	// see the class unbound-variable / undefined-function faults with a nil pointer; that is not the
	// subject of C13, so the test packages use this class-only package besides CL.
	condPkg  *slip.Package
	pristine = []*slip.Package{}
)

func toNeutral() {
	_ = ev.Try(func() slip.Object {
		slip.CLPkg.Set("*package*", &slip.UserPkg)
		return nil
	})
}

// discard removes the test packages altogether.
func discard() {
	toNeutral()
	for _, n := range pkgNames {
		if p := slip.FindPackage(n); p != nil {
			// the package is discarded: drop its use edges directly instead of one table rebuild per edge
			p.Uses = nil
			_ = ev.Try(func() slip.Object {
				slip.RemovePackage(p)
				return nil
			})
		}
	}
	// reset the interpreter globals a package definition touches
	if vv := slip.CLPkg.GetVarVal("*features*"); vv != nil && baseFeatures >= 0 {
		if l, ok := vv.Val.(slip.List); ok && len(l) > baseFeatures {
			vv.Val = l[:baseFeatures:baseFeatures]
		}
	}
	for _, base := range []*slip.Package{&slip.CLPkg, condPkg} {
		keep := base.Users[:0:0]
		for _, u := range base.Users {
			drop := u.Name == ""
			for _, n := range pkgNames {
				if u.Name == n {
					drop = true
				}
			}
			if !drop {
				keep = append(keep, u)
			}
		}
		base.Users = keep
	}
}

// recycle brings the np test packages back to their state right after defpackage, so that the next
// history need not pay for three new packages (about 0.25 ms each: use-package of CL copies its whole
// table). Everything a history can leave behind is a use edge between test packages or a table entry
// under one of the four names; the edges are cut directly, the entries are deleted through the Go API
// and the result is verified. If anything is left the packages are discarded and made anew.
func recycle(np int) bool {
	toNeutral()
	var ps []*slip.Package
	for i := 0; i < np; i++ {
		p := slip.FindPackage(pkgNames[i])
		if p == nil {
			return false
		}
		ps = append(ps, p)
	}
	if slip.FindPackage(pkgNames[np%len(pkgNames)]) != nil && np < len(pkgNames) {
		return false // a different number of packages was in use
	}
	ok := true
	for _, p := range ps {
		p.Uses = append(p.Uses[:0:0], pristine...)
		p.Users = nil
		p.Exports = nil
	}
	for _, p := range ps {
		for _, n := range allNames {
			_ = ev.Try(func() slip.Object {
				for k := 0; k < 2 && p.GetVarVal(n) != nil; k++ {
					p.Remove(n)
				}
				p.Undefine(n)
				return nil
			})
			if p.GetVarVal(n) != nil || p.GetFunc(n) != nil {
				ok = false
			}
		}
	}
	return ok
}

func setup(np int) *world {
	if condPkg == nil {
		condPkg = slip.DefPackage("c13cond", nil, "condition classes for the C13 test packages")
		for _, c := range slip.UserPkg.AllClasses() {
			condPkg.RegisterClass(c.Name(), c)
		}
		pristine = []*slip.Package{&slip.CLPkg, condPkg}
		if vv := slip.CLPkg.GetVarVal("*features*"); vv != nil {
			if l, ok := vv.Val.(slip.List); ok {
				baseFeatures = len(l)
			}
		}
	}
	w := &world{scope: slip.NewScope(), np: np, cur: -1}
	w.scope.Let(slip.Symbol("*error-output*"), &slip.OutputStream{Writer: io.Discard})
	if recycle(np) {
		h.Class("packages-recycled", 1)
		return w
	}
	discard()
	h.Class("packages-created", 1)
	for i := 0; i < np; i++ {
		src := "(defpackage :" + pkgNames[i] + " (:use :cl :c13cond))"
		if o := evalForm(w.scope, src); o.Kind != ev.Value {
			panic("set-up: " + src + " => " + o.String())
		}
		if p := slip.FindPackage(pkgNames[i]); p == nil || len(p.Uses) != 2 || p.Uses[0] != pristine[0] || p.Uses[1] != pristine[1] {
			panic("set-up: unexpected use list after " + src)
		}
	}
	return w
}

// observe gives (bound, value) for an outcome of evaluating a name or calling a function: a string
// value = bound to that token; a condition = unbound / undefined. Anything else is reported.
func observe(o ev.Outcome) (bound bool, val string, bad string) {
	switch o.Kind {
	case ev.Value:
		if s, ok := o.Val.(slip.String); ok {
			return true, string(s), ""
		}
		return false, "", "unexpected value " + ev.Show(o.Val)
	case ev.Condition:
		return false, "", ""
	}
	return false, "", o.String()
}

func truth(o ev.Outcome) (b bool, bad string) {
	if o.Kind != ev.Value {
		return false, o.String()
	}
	switch o.Val {
	case nil:
		return false, ""
	case slip.True:
		return true, ""
	}
	return false, "unexpected value " + ev.Show(o.Val)
}

func show(bound bool, val string) string {
	if bound {
		return val
	}
	return "unbound/undefined"
}

// probe compares every name from every package with the model. Returns "" or the first mismatch.
func (w *world) probe(m *refpkg.World, names []string) string {
	for p := 0; p < w.np; p++ {
		w.inPackage(p)
		for _, n := range names {
			var pred, read string
			if refpkg.IsFn(n) {
				pred, read = "(cl:fboundp (cl:quote "+n+"))", "("+n+")"
			} else {
				pred, read = "(cl:boundp (cl:quote "+n+"))", n
			}
			pb, bad := truth(evalForm(w.scope, pred))
			if bad != "" {
				return fmt.Sprintf("in %s: %s => %s", pkgNames[p], pred, bad)
			}
			bound, val, bad := observe(evalForm(w.scope, read))
			if bad != "" {
				return fmt.Sprintf("in %s: %s => %s", pkgNames[p], read, bad)
			}
			v := m.View(p, n)
			if !v.Allows(bound, val) {
				return fmt.Sprintf("in %s: %s => %s, expected %s", pkgNames[p], read, show(bound, val), v.Want())
			}
			if pb != bound {
				return fmt.Sprintf("in %s: %s => %v but %s => %s", pkgNames[p], pred, pb, read, show(bound, val))
			}
		}
	}
	w.inPackage(-1)
	for p := 0; p < w.np; p++ {
		for _, n := range names {
			for _, private := range []bool{false, true} {
				sep := ":"
				if private {
					sep = "::"
				}
				prefixes := []string{pkgNames[p]}
				if w.nick && p == w.np-1 {
					prefixes = append(prefixes, pkgNames[p]+"nick")
				}
				for _, prefix := range prefixes {
					src := prefix + sep + n
					if refpkg.IsFn(n) {
						src = "(" + src + ")"
					}
					bound, val, bad := observe(evalForm(w.scope, src))
					if bad != "" {
						return fmt.Sprintf("from %s: %s => %s", neutral, src, bad)
					}
					must, mustFail, free := m.Qualified(p, n, private)
					switch {
					case mustFail:
						if bound {
							return fmt.Sprintf("from %s: %s => %s, expected a condition (not exported / not defined)", neutral, src, val)
						}
					case must != "":
						if !bound || val != must {
							return fmt.Sprintf("from %s: %s => %s, expected %s", neutral, src, show(bound, val), must)
						}
					default:
						if bound && !in(val, free) {
							return fmt.Sprintf("from %s: %s => %s, expected a condition or one of %v", neutral, src, val, free)
						}
					}
				}
			}
		}
	}
	w.inPackage(w.cur)
	return ""
}

func in(s string, set []string) bool {
	for _, x := range set {
		if s == x {
			return true
		}
	}
	return false
}

// ---------------------------------------------------------------- the oracle run

func namesOf(c Case) []string {
	seen := map[string]bool{}
	for _, op := range c.Ops {
		for _, n := range refpkg.SplitNames(op.N) {
			seen[n] = true
		}
	}
	var out []string
	for _, n := range append(append([]string{}, varNames...), fnNames...) {
		if seen[n] {
			out = append(out, n)
		}
	}
	if len(out) == 0 {
		out = []string{"x", "f"}
	}
	return out
}

func runHistory(c Case) (res *h.Result) {
	res = &h.Result{}
	if c.NP < 1 || c.NP > len(pkgNames) {
		return h.Fail("bad case: np=%d", c.NP)
	}
	names := namesOf(c)
	m := refpkg.New(c.NP)
	np0 := c.NP
	if c.Late {
		np0--
		m.Absent = map[int]bool{np0: true}
	}
	w := setup(np0)
	defer toNeutral()

	// bookkeeping for the non-trivial rule: some (package, name) resolved to another package's
	// definition and a later retracting step (unuse, unexport, makunbound, fmakunbound) changed that.
	type key struct {
		p int
		n string
	}
	inherited := map[key]*refpkg.Cell{}
	kinds := map[string]bool{}
	conflict, twoHop, through, besidePlaceholder, placeholderDefined := false, false, false, false, false
	fail := func(step int, msg string) *h.Result {
		res.Err = fmt.Sprintf("after step %d of [%s]: %s", step+1, strings.Join(w.text, " "), msg)
		return res
	}
	for i, op := range c.Ops {
		if op.A >= c.NP || (op.Q >= c.NP && op.K != "defpkg") {
			continue
		}
		before := map[key]*refpkg.Cell{}
		for k, cell := range inherited {
			before[k] = cell
		}
		besidePlaceholder = false
		if op.K == "setq" || op.K == "defvar" || op.K == "defun" {
			if v := m.View(op.A, op.N); v.Pending && v.Own == nil && len(v.Direct)+len(v.Trans) == 0 {
				besidePlaceholder = true
			}
		}
		wasInherited := false
		if op.K == "setq" && !op.Arg && op.A >= 0 {
			v := m.View(op.A, op.N)
			wasInherited = v.Own == nil && len(v.Direct) == 1
		}
		if !m.Apply(op, token(op, i)) {
			h.Class("step-outside-domain", 1)
			continue
		}
		if wasInherited {
			through = true
		}
		if besidePlaceholder {
			placeholderDefined = true // (the step was inside the domain and has been applied to the model)
		}
		kinds[op.K] = true
		for _, src := range forms(op, i, w.cur) {
			w.text = append(w.text, src)
			if o := ev.Eval(w.scope, src); o.Kind != ev.Value {
				return fail(i, src+" => "+o.String())
			}
		}
		w.cur = m.Cur
		if op.K == "defpkg" {
			w.np = c.NP
			w.nick = true
		}
		if msg := w.probe(m, names); msg != "" {
			return fail(i, msg)
		}
		// classification
		retract := op.K == "unuse" || op.K == "unexport" || op.K == "makunbound" || op.K == "fmakunbound" || op.K == "unintern"
		for p := 0; p < c.NP; p++ {
			for _, n := range names {
				v := m.View(p, n)
				k := key{p, n}
				if v.Own != nil && (len(v.Direct) > 0 || len(v.Trans) > 0) {
					conflict = true
				}
				if len(v.Trans) > 0 {
					twoHop = true
				}
				var now *refpkg.Cell
				if v.Own == nil && len(v.Direct) == 1 {
					now = v.Direct[0]
				}
				if retract && before[k] != nil && now != before[k] {
					res.NonTrivial = true
				}
				if now != nil {
					inherited[k] = now
				} else {
					delete(inherited, k)
				}
			}
		}
	}
	for k := range kinds {
		res.Classes = append(res.Classes, "op:"+k)
	}
	if conflict {
		res.Classes = append(res.Classes, "own-definition-beside-inherited")
	}
	if placeholderDefined {
		res.Classes = append(res.Classes, "defined-beside-exported-unbound-name")
		res.NonTrivial = true
	}
	if twoHop {
		res.Classes = append(res.Classes, "two-hop-candidate")
	}
	if through {
		res.Classes = append(res.Classes, "setq-through-inherited")
	}
	if res.NonTrivial {
		res.Classes = append(res.Classes, "retract-after-inherit")
	}
	res.Classes = append(res.Classes, fmt.Sprintf("len:%02d-%02d", len(c.Ops)/8*8, len(c.Ops)/8*8+7))
	return
}

// ---------------------------------------------------------------- generators

var kindsWeighted = []string{
	"define", "define", "define", "define", "defvar",
	"use", "use", "use", "use", "unuse", "unuse",
	"export", "export", "export", "export", "unexport", "unexport",
	"undefine", "undefine", "inpkg",
}

// genOp draws one step; names are taken from the history's focus set so that steps meet on the same
// name often enough for definitions to become visible elsewhere and be retracted again.
func genOp(rt *rapid.T, np int, focus []string) refpkg.Op {
	op := refpkg.Op{K: rapid.SampledFrom(kindsWeighted).Draw(rt, "k"), A: rapid.IntRange(0, np-1).Draw(rt, "a")}
	switch op.K {
	case "use", "unuse":
		op.Q = (op.A + rapid.IntRange(1, np-1).Draw(rt, "q")) % np
		op.Arg = rapid.IntRange(0, 3).Draw(rt, "arg") == 0
	case "export", "unexport":
		op.N = rapid.SampledFrom(focus).Draw(rt, "n")
		op.Arg = rapid.IntRange(0, 3).Draw(rt, "arg") == 0
	case "define", "defvar", "undefine":
		op.N = rapid.SampledFrom(focus).Draw(rt, "n")
		fn := refpkg.IsFn(op.N)
		switch {
		case op.K == "define" && fn, op.K == "defvar" && fn:
			op.K = "defun"
		case op.K == "define":
			op.K = "setq"
		case op.K == "undefine" && fn:
			op.K = "fmakunbound"
		case op.K == "undefine":
			op.K = "makunbound"
			if rapid.IntRange(0, 3).Draw(rt, "unintern") == 0 {
				op.K = "unintern" // documented as "unbinds the symbol in the package"
			}
		}
	}
	return op
}

func genHistory(rt *rapid.T) Case {
	c := Case{NP: 3}
	all := []string{"x", "y", "f", "g"}
	// focus: one variable, one function, one of each, or everything
	var focus []string
	switch rapid.IntRange(0, 5).Draw(rt, "focus") {
	case 0, 1:
		focus = []string{rapid.SampledFrom(varNames).Draw(rt, "v")}
	case 2, 3:
		focus = []string{rapid.SampledFrom(fnNames).Draw(rt, "f")}
	case 4:
		focus = []string{rapid.SampledFrom(varNames).Draw(rt, "v"), rapid.SampledFrom(fnNames).Draw(rt, "f")}
	default:
		focus = all
	}
	n := 40 - rapid.IntRange(0, 37).Draw(rt, "short") // rapid prefers small draws: prefer long histories
	m := refpkg.New(c.NP)
	// a thread through the history: owner P defines and exports name nm, Q uses P; about a third of the
	// steps are drawn from the steps that build or retract exactly that, in any order
	pOwner := rapid.IntRange(0, c.NP-1).Draw(rt, "owner")
	qUser := (pOwner + rapid.IntRange(1, c.NP-1).Draw(rt, "user")) % c.NP
	third := 3 - pOwner - qUser
	nm := rapid.SampledFrom(focus).Draw(rt, "thread-name")
	def, undef := "setq", "makunbound"
	if refpkg.IsFn(nm) {
		def, undef = "defun", "fmakunbound"
	}
	thread := []refpkg.Op{
		{K: def, A: pOwner, N: nm}, {K: "export", A: pOwner, N: nm}, {K: "use", A: qUser, Q: pOwner},
		{K: def, A: pOwner, N: nm}, {K: "export", A: pOwner, N: nm}, {K: "use", A: qUser, Q: pOwner},
		{K: undef, A: pOwner, N: nm}, {K: "unexport", A: pOwner, N: nm}, {K: "unuse", A: qUser, Q: pOwner},
		// export before bind: the user defines the name itself while the owner only exports it, and
		// uses / unuses the third package meanwhile (unuse-package rebuilds the user's whole table)
		{K: def, A: qUser, N: nm}, {K: "use", A: qUser, Q: third}, {K: "unuse", A: qUser, Q: third},
	}
	for i := 0; i < n; i++ {
		for try := 0; try < 4; try++ {
			var op refpkg.Op
			if rapid.IntRange(0, 2).Draw(rt, "threaded") == 0 {
				op = rapid.SampledFrom(thread).Draw(rt, "thread-op")
				if op.K != def && op.K != undef {
					op.Arg = rapid.IntRange(0, 3).Draw(rt, "arg") == 0
				}
			} else {
				op = genOp(rt, c.NP, focus)
			}
			if m.Apply(op, token(op, len(c.Ops))) {
				c.Ops = append(c.Ops, op)
				break
			}
		}
	}
	return c
}

// enumerate yields every in-domain history of exactly n steps over the alphabet (every shorter
// in-domain history is a prefix of one of them and is judged after each of its steps).
func enumerate(np int, alphabet []refpkg.Op, n int, yield func(Case) bool) {
	idx := 0
	var rec func(prefix []refpkg.Op) bool
	rec = func(prefix []refpkg.Op) bool {
		if len(prefix) == n {
			idx++
			if (idx-1)%h.C.NShards != h.C.Shard {
				return true
			}
			return yield(Case{NP: np, Ops: append([]refpkg.Op(nil), prefix...)})
		}
		for _, op := range alphabet {
			// replay the prefix on a fresh model (histories are short)
			m := refpkg.New(np)
			for i, po := range prefix {
				m.Apply(po, token(po, i))
			}
			if !m.Apply(op, token(op, len(prefix))) {
				continue
			}
			if !rec(append(prefix, op)) {
				return false
			}
		}
		return true
	}
	rec(nil)
}

func alphabet(np int, names []string, defvar bool) (out []refpkg.Op) {
	for a := 0; a < np; a++ {
		for d := 1; d < np; d++ {
			out = append(out, refpkg.Op{K: "use", A: a, Q: (a + d) % np}, refpkg.Op{K: "unuse", A: a, Q: (a + d) % np})
		}
		for _, n := range names {
			out = append(out, refpkg.Op{K: "export", A: a, N: n}, refpkg.Op{K: "unexport", A: a, N: n})
			if refpkg.IsFn(n) {
				out = append(out, refpkg.Op{K: "defun", A: a, N: n}, refpkg.Op{K: "fmakunbound", A: a, N: n})
			} else {
				out = append(out, refpkg.Op{K: "setq", A: a, N: n}, refpkg.Op{K: "makunbound", A: a, N: n})
				if defvar {
					out = append(out, refpkg.Op{K: "defvar", A: a, N: n})
				}
			}
		}
	}
	return
}

var (
	history   = h.Prop[Case]{Name: "history", Gen: genHistory, Run: runHistory}
	enumVar   = h.Prop[Case]{Name: "enum-var", Run: runHistory}
	enumFn    = h.Prop[Case]{Name: "enum-fn", Run: runHistory}
	enumMixed = h.Prop[Case]{Name: "enum-mixed", Run: runHistory}
	enumPlace = h.Prop[Case]{Name: "enum-placeholder", Run: runHistory}
)

func TestC13(t *testing.T) {
	h.Rule("a case is a history of steps (use-package, unuse-package, export, unexport - current package or optional package argument -, setq, defvar, defun, makunbound, fmakunbound, in-package) " +
		"over 3 fresh packages x variables x,y x functions f,g, values are unique tokens; after EVERY step every name is read from inside every package (boundp/value, fboundp/call) and as p:name and p::name " +
		"from common-lisp-user and compared with a model that recomputes visibility from the use/export graph (own definition, else exported definition of a directly used package, else unbound; " +
		"two-hop visibility, two used packages exporting the same name and CL name-conflict situations are don't-care or outside the generated domain). " +
		"Non-trivial: some package resolved a name to another package's definition and a later unuse/unexport/makunbound/fmakunbound changed that resolution, " +
		"or a package defined a name that a used package exports without having bound it. Distinct by history. " +
		"Sub-properties defpackage-history / enum-defpackage: the third package does not exist at the start and is created in the middle of the history by (defpackage ... (:use ...) (:export ...) (:nicknames ...)); qualified names are also read through the nickname (non-trivial under the same rule, and the history must contain the defpackage step). " +
		"Sub-property import: a name imported with Package.Import (Go extension interface) keeps resolving to the owner's current definition through every sequence of 4 use/unuse/export/unexport/redefinition steps (non-trivial: the sequence contains an unuse or unexport).")
	h.Assume("the reference model internal/refpkg (about 250 lines, recomputes everything from the graph on every query)")
	h.Assume("steps and probes are Lisp text evaluated through slip.ReadString/Eval; in-package is used to move between packages; packages are removed with slip.RemovePackage after each history and *features* / CL's user list are reset by the harness")

	testUnbindInherited(t)
	h.RunProp(t, enumVar, 0)
	h.RunProp(t, enumFn, 0)
	h.RunProp(t, enumMixed, 0)
	h.RunProp(t, enumPlace, 0)
	h.RunProp(t, importProp, 0)
	h.RunProp(t, history, h.N(8000, 100000))
	h.RunProp(t, defpkgEnum, 0)
	h.RunProp(t, defpkgHistory, h.N(3000, 30000))
	h.Enumerate(t, defpkgEnum, enumerateDefpkg)

	lv, lm, lp := 4, 3, 5
	if h.Thorough() {
		lv, lm, lp = 6, 4, 7
	}
	h.Note("exhaustive: 2 packages x {use,unuse,export,unexport,setq,makunbound} on x to length %d; same with defun/fmakunbound on f; 3 packages x 14 steps on x and f to length %d; 3 packages x 8 steps (a uses/unuses b and c, b exports/binds x, a setq/defvar x) to length %d", lv, lm, lp)
	h.Enumerate(t, enumVar, func(yield func(Case) bool) { enumerate(2, alphabet(2, []string{"x"}, false), lv, yield) })
	h.Enumerate(t, enumFn, func(yield func(Case) bool) { enumerate(2, alphabet(2, []string{"f"}, false), lv, yield) })
	h.Enumerate(t, enumMixed, func(yield func(Case) bool) { enumerate(3, alphabet(3, []string{"x", "f"}, true), lm, yield) })
	// export before bind with three packages: b exports x (bound or not), a uses / unuses b and c and defines
	// x itself; b::x must never be bound by a's steps and a's own x must survive every later unuse
	h.Enumerate(t, enumPlace, func(yield func(Case) bool) {
		enumerate(3, []refpkg.Op{
			{K: "use", A: 0, Q: 1}, {K: "use", A: 0, Q: 2}, {K: "unuse", A: 0, Q: 1}, {K: "unuse", A: 0, Q: 2},
			{K: "export", A: 1, N: "x"}, {K: "setq", A: 1, N: "x"}, {K: "setq", A: 0, N: "x"}, {K: "defvar", A: 0, N: "x"},
		}, lp, yield)
	})
	if h.C.Shard == 0 {
		// a name imported through the Go extension interface (Package.Import): 8 step kinds, length 4
		h.Enumerate(t, importProp, func(yield func(ImpCase) bool) {
			more := true
			for _, n := range []string{"x", "f"} {
				if more {
					enumerateImport(n, 4, func(c ImpCase) bool { more = yield(c); return more })
				}
			}
		})
	}
}
