package c13
import ("testing";"time";"fmt";"os";"verif/harness/internal/refpkg")
func TestBench(t *testing.T){
 if os.Getenv("C13_BENCH")=="" { t.Skip() }
 c:=Case{NP:2,Ops:[]refpkg.Op{{K:"setq",A:0,N:"x"},{K:"export",A:0,N:"x"},{K:"use",A:1,Q:0},{K:"unuse",A:1,Q:0},{K:"makunbound",A:0,N:"x"}}}
 t0:=time.Now(); n:=2000
 for i:=0;i<n;i++{ r:=runHistory(c); if r.Err!="" {fmt.Println(r.Err);break} }
 fmt.Println("per history", time.Since(t0)/time.Duration(n))
 t0=time.Now()
 for i:=0;i<n;i++{ w:=setup(2); _=w; toNeutral() }
 fmt.Println("setup+teardown", time.Since(t0)/time.Duration(n))
}
