package c13

import (
	"strings"

	"pgregory.net/rapid"

	"verif/harness/internal/h"
	"verif/harness/internal/refpkg"
)

// defpackage as a step of the history: the third package does not exist at the start; it is created by
// (defpackage :c13c (:use ...) (:export ...) (:nicknames ...)) after some steps over the first two packages and the
// history goes on over all three. The model treats the options as what they are documented to be (the packages used
// and the names exported by the new package).

var exportSets = []string{"", "x", "f", "x,f", "y", "x,y,f,g"}

func genDefpkgHistory(rt *rapid.T) Case {
	c := Case{NP: 3, Late: true}
	m := refpkg.New(3)
	m.Absent = map[int]bool{2: true}
	focus := []string{"x", "f"}
	if rapid.IntRange(0, 3).Draw(rt, "allnames") == 0 {
		focus = []string{"x", "y", "f", "g"}
	}
	add := func(op refpkg.Op) {
		if m.Apply(op, token(op, len(c.Ops))) {
			c.Ops = append(c.Ops, op)
		}
	}
	for i, n := 0, rapid.IntRange(0, 8).Draw(rt, "before"); i < n; i++ {
		add(genOp(rt, 2, focus))
	}
	add(refpkg.Op{K: "defpkg", A: 2, Q: rapid.IntRange(0, 3).Draw(rt, "uses"), N: rapid.SampledFrom(exportSets).Draw(rt, "exports")})
	for i, n := 0, rapid.IntRange(0, 12).Draw(rt, "after"); i < n; i++ {
		op := genOp(rt, 3, focus)
		if rapid.IntRange(0, 1).Draw(rt, "onnew") == 0 {
			// steps that involve the new package
			if op.K == "use" || op.K == "unuse" {
				if rapid.IntRange(0, 1).Draw(rt, "newuser") == 0 {
					op.A, op.Q = 2, rapid.IntRange(0, 1).Draw(rt, "q")
				} else {
					op.A, op.Q = rapid.IntRange(0, 1).Draw(rt, "a"), 2
				}
			} else {
				op.A = 2
			}
		}
		add(op)
	}
	return c
}

func runDefpkg(c Case) *h.Result {
	res := runHistory(c)
	made := false
	for _, op := range c.Ops {
		if op.K == "defpkg" {
			made = true
			res.Classes = append(res.Classes, "defpkg:uses="+strings.Repeat("u", op.Q&1+op.Q>>1&1), "defpkg:exports="+op.N)
		}
	}
	if !made {
		res.NonTrivial = false
	}
	return res
}

// enumerateDefpkg: every history of at most two steps over the first two packages (from a reduced alphabet), every
// defpackage of the third with each use list and four export lists, and one more step that involves the new package.
func enumerateDefpkg(yield func(Case) bool) {
	pre := []refpkg.Op{
		{K: "setq", A: 0, N: "x"}, {K: "export", A: 0, N: "x"}, {K: "defun", A: 0, N: "f"}, {K: "export", A: 0, N: "f"},
		{K: "setq", A: 1, N: "x"}, {K: "export", A: 1, N: "x"}, {K: "use", A: 0, Q: 1}, {K: "use", A: 1, Q: 0},
	}
	var post []refpkg.Op
	for _, op := range alphabet(3, []string{"x", "f"}, true) {
		if op.A == 2 || ((op.K == "use" || op.K == "unuse") && op.Q == 2) {
			post = append(post, op)
		}
	}
	idx := 0
	try := func(ops []refpkg.Op) bool {
		m := refpkg.New(3)
		m.Absent = map[int]bool{2: true}
		for i, op := range ops {
			if !m.Apply(op, token(op, i)) {
				return true
			}
		}
		idx++
		if (idx-1)%h.C.NShards != h.C.Shard {
			return true
		}
		return yield(Case{NP: 3, Late: true, Ops: append([]refpkg.Op(nil), ops...)})
	}
	var prefixes [][]refpkg.Op
	prefixes = append(prefixes, nil)
	for _, a := range pre {
		prefixes = append(prefixes, []refpkg.Op{a})
		for _, b := range pre {
			prefixes = append(prefixes, []refpkg.Op{a, b})
		}
	}
	for _, prefix := range prefixes {
		for uses := 0; uses < 4; uses++ {
			for _, exports := range exportSets[:4] {
				def := refpkg.Op{K: "defpkg", A: 2, Q: uses, N: exports}
				for _, last := range post {
					ops := append(append(append([]refpkg.Op(nil), prefix...), def), last)
					if !try(ops) {
						return
					}
				}
			}
		}
	}
}

var (
	defpkgHistory = h.Prop[Case]{Name: "defpackage-history", Gen: genDefpkgHistory, Run: runDefpkg}
	defpkgEnum    = h.Prop[Case]{Name: "enum-defpackage", Run: runDefpkg}
)
