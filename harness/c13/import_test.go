package c13

import (
	"fmt"
	"strings"

	"github.com/ohler55/slip"

	"verif/harness/internal/ev"
	"verif/harness/internal/h"
	"verif/harness/internal/refpkg"
)

// ImpCase: package c13b defines N, package c13a imports it through the Go extension interface
// (Package.Import), then the steps run. The steps never define N outside c13b and never undefine it.
type ImpCase struct {
	N   string      `json:"n"`
	Ops []refpkg.Op `json:"ops"`
}

// runImport: an imported name resolves to the owner's definition whatever happens to the use/export
// graph afterwards (the import does not depend on export marks or use edges), and follows the owner's
// redefinitions.
func runImport(c ImpCase) (res *h.Result) {
	res = &h.Result{Classes: []string{"import:" + c.N}}
	m := refpkg.New(3)
	w := setup(3)
	defer toNeutral()
	def := refpkg.Op{K: "setq", A: 1, N: c.N}
	if refpkg.IsFn(c.N) {
		def.K = "defun"
	}
	read := c.N
	if refpkg.IsFn(c.N) {
		read = "(" + c.N + ")"
	}
	fail := func(step int, msg string) *h.Result {
		res.Err = fmt.Sprintf("after step %d of [%s]: %s", step+1, strings.Join(w.text, " "), msg)
		return res
	}
	run := func(op refpkg.Op, step int) string {
		if !m.Apply(op, token(op, step)) {
			return ""
		}
		for _, src := range forms(op, step, w.cur) {
			w.text = append(w.text, src)
			if o := ev.Eval(w.scope, src); o.Kind != ev.Value {
				return src + " => " + o.String()
			}
		}
		w.cur = m.Cur
		return ""
	}
	if msg := run(def, -1); msg != "" {
		return fail(-1, msg)
	}
	a, b := slip.FindPackage(pkgNames[0]), slip.FindPackage(pkgNames[1])
	if o := ev.Try(func() slip.Object { a.Import(b, c.N); return nil }); o.Kind != ev.Value {
		return fail(-1, "Package.Import: "+o.String())
	}
	w.text = append(w.text, "#go:c13a.Import(c13b,"+c.N+")")
	check := func(step int) *h.Result {
		w.inPackage(0)
		bound, val, bad := observe(evalForm(w.scope, read))
		w.inPackage(w.cur)
		if bad != "" {
			return fail(step, "in c13a: "+read+" => "+bad)
		}
		if want := m.P[1].Def[c.N].Val; !bound || val != want {
			return fail(step, fmt.Sprintf("in c13a: %s => %s, expected the imported %s", read, show(bound, val), want))
		}
		// c13a never exports the name (no step does): the single colon must not reach it through c13a from elsewhere,
		// as long as the owner keeps it private
		qual := strings.Replace(read, c.N, pkgNames[0]+":"+c.N, 1)
		for _, from := range []int{2, -1} {
			if m.P[1].Exp[c.N] != refpkg.No {
				break // the owner exports (or may export) the name: what the colon reaches through c13a then is left open
			}
			if from >= 0 {
				w.inPackage(from)
			} else {
				_ = ev.Eval(w.scope, "(in-package :common-lisp-user)")
			}
			qb, qv, _ := observe(evalForm(w.scope, qual))
			w.inPackage(w.cur)
			if qb {
				return fail(step, fmt.Sprintf("%s read outside c13a => %s although c13a does not export %s (it only imported it)", qual, show(qb, qv), c.N))
			}
		}
		return nil
	}
	if r := check(-1); r != nil {
		return r
	}
	for i, op := range c.Ops {
		// the steps must leave the definition to c13b
		if op.N != "" && op.N != c.N || (op.K != "use" && op.K != "unuse" && op.A != 1) || op.K == "makunbound" || op.K == "fmakunbound" || op.K == "defvar" {
			continue
		}
		if msg := run(op, i); msg != "" {
			return fail(i, msg)
		}
		if op.K == "unuse" || op.K == "unexport" {
			res.NonTrivial = true
		}
		if r := check(i); r != nil {
			return r
		}
	}
	return
}

var importProp = h.Prop[ImpCase]{Name: "import", Run: runImport}

func importAlphabet(n string) []refpkg.Op {
	def := "setq"
	if refpkg.IsFn(n) {
		def = "defun"
	}
	return []refpkg.Op{
		{K: "use", A: 0, Q: 1}, {K: "unuse", A: 0, Q: 1}, {K: "use", A: 0, Q: 2}, {K: "unuse", A: 0, Q: 2},
		{K: "use", A: 2, Q: 1}, {K: "export", A: 1, N: n}, {K: "unexport", A: 1, N: n}, {K: def, A: 1, N: n},
	}
}

func enumerateImport(n string, depth int, yield func(ImpCase) bool) {
	al := importAlphabet(n)
	var rec func(prefix []refpkg.Op) bool
	rec = func(prefix []refpkg.Op) bool {
		if len(prefix) == depth {
			return yield(ImpCase{N: n, Ops: append([]refpkg.Op(nil), prefix...)})
		}
		for _, op := range al {
			if !rec(append(prefix, op)) {
				return false
			}
		}
		return true
	}
	rec(nil)
}
