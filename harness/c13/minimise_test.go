package c13

import (
	"encoding/json"
	"fmt"
	"os"
	"strings"
	"testing"

	"verif/harness/internal/refpkg"
)

// TestMinimise is a triage aid (not part of the check): C13_MIN=<replay file> shrinks the history of a
// replay file by deleting steps while it still fails, and prints the Lisp text of what is left.
func TestMinimise(t *testing.T) {
	path := os.Getenv("C13_MIN")
	if path == "" {
		t.Skip()
	}
	b, err := os.ReadFile(path)
	if err != nil {
		t.Fatal(err)
	}
	var f struct {
		Case Case `json:"case"`
	}
	if err = json.Unmarshal(b, &f); err != nil {
		t.Fatal(err)
	}
	c := f.Case
	fails := func(ops []refpkg.Op) bool { return runHistory(Case{NP: c.NP, Ops: ops}).Err != "" }
	if !fails(c.Ops) {
		fmt.Println("case passes")
		return
	}
	ops := c.Ops
	for changed := true; changed; {
		changed = false
		for i := 0; i < len(ops); i++ {
			try := append(append([]refpkg.Op{}, ops[:i]...), ops[i+1:]...)
			if fails(try) {
				ops, changed = try, true
				i--
			}
		}
	}
	r := runHistory(Case{NP: c.NP, Ops: ops})
	fmt.Println(len(ops), "steps:", r.Err)
	out, _ := json.Marshal(Case{NP: c.NP, Ops: ops})
	fmt.Println(strings.TrimSpace(string(out)))
}

// TestWitnesses (triage aid): C13_WIT=<findings file> runs every witness and prints whether it fails.
func TestWitnesses(t *testing.T) {
	path := os.Getenv("C13_WIT")
	if path == "" {
		t.Skip()
	}
	b, err := os.ReadFile(path)
	if err != nil {
		t.Fatal(err)
	}
	var fs []struct {
		ID      string `json:"id"`
		Witness Case   `json:"witness"`
	}
	if err = json.Unmarshal(b, &fs); err != nil {
		t.Fatal(err)
	}
	for _, f := range fs {
		r := runHistory(f.Witness)
		fmt.Printf("%s: %s\n", f.ID, r.Err)
	}
}
