package c09

import (
	"fmt"
	"sort"
	"strconv"
	"strings"

	"github.com/ohler55/slip"

	"verif/harness/internal/ev"
)

// The fixed pool of representative objects. Every call builds its arguments afresh from the Lisp
// source text below (in the worker process), so a destructive function never changes what a later
// call sees. The NAME of a pool entry is also its "argument type" in signatures and exclusions.
type poolItem struct {
	Name string
	Src  string
}

var pool = []poolItem{
	{"nil", `nil`},
	{"t", `t`},
	{"fix0", `0`},
	{"fix1", `1`},
	{"fixm1", `-1`},
	{"fix2", `2`},
	{"fix3", `3`},
	{"fix4", `4`},
	{"fix8", `8`},
	{"fix2e62", `4611686018427387904`},
	{"fixmax", `9223372036854775807`},
	{"fixmin", `-9223372036854775808`},
	{"big2e64", `18446744073709551616`},
	{"ratio", `1/2`},
	{"dbl", `1.5d0`},
	{"sgl", `-2.5s0`},
	{"chr", `#\a`},
	{"str0", `""`},
	{"str", `"abc"`},
	{"strl", `"λ"`},
	{"stral", `"aλ"`},
	{"strj", `"日本語"`},
	{"sym", `'c09-sym`},
	{"fsym", `'c09-fn`},
	{"kwend", `:end`},
	{"kwkey", `:key`},
	{"list12", `(list 1 2)`},
	{"dotted", `(cons 'a 'b)`},
	{"bytespec0", `(cons 0 3)`},
	{"nested", `(list (list 1 2) (list 'x "y") nil)`},
	{"alist", `(list (cons 'a 1) (cons 'b 2))`},
	{"lamx", `(list 'lambda (list 'x) 'x)`},
	{"vec0", `(vector)`},
	{"vec12", `(vector 1 2)`},
	{"arr2d", `(make-array '(2 2))`},
	{"bitv", `(make-array 3 :element-type 'bit :initial-contents '(1 0 1))`},
	{"octets", `(string-to-octets "ab")`},
	{"fpvec", `(make-array 3 :fill-pointer 1 :adjustable t)`},
	// ill-formed but constructible (on trees where make-array / adjust-array do not check the fill pointer,
	// otherwise well-formed stand-ins): fill pointer beyond the length, an array that was grown and shrunk again
	{"fpover", `(or (ignore-errors (make-array 3 :fill-pointer 7)) (make-array 3 :fill-pointer 3))`},
	{"fpshrunk", `(let ((v (make-array 2 :fill-pointer 0 :adjustable t))) (vector-push-extend 1 v) (vector-push-extend 2 v) (vector-push-extend 3 v) (ignore-errors (adjust-array v 1)) v)`},
	{"adjarr", `(let ((v (make-array 2 :adjustable t :initial-contents '(1 2)))) (adjust-array v 6) (adjust-array v 1) v)`},
	// bit-vectors of equal length made by different constructors (they allocate different byte counts)
	{"bvcoerce4", `(coerce '(1 1 1 1) 'bit-vector)`},
	{"bvfixed8", `(make-array 8 :element-type 'bit :adjustable nil)`},
	{"bvread9", `#*101010101`},
	// the empty bit-vector and the empty octets vector
	{"bv0", `#*`},
	{"octets0", `(string-to-octets "")`},
	{"hash", `(let ((h (make-hash-table))) (setf (gethash 'a h) 1) h)`},
	{"pkg", `(find-package 'c09-pkg)`},
	{"sin0", `(make-string-input-stream "")`},
	{"sin", `(make-string-input-stream "(1 2) x")`},
	{"sout", `(make-string-output-stream)`},
	{"lam1", `(lambda (x) x)`},
	{"fcar", `(function car)`},
	{"flavor", `(find-flavor 'c09-flavor)`},
	{"finst", `(make-instance 'c09-flavor)`},
	{"class", `(find-class 'c09-class)`},
	{"cinst", `(make-instance 'c09-class)`},
	{"cinstnil", `(make-instance 'c09-class-nil)`}, // a class whose slot has :initform nil
	{"cond", `(make-condition 'simple-error :format-control "x")`},
	{"chan", `(let ((c (make-channel 1))) (channel-close c) c)`},
	{"time", `(make-time 2020 1 2)`},
	{"bag", `(make-bag "{a:1}")`},
	// one object of every remaining kind of Lisp object slip implements in go (go types with a Hierarchy method)
	{"complex", `#C(1 2)`},
	{"lng", `1.5L0`},
	{"octet", `(coerce 1 'octet)`},
	{"sbyte", `(coerce -1 'signed-byte)`},
	{"ubyte", `(coerce 1 'unsigned-byte)`},
	{"bit", `(bit #*101 0)`},
	{"bcast0", `(make-broadcast-stream)`},
	{"bcast", `(make-broadcast-stream (make-string-output-stream))`},
	{"concat0", `(make-concatenated-stream)`},
	{"concat", `(make-concatenated-stream (make-string-input-stream "ab") (make-string-input-stream "(c)"))`},
	{"echo", `(make-echo-stream (make-string-input-stream "ab") (make-string-output-stream))`},
	{"synonym", `(make-synonym-stream '*standard-output*)`},
	{"twoway", `(make-two-way-stream (make-string-input-stream "ab") (make-string-output-stream))`},
	// synonym streams whose variable holds a stream of one direction only (output only, input only)
	{"synout", `(progn (defvar *c09-out-only* (make-broadcast-stream)) (make-synonym-stream '*c09-out-only*))`},
	{"synin", `(progn (defvar *c09-in-only* (make-concatenated-stream (make-string-input-stream "ab"))) (make-synonym-stream '*c09-in-only*))`},
	{"rstate", `(make-random-state)`},
	{"mutex", `(make-mutex)`},
	{"bagpath", `(make-bag-path "a.b")`},
	{"uuid", `(make-uuid)`},
	{"struct", `(make-c09-st :a 1)`},
	{"generic", `(function c09-generic)`},
	{"method", `(find-method (function c09-generic) nil '(fixnum))`},
	{"biclass", `(find-class 'fixnum)`},
	{"condclass", `(find-class 'error)`},
	// streams that were closed, and a stream at which every read fails
	{"sinclosed", `(let ((s (make-string-input-stream "abc"))) (close s) s)`},
	{"soutclosed", `(let ((s (make-string-output-stream))) (close s) s)`},
}

var poolIndex = func() map[string]int {
	m := map[string]int{}
	for i, p := range pool {
		m[p.Name] = i
	}
	return m
}()

func poolNames() []string {
	names := make([]string, len(pool))
	for i, p := range pool {
		names[i] = p.Name
	}
	return names
}

// ensureGlobals (re)creates the interpreter-global things the pool refers to. Called before every
// call in the worker because a driven function may have removed them.
func ensureGlobals(scope *slip.Scope) {
	if slip.FindPackage("c09-pkg") == nil {
		ev.MustEval(scope, `(make-package 'c09-pkg :use '(common-lisp))`)
	}
	if slip.FindPackage("c09-nouse") == nil {
		ev.MustEval(scope, `(make-package 'c09-nouse :use '())`)
	}
	if slip.FindFunc("c09-fn") == nil {
		ev.MustEval(scope, `(defun c09-fn (x) x)`)
	}
	if slip.FindClass("c09-class") == nil {
		ev.MustEval(scope, `(defclass c09-class () ((a :initarg :a :initform 1)))`)
	}
	if slip.FindClass("c09-class-nil") == nil {
		ev.MustEval(scope, `(defclass c09-class-nil () ((a :initarg :a :initform nil) (b :initform '())))`)
	}
	if slip.FindFunc("make-c09-st") == nil {
		ev.MustEval(scope, `(defstruct c09-st a b)`)
	}
	if fi := slip.FindFunc("c09-generic"); fi == nil || ev.Eval(scope, `(find-method (function c09-generic) nil '(fixnum))`).Kind != ev.Value {
		ev.MustEval(scope, `(defgeneric c09-generic (x))`)
		ev.MustEval(scope, `(defmethod c09-generic ((x fixnum)) x)`)
	}
	if slip.FindClass("c09-flavor") == nil {
		ev.MustEval(scope, `(defflavor c09-flavor ((a 1)) () :gettable-instance-variables :settable-instance-variables)`)
	}
}

// buildArg makes the object for one argument descriptor: a pool name, or a literal "s:<text>"
// (string), "i:<decimal>" (integer), "c:<char>" (character), "k:<name>" (keyword), "e:<source>" (the
// value of that Lisp source text).
func buildArg(scope *slip.Scope, d string) slip.Object {
	if i, ok := poolIndex[d]; ok {
		return ev.MustEval(scope, pool[i].Src)
	}
	switch {
	case strings.HasPrefix(d, "s:"):
		return slip.String(d[2:])
	case strings.HasPrefix(d, "i:"):
		if n, err := strconv.ParseInt(d[2:], 10, 64); err == nil {
			return slip.Fixnum(n)
		}
		return ev.MustEval(scope, d[2:])
	case strings.HasPrefix(d, "k:"):
		return slip.Symbol(":" + d[2:])
	case strings.HasPrefix(d, "e:"):
		return ev.MustEval(scope, d[2:])
	case strings.HasPrefix(d, "c:"):
		for _, r := range d[2:] {
			return slip.Character(r)
		}
	}
	panic(fmt.Sprintf("unknown argument descriptor %q", d))
}

// quoteIfNeeded wraps objects that do not evaluate to themselves.
func quoteIfNeeded(o slip.Object) slip.Object {
	switch to := o.(type) {
	case slip.List:
		return slip.List{slip.Symbol("quote"), to}
	case slip.Symbol:
		if len(to) > 0 && to[0] == ':' {
			return o
		}
		return slip.List{slip.Symbol("quote"), to}
	}
	return o
}

// FuncEntry describes one driven function.
type FuncEntry struct {
	Name  string // pkg:name
	Macro bool
}

// allFunctions lists the functions of every package (sorted), skipping the harness's own vt package.
func allFunctions() (fns []FuncEntry, perPkg map[string]int) {
	perPkg = map[string]int{}
	for _, p := range slip.AllPackages() {
		if p.Name == "vt" || strings.HasPrefix(p.Name, "c09") {
			continue
		}
		p.EachFuncInfo(func(fi *slip.FuncInfo) {
			if fi.Pkg != p || strings.HasPrefix(fi.Name, "c09-") {
				return
			}
			kind := string(fi.Kind)
			if fi.Doc != nil && fi.Doc.Kind != "" {
				kind = string(fi.Doc.Kind)
			}
			fns = append(fns, FuncEntry{Name: p.Name + ":" + fi.Name, Macro: kind == "macro"})
			perPkg[p.Name]++
		})
	}
	sort.Slice(fns, func(i, j int) bool { return fns[i].Name < fns[j].Name })
	return
}
