package c09

import (
	"testing"

	"verif/harness/internal/h"
)

// package-grid: the conditions slip itself makes (and ordinary values) while the current package is not
// common-lisp-user. Function names are package qualified, the arguments are built beforehand; what varies is what the
// current package can see when slip builds the condition object.

var gridPackages = []string{"c09-pkg", "c09-nouse", "common-lisp", "keyword", "bag", "gi", "flavors", "clos", "generic", "xml", "csv", "net", "test", "watch", "swank", "common-lisp-user"}

func packageGridCalls() []Case {
	q := func(fn string, args ...string) Case { return Case{Fn: fn, Mode: "q", Args: args} }
	cl := func(fn string, args ...string) Case { return q("common-lisp:"+fn, args...) }
	cs := []Case{
		cl("car", "i:1"), cl("car"), cl("car", "nil", "nil"), q("common-lisp-user::c09-nosuch-function", "i:1"), cl("symbol-value", "e:'c09-nosuch-variable"),
		cl("symbol-function", "e:'c09-nosuch-function"), cl("fdefinition", "e:'c09-nosuch-function"), cl("funcall", "e:'c09-nosuch-function"), cl("funcall", "i:1"),
		cl("/", "i:1", "i:0"), cl("floor", "i:1", "i:0"), cl("mod", "i:1", "i:0"), cl("+", "i:1", "s:a"), cl("sqrt", "sym"), cl("expt", "i:0", "i:-1"),
		cl("read-from-string", "s:("), cl("read-from-string", "s:)"), cl("read-from-string", "s:"), cl("read-from-string", "s:#<"), cl("read-from-string", "s:\"abc"),
		cl("read-char", "sin0"), cl("read-line", "sin0"), cl("read", "sin0"), cl("parse-integer", "s:x"), cl("parse-integer", "s:"),
		cl("find-class", "e:'c09-nosuch-class"), cl("make-instance", "e:'c09-nosuch-class"), cl("make-instance", "class", "k:nosuch", "i:1"), cl("slot-value", "cinst", "e:'nosuch"),
		cl("use-package", "e:'c09-nosuch-package"), cl("export", "e:'x", "e:'c09-nosuch-package"), cl("intern", "s:x", "e:'c09-nosuch-package"), cl("find-symbol", "s:x", "e:'c09-nosuch-package"),
		cl("open", "s:/nonexistent-c09/x"), cl("probe-file", "i:1"), cl("delete-file", "s:/nonexistent-c09/x"), cl("load", "s:/nonexistent-c09/x.lisp"),
		cl("error", "s:boom ~a", "i:1"), cl("error", "e:'type-error", "k:datum", "i:1", "k:expected-type", "e:'list"), cl("error", "e:'c09-nosuch-condition"), cl("warn", "s:careful"),
		cl("signal", "s:hm"), cl("cerror", "s:go on", "s:boom"), cl("make-condition", "e:'simple-error"), cl("make-condition", "e:'c09-nosuch-condition"),
		cl("aref", "vec12", "i:9"), cl("elt", "list12", "i:9"), cl("char", "str", "i:9"), cl("nth", "i:-1", "list12"), cl("subseq", "str", "i:2", "i:1"), cl("make-array", "i:-1"),
		cl("coerce", "sym", "e:'fixnum"), cl("coerce", "i:1", "e:'c09-nosuch-type"), cl("typep", "i:1", "e:'c09-nosuch-type"), cl("gethash", "i:1", "i:2"),
		q("common-lisp-user::c09-generic", "s:x"), q("common-lisp-user::c09-generic"), q("flavors:send", "finst", "k:nosuch"), q("flavors:send", "i:1", "k:x"),
		cl("format", "nil", "s:~D ~", "i:1"), cl("format", "nil", "s:~A"), cl("list", "i:1", "sym"), cl("type-of", "cond"),
	}
	rd := cl("prin1-to-string", "hash")
	rd.Bind = []string{"*print-readably*", "t"}
	return append(cs, rd)
}

var pkgGridP = h.Prop[Case]{Name: "package-grid", Run: func(c Case) *h.Result {
	res := runCall(c)
	res.NonTrivial = c.Pkg != "common-lisp-user"
	res.Classes = append(res.Classes, "pkg:"+c.Pkg)
	return res
}}

func testPackageGrid(t *testing.T) {
	h.RunProp(t, pkgGridP, 0)
	if !part("pkggrid") || h.C.ReplayIn != "" || h.C.Shard != 0 {
		return
	}
	calls := packageGridCalls()
	var units [][]Case
	for _, p := range gridPackages {
		var cs []Case
		for _, c := range calls {
			c.Pkg = p
			cs = append(cs, c)
		}
		units = append(units, cs)
	}
	h.Note("package-grid: %d packages x %d calls", len(gridPackages), len(calls))
	if drive(t, pkgGridP, units, workersFor()) {
		h.SetExhaustive(pkgGridP.Name)
	}
}
