package c09

import (
	"os"
	"os/exec"
)

type osProc struct {
	cmd  *exec.Cmd
	done chan struct{}
}

func (p *osProc) kill() {
	if p == nil || p.cmd.Process == nil {
		return
	}
	_ = p.cmd.Process.Kill()
	<-p.done
}

func selfBinary() string {
	if b := os.Getenv("VERIF_BIN"); b != "" {
		if _, err := os.Stat(b); err == nil {
			return b
		}
	}
	b, _ := os.Executable()
	return b
}

// spawnWorker re-executes the test binary as a worker: stdin closed (/dev/null), stdout discarded,
// stderr to a file, scratch cwd, requests on fd 3, replies on fd 4.
func spawnWorker(dir, errlog string) (p *osProc, req *os.File, rep *os.File, err error) {
	reqR, reqW, err := os.Pipe()
	if err != nil {
		return
	}
	repR, repW, err := os.Pipe()
	if err != nil {
		return
	}
	ef, err := os.Create(errlog)
	if err != nil {
		return
	}
	cmd := exec.Command(selfBinary(), "-test.run", "^TestWorker$", "-test.timeout", "0")
	cmd.Dir = dir
	cmd.Env = []string{
		"C09_WORKER=1", "HOME=" + dir, "TMPDIR=" + dir, "GOMAXPROCS=2", "PATH=/usr/bin:/bin",
		"GOTRACEBACK=single", "TZ=UTC",
	}
	cmd.Stdin = nil
	cmd.Stdout = nil
	cmd.Stderr = ef
	cmd.ExtraFiles = []*os.File{reqR, repW}
	if err = cmd.Start(); err != nil {
		return
	}
	_ = reqR.Close()
	_ = repW.Close()
	_ = ef.Close()
	p = &osProc{cmd: cmd, done: make(chan struct{})}
	go func() {
		_ = cmd.Wait()
		close(p.done)
	}()
	return p, reqW, repR, nil
}
