package c09

import (
	"encoding/hex"
	"regexp"
	"strconv"
	"strings"
	"testing"
	"unicode/utf8"

	"github.com/ohler55/slip"
	"pgregory.net/rapid"

	"verif/harness/internal/ev"
	"verif/harness/internal/h"
)

// Native fuzz targets. Inside a campaign the call is made in the fuzz worker process itself (execCall with recover):
// fast, and a Go fault is a failing input. Everything the campaign keeps is judged again by the ordinary oracle in a
// worker process (heap limit, heart beats, solo confirmation) in the corpus pass.

func inProcess(call Call) *h.Result {
	r := execCall(slip.NewScope(), call)
	if r.Kind == ev.Fault {
		return h.Fail("%s %s %s => FAULT %s [%s at %s]", call.Op, call.Fn, strings.Join(call.Args, " ")+call.Hex, r.Msg, r.Key, r.Site)
	}
	return &h.Result{}
}

// ---- reader: the bytes are the text

func decodeRead(b []byte) (ReadCase, bool) {
	if len(b) == 0 || len(b) > 160 || slowLongFloat.Match(b) {
		return ReadCase{}, false
	}
	return ReadCase{Texts: [][]byte{b}, Show: []string{strconv.QuoteToASCII(string(b))}}, true
}

var readFuzzP = h.Prop[ReadCase]{Name: "reader-fuzz", Run: runRead}

func FuzzReader(f *testing.F) {
	var seeds [][]byte
	for _, s := range readFragments {
		seeds = append(seeds, []byte(s))
	}
	g := rapid.Custom(genText)
	for i := 1; i <= 60; i++ {
		if b := g.Example(i); len(b) > 0 && len(b) <= 160 {
			seeds = append(seeds, b)
		}
	}
	h.FuzzProp2(f, "c09", readFuzzP, func(c ReadCase) *h.Result {
		return inProcess(Call{Op: "read", Hex: hex.EncodeToString(c.Texts[0])})
	}, decodeRead, seeds)
}

// ---- format: [destination] [number of arguments 0-5] [argument selectors] control string

var (
	fuzzFmtArgs = func() (out []string) {
		out = append(out, "i:0", "i:1", "i:2", "i:5", "i:12", "i:-7", "i:1000", "i:3999", "i:4000", "s:~a", "s:x", "s:", "s:~a~a", "e:0.5d0", "e:123.456d0", "e:1/3", "e:(expt 10 66)", "e:(- (expt 10 20))")
		for _, n := range poolNames() {
			if n != "fix2e62" && n != "big2e64" && n != "fixmax" && n != "fixmin" {
				out = append(out, n)
			}
		}
		return
	}()
	fiveDigits = regexp.MustCompile(`[0-9]{5,}`)
	boundIter  = regexp.MustCompile(`~[0-9]+[:@]*\{`)
)

func decodeFmt(b []byte) (c Case, ok bool) {
	if len(b) < 3 {
		return c, false
	}
	dest := fmtDests[int(b[0])%len(fmtDests)]
	n := int(b[1] % 6)
	b = b[2:]
	if len(b) < n+1 {
		return c, false
	}
	sel, ctl := b[:n], b[n:]
	if len(ctl) > 64 || !utf8.Valid(ctl) || !strings.Contains(string(ctl), "~") {
		return c, false
	}
	s := string(ctl)
	// prefix parameters stay below 10 000 (a larger width only allocates) and every iteration has a repetition
	// limit (an iteration whose body consumes nothing repeats for ever by definition)
	if fiveDigits.MatchString(s) || strings.Count(s, "{") != len(boundIter.FindAllString(s, -1)) {
		return c, false
	}
	c = Case{Fn: "common-lisp:format", Mode: "q", Args: []string{dest, "s:" + s}}
	for _, x := range sel {
		c.Args = append(c.Args, fuzzFmtArgs[int(x)%len(fuzzFmtArgs)])
	}
	return c, true
}

func encodeFmt(c Case) ([]byte, bool) {
	if len(c.Args) < 2 || len(c.Args) > 7 {
		return nil, false
	}
	out := []byte{0, byte(len(c.Args) - 2)}
	for i, d := range fmtDests {
		if d == c.Args[0] {
			out[0] = byte(i)
			break
		}
	}
	for _, a := range c.Args[2:] {
		k := -1
		for i, x := range fuzzFmtArgs {
			if x == a {
				k = i
			}
		}
		if k < 0 {
			return nil, false
		}
		out = append(out, byte(k))
	}
	return append(out, strings.TrimPrefix(c.Args[1], "s:")...), true
}

var fmtFuzzP = h.Prop[Case]{Name: "format-fuzz", Run: runFormat}

func FuzzFormatHost(f *testing.F) {
	var seeds [][]byte
	g := rapid.Custom(genFormat)
	for i := 1; i <= 120; i++ {
		if b, ok := encodeFmt(g.Example(i)); ok {
			if _, ok = decodeFmt(b); ok {
				seeds = append(seeds, b)
			}
		}
	}
	for _, s := range []string{"~a", "~10,3,2,'*:@d", "~:@r ~@r ~:r", "~3{~a~^, ~}", "~[a~;b~:;c~]", "~@(~a~)", "~10<a~;b~>", "~v,vd", "~#[~;~a~]", "~?", "~@?", "~5,2f ~e ~g ~$", "~10t|~:t", "~2*~-1*~:*~a", "~p ~:p ~@p"} {
		seeds = append(seeds, append([]byte{0, 2, 1, 9}, s...))
	}
	h.FuzzProp2(f, "c09", fmtFuzzP, func(c Case) *h.Result {
		return inProcess(Call{Fn: c.Fn, Mode: c.Mode, Args: c.Args})
	}, decodeFmt, seeds)
}
