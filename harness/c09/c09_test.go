package c09

import (
	"encoding/json"
	"fmt"
	"os"
	"strconv"
	"strings"
	"sync"
	"sync/atomic"
	"testing"

	"pgregory.net/rapid"

	"verif/harness/internal/ev"
	"verif/harness/internal/h"
)

func TestMain(m *testing.M) {
	if os.Getenv("C09_WORKER") != "" {
		workerMain()
		os.Exit(0)
	}
	loadPatterns()
	h.Main(m, "C09")
}

// TestWorker exists so that the worker invocation has a test to select; the work is done in TestMain.
func TestWorker(t *testing.T) {}

// Case is one call: a function, the way the arguments are put into the form, and the argument
// descriptors (pool names or literals s:/i:/c:).
type Case struct {
	Fn   string   `json:"fn"`
	Mode string   `json:"mode"`
	Args []string `json:"args"`
	// Bind: special variables rebound by a let around the call: name, value descriptor, name, ...
	Bind []string `json:"bind,omitempty"`
	// Pkg: the call is evaluated with this package as the current one (in-package before, common-lisp-user after)
	Pkg string `json:"pkg,omitempty"`
}

func (c Case) String() string {
	m := ""
	if c.Mode == "r" {
		m = " [raw forms]"
	}
	if len(c.Bind) > 0 {
		m += " [let " + strings.Join(c.Bind, " ") + "]"
	}
	if c.Pkg != "" {
		m += " [in-package " + c.Pkg + "]"
	}
	return "(" + c.Fn + " " + strings.Join(c.Args, " ") + ")" + m
}

func (c Case) key() string {
	return c.Fn + "\x00" + c.Mode + "\x00" + strings.Join(c.Args, "\x00") + "\x01" + strings.Join(c.Bind, "\x00") + "\x01" + c.Pkg
}

func (c Case) call() Call {
	return Call{Fn: c.Fn, Mode: c.Mode, Args: c.Args, Bind: c.Bind, Pkg: c.Pkg}
}

// ---------------------------------------------------------------------------------------------
// Results obtained in batches are handed to Run through this table; a case that is not in it (a
// witness, a replay, a rapid draw) is executed alone in a fresh worker.

type cached struct {
	res     Res
	verdict string // vOK or why the worker stopped at this call
	info    string
}

var (
	cacheMu sync.Mutex
	cache   = map[string]cached{}
)

func putCache(c Case, v cached) {
	cacheMu.Lock()
	cache[c.key()] = v
	cacheMu.Unlock()
}

func takeCache(c Case) (v cached, ok bool) {
	cacheMu.Lock()
	v, ok = cache[c.key()]
	if ok {
		delete(cache, c.key())
	}
	cacheMu.Unlock()
	return
}

const (
	batchBeats = 10 // heart beats (about seconds of scheduled worker time) before a batched call is suspect
	soloBeats  = 60 // the same for the confirmation run of a single call in a fresh worker
)

var (
	soloRuns         atomic.Int64
	pollutedRestarts atomic.Int64
	inconclusive     atomic.Int64
	noSolo           = os.Getenv("C09_NOSOLO") != "" // triage aid: report recovered faults without the confirmation run
)

// solo runs one call alone in a fresh worker with the generous deadline.
func solo(call Call) cached {
	soloRuns.Add(1)
	for attempt := 0; ; attempt++ {
		cl, err := startClient()
		if err != nil {
			return cached{verdict: vStarved, info: "cannot start worker: " + err.Error()}
		}
		results, _, verdict, info := cl.run([]Call{call}, soloBeats)
		cl.stop()
		if verdict == vOK && len(results) == 1 {
			return cached{res: results[0], verdict: vOK}
		}
		if verdict == vStarved && attempt < 1 {
			continue
		}
		return cached{verdict: verdict, info: info}
	}
}

// judge turns an outcome into the result of the oracle. batch tells that the outcome comes from a
// worker shared with other calls, so anything suspicious is confirmed alone first.
func judge(c Case, v cached, batch bool, res *h.Result) {
	v = judgeCall(c.String(), c.call(), v, batch, res)
	triage(c, res, v)
}

// judgeCall is judge for any kind of call; desc describes it in messages. It returns the outcome used.
func judgeCall(c string, call Call, v cached, batch bool, res *h.Result) cached {
	if batch && (v.verdict != vOK || (v.res.Kind == ev.Fault && !noSolo)) {
		first := v
		v = solo(call)
		if v.verdict == vOK && v.res.Kind != ev.Fault {
			// not reproduced alone: load or pollution by earlier calls of the shared worker
			res.Classes = append(res.Classes, "not-reproduced-alone")
			if first.verdict == vOK {
				h.Note("fault only in a shared worker, not alone: %s => %s [%s]", c, first.res.Msg, first.res.Key)
			}
		}
	}
	switch v.verdict {
	case vOK:
	case vTimeout:
		res.Err = fmt.Sprintf("%s: no answer within %d heart beats of a fresh worker (hang)", c, soloBeats)
		return v
	case vDied:
		res.Err = fmt.Sprintf("%s: the host process died: %s", c, firstLines(v.info, 3))
		return v
	case vMemory:
		res.Err = fmt.Sprintf("%s: heap grew beyond %d MiB (%s)", c, heapLimit>>20, v.info)
		return v
	default:
		inconclusive.Add(1)
		res.Classes = append(res.Classes, "inconclusive-starved")
		h.Note("inconclusive (worker not scheduled): %s %s", c, v.info)
		return v
	}
	r := v.res
	res.Classes = append(res.Classes, "outcome:"+r.Kind)
	switch r.Kind {
	case ev.Fault:
		res.Err = fmt.Sprintf("%s => FAULT %s [root cause %s at %s, raised by %s]", c, r.Msg, r.Key, r.Site, r.Orig)
	case ev.Condition:
		res.Classes = append(res.Classes, "condition:"+r.Class)
	}
	return v
}

// triage aid (development only): with C09_TRIAGE=<file> every failing call is appended to the file as a
// JSON line and the search goes on.
var (
	triagePath = os.Getenv("C09_TRIAGE")
	triageMu   sync.Mutex
)

func triage(c Case, res *h.Result, v cached) {
	if triagePath == "" || res.Err == "" {
		return
	}
	triageMu.Lock()
	defer triageMu.Unlock()
	f, err := os.OpenFile(triagePath, os.O_APPEND|os.O_CREATE|os.O_WRONLY, 0o644)
	if err != nil {
		return
	}
	b, _ := json.Marshal(map[string]any{"fn": c.Fn, "mode": c.Mode, "args": c.Args, "verdict": v.verdict, "info": clip(v.info, 300),
		"msg": v.res.Msg, "key": v.res.Key, "site": v.res.Site, "orig": v.res.Orig})
	_, _ = f.Write(append(b, '\n'))
	_ = f.Close()
	res.Err = ""
	res.Classes = append(res.Classes, "triage-fault")
}

func firstLines(s string, n int) string {
	lines := strings.Split(s, "\n")
	if len(lines) > n {
		lines = lines[:n]
	}
	return strings.Join(lines, " | ")
}

func pkgOf(fn string) string {
	if i := strings.IndexByte(fn, ':'); i > 0 {
		return fn[:i]
	}
	return ""
}

func runCall(c Case) *h.Result {
	res := &h.Result{NonTrivial: outsideDoc(c.Fn, c.Args), Classes: []string{"pkg:" + pkgOf(c.Fn), "arity:" + strconv.Itoa(len(c.Args))}}
	if notDriven(c) {
		// deny list or endless by definition: never executed (the enumerations and generators leave these out)
		res.NonTrivial = false
		res.Classes = []string{"not-driven"}
		return res
	}
	if tag := excludedBy(c); tag != "" {
		res.Skip = tag
		return res
	}
	if v, ok := takeCache(c); ok {
		judge(c, v, true, res)
	} else {
		judge(c, solo(c.call()), false, res)
	}
	return res
}

// ---------------------------------------------------------------------------------------------
// Batch execution with restart after a worker stopped answering.

type runner struct {
	cl *client
}

func (r *runner) close() {
	r.cl.stop()
	r.cl = nil
}

// exec runs the cases in a shared worker and puts every outcome into the cache.
func (r *runner) exec(cases []Case) {
	calls := make([]Call, len(cases))
	for i, c := range cases {
		calls[i] = c.call()
	}
	for i, v := range r.run(calls) {
		putCache(cases[i], v)
	}
}

// run executes the calls in a shared worker, restarting it after a call that stopped it, and returns one
// outcome per call.
func (r *runner) run(calls []Call) []cached {
	const chunk = 256
	out := make([]cached, len(calls))
	retried := -1
	for start := 0; start < len(calls); {
		end := start + chunk
		if end > len(calls) {
			end = len(calls)
		}
		if r.cl == nil || r.cl.calls > 4000 {
			r.cl.stop()
			cl, err := startClient()
			if err != nil {
				for i := start; i < len(calls); i++ {
					out[i] = cached{verdict: vStarved, info: err.Error()}
				}
				r.cl = nil
				return out
			}
			r.cl = cl
		}
		results, suspect, verdict, info := r.cl.run(calls[start:end], batchBeats)
		// a failure of the harness's own set-up forms means an earlier call damaged the interpreter of this
		// worker (e.g. unexported lambda): go on in a fresh worker, starting with that call
		for i, rs := range results {
			if rs.Orig == "harness" && !(i == 0 && retried == start) {
				results, suspect, verdict = results[:i], -2, "polluted"
				retried = start + i
				break
			}
		}
		for i, rs := range results {
			out[start+i] = cached{res: rs, verdict: vOK}
		}
		if verdict == vOK {
			start = end
			continue
		}
		// the worker stopped at call `suspect`: remember why, restart, go on after it
		r.close()
		if suspect == -2 {
			start += len(results)
			pollutedRestarts.Add(1)
			continue
		}
		if suspect < 0 || suspect >= end-start {
			suspect = len(results)
		}
		if suspect < end-start {
			out[start+suspect] = cached{verdict: verdict, info: info}
		}
		start = start + suspect + 1
	}
	return out
}

func maxViol() int {
	n, _ := strconv.Atoi(os.Getenv("VERIF_MAXVIOL"))
	if n < 1 {
		n = 3
	}
	return n
}

// drive executes units of cases on `workers` shared workers in parallel and runs every case through
// the oracle. It returns false when it stopped early.
func drive(t *testing.T, p h.Prop[Case], units [][]Case, workers int) bool {
	var (
		next  atomic.Int64
		viol  atomic.Int64
		wg    sync.WaitGroup
		limit = int64(maxViol())
	)
	for w := 0; w < workers; w++ {
		wg.Add(1)
		go func() {
			defer wg.Done()
			r := &runner{}
			defer r.close()
			for {
				i := int(next.Add(1) - 1)
				if i >= len(units) || viol.Load() >= limit {
					return
				}
				var live []Case
				for _, c := range units[i] {
					if excludedBy(c) == "" {
						live = append(live, c)
					}
				}
				r.exec(live)
				for _, c := range units[i] {
					if !h.One(t, p, c) {
						if viol.Add(1) >= limit {
							return
						}
					}
				}
			}
		}()
	}
	wg.Wait()
	return viol.Load() < limit
}

// ---------------------------------------------------------------------------------------------

var (
	call0  = h.Prop[Case]{Name: "call-0", Run: runCall}
	call1  = h.Prop[Case]{Name: "call-1", Run: runCall}
	call1p = h.Prop[Case]{Name: "call-1-in-package", Run: runCall}
	call2  = h.Prop[Case]{Name: "call-2", Run: runCall}
	calln  = h.Prop[Case]{Name: "call-n", Run: runCall}
	fmtP   = h.Prop[Case]{Name: "format", Run: runCall}
)

func modesOf(f FuncEntry) []string {
	if f.Macro {
		return []string{"q", "r"}
	}
	return []string{"q"}
}

// part tells whether a part of the check is selected (development aid: C09_PARTS=reader,c0,c1,c2,cn,format).
func part(name string) bool {
	sel := os.Getenv("C09_PARTS")
	if sel == "" {
		return true
	}
	for _, p := range strings.Split(sel, ",") {
		if p == name {
			return true
		}
	}
	return false
}

func workersFor() int {
	if n, err := strconv.Atoi(os.Getenv("C09_WORKERS")); err == nil && n > 0 {
		return n
	}
	if h.C.NShards > 1 {
		return 1
	}
	return 6
}

// rapidRunner is the shared worker used by the rapid searches (rapid is sequential).
var rapidRunner = &runner{}

func runViaShared(c Case) *h.Result {
	if !notDriven(c) && excludedBy(c) == "" {
		rapidRunner.exec([]Case{c})
	}
	return runCall(c)
}

func TestC09(t *testing.T) {
	h.Rule("(reader) batches of 1-16 byte strings, each either bytes biased to syntax bytes or 1-12 fragments of Lisp text (numbers in every radix form, #nA #n( #* #\\ #| #. #+ #: #n= #c #p, strings, |symbols|, quotes, commas, dots, broken UTF-8) with 0-3 byte mutations, read by slip.ReadString in a worker process; a batch is non-trivial when a text contains a syntax byte ( ) \" # ' ` , | ; \\ ; " +
		"(call-0/1/2/n) every exported function of every package x tuples over a fixed pool of 58 representative objects (incl. the multi-byte strings λ, aλ, 日本語, the indexes 2 3 4 8, most-positive/negative-fixnum, vectors whose fill pointer exceeds their length, a grown-and-shrunk array, bit-vectors made by coerce, make-array and the reader) built afresh for every call: " +
		"0-, 1- and 2-tuples enumerated (2-tuples: a 1/16 slice in quick, all in thorough), 3- to 5-tuples drawn by rapid; macros also with the raw (unquoted) objects as forms; " +
		"each call is evaluated as a form (FuncInfo.Create + Eval) in a worker process with stdin closed and a scratch cwd; non-trivial when some argument is outside the documented parameter type or beyond the documented parameters; distinct by (function, mode, argument tuple); " +
		"(bounds-grid) every function that documents a start/end/index/n/count/size/position/offset/radix parameter, called with arguments of the documented types: one sequence-like parameter varied over its value set (strings \"\" abc λ aλ 日本語 λλa, lists, vectors, bit-vector, octets) x the product of up to two bound parameters over -1 0 1 2 3 4 8 nil (so reversed, negative, beyond-the-end and between-character-count-and-byte-length bounds), exhaustive, non-trivial when a bound other than 0/nil is present; " +
		"(bounds-grid also: every function without bound parameters but with two sequence-like required parameters x all pairs of their value sets, e.g. the bit-* functions x 20 bit-vectors of lengths 0 4 8 9 made by the reader, coerce, make-array adjustable and not); " +
		"(printer-grid) exhaustive: 17 printer variables x 26 values (nil t small large negative wrong-typed) bound by let around 28 format calls and 8 printer functions on 30 objects; (printer) rapid: one or two such bindings around a generated format call or a printer function; " +
		"(package-grid) exhaustive: 60 calls that end in a condition of every standard class (type-error, undefined-function, unbound-variable, division-by-zero, program-error, parse-error, end-of-file, package-error, file-error, class-not-found, unbound-slot, no-applicable-method, print-not-readable, simple-error, warning ..) or a value x 16 current packages (one that uses only common-lisp, one that uses nothing, every package slip defines): the condition must be made whatever the current package sees; " +
		"(call-1-in-package) the 0- and 1-tuples with the objects as arguments once more under another current package (uses only common-lisp / uses nothing / keyword, by function, argument and seed); " +
		"(call-typed) rapid: any function with every documented parameter drawn from the value set of its documented type (1/10 from the pool instead), optional and keyword parameters given or not; " +
		"(format) control strings over the directive alphabet incl. unbalanced and hostile ones (prefix parameters <= 10000, every ~{ with a repetition limit) x pool arguments, non-trivial with >= 1 directive that has a prefix parameter. " +
		"Oracle: the outcome is a value, a partial read, or a condition of a registered class; it is a fault when the panic is a Go runtime error (nil dereference, index, slice bounds, type assertion, unhashable key, nil map, closed channel, makeslice, divide), a Go value that is not a Lisp object, an argument check of a library below slip, " +
		"the death of the worker, heap growth beyond 1 GiB, or no answer within 60 heart beats of a fresh solo worker.")
	h.Assume("the Go stack taken in the outermost recover still shows the frames of the original panic (recovered and re-raised panics stay on the stack)")
	h.Assume("functions on the committed deny list (terminate, block by design, terminal, servers/sockets/programs, environment, interpreter globals) are not driven")
	h.Assume("a fault seen in a shared worker counts only when the same single call faults alone in a fresh worker")

	all, perPkg := allFunctions()
	nd := 0
	var fns []FuncEntry
	for _, f := range all {
		if _, d := denyList[f.Name]; d {
			nd++
			continue
		}
		fns = append(fns, f)
	}
	h.Note("functions: %d exported in %d packages %v; %d on the deny list (not driven); pool of %d objects", len(all), len(perPkg), perPkg, nd, len(pool))

	if part("reader") {
		testReader(t)
	}
	testCalls(t, fns)
	testTyped(t, fns)
	testPrinter(t)
	testPackageGrid(t)
	if part("format") {
		testFormat(t)
	}
	rapidRunner.close()
	readRunner.close()
	h.Note("solo confirmation runs: %d; inconclusive (starved) calls: %d; worker restarts after interpreter damage: %d", soloRuns.Load(), inconclusive.Load(), pollutedRestarts.Load())
}

func testCalls(t *testing.T, fns []FuncEntry) {
	names := poolNames()
	// witnesses (and replay) first
	h.RunProp(t, call0, 0)
	h.RunProp(t, call1, 0)
	h.RunProp(t, call1p, 0)
	h.RunProp(t, call2, 0)
	calln.Run = runViaShared
	h.RunProp(t, calln, 0)
	calln.Gen = func(rt *rapid.T) Case {
		f := fns[rapid.IntRange(0, len(fns)-1).Draw(rt, "fn")]
		c := Case{Fn: f.Name, Mode: "q"}
		if f.Macro && rapid.Bool().Draw(rt, "raw") {
			c.Mode = "r"
		}
		n := rapid.IntRange(3, 5).Draw(rt, "n")
		for i := 0; i < n; i++ {
			c.Args = append(c.Args, names[rapid.IntRange(0, len(names)-1).Draw(rt, "a")])
		}
		if endlessByDefinition(c) {
			c.Args[1] = "fix1" // a true end test
		}
		return c
	}
	calln.Run = runViaShared
	if h.C.ReplayIn != "" {
		calln.Run = runCall
		h.RunProp(t, calln, 0)
		return
	}
	sh, nsh := h.C.Shard, h.C.NShards

	// 0- and 1-tuples: split over the shards by function
	var u0, u1 [][]Case
	for i, f := range fns {
		if i%nsh != sh {
			continue
		}
		var c0, c1 []Case
		for _, m := range modesOf(f) {
			if m == "q" {
				c0 = append(c0, Case{Fn: f.Name, Mode: m, Args: []string{}})
			}
			for _, a := range names {
				c1 = append(c1, Case{Fn: f.Name, Mode: m, Args: []string{a}})
			}
		}
		u0 = append(u0, c0)
		u1 = append(u1, c1)
	}
	if part("c0") && drive(t, call0, u0, workersFor()) {
		h.SetExhaustive(call0.Name)
	}
	if part("c1") && drive(t, call1, u1, workersFor()) {
		h.SetExhaustive(call1.Name)
	}
	// the same 0- and 1-tuples (objects as arguments) once more while another package is the current one: one that uses
	// only common-lisp, one that uses nothing, or keyword, by (function, argument, seed)
	if part("c1p") {
		var u1p [][]Case
		for ui, cs := range u1 {
			var cp []Case
			for ci, c := range cs {
				if c.Mode != "q" {
					continue
				}
				c.Pkg = gridPackages[(ui+ci+int(h.C.Seed))%3]
				cp = append(cp, c)
			}
			for ci, c := range u0[ui] {
				c.Pkg = gridPackages[(ui+ci+1+int(h.C.Seed))%3]
				cp = append(cp, c)
			}
			u1p = append(u1p, cp)
		}
		drive(t, call1p, u1p, workersFor())
	}

	// 2-tuples: unit = (function, mode, first argument); thorough: all units split over the shards;
	// quick: the pairs with (function + first + second) = seed modulo 16
	var u2 [][]Case
	slice := int(h.C.Seed % 16)
	unit := 0
	for fi, f := range fns {
		for _, m := range modesOf(f) {
			var quickUnit []Case
			for ai, a := range names {
				unit++
				if h.Thorough() && unit%nsh != sh {
					continue
				}
				var cs []Case
				for bi, b := range names {
					if !h.Thorough() && (fi+ai+bi)%16 != slice {
						continue
					}
					if c := (Case{Fn: f.Name, Mode: m, Args: []string{a, b}}); !endlessByDefinition(c) {
						cs = append(cs, c)
					}
				}
				if h.Thorough() {
					u2 = append(u2, cs)
				} else {
					quickUnit = append(quickUnit, cs...)
				}
			}
			if len(quickUnit) > 0 {
				u2 = append(u2, quickUnit)
			}
		}
	}
	if part("c2") && drive(t, call2, u2, workersFor()) && h.Thorough() {
		h.SetExhaustive(call2.Name)
	}
	if part("cn") {
		h.RunProp(t, calln, h.N(15000, 250000))
	}
}
