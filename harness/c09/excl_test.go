package c09

import (
	"encoding/json"
	"os"
	"path/filepath"
	"sort"
	"strings"
	"sync"

	"github.com/ohler55/slip"

	"verif/harness/internal/h"
)

// ---------------------------------------------------------------------------------------------
// Exclusions of open findings. The exclusion tag of a C09 call finding IS the predicate:
//
//	<pkg:function>[+<pkg:function>...](<alt>;<alt>;...)       alt  = spec,spec,...   one spec per argument position
//	spec = *  |  name|name|...  |  !name|name|...  |  ...  (last position only: any further arguments)
//
// where a name is the name of a pool entry (the argument "type"), or s / i / c / k / e for a literal
// string / integer / character / keyword / evaluated-source argument, or an exact literal descriptor such as
// i:-1 or k:start. A case is excluded when the function is the same and one alternative
// matches its argument tuple. This is a predicate over the case, never over the outcome.

type pattern struct {
	tag  string
	fn   string
	alts [][]spec
}

type spec struct {
	any   bool
	rest  bool
	neg   bool
	names map[string]bool
}

func parsePattern(tag string) (p pattern, ok bool) {
	i := strings.IndexByte(tag, '(')
	if i <= 0 || !strings.HasSuffix(tag, ")") {
		return p, false
	}
	p.tag = tag
	p.fn = tag[:i]
	for _, alt := range strings.Split(tag[i+1:len(tag)-1], ";") {
		var specs []spec
		if alt != "" {
			for _, s := range strings.Split(alt, ",") {
				var sp spec
				switch {
				case s == "*":
					sp.any = true
				case s == "...":
					sp.rest = true
				default:
					if strings.HasPrefix(s, "!") {
						sp.neg = true
						s = s[1:]
					}
					sp.names = map[string]bool{}
					for _, n := range strings.Split(s, "|") {
						sp.names[n] = true
					}
				}
				specs = append(specs, sp)
			}
		}
		p.alts = append(p.alts, specs)
	}
	return p, true
}

// argType maps an argument descriptor to its type name: pool name, or s/i/c for literals.
func argType(d string) string {
	if len(d) > 1 && d[1] == ':' {
		return d[:1]
	}
	return d
}

func (p pattern) matches(args []string) bool {
alts:
	for _, specs := range p.alts {
		n := len(specs)
		rest := n > 0 && specs[n-1].rest
		if rest {
			n--
			if len(args) < n {
				continue
			}
		} else if len(args) != n {
			continue
		}
		for i := 0; i < n; i++ {
			sp := specs[i]
			if sp.any {
				continue
			}
			if (sp.names[argType(args[i])] || sp.names[args[i]]) == sp.neg {
				continue alts
			}
		}
		return true
	}
	return false
}

var patternsByFn = map[string][]pattern{}

// loadPatterns reads the exclusion tags of the C09 findings (h keeps them private).
func loadPatterns() {
	main := os.Getenv("VERIF_FINDINGS")
	if main == "" {
		main = "/verif/known_findings.json"
	}
	files := []string{main}
	more, _ := filepath.Glob(filepath.Join(filepath.Dir(main), "known_findings.d", "*.json"))
	sort.Strings(more)
	files = append(files, more...)
	for _, f := range files {
		b, err := os.ReadFile(f)
		if err != nil {
			continue
		}
		var all []h.Finding
		if json.Unmarshal(b, &all) != nil {
			continue
		}
		for _, fd := range all {
			if fd.Property != "C09" || fd.Status != "open" || fd.Exclusion == "" {
				continue
			}
			if p, ok := parsePattern(fd.Exclusion); ok {
				for _, fn := range strings.Split(p.fn, "+") {
					patternsByFn[fn] = append(patternsByFn[fn], p)
				}
			}
		}
	}
}

// excludedBy returns the tag of an active exclusion that covers the case, or "".
func excludedBy(c Case) string {
	for _, p := range patternsByFn[c.Fn] {
		if p.matches(c.Args) && h.ExclOn(p.tag) {
			return p.tag
		}
	}
	return ""
}

// ---------------------------------------------------------------------------------------------
// Documented argument types, for the non-triviality rule ("at least one argument outside the
// documented type").

var typeMembers = map[string][]string{
	"list":                 {"nil", "list12", "dotted", "nested", "alist", "lamx"},
	"cons":                 {"list12", "dotted", "nested", "alist", "lamx"},
	"association list":     {"nil", "alist"},
	"property list":        {"nil", "list12"},
	"fixnum":               {"fix0", "fix1", "fixm1", "fix2", "fix3", "fix4", "fix8", "fix2e62", "fixmax", "fixmin"},
	"integer":              {"fix0", "fix1", "fixm1", "fix2", "fix3", "fix4", "fix8", "fix2e62", "big2e64", "fixmax", "fixmin"},
	"rational":             {"fix0", "fix1", "fixm1", "fix2", "fix3", "fix4", "fix8", "fix2e62", "big2e64", "ratio", "fixmax", "fixmin"},
	"real":                 {"fix0", "fix1", "fixm1", "fix2", "fix3", "fix4", "fix8", "fix2e62", "big2e64", "ratio", "dbl", "sgl", "fixmax", "fixmin"},
	"number":               {"fix0", "fix1", "fixm1", "fix2", "fix3", "fix4", "fix8", "fix2e62", "big2e64", "ratio", "dbl", "sgl", "fixmax", "fixmin"},
	"float":                {"dbl", "sgl"},
	"octet":                {"fix0", "fix1", "fix2", "fix3", "fix4", "fix8"},
	"string":               {"str0", "str", "strl", "stral", "strj"},
	"character":            {"chr"},
	"symbol":               {"nil", "t", "sym", "fsym", "kwend", "kwkey"},
	"keyword":              {"kwend", "kwkey"},
	"nil":                  {"nil"},
	"sequence":             {"nil", "list12", "nested", "alist", "lamx", "vec0", "vec12", "bitv", "octets", "fpvec", "str0", "str", "strl", "stral", "strj", "fpover", "fpshrunk", "adjarr", "bvcoerce4", "bvfixed8", "bvread9", "bv0", "octets0"},
	"sequemce":             {"nil", "list12", "nested", "alist", "lamx", "vec0", "vec12", "bitv", "octets", "fpvec", "str0", "str", "strl", "stral", "strj", "fpover", "fpshrunk", "adjarr", "bvcoerce4", "bvfixed8", "bvread9", "bv0", "octets0"},
	"vector":               {"vec0", "vec12", "bitv", "octets", "fpvec", "str0", "str", "strl", "stral", "strj", "fpover", "fpshrunk", "adjarr", "bvcoerce4", "bvfixed8", "bvread9", "bv0", "octets0"},
	"simple-vector":        {"vec0", "vec12", "adjarr"},
	"array":                {"vec0", "vec12", "bitv", "octets", "fpvec", "str0", "str", "strl", "stral", "strj", "arr2d", "fpover", "fpshrunk", "adjarr", "bvcoerce4", "bvfixed8", "bvread9", "bv0", "octets0"},
	"bit-array":            {"bitv", "bvcoerce4", "bvfixed8", "bvread9", "bv0"},
	"simple-bit-array":     {"bitv", "bvcoerce4", "bvfixed8", "bvread9", "bv0"},
	"octets":               {"octets", "octets0"},
	"hash-table":           {"hash"},
	"package":              {"pkg"},
	"package designator":   {"pkg", "str", "str0", "strl", "stral", "strj", "sym", "fsym", "kwend", "kwkey", "chr", "nil", "t"},
	"stream":               {"sin0", "sin", "sout"},
	"input-stream":         {"sin0", "sin"},
	"output-stream":        {"sout"},
	"string-output-stream": {"sout"},
	"function":             {"lam1", "fcar"},
	"lambda":               {"lam1", "lamx"},
	"function-designator":  {"lam1", "fcar", "fsym"},
	"instance":             {"finst", "cinst", "cond", "bag"},
	"standard-object":      {"cinst"},
	"flavor":               {"flavor"},
	"class":                {"class", "flavor"},
	"simple-condition":     {"cond"},
	"bag":                  {"bag"},
	"channel":              {"chan"},
	"time":                 {"time"},
	// types no pool object belongs to
	"socket": {}, "mutex": {}, "uuid": {}, "random-state": {}, "method": {}, "generic-function": {},
	"file-stream": {}, "broadcast-stream": {}, "concatenated-stream": {}, "echo-stream": {}, "synonym-stream": {},
	"two-way-stream": {}, "arithmetic-error": {}, "cell-error": {}, "file-error": {}, "package-error": {},
	"stream-error": {}, "type-error": {}, "unbound-slot": {}, "print-not-readable": {}, "invalid-method-error": {},
	"bag-path": {},
}

// conforms: does the pool entry belong to the documented type? unknown = true when the type text is
// not understood (then nothing is claimed).
func conforms(docType, name string) (ok, known bool) {
	docType = strings.ReplaceAll(docType, " or ", "|")
	alts := strings.Split(docType, "|")
	if len(alts) == 1 && (alts[0] == "t" || alts[0] == "") {
		return true, false
	}
	for _, a := range alts {
		a = strings.TrimSpace(a)
		if a == "t" {
			if name == "t" {
				return true, true
			}
			continue
		}
		members, has := typeMembers[a]
		if !has {
			return true, false
		}
		for _, m := range members {
			if m == name {
				return true, true
			}
		}
	}
	return false, true
}

type docInfo struct {
	positional []string // documented type per positional parameter (required and optional)
	restType   string
	open       bool // has &rest / &key / &body: any number of arguments is documented
	has        bool
}

var (
	docCache = map[string]*docInfo{}
	docMu    sync.Mutex
)

func docOf(fn string) *docInfo {
	docMu.Lock()
	defer docMu.Unlock()
	if d, ok := docCache[fn]; ok {
		return d
	}
	d := &docInfo{}
	docCache[fn] = d
	fi := slip.FindFunc(fn)
	if fi == nil || fi.Doc == nil {
		return d
	}
	d.has = true
	for i, a := range fi.Doc.Args {
		if strings.HasPrefix(a.Name, "&") {
			switch a.Name {
			case "&optional":
				continue
			case "&rest", "&body":
				d.open = true
				if i+1 < len(fi.Doc.Args) {
					d.restType = fi.Doc.Args[i+1].Type
				}
			default:
				d.open = true
			}
			break
		}
		d.positional = append(d.positional, a.Type)
	}
	return d
}

// outsideDoc: is some argument of the tuple outside the documented type (or beyond the documented
// parameters)?
func outsideDoc(fn string, args []string) bool {
	d := docOf(fn)
	if !d.has {
		return false
	}
	for i, a := range args {
		var ty string
		switch {
		case i < len(d.positional):
			ty = d.positional[i]
		case d.open:
			ty = d.restType
		default:
			return true
		}
		if ok, known := conforms(ty, argType(a)); known && !ok {
			return true
		}
	}
	return false
}
