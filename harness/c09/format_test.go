package c09

import (
	"strconv"
	"strings"
	"testing"

	"pgregory.net/rapid"

	"verif/harness/internal/h"
)

// format: control strings over the directive alphabet x argument lists from the pool. The case is an
// ordinary call case: (format <dest> "s:<control>" args...).

var (
	fmtDirectives = []string{"a", "s", "d", "b", "o", "x", "r", "c", "f", "e", "g", "$", "%", "&", "|", "~", "\n", "t", "*", "?", "_", "w", "i", "p", "^",
		"A", "S", "D", "R", "C", "F", "E", "G", "T", "P", "W", "I", "/car/", "/nope/", "/", "q", "!", "1", ""}
	fmtOpen   = []string{"(", "[", "{", "<"}
	fmtClose  = map[string]string{"(": ")", "[": "]", "{": "}", "<": ">"}
	fmtParams = []string{"", "0", "1", "2", "3", "10", "36", "37", "100", "10000", "-1", "-10", "+5", "v", "V", "#", "'x", "',", "'", "1,2", ",", ",,", ",,,'*", "0,0", "1,1,1,1,1", "v,v", "#,#", "2,,,'0", ",2", ",0", ",1", "5,2", "10,3,,'*", "8,3,2", ",,2"}
	// every iteration directive gets a numeric repetition limit: an iteration whose body consumes no
	// argument repeats for ever by definition, which is not a hang
	fmtIterLimits = []string{"0", "1", "2", "3", "10"}
	fmtMods       = []string{"", "", ":", "@", ":@", "@:", "::", "@@"}
	fmtText       = []string{"", "x", " ", "abc", "~", "\n", ";", "}", "é", "\x00"}
)

func genDirective(rt *rapid.T, sb *strings.Builder, depth int, params *int) {
	p := fmtParams[rapid.IntRange(0, len(fmtParams)-1).Draw(rt, "param")]
	if p != "" {
		*params++
	}
	m := fmtMods[rapid.IntRange(0, len(fmtMods)-1).Draw(rt, "mod")]
	k := rapid.IntRange(0, 9).Draw(rt, "dk")
	if k < 3 && depth < 3 {
		op := fmtOpen[rapid.IntRange(0, len(fmtOpen)-1).Draw(rt, "open")]
		if op == "{" {
			p = fmtIterLimits[rapid.IntRange(0, len(fmtIterLimits)-1).Draw(rt, "limit")]
		}
		sb.WriteString("~" + p + m + op)
		n := rapid.IntRange(0, 3).Draw(rt, "inner")
		for i := 0; i < n; i++ {
			genPiece(rt, sb, depth+1, params)
			if (op == "[" || op == "<") && rapid.IntRange(0, 2).Draw(rt, "sep") == 0 {
				sb.WriteString("~" + fmtMods[rapid.IntRange(0, len(fmtMods)-1).Draw(rt, "smod")] + ";")
			}
		}
		switch rapid.IntRange(0, 7).Draw(rt, "close") {
		case 0: // unbalanced: no close
		case 1: // wrong close
			sb.WriteString("~" + fmtClose[fmtOpen[rapid.IntRange(0, len(fmtOpen)-1).Draw(rt, "wclose")]])
		default:
			sb.WriteString("~" + fmtMods[rapid.IntRange(0, len(fmtMods)-1).Draw(rt, "cmod")] + fmtClose[op])
		}
		return
	}
	if k == 3 { // stray closer or separator
		sb.WriteString("~" + p + m + []string{")", "]", "}", ">", ";"}[rapid.IntRange(0, 4).Draw(rt, "stray")])
		return
	}
	sb.WriteString("~" + p + m + fmtDirectives[rapid.IntRange(0, len(fmtDirectives)-1).Draw(rt, "dir")])
}

func genPiece(rt *rapid.T, sb *strings.Builder, depth int, params *int) {
	if rapid.IntRange(0, 3).Draw(rt, "text") == 0 {
		sb.WriteString(fmtText[rapid.IntRange(0, len(fmtText)-1).Draw(rt, "txt")])
		return
	}
	genDirective(rt, sb, depth, params)
}

var fmtDests = []string{"nil", "nil", "nil", "sout", "t", "fpvec", "str", "fix1"}

func genFormat(rt *rapid.T) Case {
	var sb strings.Builder
	params := 0
	n := rapid.IntRange(1, 5).Draw(rt, "pieces")
	for i := 0; i < n; i++ {
		genPiece(rt, &sb, 0, &params)
	}
	names := poolNames()
	c := Case{Fn: "common-lisp:format", Mode: "q"}
	c.Args = append(c.Args, fmtDests[rapid.IntRange(0, len(fmtDests)-1).Draw(rt, "dest")], "s:"+sb.String())
	na := rapid.IntRange(0, 5).Draw(rt, "nargs")
	for i := 0; i < na; i++ {
		switch rapid.IntRange(0, 5).Draw(rt, "argkind") {
		case 2:
			c.Args = append(c.Args, "e:"+rapid.SampledFrom([]string{"0.0001d0", "0.5d0", "1.0d10", "1.0d-10", "123.456d0", "-0.001d0", "1.0d21", "1.0e-7", "0.0d0", "99.995d0", "1/3", "-1.5s0", "9.999d0"}).Draw(rt, "float"))
		case 0:
			if rapid.IntRange(0, 3).Draw(rt, "bigint") == 0 && !hasV(sb.String()) {
				// around the limits of the spelled and roman renderings (10^66, 3999) and of the machine word
				c.Args = append(c.Args, "e:"+rapid.SampledFrom(fmtBigInts).Draw(rt, "big"))
			} else {
				c.Args = append(c.Args, "i:"+strconv.Itoa(rapid.SampledFrom([]int{0, 1, 2, 5, 12, 1000, -7, 10000, 3999, 4000, 4999, 5000}).Draw(rt, "int")))
			}
		case 1:
			c.Args = append(c.Args, "s:"+rapid.SampledFrom([]string{"~a", "x", "~", "~a~a", "~10000a", ""}).Draw(rt, "str"))
		default:
			// numeric prefix parameters (v) stay below 10 000: larger ones allocate proportionally in any
			// implementation, which the property does not forbid
			a := names[rapid.IntRange(0, len(names)-1).Draw(rt, "pool")]
			if a == "fix2e62" || a == "big2e64" {
				a = "fix3"
			}
			c.Args = append(c.Args, a)
		}
	}
	return c
}

// paramDirective: does the control string have a directive with a prefix parameter?
func paramDirective(ctl string) bool {
	for i := 0; i+1 < len(ctl); i++ {
		if ctl[i] == '~' {
			switch c := ctl[i+1]; {
			case c >= '0' && c <= '9', c == 'v', c == 'V', c == '#', c == '\'', c == ',', c == '-', c == '+':
				return true
			}
		}
	}
	return false
}

func runFormat(c Case) *h.Result {
	res := runViaShared(c)
	if len(c.Args) > 1 {
		res.NonTrivial = paramDirective(strings.TrimPrefix(c.Args[1], "s:"))
	}
	return res
}

var fmtBigInts = func() (out []string) {
	for _, e := range []int{18, 19, 20, 63, 64, 65, 66, 67, 68, 69, 70, 100} {
		out = append(out, "(expt 10 "+strconv.Itoa(e)+")", "(1- (expt 10 "+strconv.Itoa(e)+"))", "(- (expt 10 "+strconv.Itoa(e)+"))", "(+ 12345 (expt 10 "+strconv.Itoa(e)+"))")
	}
	return
}()

// hasV: does the control string take a prefix parameter from the arguments? Then no huge integer is among the
// arguments: a width of 10^18 allocates that much in any implementation, which is not what the property forbids.
func hasV(ctl string) bool {
	for i := 0; i+1 < len(ctl); i++ {
		if (ctl[i] == '~' || ctl[i] == ',') && (ctl[i+1] == 'v' || ctl[i+1] == 'V') {
			return true
		}
	}
	return false
}

var fmtPairP = h.Prop[Case]{Name: "format-pair-grid", Run: runCall}

// gridDirectives: every directive once with a small set of prefix parameters and modifiers (blocks closed); the grid
// runs every ordered pair of them on three argument lists, so that what one directive leaves behind (argument position,
// column, pending case conversion, pad state) meets every other directive.
func gridDirectives() (out []string) {
	params := []string{"", "0", "2", "-1", "v", "#"}
	mods := []string{"", ":", "@"}
	dirs := []string{"a", "s", "d", "x", "r", "c", "f", "e", "g", "$", "%", "&", "~", "t", "*", "?", "p", "^", "i", "_", "w",
		"(~a~)", "[a~;b~]", "[~a~;~a~:;c~]", "{~a~}", "{~a~^,~}", "<~a~;~a~>", "/car/"}
	for _, d := range dirs {
		for _, p := range params {
			if p == "" || d == "%" || d == "&" || d == "~" || d == "(~a~)" {
				// no parameter, or a directive whose parameter only repeats it
				if p != "" && p != "2" {
					continue
				}
			}
			if strings.HasPrefix(d, "{") && (p == "" || p == "#" || p == "v") {
				p = "3" // every iteration has a repetition limit (an iteration that consumes nothing repeats for ever by definition)
			}
			for _, m := range mods {
				out = append(out, "~"+p+m+d)
			}
		}
	}
	return
}

func testFormatGrid(t *testing.T) {
	h.RunProp(t, fmtPairP, 0)
	if !part("fgrid") || h.C.ReplayIn != "" {
		return
	}
	ds := gridDirectives()
	argLists := [][]string{{"fix0", "fix1", "fix2"}, {"i:-2", "list12", "str"}, {"nil"}, {"i:-1", "i:0", "list12"}}
	slice := int(h.C.Seed % 4)
	var units [][]Case
	n := 0
	for i, d1 := range ds {
		if h.Thorough() && i%h.C.NShards != h.C.Shard {
			continue
		}
		var cs []Case
		for j, d2 := range ds {
			if !h.Thorough() && (i+j)%4 != slice {
				continue
			}
			for _, al := range argLists {
				cs = append(cs, Case{Fn: "common-lisp:format", Mode: "q", Args: append([]string{"nil", "s:" + d1 + d2}, al...)})
			}
		}
		n += len(cs)
		units = append(units, cs)
	}
	// every directive form alone on every integer around the limits
	var big []Case
	for i, d := range ds {
		if h.Thorough() && i%h.C.NShards != h.C.Shard {
			continue
		}
		for _, b := range fmtBigInts {
			args := []string{"nil", "s:" + d, "e:" + b, "fix1"}
			if hasV(d) {
				args = []string{"nil", "s:" + d, "fix2", "e:" + b, "fix1"} // the v parameter stays small, the argument is large
			}
			big = append(big, Case{Fn: "common-lisp:format", Mode: "q", Args: args})
		}
	}
	n += len(big)
	units = append(units, big)
	h.Note("format-pair-grid: %d directive forms, ordered pairs x %d argument lists; %d calls in this run (quick: a quarter of the pairs chosen by the seed)", len(ds), len(argLists), n)
	if drive(t, fmtPairP, units, workersFor()) && h.Thorough() {
		h.SetExhaustive(fmtPairP.Name)
	}
}

func testFormat(t *testing.T) {
	testFormatGrid(t)
	fmtP.Gen = genFormat
	fmtP.Run = runFormat
	if h.C.ReplayIn != "" {
		fmtP.Run = runCall
	}
	h.RunProp(t, fmtP, h.N(15000, 200000))
}
