package c09

import (
	"encoding/hex"
	"regexp"
	"strconv"
	"strings"
	"testing"

	"pgregory.net/rapid"

	"verif/harness/internal/h"
)

// ReadCase is a small batch of byte strings given to the reader one after another (each in a fresh
// reader and scope). A batch keeps the number of round trips to the worker process low; shrinking reduces
// a failing batch to the one failing text.
type ReadCase struct {
	Texts [][]byte `json:"texts"`
	Show  []string `json:"show"`
}

const syntaxBytes = "()\"#'`,|;\\"

var readFragments = []string{
	"(", ")", "(", ")", "'", "`", ",", ",@", "#(", "#*101", "#*", "#\\a", "#\\space", "#\\", "#\\u0041", "#\\U+41", "#\\xyz",
	"#x1F", "#b101", "#o17", "#xZZ", "#36rZZ", "#37r1", "#0r1", "#1r0", "#r1", "#2A((1 2)(3 4))", "#0A5", "#1A(1 2)", "#2A(1 2)", "#3A((1))",
	"#1025A", "#1000000A(", "#99999999999999999999A", "#99999999999999999999(", "#3(1 2)", "#1(1 2 3)", "#1000000000(1)", "#-1(", "#'car", "#'", "#|", "|#", "#| a |#", "|a b|", "|", "\"str\"", "\"a\\\"b\"", "\"", "\"\\",
	"1", "-1/2", "1/0", "1/", "/2", "1.5e3", "1d0", "1e999", "1e-999", "1.0e", "1.", ".5", "+", "-", ".", "..", "...", "abc", ":key", "a:b", "a::b", ":", "::", "a:", "cl:car", "nope:x",
	"nil", "t", ";c\n", ";", "#.", "#.(car nil)", "#+", "#-", "#+x y", "#:", "#:g1", "#1=", "#1#", "#1=(a . #1#)", "#c(1 2)", "#C(1)", "#p\"x\"", "#P", "#s(a)", "#<", "#)", "# ", "##", "#",
	"@2020-01-01T00:00:00Z", "@", "@x", "\\", "\\a", "a\\", "#*2", "#*1 0", "1 . 2", "(1 . 2)", "(1 . 2 3)", "( . 1)", "(1 .)", "(.)", "'()", "`(a ,b ,@c)", ",x", ",@x", "`,@x", "`(,)", "`(,@)",
	"\x00", "\x7f", "\xff", "\xc3", "\xc3\xa9", "\xe2\x82", "\t", "\r\n", "\n", " ", "  ",
	"18446744073709551616", "-9223372036854775809", "1.7976931348623157e309", "0x10", "1e", "1d", "1s0", "1l0", "1f0", "#b", "#x", "#x-", "#b2", "#x1/0", "#3r1/0",
}

func genText(rt *rapid.T) []byte {
	var b []byte
	switch rapid.IntRange(0, 3).Draw(rt, "kind") {
	case 0: // bytes biased to syntax bytes
		n := rapid.IntRange(0, 40).Draw(rt, "n")
		for i := 0; i < n; i++ {
			switch rapid.IntRange(0, 5).Draw(rt, "bk") {
			case 0, 1, 2:
				b = append(b, syntaxBytes[rapid.IntRange(0, len(syntaxBytes)-1).Draw(rt, "sb")])
			case 3:
				b = append(b, "0123456789abcxrAeEdD.+-/ :\n"[rapid.IntRange(0, 26).Draw(rt, "tb")])
			default:
				b = append(b, byte(rapid.IntRange(0, 255).Draw(rt, "rb")))
			}
		}
	default: // fragments of Lisp text, then mutations
		n := rapid.IntRange(1, 12).Draw(rt, "n")
		for i := 0; i < n; i++ {
			b = append(b, readFragments[rapid.IntRange(0, len(readFragments)-1).Draw(rt, "frag")]...)
			if rapid.IntRange(0, 2).Draw(rt, "sp") == 0 {
				b = append(b, ' ')
			}
		}
		m := rapid.IntRange(0, 3).Draw(rt, "mut")
		for i := 0; i < m && len(b) > 0; i++ {
			pos := rapid.IntRange(0, len(b)-1).Draw(rt, "pos")
			switch rapid.IntRange(0, 3).Draw(rt, "mk") {
			case 0:
				b = append(b[:pos:pos], b[pos+1:]...)
			case 1:
				b = append(b[:pos:pos], append([]byte{byte(rapid.IntRange(0, 255).Draw(rt, "ib"))}, b[pos:]...)...)
			case 2:
				b = b[:pos]
			default:
				b = append(b, b[pos:]...)
			}
		}
	}
	return b
}

func genRead(rt *rapid.T) (c ReadCase) {
	n := rapid.IntRange(1, 16).Draw(rt, "texts")
	for i := 0; i < n; i++ {
		b := genText(rt)
		c.Texts = append(c.Texts, b)
		c.Show = append(c.Show, strconv.QuoteToASCII(string(b)))
	}
	return
}

// readRunner is the shared worker of the reader search. Reading happens in a worker process because a
// reader fault can be an allocation that ends the process.
var readRunner = &runner{}

// slowLongFloat: a long float literal with an exponent of six and more digits. Reading it is quick, but anything that
// prints it (an error message that shows the enclosing list, for instance) needs math/big to produce millions of digits:
// (write-to-string 7L12345678) takes 30 s, 1L46666600 many minutes. That is slow and bounded, not a hang, so such texts
// are not given to the reader here (counted as class read-slow-long-float).
var slowLongFloat = regexp.MustCompile(`[0-9.][lL][+-]?[0-9]{6,}`)

func runRead(c ReadCase) *h.Result {
	res := &h.Result{Evals: len(c.Texts)}
	for _, b := range c.Texts {
		if slowLongFloat.Match(b) {
			res.Classes = append(res.Classes, "read-slow-long-float")
			return res
		}
	}
	calls := make([]Call, len(c.Texts))
	for i, b := range c.Texts {
		calls[i] = Call{Op: "read", Hex: hex.EncodeToString(b)}
		if strings.ContainsAny(string(b), syntaxBytes) {
			res.NonTrivial = true
		}
	}
	for i, v := range readRunner.run(calls) {
		one := &h.Result{}
		judgeCall("read "+strconv.QuoteToASCII(string(c.Texts[i])), calls[i], v, true, one)
		for _, cl := range one.Classes {
			res.Classes = append(res.Classes, "read-"+cl)
		}
		if one.Err != "" && res.Err == "" {
			res.Err = one.Err
		}
	}
	return res
}

var readP = h.Prop[ReadCase]{Name: "reader", Gen: genRead, Run: runRead}

func testReader(t *testing.T) {
	h.RunProp(t, readP, h.N(6000, 50000))
}
