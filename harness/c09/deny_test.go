package c09

import "strings"

// The committed deny list: functions that are not driven, with the reason. Blocking or terminating by
// documented design is not a hang and not a fault; rebinding the interpreter's own globals makes the
// later calls of the same worker meaningless.
var denyList = map[string]string{
	// block by documented design / read the terminal
	"common-lisp:sleep":       "blocks by design (sleep n seconds; the pool has 2^62)",
	"common-lisp:y-or-n-p":    "reads the terminal",
	"common-lisp:yes-or-no-p": "reads the terminal",
	"gi:signal-wait":          "blocks until a signal arrives",
	"gi:select":               "blocks until a channel is ready",
	"gi:time-ticker":          "starts a ticker goroutine that never ends",
	"net:wait-for-input":      "blocks on sockets",
	"net:socket-select":       "blocks on sockets",
	"test:benchmark":          "runs its body for a wall-clock duration",
	"common-lisp:loop":        "(loop form*) without an exit repeats for ever by definition",
	// terminate, replace or signal the process; start programs
	"gi:send-signal": "sends a signal to a process (the pool has pids 0, 1, -1)",
	"gi:make-app":    "generates and builds a Go program",
	"gi:run":         "starts a goroutine; a condition in it ends the process by design",
	"gi:defsystem":   "system instances fetch with git/cp and remove directories",
	// servers, sockets, name resolution
	"swank:create-server":     "starts a server",
	"swank:restart-server":    "starts a server",
	"swank:setup-server":      "starts a server",
	"swank:start-server":      "starts a server",
	"swank:stop-server":       "stops servers / listeners",
	"swank:swank-server":      "starts a server",
	"swank:swank-stop":        "stops servers / listeners",
	"net:get-host-by-address": "resolves through the network",
	"net:get-host-by-name":    "resolves through the network",
	"net:graphql-query":       "sends an HTTP request",
	"net:make-socket":         "creates sockets",
	"net:socket-pair":         "creates sockets",
	"net:socket-accept":       "accepts connections",
	"net:socket-bind":         "binds a socket",
	"net:socket-connect":      "connects",
	"net:socket-listen":       "listens",
	"net:socket-receive":      "blocks on a socket",
	"net:socket-send":         "sends on a socket",
	// change the process environment
	"gi:clearenv": "clears the process environment",
	"gi:setenv":   "changes the process environment",
	"gi:unsetenv": "changes the process environment",
	// rebind the interpreter's own globals
	"common-lisp:in-package":     "rebinds *package*",
	"common-lisp:delete-package": "may delete the packages the later calls need",
	"common-lisp:dribble":        "rebinds the standard streams",
	"common-lisp:trace":          "replaces the evaluation hooks",
	"common-lisp:untrace":        "replaces the evaluation hooks",
	"gi:lock-package":            "locks packages for the rest of the process",
	"gi:unlock-package":          "unlocks the built-in packages for the rest of the process",
	"swank:swank-verbose":        "global server setting",
}

// quotedInForm: pool entries that are put into the form as (quote x) in mode "q".
var quotedInForm = map[string]bool{"sym": true, "fsym": true, "list12": true, "dotted": true, "bytespec0": true, "nested": true, "alist": true, "lamx": true}

// endlessByDefinition names calls that repeat for ever by the definition of the language, which is not a
// hang: (do bindings (end-test ...)) and do* when the end-test form is a variable that the binding list
// itself binds to nil. In mode "q" the first two arguments become (quote x) forms: the binding list binds
// the variable quote and the end test is the variable quote. In mode "r" the pool's lambda expression
// binds lambda and tests lambda. Such calls are not driven.
func endlessByDefinition(c Case) bool {
	if (c.Fn != "common-lisp:do" && c.Fn != "common-lisp:do*") || len(c.Args) < 2 {
		return false
	}
	if c.Mode == "r" {
		return c.Args[0] == "lamx" && c.Args[1] == "lamx"
	}
	return quoted(c.Args[0]) && quoted(c.Args[1])
}

// quoted: is the argument put into a mode "q" form as (quote x)? Pool lists and symbols, and literal
// descriptors whose source makes a list or a symbol.
func quoted(d string) bool {
	return quotedInForm[d] || strings.HasPrefix(d, "e:(list") || strings.HasPrefix(d, "e:(cons") || strings.HasPrefix(d, "e:'")
}

func notDriven(c Case) bool {
	_, denied := denyList[c.Fn]
	return denied || endlessByDefinition(c)
}
