package c09

import (
	"fmt"
	"strings"
	"sync"
	"testing"

	"github.com/ohler55/slip"
	"pgregory.net/rapid"

	"verif/harness/internal/h"
)

// Typed calls: arguments that conform to the documented parameter types (so the call gets past the type
// guards), with hostile BOUNDS: start/end/index/count values that are negative, reversed, beyond the length,
// or between the character count and the byte length of a multi-byte string.
//
//	bounds-grid  exhaustive: every function that documents a bound parameter x one sequence-like parameter
//	             varied over its value set x the product of up to two bound parameters over boundValues
//	call-typed   rapid: any function, every documented parameter drawn from the value set of its type,
//	             optional and keyword parameters given or not

type param struct {
	name string
	typ  string
	kind int // 0 required, 1 optional, 2 keyword, 3 rest
}

var (
	paramCache = map[string][]param{}
	paramMu    sync.Mutex
)

func paramsOf(fn string) []param {
	paramMu.Lock()
	defer paramMu.Unlock()
	if ps, ok := paramCache[fn]; ok {
		return ps
	}
	var ps []param
	if fi := slip.FindFunc(fn); fi != nil && fi.Doc != nil {
		kind := 0
		for _, a := range fi.Doc.Args {
			switch a.Name {
			case "&optional":
				kind = 1
				continue
			case "&key":
				kind = 2
				continue
			case "&rest", "&body":
				kind = 3
				continue
			}
			if strings.HasPrefix(a.Name, "&") {
				continue
			}
			ps = append(ps, param{name: strings.ToLower(a.Name), typ: strings.ReplaceAll(a.Type, " or ", "|"), kind: kind})
		}
	}
	paramCache[fn] = ps
	return ps
}

var (
	boundValues = []string{"i:-1", "i:0", "i:1", "i:2", "i:3", "i:4", "i:8", "i:9223372036854775807", "i:-9223372036854775808", "nil"}
	bitVectors  = func() (vs []string) {
		for _, n := range []int{0, 4, 8, 9} {
			bits := strings.Repeat("10", 5)[:n]
			list := strings.TrimSpace(strings.Join(strings.Split(bits, ""), " "))
			vs = append(vs,
				"e:#*"+bits, // reader
				"e:(coerce '("+list+") 'bit-vector)",
				fmt.Sprintf("e:(make-array %d :element-type 'bit :initial-element 1)", n),
				fmt.Sprintf("e:(make-array %d :element-type 'bit :adjustable nil)", n))
		}
		return
	}()
	stringVals = []string{"s:", "s:abc", "s:λ", "s:aλ", "s:日本語", "s:λλa", "s:12", "s: 99999999999999999999 ", "s:-7 ", "s:1/2"}
	listVals   = []string{"nil", "e:(list 1 2 3)", "e:(list #\\a #\\b #\\a)", "alist", "dotted"}
	vectorVals = []string{"e:(vector 1 2 3)", "vec0", "bitv", "octets", "fpvec", "fpover", "fpshrunk", "adjarr"}
	typeValues = map[string][]string{
		"string":           stringVals,
		"list":             listVals,
		"cons":             append(append([]string{}, listVals[1:]...), "e:(cons 0 3)", "e:(cons 8 0)", "e:(cons 64 1)", "e:(cons -1 0)", "e:(cons 3 -1)", "e:(cons 1 nil)"),
		"vector":           vectorVals,
		"simple-vector":    {"e:(vector 1 2 3)", "vec0"},
		"array":            append(append([]string{}, vectorVals...), "arr2d"),
		"bit-array":        append([]string{"bitv", "bvcoerce4", "bvfixed8", "bvread9"}, bitVectors...),
		"simple-bit-array": append([]string{"bitv"}, bitVectors...),
		"octets":           {"octets", "e:(string-to-octets \"aλ\")", "e:(make-octets 0)"},
		"character":        {"c:a", "c:λ", "c: "},
		"object":           {"c:a", "i:1", "s:a", "sym", "nil"},
		"value":            {"c:a", "i:1", "nil"},
		"boolean":          {"nil", "t"},
		"symbol":           {"sym", "e:'character", "e:'list", "e:'string", "e:'vector", "e:'bit", "e:'equal", "fsym", "nil"},
		"keyword":          {"kwend", "kwkey", "k:start"},
		"lambda":           {"lam1", "fcar", "e:(lambda (&rest r) (car r))"},
		"function":         {"lam1", "fcar", "e:(lambda (&rest r) (car r))"},
		"real":             {"i:0", "i:1", "i:-1", "e:1.5d0", "e:0.0001d0", "ratio", "e:1.0e10", "e:-0.5", "e:1/3", "i:400000000", "i:9223372036854775807"},
		"number":           {"i:0", "i:1", "i:-1", "e:1.5d0", "e:0.0001d0", "ratio", "e:1/3", "e:-1/3", "i:400000000", "i:9223372036854775807", "i:-9223372036854775808"},
		"float":            {"e:0.0d0", "e:1.5d0", "e:0.0001d0", "e:-2.5s0", "e:1.0d21"},
		"rational":         {"i:0", "i:1", "i:-1", "ratio", "big2e64"},
		"integer":          boundValues[:9],
		"fixnum":           boundValues[:9],
		"octet":            {"i:0", "i:1", "i:255"},
		"hash-table":       {"hash"},
		"package":          {"pkg"},
		"stream":           {"sout", "sin"},
		"input-stream":     {"sin", "sin0"},
		"output-stream":    {"sout"},
		"instance":         {"finst", "cinst"},
		"flavor":           {"flavor"},
		"class":            {"class"},
		"bag":              {"bag"},
		"channel":          {"chan"},
		"time":             {"time"},
		"nil":              {"nil"},
		"t":                {"t"},
	}
)

func init() {
	seq := append(append(append([]string{}, stringVals...), listVals[:3]...), vectorVals...)
	typeValues["sequence"] = seq
	typeValues["sequemce"] = seq
}

// valuesOf gives the value set of a documented type: the union over its known alternatives; nil when no
// alternative is known.
// typeSpecs: values for parameters that take a type specifier (they are documented as symbols): names of types and
// compound specifiers, well formed and not
var typeSpecs = []string{"e:'signed-byte", "e:'unsigned-byte", "e:'octet", "e:'byte", "e:'bit", "e:'bytes", "e:'bignum", "e:'short-float", "e:'single-float", "e:'double-float",
	"e:'long-float", "e:'rational", "e:'ratio", "e:'complex", "e:'symbol", "e:'assoc", "e:'hash-table", "e:'function", "e:'number", "e:'real", "e:'sequence", "e:'cons", "e:'null", "e:'keyword",
	"e:'(signed-byte 4)", "e:'(unsigned-byte 4)", "e:'(signed-byte 0)", "e:'(unsigned-byte *)", "e:'(bit-vector 3)", "e:'(bit-vector 0)", "e:'(octets 1)", "e:'(string 2)", "e:'(integer * 3)", "e:'(float 0.0 1.0)",
	"e:'(list 2)", "e:'(complex float)", "e:'(and fixnum (not bit))", "e:'(eql 1)", "e:'(not)", "e:'(or)", "e:'(and)", "e:'(signed-byte x)", "e:'(vector * -1)", "e:'(array * *)", "e:'(array t 2)",
	"e:'list", "e:'vector", "e:'string", "e:'octets", "e:'bit-vector", "e:'fixnum", "e:'integer", "e:'float", "e:'character", "e:'array", "e:'t", "nil",
	"e:'(vector t)", "e:'(vector * 0)", "e:'(vector character 2)", "e:'(array t (2))", "e:'(integer 0 5)", "e:'(or fixnum string)", "e:'(member a b)", "e:'(satisfies evenp)", "e:'(mod 4)", "e:'(vector)", "e:'(nope 1)"}

func isTypeSpec(p param) bool {
	vs := valuesFor(p)
	return len(vs) > 0 && &vs[0] == &typeSpecs[0]
}

// valuesFor: the value set of a parameter, by its name where the documented type says too little, else by its type.
func valuesFor(p param) []string {
	switch p.name {
	case "type", "result-type", "element-type", "type-1", "type-2", "output-type-spec", "typespec", "type-specifier":
		return typeSpecs
	}
	if strings.Contains(p.typ, "type specifier") {
		return typeSpecs
	}
	return valuesOf(p.typ)
}

func valuesOf(typ string) (vals []string) {
	seen := map[string]bool{}
	for _, alt := range strings.Split(typ, "|") {
		for _, v := range typeValues[strings.TrimSpace(alt)] {
			if !seen[v] {
				seen[v] = true
				vals = append(vals, v)
			}
		}
	}
	return
}

func isBound(p param) bool {
	if !strings.Contains(p.typ, "fixnum") && !strings.Contains(p.typ, "integer") {
		return false
	}
	n := p.name
	return strings.Contains(n, "start") || strings.Contains(n, "end") || strings.Contains(n, "index") || n == "n" ||
		strings.Contains(n, "count") || strings.Contains(n, "position") || strings.Contains(n, "size") ||
		strings.Contains(n, "length") || strings.Contains(n, "offset") || n == "radix" || n == "base"
}

func isSeqLike(p param) bool {
	for _, alt := range strings.Split(p.typ, "|") {
		switch strings.TrimSpace(alt) {
		case "string", "sequence", "sequemce", "list", "vector", "array", "simple-vector", "octets", "bit-array", "simple-bit-array":
			return true
		}
	}
	return false
}

// typical is the value a parameter gets while other parameters are varied.
func typical(p param) string {
	switch {
	case strings.Contains(p.name, "predicate") || p.name == "test" || p.name == "function":
		return "e:(lambda (&rest r) (car r))"
	case isSeqLike(p):
		if vs := valuesFor(p); len(vs) > 3 {
			return vs[3] // "aλ" for strings
		} else if len(vs) > 0 {
			return vs[len(vs)-1]
		}
	}
	if vs := valuesFor(p); len(vs) > 0 {
		return vs[0]
	}
	return "nil"
}

// buildTyped makes the argument list: required parameters always, optional ones up to the last one given,
// keywords only when given. vals maps parameter index -> descriptor.
func buildTyped(ps []param, vals map[int]string) (args []string) {
	lastOpt := -1
	for i, p := range ps {
		if _, given := vals[i]; given && p.kind == 1 {
			lastOpt = i
		}
	}
	for i, p := range ps {
		v, given := vals[i]
		switch p.kind {
		case 0:
			if !given {
				v = typical(p)
			}
			args = append(args, v)
		case 1:
			if i <= lastOpt {
				if !given {
					v = "nil"
				}
				args = append(args, v)
			}
		case 2:
			if given {
				args = append(args, "k:"+p.name, v)
			}
		case 3:
			if given {
				args = append(args, v)
			}
		}
	}
	return
}

// gridCases enumerates the bounds grid of one function.
func gridCases(fn string) (cases []Case) {
	ps := paramsOf(fn)
	var bounds, seqs []int
	for i, p := range ps {
		if isBound(p) {
			bounds = append(bounds, i)
		} else if isSeqLike(p) && p.kind == 0 {
			seqs = append(seqs, i)
		}
	}
	if len(bounds) == 0 {
		return pairCases(fn, ps, seqs)
	}
	// groups of at most two bound parameters that belong together: (start end), (start1 end1), (start2 end2), single ones
	var groups [][]int
	used := map[int]bool{}
	for _, i := range bounds {
		if used[i] || !strings.Contains(ps[i].name, "start") {
			continue
		}
		suffix := ps[i].name[strings.Index(ps[i].name, "start")+5:]
		for _, j := range bounds {
			if !used[j] && strings.HasSuffix(ps[j].name, "end"+suffix) {
				groups = append(groups, []int{i, j})
				used[i], used[j] = true, true
				break
			}
		}
	}
	var singles []int
	for _, i := range bounds {
		if !used[i] {
			singles = append(singles, i)
		}
	}
	for len(singles) >= 2 {
		groups = append(groups, singles[:2])
		singles = singles[2:]
	}
	if len(singles) == 1 {
		groups = append(groups, singles)
	}
	if len(seqs) == 0 {
		seqs = []int{-1}
	}
	seen := map[string]bool{}
	add := func(vals map[int]string) {
		c := Case{Fn: fn, Mode: "q", Args: buildTyped(ps, vals)}
		if k := c.key(); !seen[k] && !notDriven(c) {
			seen[k] = true
			cases = append(cases, c)
		}
	}
	for _, si := range seqs {
		svals := []string{""}
		if si >= 0 {
			svals = valuesFor(ps[si])
		}
		for _, sv := range svals {
			for _, g := range groups {
				for _, b0 := range boundValues {
					if len(g) == 1 {
						vals := map[int]string{g[0]: b0}
						if si >= 0 {
							vals[si] = sv
						}
						add(vals)
						continue
					}
					for _, b1 := range boundValues {
						vals := map[int]string{g[0]: b0, g[1]: b1}
						if si >= 0 {
							vals[si] = sv
						}
						add(vals)
					}
				}
			}
		}
	}
	return
}

// pairCases: a function without bound parameters but with two sequence-like required or optional parameters is called
// with all pairs of their value sets (the other parameters typical).
func pairCases(fn string, ps []param, _ []int) (cases []Case) {
	// required and optional sequence-like parameters, e.g. (bit-not bit-array &optional opt-arg)
	var seqs []int
	for i, p := range ps {
		if isSeqLike(p) && p.kind <= 1 {
			seqs = append(seqs, i)
		}
	}
	if len(seqs) < 2 {
		// a function of one or two required parameters whose documented types all have a value set is called with the
		// whole product of the sets (e.g. ldb: every cons, byte specifiers of width 0 and 64 among them, x every integer)
		if len(ps) == 0 || len(ps) > 2 {
			return nil
		}
		sets := make([][]string, len(ps))
		n := 1
		for i, p := range ps {
			if p.kind != 0 {
				return nil
			}
			if sets[i] = valuesFor(p); len(sets[i]) == 0 {
				return nil
			}
			n *= len(sets[i])
		}
		limit := 300
		if len(ps) == 2 && (isTypeSpec(ps[0]) != isTypeSpec(ps[1])) {
			// (coerce object type), (typep object type) ..: every pool object, every bit-vector and the parameter's own
			// value set x every type specifier
			o := 0
			if isTypeSpec(ps[0]) {
				o = 1
			}
			sets[o] = append(append(append([]string{}, poolNames()...), bitVectors...), sets[o]...)
			n, limit = len(sets[0])*len(sets[1]), 20000
		}
		if n > limit {
			return nil
		}
		for _, va := range sets[0] {
			vals := map[int]string{0: va}
			if len(ps) == 1 {
				if c := (Case{Fn: fn, Mode: "q", Args: buildTyped(ps, vals)}); !notDriven(c) {
					cases = append(cases, c)
				}
				continue
			}
			for _, vb := range sets[1] {
				if c := (Case{Fn: fn, Mode: "q", Args: buildTyped(ps, map[int]string{0: va, 1: vb})}); !notDriven(c) {
					cases = append(cases, c)
				}
			}
		}
		return cases
	}
	a, b := seqs[0], seqs[1]
	for _, va := range valuesFor(ps[a]) {
		for _, vb := range valuesFor(ps[b]) {
			if c := (Case{Fn: fn, Mode: "q", Args: buildTyped(ps, map[int]string{a: va, b: vb})}); !notDriven(c) {
				cases = append(cases, c)
			}
		}
	}
	return
}

func hostileBound(args []string) bool {
	for _, a := range args {
		if strings.HasPrefix(a, "i:") && a != "i:0" {
			return true
		}
	}
	return false
}

func runGrid(c Case) *h.Result {
	res := runCall(c)
	res.NonTrivial = hostileBound(c.Args) || len(c.Args) >= 2
	return res
}

var (
	gridP  = h.Prop[Case]{Name: "bounds-grid", Run: runGrid}
	typedP = h.Prop[Case]{Name: "call-typed"}
)

func genTyped(fns []FuncEntry) func(rt *rapid.T) Case {
	names := poolNames()
	return func(rt *rapid.T) Case {
		f := fns[rapid.IntRange(0, len(fns)-1).Draw(rt, "fn")]
		ps := paramsOf(f.Name)
		vals := map[int]string{}
		for i, p := range ps {
			if p.kind != 0 && rapid.IntRange(0, 2).Draw(rt, "given") == 0 {
				continue
			}
			vs := valuesFor(p)
			if isBound(p) {
				vs = boundValues
			}
			switch {
			case len(vs) == 0 || rapid.IntRange(0, 9).Draw(rt, "offtype") == 0:
				vals[i] = names[rapid.IntRange(0, len(names)-1).Draw(rt, "pool")]
			default:
				vals[i] = vs[rapid.IntRange(0, len(vs)-1).Draw(rt, "val")]
			}
		}
		c := Case{Fn: f.Name, Mode: "q", Args: buildTyped(ps, vals)}
		if endlessByDefinition(c) {
			c.Args[1] = "fix1"
		}
		return c
	}
}

func testTyped(t *testing.T, fns []FuncEntry) {
	typedP.Gen = genTyped(fns)
	typedP.Run = func(c Case) *h.Result {
		res := runViaShared(c)
		res.NonTrivial = len(c.Args) > 0
		return res
	}
	if h.C.ReplayIn != "" {
		typedP.Run = runCall
	}
	h.RunProp(t, gridP, 0)
	if part("grid") && h.C.ReplayIn == "" {
		var units [][]Case
		n := 0
		for i, f := range fns {
			if i%h.C.NShards != h.C.Shard {
				continue
			}
			if cs := gridCases(f.Name); len(cs) > 0 {
				units = append(units, cs)
				n += len(cs)
			}
		}
		h.Note("bounds-grid: %d functions with a documented bound parameter, %d calls in this shard", len(units), n)
		if drive(t, gridP, units, workersFor()) {
			h.SetExhaustive(gridP.Name)
		}
	}
	if part("typed") {
		h.RunProp(t, typedP, h.N(20000, 150000))
	} else {
		h.RunProp(t, typedP, 0)
	}
}
