package c09

import (
	"testing"

	"pgregory.net/rapid"

	"verif/harness/internal/h"
)

// Printing under rebound printer variables: (let ((*print-xxx* value)) (format/princ-to-string/... object)).
// A wrong-typed or out-of-range value must give a condition, at binding time or at use, never a fault.
//
//	printer-grid  exhaustive: every printer variable x every value of printerVals x every call of printerCalls
//	printer       rapid: one or two bindings around a generated format call or a printer function on a pool object

var (
	printerVars = []string{"*print-right-margin*", "*print-base*", "*print-radix*", "*print-length*", "*print-level*", "*print-lines*",
		"*print-miser-width*", "*print-case*", "*print-pretty*", "*print-escape*", "*print-readably*", "*print-array*", "*print-circle*",
		"*print-gensym*", "*print-prec*", "*print-ansi*", "*print-lambda*"}
	printerVals = []string{"nil", "t", "i:0", "i:1", "i:2", "i:3", "i:10", "i:36", "i:37", "i:-1", "i:80", "i:10000", "fix2e62", "fixmax", "fixmin", "big2e64",
		"s:abc", "k:upcase", "k:downcase", "k:capitalize", "k:nope", "sym", "dbl", "ratio", "list12", "chr"}
	printerFns     = []string{"princ-to-string", "prin1-to-string", "write-to-string", "pprint", "print", "princ", "prin1", "write"}
	printerObjs    = []string{"i:255", "i:-7", "big2e64", "ratio", "dbl", "sgl", "nested", "alist", "dotted", "vec12", "arr2d", "bitv", "sym", "kwend", "str", "stral", "chr", "hash", "lam1", "lamx", "cinst", "finst", "cond", "time", "bag", "e:(list 1 (list 2 (list 3 (list 4 (list 5)))))", "e:(list 'quote 'a)", "e:(make-list 30 :initial-element 'abcdefgh)", "e:'|a B|", "e:(make-symbol \"G\")"}
	printerFormats = [][]string{
		{"s:~<a~>"}, {"s:~<a~;b~>"}, {"s:~10<a~;b~>"}, {"s:~<~a~;~a~>", "i:1", "i:2"}, {"s:~a", "nested"}, {"s:~s", "nested"}, {"s:~w", "nested"}, {"s:~:w", "vec12"},
		{"s:~d", "i:255"}, {"s:~x", "i:255"}, {"s:~b", "i:5"}, {"s:~r", "i:12"}, {"s:~:d", "big2e64"}, {"s:~a", "dbl"}, {"s:~f", "dbl"}, {"s:~e", "dbl"}, {"s:~g", "dbl"}, {"s:~$", "dbl"},
		{"s:~s", "sym"}, {"s:~s", "str"}, {"s:~s", "chr"}, {"s:~a~10t~a", "i:1", "i:2"}, {"s:~&~a~%", "sym"}, {"s:~{~a~^, ~}", "list12"}, {"s:~(~a~)", "sym"}, {"s:~_~i~a", "sym"},
		{"s:~a", "e:(make-list 30 :initial-element 'abcdefgh)"}, {"s:~s", "e:(list 1 (list 2 (list 3 (list 4 (list 5)))))"},
	}
)

func printerCalls() (cs []Case) {
	for _, f := range printerFormats {
		cs = append(cs, Case{Fn: "common-lisp:format", Mode: "q", Args: append([]string{"nil"}, f...)})
	}
	for i, fn := range printerFns {
		for j, o := range printerObjs {
			// every object through the three -to-string functions, a third of them through the stream writers
			if i < 3 || (i+j)%3 == 0 {
				cs = append(cs, Case{Fn: "common-lisp:" + fn, Mode: "q", Args: []string{o}})
			}
		}
	}
	return
}

// hugeWidth: a line width above the 10 000 bound of format parameters (filling a line of 2^62 columns
// allocates proportionally in any implementation, which the property does not forbid).
func hugeWidth(v, val string) bool {
	return (v == "*print-right-margin*" || v == "*print-miser-width*") && (val == "fix2e62" || val == "fixmax" || val == "big2e64")
}

func runPrinter(c Case) *h.Result {
	res := runCall(c)
	res.NonTrivial = len(c.Bind) > 0
	if len(c.Bind) > 0 {
		res.Classes = append(res.Classes, "bind:"+c.Bind[0])
	}
	return res
}

var (
	printGridP = h.Prop[Case]{Name: "printer-grid", Run: runPrinter}
	printP     = h.Prop[Case]{Name: "printer"}
)

func testPrinter(t *testing.T) {
	names := poolNames()
	printP.Gen = func(rt *rapid.T) Case {
		var c Case
		if rapid.Bool().Draw(rt, "format") {
			c = genFormat(rt)
		} else {
			c = Case{Fn: "common-lisp:" + printerFns[rapid.IntRange(0, len(printerFns)-1).Draw(rt, "pfn")], Mode: "q"}
			if rapid.IntRange(0, 3).Draw(rt, "pool") == 0 {
				c.Args = []string{names[rapid.IntRange(0, len(names)-1).Draw(rt, "obj")]}
			} else {
				c.Args = []string{printerObjs[rapid.IntRange(0, len(printerObjs)-1).Draw(rt, "pobj")]}
			}
		}
		n := rapid.IntRange(1, 2).Draw(rt, "nbind")
		for i := 0; i < n; i++ {
			c.Bind = append(c.Bind, printerVars[rapid.IntRange(0, len(printerVars)-1).Draw(rt, "var")])
			if rapid.IntRange(0, 5).Draw(rt, "anyval") == 0 {
				c.Bind = append(c.Bind, names[rapid.IntRange(0, len(names)-1).Draw(rt, "poolval")])
			} else {
				c.Bind = append(c.Bind, printerVals[rapid.IntRange(0, len(printerVals)-1).Draw(rt, "val")])
			}
			if n := len(c.Bind); hugeWidth(c.Bind[n-2], c.Bind[n-1]) {
				c.Bind[n-1] = "i:10000"
			}
		}
		return c
	}
	printP.Run = func(c Case) *h.Result {
		if !notDriven(c) && excludedBy(c) == "" {
			rapidRunner.exec([]Case{c})
		}
		return runPrinter(c)
	}
	if h.C.ReplayIn != "" {
		printP.Run = runPrinter
	}
	h.RunProp(t, printGridP, 0)
	if part("pgrid") && h.C.ReplayIn == "" {
		calls := printerCalls()
		var units [][]Case
		n := 0
		for i, v := range printerVars {
			if i%h.C.NShards != h.C.Shard {
				continue
			}
			var cs []Case
			for _, val := range printerVals {
				if hugeWidth(v, val) {
					continue
				}
				for _, c := range calls {
					c.Bind = []string{v, val}
					cs = append(cs, c)
				}
			}
			units = append(units, cs)
			n += len(cs)
		}
		h.Note("printer-grid: %d variables x %d values x %d calls; %d calls in this shard", len(printerVars), len(printerVals), len(calls), n)
		if drive(t, printGridP, units, workersFor()) {
			h.SetExhaustive(printGridP.Name)
		}
	}
	if part("printer") {
		h.RunProp(t, printP, h.N(10000, 80000))
	} else {
		h.RunProp(t, printP, 0)
	}
}
