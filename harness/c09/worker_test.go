package c09

import (
	"bufio"
	"encoding/hex"
	"encoding/json"
	"fmt"
	"os"
	"path/filepath"
	"regexp"
	"runtime"
	"runtime/debug"
	"runtime/metrics"
	"strings"
	"sync"
	"time"

	"github.com/ohler55/slip"

	"verif/harness/internal/ev"
)

// ---------------------------------------------------------------------------------------------
// Worker side. The worker is this test binary re-executed with C09_WORKER=1. It reads one JSON
// request per line on fd 3 and writes protocol lines on fd 4:
//
//	B <i>            call i of the batch is about to start
//	A <i> <json>     call i finished with that outcome
//	H                heart beat (about one per second while the process is scheduled)
//	M <bytes>        heap grew beyond the limit; the worker exits right after this line
//
// stdin is closed, stdout goes to /dev/null, stderr to a file in the scratch directory.

// Call is one unit of work for the worker.
type Call struct {
	Op   string   `json:"op,omitempty"` // "" = function call, "read" = reader
	Fn   string   `json:"fn,omitempty"`
	Mode string   `json:"mode,omitempty"` // "q" arguments quoted (function receives the objects), "r" raw forms
	Args []string `json:"args,omitempty"`
	Bind []string `json:"bind,omitempty"` // variable, value descriptor, ...: bound by a let around the call
	Hex  string   `json:"hex,omitempty"`  // reader input
	Pkg  string   `json:"pkg,omitempty"`  // current package during the call
}

// Res is the classified outcome of one call.
type Res struct {
	Kind  string `json:"k"`           // value | condition | partial | fault
	Class string `json:"c,omitempty"` // condition class
	Msg   string `json:"m,omitempty"`
	Key   string `json:"key,omitempty"`  // root cause key of a fault: innermost slip frame (function)
	Site  string `json:"site,omitempty"` // file:line of that frame
	Orig  string `json:"orig,omitempty"` // who raised the original Go panic: runtime | foreign:<func> | slip
}

const heapLimit = 1 << 30

var outMu sync.Mutex

func workerMain() {
	in := os.NewFile(3, "req")
	out := os.NewFile(4, "rep")
	debug.SetMaxStack(128 << 20)
	emit := func(s string) {
		outMu.Lock()
		_, _ = out.WriteString(s)
		outMu.Unlock()
	}
	go func() {
		sample := []metrics.Sample{{Name: "/memory/classes/heap/objects:bytes"}}
		n := 0
		for {
			time.Sleep(50 * time.Millisecond)
			metrics.Read(sample)
			if v := sample[0].Value.Uint64(); v > heapLimit {
				emit(fmt.Sprintf("M %d\n", v))
				os.Exit(7)
			}
			if n++; n%20 == 0 {
				emit("H\n")
			}
		}
	}()
	scope := slip.NewScope()
	sc := bufio.NewScanner(in)
	sc.Buffer(make([]byte, 1<<20), 64<<20)
	for sc.Scan() {
		var batch []Call
		if err := json.Unmarshal(sc.Bytes(), &batch); err != nil {
			emit("E bad request\n")
			os.Exit(8)
		}
		for i, c := range batch {
			emit(fmt.Sprintf("B %d\n", i))
			r := execCall(scope, c)
			b, _ := json.Marshal(r)
			emit(fmt.Sprintf("A %d %s\n", i, b))
		}
		emit("D\n")
	}
}

// execCall performs one call with recover and classifies the outcome.
func execCall(scope *slip.Scope, c Call) (r Res) {
	defer func() {
		rec := recover()
		if rec == nil {
			return
		}
		r = classify(rec, string(debug.Stack()))
	}()
	switch c.Op {
	case "read":
		b, _ := hex.DecodeString(c.Hex)
		_ = slip.ReadString(string(b), slip.NewScope())
		r.Kind = ev.Value
		return
	}
	ensureGlobals(scope)
	s := slip.NewScope()
	form := make(slip.List, 0, len(c.Args)+1)
	form = append(form, slip.Symbol(c.Fn))
	for _, d := range c.Args {
		o := buildArg(s, d)
		if c.Mode != "r" {
			o = quoteIfNeeded(o)
		}
		form = append(form, o)
	}
	if 1 < len(c.Bind) {
		// (let ((var 'value) ...) (fn args...)): the path Lisp code takes to rebind a special variable
		var bindings slip.List
		for i := 0; i+1 < len(c.Bind); i += 2 {
			bindings = append(bindings, slip.List{slip.Symbol(c.Bind[i]), quoteIfNeeded(buildArg(s, c.Bind[i+1]))})
		}
		form = slip.List{slip.Symbol("let"), bindings, form}
	}
	if c.Pkg != "" {
		back := slip.ReadString("(common-lisp:in-package :common-lisp-user)", s)[0]
		defer func() { _ = ev.Try(func() slip.Object { return s.Eval(back, 0) }) }()
		_ = s.Eval(slip.ReadString("(common-lisp:in-package :"+c.Pkg+")", s)[0], 0)
	}
	_ = s.Eval(form, 0)
	r.Kind = ev.Value
	return
}

var (
	frameRe = regexp.MustCompile(`(?m)^(\S.*)\n\t(\S+):(\d+)`)
)

type frame struct {
	fn   string
	file string
	line string
}

func parseStack(stack string) (frames []frame) {
	for _, m := range frameRe.FindAllStringSubmatch(stack, -1) {
		fn := m[1]
		if i := strings.LastIndexByte(fn, '('); i > 0 {
			fn = fn[:i]
		}
		frames = append(frames, frame{fn: fn, file: m[2], line: m[3]})
	}
	return
}

const slipMod = "github.com/ohler55/slip"

// origin finds who raised the ORIGINAL Go panic (the lowest panic frame of the stack taken in the
// outermost recover; frames of recovered-and-re-raised panics stay on the stack) and the innermost
// slip frame below it.
func origin(stack string) (orig, key, site string) {
	frames := parseStack(stack)
	last := -1
	for i, f := range frames {
		if f.fn == "panic" || f.fn == "runtime.gopanic" {
			last = i
		}
	}
	if last < 0 {
		return "unknown", "", ""
	}
	orig = ""
	for i := last + 1; i < len(frames); i++ {
		f := frames[i]
		var who string
		switch {
		case strings.HasPrefix(f.fn, "verif/harness/"):
			who = "harness"
		case strings.HasPrefix(f.fn, slipMod):
			who = "slip"
		case strings.HasPrefix(f.fn, "runtime."):
			who = "runtime"
		default:
			who = "foreign:" + f.fn
		}
		if orig == "" {
			orig = who
		}
		switch who {
		case "harness":
			return orig, f.fn, filepath.Base(f.file) + ":" + f.line
		case "slip":
			key = strings.TrimPrefix(strings.TrimPrefix(f.fn, slipMod), "/")
			return orig, key, filepath.Base(f.file) + ":" + f.line
		}
	}
	return
}

// Texts of Go runtime panics. The first group always carries one of the two prefixes; the second group
// are the runtime's "plain" errors, which have no prefix.
var (
	runtimePhrases = []string{
		"runtime error:", "interface conversion:",
		"assignment to entry in nil map", "close of closed channel", "close of nil channel", "send on closed channel",
		"all goroutines are asleep",
	}
	// argument checks of libraries below slip that fire when slip passes an unchecked Lisp value on
	libraryPhrases = []string{
		"negative Repeat count", "Repeat output length overflow", "negative shift amount", "reflect:", "Grow: negative count", "negative count",
		"too large", "out of range", "division by zero", "nil pointer", "invalid argument to", "negative", "overflow",
	}
)

func containsAny(msg string, phrases []string) bool {
	for _, p := range phrases {
		if strings.Contains(msg, p) {
			return true
		}
	}
	return false
}

func classify(rec any, stack string) (r Res) {
	o := ev.Classify(rec)
	r.Kind, r.Class, r.Msg = o.Kind, o.Class, clip(o.Msg, 300)
	if r.Kind == ev.Partial {
		return // the reader's "more input needed"
	}
	if r.Kind == ev.Fault {
		r.Kind = ev.Condition // decided below, by this check's own rules
	}
	orig, key, site := origin(stack)
	r.Orig = orig
	_, isRT := rec.(runtime.Error)
	_, isObj := rec.(slip.Object)
	switch {
	case isRT || containsAny(r.Msg, runtimePhrases):
		// a Go runtime panic: nil dereference, index, slice bounds, type assertion, unhashable key, nil map, ...
		r.Kind = ev.Fault
	case !isObj:
		// a Go value that is not a Lisp object escaped
		r.Kind = ev.Fault
		r.Msg = fmt.Sprintf("non-Lisp panic value %T: %s", rec, r.Msg)
	case orig == "harness":
		r.Kind = ev.Fault
		r.Msg = "harness: " + r.Msg
	case strings.HasPrefix(orig, "foreign:") && containsAny(r.Msg, libraryPhrases):
		r.Kind = ev.Fault
	}
	if strings.HasPrefix(orig, "foreign:") {
		r.Class += " via " + strings.TrimPrefix(orig, "foreign:")
	}
	if r.Kind == ev.Condition {
		cls := r.Class
		if i := strings.Index(cls, " via "); i >= 0 {
			cls = cls[:i]
		}
		if slip.FindClass(cls) == nil {
			r.Kind = ev.Fault
			r.Msg = "condition of unregistered class " + cls + ": " + r.Msg
		}
	}
	if r.Kind == ev.Fault {
		r.Key, r.Site = key, site
		if r.Key == "" {
			r.Key = "?"
		}
	}
	return
}

func clip(s string, n int) string {
	if len(s) > n {
		return s[:n] + "..."
	}
	return s
}

// ---------------------------------------------------------------------------------------------
// Parent side.

type client struct {
	cmd    *osProc
	req    *os.File
	lines  chan string
	dir    string
	calls  int
	errlog string
}

var (
	clientSeq int
	clientMu  sync.Mutex
)

// Verdicts of running a batch.
const (
	vOK      = "ok"
	vTimeout = "timeout" // no answer within the heart-beat budget
	vDied    = "died"    // the worker process ended
	vMemory  = "memory"  // heap limit exceeded
	vStarved = "starved" // the worker was not scheduled at all for a long time: inconclusive
)

func workDir() string {
	d := os.Getenv("VERIF_WORK")
	if d == "" {
		d = filepath.Join(os.TempDir(), "c09work")
	}
	_ = os.MkdirAll(d, 0o755)
	return d
}

func startClient() (*client, error) {
	clientMu.Lock()
	clientSeq++
	n := clientSeq
	clientMu.Unlock()
	dir := filepath.Join(workDir(), fmt.Sprintf("w%d-%d", os.Getpid(), n))
	if err := os.MkdirAll(dir, 0o755); err != nil {
		return nil, err
	}
	c := &client{dir: dir, errlog: filepath.Join(dir, ".stderr")}
	p, req, rep, err := spawnWorker(dir, c.errlog)
	if err != nil {
		return nil, err
	}
	c.cmd, c.req = p, req
	c.lines = make(chan string, 4096)
	go func() {
		sc := bufio.NewScanner(rep)
		sc.Buffer(make([]byte, 1<<16), 16<<20)
		for sc.Scan() {
			c.lines <- sc.Text()
		}
		close(c.lines)
		_ = rep.Close()
	}()
	return c, nil
}

func (c *client) stop() {
	if c == nil {
		return
	}
	_ = c.req.Close()
	c.cmd.kill()
	// drain so the reader goroutine ends
	go func() {
		for range c.lines {
		}
	}()
	_ = os.RemoveAll(c.dir)
}

func (c *client) stderrTail() string {
	b, _ := os.ReadFile(c.errlog)
	s := string(b)
	if len(s) > 600 {
		// the first lines of a Go fatal error say what happened
		s = s[:600]
	}
	return strings.TrimSpace(s)
}

// run sends a batch and collects the results. beats is the number of heart beats without progress
// after which the call in flight counts as not answering. It returns the results obtained, the index
// of the suspect call (-1 = none) and the verdict.
func (c *client) run(batch []Call, beats int) (results []Res, suspect int, verdict string, info string) {
	b, _ := json.Marshal(batch)
	b = append(b, '\n')
	if _, err := c.req.Write(b); err != nil {
		return nil, 0, vDied, "write: " + err.Error() + " " + c.stderrTail()
	}
	c.calls += len(batch)
	inflight := -1
	next := 0
	nbeats := 0
	silent := 0
	tick := time.NewTicker(2 * time.Second)
	defer tick.Stop()
	for {
		select {
		case line, ok := <-c.lines:
			if !ok {
				s := inflight
				if s < 0 {
					s = next
				}
				return results, s, vDied, c.stderrTail()
			}
			silent = 0
			switch {
			case line == "H":
				nbeats++
				if nbeats >= beats {
					s := inflight
					if s < 0 {
						s = next
					}
					return results, s, vTimeout, ""
				}
			case line == "D":
				return results, -1, vOK, ""
			case strings.HasPrefix(line, "B "):
				fmt.Sscanf(line, "B %d", &inflight)
				nbeats = 0
			case strings.HasPrefix(line, "A "):
				var i int
				fmt.Sscanf(line, "A %d", &i)
				var r Res
				if j := strings.IndexByte(line[2:], ' '); j >= 0 {
					_ = json.Unmarshal([]byte(line[2+j+1:]), &r)
				}
				results = append(results, r)
				next = i + 1
				inflight = -1
				nbeats = 0
			case strings.HasPrefix(line, "M "):
				s := inflight
				if s < 0 {
					s = next
				}
				return results, s, vMemory, line
			}
		case <-tick.C:
			silent++
			if silent > 90 { // three minutes without even a heart beat
				s := inflight
				if s < 0 {
					s = next
				}
				return results, s, vStarved, ""
			}
		}
	}
}
