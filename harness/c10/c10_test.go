package c10

import (
	"fmt"
	"sort"
	"strconv"
	"strings"
	"sync"
	"sync/atomic"
	"testing"

	"github.com/ohler55/slip"
	"pgregory.net/rapid"

	"verif/harness/internal/ev"
	"verif/harness/internal/h"
	ref "verif/harness/internal/refdispatch"
	"verif/harness/internal/sx"
)

func TestMain(m *testing.M) { h.Main(m, "C10") }

// Op is one step of a history.
//
//	def : defmethod with qualifier Q ("" primary, before, after, around), specializers S ("_" = unspecialized
//	      parameter), around style V ("" | stop | twice | nmp | noargs); the identity of the method is the
//	      1-based index of the op in the history
//	rm  : (remove-method g (find-method g '(Q) '(S))) when the model has the method, else find-method must be nil
//	call: call with the argument tokens A, trace and result compared with the model
//	cam : compute-applicable-methods for A, compared as a set
type Op struct {
	K string   `json:"k"`
	Q string   `json:"q,omitempty"`
	S []string `json:"s,omitempty"`
	V string   `json:"v,omitempty"`
	A []string `json:"a,omitempty"`
}

// Case is a history over one fresh generic function of N required arguments in universe U.
// Form: "" = (defgeneric g (x y)) first; "implicit" = the first defmethod creates the generic function;
// "options" = the leading def ops are :method options of the defgeneric form.
type Case struct {
	U    string `json:"u"`
	N    int    `json:"n"`
	Form string `json:"form,omitempty"`
	Ops  []Op   `json:"ops"`
}

var (
	gctr    int64
	argOnce sync.Once
	argVals = map[string]slip.Object{}
	params  = []string{"x", "y"}
)

func setup() {
	argOnce.Do(func() {
		s := slip.NewScope()
		argVals["fix"] = slip.Fixnum(1)
		argVals["big"] = ev.MustEval(s, "1180591620717411303424")
		argVals["ratio"] = ev.MustEval(s, "1/2")
		argVals["dbl"] = ev.MustEval(s, "1.5")
		argVals["sgl"] = ev.MustEval(s, "1.5s0")
		argVals["sym"] = slip.Symbol("a")
		ev.MustEval(s, "(defclass c10k4 () ())")
		ev.MustEval(s, "(defclass c10k3 (c10k4) ())")
		ev.MustEval(s, "(defclass c10k2 (c10k3) ())")
		ev.MustEval(s, "(defclass c10k1 (c10k2) ())")
		for i := 1; i <= 4; i++ {
			argVals["i"+strconv.Itoa(i)] = ev.MustEval(s, fmt.Sprintf("(make-instance 'c10k%d)", i))
		}
		// another generic function, with an :around method of its own and no marks: an :around method of style
		// "nested" calls it before its call-next-method, which must go on with the chain of the outer call
		ev.MustEval(s, "(defgeneric c10-helper (x))")
		ev.MustEval(s, "(defmethod c10-helper ((x t)) x)")
		ev.MustEval(s, "(defmethod c10-helper :around ((x t)) (list 0 (call-next-method)))") // without arguments: those of this call
	})
}

func newScope(u *ref.Universe) *slip.Scope {
	setup()
	s := slip.NewScope()
	for _, a := range u.Args {
		s.Let(slip.Symbol("v"+a), argVals[a])
	}
	return s
}

func validQual(q string) bool { return q == "" || q == "before" || q == "after" || q == "around" }

func validate(c Case) (*ref.Universe, string) {
	u := ref.Universes[c.U]
	if u == nil {
		return nil, "unknown universe"
	}
	if c.N < 1 || c.N > 2 {
		return nil, "arity"
	}
	specs := map[string]bool{"_": true}
	for _, s := range u.Specs {
		specs[s] = true
	}
	for _, op := range c.Ops {
		switch op.K {
		case "def", "rm":
			if len(op.S) != c.N || !validQual(op.Q) {
				return nil, "bad def/rm"
			}
			for _, s := range op.S {
				if !specs[s] {
					return nil, "bad specializer " + s
				}
			}
		case "call", "cam":
			if len(op.A) != c.N {
				return nil, "bad call"
			}
			for _, a := range op.A {
				if u.CPL[a] == nil {
					return nil, "bad argument " + a
				}
			}
		default:
			return nil, "bad op " + op.K
		}
	}
	return u, ""
}

// lambdaList renders the specialized lambda list; tagged adds a trailing required parameter tag.
func lambdaList(specs []string, tagged bool) string {
	var b strings.Builder
	b.WriteByte('(')
	for i, s := range specs {
		if i > 0 {
			b.WriteByte(' ')
		}
		if s == "_" {
			b.WriteString(params[i])
		} else {
			fmt.Fprintf(&b, "(%s %s)", params[i], s)
		}
	}
	if tagged {
		b.WriteString(" (tag t)")
	}
	b.WriteByte(')')
	return b.String()
}

// methodBody: bodies only emit identities through vt:mark (untagged: (vt:mark id [value]); tagged: (vt:mark tag id)).
// Only ordinary functions are used (list, vt:mark, call-next-method, next-method-p): their argument forms are
// compiled when the method is defined. Special forms (prog1, let, ...) compile their arguments in place at the first
// evaluation, unsynchronised, which is a race between concurrent first calls that has nothing to do with dispatch
// (see notes/C10.md, observation O1).
func methodBody(q, style string, id, n int, tagged bool) string {
	mark := func(v int) string {
		if tagged {
			return fmt.Sprintf("(vt:mark tag %d)", v)
		}
		return fmt.Sprintf("(vt:mark %d)", v)
	}
	cnm := "(call-next-method " + strings.Join(params[:n], " ")
	if tagged {
		cnm += " tag"
	}
	cnm += ")"
	switch q {
	case "before", "after":
		return mark(id)
	case "around":
		switch style {
		case "stop":
			return fmt.Sprintf("%s %d", mark(id), id)
		case "twice":
			return fmt.Sprintf("%s (list %d %s %s %s)", mark(id), id, cnm, cnm, mark(-id))
		case "nmp":
			return fmt.Sprintf("(vt:mark %d (next-method-p)) (list %d %s %s)", id, id, cnm, mark(-id))
		case "noargs":
			return fmt.Sprintf("%s (list %d (call-next-method) %s)", mark(id), id, mark(-id))
		case "nested":
			if !tagged {
				// the value of the nested call is recorded with the mark: its methods must get its own argument
				return fmt.Sprintf("(vt:mark %d (c10-helper 0)) (list %d %s %s)", id, id, cnm, mark(-id))
			}
			return fmt.Sprintf("%s (c10-helper 0) (list %d %s %s)", mark(id), id, cnm, mark(-id))
		}
		return fmt.Sprintf("%s (list %d %s %s)", mark(id), id, cnm, mark(-id))
	}
	return fmt.Sprintf("%s %d", mark(id), id)
}

func qualText(q string) string {
	if q == "" {
		return ""
	}
	return ":" + q + " "
}

func specList(specs []string) string {
	out := make([]string, len(specs))
	for i, s := range specs {
		out[i] = ref.NormSpec(s)
	}
	return "(" + strings.Join(out, " ") + ")"
}

func argText(args []string) string {
	out := make([]string, len(args))
	for i, a := range args {
		out[i] = "v" + a
	}
	return strings.Join(out, " ")
}

func findForm(name string, op Op) string {
	q := "()"
	if op.Q != "" {
		q = "(:" + op.Q + ")"
	}
	return fmt.Sprintf("(find-method '%s '%s '%s)", name, q, specList(op.S))
}

func bucket(n int) string {
	switch {
	case n <= 3:
		return strconv.Itoa(n)
	case n <= 6:
		return "4-6"
	case n <= 12:
		return "7-12"
	case n <= 25:
		return "13-25"
	}
	return "26+"
}

// exclusion tags of open findings: predicates over the case.
func historyExcluded(c Case) string {
	return ""
}

func runHistory(c Case) *h.Result {
	u, bad := validate(c)
	if u == nil {
		return h.Fail("malformed case: %s", bad)
	}
	res := &h.Result{Classes: []string{"arity:" + strconv.Itoa(c.N), "universe:" + c.U, "form:" + c.Form, "len:" + bucket(len(c.Ops))}}
	if tag := historyExcluded(c); tag != "" {
		res.Skip = tag
		return res
	}
	name := fmt.Sprintf("c10g%d", atomic.AddInt64(&gctr, 1))
	defer slip.CurrentPackage.Undefine(name)
	scope := newScope(u)
	table := ref.NewTable(u)
	gll := "(" + strings.Join(params[:c.N], " ") + ")"
	exists := false
	start := 0
	fail := func(i int, format string, args ...any) *h.Result {
		res.Err = fmt.Sprintf("%s op %d %v: ", name, i+1, c.Ops[i]) + fmt.Sprintf(format, args...)
		return res
	}
	switch c.Form {
	case "":
		if o := ev.Eval(scope, fmt.Sprintf("(defgeneric %s %s)", name, gll)); o.Kind != ev.Value {
			res.Err = "defgeneric failed: " + o.String()
			return res
		}
		exists = true
	case "options":
		var b strings.Builder
		fmt.Fprintf(&b, "(defgeneric %s %s", name, gll)
		for start < len(c.Ops) && c.Ops[start].K == "def" {
			op := c.Ops[start]
			fmt.Fprintf(&b, " (:method %s%s %s)", qualText(op.Q), lambdaList(op.S, false), methodBody(op.Q, op.V, start+1, c.N, false))
			table.Define(&ref.Method{Qual: op.Q, Specs: op.S, ID: start + 1, Style: op.V})
			start++
		}
		b.WriteByte(')')
		if o := ev.Eval(scope, b.String()); o.Kind != ev.Value {
			res.Err = "defgeneric with :method options failed: " + o.String() + " form " + b.String()
			return res
		}
		exists = true
	case "implicit":
	default:
		return h.Fail("malformed case: form %q", c.Form)
	}
	lastIDs := map[string]string{} // call tuple -> applicable set at the previous call with that tuple
	triples, checkedCalls, maxApp, maxAround := 0, 0, 0, 0
	var nDef, nRedef, nRm, nCall, nCam, nNone, nNoPrim int64
	for i := start; i < len(c.Ops); i++ {
		op := c.Ops[i]
		if !exists && op.K != "def" {
			continue // the generic function does not exist yet (implicit form)
		}
		switch op.K {
		case "def":
			src := fmt.Sprintf("(defmethod %s %s%s %s)", name, qualText(op.Q), lambdaList(op.S, false), methodBody(op.Q, op.V, i+1, c.N, false))
			if o := ev.Eval(scope, src); o.Kind != ev.Value {
				return fail(i, "%s => %s", src, o)
			}
			if table.Has(op.Q, op.S) {
				nRedef++
			}
			table.Define(&ref.Method{Qual: op.Q, Specs: op.S, ID: i + 1, Style: op.V})
			exists = true
			nDef++
		case "rm":
			ff := findForm(name, op)
			if !table.Has(op.Q, op.S) {
				o := ev.Eval(scope, ff)
				if o.Kind != ev.Value || o.Val != nil {
					return fail(i, "%s: no such method is defined, expected nil, got %s", ff, o)
				}
				continue
			}
			src := fmt.Sprintf("(remove-method '%s %s)", name, ff)
			if o := ev.Eval(scope, src); o.Kind != ev.Value {
				return fail(i, "%s => %s", src, o)
			}
			table.Remove(op.Q, op.S)
			nRm++
		case "call":
			nCall++
			e := table.Expect(op.A)
			if e.Count > maxApp {
				maxApp = e.Count
			}
			if e.Arounds > maxAround {
				maxAround = e.Arounds
			}
			src := fmt.Sprintf("(%s %s)", name, argText(op.A))
			ev.ResetTrace()
			o := ev.Eval(scope, src)
			got := ev.TraceString()
			ck := strings.Join(op.A, " ")
			prev, called := lastIDs[ck]
			lastIDs[ck] = e.IDs
			if o.Kind == ev.Fault {
				return fail(i, "%s => %s", src, o)
			}
			switch {
			case e.None:
				nNone++
				if o.Kind != ev.Condition || got != "" {
					return fail(i, "no method is applicable: expected a condition and no method run, got %s trace [%s]", o, got)
				}
			case e.NoPrimary:
				nNoPrim++ // applicable daemons but no primary: slip returns nil, CL signals; not fixed by the property
				continue
			default:
				want := strings.Join(e.Trace, " ")
				if o.Kind != ev.Value {
					return fail(i, "expected trace [%s] result %s, got %s trace [%s]", want, e.Result, o, got)
				}
				if r := sx.Text(o.Val); got != want || r != e.Result {
					return fail(i, "expected trace [%s] result %s, got trace [%s] result %s", want, e.Result, got, r)
				}
			}
			checkedCalls++
			if called && prev != e.IDs {
				triples++
			}
		case "cam":
			nCam++
			src := fmt.Sprintf("(compute-applicable-methods '%s (list %s))", name, argText(op.A))
			o := ev.Eval(scope, src)
			if o.Kind != ev.Value {
				return fail(i, "%s => %s", src, o)
			}
			if msg := checkCam(table, op.A, o.Val); msg != "" {
				return fail(i, "%s: %s", src, msg)
			}
		}
	}
	h.Class("op:def", nDef)
	h.Class("op:redefine", nRedef)
	h.Class("op:remove", nRm)
	h.Class("op:call", nCall)
	h.Class("op:compute-applicable-methods", nCam)
	h.Class("call:nothing-applicable", nNone)
	h.Class("call:no-primary(dont-care)", nNoPrim)
	res.NonTrivial = triples > 0
	res.Classes = append(res.Classes, "stale-triples:"+bucket(triples), "max-applicable:"+bucket(maxApp), "max-arounds:"+bucket(maxAround))
	return res
}

// checkCam compares the result of compute-applicable-methods as a set: every method that must run is
// listed, nothing that is not applicable is listed, nothing twice. Less specific primaries (applicable but
// never run, because primaries cannot call-next-method in slip) may or may not be listed.
func checkCam(t *ref.Table, args []string, val slip.Object) string {
	list, ok := val.(slip.List)
	if !ok && val != nil {
		return "result is not a list: " + sx.Text(val)
	}
	got := map[string]int{}
	var gotKeys []string
	for _, o := range list {
		m, isM := o.(*slip.Method)
		if !isM || len(m.Combinations) != 1 || m.Doc == nil || len(m.Doc.Args) < len(args) {
			return "element is not a method with one daemon: " + ev.Show(o)
		}
		cmb := m.Combinations[0]
		var quals []string
		if cmb.Primary != nil {
			quals = append(quals, "")
		}
		if cmb.Before != nil {
			quals = append(quals, "before")
		}
		if cmb.After != nil {
			quals = append(quals, "after")
		}
		if cmb.Wrap != nil {
			quals = append(quals, "around")
		}
		if len(quals) != 1 {
			return "element is not a method with one daemon: " + ev.Show(o)
		}
		specs := make([]string, len(args))
		for i := range args {
			specs[i] = m.Doc.Args[i].Type
			if specs[i] == "" {
				specs[i] = "t"
			}
		}
		k := ref.Key(quals[0], specs)
		got[k]++
		gotKeys = append(gotKeys, k)
	}
	run, other := t.Run(args)
	allowed := map[string]bool{}
	for _, m := range run {
		k := ref.Key(m.Qual, m.Specs)
		allowed[k] = true
		if got[k] != 1 {
			return fmt.Sprintf("method %s must run for these arguments but is listed %d times in %v", k, got[k], gotKeys)
		}
	}
	for _, m := range other {
		allowed[ref.Key(m.Qual, m.Specs)] = true
	}
	sort.Strings(gotKeys)
	for _, k := range gotKeys {
		if !allowed[k] {
			return fmt.Sprintf("method %s is listed but is not applicable (or not defined); listed %v", k, gotKeys)
		}
		if got[k] > 1 {
			return fmt.Sprintf("method %s is listed %d times", k, got[k])
		}
	}
	return ""
}

// ---------------------------------------------------------------- class precedence table

// CPLCase names one argument of one universe.
type CPLCase struct {
	U string `json:"u"`
	A string `json:"a"`
}

func runCPL(c CPLCase) *h.Result {
	u := ref.Universes[c.U]
	if u == nil || u.CPL[c.A] == nil {
		return h.Fail("malformed case")
	}
	scope := newScope(u)
	o := ev.Eval(scope, fmt.Sprintf("(class-precedence (class-of v%s))", c.A))
	want := "(" + strings.Join(u.CPL[c.A], " ") + ")"
	if o.Kind != ev.Value || sx.Text(o.Val) != want {
		return h.Fail("class precedence of %s/%s: the model's table says %s, slip says %s", c.U, c.A, want, o)
	}
	// the hierarchy used by dispatch is the Go-level Hierarchy(); it must be the same list
	var hs []string
	for _, s := range argVals[c.A].Hierarchy() {
		hs = append(hs, string(s))
	}
	if g := "(" + strings.Join(hs, " ") + ")"; g != want {
		return h.Fail("Hierarchy() of %s/%s is %s, class-precedence is %s", c.U, c.A, g, want)
	}
	return &h.Result{NonTrivial: true, Classes: []string{"cpl"}}
}

// ---------------------------------------------------------------- generator

var quals = []string{"", "before", "after", "around"}

func genHistory(rt *rapid.T) Case {
	c := Case{U: "num", N: rapid.IntRange(1, 2).Draw(rt, "arity")}
	if rapid.IntRange(0, 9).Draw(rt, "universe") < 3 {
		c.U = "usr"
	}
	switch rapid.IntRange(0, 9).Draw(rt, "form") {
	case 0, 1:
		c.Form = "implicit"
	case 2, 3:
		c.Form = "options"
	}
	u := ref.Universes[c.U]
	// a small pool of call tuples and of specializer tuples (mostly applicable to a pooled call) so that
	// definitions, removals and calls meet on the same cache keys
	nCalls := rapid.IntRange(1, 3).Draw(rt, "ncalls")
	calls := make([][]string, nCalls)
	for i := range calls {
		calls[i] = make([]string, c.N)
		for j := range calls[i] {
			calls[i][j] = rapid.SampledFrom(u.Args).Draw(rt, "arg")
		}
	}
	nSpecs := rapid.IntRange(1, 5).Draw(rt, "nspecs")
	specs := make([][]string, nSpecs)
	for i := range specs {
		specs[i] = make([]string, c.N)
		base := calls[rapid.IntRange(0, nCalls-1).Draw(rt, "base")]
		for j := range specs[i] {
			switch k := rapid.IntRange(0, 19).Draw(rt, "speckind"); {
			case k == 0:
				specs[i][j] = "_"
			case k < 4:
				specs[i][j] = rapid.SampledFrom(u.Specs).Draw(rt, "spec")
			default:
				specs[i][j] = rapid.SampledFrom(u.CPL[base[j]]).Draw(rt, "cplspec")
			}
		}
	}
	n := rapid.IntRange(1, 40).Draw(rt, "len")
	type mk struct {
		q string
		s []string
	}
	var defined []mk
	has := map[string]int{}
	twice := 0
	if rapid.IntRange(0, 9).Draw(rt, "base-primary") < 6 {
		// most histories start with a primary on (t ...): without any applicable primary a call is outside the checked domain
		ts := make([]string, c.N)
		for j := range ts {
			ts[j] = "t"
		}
		c.Ops = append(c.Ops, Op{K: "def", S: ts})
		has[ref.Key("", ts)] = 0
		defined = append(defined, mk{"", ts})
	}
	// rapid draws small values more often than large ones; the tables interleave the alternatives so that the
	// intended proportions (def 35%, call 35%, rm 20%, cam 10%) hold for small and large draws alike
	kinds := []string{"def", "call", "def", "call", "rm", "def", "call", "cam", "def", "call", "rm", "def", "call", "def", "call", "rm", "rmany", "cam", "def", "call"}
	qualTab := []int{0, 3, 1, 2, 0, 3, 1, 2, 0, 3}
	styleTab := []string{"", "nmp", "nested", "noargs", "", "twice", "nested", "stop", "", "nmp", "nested", "", "noargs", "", "twice", "nested", "stop", "", "nmp", ""}
	for i := 0; i < n; i++ {
		kind := kinds[rapid.IntRange(0, len(kinds)-1).Draw(rt, "op")]
		if kind == "rm" && len(defined) == 0 {
			kind = "def"
		}
		switch kind {
		case "def":
			op := Op{K: "def", Q: quals[qualTab[rapid.IntRange(0, len(qualTab)-1).Draw(rt, "qual")]],
				S: specs[rapid.IntRange(0, nSpecs-1).Draw(rt, "specsel")]}
			if op.Q == "around" {
				op.V = styleTab[rapid.IntRange(0, len(styleTab)-1).Draw(rt, "style")]
				if op.V == "twice" {
					if twice >= 2 {
						op.V = "" // at most two: every "twice" doubles the length of the trace
					} else {
						twice++
					}
				}
			}
			key := ref.Key(op.Q, op.S)
			if _, was := has[key]; !was {
				has[key] = len(defined)
				defined = append(defined, mk{op.Q, op.S})
			}
			c.Ops = append(c.Ops, op)
		case "call":
			c.Ops = append(c.Ops, Op{K: "call", A: calls[rapid.IntRange(0, nCalls-1).Draw(rt, "callsel")]})
		case "rm":
			// remove a method that was defined at some point (it may already be gone: then find-method is checked)
			m := defined[rapid.IntRange(0, len(defined)-1).Draw(rt, "rmsel")]
			c.Ops = append(c.Ops, Op{K: "rm", Q: m.q, S: m.s})
		case "rmany":
			c.Ops = append(c.Ops, Op{K: "rm", Q: quals[rapid.IntRange(0, 3).Draw(rt, "rmq")], S: specs[rapid.IntRange(0, nSpecs-1).Draw(rt, "rmspec")]})
		default:
			c.Ops = append(c.Ops, Op{K: "cam", A: calls[rapid.IntRange(0, nCalls-1).Draw(rt, "camsel")]})
		}
	}
	return c
}

// ---------------------------------------------------------------- bounded-exhaustive enumeration

type alphabet struct {
	n     int
	quals []string
	specs [][]string
	calls [][]string
	len   int
}

// enumerate yields every history of exactly a.len ops over the alphabet whose last op is a call and whose
// rm ops only name existing methods (every shorter history is a prefix of one of them, and every call of a
// history is checked). Histories are numbered; only those with index%nsh == sh are yielded.
func enumerate(a alphabet, sh, nsh int, yield func(Case) bool) (total int64) {
	type mdef struct {
		q string
		s []string
	}
	var all []mdef
	for _, q := range a.quals {
		for _, s := range a.specs {
			all = append(all, mdef{q, s})
		}
	}
	present := make([]bool, len(all))
	ops := make([]Op, 0, a.len)
	stop := false
	var rec func(d int)
	rec = func(d int) {
		if stop {
			return
		}
		if d == a.len-1 {
			for _, cl := range a.calls {
				total++
				if int((total-1)%int64(nsh)) != sh {
					continue
				}
				c := Case{U: "num", N: a.n, Ops: append(append([]Op(nil), ops...), Op{K: "call", A: cl})}
				if !yield(c) {
					stop = true
					return
				}
			}
			return
		}
		for i, m := range all {
			was := present[i]
			present[i] = true
			ops = append(ops, Op{K: "def", Q: m.q, S: m.s})
			rec(d + 1)
			ops = ops[:len(ops)-1]
			present[i] = was
			if stop {
				return
			}
		}
		for i, m := range all {
			if !present[i] {
				continue
			}
			present[i] = false
			ops = append(ops, Op{K: "rm", Q: m.q, S: m.s})
			rec(d + 1)
			ops = ops[:len(ops)-1]
			present[i] = true
			if stop {
				return
			}
		}
		for _, cl := range a.calls {
			ops = append(ops, Op{K: "call", A: cl})
			rec(d + 1)
			ops = ops[:len(ops)-1]
			if stop {
				return
			}
		}
	}
	rec(0)
	return
}

func tuples(xs []string, n int) [][]string {
	if n == 1 {
		out := make([][]string, len(xs))
		for i, x := range xs {
			out[i] = []string{x}
		}
		return out
	}
	var out [][]string
	for _, x := range xs {
		for _, y := range xs {
			out = append(out, []string{x, y})
		}
	}
	return out
}

var (
	history = h.Prop[Case]{Name: "history", Gen: genHistory, Run: runHistory}
	exh1    = h.Prop[Case]{Name: "exhaustive-1arg", Run: runHistory}
	exh2    = h.Prop[Case]{Name: "exhaustive-2arg", Run: runHistory}
	cpl     = h.Prop[CPLCase]{Name: "class-precedence-table", Run: runCPL}
	conc    = h.Prop[ConcCase]{Name: "concurrent", Gen: genConc, Run: runConc}
)

func rules() {
	h.Rule("a case is a history of def (defmethod with qualifier, specializer tuple, around style; identity = op index) / rm (remove-method via find-method) / " +
		"call / cam (compute-applicable-methods) over one fresh generic function of 1 or 2 required arguments; universes: built-in numeric tower + symbol " +
		"(arguments 1, 2^70, 1/2, 1.5, 1.5s0, 'a) and a chain of four defclass classes. Random histories of 1-40 ops draw from a pool of 1-3 call tuples and 1-5 " +
		"specializer tuples (80% taken from the precedence list of a pooled call). Exhaustive enumerations: every history of exactly L ops ending in a call over a " +
		"reduced alphabet (see the notes of the run). Concurrent cases: 2-4 routines calling while one routine runs 1-8 def/rm. Oracle = internal/refdispatch (cache-free " +
		"dispatcher over the model's method table, own precedence table); after every call the vt:mark trace and the returned value must equal the model's (concurrent: " +
		"the model's for some table version that existed during the call). Non-trivial: the history contains call(c) -> definition/removal that changes the applicable " +
		"set of c -> call(c) whose outcome is checked (the stale-cache triple); concurrent: some call overlapped a definition/removal. Distinct by case text.")
	h.Assume("internal/refdispatch encodes the standard method combination as design/generics.md describes it; class precedence lists are a table in the model, compared with slip's class-precedence and Hierarchy() by sub-property class-precedence-table")
	h.Assume("vt:mark (harness Go built-in) records the trace; method bodies use only vt:mark, list, call-next-method, next-method-p")
}

func TestC10History(t *testing.T) {
	rules()
	h.RunProp(t, cpl, 0)
	h.RunProp(t, history, h.N(40000, 300000))
	if h.C.Shard == 0 {
		h.Enumerate(t, cpl, func(yield func(CPLCase) bool) {
			for _, un := range []string{"num", "usr"} {
				for _, a := range ref.Universes[un].Args {
					if !yield(CPLCase{U: un, A: a}) {
						return
					}
				}
			}
		})
	}
}

func TestC10Concurrent(t *testing.T) {
	rules()
	h.RunProp(t, conc, h.N(1500, 6000))
}

func TestC10Exhaustive(t *testing.T) {
	rules()
	h.RunProp(t, exh1, 0)
	h.RunProp(t, exh2, 0)
	sh, nsh := h.C.Shard, h.C.NShards
	if !h.Thorough() {
		sh, nsh = 0, 1
	}
	a1 := alphabet{n: 1, quals: quals, specs: tuples([]string{"integer", "real"}, 1), calls: tuples([]string{"fix", "dbl"}, 1), len: 5}
	a2 := alphabet{n: 2, quals: []string{"", "before", "around"}, specs: tuples([]string{"integer", "real"}, 2), calls: tuples([]string{"fix", "dbl"}, 2), len: 4}
	if h.Thorough() {
		a1.len = 7
		a2.len = 5
	}
	h.Enumerate(t, exh1, func(yield func(Case) bool) {
		n := enumerate(a1, sh, nsh, yield)
		if sh == 0 {
			h.Note("exhaustive-1arg: all %d histories of %d ops ending in a call over {def x (4 qualifiers x {integer, real}), rm of an existing method, call x {1, 1.5}}", n, a1.len)
		}
	})
	h.Enumerate(t, exh2, func(yield func(Case) bool) {
		n := enumerate(a2, sh, nsh, yield)
		if sh == 0 {
			h.Note("exhaustive-2arg: all %d histories of %d ops ending in a call over {def x ({primary, before, around} x {integer, real}^2), rm of an existing method, call x {1, 1.5}^2}", n, a2.len)
		}
	})
}
