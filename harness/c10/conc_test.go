package c10

import (
	"fmt"
	"runtime"
	"strconv"
	"strings"
	"sync"
	"sync/atomic"

	"github.com/ohler55/slip"
	"pgregory.net/rapid"

	"verif/harness/internal/ev"
	"verif/harness/internal/h"
	ref "verif/harness/internal/refdispatch"
	"verif/harness/internal/sx"
)

// ConcCase: Pre is defined sequentially, then R routines each make Iter calls (cycling through Calls, each
// routine starting at a different offset) while one routine executes Mut (def / rm) spread over the run.
// Every method takes a trailing required parameter tag (unspecialized) and marks (tag id), so the global trace
// splits into one private trace per call. Schedule dependent by nature: a replay re-runs the same program.
type ConcCase struct {
	U     string     `json:"u"`
	N     int        `json:"n"`
	Pre   []Op       `json:"pre"`
	Mut   []Op       `json:"mut"`
	Calls [][]string `json:"calls"`
	R     int        `json:"r"`
	Iter  int        `json:"iter"`
}

type callRec struct {
	tag    int
	args   []string
	lo, hi int // method table versions that existed between start and end of the call
	out    ev.Outcome
}

func concExcluded(c ConcCase) string {
	return ""
}

func runConc(c ConcCase) *h.Result {
	hc := Case{U: c.U, N: c.N, Ops: append(append([]Op(nil), c.Pre...), c.Mut...)}
	for _, a := range c.Calls {
		hc.Ops = append(hc.Ops, Op{K: "call", A: a})
	}
	u, bad := validate(hc)
	if u == nil || c.R < 1 || c.R > 8 || c.Iter < 1 || c.Iter > 2000 || len(c.Calls) == 0 {
		return h.Fail("malformed case: %s", bad)
	}
	for _, op := range hc.Ops {
		if op.K == "cam" || (op.K == "def" && op.V != "") {
			return h.Fail("malformed case: only plain def/rm/call")
		}
	}
	res := &h.Result{Classes: []string{"conc-arity:" + strconv.Itoa(c.N), "conc-routines:" + strconv.Itoa(c.R)}}
	if tag := concExcluded(c); tag != "" {
		res.Skip = tag
		return res
	}
	name := fmt.Sprintf("c10c%d", atomic.AddInt64(&gctr, 1))
	defer slip.CurrentPackage.Undefine(name)
	scope := newScope(u)
	gll := "(" + strings.Join(params[:c.N], " ") + " tag)"
	if o := ev.Eval(scope, fmt.Sprintf("(defgeneric %s %s)", name, gll)); o.Kind != ev.Value {
		return h.Fail("defgeneric failed: %s", o)
	}
	table := ref.NewTable(u)
	table.Tagged = true
	apply := func(s *slip.Scope, op Op, id int) string {
		switch op.K {
		case "def":
			src := fmt.Sprintf("(defmethod %s %s%s %s)", name, qualText(op.Q), lambdaList(op.S, true), methodBody(op.Q, "", id, c.N, true))
			if o := ev.Eval(s, src); o.Kind != ev.Value {
				return fmt.Sprintf("%s => %s", src, o)
			}
			table.Define(&ref.Method{Qual: op.Q, Specs: op.S, ID: id})
		case "rm":
			if !table.Has(op.Q, op.S) {
				return ""
			}
			sp := specList(op.S)
			q := "()"
			if op.Q != "" {
				q = "(:" + op.Q + ")"
			}
			src := fmt.Sprintf("(remove-method '%s (find-method '%s '%s '%s))", name, name, q, sp[:len(sp)-1]+" t)")
			if o := ev.Eval(s, src); o.Kind != ev.Value {
				return fmt.Sprintf("%s => %s", src, o)
			}
			table.Remove(op.Q, op.S)
		}
		return ""
	}
	for i, op := range c.Pre {
		if msg := apply(scope, op, i+1); msg != "" {
			return h.Fail("set-up: %s", msg)
		}
	}
	versions := []*ref.Table{table.Clone()}
	ev.ResetTrace()
	var (
		started, done, calls int64
		wg                   sync.WaitGroup
		recs                 = make([][]callRec, c.R)
		mutErr               string
	)
	total := int64(c.R * c.Iter)
	wg.Add(c.R + 1)
	go func() {
		defer wg.Done()
		for i, op := range c.Mut {
			// spread the mutations over the run: wait until the callers made their share of calls
			target := total * int64(i+1) / int64(len(c.Mut)+1)
			for atomic.LoadInt64(&calls) < target {
				runtime.Gosched()
			}
			atomic.StoreInt64(&started, int64(i+1))
			msg := apply(scope, op, len(c.Pre)+i+1)
			versions = append(versions, table.Clone())
			atomic.StoreInt64(&done, int64(i+1))
			if msg != "" {
				mutErr = msg
				return
			}
		}
	}()
	for r := 0; r < c.R; r++ {
		go func(r int) {
			defer wg.Done()
			s := newScope(u)
			for i := 0; i < c.Iter; i++ {
				args := c.Calls[(r+i)%len(c.Calls)]
				tag := (r+1)*1000000 + i
				src := fmt.Sprintf("(%s %s %d)", name, argText(args), tag)
				lo := int(atomic.LoadInt64(&done))
				o := ev.Eval(s, src)
				hi := int(atomic.LoadInt64(&started))
				atomic.AddInt64(&calls, 1)
				recs[r] = append(recs[r], callRec{tag: tag, args: args, lo: lo, hi: hi, out: o})
			}
		}(r)
	}
	wg.Wait()
	// a mutation that was cut short by an error still advanced `started`
	for len(versions) <= int(started) {
		versions = append(versions, table.Clone())
	}
	if mutErr != "" {
		res.Err = "definer routine: " + mutErr
		return res
	}
	per := map[string][]string{}
	for _, e := range ev.Trace() {
		per[e.ID] = append(per[e.ID], e.Val)
	}
	overlap, changed := 0, 0
	for r := range recs {
		for _, rec := range recs[r] {
			got := strings.Join(per[strconv.Itoa(rec.tag)], " ")
			if rec.out.Kind == ev.Fault {
				res.Err = fmt.Sprintf("%s call %v (tag %d): %s", name, rec.args, rec.tag, rec.out)
				return res
			}
			if rec.hi > rec.lo {
				overlap++
			}
			okay, dontCare := false, false
			var wants []string
			for v := rec.lo; v <= rec.hi && !okay; v++ {
				e := versions[v].Expect(rec.args)
				switch {
				case e.NoPrimary:
					dontCare = true
				case e.None:
					wants = append(wants, "v"+strconv.Itoa(v)+": condition, no method run")
					okay = rec.out.Kind == ev.Condition && got == ""
				default:
					want := strings.Join(e.Trace, " ")
					wants = append(wants, fmt.Sprintf("v%d: [%s] => %s", v, want, e.Result))
					okay = rec.out.Kind == ev.Value && got == want && sx.Text(rec.out.Val) == e.Result
				}
			}
			if v0, v1 := versions[rec.lo].Expect(rec.args), versions[rec.hi].Expect(rec.args); v0.IDs != v1.IDs {
				changed++
			}
			if !okay && !dontCare {
				res.Err = fmt.Sprintf("%s call %v (tag %d) ran while the method table went through versions %d..%d; no version explains trace [%s] outcome %s; candidates: %s",
					name, rec.args, rec.tag, rec.lo, rec.hi, got, rec.out, strings.Join(wants, " | "))
				return res
			}
		}
	}
	h.Class("conc-calls", total)
	h.Class("conc-calls-overlapping-a-mutation", int64(overlap))
	h.Class("conc-calls-overlapping-a-mutation-that-changes-their-applicable-set", int64(changed))
	res.NonTrivial = overlap > 0
	return res
}

func genConc(rt *rapid.T) ConcCase {
	c := ConcCase{U: "num", N: rapid.IntRange(1, 2).Draw(rt, "arity"), R: rapid.IntRange(2, 4).Draw(rt, "routines"), Iter: rapid.IntRange(10, 60).Draw(rt, "iter")}
	if rapid.IntRange(0, 9).Draw(rt, "universe") < 3 {
		c.U = "usr"
	}
	u := ref.Universes[c.U]
	nCalls := rapid.IntRange(1, 3).Draw(rt, "ncalls")
	for i := 0; i < nCalls; i++ {
		a := make([]string, c.N)
		for j := range a {
			a[j] = rapid.SampledFrom(u.Args).Draw(rt, "arg")
		}
		c.Calls = append(c.Calls, a)
	}
	nSpecs := rapid.IntRange(1, 4).Draw(rt, "nspecs")
	specs := make([][]string, nSpecs)
	for i := range specs {
		specs[i] = make([]string, c.N)
		base := c.Calls[rapid.IntRange(0, nCalls-1).Draw(rt, "base")]
		for j := range specs[i] {
			specs[i][j] = rapid.SampledFrom(u.CPL[base[j]]).Draw(rt, "cplspec")
		}
	}
	type mk struct {
		q string
		s []string
	}
	var defined []mk
	gen := func(label string, n int, allowRm bool) (ops []Op) {
		for i := 0; i < n; i++ {
			if allowRm && len(defined) > 0 && rapid.IntRange(0, 9).Draw(rt, label+"-rm") < 3 {
				m := defined[rapid.IntRange(0, len(defined)-1).Draw(rt, label+"-rmsel")]
				ops = append(ops, Op{K: "rm", Q: m.q, S: m.s})
				continue
			}
			op := Op{K: "def", Q: quals[[]int{0, 3, 1, 2, 0, 3, 1, 2, 0, 3}[rapid.IntRange(0, 9).Draw(rt, label+"-qual")]],
				S: specs[rapid.IntRange(0, nSpecs-1).Draw(rt, label+"-spec")]}
			defined = append(defined, mk{op.Q, op.S})
			ops = append(ops, op)
		}
		return
	}
	// always start with a primary on (t ...) so that most calls are inside the sound domain
	tspec := make([]string, c.N)
	for i := range tspec {
		tspec[i] = "t"
	}
	c.Pre = append([]Op{{K: "def", Q: "", S: tspec}}, gen("pre", rapid.IntRange(0, 4).Draw(rt, "npre"), false)...)
	c.Mut = gen("mut", rapid.IntRange(1, 8).Draw(rt, "nmut"), true)
	return c
}
