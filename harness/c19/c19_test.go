package c19

import (
	"fmt"
	"os"
	"regexp"
	"strings"
	"testing"

	"github.com/ohler55/slip"
	"github.com/ohler55/slip/pp"
	"pgregory.net/rapid"

	"verif/harness/internal/ev"
	"verif/harness/internal/h"
	"verif/harness/internal/proggen"
	r "verif/harness/internal/refeval"
)

func TestMain(m *testing.M) {
	if job := os.Getenv("C19_WORKER"); job != "" {
		workerMain(job)
		os.Exit(0)
	}
	h.Main(m, "C19")
}

// ---- common ---------------------------------------------------------------

// forcedExcl switches exclusions on in the survey (development) mode, where the witnesses are not run.
var forcedExcl = map[string]bool{}

func exclOn(tag string) bool { return forcedExcl[tag] || h.ExclOn(tag) }

func excluded(tag string) bool { return forcedExcl[tag] || h.Excluded(tag) }

func marginScope(margin int) *slip.Scope {
	s := slip.NewScope()
	s.Let(slip.Symbol("*print-right-margin*"), slip.Fixnum(margin))
	return s
}

// ppText pretty prints obj with the code aware printer at the margin.
func ppText(obj slip.Object, margin int) (text string, fault string) {
	o := ev.Try(func() slip.Object {
		text = string(pp.Append(nil, marginScope(margin), obj))
		return nil
	})
	if o.Kind != ev.Value {
		return "", o.String()
	}
	return text, ""
}

// readOne reads exactly one form from text; the rest must be white space.
func readOne(text string) (form slip.Object, fault string) {
	o := ev.Try(func() slip.Object {
		code, pos := slip.ReadOne([]byte(text), slip.NewScope())
		if len(code) != 1 {
			panic(fmt.Sprintf("read %d forms", len(code)))
		}
		if rest := strings.TrimSpace(text[min(pos, len(text)):]); rest != "" {
			// ReadOne reports the position after the form; tolerate both conventions by re-reading everything
			all := slip.ReadString(text, slip.NewScope())
			if len(all) != 1 {
				panic(fmt.Sprintf("text holds %d forms", len(all)))
			}
		}
		return code[0]
	})
	if o.Kind != ev.Value {
		return nil, o.String()
	}
	return o.Val, ""
}

func hasBreak(text string) bool { return strings.Contains(strings.TrimRight(text, "\n"), "\n") }

func marginClass(m int) string {
	switch {
	case m < 40:
		return "margin:20-39"
	case m < 80:
		return "margin:40-79"
	}
	return "margin:80-120"
}

func outcomeText(o ev.Outcome) string {
	switch o.Kind {
	case ev.Value:
		return "value " + render(o.Val)
	case ev.Condition:
		return "condition " + o.Class
	}
	return o.String()
}

// ---- A1: data values --------------------------------------------------------

// ValCase is a data value and a right margin.
type ValCase struct {
	V      V   `json:"v"`
	Margin int `json:"margin"`
}

const (
	tagHashVal   = "hash-value-not-quoted"
	tagHashKey   = "hash-key-dropped"
	tagListQuote = "list-elements-evaluated"
)

func genValCase(t *rapid.T) ValCase {
	var v V
	for try := 0; ; try++ {
		v = genValue(t, rapid.IntRange(1, 3).Draw(t, "depth"))
		if len(v.E) == 0 && v.K != "hash" && v.K != "vec" && rapid.IntRange(0, 4).Draw(t, "keepatom") > 0 {
			// mostly containers at the top
			v = V{K: []string{"list", "vec"}[rapid.IntRange(0, 1).Draw(t, "wrap")], E: []V{v, genValue(t, 2)}}
		}
		// a bare symbol printed by pp.Append is documented to print what the symbol names; nil has no methods
		if v.K != "sym" && v.K != "nil" && !(v.K == "list" && len(v.E) == 0) {
			break
		}
	}
	return ValCase{V: v, Margin: rapid.IntRange(20, 120).Draw(t, "margin")}
}

func runValue(c ValCase) *h.Result {
	res := &h.Result{Classes: []string{"A:value:" + c.V.K, marginClass(c.Margin)}}
	obj := build(c.V)
	lf, ok := obj.(slip.LoadFormer)
	if !ok {
		return h.Fail("%T offers no load form", obj)
	}
	var form slip.Object
	if o := ev.Try(func() slip.Object { return lf.LoadForm() }); o.Kind != ev.Value {
		return h.Fail("LoadForm of %s: %s", canon(c.V), o)
	} else {
		form = o.Val
	}
	text, fault := ppText(form, c.Margin)
	if fault != "" {
		return h.Fail("pp.Append of load form %s: %s", ev.Show(form), fault)
	}
	// (0) the same object gives the same text each time (a snapshot of an unchanged session is a fixed point)
	for i := 0; i < 2; i++ {
		o := ev.Try(func() slip.Object { return build(c.V).(slip.LoadFormer).LoadForm() })
		if o.Kind != ev.Value {
			return h.Fail("LoadForm of %s: %s", canon(c.V), o)
		}
		if text2, _ := ppText(o.Val, c.Margin); text2 != text {
			return h.Fail("the load form of equal objects is printed differently\nfirst:  %s\nsecond: %s", text, text2)
		}
	}
	// (1) the layout changes white space only
	again, fault := readOne(text)
	if fault != "" {
		return h.Fail("pretty printed load form can not be read: %s\ntext: %s", fault, text)
	}
	if a, b := render(form), render(again); a != b {
		return h.Fail("pretty printed load form reads as a different form\nform: %s\nread: %s\ntext: %s", a, b, text)
	}
	// (2) evaluating rebuilds an equal object
	scope := slip.NewScope()
	o := ev.Try(func() slip.Object {
		if again == nil {
			return nil
		}
		return again.Eval(scope, 0)
	})
	if o.Kind != ev.Value {
		return h.Fail("evaluating the load form of %s: %s\ntext: %s", canon(c.V), o, text)
	}
	if want, got := canon(c.V), render(o.Val); want != got {
		return h.Fail("load form rebuilds a different object\nwant: %s\ngot:  %s\ntext: %s", want, got, text)
	}
	if o.Val == nil {
		return h.Fail("load form of %s evaluates to nil", canon(c.V))
	}
	if eq := ev.Try(func() slip.Object {
		if !obj.Equal(o.Val) || !o.Val.Equal(obj) {
			panic("not Equal")
		}
		return nil
	}); eq.Kind != ev.Value {
		return h.Fail("original and rebuilt object are not Equal (%s): %s\ntext: %s", eq, canon(c.V), text)
	}
	if a, b := obj.Hierarchy()[0], o.Val.Hierarchy()[0]; a != b {
		return h.Fail("type changed from %s to %s: %s\ntext: %s", a, b, canon(c.V), text)
	}
	if hasBreak(text) {
		res.Classes = append(res.Classes, "A:value:line-break")
		res.NonTrivial = vdepth(c.V) >= 2
	}
	return res
}

var valueProp = h.Prop[ValCase]{Name: "load-form-value", Gen: genValCase, Run: runValue}

// ---- A2: code ---------------------------------------------------------------

// CodeCase is a piece of code as flat text, how it is turned into an object, and a right margin.
//
//	form:   the text is read as data and pretty printed (every special layout of pp)
//	call:   the text is a closed expression; it is compiled into a function call object whose load form is used
//	lambda: the text is a closed lambda expression; it is evaluated to a lambda object whose load form is used
type CodeCase struct {
	Kind   string  `json:"kind"`
	Src    string  `json:"src"`
	Margin int     `json:"margin"`
	Args   []int64 `json:"args,omitempty"`
}

// tagFunctionName: open finding C19-F1, (function f) in compiled code is written as (name f).
const tagFunctionName = "function-form-named-name"

// noFunctionForm rewrites (function f) to (quote f) while the finding is open; funcall, apply and mapcar take the
// symbol as well. The number of rewritten draws is counted as excluded.
func noFunctionForm(src string) string {
	if strings.Contains(src, "(function ") && excluded(tagFunctionName) {
		return strings.ReplaceAll(src, "(function ", "(quote ")
	}
	return src
}

func progOpts() proggen.Opts {
	return proggen.Opts{MaxDepth: 5, MarkOdds: 3, NoValuesInInit: true}
}

// tagDocRefill: open finding C19-F2, the doc layout passes a documentation string through the documentation formatter.
const tagDocRefill = "doc-string-refilled"

// docChanged is the class of documentation strings the formatter changes: emphasis marks (_), runs of blanks or a
// newline, or longer than the 12 characters that fit every generated layout at margin 20 (indent 4 + quotes).
func docChanged(d string) bool {
	return len(d) > 12 || strings.ContainsAny(d, "_\n") || strings.Contains(d, "  ")
}

func genDoc(t *rapid.T) string {
	words := []string{"adds", "one", "two", "x", "sum", "of", "it"}
	plain := func(limit int) string {
		n := rapid.IntRange(1, 3).Draw(t, "docwords")
		var parts []string
		for i := 0; i < n; i++ {
			parts = append(parts, words[rapid.IntRange(0, len(words)-1).Draw(t, "docword")])
		}
		s := strings.Join(parts, " ")
		if len(s) > limit {
			s = s[:limit]
		}
		return strings.TrimSpace(s)
	}
	switch rapid.IntRange(0, 7).Draw(t, "dockind") {
	case 0:
		// characters that need an escape
		return []string{"a \"q\" b", "b\\s", "\"", "it's (x)", "a;b #|c"}[rapid.IntRange(0, 4).Draw(t, "docesc")]
	case 1:
		d := []string{"adds _x_ to y", "two  blanks", "line one\nline two", "returns the sum of its two arguments, both of which must be numbers",
			"a rather long documentation string that does not fit on a narrow line", "__bold__ words"}[rapid.IntRange(0, 5).Draw(t, "dochard")]
		if docChanged(d) && excluded(tagDocRefill) {
			return plain(12)
		}
		return d
	}
	return plain(12)
}

func genCodeCase(t *rapid.T) CodeCase {
	c := CodeCase{Margin: rapid.IntRange(20, 120).Draw(t, "margin")}
	g := proggen.New(t, progOpts(), "")
	switch rapid.IntRange(0, 10).Draw(t, "codekind") {
	case 0, 1, 2:
		c.Kind = "call"
		c.Src = r.Print(g.Expr([]string{proggen.TInt, proggen.TList, proggen.TAny}[rapid.IntRange(0, 2).Draw(t, "typ")], nil, 1))
	case 3, 4, 5:
		c.Kind = "lambda"
		d := g.Defun().([]r.Val) // (defun name (params) body) or (let ((var lit)) (defun name (params) body))
		var captured r.Val
		if head, _ := d[0].(r.Sym); head == "let" {
			captured = d[1]
			d = d[2].([]r.Val)
		}
		lam := []r.Val{r.Sym("lambda"), d[2]}
		if rapid.IntRange(0, 2).Draw(t, "doc") == 0 {
			lam = append(lam, r.Str(genDoc(t)))
		}
		if captured != nil {
			// a lambda's load form has no environment: the captured variable becomes a binding inside the body
			lam = append(lam, r.L(append([]r.Val{r.Sym("let"), captured}, d[3:]...)...))
		} else {
			lam = append(lam, d[3:]...)
		}
		// the recursive variant calls itself by name; make it non recursive by using only non-recursive bodies
		c.Src = r.Print(lam)
		if strings.Contains(c.Src, "(f1 ") {
			c.Src = strings.ReplaceAll(c.Src, "(f1 ", "(+ ")
		}
		n := 1
		if params, _ := d[2].([]r.Val); len(params) == 2 {
			n = 2
		}
		for i := 0; i < n; i++ {
			c.Args = append(c.Args, int64(rapid.IntRange(-2, 4).Draw(t, "arg")))
		}
	case 6:
		c.Kind = "form"
		c.Src = r.Print(g.Expr(proggen.TAny, nil, 0))
	default:
		c.Kind = "form"
		c.Src = genDefinition(t)
	}
	c.Src = fixMark(c.Src)
	if c.Kind != "form" {
		c.Src = noFunctionForm(c.Src)
	}
	if c.Src == "nil" {
		c.Src = "(progn nil)"
	}
	return c
}

// addrRe matches the address in the unreadable rendering of an object, e.g. #<zc1 c0008d4870>.
var addrRe = regexp.MustCompile(`\b(0x)?[0-9a-f]{8,16}\b([>}])`)

func evalTraced(scope *slip.Scope, src string) string {
	ev.ResetTrace()
	o := ev.Eval(scope, src)
	return addrRe.ReplaceAllString(outcomeText(o)+" | "+ev.TraceString(), "@$2")
}

func layoutClasses(src string) (cl []string) {
	for _, head := range []string{"defun", "defmacro", "defvar", "defparameter", "defconstant", "let", "let*", "cond", "do", "do*",
		"dotimes", "dolist", "lambda", "progn", "defflavor", "defmethod", "defclass", "defgeneric", "defpackage", "quote",
		"make-instance", "block", "case", "multiple-value-bind"} {
		if strings.Contains(src, "("+head+" ") {
			cl = append(cl, "A:layout:"+head)
		}
	}
	if strings.Contains(src, "'") {
		cl = append(cl, "A:layout:quote")
	}
	if strings.Contains(src, "`") {
		cl = append(cl, "A:layout:backquote")
	}
	return
}

func runCode(c CodeCase) *h.Result {
	res := &h.Result{Classes: append(layoutClasses(c.Src), "A:code:"+c.Kind, marginClass(c.Margin))}
	src, fault := readOne(c.Src)
	if fault != "" {
		return h.Fail("generated text can not be read: %s", fault)
	}
	var texts []string
	switch c.Kind {
	case "form":
		text, fault := ppText(src, c.Margin)
		if fault != "" {
			return h.Fail("pp.Append: %s\nsrc: %s", fault, c.Src)
		}
		again, fault := readOne(text)
		if fault != "" {
			return h.Fail("pretty printed code can not be read: %s\nsrc: %s\ntext: %s", fault, c.Src, text)
		}
		if a, b := render(src), render(again); a != b {
			return h.Fail("pretty printed code reads as a different form\nsrc:  %s\nread: %s\ntext: %s", a, b, text)
		}
		texts = append(texts, text)
	case "call":
		var form slip.Object
		o := ev.Try(func() slip.Object {
			code := slip.ReadString(c.Src, slip.NewScope())
			code.Compile()
			return code[0].(slip.LoadFormer).LoadForm()
		})
		if o.Kind != ev.Value {
			return h.Fail("LoadForm of the compiled call: %s\nsrc: %s", o, c.Src)
		}
		form = o.Val
		text, fault := ppText(form, c.Margin)
		if fault != "" {
			return h.Fail("pp.Append of the load form: %s\nsrc: %s", fault, c.Src)
		}
		want := evalTraced(slip.NewScope(), c.Src)
		got := evalTraced(slip.NewScope(), text)
		if want != got {
			return h.Fail("load form of a call behaves differently\nsrc:  %s\n  => %s\ntext: %s\n  => %s", c.Src, want, text, got)
		}
		texts = append(texts, text)
	case "lambda":
		scope := slip.NewScope()
		o := ev.Eval(scope, c.Src)
		lam, _ := o.Val.(*slip.Lambda)
		if o.Kind != ev.Value || lam == nil {
			return h.Fail("lambda expression does not give a lambda: %s\nsrc: %s", o, c.Src)
		}
		o = ev.Try(func() slip.Object { return lam.LoadForm() })
		if o.Kind != ev.Value {
			return h.Fail("Lambda.LoadForm: %s\nsrc: %s", o, c.Src)
		}
		form := o.Val
		if a, b := render(src), render(form); a != b {
			return h.Fail("load form of a lambda differs from its definition\nsrc:  %s\nform: %s", a, b)
		}
		call := "(funcall zz-lam"
		for _, a := range c.Args {
			call += fmt.Sprintf(" %d", a)
		}
		call += ")"
		scope.Let(slip.Symbol("zz-lam"), lam)
		want := evalTraced(scope, call)
		for i, printed := range []slip.Object{form, lam} {
			text, fault := ppText(printed, c.Margin)
			if fault != "" {
				return h.Fail("pp.Append (variant %d): %s\nsrc: %s", i, fault, c.Src)
			}
			s2 := slip.NewScope()
			o2 := ev.Eval(s2, text)
			lam2, _ := o2.Val.(*slip.Lambda)
			if o2.Kind != ev.Value || lam2 == nil {
				return h.Fail("printed lambda (variant %d) does not evaluate to a lambda: %s\ntext: %s", i, o2, text)
			}
			s2.Let(slip.Symbol("zz-lam"), lam2)
			if got := evalTraced(s2, call); got != want {
				return h.Fail("reloaded lambda (variant %d) behaves differently on %s\nsrc:  %s\n  => %s\ntext: %s\n  => %s",
					i, call, c.Src, want, text, got)
			}
			if a, b := render(form), render(lam2.LoadForm()); a != b {
				return h.Fail("reloaded lambda (variant %d) has a different load form\nwant: %s\ngot:  %s", i, a, b)
			}
			if lam.Docs() != lam2.Docs() {
				return h.Fail("reloaded lambda (variant %d) has documentation %q, want %q", i, lam2.Docs(), lam.Docs())
			}
			texts = append(texts, text)
		}
	default:
		return h.Fail("bad case kind %q", c.Kind)
	}
	for _, text := range texts {
		if hasBreak(text) {
			res.NonTrivial = true
			res.Classes = append(res.Classes, "A:code:line-break")
			break
		}
	}
	return res
}

var codeProp = h.Prop[CodeCase]{Name: "load-form-code", Gen: genCodeCase, Run: runCode}

// ---- tests ------------------------------------------------------------------

func TestC19(t *testing.T) {
	h.Rule("A1 load-form-value: value tree (numbers incl. boundary fixnums, bignums, ratios, floats; strings over an alphabet with " +
		"quote, backslash, bar, newline, non-ASCII; symbols incl. names of special layouts; characters; lists, dotted lists, vectors, " +
		"2-3 dimensional arrays, hash tables; depth <= 3) built through slip's Go constructors x right margin 20..120. " +
		"A1b literal-value: a vector (1-4 elements, the first a list headed by a symbol of the special layouts or any container; symbols incl. names that need bars) or a list, written the way a snapshot writes a variable that holds a literal: (setq name #(...)) / (setq name '(...)) or the bare value, pretty printed at margin 20..120, read, evaluated, compared with the value. " +
		"A2 load-form-code: closed typed programs of the shared program generator (let let* cond do do* dotimes dolist lambda progn " +
		"case multiple-value-bind ...) as data form, compiled call object or lambda object, and every kind of definition form of " +
		"part B, x margin. A3 load-form-defs: generated packages, flavors with methods and instances, classes with instances, generic " +
		"functions with methods, rebuilt from their load forms under fresh names. B snapshot: generated session of 5..25 definition " +
		"forms, three fresh processes (session -> S1 + probes; load S1 -> S2 + probes; load S2 -> S3). " +
		"Non-trivial: A1 nesting depth >= 2 and at least one line break in the printed form; A2/A3 at least one line break; " +
		"B >= 3 definition kinds incl. a flavor, class or generic and a function body with a special layout. Distinct by case JSON.")
	h.Assume("the harness builds values with slip's exported Go types and compares through its own renderer (sx + c19/value.go)")
	h.Assume("slip's reader (ReadOne/ReadString) is the way printed text gets back in; its own round trip is the subject of C03")
	h.Assume("os/exec starts an independent process; the three workers of a case share nothing but the snapshot files")

	h.RunProp(t, valueProp, h.N(8000, 40000))
	h.RunProp(t, literalProp, h.N(6000, 30000))
	h.RunProp(t, codeProp, h.N(4000, 20000))
	h.RunProp(t, defsProp, h.N(1500, 5000))
	h.RunProp(t, snapProp, h.N(150, 300))
}
