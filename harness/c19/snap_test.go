package c19

import (
	"encoding/json"
	"fmt"
	"os"
	"os/exec"
	"path/filepath"
	"strings"
	"sync/atomic"

	"github.com/ohler55/slip"

	"verif/harness/internal/ev"
	"verif/harness/internal/h"
)

// job is what one worker process is asked to do.
type job struct {
	Forms  []string `json:"forms,omitempty"` // session forms to evaluate (worker 1)
	Load   string   `json:"load,omitempty"`  // snapshot file to load (workers 2 and 3)
	Margin int      `json:"margin"`
	Snap   string   `json:"snap"` // file the snapshot of this process is written to
	Probes []string `json:"probes,omitempty"`
	Out    string   `json:"out"`
}

// report is what the worker answers.
type report struct {
	FormErrs []string `json:"form_errs,omitempty"` // session forms that did not evaluate to a value
	LoadErr  string   `json:"load_err,omitempty"`
	SnapErr  string   `json:"snap_err,omitempty"`
	Probes   []string `json:"probes,omitempty"`
}

// workerMain runs in the fresh process.
func workerMain(jobFile string) {
	var j job
	b, err := os.ReadFile(jobFile)
	if err == nil {
		err = json.Unmarshal(b, &j)
	}
	if err != nil {
		fmt.Fprintln(os.Stderr, "worker:", err)
		os.Exit(4)
	}
	var rep report
	scope := slip.NewScope()
	for _, f := range j.Forms {
		if o := ev.Eval(scope, f); o.Kind != ev.Value {
			rep.FormErrs = append(rep.FormErrs, f+" => "+o.String())
		}
	}
	if j.Load != "" {
		if o := ev.Eval(scope, fmt.Sprintf("(load %q)", j.Load)); o.Kind != ev.Value {
			rep.LoadErr = o.String()
		}
	}
	// the snapshot is taken before the probes run (they may change variables)
	o := ev.Eval(scope, fmt.Sprintf("(let ((*print-right-margin* %d)) (snapshot %q))", j.Margin, j.Snap))
	if o.Kind != ev.Value {
		rep.SnapErr = o.String()
		if o.Kind == ev.Fault {
			rep.SnapErr += "\n" + stackExcerpt(o.Stack)
		}
	}
	for _, p := range j.Probes {
		rep.Probes = append(rep.Probes, evalTraced(scope, p))
	}
	out, _ := json.Marshal(rep)
	if err = os.WriteFile(j.Out, out, 0o644); err != nil {
		fmt.Fprintln(os.Stderr, "worker:", err)
		os.Exit(4)
	}
}

// stackExcerpt keeps the frames of slip from a Go stack.
func stackExcerpt(stack string) string {
	var keep []string
	lines := strings.Split(stack, "\n")
	for i, line := range lines {
		if strings.HasPrefix(line, "github.com/ohler55/slip") && i+1 < len(lines) {
			keep = append(keep, strings.TrimSpace(line)+" "+strings.TrimSpace(lines[i+1]))
		}
		if len(keep) >= 8 {
			break
		}
	}
	return strings.Join(keep, "\n")
}

var caseCtr atomic.Int64

func workDir() string {
	if d := os.Getenv("VERIF_WORK"); d != "" {
		return d
	}
	d := filepath.Join(os.TempDir(), "c19work")
	_ = os.MkdirAll(d, 0o755)
	return d
}

func selfBin() string {
	if b := os.Getenv("VERIF_BIN"); b != "" {
		return b
	}
	b, _ := os.Executable()
	return b
}

// runWorker starts a fresh process (stdin closed, scratch cwd) and returns its report.
func runWorker(dir string, n int, j job) (report, string) {
	var rep report
	j.Out = filepath.Join(dir, fmt.Sprintf("out%d.json", n))
	jobFile := filepath.Join(dir, fmt.Sprintf("job%d.json", n))
	b, _ := json.Marshal(j)
	if err := os.WriteFile(jobFile, b, 0o644); err != nil {
		return rep, err.Error()
	}
	cwd := filepath.Join(dir, "cwd")
	_ = os.MkdirAll(cwd, 0o755)
	var (
		outb []byte
		err  error
	)
	for try := 0; try < 3; try++ {
		cmd := exec.Command(selfBin())
		cmd.Dir = cwd
		cmd.Stdin = nil
		cmd.Env = append(os.Environ(), "C19_WORKER="+jobFile)
		outb, err = cmd.CombinedOutput()
		if _, exited := err.(*exec.ExitError); err == nil || exited {
			break
		}
		// the process could not be started (the machine is busy): not a verdict about slip, try again
	}
	if err != nil {
		return rep, fmt.Sprintf("worker %d died: %v: %s", n, err, lastLines(string(outb), 12))
	}
	b, err = os.ReadFile(j.Out)
	if err == nil {
		err = json.Unmarshal(b, &rep)
	}
	if err != nil {
		return rep, fmt.Sprintf("worker %d gave no report: %v: %s", n, err, lastLines(string(outb), 12))
	}
	return rep, ""
}

func lastLines(s string, n int) string {
	lines := strings.Split(strings.TrimSpace(s), "\n")
	if len(lines) > n {
		lines = lines[len(lines)-n:]
	}
	return strings.Join(lines, "\n")
}

// body drops the header line (it carries the time stamp).
func body(snap string) string {
	if i := strings.IndexByte(snap, '\n'); i >= 0 && strings.HasPrefix(snap, ";;;; Snapshot taken at ") {
		return snap[i+1:]
	}
	return snap
}

func firstDiff(a, b string) string {
	la, lb := strings.Split(a, "\n"), strings.Split(b, "\n")
	for i := 0; i < len(la) || i < len(lb); i++ {
		var x, y string
		if i < len(la) {
			x = la[i]
		}
		if i < len(lb) {
			y = lb[i]
		}
		if x != y {
			lo := max(i-2, 0)
			ctx := func(l []string) string {
				hi := min(i+3, len(l))
				if lo >= hi {
					return "<end>"
				}
				return strings.Join(l[lo:hi], "\n    ")
			}
			return fmt.Sprintf("line %d:\n  first:\n    %s\n  second:\n    %s", i+2, ctx(la), ctx(lb))
		}
	}
	return ""
}

func runSnap(c SnapCase) *h.Result {
	res := &h.Result{Classes: []string{marginClass(c.Margin)}}
	dir := filepath.Join(workDir(), fmt.Sprintf("case%d", caseCtr.Add(1)))
	if err := os.MkdirAll(dir, 0o755); err != nil {
		return h.Fail("harness: %s", err)
	}
	if os.Getenv("C19_KEEP") == "" {
		defer os.RemoveAll(dir)
	}
	kinds := map[string]bool{}
	special := false
	forms := make([]string, len(c.Forms))
	for i, d := range c.Forms {
		forms[i] = d.Src
		if !kinds[d.Kind] {
			kinds[d.Kind] = true
			res.Classes = append(res.Classes, "B:form:"+d.Kind)
		}
		if d.Kind == "defun" || d.Kind == "flavor-method" || d.Kind == "generic-method" {
			for _, head := range []string{"(let ", "(let* ", "(cond ", "(do ", "(do* ", "(dotimes ", "(dolist ", "(lambda ", "(progn ", "(case "} {
				if strings.Contains(d.Src, head) {
					special = true
				}
			}
		}
	}
	s1, s2, s3 := filepath.Join(dir, "s1.lisp"), filepath.Join(dir, "s2.lisp"), filepath.Join(dir, "s3.lisp")
	// W1: the session
	r1, msg := runWorker(dir, 1, job{Forms: forms, Margin: c.Margin, Snap: s1, Probes: c.Probes})
	if msg != "" {
		return h.Fail("%s", msg)
	}
	if len(r1.FormErrs) > 0 {
		return h.Fail("generated session is not accepted: %s", strings.Join(r1.FormErrs, "\n"))
	}
	if r1.SnapErr != "" {
		return h.Fail("snapshot of the session fails: %s", r1.SnapErr)
	}
	t1, _ := os.ReadFile(s1)
	// W2: load S1
	r2, msg := runWorker(dir, 2, job{Load: s1, Margin: c.Margin, Snap: s2, Probes: c.Probes})
	if msg != "" {
		return h.Fail("%s\nsnapshot:\n%s", msg, excerpt(string(t1)))
	}
	if r2.LoadErr != "" {
		return h.Fail("the snapshot does not load in a fresh process: %s\nsnapshot:\n%s", r2.LoadErr, excerpt(string(t1)))
	}
	if r2.SnapErr != "" {
		return h.Fail("snapshot of the restored session fails: %s", r2.SnapErr)
	}
	// behaviour of the restored world
	if len(r1.Probes) != len(r2.Probes) {
		return h.Fail("harness: probe counts differ")
	}
	values := 0
	for i, p := range c.Probes {
		if r1.Probes[i] != r2.Probes[i] {
			return h.Fail("the restored session behaves differently\nprobe: %s\nsession:  %s\nrestored: %s\nsnapshot:\n%s",
				p, r1.Probes[i], r2.Probes[i], excerpt(string(t1)))
		}
		if strings.HasPrefix(r1.Probes[i], "value") {
			values++
		}
	}
	h.Class("B:probe", int64(len(c.Probes)))
	h.Class("B:probe-value", int64(values))
	t2, _ := os.ReadFile(s2)
	if d := firstDiff(body(string(t1)), body(string(t2))); d != "" {
		return h.Fail("the snapshot of the restored session differs from the snapshot it was loaded from, %s", d)
	}
	// W3: load S2
	r3, msg := runWorker(dir, 3, job{Load: s2, Margin: c.Margin, Snap: s3})
	if msg != "" {
		return h.Fail("%s", msg)
	}
	if r3.LoadErr != "" {
		return h.Fail("the second snapshot does not load in a fresh process: %s", r3.LoadErr)
	}
	if r3.SnapErr != "" {
		return h.Fail("third snapshot fails: %s", r3.SnapErr)
	}
	t3, _ := os.ReadFile(s3)
	if d := firstDiff(body(string(t2)), body(string(t3))); d != "" {
		return h.Fail("the third snapshot differs from the second, %s", d)
	}
	res.Evals = 3
	if hasBreak(string(t1)) && len(kinds) >= 3 && (kinds["defflavor"] || kinds["defclass"] || kinds["defgeneric"]) && special {
		res.NonTrivial = true
	}
	return res
}

// excerpt keeps the part of a snapshot that is about the session (drops the long run of core variables).
func excerpt(snap string) string {
	var keep []string
	for _, line := range strings.Split(snap, "\n") {
		if strings.HasPrefix(line, "(setq common-lisp::*") || strings.HasPrefix(line, "(setq bag::*") || strings.HasPrefix(line, "(setq net::*") {
			continue
		}
		keep = append(keep, line)
	}
	s := strings.Join(keep, "\n")
	if len(s) > 6000 {
		s = s[:6000] + "\n..."
	}
	return s
}

var snapProp = h.Prop[SnapCase]{Name: "snapshot", Gen: genSnapCase, Run: runSnap}
