package c19

import (
	"testing"

	"verif/harness/internal/h"
)

// gridValues are nested values of every container kind; each is printed at every margin 20..120.
var gridValues = []V{
	{K: "list", E: []V{{K: "sym", S: "alpha"}, {K: "fix", S: "9223372036854775807"}, {K: "str", S: "a \"q\" b\\c"}, {K: "list", E: []V{{K: "key", S: ":k"}, {K: "ratio", S: "22/7"}, {K: "df", S: "1.5"}}}}},
	{K: "dotted", E: []V{{K: "sym", S: "a"}, {K: "list", E: []V{{K: "fix", S: "1"}, {K: "sym", S: "quote"}}}, {K: "sym", S: "tail"}}},
	{K: "vec", A: true, E: []V{{K: "fix", S: "1"}, {K: "sym", S: "let"}, {K: "str", S: "x"}, {K: "vec", E: []V{{K: "chr", S: "a"}, {K: "t"}, {K: "nil"}}}}},
	{K: "vec", E: []V{}},
	{K: "arr", D: []int{2, 3}, E: []V{{K: "fix", S: "1"}, {K: "sym", S: "b"}, {K: "str", S: "c"}, {K: "sf", S: "2.5"}, {K: "big", S: "18446744073709551617"}, {K: "list", E: []V{{K: "sym", S: "d"}}}}},
	{K: "arr", A: true, D: []int{2, 1, 2}, E: []V{{K: "fix", S: "1"}, {K: "fix", S: "2"}, {K: "hash", E: []V{{K: "fix", S: "1"}, {K: "sym", S: "v"}}}, {K: "nil"}}},
	{K: "hash", E: []V{{K: "sym", S: "table"}, {K: "sym", S: "inst"}, {K: "str", S: "key"}, {K: "list", E: []V{{K: "fix", S: "1"}, {K: "sym", S: "two"}}}, {K: "fix", S: "0"}, {K: "vec", E: []V{{K: "fix", S: "7"}}},
		{K: "df", S: "0"}, {K: "key", S: ":zero"}, {K: "chr", S: "a"}, {K: "hash", E: []V{{K: "t"}, {K: "nil"}}}, {K: "key", S: ":k"}, {K: "dotted", E: []V{{K: "fix", S: "1"}, {K: "fix", S: "2"}}}}},
	{K: "list", E: []V{{K: "sym", S: "defun"}, {K: "sym", S: "f"}, {K: "list", E: []V{{K: "sym", S: "x"}}}, {K: "list", E: []V{{K: "sym", S: "let"}, {K: "list", E: []V{{K: "list", E: []V{{K: "sym", S: "y"}, {K: "fix", S: "1"}}}}}, {K: "sym", S: "y"}}}}},
	{K: "list", E: []V{{K: "list", E: []V{{K: "list", E: []V{{K: "list", E: []V{{K: "sym", S: "a-rather-long-symbol-name"}, {K: "str", S: "a rather long string value"}}}, {K: "big", S: "-340282366920938463463374607431768211456"}}}}}, {K: "sym", S: "end"}}},
}

// gridForms: one definition or expression per special layout of pp; each is printed at every margin 20..120 as data,
// and the closed ones also as a compiled call.
var gridForms = []CodeCase{
	{Kind: "form", Src: `(defun zf1 (a &optional (b 2) &key (k "s") &rest r) "adds" (let ((z (+ a b))) (list z k r)))`},
	{Kind: "form", Src: `(defmacro zm1 (x &rest body) ` + "`" + `(let ((q ,x)) ,@body (list ',x (quote ,x))))`},
	{Kind: "form", Src: `(defvar zv1 '(a "s" 1.5 (b . c)) "doc")`},
	{Kind: "form", Src: `(defparameter zv2 (list 1 2 3))`},
	{Kind: "form", Src: `(defconstant zk1 42 "it")`},
	{Kind: "form", Src: `(defflavor zfl1 ((n 1) (a1 '(1 x "y")) b1) (zfl0) :gettable-instance-variables (:settable-instance-variables n a1) (:documentation "one"))`},
	{Kind: "form", Src: `(defmethod (zfl1 :before :m1) (x) (let ((y (* 2 x))) (mark 101 (list y n))))`},
	{Kind: "form", Src: `(defclass zc1 (zc0) ((s10 :initarg :s10 :initform '(1 b) :accessor zc1-s10 :documentation "x") (s11 :reader zc1-s11 :allocation :class)) (:documentation "two") (:default-initargs :s10 77))`},
	{Kind: "form", Src: `(defgeneric zg1 (x y) (:documentation "sum") (:method ((x fixnum) y) (mark 1 (list x y))) (:method :around ((x integer) (y string)) (list (call-next-method))))`},
	{Kind: "form", Src: `(defmethod zg1 :after ((x integer) (y fixnum)) "it" (cond ((< x y) (mark 2 'less)) (t (mark 3 (- x y)))))`},
	{Kind: "form", Src: `(defpackage "zp1" (:use "cl" "bag") (:nicknames "zpn1") (:documentation "of") (:export "pf1" "pv1"))`},
	{Kind: "call", Src: `(let* ((a 1) (b (+ a 1)) (c (list a b))) (cond ((null c) (mark 1 'none)) ((< a b) (mark 2 (car c))) (t nil)))`},
	{Kind: "call", Src: `(do ((i 0 (+ i 1)) (acc nil (cons i acc))) ((= i 3) (mark 1 acc)) (mark 2 i))`},
	{Kind: "call", Src: `(do* ((i 0 (+ i 1)) (j i (* i 2))) ((< 2 i) (list i j)) (mark 1 j))`},
	{Kind: "call", Src: `(let ((acc nil)) (dotimes (i 3) (setq acc (cons i acc))) (dolist (x '(a b)) (setq acc (cons x acc))) (mark 1 acc))`},
	{Kind: "call", Src: `(progn (mark 1 1) (block done (when t (return-from done (mark 2 2))) (mark 3 3)))`},
	{Kind: "call", Src: `(case (+ 1 2) ((1 2) 'low) (3 (mark 1 'three)) (otherwise 'high))`},
	{Kind: "call", Src: `(multiple-value-bind (q r) (floor 7 2) (list (mark 1 q) r))`},
	{Kind: "call", Src: `(funcall (lambda (a &optional (b 2)) "doc" (list a b (quote (x . y)) '(1 2))) 1)`},
	{Kind: "call", Src: `(mapcar (lambda (x) (if (< x 2) (mark 1 x) (unless (= x 3) (mark 2 (* x x))))) '(1 2 3))`},
	{Kind: "lambda", Src: `(lambda (a b) "adds" (let ((s (+ a b))) (when (< 0 s) (mark 1 s)) (list a b s)))`, Args: []int64{1, 2}},
	{Kind: "call", Src: `(with-output-to-string (s) (format s "~A" (mark 1 3)))`},
}

// TestGrids enumerates the fixed values and forms at every right margin 20..120 (shard 0 only).
func TestGrids(t *testing.T) {
	if h.C.Shard != 0 {
		return
	}
	vg := valueProp
	vg.Name = "value-margin-grid"
	h.RunProp(t, vg, 0)
	h.Enumerate(t, vg, func(yield func(ValCase) bool) {
		for _, v := range gridValues {
			for m := 20; m <= 120; m++ {
				if !yield(ValCase{V: v, Margin: m}) {
					return
				}
			}
		}
	})
	cg := codeProp
	cg.Name = "layout-margin-grid"
	h.RunProp(t, cg, 0)
	h.Enumerate(t, cg, func(yield func(CodeCase) bool) {
		for _, f := range gridForms {
			for m := 20; m <= 120; m++ {
				c := f
				c.Margin = m
				if !yield(c) {
					return
				}
			}
		}
	})
}
