package c19

import (
	"encoding/json"
	"flag"
	"fmt"
	"os"
	"regexp"
	"sort"
	"strconv"
	"strings"
	"testing"

	"github.com/ohler55/slip"
	"pgregory.net/rapid"

	"verif/harness/internal/ev"
	"verif/harness/internal/h"
)

// TestSurvey is a development aid (not part of the check): C19_SURVEY=<sub>:<n> runs n generated cases of one
// sub-property without stopping at failures and prints a histogram of the failure messages.
var subName = map[string]string{"value": "load-form-value", "code": "load-form-code", "defs": "load-form-defs", "snap": "snapshot"}

func TestSurvey(t *testing.T) {
	spec := os.Getenv("C19_SURVEY")
	if spec == "" {
		t.Skip()
	}
	for _, tag := range strings.Split(os.Getenv("C19_EXCL"), ",") {
		forcedExcl[tag] = true
	}
	name, ns, _ := strings.Cut(spec, ":")
	n, _ := strconv.Atoi(ns)
	_ = flag.Set("rapid.checks", strconv.Itoa(n))
	hist := map[string]int{}
	example := map[string]string{}
	total := 0
	norm := regexp.MustCompile(`[0-9]+|"[^"]*"`)
	record := func(r *h.Result, c any) {
		total++
		if r == nil || r.Err == "" {
			return
		}
		first, _, _ := strings.Cut(r.Err, "\n")
		if len(first) > 160 {
			first = first[:160]
		}
		k := norm.ReplaceAllString(first, "#")
		hist[k]++
		if _, has := example[k]; !has {
			example[k] = fmt.Sprintf("%s\n   case: %+v", r.Err, c)
			b, _ := json.MarshalIndent(map[string]any{"property": "C19", "sub": subName[name], "case": c, "msg": r.Err}, "", " ")
			_ = os.WriteFile(fmt.Sprintf("/var/tmp/slipwork/c19ex-%s-%d.json", name, len(example)), b, 0o644)
		}
	}
	safe := func(f func() *h.Result) (r *h.Result) {
		defer func() {
			if rec := recover(); rec != nil {
				r = h.Fail("harness panic: %v", rec)
			}
		}()
		return f()
	}
	rapid.Check(t, func(rt *rapid.T) {
		switch name {
		case "value":
			c := genValCase(rt)
			record(safe(func() *h.Result { return runValue(c) }), c)
		case "code":
			c := genCodeCase(rt)
			record(safe(func() *h.Result { return runCode(c) }), c)
		case "defs":
			c := genDefsCase(rt)
			record(safe(func() *h.Result { return runDefs(c) }), c)
		case "snap":
			c := genSnapCase(rt)
			record(safe(func() *h.Result { return runSnap(c) }), c)
		}
	})
	keys := make([]string, 0, len(hist))
	for k := range hist {
		keys = append(keys, k)
	}
	sort.Slice(keys, func(i, j int) bool { return hist[keys[i]] > hist[keys[j]] })
	fmt.Printf("survey %s: %d cases\n", name, total)
	for _, k := range keys {
		fmt.Printf("%6d  %s\n", hist[k], k)
		ex := example[k]
		if limit := 1500 + 20000*len(os.Getenv("C19_SURVEY_FULL")); len(ex) > limit {
			ex = ex[:limit] + "..."
		}
		fmt.Printf("        e.g. %s\n", strings.ReplaceAll(ex, "\n", "\n        "))
	}
}

// TestEvalDebug is a development aid: C19_EVAL holds forms (one per line) that are evaluated in one scope; faults are
// printed with their Go stack.
func TestEvalDebug(t *testing.T) {
	src := os.Getenv("C19_EVAL")
	if src == "" {
		t.Skip()
	}
	scope := slip.NewScope()
	for _, line := range strings.Split(src, "\n") {
		if strings.TrimSpace(line) == "" {
			continue
		}
		if name, ok := strings.CutPrefix(line, "#vars "); ok {
			for _, p := range slip.AllPackages() {
				p.EachVarVal(func(n string, vv *slip.VarVal) {
					if strings.Contains(n, name) {
						fmt.Printf("  in %s: key %q name %q pkg %s export %v const %v\n", p.Name, n, vv.String(), vv.Pkg.Name, vv.Export, vv.Const)
					}
				})
			}
			continue
		}
		if line == "#funcs" {
			for _, p := range slip.AllPackages() {
				if p.Locked {
					continue
				}
				p.EachFuncInfo(func(fi *slip.FuncInfo) {
					pn := "<nil>"
					if fi.Pkg != nil {
						pn = fi.Pkg.Name
					}
					fmt.Printf("  in %s: %s pkg %s kind %s doc-nil %v aux %T\n", p.Name, fi.Name, pn, fi.Kind, fi.Doc == nil, fi.Aux)
				})
			}
			continue
		}
		o := ev.Eval(scope, line)
		fmt.Printf("%s\n  => %s\n", line, o)
		if o.Kind == ev.Fault {
			fmt.Println(o.Stack)
		}
	}
}
