package c19

import (
	"fmt"
	"math/big"
	"sort"
	"strconv"
	"strings"

	"github.com/ohler55/slip"
	"pgregory.net/rapid"

	"verif/harness/internal/sx"
)

// V is the harness's own description of a data value (the reference side of part A). The slip object is
// built from it with slip's exported Go constructors, never by reading text.
type V struct {
	K string `json:"k"`           // fix big ratio sf df str sym key chr nil t list dotted vec arr hash
	S string `json:"s,omitempty"` // atom text: decimal integer, "p/q", float in Go syntax, string, symbol name, rune
	E []V    `json:"e,omitempty"` // elements; dotted: last element is the tail; hash: k v k v ...; arr: row major
	D []int  `json:"d,omitempty"` // arr: dimensions
	A bool   `json:"a,omitempty"` // vec, arr: adjustable
}

func bigOf(s string) *big.Int {
	n, ok := new(big.Int).SetString(s, 10)
	if !ok {
		panic("bad integer in case: " + s)
	}
	return n
}

// build makes the slip object.
func build(v V) slip.Object {
	switch v.K {
	case "nil":
		return nil
	case "t":
		return slip.True
	case "fix":
		n, err := strconv.ParseInt(v.S, 10, 64)
		if err != nil {
			panic(err)
		}
		return slip.Fixnum(n)
	case "big":
		return (*slip.Bignum)(bigOf(v.S))
	case "ratio":
		p := strings.Split(v.S, "/")
		return slip.NewBigRatio(bigOf(p[0]), bigOf(p[1]))
	case "sf":
		f, _ := strconv.ParseFloat(v.S, 32)
		return slip.SingleFloat(f)
	case "df":
		f, _ := strconv.ParseFloat(v.S, 64)
		return slip.DoubleFloat(f)
	case "str":
		return slip.String(v.S)
	case "sym", "key":
		return slip.Symbol(v.S)
	case "chr":
		return slip.Character([]rune(v.S)[0])
	case "list":
		if len(v.E) == 0 {
			return nil
		}
		l := make(slip.List, len(v.E))
		for i, e := range v.E {
			l[i] = build(e)
		}
		return l
	case "dotted":
		l := make(slip.List, len(v.E))
		for i, e := range v.E {
			l[i] = build(e)
		}
		l[len(l)-1] = slip.Tail{Value: l[len(l)-1]}
		return l
	case "vec":
		l := make(slip.List, len(v.E))
		for i, e := range v.E {
			l[i] = build(e)
		}
		return slip.NewVector(len(l), slip.TrueSymbol, nil, l, v.A)
	case "arr":
		pos := 0
		return slip.NewArray(v.D, slip.TrueSymbol, nil, nest(v, v.D, &pos), v.A)
	case "hash":
		ht := slip.HashTable{}
		for i := 0; i+1 < len(v.E); i += 2 {
			ht[build(v.E[i])] = build(v.E[i+1])
		}
		return ht
	}
	panic("bad value kind in case: " + v.K)
}

func nest(v V, dims []int, pos *int) slip.List {
	l := make(slip.List, dims[0])
	for i := range l {
		if len(dims) == 1 {
			l[i] = build(v.E[*pos])
			*pos++
		} else {
			l[i] = nest(v, dims[1:], pos)
		}
	}
	return l
}

// canon is the expected rendering of v, in the format of render.
func canon(v V) string {
	switch v.K {
	case "list", "dotted":
		if len(v.E) == 0 {
			return "nil"
		}
		parts := make([]string, len(v.E))
		for i, e := range v.E {
			parts[i] = canon(e)
		}
		if v.K == "dotted" {
			parts[len(parts)-1] = ". " + parts[len(parts)-1]
		}
		return "(" + strings.Join(parts, " ") + ")"
	case "vec":
		parts := make([]string, len(v.E))
		for i, e := range v.E {
			parts[i] = canon(e)
		}
		return "#(" + strings.Join(parts, " ") + ")"
	case "arr":
		parts := make([]string, len(v.E))
		for i, e := range v.E {
			parts[i] = canon(e)
		}
		return fmt.Sprintf("#A%v(%s)", v.D, strings.Join(parts, " "))
	case "hash":
		var parts []string
		for i := 0; i+1 < len(v.E); i += 2 {
			parts = append(parts, canon(v.E[i])+"=>"+canon(v.E[i+1]))
		}
		sort.Strings(parts)
		return "#H(" + strings.Join(parts, " ") + ")"
	}
	return sx.Typed(build(v))
}

// render is the harness's rendering of a slip object (own code for the containers, sx for the atoms).
func render(o slip.Object) string { return renderD(o, 0) }

func renderD(o slip.Object, depth int) string {
	if depth > 300 {
		panic(fmt.Sprintf("render: object nested deeper than 300 (cycle?) at %T", o))
	}
	render := func(x slip.Object) string { return renderD(x, depth+1) }
	switch t := o.(type) {
	case slip.List:
		if len(t) == 0 {
			return "nil"
		}
		parts := make([]string, len(t))
		for i, e := range t {
			if tail, ok := e.(slip.Tail); ok {
				parts[i] = ". " + render(tail.Value)
			} else {
				parts[i] = render(e)
			}
		}
		return "(" + strings.Join(parts, " ") + ")"
	case *slip.Vector:
		l := t.AsList()
		parts := make([]string, len(l))
		for i, e := range l {
			parts[i] = render(e)
		}
		return "#(" + strings.Join(parts, " ") + ")"
	case *slip.Array:
		el := t.Elements()
		parts := make([]string, len(el))
		for i, e := range el {
			parts[i] = render(e)
		}
		return fmt.Sprintf("#A%v(%s)", t.Dimensions(), strings.Join(parts, " "))
	case slip.Funky:
		// reader macros ('x `x ,x #'x) and compiled calls: as the list they stand for
		parts := []string{strings.ToLower(t.GetName())}
		if t.GetName() == "" {
			// ((lambda (x) ...) args): the head is the lambda the call object holds
			if lam, ok := t.Caller().(*slip.Lambda); ok {
				parts[0] = render(lam.LoadForm())
			}
		}
		for _, a := range t.GetArgs() {
			parts = append(parts, render(a))
		}
		return "(" + strings.Join(parts, " ") + ")"
	case slip.HashTable:
		var parts []string
		for k, v := range t {
			parts = append(parts, render(k)+"=>"+render(v))
		}
		sort.Strings(parts)
		return "#H(" + strings.Join(parts, " ") + ")"
	}
	return sx.Typed(o)
}

// ---- generator ------------------------------------------------------------

var (
	fixPool = []string{"0", "1", "-1", "2", "7", "-13", "255", "65536", "2147483648", "-2147483649", "4611686018427387904",
		"9223372036854775807", "-9223372036854775808", "1000000", "42"}
	bigPool = []string{"9223372036854775808", "-9223372036854775809", "18446744073709551617", "1000000000000000000000000000000",
		"-340282366920938463463374607431768211456"}
	ratioPool = []string{"1/2", "-1/3", "22/7", "-7/9", "1/9223372036854775808", "123456789012345678901/2"}
	sfPool    = []string{"1.5", "-2.25", "0.1", "100", "3.1415927", "1e10", "-1e-3", "0"}
	dfPool    = []string{"1.5", "-2.25", "0.1", "100", "3.141592653589793", "1e100", "-1e-7", "0", "123456789.125"}
	symPool   = []string{"a", "b", "foo", "bar-baz", "*x*", "x1", "list", "quote", "let", "setq", "car", "table", "inst",
		"defun", "lambda", "a-rather-long-symbol-name", "cond", "progn"}
	// symbols whose names only read back when written between bars
	oddSymPool = []string{"hello world", "1e5", "a(b", "x;y", "12", "a'b", "1E5", "-2D0", "7L-2", "1/2"}
	keyPool    = []string{":k", ":a", ":test", ":initial-contents", ":b2"}
	chrPool    = []string{"a", "A", "z", "0", "-", "é", "λ", "(", ")", "\"", ";", "#", "'", "\\", " ", "\n", "|"}
	strAlpha   = []rune("abcXY z01-_.;()'\"\\|#\n\tλé")
	plainAlpha = []rune("abcdefgh ij")
)

func pickS(t *rapid.T, label string, pool []string) string {
	return pool[rapid.IntRange(0, len(pool)-1).Draw(t, label)]
}

func genStr(t *rapid.T) string {
	alpha := strAlpha
	if rapid.IntRange(0, 2).Draw(t, "plainstr") > 0 {
		alpha = plainAlpha
	}
	n := rapid.IntRange(0, 14).Draw(t, "strlen")
	rs := make([]rune, n)
	for i := range rs {
		rs[i] = alpha[rapid.IntRange(0, len(alpha)-1).Draw(t, "strch")]
	}
	return string(rs)
}

func genAtom(t *rapid.T) V {
	switch rapid.IntRange(0, 13).Draw(t, "atom") {
	case 0, 1, 2:
		if rapid.IntRange(0, 3).Draw(t, "fixrand") == 0 {
			return V{K: "fix", S: strconv.FormatInt(rapid.Int64().Draw(t, "fixv"), 10)}
		}
		return V{K: "fix", S: pickS(t, "fix", fixPool)}
	case 3:
		return V{K: "big", S: pickS(t, "big", bigPool)}
	case 4:
		return V{K: "ratio", S: pickS(t, "ratio", ratioPool)}
	case 5:
		return V{K: "sf", S: pickS(t, "sf", sfPool)}
	case 6:
		return V{K: "df", S: pickS(t, "df", dfPool)}
	case 7, 8:
		return V{K: "str", S: genStr(t)}
	case 9, 10:
		if rapid.IntRange(0, 5).Draw(t, "oddsym") == 0 {
			return V{K: "sym", S: pickS(t, "osym", oddSymPool)}
		}
		return V{K: "sym", S: pickS(t, "sym", symPool)}
	case 11:
		return V{K: "key", S: pickS(t, "key", keyPool)}
	case 12:
		return V{K: "chr", S: pickS(t, "chr", chrPool)}
	}
	if rapid.Bool().Draw(t, "nil") {
		return V{K: "nil"}
	}
	return V{K: "t"}
}

func genKey(t *rapid.T) V {
	switch rapid.IntRange(0, 6).Draw(t, "hkey") {
	case 0, 1:
		return V{K: "fix", S: pickS(t, "fix", fixPool)}
	case 2:
		return V{K: "str", S: genStr(t)}
	case 3, 4:
		return V{K: "sym", S: pickS(t, "sym", symPool)}
	case 5:
		return V{K: "key", S: pickS(t, "key", keyPool)}
	}
	switch rapid.IntRange(0, 2).Draw(t, "hkey2") {
	case 0:
		return V{K: "chr", S: pickS(t, "chr", chrPool)}
	case 1:
		return V{K: "df", S: pickS(t, "df", dfPool)}
	}
	return V{K: "t"}
}

func genValue(t *rapid.T, depth int) V {
	if depth <= 0 || rapid.IntRange(0, 9).Draw(t, "leaf") < 4 {
		return genAtom(t)
	}
	elems := func(lo, hi int) []V {
		n := rapid.IntRange(lo, hi).Draw(t, "n")
		es := make([]V, n)
		for i := range es {
			es[i] = genValue(t, depth-1)
		}
		return es
	}
	switch rapid.IntRange(0, 9).Draw(t, "container") {
	case 0, 1, 2, 3:
		return V{K: "list", E: elems(0, 6)}
	case 4:
		es := elems(1, 4)
		tail := genAtom(t)
		for tail.K == "nil" {
			tail = V{K: "fix", S: "3"}
		}
		return V{K: "dotted", E: append(es, tail)}
	case 5, 6:
		return V{K: "vec", E: elems(0, 6), A: rapid.Bool().Draw(t, "adjustable")}
	case 7:
		rank := rapid.IntRange(2, 3).Draw(t, "rank")
		dims := make([]int, rank)
		size := 1
		for i := range dims {
			dims[i] = rapid.IntRange(1, 3).Draw(t, "dim")
			size *= dims[i]
		}
		es := make([]V, size)
		for i := range es {
			es[i] = genValue(t, depth-2)
		}
		return V{K: "arr", E: es, D: dims, A: rapid.Bool().Draw(t, "adjustable")}
	}
	n := rapid.IntRange(0, 4).Draw(t, "hn")
	var es []V
	seen := map[string]bool{}
	for i := 0; i < n; i++ {
		k := genKey(t)
		ck := strings.ToLower(canon(k))
		if seen[ck] {
			continue
		}
		seen[ck] = true
		es = append(es, k, genValue(t, depth-1))
	}
	return V{K: "hash", E: es}
}

// walk calls fn on every node.
func walk(v V, fn func(V)) {
	fn(v)
	for _, e := range v.E {
		walk(e, fn)
	}
}

func vdepth(v V) int {
	d := 0
	for _, e := range v.E {
		if x := vdepth(e); x > d {
			d = x
		}
	}
	if len(v.E) > 0 || v.K == "list" || v.K == "vec" || v.K == "hash" {
		return d + 1
	}
	return d
}
