package c19

import (
	"github.com/ohler55/slip"
	"pgregory.net/rapid"

	"verif/harness/internal/ev"
	"verif/harness/internal/h"
)

// Sub-property literal-value: the path a snapshot takes for a variable whose value can be written as a literal
// (numbers, strings, symbols, characters, lists and vectors of those): (setq name '<list>) / (setq name #(...)),
// pretty printed at a margin. Reading and evaluating the text must bind the name to an equal value. The vector is
// written as a literal, so its elements are data: a list in it is not code, whatever its first symbol is.

type LitCase struct {
	V      V    `json:"v"`
	Margin int  `json:"margin"`
	Bare   bool `json:"bare,omitempty"` // the value itself is printed (pretty-print value), not a setq form
}

func literalOnly(v *V) {
	switch v.K {
	case "arr", "hash":
		*v = V{K: "list", E: []V{{K: "sym", S: "let"}, {K: "fix", S: "1"}}}
	}
	for i := range v.E {
		literalOnly(&v.E[i])
	}
}

func genLitCase(t *rapid.T) LitCase {
	var v V
	switch rapid.IntRange(0, 3).Draw(t, "top") {
	case 0:
		v = V{K: "list", E: []V{genValue(t, 2), genValue(t, 3)}}
	default:
		// a vector with at least one list or vector element
		n := rapid.IntRange(1, 4).Draw(t, "n")
		v = V{K: "vec", A: rapid.Bool().Draw(t, "adjustable")}
		for i := 0; i < n; i++ {
			e := genValue(t, 2)
			if i == 0 && len(e.E) == 0 {
				head := V{K: "sym", S: pickS(t, "head", symPool)}
				e = V{K: "list", E: []V{head, genAtom(t), genValue(t, 1)}}
				if rapid.Bool().Draw(t, "short") {
					e.E = e.E[:rapid.IntRange(1, 2).Draw(t, "len")]
				}
			}
			v.E = append(v.E, e)
		}
	}
	literalOnly(&v)
	return LitCase{V: v, Margin: rapid.IntRange(20, 120).Draw(t, "margin"), Bare: rapid.IntRange(0, 3).Draw(t, "bare") == 0}
}

func runLiteral(c LitCase) *h.Result {
	res := &h.Result{Classes: []string{"L:" + c.V.K, marginClass(c.Margin)}}
	obj := build(c.V)
	var val slip.Object = obj
	if _, isList := obj.(slip.List); isList {
		val = slip.List{slip.Symbol("quote"), obj}
	}
	form := val
	if !c.Bare {
		form = slip.List{slip.Symbol("setq"), slip.Symbol("c19-lit"), val}
	}
	text, fault := ppText(form, c.Margin)
	if fault != "" {
		return h.Fail("pp.Append of %s: %s", ev.Show(form), fault)
	}
	again, fault := readOne(text)
	if fault != "" {
		return h.Fail("the pretty printed form can not be read: %s\nvalue: %s\ntext: %s", fault, canon(c.V), text)
	}
	scope := slip.NewScope()
	scope.Let(slip.Symbol("c19-lit"), nil)
	o := ev.Try(func() slip.Object { return again.Eval(scope, 0) })
	if o.Kind != ev.Value {
		return h.Fail("evaluating the pretty printed form: %s\nvalue: %s\ntext: %s", o, canon(c.V), text)
	}
	got := o.Val
	if !c.Bare {
		got = scope.Get(slip.Symbol("c19-lit"))
	}
	if want, have := canon(c.V), render(got); want != have {
		return h.Fail("the pretty printed literal gives a different value\nwant: %s\ngot:  %s\ntext: %s", want, have, text)
	}
	res.NonTrivial = vdepth(c.V) >= 2
	if hasBreak(text) {
		res.Classes = append(res.Classes, "L:line-break")
	}
	return res
}

var literalProp = h.Prop[LitCase]{Name: "literal-value", Gen: genLitCase, Run: runLiteral}
