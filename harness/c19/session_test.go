package c19

import (
	"fmt"
	"strconv"
	"strings"

	"pgregory.net/rapid"

	"verif/harness/internal/proggen"
	r "verif/harness/internal/refeval"
)

// Def is one top-level definition form of a session.
type Def struct {
	Kind string `json:"kind"` // defvar defparameter defconstant defun defmacro defflavor flavor-method defclass defgeneric generic-method defpackage pkg-defun pkg-defvar
	Name string `json:"name,omitempty"`
	Src  string `json:"src"`
}

// lispText is source text (a constructor expression) that evaluates to the value described by v.
func lispText(v V) string {
	switch v.K {
	case "nil":
		return "nil"
	case "t":
		return "t"
	case "fix", "big", "ratio":
		return v.S
	case "sf", "df":
		f, _ := strconv.ParseFloat(v.S, 64)
		mark := "d"
		if v.K == "sf" {
			mark = "s"
		}
		return strings.Replace(strconv.FormatFloat(f, 'e', -1, 64), "e", mark, 1)
	case "str":
		var b strings.Builder
		b.WriteByte('"')
		for _, c := range v.S {
			if c == '"' || c == '\\' {
				b.WriteByte('\\')
			}
			b.WriteRune(c)
		}
		b.WriteByte('"')
		return b.String()
	case "sym":
		for _, o := range oddSymPool {
			if o == v.S {
				return "'|" + v.S + "|"
			}
		}
		return "'" + v.S
	case "key":
		return v.S
	case "chr":
		return "#\\" + v.S
	case "list":
		if len(v.E) == 0 {
			return "nil"
		}
		return "(list " + lispTexts(v.E) + ")"
	case "dotted":
		return "(list* " + lispTexts(v.E) + ")"
	case "vec":
		return strings.TrimSpace("(vector "+lispTexts(v.E)) + ")"
	case "hash":
		var b strings.Builder
		b.WriteString("(let ((zh (make-hash-table)))")
		for i := 0; i+1 < len(v.E); i += 2 {
			fmt.Fprintf(&b, " (setf (gethash %s zh) %s)", lispText(v.E[i]), lispText(v.E[i+1]))
		}
		b.WriteString(" zh)")
		return b.String()
	}
	return "nil" // arr: not used in sessions
}

func lispTexts(vs []V) string {
	parts := make([]string, len(vs))
	for i, v := range vs {
		parts[i] = lispText(v)
	}
	return strings.Join(parts, " ")
}

// sessionChr restricts the characters of session values to the ones whose #\x syntax is a single plain character.
var sessionChr = []string{"a", "A", "z", "0", "-", "é"}

func genSessionValue(t *rapid.T, depth int) V {
	v := genValue(t, depth)
	var fix func(v *V)
	fix = func(v *V) {
		switch v.K {
		case "arr":
			*v = V{K: "fix", S: "8"}
		case "chr":
			v.S = sessionChr[len(v.S)%len(sessionChr)]
		}
		for i := range v.E {
			fix(&v.E[i])
		}
	}
	fix(&v)
	return v
}

// world is the state of the session generator.
type world struct {
	t        *rapid.T
	g        *proggen.Gen
	forms    []Def
	probes   []string
	intVars  []string
	sigs     []proggen.FunSig
	flavors  []*flavorM
	classes  []*classM
	generics []*genericM
	pkgs     []string
	nvar     int
	nconst   int
	nmacro   int
	markID   int
	kinds    map[string]bool
	special  bool // a function body uses a special layout
	// emitted: the generated functions defined so far; callable: the ones generated bodies and init forms may call
	emitted  map[string]bool
	callable []proggen.FunSig
	macros1  []string // macros of one argument defined so far
	// noPkgContent: packages stay empty (A3: the load form of a package does not carry its content)
	noPkgContent bool
	instances    []string
}

type flavorM struct {
	name    string
	vars    []string
	methods []string
	parents []*flavorM
}

type classM struct {
	name      string
	slots     []string
	accessors []string
	initargs  []string
}

type genericM struct {
	name  string
	arity int
	// cnm: one method of the generic function already calls the next method. Nested call-next-method chains are kept
	// out: variable lookup through the scopes of nested method calls is exponential in the depth (a matter of C10).
	cnm bool
}

// nameLetters: every global name carries a drawn letter before its number, so that the alphabetical order of the names
// (what snapshot sorts by) is independent of the order of definition and of inheritance. No n: zpn<k> is a nickname.
const nameLetters = "abmyz"

func (w *world) letter() string {
	return string(nameLetters[rapid.IntRange(0, len(nameLetters)-1).Draw(w.t, "letter")])
}

func (w *world) pick(label string, n int) int { return rapid.IntRange(0, n-1).Draw(w.t, label) }

func (w *world) add(kind, name, src string) {
	w.forms = append(w.forms, Def{Kind: kind, Name: name, Src: src})
	w.kinds[kind] = true
}

func (w *world) mark(expr string) string {
	w.markID++
	return fmt.Sprintf("(mark %d %s)", w.markID+100, expr)
}

func (w *world) doc() string {
	if w.pick("withdoc", 3) == 0 {
		return ""
	}
	return genDoc(w.t)
}

func quoteDoc(d string) string { return lispText(V{K: "str", S: d}) }

func (w *world) intExpr(depth int) string {
	return fixMark(r.Print(w.g.Expr(proggen.TInt, nil, depth)))
}

// fixMark: the observation primitive is called without its package prefix (the user package uses vt in this check)
// because a compiled call to a Go defined function is known by its bare name.
func fixMark(src string) string { return strings.ReplaceAll(src, "vt:mark", "mark") }

func (w *world) defVar() {
	w.nvar++
	name := fmt.Sprintf("zv%s%d", w.letter(), w.nvar)
	kind := []string{"defvar", "defvar", "defparameter"}[w.pick("varkind", 3)]
	var val string
	k := w.pick("varval", 6)
	if k == 4 && len(w.flavors)+len(w.classes) == 0 {
		k = 2
	}
	var initCall string
	if k == 5 {
		// the init form calls a function of the session that is complete (everything it may call is defined)
		for i, sg := range w.callable {
			ok := w.emitted[sg.Name]
			for _, callee := range w.callable[i+1:] {
				ok = ok && w.emitted[callee.Name]
			}
			if ok {
				initCall = "(" + sg.Name + strings.Repeat(" 2", sg.Arity) + ")"
			}
		}
		if initCall == "" {
			k = 0
		}
	}
	switch k {
	case 5:
		val = initCall
		w.intVars = append(w.intVars, name)
		w.g.GlobalVars = append(w.g.GlobalVars, name)
	case 4:
		// an instance of a flavor or class of the session, some slots changed
		var cls string
		var slots []string
		if i := w.pick("instof", len(w.flavors)+len(w.classes)); i < len(w.flavors) {
			cls, slots = w.flavors[i].name, w.flavors[i].allVars()
		} else {
			c := w.classes[i-len(w.flavors)]
			cls, slots = c.name, c.slots
		}
		var sets []string
		for _, sl := range slots {
			if w.pick("iset", 2) == 0 {
				v := []string{"42", "\"str\"", "'(1 two \"3\")", "'sym", ":kw", "2.5", "nil"}[w.pick("ival", 7)]
				sets = append(sets, fmt.Sprintf("(setf (slot-value i '%s) %s)", sl, v))
			}
		}
		val = fmt.Sprintf("(let ((i (make-instance '%s))) %s i)", cls, strings.Join(sets, " "))
		for _, sl := range slots {
			w.probes = append(w.probes, fmt.Sprintf("(ignore-errors (slot-value %s '%s))", name, sl))
		}
	case 0, 1:
		val = strconv.Itoa(rapid.IntRange(-5, 40).Draw(w.t, "intval"))
		w.intVars = append(w.intVars, name)
		w.g.GlobalVars = append(w.g.GlobalVars, name)
	default:
		val = lispText(genSessionValue(w.t, 2))
	}
	src := "(" + kind + " " + name + " " + val
	if d := w.doc(); d != "" {
		src += " " + quoteDoc(d)
	}
	label := kind
	if k == 4 {
		label = "instance-var"
	}
	w.add(label, name, src+")")
	if k != 4 {
		w.probes = append(w.probes, name)
	}
	w.probes = append(w.probes, fmt.Sprintf("(documentation '%s 'variable)", name))
}

func (w *world) defConst() {
	w.nconst++
	name := fmt.Sprintf("zk%s%d", w.letter(), w.nconst)
	val := lispText(genSessionValue(w.t, 1))
	src := "(defconstant " + name + " " + val
	if d := w.doc(); d != "" {
		src += " " + quoteDoc(d)
	}
	w.add("defconstant", name, src+")")
	w.probes = append(w.probes, name)
}

var lambdaLists = []struct{ params, body, call string }{
	{"(a &optional (b 2))", "(+ a b)", "(%s 1) (%s 1 5)"},
	{"(a &optional b)", "(list a b)", "(%s 1) (%s 1 5)"},
	{"(a &key (k 3) j)", "(list a k j)", "(%s 1) (%s 1 :k 4) (%s 1 :j 2 :k 0)"},
	{"(a &rest more)", "(cons a more)", "(%s 1) (%s 1 2 3)"},
	{"(&optional (a 1) (b (quote (1 2))))", "(list a b)", "(%s) (%s 4 5)"},
	{"(a b &key (k \"s\"))", "(list a b k)", "(%s 1 2) (%s 1 2 :k 7)"},
	{"(a &aux (z 3))", "(list a z)", "(%s 1)"},
	{"(a &optional (b (list 1 (quote q))) &rest r)", "(list a b r)", "(%s 1) (%s 1 2 3)"},
}

// firstVersion: with probability 1/3 the name is defined a first time with another lambda list, another documentation
// string and another body; the definition that follows replaces it. What is saved must be the last definition only
// (lambda list, documentation and body of one and the same definition).
func (w *world) firstVersion(definer, name string) {
	if w.pick("redefine", 3) != 0 {
		return
	}
	params := []string{"p", "q", "r", "s"}[:1+w.pick("oldarity", 4)]
	ll := strings.Join(params, " ")
	switch w.pick("oldshape", 4) {
	case 0:
		ll = strings.Join(params[:len(params)-1], " ") + " &optional (" + params[len(params)-1] + " 9)"
	case 1:
		ll += " &key (oldkey 5)"
	}
	src := "(" + definer + " " + name + " (" + strings.TrimSpace(ll) + ")"
	if w.pick("olddoc", 2) == 0 {
		src += " \"old doc\""
	}
	if definer == "defmacro" {
		src += " `(list " + ",p" + " 'old))"
	} else {
		src += " (list " + strings.Join(params, " ") + " 'old))"
	}
	w.add("re"+definer, name, src)
}

func (w *world) defun(i int) {
	w.firstVersion("defun", w.sigs[i].Name)
	sig := w.sigs[i]
	switch {
	case sig.Arity > 0:
		d := w.g.DefunIndexed(i, w.sigs).([]r.Val)
		form := []r.Val{d[0], d[1], d[2]}
		if doc := w.doc(); doc != "" {
			form = append(form, r.Str(doc))
		}
		form = append(form, d[3:]...)
		src := noFunctionForm(fixMark(r.Print(form)))
		for _, head := range []string{"(let ", "(let* ", "(cond ", "(do ", "(do* ", "(dotimes ", "(dolist ", "(lambda ", "(progn ", "(case "} {
			if strings.Contains(src, head) {
				w.special = true
			}
		}
		w.add("defun", sig.Name, src)
		for k := 0; k < 2; k++ {
			call := "(" + sig.Name
			for a := 0; a < sig.Arity; a++ {
				call += " " + strconv.Itoa(rapid.IntRange(-2, 4).Draw(w.t, "arg"))
			}
			w.probes = append(w.probes, call+")")
		}
	case len(w.macros1) > 0 && w.pick("usemacro", 3) == 0:
		// a function whose body is expanded from a macro of the session
		m := w.macros1[w.pick("whichmacro", len(w.macros1))]
		w.add("defun", sig.Name, "(defun "+sig.Name+" (a) (list ("+m+" a) a))")
		w.probes = append(w.probes, "("+sig.Name+" 3)")
	default:
		ll := lambdaLists[w.pick("lambdalist", len(lambdaLists))]
		src := "(defun " + sig.Name + " " + ll.params
		if doc := w.doc(); doc != "" {
			src += " " + quoteDoc(doc)
		}
		w.add("defun", sig.Name, src+" "+ll.body+")")
		w.probes = append(w.probes, "(list "+strings.ReplaceAll(ll.call, "%s", sig.Name)+")")
	}
	w.probes = append(w.probes, fmt.Sprintf("(documentation '%s 'function)", sig.Name))
}

func (w *world) defMacro() {
	w.nmacro++
	name := fmt.Sprintf("zm%s%d", w.letter(), w.nmacro)
	w.firstVersion("defmacro", name)
	var src, probe string
	switch w.pick("macro", 4) {
	case 0:
		src = "(defmacro " + name + " (x) (list '+ x 1))"
		probe = "(" + name + " 4)"
	case 1:
		src = "(defmacro " + name + " (x) `(+ ,x 1))"
		probe = "(" + name + " 4)"
	case 2:
		src = "(defmacro " + name + " (x &rest body) `(let ((q ,x)) ,@body))"
		probe = "(" + name + " 4 (+ q 1) (* q 2))"
	default:
		src = "(defmacro " + name + " (a b) `(list ,a ',b (quote ,b)))"
		probe = "(" + name + " (+ 1 2) foo)"
	}
	w.add("defmacro", name, src)
	if strings.Contains(src, " (x) ") {
		w.macros1 = append(w.macros1, name)
	}
	w.probes = append(w.probes, probe)
}

var flavorVarPool = []string{"a", "b", "c", "d"}

func (w *world) defFlavor() *flavorM { return w.defFlavorFrom(nil, false) }

// defFlavorFrom defines a flavor; with forced the given parents are used instead of drawn ones.
func (w *world) defFlavorFrom(forcedParents []*flavorM, forced bool) *flavorM {
	f := &flavorM{name: fmt.Sprintf("zfl%s%d", w.letter(), len(w.flavors)+1)}
	// n is always there and holds an integer, so that method bodies can compute with it
	varText := []string{fmt.Sprintf("(n %d)", w.pick("ndef", 9))}
	f.vars = []string{"n"}
	for _, v := range flavorVarPool[:w.pick("nvars", 4)] {
		name := v + strconv.Itoa(len(w.flavors)+1)
		f.vars = append(f.vars, name)
		switch w.pick("fvdef", 5) {
		case 0:
			varText = append(varText, name)
		case 1:
			varText = append(varText, "("+name+" "+strconv.Itoa(w.pick("fvint", 50))+")")
		case 2:
			varText = append(varText, "("+name+" \"s"+name+"\")")
		case 3:
			varText = append(varText, "("+name+" '(1 x \"y\"))")
		default:
			varText = append(varText, "("+name+" :kw)")
		}
	}
	var parents []string
	if forced {
		for _, p := range forcedParents {
			f.parents = append(f.parents, p)
			parents = append(parents, p.name)
		}
	} else if len(w.flavors) > 0 && w.pick("inherit", 3) > 0 {
		p := w.flavors[w.pick("parent", len(w.flavors))]
		f.parents = append(f.parents, p)
		parents = append(parents, p.name)
		if len(w.flavors) > 1 && w.pick("inherit2", 3) == 0 {
			p2 := w.flavors[w.pick("parent2", len(w.flavors))]
			if p2 != p && !p2.inherits(p) && !p.inherits(p2) {
				f.parents = append(f.parents, p2)
				parents = append(parents, p2.name)
			}
		}
	}
	var opts []string
	optList := func(option string) {
		switch w.pick(option, 4) {
		case 0:
		case 1, 2:
			opts = append(opts, option)
		default:
			opts = append(opts, "("+option+" "+strings.Join(f.vars[:1+w.pick("optvars", len(f.vars))], " ")+")")
		}
	}
	optList(":gettable-instance-variables")
	optList(":settable-instance-variables")
	optList(":initable-instance-variables")
	if d := w.doc(); d != "" {
		opts = append(opts, "(:documentation "+quoteDoc(d)+")")
	}
	src := "(defflavor " + f.name + " (" + strings.Join(varText, " ") + ") (" + strings.Join(parents, " ") + ")"
	if len(opts) > 0 {
		src += " " + strings.Join(opts, " ")
	}
	w.add("defflavor", f.name, src+")")
	w.flavors = append(w.flavors, f)
	return f
}

func (f *flavorM) inherits(p *flavorM) bool {
	for _, q := range f.parents {
		if q == p || q.inherits(p) {
			return true
		}
	}
	return false
}

func (f *flavorM) allVars() []string {
	vs := append([]string(nil), f.vars...)
	for _, p := range f.parents {
		for _, v := range p.allVars() {
			if !contains(vs, v) {
				vs = append(vs, v)
			}
		}
	}
	return vs
}

func (f *flavorM) allMethods() []string {
	ms := append([]string(nil), f.methods...)
	for _, p := range f.parents {
		for _, m := range p.allMethods() {
			if !contains(ms, m) {
				ms = append(ms, m)
			}
		}
	}
	return ms
}

func contains(ss []string, s string) bool {
	for _, x := range ss {
		if x == s {
			return true
		}
	}
	return false
}

func (w *world) flavorMethod() {
	if len(w.flavors) == 0 {
		w.defFlavor()
	}
	f := w.flavors[w.pick("mflavor", len(w.flavors))]
	meth := fmt.Sprintf(":m%d", 1+w.pick("meth", 3))
	daemon := []string{"", "", ":before", ":after"}[w.pick("daemon", 4)]
	var body string
	switch w.pick("fmbody", 4) {
	case 0:
		body = w.mark("(+ x n)")
	case 1:
		body = "(let ((y (* 2 x))) " + w.mark("(list y n)") + ")"
	case 2:
		body = "(progn (setq n (+ n x)) " + w.mark("n") + ")"
	default:
		body = "(cond ((< x n) " + w.mark("'less") + ") (t " + w.mark("(- x n)") + "))"
	}
	head := "(" + f.name + " " + meth + ")"
	if daemon != "" {
		head = "(" + f.name + " " + daemon + " " + meth + ")"
	}
	src := "(defmethod " + head + " (x)"
	if daemon == "" {
		if d := w.doc(); d != "" {
			src += " " + quoteDoc(d)
		}
	}
	w.add("flavor-method", f.name+daemon+meth, src+" "+body+")")
	if !contains(f.methods, meth) {
		f.methods = append(f.methods, meth)
	}
}

func (w *world) flavorProbes() {
	for _, f := range w.flavors {
		var sends []string
		for _, m := range f.allMethods() {
			sends = append(sends, fmt.Sprintf("(send i %s 3)", m))
		}
		for _, v := range f.allVars() {
			sends = append(sends, fmt.Sprintf("(ignore-errors (send i :%s))", v))
		}
		w.probes = append(w.probes, fmt.Sprintf("(let ((i (make-instance '%s))) (list %s))", f.name, strings.Join(sends, " ")))
		w.probes = append(w.probes, fmt.Sprintf("(let ((i (make-instance '%s :n 20))) (list (ignore-errors (send i :set-n 30)) (ignore-errors (send i :n)) %s))",
			f.name, strings.Join(sends, " ")))
		w.probes = append(w.probes, fmt.Sprintf("(documentation '%s 'type)", f.name))
	}
}

func (w *world) defClass() *classM { return w.defClassFrom(nil, false) }

// defClassFrom defines a class; with forced the given superclasses are used instead of drawn ones.
func (w *world) defClassFrom(forcedSupers []*classM, forced bool) *classM {
	c := &classM{name: fmt.Sprintf("zc%s%d", w.letter(), len(w.classes)+1)}
	var supers []string
	if forced {
		for _, sc := range forcedSupers {
			supers = append(supers, sc.name)
		}
	} else if len(w.classes) > 0 && w.pick("super", 3) > 0 {
		supers = append(supers, w.classes[w.pick("superc", len(w.classes))].name)
	}
	var slots []string
	ns := 1 + w.pick("nslots", 3)
	for i := 0; i < ns; i++ {
		slot := fmt.Sprintf("s%d%d", len(w.classes)+1, i)
		c.slots = append(c.slots, slot)
		text := "(" + slot
		if w.pick("initarg", 3) > 0 {
			text += " :initarg :" + slot
			c.initargs = append(c.initargs, ":"+slot)
		}
		switch w.pick("initform", 5) {
		case 0:
		case 1:
			text += " :initform " + strconv.Itoa(w.pick("sint", 30))
		case 2:
			text += " :initform \"str\""
		case 3:
			text += " :initform '(1 b)"
		default:
			text += " :initform :kw"
		}
		switch w.pick("access", 5) {
		case 0:
			acc := c.name + "-" + slot
			text += " :accessor " + acc
			c.accessors = append(c.accessors, acc)
		case 1:
			acc := c.name + "-" + slot
			text += " :reader " + acc
			c.accessors = append(c.accessors, acc)
		case 2:
			text += " :writer " + c.name + "-set-" + slot
		}
		if w.pick("alloc", 6) == 0 {
			text += " :allocation :class"
		}
		if w.pick("slotdoc", 5) == 0 {
			text += " :documentation " + quoteDoc(genDoc(w.t))
		}
		slots = append(slots, text+")")
	}
	src := "(defclass " + c.name + " (" + strings.Join(supers, " ") + ") (" + strings.Join(slots, " ") + ")"
	if d := w.doc(); d != "" {
		src += " (:documentation " + quoteDoc(d) + ")"
	}
	if len(c.initargs) > 0 && w.pick("definit", 3) == 0 {
		src += " (:default-initargs " + c.initargs[0] + " 77)"
	}
	w.add("defclass", c.name, src+")")
	w.classes = append(w.classes, c)
	return c
}

// hierarchy defines 3 or 4 flavors or classes at once, as a chain or (4) a diamond. Together with the drawn name
// letters this gives hierarchies of depth 3-4 whose alphabetical order is unrelated to the inheritance order.
func (w *world) hierarchy(flavor bool) {
	diamond := w.pick("diamond", 3) == 0
	n := 3 + w.pick("chainlen", 2)
	if flavor {
		top := w.defFlavorFrom(nil, true)
		if diamond {
			l, r := w.defFlavorFrom([]*flavorM{top}, true), w.defFlavorFrom([]*flavorM{top}, true)
			w.defFlavorFrom([]*flavorM{l, r}, true)
			return
		}
		for i := 1; i < n; i++ {
			top = w.defFlavorFrom([]*flavorM{top}, true)
		}
		return
	}
	top := w.defClassFrom(nil, true)
	if diamond {
		l, r := w.defClassFrom([]*classM{top}, true), w.defClassFrom([]*classM{top}, true)
		w.defClassFrom([]*classM{l, r}, true)
		return
	}
	for i := 1; i < n; i++ {
		top = w.defClassFrom([]*classM{top}, true)
	}
}

func (w *world) classProbes() {
	for _, c := range w.classes {
		var reads []string
		for _, s := range c.slots {
			reads = append(reads, fmt.Sprintf("(ignore-errors (slot-value o '%s))", s))
		}
		for _, a := range c.accessors {
			reads = append(reads, fmt.Sprintf("(ignore-errors (%s o))", a))
		}
		w.probes = append(w.probes, fmt.Sprintf("(let ((o (make-instance '%s))) (list %s))", c.name, strings.Join(reads, " ")))
		if len(c.initargs) > 0 {
			w.probes = append(w.probes, fmt.Sprintf("(let ((o (make-instance '%s %s 5))) (list %s))", c.name, c.initargs[0], strings.Join(reads, " ")))
		}
		w.probes = append(w.probes, fmt.Sprintf("(mapcar 'class-name (clos:class-precedence (find-class '%s)))", c.name),
			fmt.Sprintf("(documentation '%s 'type)", c.name))
	}
}

var specPool = []string{"fixnum", "integer", "number", "string", "symbol", "t", "list"}

func (w *world) defGeneric() *genericM {
	g := &genericM{name: fmt.Sprintf("zg%s%d", w.letter(), len(w.generics)+1), arity: 1 + w.pick("garity", 2)}
	params := []string{"x", "y"}[:g.arity]
	src := "(defgeneric " + g.name + " (" + strings.Join(params, " ") + ")"
	if d := w.doc(); d != "" {
		src += " (:documentation " + quoteDoc(d) + ")"
	}
	w.add("defgeneric", g.name, src+")")
	w.generics = append(w.generics, g)
	return g
}

func (w *world) genericMethod() {
	if len(w.generics) == 0 {
		w.defGeneric()
	}
	g := w.generics[w.pick("mgeneric", len(w.generics))]
	specs := append([]string(nil), specPool...)
	for _, c := range w.classes {
		specs = append(specs, c.name)
	}
	params := make([]string, g.arity)
	for i := range params {
		p := []string{"x", "y"}[i]
		if i == 0 || w.pick("spec2", 3) == 0 {
			params[i] = "(" + p + " " + specs[w.pick("spec", len(specs))] + ")"
		} else {
			params[i] = p
		}
	}
	qual := []string{"", "", "", " :before", " :after", " :around"}[w.pick("qual", 6)]
	if qual == " :around" && g.cnm {
		qual = " :before"
	}
	var body string
	switch {
	case qual == " :around":
		body = "(list " + w.mark("'around") + " (call-next-method))"
		g.cnm = true
	case qual != "":
		body = w.mark("x")
	default:
		k := w.pick("gmbody", 3)
		if k == 2 && g.cnm {
			k = 1
		}
		switch k {
		case 0:
			body = w.mark("(list x)")
		case 1:
			body = "(let ((v (list x))) " + w.mark("v") + ")"
		default:
			body = "(if (next-method-p) (list " + w.mark("'p") + " (call-next-method)) " + w.mark("'last") + ")"
			g.cnm = true
		}
	}
	src := "(defmethod " + g.name + qual + " (" + strings.Join(params, " ") + ")"
	if qual == "" {
		if d := w.doc(); d != "" {
			src += " " + quoteDoc(d)
		}
	}
	w.add("generic-method", g.name, src+" "+body+")")
}

func (w *world) genericProbes() {
	args := []string{"1", "\"s\"", "'sym", "2.5", "'(1 2)", "99999999999999999999"}
	for _, c := range w.classes {
		args = append(args, "(make-instance '"+c.name+")")
	}
	for _, g := range w.generics {
		for _, a := range args {
			call := "(" + g.name + " " + a
			if g.arity == 2 {
				call += " 1"
			}
			w.probes = append(w.probes, "(let ((r "+call+"))) (if (listp r) r 'object))")
		}
		w.probes = append(w.probes, fmt.Sprintf("(documentation '%s 'function)", g.name))
	}
}

func (w *world) defPackage() {
	n := len(w.pkgs) + 1
	name := fmt.Sprintf("zp%s%d", w.letter(), n)
	if w.pick("pkgfirst", 2) == 0 {
		// a name that sorts before common-lisp-user (snapshot writes the packages in name order)
		name = "a" + name
	}
	src := "(defpackage \"" + name + "\""
	uses := []string{"\"cl\""}
	if len(w.pkgs) > 0 && w.pick("pkguse", 3) > 0 {
		first := w.pick("pkgused", len(w.pkgs))
		uses = append(uses, "\""+w.pkgs[first]+"\"")
		if second := w.pick("pkgused2", len(w.pkgs)); second != first && w.pick("pkguse2", 2) == 0 {
			uses = append(uses, "\""+w.pkgs[second]+"\"")
		}
	}
	// a package that gets a function uses cl: the function is written by snapshot after (in-package ...), where its
	// body must find let, + and list
	withFun := !w.noPkgContent && w.pick("pkgfun", 2) == 0
	if withFun || w.pick("nouse", 4) > 0 {
		src += " (:use " + strings.Join(uses, " ") + ")"
	}
	if w.pick("nick", 2) == 0 {
		src += fmt.Sprintf(" (:nicknames \"zpn%d\")", n)
	}
	if d := w.doc(); d != "" {
		src += " (:documentation " + quoteDoc(d) + ")"
	}
	exported := w.pick("export", 2) == 0
	if exported {
		src += fmt.Sprintf(" (:export \"pf%d\" \"pv%d\")", n, n)
	}
	w.add("defpackage", name, src+")")
	w.pkgs = append(w.pkgs, name)
	w.probes = append(w.probes,
		fmt.Sprintf("(let ((p (find-package \"%s\"))) (list (package-name p) (package-nicknames p) (mapcar 'package-name (package-use-list p)) (documentation p t)))", name),
		// the package's own exports only: what else is visible through chains of use-package depends on the order of
		// definitions (two-hop visibility, left open by C13)
		fmt.Sprintf("(let ((l nil)) (do-external-symbols (s (find-package \"%s\")) (when (member (symbol-name s) '(\"pf%d\" \"pv%d\") :test 'string=) (setq l (cons (symbol-name s) l)))) (sort l 'string<))", name, n, n))
	if w.noPkgContent {
		return
	}
	if w.pick("pkgvar", 2) == 0 {
		w.add("pkg-defvar", name, fmt.Sprintf("(defvar %s::pv%d %d)", name, n, w.pick("pvval", 100)))
		w.probes = append(w.probes, fmt.Sprintf("%s::pv%d", name, n))
	}
	if withFun {
		w.add("pkg-defun", name, fmt.Sprintf("(defun %s::pf%d (x) (let ((y (+ x %d))) (list y x)))", name, n, w.pick("pfval", 10)))
		w.probes = append(w.probes, fmt.Sprintf("(%s::pf%d 2)", name, n))
	}
}

func newWorld(t *rapid.T) *world {
	w := &world{t: t, kinds: map[string]bool{}, emitted: map[string]bool{}}
	w.g = proggen.New(t, progOpts(), "")
	return w
}

// SnapCase is a session, the probes that observe the world it builds, and a right margin.
type SnapCase struct {
	Forms  []Def    `json:"forms"`
	Probes []string `json:"probes"`
	Margin int      `json:"margin"`
}

func newWorldOpts(t *rapid.T, noPkgContent bool) *world {
	w := newWorld(t)
	w.noPkgContent = noPkgContent
	return w
}

// genWorld draws n definition forms out of the given kinds.
func genWorld(t *rapid.T, n int, kinds []string) *world { return genWorldIn(newWorld(t), n, kinds) }

func genWorldIn(w *world, n int, kinds []string) *world {
	t := w.t
	// the functions of the program generator are announced first so that bodies may call each other
	nf := 0
	if contains(kinds, "defun") {
		nf = rapid.IntRange(0, 4).Draw(t, "nfun")
	}
	for i := 0; i < nf; i++ {
		arity := rapid.IntRange(0, 2).Draw(t, "arity")
		w.sigs = append(w.sigs, proggen.FunSig{Name: fmt.Sprintf("zf%s%d", w.letter(), i+1), Arity: arity})
	}
	// functions with a generated lambda list are not callable from generated bodies: announce them with arity 0 and keep
	// them out of the call graph
	var callable []proggen.FunSig
	for _, s := range w.sigs {
		if s.Arity > 0 {
			callable = append(callable, s)
		}
	}
	order := rapid.Permutation(seq(nf)).Draw(t, "funorder")
	nextFun := 0
	for len(w.forms) < n {
		switch kinds[w.pick("kind", len(kinds))] {
		case "defvar":
			w.defVar()
		case "defconstant":
			w.defConst()
		case "defun":
			if nextFun < nf {
				i := order[nextFun]
				nextFun++
				if w.sigs[i].Arity > 0 {
					// index in the callable list
					for k, s := range callable {
						if s.Name == w.sigs[i].Name {
							w.sigsDefun(k, callable)
						}
					}
				} else {
					w.defun(i)
				}
			} else {
				w.defVar()
			}
		case "defmacro":
			w.defMacro()
		case "defflavor":
			w.defFlavor()
		case "flavor-hierarchy":
			w.hierarchy(true)
		case "class-hierarchy":
			w.hierarchy(false)
		case "flavor-method":
			w.flavorMethod()
		case "defclass":
			w.defClass()
		case "defgeneric":
			w.defGeneric()
		case "generic-method":
			w.genericMethod()
		case "defpackage":
			w.defPackage()
		}
	}
	// every announced function must exist (bodies call them)
	for ; nextFun < nf; nextFun++ {
		i := order[nextFun]
		if w.sigs[i].Arity > 0 {
			for k, s := range callable {
				if s.Name == w.sigs[i].Name {
					w.sigsDefun(k, callable)
				}
			}
		} else {
			w.defun(i)
		}
	}
	w.flavorProbes()
	w.classProbes()
	w.genericProbes()
	w.instanceExprs()
	return w
}

// instanceExprs: one expression per flavor and class that builds an instance with some slots changed.
func (w *world) instanceExprs() {
	for _, f := range w.flavors {
		var sets []string
		for i, v := range f.allVars() {
			val := []string{"42", "\"str\"", "'(1 two \"3\")", "'sym", ":kw", "2.5", "nil"}[w.pick("ival", 7)]
			if i == 0 {
				val = "42"
			}
			if w.pick("iset", 2) == 0 {
				sets = append(sets, fmt.Sprintf("(setf (slot-value i '%s) %s)", v, val))
			}
		}
		w.instances = append(w.instances, fmt.Sprintf("(let ((i (make-instance '%s))) %s i)", f.name, strings.Join(sets, " ")))
	}
	for _, c := range w.classes {
		var sets []string
		for _, v := range c.slots {
			val := []string{"42", "\"str\"", "'(1 two \"3\")", "'sym", ":kw", "2.5", "nil"}[w.pick("ival", 7)]
			if w.pick("iset", 2) == 0 {
				sets = append(sets, fmt.Sprintf("(setf (slot-value i '%s) %s)", v, val))
			}
		}
		w.instances = append(w.instances, fmt.Sprintf("(let ((i (make-instance '%s))) %s i)", c.name, strings.Join(sets, " ")))
	}
}

func (w *world) sigsDefun(k int, callable []proggen.FunSig) {
	saved := w.sigs
	w.sigs = callable
	w.defun(k)
	w.sigs = saved
	w.callable = callable
	w.emitted[callable[k].Name] = true
}

func seq(n int) []int {
	s := make([]int, n)
	for i := range s {
		s[i] = i
	}
	return s
}

var allKinds = []string{"defvar", "defvar", "defconstant", "defun", "defun", "defun", "defmacro", "defflavor", "flavor-method",
	"flavor-method", "defclass", "defgeneric", "generic-method", "generic-method", "defpackage", "defpackage", "flavor-hierarchy",
	"class-hierarchy"}

func genSnapCase(t *rapid.T) SnapCase {
	w := genWorld(t, rapid.IntRange(5, 25).Draw(t, "nforms"), allKinds)
	return SnapCase{Forms: w.forms, Probes: w.probes, Margin: rapid.IntRange(20, 120).Draw(t, "margin")}
}

// genDefinition gives the text of one definition form (used by A2 to print every definition layout as data).
func genDefinition(t *rapid.T) string {
	w := genWorld(t, rapid.IntRange(1, 4).Draw(t, "nforms"), allKinds)
	return w.forms[rapid.IntRange(0, len(w.forms)-1).Draw(t, "which")].Src
}
