package c19

import (
	"fmt"
	"regexp"
	"sort"
	"strings"
	"sync/atomic"

	"github.com/ohler55/slip"
	"github.com/ohler55/slip/pkg/flavors"
	"pgregory.net/rapid"

	"verif/harness/internal/ev"
	"verif/harness/internal/h"
)

func init() {
	// the observation primitive is reachable as (mark ...) from the user package, see fixMark
	slip.UserPkg.Use(ev.VT)
	// like the packages slip itself defines in go, the package of the application is locked; snapshot takes an
	// unlocked package as one the session created with defpackage
	ev.VT.Locked = true
}

// DefsCase is a small world of packages, flavors, classes and generic functions; every object is rebuilt from its
// pretty printed load form under a fresh name and both worlds are compared.
type DefsCase struct {
	Forms  []Def    `json:"forms"`
	Probes []string `json:"probes"`
	// Instances are expressions that build an instance of a flavor or class of the world.
	Instances []string `json:"instances"`
	Margin    int      `json:"margin"`
}

var defsKinds = []string{"defflavor", "defflavor", "flavor-method", "flavor-method", "defclass", "defclass", "defgeneric",
	"generic-method", "generic-method", "defpackage", "flavor-hierarchy", "class-hierarchy"}

func genDefsCase(t *rapid.T) DefsCase {
	w := newWorldOpts(t, true)
	w = genWorldIn(w, rapid.IntRange(1, 8).Draw(t, "nforms"), defsKinds)
	return DefsCase{Forms: w.forms, Probes: w.probes, Instances: w.instances, Margin: rapid.IntRange(20, 120).Draw(t, "margin")}
}

var (
	worldID  atomic.Int64
	globalRe = regexp.MustCompile(`\b(a?)z(fl|pn|p|c|g)([a-z]?[0-9]+)\b`)
)

func nextID() string { return fmt.Sprintf("u%06d", worldID.Add(1)) }

// withID gives the global names of a generated text a process unique suffix.
func withID(text, id string) string {
	return globalRe.ReplaceAllString(text, "${1}z${2}${3}"+id)
}

type target struct {
	kind string
	name string // with id
	expr string // instances: expression building the object
	text string // pretty printed load form
	form string // rendering of the load form
}

func loadFormOf(obj slip.Object) (slip.Object, string) {
	lf, ok := obj.(slip.LoadFormer)
	if !ok {
		return nil, fmt.Sprintf("%T offers no load form", obj)
	}
	o := ev.Try(func() slip.Object { return lf.LoadForm() })
	if o.Kind != ev.Value {
		return nil, "LoadForm: " + o.String()
	}
	return o.Val, ""
}

func findObject(kind, name string) slip.Object {
	switch kind {
	case "defflavor":
		if f := flavors.Find(name); f != nil {
			return f
		}
	case "defclass":
		if c := slip.FindClass(name); c != nil {
			return c
		}
	case "defgeneric":
		if fi := slip.FindFunc(name); fi != nil {
			return fi
		}
	case "defpackage":
		if p := slip.FindPackage(name); p != nil {
			return p
		}
	}
	return nil
}

func runDefs(c DefsCase) *h.Result {
	res := &h.Result{Classes: []string{marginClass(c.Margin)}}
	id1, id2 := nextID(), nextID()
	scope1, scope2 := slip.NewScope(), slip.NewScope()
	var cleanup []func()
	defer func() {
		for i := len(cleanup) - 1; i >= 0; i-- {
			_ = ev.Try(func() slip.Object { cleanup[i](); return nil })
		}
	}()
	// world 1
	var targets []*target
	seen := map[string]bool{}
	addTarget := func(kind, name string) {
		if !seen[kind+" "+name] {
			seen[kind+" "+name] = true
			targets = append(targets, &target{kind: kind, name: name})
		}
	}
	for _, d := range c.Forms {
		src := withID(d.Src, id1)
		if o := ev.Eval(scope1, src); o.Kind != ev.Value {
			return h.Fail("generated definition is not accepted: %s\n%s", o, src)
		}
		res.Classes = append(res.Classes, "A:defs:"+d.Kind)
		switch d.Kind {
		case "defflavor", "defclass", "defgeneric", "defpackage":
			addTarget(d.Kind, withID(d.Name, id1))
		case "flavor-method":
			addTarget(d.Kind, withID(d.Name, id1))
		}
		for _, id := range []string{id1, id2} {
			name := withID(d.Name, id)
			switch d.Kind {
			case "defflavor":
				cleanup = append(cleanup, func() { _ = ev.Eval(slip.NewScope(), "(undefflavor '"+name+")") })
			case "defpackage":
				cleanup = append(cleanup, func() {
					if p := slip.FindPackage(name); p != nil {
						slip.RemovePackage(p)
					}
				})
			}
		}
	}
	// instances of every flavor and class
	for n, expr := range c.Instances {
		targets = append(targets, &target{kind: "instance", name: fmt.Sprintf("zi%d", n+1), expr: withID(expr, id1)})
	}
	// load forms, in an order in which they can be loaded: packages, flavors, their methods, classes, generics, instances
	var ordered []*target
	for _, kind := range []string{"defpackage", "defflavor", "flavor-method", "defclass", "defgeneric", "instance"} {
		for _, tg := range targets {
			if tg.kind == kind {
				ordered = append(ordered, tg)
			}
		}
	}
	broke := false
	for _, tg := range ordered {
		var obj slip.Object
		switch tg.kind {
		case "flavor-method":
			// printed through the documented flavor:daemon:method name
			obj = slip.Symbol(tg.name)
		case "instance":
			o := ev.Eval(scope1, tg.expr)
			if o.Kind != ev.Value {
				return h.Fail("instance can not be made: %s\n%s", o, tg.expr)
			}
			obj = o.Val
			scope1.Let(slip.Symbol(tg.name), obj)
		default:
			if obj = findObject(tg.kind, tg.name); obj == nil {
				return h.Fail("%s %s is not found after its definition", tg.kind, tg.name)
			}
		}
		printed := obj
		if tg.kind != "flavor-method" {
			form, msg := loadFormOf(obj)
			if msg != "" {
				return h.Fail("%s %s: %s", tg.kind, tg.name, msg)
			}
			tg.form = render(form)
			printed = form
		}
		text, fault := ppText(printed, c.Margin)
		if fault != "" {
			return h.Fail("pp.Append of the load form of %s %s: %s", tg.kind, tg.name, fault)
		}
		tg.text = text
		if hasBreak(text) {
			broke = true
		}
		if tg.kind != "flavor-method" {
			again, fault := readOne(text)
			if fault != "" {
				return h.Fail("pretty printed load form of %s %s can not be read: %s\ntext: %s", tg.kind, tg.name, fault, text)
			}
			if a := render(again); a != tg.form {
				return h.Fail("pretty printed load form of %s %s reads as a different form\nform: %s\nread: %s\ntext: %s",
					tg.kind, tg.name, tg.form, a, text)
			}
		}
	}
	// world 2: evaluate the printed load forms under the second id
	to2 := func(s string) string { return strings.ReplaceAll(s, id1, id2) }
	for _, tg := range ordered {
		text := to2(tg.text)
		o := ev.Eval(scope2, text)
		if o.Kind != ev.Value {
			return h.Fail("load form of %s %s can not be evaluated: %s\ntext: %s", tg.kind, tg.name, o, text)
		}
		var obj2 slip.Object
		switch tg.kind {
		case "flavor-method":
			continue
		case "instance":
			obj2 = o.Val
			scope2.Let(slip.Symbol(tg.name), obj2)
		default:
			if obj2 = findObject(tg.kind, to2(tg.name)); obj2 == nil {
				return h.Fail("evaluating the load form of %s %s defines nothing\ntext: %s", tg.kind, tg.name, text)
			}
		}
		form2, msg := loadFormOf(obj2)
		if msg != "" {
			return h.Fail("rebuilt %s %s: %s", tg.kind, tg.name, msg)
		}
		if a, b := to2(tg.form), render(form2); a != b {
			return h.Fail("rebuilt %s %s has a different load form\nwant: %s\ngot:  %s\ntext: %s", tg.kind, tg.name, a, b, text)
		}
	}
	// behaviour
	probes := append([]string(nil), c.Probes...)
	for _, tg := range ordered {
		if tg.kind == "instance" {
			probes = append(probes, "(describe-slots "+tg.name+")")
		}
	}
	for _, p := range probes {
		var want, got string
		if strings.HasPrefix(p, "(describe-slots ") {
			name := strings.TrimSuffix(strings.TrimPrefix(p, "(describe-slots "), ")")
			want = slotsOf(scope1.Get(slip.Symbol(name)))
			got = slotsOf(scope2.Get(slip.Symbol(name)))
		} else {
			want = evalTraced(scope1, withID(p, id1))
			got = evalTraced(scope2, withID(p, id2))
		}
		if want != strings.ReplaceAll(got, id2, id1) {
			return h.Fail("the world rebuilt from load forms behaves differently\nprobe: %s\noriginal: %s\nrebuilt:  %s", p, want, got)
		}
		if strings.HasPrefix(want, "value") {
			res.Classes = append(res.Classes, "A:defs:probe-value")
		} else {
			res.Classes = append(res.Classes, "A:defs:probe-condition")
		}
	}
	res.NonTrivial = broke
	if broke {
		res.Classes = append(res.Classes, "A:defs:line-break")
	}
	return res
}

// slotsOf renders the slots of an instance (own code over the exported Instance interface).
func slotsOf(obj slip.Object) string {
	inst, ok := obj.(slip.Instance)
	if !ok {
		return fmt.Sprintf("%T", obj)
	}
	names := inst.SlotNames()
	parts := make([]string, 0, len(names))
	for _, name := range names {
		if name == "self" {
			continue
		}
		v, has := inst.SlotValue(slip.Symbol(name))
		switch {
		case !has:
			parts = append(parts, name+"=<none>")
		case v == slip.Unbound:
			parts = append(parts, name+"=<unbound>")
		default:
			parts = append(parts, name+"="+render(v))
		}
	}
	sort.Strings(parts)
	return "slots " + strings.Join(parts, " ")
}

var defsProp = h.Prop[DefsCase]{Name: "load-form-defs", Gen: genDefsCase, Run: runDefs}
