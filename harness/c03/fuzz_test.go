package c03

import (
	"math"
	"strconv"
	"strings"
	"testing"
	"unicode/utf8"

	"github.com/ohler55/slip"

	"verif/harness/internal/ev"
	"verif/harness/internal/h"
)

// Native fuzz target: the fuzzer's text is read by slip, the first object it denotes (when it is readable data of the
// kinds the property names) is the object of an ordinary round-trip case under a printer configuration taken from the
// leading bytes. The case that is replayed holds the object, not the text.
// bytes: [base] [flags: radix, pretty, via lisp, case x3] [margin] [float format of the reading side] text

var cases3 = []string{"downcase", "upcase", "capitalize"}
var rdffs = []string{"double-float", "single-float", "long-float", "short-float"}

func modelled(n Node) bool {
	return !n.any(func(x Node) bool {
		if strings.HasPrefix(x.K, "?") || x.K == "int-as-bignum" || x.K == "int-as-ratio" {
			return true
		}
		if x.K == "sf" || x.K == "df" {
			f, err := strconv.ParseFloat(x.V, 64)
			return err != nil || math.IsInf(f, 0) || math.IsNaN(f)
		}
		if x.K == "lf" {
			// a long float with an exponent of millions takes math/big half a minute and more to turn into digits
			// (7L12345678: 30 s); that is slow, not wrong, and it would only starve the campaign
			f := x.long()
			if f.IsInf() {
				return true
			}
			if e := f.MantExp(nil); e > 40000 || e < -40000 {
				return true
			}
			return false
		}
		if x.K == "arr" {
			// rank 0 and empty dimensions are outside the sound domain (notes/C03.md: make-array cannot make them, #0A() printed as #0Anil is pinned)
			if len(x.D) == 0 {
				return true
			}
			for _, d := range x.D {
				if d == 0 {
					return true
				}
			}
		}
		if x.K == "list" && x.T != nil && (x.T.K == "nil" || x.T.K == "list") {
			// (a . nil) and (a . (b)) are kept by slip's reader as improper lists with a nil or list tail; the model and
			// the generated cases have atoms as dotted tails only
			return true
		}
		if x.K == "chr" && x.V == "\x00" {
			return true
		}
		if x.K == "sym" {
			// outside the sound domain: control characters in a symbol name, keywords that need pipes
			if strings.IndexFunc(x.V, func(r rune) bool { return r < 0x20 || (r >= 0x7f && r < 0xa0) }) >= 0 {
				return true
			}
			if l := strings.ToLower(x.V); l == "t" || l == "nil" {
				// |T| and \nil are read as symbol objects of those names; they print as t and nil, which are the
				// constants (the same symbols in the language, other Go values in slip)
				return true
			}
			if strings.HasPrefix(x.V, ":") && needsPipes(x.V[1:]) {
				return true
			}
		}
		if x.K == "str" || x.K == "sym" {
			return !utf8.ValidString(x.V)
		}
		return false
	})
}

func decodePR(b []byte) (c Case, ok bool) {
	if len(b) < 5 || len(b) > 4+120 {
		return c, false
	}
	c.Cfg = Cfg{Readably: true}
	c.Cfg.Base = 2 + int(b[0])%35
	fl := b[1]
	c.Cfg.Radix = c.Cfg.Base != 10 || fl&1 != 0
	c.Cfg.Pretty = fl&2 != 0
	if fl&4 != 0 && fl&8 != 0 {
		c.Cfg.Via = "lisp"
	}
	c.Cfg.Case = cases3[int(fl>>4)%3]
	c.Cfg.Margin = 1 + int(b[2])%200
	c.Cfg.RDFF = rdffs[int(b[3])%4]
	text := string(b[4:])
	if !utf8.ValidString(text) {
		return c, false
	}
	var objs slip.Code
	out := ev.Try(func() slip.Object {
		scope := slip.NewScope()
		objs = slip.ReadString(text, scope)
		return nil
	})
	if out.Kind != ev.Value || len(objs) == 0 {
		return c, false
	}
	c.Obj = fromObj(objs[0])
	if !modelled(c.Obj) || c.Obj.depth() > 6 {
		return c, false
	}
	return c, true
}

var roundtripFuzz = h.Prop[Case]{Name: "roundtrip-fuzz", Run: runRT}

func FuzzPrintRead(f *testing.F) {
	var seeds [][]byte
	for i, s := range []string{
		"(a . b)", "#2A((1 2)(3 4))", "\"a\\\"b\"", "|x y|", "#\\space", "#x-1F", "`(a ,b ,@c)", "'q", "#*101", "#(1 #(2))", "1.5d0", "-1/2", "1.0s0 ", "1.25L0", "(1 (2 (3 (4))) \"s\" #\\a :k)",
		"|1|", "|a;b|", "+", "-", "1+", "1e5", "\\a", "#0A5", "#1A(1 2)", "(quote a)", "(function car)", "#'car", "()", "(())", "(nil . nil)", "1e-7", "123456789012345678901234567890", "#o17/3",
		"(defun f (x) (let ((y 1)) (+ x y)))", "#3A(((1)))", "a.b", "a:b", ":|a b|", "|A|", "Ab", "#\\A", "#\\é", "\"é日本\"", "(1.0 2.0s0 3.0d0)", "#(a \"b\" #\\c 1/2)",
	} {
		seeds = append(seeds, append([]byte{byte(8 + i), byte(i * 7), byte(i * 13), byte(i)}, s...))
	}
	h.Warm(grid) // the open finding on long floats has its witness there
	h.FuzzProp(f, "c03", roundtripFuzz, decodePR, seeds)
}
