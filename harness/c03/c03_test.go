package c03

import (
	"bytes"
	"fmt"
	"io"
	"math"
	"math/big"
	"strconv"
	"strings"
	"testing"
	"unicode"
	"unicode/utf8"

	"github.com/ohler55/slip"
	"github.com/ohler55/slip/pkg/swank"
	"pgregory.net/rapid"

	"verif/harness/internal/ev"
	"verif/harness/internal/h"
	"verif/harness/internal/refnum"
)

func TestMain(m *testing.M) { h.Main(m, "C03") }

// Cfg is one setting of the printer control variables (and of the reading side).
type Cfg struct {
	Base     int    `json:"base"`
	Radix    bool   `json:"radix"`
	Case     string `json:"case"` // downcase upcase capitalize
	Pretty   bool   `json:"pretty"`
	Margin   int    `json:"margin"`
	Readably bool   `json:"readably"`         // false = the escape-only family
	RDFF     string `json:"rdff,omitempty"`   // *read-default-float-format* on the reading side
	Via      string `json:"via,omitempty"`    // "" = Go API (Printer + ReadString), "lisp" = write-to-string / read-from-string
	Chunks   []int  `json:"chunks,omitempty"` // wire only: sizes of the pieces the byte stream is delivered in
	// Session (wire only): index into wireSessions, settings of the user's printer variables while the message is written
	Session int `json:"session,omitempty"`
}

// wireSessions are settings of the session's printer control variables; a wire message must not depend on them.
var wireSessions = []string{
	"",
	"(setq *print-base* 16 *print-radix* t)",
	"(setq *print-level* 1 *print-length* 1)",
	"(setq *print-lines* 1 *print-right-margin* 8 *print-pretty* t)",
	"(setq *print-case* :upcase *print-escape* nil *print-readably* nil)",
	"(setq *print-base* 2 *print-level* 0 *print-length* 0 *print-array* nil *print-pretty* nil)",
}

// Case is an object and a configuration.
type Case struct {
	Obj Node `json:"obj"`
	Cfg Cfg  `json:"cfg"`
}

func (c Cfg) String() string {
	return fmt.Sprintf("base=%d radix=%v case=%s pretty=%v margin=%d readably=%v rdff=%s via=%s",
		c.Base, c.Radix, c.Case, c.Pretty, c.Margin, c.Readably, c.RDFF, c.Via)
}

func defaultCfg() Cfg {
	return Cfg{Base: 10, Case: "downcase", Pretty: false, Margin: 120, Readably: true}
}

func (c Cfg) printer() *slip.Printer {
	p := *slip.DefaultPrinter()
	p.ANSI = false
	p.Array = true
	p.Base = uint(c.Base)
	p.Radix = c.Radix
	p.Case = slip.Symbol(":" + c.Case)
	p.Circle = false
	p.Escape = true
	p.Length = math.MaxInt
	p.Level = math.MaxInt
	p.Lines = math.MaxInt
	p.Prec = -1
	p.MiserWidth = 0
	p.Pretty = c.Pretty
	p.Readably = c.Readably
	p.ReadablyError = true
	p.RightMargin = uint(c.Margin)
	return &p
}

func lispBool(b bool) string {
	if b {
		return "t"
	}
	return "nil"
}

// ---------------------------------------------------------------- print and read

func printGo(obj slip.Object, c Cfg) (string, ev.Outcome) {
	var text []byte
	out := ev.Try(func() slip.Object {
		text = c.printer().Append(nil, obj, 0)
		return nil
	})
	return string(text), out
}

func printLisp(obj slip.Object, c Cfg) (string, ev.Outcome) {
	scope := slip.NewScope()
	scope.Let(slip.Symbol("c03-x"), obj)
	src := fmt.Sprintf("(write-to-string c03-x :base %d :radix %s :case :%s :pretty %s :right-margin %d :readably %s :array t :escape t :circle nil :length nil :level nil :lines nil)",
		c.Base, lispBool(c.Radix), c.Case, lispBool(c.Pretty), c.Margin, lispBool(c.Readably))
	out := ev.Eval(scope, src)
	if out.Kind != ev.Value {
		return "", out
	}
	s, ok := out.Val.(slip.String)
	if !ok {
		out.Kind = ev.Fault
		out.Msg = "write-to-string did not return a string"
		return "", out
	}
	return string(s), out
}

func rdffOf(c Cfg) string {
	if c.RDFF == "" {
		return "double-float"
	}
	return c.RDFF
}

// readBack reads text; it must hold exactly one object.
func readBack(text string, c Cfg) (slip.Object, string) {
	if c.Via == "lisp" {
		scope := slip.NewScope()
		scope.Let(slip.Symbol("c03-s"), slip.String(text))
		out := ev.Eval(scope, fmt.Sprintf("(let ((*read-default-float-format* '%s)) (multiple-value-list (read-from-string c03-s)))", rdffOf(c)))
		if out.Kind != ev.Value {
			return nil, "read-from-string: " + out.String()
		}
		l, ok := out.Val.(slip.List)
		if !ok || len(l) != 2 {
			return nil, "read-from-string returned " + ev.Show(out.Val)
		}
		// the position value of read-from-string is not part of this property (the Go path checks that
		// the text holds exactly one object)
		return l[0], ""
	}
	scope := slip.NewScope()
	scope.Let(slip.Symbol("*read-default-float-format*"), slip.Symbol(rdffOf(c)))
	var code slip.Code
	out := ev.Try(func() slip.Object {
		code = slip.ReadString(text, scope)
		return nil
	})
	if out.Kind != ev.Value {
		return nil, "read: " + out.String()
	}
	if len(code) != 1 {
		return nil, fmt.Sprintf("read gave %d objects instead of 1", len(code))
	}
	return code[0], ""
}

// check that `back` is the datum `n` (model comparison, slip's Equal both ways, same type).
func sameDatum(n Node, orig, back slip.Object) string {
	if d := diff(n, fromObj(back), ""); d != "" {
		return d
	}
	var msg string
	out := ev.Try(func() slip.Object {
		if !slip.ObjectEqual(orig, back) {
			msg = "original.Equal(read) is false"
		} else if !slip.ObjectEqual(back, orig) {
			msg = "read.Equal(original) is false"
		} else if orig != nil && back != nil && orig.Hierarchy()[0] != back.Hierarchy()[0] {
			msg = fmt.Sprintf("type %s became %s", orig.Hierarchy()[0], back.Hierarchy()[0])
		}
		return nil
	})
	if out.Kind != ev.Value {
		return "Equal: " + out.String()
	}
	return msg
}

// ---------------------------------------------------------------- classification

func needsPipes(name string) bool {
	if name == "" {
		return true
	}
	for _, r := range name {
		switch {
		case r >= 'a' && r <= 'z', r >= 'A' && r <= 'Z', r >= '0' && r <= '9':
		case strings.ContainsRune("-*+<>=$%^_~.:@", r):
		default:
			return true
		}
	}
	return false
}

// numberLike: the name, read as a bare token in base 10, is a number (or the dot).
func numberLike(name string) bool {
	if name == "." {
		return true
	}
	s := strings.ToLower(name)
	i := 0
	if i < len(s) && (s[i] == '+' || s[i] == '-') {
		i++
	}
	d0 := i
	for i < len(s) && s[i] >= '0' && s[i] <= '9' {
		i++
	}
	if i == d0 {
		return false
	}
	if i == len(s) {
		return true
	}
	switch s[i] {
	case '/':
		j := i + 1
		if j < len(s) && (s[j] == '+' || s[j] == '-') {
			j++
		}
		k := j
		for k < len(s) && s[k] >= '0' && s[k] <= '9' {
			k++
		}
		return k > j && k == len(s)
	case '.':
		i++
		for i < len(s) && s[i] >= '0' && s[i] <= '9' {
			i++
		}
		if i == len(s) {
			return true
		}
	}
	if strings.IndexByte("esfdl", s[i]) < 0 {
		return false
	}
	i++
	if i < len(s) && (s[i] == '+' || s[i] == '-') {
		i++
	}
	k := i
	for k < len(s) && s[k] >= '0' && s[k] <= '9' {
		k++
	}
	return k > i && k == len(s)
}

func hardString(s string) bool {
	for _, r := range s {
		if r < 0x20 || r >= 0x7f || r == '"' || r == '\\' {
			return true
		}
	}
	return false
}

func hardLeaf(n Node) bool {
	switch n.K {
	case "int":
		i, _ := new(big.Int).SetString(n.V, 10)
		return !i.IsInt64()
	case "ratio", "lf":
		return true
	case "sf", "df":
		return strings.ContainsAny(n.V, "e") || n.V == "-0"
	case "str":
		return hardString(n.V)
	case "sym":
		return needsPipes(n.V) || numberLike(n.V)
	case "chr":
		r, _ := utf8.DecodeRuneInString(n.V)
		return !(r < 0x80 && (unicode.IsLetter(r) || unicode.IsDigit(r)))
	}
	return false
}

func isDefault(c Cfg) bool {
	return c.Base == 10 && !c.Radix && c.Case == "downcase" && c.Margin == 120 && c.Readably && (c.RDFF == "" || c.RDFF == "double-float")
}

func leafClass(n Node) string {
	switch n.K {
	case "int":
		if hardLeaf(n) {
			return "leaf:bignum"
		}
		return "leaf:fixnum"
	case "sym":
		switch {
		case n.V == "":
			return "leaf:sym-empty"
		case strings.HasPrefix(n.V, ":"):
			return "leaf:keyword"
		case numberLike(n.V):
			return "leaf:sym-numberlike"
		case strings.ContainsAny(n.V, "|\\"):
			return "leaf:sym-bar-or-backslash"
		case needsPipes(n.V):
			return "leaf:sym-needs-pipes"
		case strings.ToLower(n.V) != n.V:
			return "leaf:sym-mixed-case"
		}
		return "leaf:sym-plain"
	case "str":
		if hardString(n.V) {
			return "leaf:string-hard"
		}
		return "leaf:string-plain"
	case "chr":
		r, _ := utf8.DecodeRuneInString(n.V)
		switch {
		case r < 0x20 || r == 0x7f:
			return "leaf:char-control"
		case r == ' ':
			return "leaf:char-space"
		case r < 0x80 && (unicode.IsLetter(r) || unicode.IsDigit(r)):
			return "leaf:char-alnum"
		case r < 0x80:
			return "leaf:char-punct"
		case r > 0xffff:
			return "leaf:char-nonbmp"
		}
		return "leaf:char-bmp"
	case "list":
		if n.T != nil {
			return "node:dotted"
		}
		return "node:list"
	case "vec":
		return "node:vector"
	case "arr":
		return fmt.Sprintf("node:array-rank%d", len(n.D))
	}
	return "leaf:" + n.K
}

func classesOf(c Case) []string {
	seen := map[string]bool{}
	var out []string
	add := func(s string) {
		if !seen[s] {
			seen[s] = true
			out = append(out, s)
		}
	}
	c.Obj.walk(func(n Node) { add(leafClass(n)) })
	add(fmt.Sprintf("depth:%d", c.Obj.depth()))
	switch {
	case c.Cfg.Base == 10:
		add("cfg:base10")
	case c.Cfg.Base == 2 || c.Cfg.Base == 8 || c.Cfg.Base == 16:
		add("cfg:base-2-8-16")
	default:
		add("cfg:base-other")
	}
	if c.Cfg.Radix {
		add("cfg:radix")
	}
	add("cfg:case-" + c.Cfg.Case)
	if c.Cfg.Pretty {
		switch {
		case c.Cfg.Margin <= 10:
			add("cfg:pretty-margin<=10")
		case c.Cfg.Margin <= 40:
			add("cfg:pretty-margin<=40")
		default:
			add("cfg:pretty-margin>40")
		}
	} else {
		add("cfg:flat")
	}
	if c.Cfg.Via == "lisp" {
		add("via:lisp")
	}
	if !c.Cfg.Readably {
		add("cfg:escape-only")
	}
	return out
}

func nonTrivial(c Case) bool {
	return (c.Obj.depth() >= 2 || c.Obj.any(hardLeaf)) && !isDefault(c.Cfg)
}

// ---------------------------------------------------------------- exclusions of open findings

// readerPrec is the reader's rule for the precision of a long float read from text.
func readerPrec(mantissaChars int) uint { return uint(3.32 * float64(mantissaChars)) }

// longUnreadable: the shortest decimal text has so few digits that the precision the
// reader derives from them cannot hold the value.
func longUnreadable(n Node) bool {
	if n.K != "lf" {
		return false
	}
	f := n.long()
	if f.Sign() == 0 {
		return false
	}
	txt := f.Text('e', -1)
	m := txt[:strings.IndexByte(txt, 'e')]
	m = strings.TrimLeft(m, "+-")
	p := readerPrec(len(m))
	if p == 0 {
		return true
	}
	g, _, err := big.ParseFloat(txt, 10, p, big.ToNearestAway)
	return err != nil || g.Cmp(f) != 0
}

func excluded(c Case) string {
	tag := ""
	c.Obj.walk(func(n Node) {
		if tag == "" && n.K == "lf" && longUnreadable(n) && h.ExclOn("long-float-precision") {
			tag = "long-float-precision"
		}
	})
	return tag
}

// ---------------------------------------------------------------- the round trip

func runRT(c Case) *h.Result {
	res := &h.Result{NonTrivial: nonTrivial(c), Classes: classesOf(c)}
	if tag := excluded(c); tag != "" {
		res.Skip = tag
		return res
	}
	obj := build(c.Obj)
	text, out := printGo(obj, c.Cfg)
	if out.Kind != ev.Value {
		res.Err = fmt.Sprintf("printing %s under %s: %s", c.Obj.short(), c.Cfg, out)
		return res
	}
	if c.Cfg.Via == "lisp" {
		t2, o2 := printLisp(obj, c.Cfg)
		if o2.Kind != ev.Value {
			res.Err = fmt.Sprintf("write-to-string under %s: %s", c.Cfg, o2)
			return res
		}
		if t2 != text {
			res.Err = fmt.Sprintf("write-to-string gives %q, Printer.Append gives %q under %s", t2, text, c.Cfg)
			return res
		}
	}
	back, msg := readBack(text, c.Cfg)
	if msg != "" {
		res.Err = fmt.Sprintf("printed %q under %s; %s", text, c.Cfg, msg)
		return res
	}
	if d := sameDatum(c.Obj, obj, back); d != "" {
		res.Err = fmt.Sprintf("printed %q under %s; read back differs: %s", text, c.Cfg, d)
		return res
	}
	if c.Cfg.Pretty {
		// pretty printing changes white space only
		fc := c.Cfg
		fc.Pretty = false
		flat, fo := printGo(obj, fc)
		if fo.Kind != ev.Value {
			res.Err = fmt.Sprintf("flat printing under %s: %s", fc, fo)
			return res
		}
		if ok, why := sameTokens(tokens(flat), tokens(text)); !ok {
			res.Err = fmt.Sprintf("pretty %q and flat %q differ in more than white space (%s) under %s", text, flat, why, c.Cfg)
			return res
		}
		fb, fmsg := readBack(flat, fc)
		if fmsg != "" {
			res.Err = fmt.Sprintf("flat text %q under %s; %s", flat, fc, fmsg)
			return res
		}
		if d := sameDatum(c.Obj, obj, fb); d != "" {
			res.Err = fmt.Sprintf("flat text %q under %s; read back differs: %s", flat, fc, d)
			return res
		}
	}
	// the object itself is unchanged by printing
	if d := diff(c.Obj, fromObj(obj), ""); d != "" {
		res.Err = "printing altered the object: " + d
	}
	return res
}

// ---------------------------------------------------------------- swank wire framing

type chunked struct {
	data []byte
	cuts []int
	i    int
}

func (r *chunked) Read(p []byte) (int, error) {
	if len(r.data) == 0 {
		return 0, io.EOF
	}
	n := len(p)
	if len(r.cuts) > 0 {
		if k := r.cuts[r.i%len(r.cuts)]; k < n {
			n = k
		}
		r.i++
	}
	if n < 1 {
		n = 1
	}
	if n > len(r.data) {
		n = len(r.data)
	}
	copy(p, r.data[:n])
	r.data = r.data[n:]
	return n, nil
}

func runWire(c Case) *h.Result {
	res := &h.Result{NonTrivial: c.Obj.depth() >= 2 || c.Obj.any(hardLeaf), Classes: []string{"wire"}}
	for _, cl := range classesOf(c) {
		if strings.HasPrefix(cl, "leaf:") || strings.HasPrefix(cl, "node:") {
			res.Classes = append(res.Classes, cl)
		}
	}
	if tag := excluded(c); tag != "" {
		res.Skip = tag
		return res
	}
	msg := build(c.Obj)
	var buf bytes.Buffer
	var err error
	if c.Cfg.Session > 0 && c.Cfg.Session < len(wireSessions) {
		saved := *slip.DefaultPrinter()
		defer func() { *slip.DefaultPrinter() = saved }()
		if o := ev.Eval(slip.NewScope(), wireSessions[c.Cfg.Session]); o.Kind != ev.Value {
			return h.Fail("harness: %s => %s", wireSessions[c.Cfg.Session], o)
		}
		res.Classes = append(res.Classes, fmt.Sprintf("wire:session-%d", c.Cfg.Session))
	}
	out := ev.Try(func() slip.Object {
		err = swank.WriteWireMessage(&buf, msg)
		// a second message follows on the same stream
		if err == nil {
			err = swank.WriteWireMessage(&buf, slip.List{slip.Symbol(":ping"), slip.Fixnum(7)})
		}
		return nil
	})
	if out.Kind != ev.Value {
		res.Err = "WriteWireMessage: " + out.String()
		return res
	}
	if err != nil {
		res.Err = "WriteWireMessage: " + err.Error()
		return res
	}
	wire := append([]byte{}, buf.Bytes()...)
	if len(wire) < 6 {
		res.Err = "no header written"
		return res
	}
	if n, perr := strconv.ParseUint(string(wire[:6]), 16, 32); perr != nil || int(n)+6 > len(wire) {
		res.Err = fmt.Sprintf("header %q does not give the payload length", wire[:6])
		return res
	}
	rd := &chunked{data: wire, cuts: c.Cfg.Chunks}
	scope := slip.NewScope()
	var back, second slip.Object
	out = ev.Try(func() slip.Object {
		back, err = swank.ReadWireMessage(rd, scope)
		if err == nil {
			second, err = swank.ReadWireMessage(rd, scope)
		}
		return nil
	})
	if out.Kind != ev.Value {
		res.Err = fmt.Sprintf("ReadWireMessage of %q: %s", wire, out)
		return res
	}
	if err != nil {
		res.Err = fmt.Sprintf("ReadWireMessage of %q: %s", wire, err)
		return res
	}
	if d := sameDatum(c.Obj, msg, back); d != "" {
		res.Err = fmt.Sprintf("wire %q read back differs: %s", wire, d)
		return res
	}
	if d := diff(Node{K: "list", E: []Node{atom("sym", ":ping"), atom("int", "7")}}, fromObj(second), ""); d != "" {
		res.Err = fmt.Sprintf("wire %q: the following message was damaged: %s", wire, d)
	}
	return res
}

// ---------------------------------------------------------------- generators

var boundary = refnum.Boundary()

func genInt(rt *rapid.T) *big.Int {
	switch rapid.IntRange(0, 3).Draw(rt, "int-kind") {
	case 0:
		v := new(big.Int).Set(boundary[rapid.IntRange(0, len(boundary)-1).Draw(rt, "int-b")])
		return v.Add(v, big.NewInt(int64(rapid.IntRange(-1, 1).Draw(rt, "int-off"))))
	case 1:
		return big.NewInt(int64(rapid.IntRange(-1000, 1000).Draw(rt, "int-small")))
	}
	bits := rapid.IntRange(1, 200).Draw(rt, "int-bits")
	v := new(big.Int)
	for i := 0; i < (bits+31)/32; i++ {
		v.Lsh(v, 32)
		v.Or(v, big.NewInt(int64(rapid.Uint32().Draw(rt, "int-w"))))
	}
	v.Rsh(v, uint((32-bits%32)%32))
	v.SetBit(v, bits-1, 1)
	if rapid.Bool().Draw(rt, "int-neg") {
		v.Neg(v)
	}
	return v
}

func genRatio(rt *rapid.T) Node {
	n, d := genInt(rt), genInt(rt)
	if d.Sign() == 0 {
		d.SetInt64(7)
	}
	r := new(big.Rat).SetFrac(n, d)
	if r.IsInt() {
		r.Add(r, big.NewRat(1, 3))
	}
	return atom("ratio", r.RatString())
}

var sfTable = []float32{0, float32(math.Copysign(0, -1)), 1, -1, 0.1, 1.0 / 3, 1.5, 1e21, 1e20, 9.999999e20, 1e-4, 1e-5, 1e-7, 123456.7, 1e7, 16777216, math.SmallestNonzeroFloat32, math.MaxFloat32, -math.MaxFloat32, 1.17549435e-38, 3.4e38, 1e10, 100000, 1e6}
var dfTable = []float64{0, math.Copysign(0, -1), 1, -1, 0.1, 1.0 / 3, 1.5, 1e21, 1e20, 9.999999999999999e20, 1e-4, 1e-5, 1e-7, 123456.789, 1e15, 1e16, 9007199254740992, 9007199254740993, math.SmallestNonzeroFloat64, math.MaxFloat64, -math.MaxFloat64, 2.2250738585072014e-308, 1e100, 1e-100, 100000, 1e6, 4.9e-324, 1.7976931348623157e308}

func sfNode(f float32) Node { return atom("sf", strconv.FormatFloat(float64(f), 'g', -1, 32)) }
func dfNode(f float64) Node { return atom("df", strconv.FormatFloat(f, 'g', -1, 64)) }

func lfNode(f *big.Float) Node { return Node{K: "lf", V: f.Text('p', 0), P: f.Prec()} }

// lfFromDecimal builds the long float the reader makes from a decimal mantissa and an exponent.
func lfFromDecimal(mant string, exp int) Node {
	cnt := len(strings.TrimLeft(mant, "+-"))
	f, _, err := big.ParseFloat(mant+"e"+strconv.Itoa(exp), 10, readerPrec(cnt), big.ToNearestAway)
	if err != nil {
		panic(err)
	}
	return lfNode(f)
}

func genFloat(rt *rapid.T) Node {
	switch rapid.IntRange(0, 6).Draw(rt, "float-kind") {
	case 0:
		return sfNode(sfTable[rapid.IntRange(0, len(sfTable)-1).Draw(rt, "sf-t")])
	case 1:
		for {
			f := math.Float32frombits(rapid.Uint32().Draw(rt, "sf-bits"))
			if !math.IsNaN(float64(f)) && !math.IsInf(float64(f), 0) {
				return sfNode(f)
			}
		}
	case 2:
		return dfNode(dfTable[rapid.IntRange(0, len(dfTable)-1).Draw(rt, "df-t")])
	case 3:
		for {
			f := math.Float64frombits(rapid.Uint64().Draw(rt, "df-bits"))
			if !math.IsNaN(f) && !math.IsInf(f, 0) {
				return dfNode(f)
			}
		}
	case 4:
		// small decimal doubles and singles (the numbers people write)
		m := rapid.IntRange(-99999, 99999).Draw(rt, "dec-m")
		e := rapid.IntRange(-12, 25).Draw(rt, "dec-e")
		f, _ := strconv.ParseFloat(fmt.Sprintf("%de%d", m, e), 64)
		if rapid.Bool().Draw(rt, "dec-single") {
			return sfNode(float32(f))
		}
		return dfNode(f)
	case 5:
		// a long float as the reader makes it from decimal text
		nd := rapid.IntRange(1, 40).Draw(rt, "lf-digits")
		var sb strings.Builder
		if rapid.Bool().Draw(rt, "lf-neg") {
			sb.WriteByte('-')
		}
		for i := 0; i < nd; i++ {
			sb.WriteByte(byte('0' + rapid.IntRange(0, 9).Draw(rt, "lf-d")))
			if i == 0 && nd > 1 && rapid.Bool().Draw(rt, "lf-dot") {
				sb.WriteByte('.')
			}
		}
		return lfFromDecimal(sb.String(), rapid.IntRange(-400, 400).Draw(rt, "lf-e"))
	}
	// a long float of a given precision (what coerce or arithmetic makes)
	prec := rapid.SampledFrom([]uint{24, 53, 64, 100, 200}).Draw(rt, "lf-prec")
	if rapid.Bool().Draw(rt, "lf-simple") {
		f := new(big.Float).SetPrec(prec).SetFloat64(float64(rapid.IntRange(-4096, 4096).Draw(rt, "lf-n")) / float64(int(1)<<rapid.IntRange(0, 8).Draw(rt, "lf-sh")))
		return lfNode(f)
	}
	m := genInt(rt)
	f := new(big.Float).SetPrec(prec).SetInt(m)
	f.SetMantExp(f, rapid.IntRange(-300, 300).Draw(rt, "lf-exp"))
	return lfNode(f)
}

var specialRunes = []rune{'"', '\\', '|', '(', ')', ';', '#', '\'', ',', '`', ' ', '!', '?', '$', '%', '&', '[', ']', '{', '}', '~', '/', ':', '.', '@'}
var controlRunes = []rune{0, 1, 7, 8, 9, 10, 11, 12, 13, 27, 31, 127, 0x80, 0x85, 0x9f, 0xa0}
var oddRunes = []rune{0xe9, 0xdf, 0x130, 0x131, 0x3bb, 0x3a9, 0x1e9e, 0x4e2d, 0x2028, 0x2029, 0xfeff, 0xfffd, 0xffff, 0xd7ff, 0xe000, 0x10000, 0x1f600, 0x10ffff}

func genRune(rt *rapid.T, allowZero bool) rune {
	for {
		var r rune
		switch rapid.IntRange(0, 9).Draw(rt, "rune-class") {
		case 0, 1, 2:
			r = rune(rapid.SampledFrom([]byte("abcxyzABCXYZ0123456789uU")).Draw(rt, "rune-alnum"))
		case 3, 4:
			r = rapid.SampledFrom(specialRunes).Draw(rt, "rune-special")
		case 5:
			r = rapid.SampledFrom(controlRunes).Draw(rt, "rune-control")
		case 6:
			r = rune(rapid.IntRange(0x20, 0x7e).Draw(rt, "rune-ascii"))
		case 7:
			r = rapid.SampledFrom(oddRunes).Draw(rt, "rune-odd")
		case 8:
			r = rune(rapid.IntRange(0x80, 0xffff).Draw(rt, "rune-bmp"))
		default:
			r = rune(rapid.IntRange(0x10000, 0x10ffff).Draw(rt, "rune-astral"))
		}
		if r >= 0xd800 && r <= 0xdfff {
			continue
		}
		if r == 0 && !allowZero {
			continue
		}
		return r
	}
}

// escape-only family: strings without characters that need escaping for slip's reader
func plainRune(r rune) bool {
	return r != '"' && r != '\\' && (r >= 0x20 || r == '\t' || r == '\n' || r == '\r')
}

func genString(rt *rapid.T, plainOnly bool) Node {
	n := rapid.IntRange(0, 8).Draw(rt, "str-len")
	var sb strings.Builder
	for i := 0; i < n; i++ {
		r := genRune(rt, true)
		if plainOnly && !plainRune(r) {
			r = 'q'
		}
		sb.WriteRune(r)
	}
	return atom("str", sb.String())
}

var (
	plainSyms    = []string{"a", "foo", "foo-bar", "*x*", "a1", "x2y", "list", "quote", "lambda", "defun", "+", "-", "<=", "a.b", "e5", "d0", "ff", "1+", "1-", "-a", "+x", "a/b", "x_y", "%p", "$d", "~a", "e", "s", "u0041", "space"}
	mixedSyms    = []string{"Foo", "fooBar", "FOO", "X", "T1", "Nil-p", "aB-cD", "ABC-def"}
	keywordSyms  = []string{":key", ":Key-1", ":a", ":FOO", ":x2", ":return", ":ok", ":emacs-rex", ":1", ":a.b"}
	numberSyms   = []string{"1", "+1", "-12", "1e5", "1/2", ".", "1.", "1.5", "-1.5", "1d0", "12s3", "1f2", "1l0", "1E5", "007", "-3/4", "+1.", "1.5e-3", "9223372036854775808"}
	unicodeSyms  = []string{"λ", "é", "中", "Ω", "a?", "straße", "ẞ", "İ", "ı", "naïve", "π2", "?", "a→b", "😀"}
	barSyms      = []string{"a|b", "|", "a\\b", "\\", "a\\|b", "x\\n", "||"}
	pipeTriggers = []rune{' ', '(', ')', '\'', ';', '#', ',', '`', '"', '&', '!', '[', ']', '{', '}', '\t', '\n'}
)

func genSymbol(rt *rapid.T) Node {
	switch rapid.IntRange(0, 11).Draw(rt, "sym-class") {
	case 0, 1, 2:
		return atom("sym", rapid.SampledFrom(plainSyms).Draw(rt, "sym-plain"))
	case 3:
		return atom("sym", rapid.SampledFrom(mixedSyms).Draw(rt, "sym-mixed"))
	case 4, 5:
		return atom("sym", rapid.SampledFrom(keywordSyms).Draw(rt, "sym-key"))
	case 6:
		return atom("sym", "")
	case 7, 8:
		// a name needing |...|
		base := []rune(rapid.SampledFrom(append(append([]string{}, plainSyms...), mixedSyms...)).Draw(rt, "sym-base"))
		k := rapid.IntRange(1, 2).Draw(rt, "sym-ntrig")
		for i := 0; i < k; i++ {
			pos := rapid.IntRange(0, len(base)).Draw(rt, "sym-pos")
			tr := rapid.SampledFrom(pipeTriggers).Draw(rt, "sym-trig")
			base = append(base[:pos], append([]rune{tr}, base[pos:]...)...)
		}
		return atom("sym", string(base))
	case 9:
		return atom("sym", rapid.SampledFrom(numberSyms).Draw(rt, "sym-num"))
	case 10:
		return atom("sym", rapid.SampledFrom(unicodeSyms).Draw(rt, "sym-uni"))
	}
	return atom("sym", rapid.SampledFrom(barSyms).Draw(rt, "sym-bar"))
}

// dom: 0 = everything readable, 1 = escape-only family (no floats, plain strings), 2 = swank messages
func genLeaf(rt *rapid.T, dom int) Node {
	for {
		k := rapid.IntRange(0, 13).Draw(rt, "leaf-kind")
		switch k {
		case 0:
			return Node{K: "nil"}
		case 1:
			return Node{K: "t"}
		case 2, 3:
			return atom("int", genInt(rt).String())
		case 4:
			if dom == 2 {
				continue
			}
			return genRatio(rt)
		case 5, 6:
			if dom != 0 {
				continue
			}
			return genFloat(rt)
		case 7, 8:
			return genString(rt, dom == 1)
		case 9, 10:
			if dom == 2 {
				continue
			}
			return atom("chr", string(genRune(rt, false)))
		default:
			if dom == 2 {
				return atom("sym", rapid.SampledFrom(append(append([]string{}, keywordSyms...), plainSyms...)).Draw(rt, "sym-wire"))
			}
			return genSymbol(rt)
		}
	}
}

func genNode(rt *rapid.T, depth, dom int) Node {
	if depth <= 0 || rapid.IntRange(0, 9).Draw(rt, "is-leaf") < 3 {
		return genLeaf(rt, dom)
	}
	kind := rapid.IntRange(0, 9).Draw(rt, "node-kind")
	if dom == 2 && kind >= 6 {
		kind = 0
	}
	switch {
	case kind < 5:
		n := Node{K: "list"}
		w := rapid.IntRange(0, 5).Draw(rt, "list-w")
		for i := 0; i < w; i++ {
			n.E = append(n.E, genNode(rt, depth-1, dom))
		}
		if w == 0 {
			return Node{K: "nil"}
		}
		return n
	case kind < 6:
		n := Node{K: "list"}
		w := rapid.IntRange(1, 4).Draw(rt, "dot-w")
		for i := 0; i < w; i++ {
			n.E = append(n.E, genNode(rt, depth-1, dom))
		}
		for {
			t := genLeaf(rt, dom)
			if t.K != "nil" {
				n.T = &t
				break
			}
		}
		return n
	case kind < 8:
		n := Node{K: "vec"}
		w := rapid.IntRange(0, 5).Draw(rt, "vec-w")
		for i := 0; i < w; i++ {
			n.E = append(n.E, genNode(rt, depth-1, dom))
		}
		return n
	}
	n := Node{K: "arr"}
	rank := rapid.IntRange(2, 3).Draw(rt, "arr-rank")
	size := 1
	for i := 0; i < rank; i++ {
		d := rapid.IntRange(1, 3).Draw(rt, "arr-dim")
		n.D = append(n.D, d)
		size *= d
	}
	for i := 0; i < size; i++ {
		n.E = append(n.E, genNode(rt, min(depth-1, 1), dom))
	}
	return n
}

func genCfg(rt *rapid.T, readably bool) Cfg {
	c := Cfg{Readably: readably}
	if rapid.IntRange(0, 3).Draw(rt, "base10") == 0 {
		c.Base = 10
		c.Radix = rapid.Bool().Draw(rt, "radix")
	} else {
		c.Base = rapid.IntRange(2, 36).Draw(rt, "base")
		c.Radix = c.Base != 10 || rapid.Bool().Draw(rt, "radix")
	}
	c.Case = rapid.SampledFrom([]string{"downcase", "upcase", "capitalize"}).Draw(rt, "case")
	c.Pretty = rapid.Bool().Draw(rt, "pretty")
	if rapid.Bool().Draw(rt, "narrow") {
		c.Margin = rapid.IntRange(1, 30).Draw(rt, "margin-narrow")
	} else {
		c.Margin = rapid.IntRange(1, 200).Draw(rt, "margin")
	}
	if readably {
		c.RDFF = rapid.SampledFrom([]string{"double-float", "single-float", "long-float", "short-float"}).Draw(rt, "rdff")
	}
	if rapid.IntRange(0, 9).Draw(rt, "via") == 0 {
		c.Via = "lisp"
	}
	return c
}

func genDepth(rt *rapid.T) int {
	return rapid.SampledFrom([]int{0, 1, 1, 2, 2, 2, 3, 3, 4, 4}).Draw(rt, "depth")
}

func genRT(rt *rapid.T) Case {
	return Case{Cfg: genCfg(rt, true), Obj: genNode(rt, genDepth(rt), 0)}
}

func genEscape(rt *rapid.T) Case {
	return Case{Cfg: genCfg(rt, false), Obj: genNode(rt, genDepth(rt), 1)}
}

func genWire(rt *rapid.T) Case {
	c := Case{Cfg: defaultCfg(), Obj: genNode(rt, rapid.IntRange(1, 4).Draw(rt, "depth"), 2)}
	n := rapid.IntRange(0, 4).Draw(rt, "nchunks")
	for i := 0; i < n; i++ {
		c.Cfg.Chunks = append(c.Cfg.Chunks, rapid.IntRange(1, 12).Draw(rt, "chunk"))
	}
	if rapid.IntRange(0, 1).Draw(rt, "usersession") == 1 {
		c.Cfg.Session = rapid.IntRange(1, len(wireSessions)-1).Draw(rt, "session")
	}
	return c
}

// ---------------------------------------------------------------- the check

var (
	roundtrip = h.Prop[Case]{Name: "roundtrip", Gen: genRT, Run: runRT}
	escape    = h.Prop[Case]{Name: "roundtrip-escape-only", Gen: genEscape, Run: runRT}
	wire      = h.Prop[Case]{Name: "swank-wire", Gen: genWire, Run: runWire}
	grid      = h.Prop[Case]{Name: "leaf-grid", Run: runRT}
	chars     = h.Prop[Case]{Name: "every-character", Run: runRT}
	strs      = h.Prop[Case]{Name: "every-scalar-in-string", Run: runRT}
	margins   = h.Prop[Case]{Name: "margin-grid", Run: runRT}
)

func in(l Node, cfg Cfg) Case { return Case{Obj: l, Cfg: cfg} }

func list(e ...Node) Node { return Node{K: "list", E: e} }

func sampleObjects() []Node {
	s := func(v string) Node { return atom("sym", v) }
	i := func(v string) Node { return atom("int", v) }
	str := func(v string) Node { return atom("str", v) }
	dot := func(t Node, e ...Node) Node { return Node{K: "list", E: e, T: &t} }
	vec := func(e ...Node) Node { return Node{K: "vec", E: e} }
	arr := func(d []int, e ...Node) Node { return Node{K: "arr", D: d, E: e} }
	return []Node{
		list(s("defun"), s("foo"), list(s("a"), s("b")), list(s("+"), s("a"), s("b"), i("1"))),
		list(i("1"), list(i("2"), list(i("3"), list(i("4"), list(i("5"), i("6")))))),
		list(str("a b"), str("multi\nline"), atom("chr", " "), atom("chr", "a"), s("x y")),
		dot(i("3"), i("1"), i("2")),
		list(dot(s("b"), s("a")), dot(str("s"), vec(i("1"))), s("c")),
		vec(i("1"), vec(i("2"), i("3")), list(i("4"), i("5")), vec()),
		arr([]int{2, 2}, i("1"), i("2"), i("3"), i("4")),
		arr([]int{2, 1, 2}, s("a"), list(s("b"), s("c")), str("d"), vec(i("1"))),
		list(s("let"), list(list(s("x"), i("18446744073709551616")), list(s("y"), atom("ratio", "1/3"))), list(s("list"), s("x"), s("y"), atom("df", "1.5"), atom("sf", "0.1"))),
		list(list(list(list(s("deep"))))),
		list(s("a"), Node{K: "nil"}, Node{K: "t"}, list(Node{K: "nil"}), s(":k"), s("")),
		list(s("quote"), s("x")),
		list(s("function"), s("car")),
	}
}

func TestC03(t *testing.T) {
	h.Rule("object x printer configuration. Objects: trees of depth <= 4, width <= 5 over nil, t, integers (boundary table +-{0,1,2,3,2^31,2^32,2^62,2^63-1,2^63,2^64,2^64+-1}+-1, " +
		"+-1000, random to 200 bits), non-integer ratios of those, single/double floats (boundary table incl. -0, subnormal, max, %g switch points, random bit patterns, short decimals), " +
		"long floats (as the reader makes them from 1-40 digit decimals, and of precision 24/53/64/100/200), strings of 0-8 Unicode scalars (weight on \" \\ | control, non-BMP), " +
		"characters (every scalar != 0), symbols (plain, mixed case, keyword, empty, needing |..|, containing | or \\, number-like, non-ASCII), lists, dotted lists, vectors, arrays of rank 2-3. " +
		"Configurations: base 2-36 (radix on when base != 10, both for 10) x case x pretty x right margin 1-200 x *read-default-float-format* on the reading side, readably on; " +
		"a second family with readably off/escape on over objects without floats and without string characters that need escaping. 10% of cases go through write-to-string/read-from-string and must agree with the Go API. " +
		"Oracle: text reads as exactly one object; harness-side model comparison (own conversion and diff), slip Equal both ways, same Hierarchy()[0]; pretty and flat text have the same token sequence (own tokenizer) and both read back. " +
		"Non-trivial: depth >= 2 or a hard leaf (beyond int64, ratio, float with exponent, long float, string needing escapes or non-ASCII, symbol needing pipes or number-like, non-alphanumeric character) and a non-default configuration. Distinct by (object, configuration).")
	h.Assume("math/big, strconv and unicode/utf8 are correct")
	h.Assume("objects are constructed through slip's exported Go types and constructors (Fixnum, *Bignum, *Ratio, SingleFloat, DoubleFloat, *LongFloat, String, Character, Symbol, List, Tail, NewVector as (vector ...) does, NewArray)")

	if !h.Thorough() {
		// the quick tier samples the scalars above U+3000: different names, so that only the
		// complete enumerations of the thorough tier are reported as exhaustive sub-spaces
		chars.Name, strs.Name = "character-sample", "scalar-in-string-sample"
	}
	// witnesses of all subs first, so that exclusion tags are set before any search
	for _, p := range []h.Prop[Case]{grid, chars, strs, margins} {
		h.RunProp(t, p, 0)
	}
	h.RunProp(t, roundtrip, h.N(250000, 1500000))
	h.RunProp(t, escape, h.N(40000, 400000))
	h.RunProp(t, wire, h.N(25000, 200000))

	if h.C.Shard != 0 {
		return
	}
	def := defaultCfg()
	// the scalar enumerations rotate through four configurations
	enumCfg := func(r rune) Cfg {
		c := def
		switch r % 4 {
		case 1:
			c.Pretty, c.Margin, c.Case = true, 1, "upcase"
		case 2:
			c.Base, c.Radix = 16, true
		case 3:
			c.Pretty, c.Margin, c.Case, c.RDFF = true, 40, "capitalize", "single-float"
		}
		return c
	}

	// every Unicode scalar as a character (bare and inside a list) and inside a string
	h.Enumerate(t, chars, func(yield func(Case) bool) {
		for r := rune(1); r <= 0x10ffff; r++ {
			if r >= 0xd800 && r <= 0xdfff {
				continue
			}
			if !h.Thorough() && r > 0x3000 && r%61 != 0 {
				continue
			}
			c := atom("chr", string(r))
			if !yield(in(c, enumCfg(r))) {
				return
			}
			if r < 0x3000 {
				if !yield(in(list(c, c), enumCfg(r/4))) {
					return
				}
			}
		}
	})
	h.Enumerate(t, strs, func(yield func(Case) bool) {
		for r := rune(0); r <= 0x10ffff; r++ {
			if r >= 0xd800 && r <= 0xdfff {
				continue
			}
			if !h.Thorough() && r > 0x3000 && r%61 != 0 {
				continue
			}
			if !yield(in(atom("str", "a"+string(r)+"b"), enumCfg(r))) {
				return
			}
			if r < 0x3000 {
				if !yield(in(list(atom("str", string(r))), enumCfg(r/4))) {
					return
				}
			}
		}
	})
	if !h.Thorough() {
		h.Note("quick tier: character-sample and scalar-in-string-sample enumerate all scalars below U+3000 and every 61st above; the thorough tier enumerates all of them (every-character, every-scalar-in-string)")
	}

	h.Enumerate(t, grid, func(yield func(Case) bool) {
		cfgs := []Cfg{}
		for base := 2; base <= 36; base++ {
			for _, radix := range []bool{true, false} {
				if !radix && base != 10 {
					continue
				}
				c := def
				c.Base, c.Radix = base, radix
				cfgs = append(cfgs, c)
			}
		}
		// integers and ratios x base x radix
		for _, cfg := range cfgs {
			for _, b := range boundary {
				if !yield(in(atom("int", b.String()), cfg)) {
					return
				}
			}
			for i, n := range boundary {
				for j, d := range boundary {
					if d.Sign() <= 0 || (i+j)%3 != 0 {
						continue
					}
					r := new(big.Rat).SetFrac(n, d)
					if r.IsInt() {
						continue
					}
					if !yield(in(list(atom("ratio", r.RatString())), cfg)) {
						return
					}
				}
			}
		}
		// floats x read-default-float-format x context
		for _, rdff := range []string{"double-float", "single-float", "long-float", "short-float"} {
			cfg := def
			cfg.RDFF = rdff
			var fl []Node
			for _, f := range sfTable {
				fl = append(fl, sfNode(f))
			}
			for _, f := range dfTable {
				fl = append(fl, dfNode(f))
			}
			for _, m := range []string{"1", "1.5", "0.1", "3.14159", "1.2345678901234567890123", "123456789012345678901234567890", "-2.5", "0.0001"} {
				for _, e := range []int{0, 1, -1, 30, -30, 400} {
					fl = append(fl, lfFromDecimal(m, e))
				}
			}
			for _, p := range []uint{24, 53, 64, 200} {
				for _, v := range []float64{1, 1.5, -0.25, 1024, 3} {
					fl = append(fl, lfNode(new(big.Float).SetPrec(p).SetFloat64(v)))
				}
			}
			for _, f := range fl {
				if !yield(in(f, cfg)) || !yield(in(list(f, f), cfg)) {
					return
				}
			}
		}
		// symbols x case x pretty x context
		var syms []string
		for _, l := range [][]string{plainSyms, mixedSyms, keywordSyms, numberSyms, unicodeSyms, barSyms, {""}} {
			syms = append(syms, l...)
		}
		for _, tr := range pipeTriggers {
			syms = append(syms, "a"+string(tr)+"b", string(tr))
		}
		for _, cs := range []string{"downcase", "upcase", "capitalize"} {
			for _, pretty := range []bool{false, true} {
				cfg := def
				cfg.Case, cfg.Pretty = cs, pretty
				for _, name := range syms {
					s := atom("sym", name)
					if !yield(in(s, cfg)) || !yield(in(list(s, s), cfg)) || !yield(in(Node{K: "vec", E: []Node{s}}, cfg)) {
						return
					}
				}
			}
		}
	})

	// a fixed set of nested objects under every right margin, both cases of radix
	h.Enumerate(t, margins, func(yield func(Case) bool) {
		for _, o := range sampleObjects() {
			for m := 1; m <= 200; m++ {
				cfg := def
				cfg.Pretty, cfg.Margin = true, m
				if m%2 == 0 {
					cfg.Base, cfg.Radix = 16, true
				}
				if !yield(in(o, cfg)) {
					return
				}
			}
		}
	})
}
