package c03

// The harness-side model of readable data: a JSON-serialisable tree (Node), the
// construction of the slip object it stands for, the conversion of whatever slip read
// back into a Node, an explicit comparison, and a tokenizer for printed text. None of
// it uses slip's printer, reader or Equal.

import (
	"fmt"
	"math"
	"math/big"
	"strconv"
	"strings"
	"unicode/utf8"

	"github.com/ohler55/slip"
)

// Node kinds: nil t int ratio sf df lf str chr sym list vec arr.
type Node struct {
	K string `json:"k"`
	V string `json:"v,omitempty"` // int: decimal, ratio: n/d, sf/df: shortest Go text, lf: exact %p text, str/chr/sym: the text
	P uint   `json:"p,omitempty"` // lf: precision in bits
	D []int  `json:"d,omitempty"` // arr: dimensions
	E []Node `json:"e,omitempty"` // list/vec elements, arr elements in row-major order
	T *Node  `json:"t,omitempty"` // list: dotted tail (an atom)
}

func atom(k, v string) Node { return Node{K: k, V: v} }

func (n Node) rat() *big.Rat {
	r, ok := new(big.Rat).SetString(n.V)
	if !ok {
		panic("bad rational in case: " + n.V)
	}
	return r
}

func (n Node) long() *big.Float {
	f, _, err := big.ParseFloat(n.V, 0, n.P, big.ToNearestEven)
	if err != nil {
		panic("bad long float in case: " + n.V)
	}
	return f
}

// build makes the slip object the node stands for, the way slip's own constructors do
// (vector = what (vector ...) makes, array = what make-array makes).
func build(n Node) slip.Object {
	switch n.K {
	case "nil":
		return nil
	case "t":
		return slip.True
	case "int":
		i, ok := new(big.Int).SetString(n.V, 10)
		if !ok {
			panic("bad integer in case: " + n.V)
		}
		if i.IsInt64() {
			return slip.Fixnum(i.Int64())
		}
		return (*slip.Bignum)(i)
	case "ratio":
		r := n.rat()
		if r.IsInt() {
			panic("ratio node with integer value: " + n.V)
		}
		return (*slip.Ratio)(r)
	case "sf":
		f, err := strconv.ParseFloat(n.V, 32)
		if err != nil {
			panic(err)
		}
		return slip.SingleFloat(f)
	case "df":
		f, err := strconv.ParseFloat(n.V, 64)
		if err != nil {
			panic(err)
		}
		return slip.DoubleFloat(f)
	case "lf":
		return (*slip.LongFloat)(n.long())
	case "str":
		return slip.String(n.V)
	case "chr":
		r, _ := utf8.DecodeRuneInString(n.V)
		return slip.Character(r)
	case "sym":
		return slip.Symbol(n.V)
	case "list":
		if len(n.E) == 0 {
			return nil
		}
		l := make(slip.List, 0, len(n.E)+1)
		for _, e := range n.E {
			l = append(l, build(e))
		}
		if n.T != nil {
			l = append(l, slip.Tail{Value: build(*n.T)})
		}
		return l
	case "vec":
		l := make(slip.List, 0, len(n.E))
		for _, e := range n.E {
			l = append(l, build(e))
		}
		return slip.NewVector(len(l), slip.TrueSymbol, nil, l, true)
	case "arr":
		a := slip.NewArray(append([]int{}, n.D...), slip.TrueSymbol, nil, nil, false)
		for i, e := range n.E {
			a.MajorSet(i, build(e))
		}
		return a
	}
	panic("unknown node kind " + n.K)
}

// fromObj converts an object slip produced into a Node. Unknown types give kind "?<go type>".
func fromObj(o slip.Object) Node {
	switch t := o.(type) {
	case nil:
		return Node{K: "nil"}
	case slip.Fixnum:
		return atom("int", strconv.FormatInt(int64(t), 10))
	case *slip.Bignum:
		if (*big.Int)(t).IsInt64() {
			return atom("int-as-bignum", (*big.Int)(t).String())
		}
		return atom("int", (*big.Int)(t).String())
	case *slip.Ratio:
		if (*big.Rat)(t).IsInt() {
			return atom("int-as-ratio", (*big.Rat)(t).RatString())
		}
		return atom("ratio", (*big.Rat)(t).RatString())
	case slip.SingleFloat:
		return atom("sf", strconv.FormatFloat(float64(t), 'g', -1, 32))
	case slip.DoubleFloat:
		return atom("df", strconv.FormatFloat(float64(t), 'g', -1, 64))
	case *slip.LongFloat:
		return Node{K: "lf", V: (*big.Float)(t).Text('p', 0), P: (*big.Float)(t).Prec()}
	case slip.String:
		return atom("str", string(t))
	case slip.Character:
		return atom("chr", string(rune(t)))
	case slip.Symbol:
		return atom("sym", string(t))
	case slip.List:
		if len(t) == 0 {
			return Node{K: "nil"}
		}
		n := Node{K: "list"}
		for i, e := range t {
			if tl, ok := e.(slip.Tail); ok {
				if i != len(t)-1 {
					return Node{K: "?tail-inside-list"}
				}
				tn := fromObj(tl.Value)
				n.T = &tn
				continue
			}
			n.E = append(n.E, fromObj(e))
		}
		return n
	case *slip.Vector:
		n := Node{K: "vec"}
		for _, e := range t.AsList() {
			n.E = append(n.E, fromObj(e))
		}
		return n
	case *slip.Array:
		n := Node{K: "arr", D: append([]int{}, t.Dimensions()...)}
		for _, e := range t.Elements() {
			n.E = append(n.E, fromObj(e))
		}
		return n
	}
	if o == slip.True {
		return Node{K: "t"}
	}
	return Node{K: fmt.Sprintf("?%T", o)}
}

// diff returns "" when b is the same readable datum as a, else the first difference.
// Symbols are compared the way slip compares symbols (case-insensitively, simple Unicode
// folding); strings and characters byte for byte; floats by bit pattern (long floats by value).
func diff(a, b Node, path string) string {
	if a.K != b.K {
		return fmt.Sprintf("%s: kind %s became %s (%s -> %s)", path, a.K, b.K, a.short(), b.short())
	}
	switch a.K {
	case "nil", "t":
	case "int", "ratio", "str", "chr":
		if a.V != b.V {
			return fmt.Sprintf("%s: %s %q became %q", path, a.K, a.V, b.V)
		}
	case "sym":
		if !strings.EqualFold(a.V, b.V) {
			return fmt.Sprintf("%s: symbol %q became %q", path, a.V, b.V)
		}
	case "sf":
		x, _ := strconv.ParseFloat(a.V, 32)
		y, _ := strconv.ParseFloat(b.V, 32)
		if math.Float32bits(float32(x)) != math.Float32bits(float32(y)) {
			return fmt.Sprintf("%s: single-float %s became %s", path, a.V, b.V)
		}
	case "df":
		x, _ := strconv.ParseFloat(a.V, 64)
		y, _ := strconv.ParseFloat(b.V, 64)
		if math.Float64bits(x) != math.Float64bits(y) {
			return fmt.Sprintf("%s: double-float %s became %s", path, a.V, b.V)
		}
	case "lf":
		x, y := a.long(), b.long()
		if x.Cmp(y) != 0 || x.Signbit() != y.Signbit() {
			return fmt.Sprintf("%s: long-float %s (%d bits) became %s (%d bits)", path, x.Text('g', 40), a.P, y.Text('g', 40), b.P)
		}
	case "list", "vec", "arr":
		if a.K == "arr" && fmt.Sprint(a.D) != fmt.Sprint(b.D) {
			return fmt.Sprintf("%s: array dimensions %v became %v", path, a.D, b.D)
		}
		if len(a.E) != len(b.E) {
			return fmt.Sprintf("%s: %s of %d elements became one of %d", path, a.K, len(a.E), len(b.E))
		}
		for i := range a.E {
			if d := diff(a.E[i], b.E[i], path+"/"+strconv.Itoa(i)); d != "" {
				return d
			}
		}
		if (a.T == nil) != (b.T == nil) {
			return fmt.Sprintf("%s: dotted tail %v became %v", path, a.T != nil, b.T != nil)
		}
		if a.T != nil {
			return diff(*a.T, *b.T, path+"/tail")
		}
	default:
		return fmt.Sprintf("%s: object of kind %s is not readable data", path, a.K)
	}
	return ""
}

func (n Node) short() string {
	s := n.K
	if n.V != "" {
		s += ":" + strconv.Quote(n.V)
	}
	if len(n.E) > 0 {
		s += fmt.Sprintf("[%d]", len(n.E))
	}
	return s
}

// walk visits every node.
func (n Node) walk(f func(Node)) {
	f(n)
	for _, e := range n.E {
		e.walk(f)
	}
	if n.T != nil {
		n.T.walk(f)
	}
}

func (n Node) depth() int {
	d := 0
	for _, e := range n.E {
		if x := e.depth(); x > d {
			d = x
		}
	}
	if n.T != nil {
		if x := n.T.depth(); x > d {
			d = x
		}
	}
	if n.K == "list" || n.K == "vec" || n.K == "arr" {
		return d + 1
	}
	return d
}

func (n Node) any(pred func(Node) bool) bool {
	found := false
	n.walk(func(x Node) {
		if pred(x) {
			found = true
		}
	})
	return found
}

// ---- printed-text tokenizer ----------------------------------------------------------

// tokens splits printed text into its tokens, treating "..." , |...| and #\x as units, so
// that two texts with equal token sequences differ in white space between tokens only.
func tokens(s string) []string {
	var out []string
	i := 0
	isWS := func(c byte) bool { return c == ' ' || c == '\n' || c == '\t' || c == '\r' || c == '\f' }
	for i < len(s) {
		c := s[i]
		switch {
		case isWS(c):
			i++
		case c == '(' || c == ')':
			out = append(out, string(c))
			i++
		case c == '"' || c == '|':
			j := i + 1
			for j < len(s) && s[j] != c {
				if s[j] == '\\' {
					j++
				}
				j++
			}
			if j >= len(s) {
				j = len(s) - 1
			}
			out = append(out, s[i:j+1])
			i = j + 1
		case c == '#' && i+1 < len(s) && s[i+1] == '\\':
			j := i + 2
			if j < len(s) {
				_, w := utf8.DecodeRuneInString(s[j:])
				j += w
			}
			for j < len(s) && !isWS(s[j]) && s[j] != '(' && s[j] != ')' {
				j++
			}
			out = append(out, s[i:j])
			i = j
		default:
			j := i
			for j < len(s) && !isWS(s[j]) && s[j] != '(' && s[j] != ')' && s[j] != '"' {
				j++
			}
			if j == i {
				j++
			}
			out = append(out, s[i:j])
			i = j
		}
	}
	return out
}

func sameTokens(a, b []string) (bool, string) {
	for i := 0; i < len(a) && i < len(b); i++ {
		if a[i] != b[i] {
			return false, fmt.Sprintf("token %d: %q vs %q", i, a[i], b[i])
		}
	}
	if len(a) != len(b) {
		return false, fmt.Sprintf("%d vs %d tokens", len(a), len(b))
	}
	return true, ""
}
