package c07

import (
	"errors"
	"fmt"
	"os"
	"path/filepath"
	"strings"
	"sync"
	"testing"
	"time"

	"github.com/ohler55/slip"
	"github.com/ohler55/slip/pkg/gi"
	"pgregory.net/rapid"

	"verif/harness/internal/ev"
	"verif/harness/internal/h"
	r "verif/harness/internal/refeval"
	"verif/harness/internal/sx"
)

func TestMain(m *testing.M) { h.Main(m, "C07") }

// Case is a program of nested forms with exits at body positions.
type Case struct {
	Prog string `json:"program"`
}

func sym(s string) r.Val { return r.Sym(s) }

// ---------------------------------------------------------------- generator

type ctx struct {
	blocks  []string // lexically visible block names ("" = nil block)
	tags    []string // lexically visible tags
	inFn    bool     // inside a lambda body (go out of a lambda is an open finding)
	nvar    string   // inside the recursive function: returned values depend on this variable (the recursion depth)
	kinds   []string // intervening form kinds from the outermost target candidates to here
	mutexes map[string]bool
}

type gen struct {
	rt       *rapid.T
	mark     int64
	nblock   int
	ntag     int
	nmutex   int
	nstream  int
	exits    int
	crossing map[string]int // "kind x exit" matrix for evidence
	hasExit  bool
	maxCross int
	dir      string
}

func (g *gen) pick(label string, n int) int { return rapid.IntRange(0, n-1).Draw(g.rt, label) }

func (g *gen) m() r.Val {
	g.mark++
	return r.L(sym("vt:mark"), g.mark)
}

func (g *gen) mv(v r.Val) r.Val {
	g.mark++
	return r.L(sym("vt:mark"), g.mark, v)
}

var errorForms = map[string]r.Val{
	"error":     r.L(sym("error"), r.Str("boom")),
	"type":      r.L(sym("car"), int64(1)),
	"divzero":   r.L(sym("/"), int64(1), int64(0)),
	"unbound":   sym("zz-unbound-variable"),
	"undefined": r.L(sym("zz-undefined-function"), int64(1)),
}
var errorKinds = []string{"error", "type", "divzero", "unbound", "undefined"}

// exit draws an exit that is legal at this point (or nil).
func (g *gen) exit(c ctx) r.Val {
	type cand struct {
		form r.Val
		kind string
		idx  int // index into c.kinds from which the exit crosses forms (-1: error, crosses everything)
	}
	var cands []cand
	for i, b := range c.blocks {
		var v r.Val = int64(100 + i)
		if c.nvar != "" {
			v = r.L(sym("+"), sym(c.nvar), int64(100+i)) // differs between the activations of the recursive function
		}
		// one exit in four yields nil: written with a nil value, with an expression that is nil, or without a value
		// form (an exit whose value is nil must leave the form like any other)
		valued := []r.Val{g.mv(v)}
		switch g.pick("exitnil", 12) {
		case 0:
			valued = []r.Val{nil}
		case 1:
			valued = []r.Val{g.mv(nil)}
		case 2:
			valued = nil
		}
		if b == "" {
			cands = append(cands, cand{form: r.L(append([]r.Val{sym("return")}, valued...)...), kind: "return"})
		} else {
			// symbols are compared without regard to case: one exit in four spells its block name or tag in upper case
			if g.pick("blockcase", 4) == 0 {
				b = strings.ToUpper(b)
			}
			cands = append(cands, cand{form: r.L(append([]r.Val{sym("return-from"), sym(b)}, valued...)...), kind: "return-from"})
		}
	}
	if !(c.inFn && h.ExclOn("go-out-of-lambda")) {
		for _, t := range c.tags {
			if g.pick("tagcase", 4) == 0 {
				t = strings.ToUpper(t)
			}
			cands = append(cands, cand{form: r.L(sym("go"), sym(t)), kind: "go"})
		}
	}
	for _, k := range errorKinds {
		cands = append(cands, cand{form: errorForms[k], kind: "error-" + k})
	}
	ch := cands[g.pick("exitsel", len(cands))]
	g.exits++
	g.hasExit = true
	for _, k := range c.kinds {
		g.crossing[k+" x "+ch.kind]++
	}
	if len(c.kinds) > g.maxCross {
		g.maxCross = len(c.kinds)
	}
	return ch.form
}

func (c ctx) with(kind string) ctx {
	n := c
	n.kinds = append(append([]string{}, c.kinds...), kind)
	return n
}

// body: 1-3 statements; each a mark, an exit or a nested form.
func (g *gen) body(c ctx, d int) []r.Val {
	var out []r.Val
	n := 1 + g.pick("bodyn", 3)
	for i := 0; i < n; i++ {
		k := g.pick("stmt", 10)
		switch {
		case k < 3 || d >= 5:
			if d >= 5 && k >= 7 && g.exits < 3 {
				out = append(out, g.exit(c))
			} else {
				out = append(out, g.m())
			}
		case k < 5 && g.exits < 3:
			out = append(out, g.exit(c))
		default:
			out = append(out, g.form(c, d))
		}
	}
	return out
}

// loopBody: the body of dolist / dotimes / do is a tagbody too. Half of the loops get a tag in the middle of the body,
// with forms after it, that the statements before it (and anything nested in them) may go to.
func (g *gen) loopBody(nc ctx, d int) []r.Val {
	if g.pick("looptag", 2) != 0 {
		return g.body(nc, d+1)
	}
	g.ntag++
	t := fmt.Sprintf("t%dl", g.ntag)
	tc := nc
	tc.tags = append(append([]string{}, nc.tags...), t)
	stmts := g.body(tc, d+1)
	stmts = append(stmts, sym(t), g.m())
	return append(stmts, g.body(nc, d+1)...)
}

// a backward go needs a counter so the program terminates
func (g *gen) form(c ctx, d int) r.Val {
	list := func(head string, rest ...r.Val) r.Val { return r.L(append([]r.Val{sym(head)}, rest...)...) }
	switch g.pick("formk", 22) {
	case 0, 1:
		g.nblock++
		name := fmt.Sprintf("b%d", g.nblock)
		nc := c.with("block")
		nc.blocks = append(append([]string{}, c.blocks...), name)
		return list("block", append([]r.Val{sym(name)}, g.body(nc, d+1)...)...)
	case 2:
		nc := c.with("block")
		nc.blocks = append(append([]string{}, c.blocks...), "")
		return list("block", append([]r.Val{nil}, g.body(nc, d+1)...)...)
	case 3, 4:
		// tagbody with one or two tags; a backward jump is guarded by the global counter
		g.ntag++
		t1 := fmt.Sprintf("t%da", g.ntag)
		t2 := fmt.Sprintf("t%db", g.ntag)
		nc := c.with("tagbody")
		nc.tags = append(append([]string{}, c.tags...), t2)
		var stmts []r.Val
		stmts = append(stmts, sym(t1))
		stmts = append(stmts, g.body(nc, d+1)...)
		if g.pick("backward", 2) == 0 {
			// (if (< (setq *cnt* (1+ *cnt*)) 3) (go t1)) : at most a few rounds in total
			stmts = append(stmts, list("if", list("<", list("setq", sym("*cnt*"), list("1+", sym("*cnt*"))), int64(3)), list("go", sym(t1))))
		}
		stmts = append(stmts, g.body(nc, d+1)...)
		stmts = append(stmts, sym(t2))
		stmts = append(stmts, g.m())
		return list("tagbody", stmts...)
	case 5, 6:
		nc := c.with("unwind-protect")
		cleanup := []r.Val{g.m()}
		if g.pick("cleanup2", 2) == 0 {
			cleanup = append(cleanup, g.m())
		}
		// the protected form is a progn of statements or, half of the time, one bare statement (an exit or a
		// nested form directly in the protected position)
		var protected r.Val
		if g.pick("bareprotected", 2) == 0 {
			protected = list("progn", g.body(nc, d+1)...)
		} else if g.exits < 3 && g.pick("bareexit", 2) == 0 {
			protected = g.exit(nc)
		} else {
			protected = g.form(nc, d+1)
		}
		return list("unwind-protect", append([]r.Val{protected}, cleanup...)...)
	case 7:
		if g.nmutex >= 3 {
			return g.m()
		}
		g.nmutex++
		mu := fmt.Sprintf("*m%d*", g.nmutex)
		return list("with-mutex-lock", append([]r.Val{sym(mu)}, g.body(c.with("with-mutex-lock"), d+1)...)...)
	case 8:
		if g.nstream >= 3 {
			return g.m()
		}
		g.nstream++
		sv := fmt.Sprintf("*s%d*", g.nstream)
		path := filepath.Join(g.dir, fmt.Sprintf("f%d.txt", g.nstream))
		spec := r.L(sym("s"), r.Str(path), sym(":direction"), sym(":output"), sym(":if-exists"), sym(":supersede"), sym(":if-does-not-exist"), sym(":create"))
		switch g.pick("direction", 3) {
		case 1: // a file that exists, opened for input
			spec = r.L(sym("s"), r.Str(filepath.Join(g.dir, "input.txt")), sym(":direction"), sym(":input"))
		case 2: // the default direction (input)
			spec = r.L(sym("s"), r.Str(filepath.Join(g.dir, "input.txt")))
		}
		return list("with-open-file", append([]r.Val{spec, list("setq", sym(sv), sym("s"))}, g.body(c.with("with-open-file"), d+1)...)...)
	case 9:
		return list("ignore-errors", g.body(c.with("ignore-errors"), d+1)...)
	case 10:
		return list("recover", append([]r.Val{sym("rec"), g.mv(int64(77))}, g.body(c.with("recover"), d+1)...)...)
	case 11:
		return list("let", append([]r.Val{r.L(r.L(sym("x"), int64(1)))}, g.body(c.with("let"), d+1)...)...)
	case 12:
		return list("let*", append([]r.Val{r.L(r.L(sym("x"), int64(1)), r.L(sym("y"), sym("x")))}, g.body(c.with("let*"), d+1)...)...)
	case 13:
		return list("progn", g.body(c.with("progn"), d+1)...)
	case 14:
		if g.pick("whenunless", 2) == 0 {
			return list("when", append([]r.Val{sym("t")}, g.body(c.with("when"), d+1)...)...)
		}
		return list("unless", append([]r.Val{nil}, g.body(c.with("unless"), d+1)...)...)
	case 15:
		return list("cond", r.L(nil, g.m()), r.L(append([]r.Val{sym("t")}, g.body(c.with("cond"), d+1)...)...))
	case 16:
		return list("case", int64(1), r.L(int64(0), g.m()), r.L(append([]r.Val{int64(1)}, g.body(c.with("case"), d+1)...)...))
	case 17:
		nc := c.with("dolist")
		nc.blocks = append(append([]string{}, c.blocks...), "")
		return list("dolist", append([]r.Val{r.L(sym("e"+fmt.Sprint(d)), r.L(sym("quote"), r.L(int64(1), int64(2))))}, g.loopBody(nc, d)...)...)
	case 18:
		nc := c.with("dotimes")
		nc.blocks = append(append([]string{}, c.blocks...), "")
		return list("dotimes", append([]r.Val{r.L(sym("i"+fmt.Sprint(d)), int64(2))}, g.loopBody(nc, d)...)...)
	case 19:
		nc := c.with("do")
		nc.blocks = append(append([]string{}, c.blocks...), "")
		v := "k" + fmt.Sprint(d)
		return list("do", append([]r.Val{r.L(r.L(sym(v), int64(0), list("1+", sym(v)))), r.L(list("=", sym(v), int64(2)), g.m())}, g.loopBody(nc, d)...)...)
	case 20:
		nc := c.with("funcall-lambda")
		nc.inFn = true
		lam := list("lambda", append([]r.Val{r.L(sym("p"))}, g.body(nc, d+1)...)...)
		if g.pick("lambdaform", 2) == 0 {
			// the lambda expression as the head of the call: ((lambda (p) ...) 0)
			return r.L(lam, int64(0))
		}
		return list("funcall", lam, int64(0))
	default:
		return list("if", sym("t"), list("progn", g.body(c.with("if"), d+1)...))
	}
}

func genCase(rt *rapid.T) Case {
	g := &gen{rt: rt, crossing: map[string]int{}, dir: scratchDir()}
	var top []string
	c := ctx{blocks: []string{"b0"}, kinds: []string{"block"}}
	// one program in four defines a recursive function whose cleanup calls the function again: exits of several
	// activations of the same code are then under way at the same time (and it is called more than once)
	walker := rapid.IntRange(0, 3).Draw(rt, "walker") == 0
	if walker {
		// the block the walker's exits aim at: an explicit (block wb ...) or the function's own name
		ownBlock := rapid.IntRange(0, 2).Draw(rt, "walker-own-block")
		bname := "wb"
		if ownBlock > 0 {
			bname = "zw"
		}
		wc := ctx{blocks: []string{bname}, kinds: []string{"block"}, inFn: true, nvar: "n"}
		body := g.body(wc.with("unwind-protect"), 2)
		if rapid.Bool().Draw(rt, "walker-return") {
			body = append(body, r.L(sym("return-from"), sym(bname), g.mv(r.L(sym("+"), sym("n"), int64(50)))))
		}
		up := r.L(append([]r.Val{sym("unwind-protect"), r.L(append([]r.Val{sym("progn")}, body...)...), g.m()},
			r.L(sym("if"), r.L(sym("<"), int64(0), sym("n")), r.L(sym("zw"), r.L(sym("-"), sym("n"), int64(1)))))...)
		def := r.L(sym("defun"), sym("zw"), r.L(sym("n")), r.L(sym("block"), sym("wb"), up, g.mv(sym("n"))))
		switch ownBlock {
		case 1:
			// the block is the one the function has by its name, the body is that one form (no explicit block)
			def = r.L(sym("defun"), sym("zw"), r.L(sym("n")), up)
		case 2:
			// the same with a second body form
			def = r.L(sym("defun"), sym("zw"), r.L(sym("n")), up, g.mv(sym("n")))
		}
		top = append(top, r.Print(def))
	}
	forms := g.body(c, 1)
	if walker {
		call := r.L(sym("zw"), int64(rapid.IntRange(0, 2).Draw(rt, "walkdepth")))
		forms = append([]r.Val{g.mv(call)}, forms...)
		forms = append(forms, g.mv(r.L(sym("zw"), int64(rapid.IntRange(0, 2).Draw(rt, "walkdepth2")))))
	}
	prog := r.L(append([]r.Val{sym("block"), sym("b0")}, forms...)...)
	top = append(top, r.Print(prog))
	return Case{Prog: strings.Join(top, "\n")}
}

var (
	scratchOnce sync.Once
	scratch     string
)

func scratchDir() string {
	scratchOnce.Do(func() {
		base := os.Getenv("VERIF_WORK")
		if base == "" {
			base = os.TempDir()
		}
		scratch = filepath.Join(base, "c07files")
		_ = os.MkdirAll(scratch, 0o755)
		_ = os.WriteFile(filepath.Join(scratch, "input.txt"), []byte("(1 2 3) text\n"), 0o644)
	})
	return scratch
}

// ---------------------------------------------------------------- oracle

var (
	classOnce sync.Once
	slipClass = map[string]string{} // reference class of an error kind -> class slip reports for it at top level
)

func learnClasses() {
	classOnce.Do(func() {
		scope := slip.NewScope()
		for refClass, form := range map[string]string{
			"error:boom":         `(error "boom")`,
			"type-error":         `(car 1)`,
			"division-by-zero":   `(/ 1 0)`,
			"unbound-variable":   `zz-unbound-variable`,
			"undefined-function": `(zz-undefined-function 1)`,
		} {
			out := ev.Eval(scope, form)
			if out.Kind != ev.Condition {
				panic(fmt.Sprintf("set-up: %s does not signal a condition: %s", form, out))
			}
			slipClass[refClass] = out.Class
		}
	})
}

func analyse(forms []r.Val) (kinds map[string]bool, hasUP, hasMutex bool) {
	kinds = map[string]bool{}
	var walk func(v r.Val)
	walk = func(v r.Val) {
		l, ok := v.([]r.Val)
		if !ok || len(l) == 0 {
			return
		}
		if hd, isSym := l[0].(r.Sym); isSym {
			kinds[string(hd)] = true
		}
		for _, e := range l {
			walk(e)
		}
	}
	for _, f := range forms {
		walk(f)
	}
	return kinds, kinds["unwind-protect"], kinds["with-mutex-lock"]
}

func primary(o slip.Object) slip.Object {
	if vs, ok := o.(slip.Values); ok {
		if len(vs) == 0 {
			return nil
		}
		return vs[0]
	}
	return o
}

func run(c Case) *h.Result {
	learnClasses()
	forms, err := r.Parse(c.Prog)
	if err != nil {
		return h.Fail("harness: cannot parse program: %s", err)
	}
	kinds, hasUP, hasMutex := analyse(forms)
	res := &h.Result{}
	for k := range kinds {
		switch k {
		case "block", "tagbody", "unwind-protect", "with-mutex-lock", "with-open-file", "ignore-errors", "recover", "let", "let*", "progn",
			"when", "unless", "cond", "case", "dolist", "dotimes", "do", "funcall", "if", "return-from", "return", "go", "error":
			res.Classes = append(res.Classes, "form:"+k)
		}
	}
	if kinds["go"] && kinds["lambda"] && h.ExclOn("go-out-of-lambda") && goInsideLambda(forms) {
		res.Skip = "go-out-of-lambda"
		return res
	}
	// reference run
	m := r.NewMachine()
	pre := []r.Val{r.L(sym("setq"), sym("*cnt*"), int64(0))}
	for i := 1; i <= 3; i++ {
		pre = append(pre, r.L(sym("setq"), sym(fmt.Sprintf("*m%d*", i)), r.L(sym("make-mutex"))), r.L(sym("setq"), sym(fmt.Sprintf("*s%d*", i)), nil))
	}
	slip.CurrentPackage.Undefine("zw")
	defer slip.CurrentPackage.Undefine("zw")
	scope := slip.NewScope()
	var setup strings.Builder
	setup.WriteString("(setq *cnt* 0)")
	for i := 1; i <= 3; i++ {
		fmt.Fprintf(&setup, "(setq *m%d* (make-mutex)) (setq *s%d* nil)", i, i)
	}
	// one evaluation of the program by the reference and by slip (through eval), compared
	attempt := func(how string, eval func() ev.Outcome) string {
		m.Run(pre)
		m.Trace = nil
		want := m.Run(forms)
		if m.Big {
			return "" // integers beyond the reference evaluator's range: nothing to compare with
		}
		ev.MustEval(scope, setup.String())
		ev.ResetTrace()
		// the generated programs terminate (the reference has just run this one); a program that blocks - on a mutex an
		// earlier exit did not release - is given 30 s, a million times what it needs
		done := make(chan ev.Outcome, 1)
		go func() { done <- eval() }()
		var got ev.Outcome
		select {
		case got = <-done:
		case <-time.After(30 * time.Second):
			return fmt.Sprintf("program%s:\n%s\n  does not finish (30 s; the reference evaluator finishes with %s, trace %s); trace so far: %s", how, c.Prog, r.Show(firstVal(want.Vals)), want.Trace, ev.TraceString())
		}
		gotTrace := ev.TraceString()
		describe := func() string {
			w := "value " + r.Show(firstVal(want.Vals))
			if want.Err != nil {
				w = "condition of class " + slipClass[want.Err.Class] + " (" + want.Err.Class + ")"
			}
			return fmt.Sprintf("program%s:\n%s\n  expected %s\n  got      %s\n  expected trace: %s\n  got trace:      %s", how, c.Prog, w, got, want.Trace, gotTrace)
		}
		switch {
		case want.Err != nil:
			if got.Kind != ev.Condition || got.Class != slipClass[want.Err.Class] {
				return describe()
			}
		default:
			if got.Kind != ev.Value {
				return describe()
			}
			if w, g := r.Show(firstVal(want.Vals)), showSlip(primary(got.Val)); w != g {
				return describe()
			}
		}
		if want.Trace != gotTrace {
			return describe()
		}
		// post-conditions: every mutex free, every stream closed
		for i := 1; i <= 3; i++ {
			mo := scope.Get(slip.Symbol(fmt.Sprintf("*m%d*", i)))
			mu, ok := mo.(*gi.Mutex)
			if !ok {
				return fmt.Sprintf("harness: *m%d* is %s", i, sx.Text(mo))
			}
			if !tryLock(mu) {
				return fmt.Sprintf("program%s:\n%s\n  mutex *m%d* is still locked after the program finished (%s)", how, c.Prog, i, got)
			}
			so := scope.Get(slip.Symbol(fmt.Sprintf("*s%d*", i)))
			if so != nil {
				scope.Let(slip.Symbol("probe-stream"), so)
				open := ev.Eval(scope, "(open-stream-p probe-stream)")
				if open.Kind != ev.Value || open.Val != nil {
					return fmt.Sprintf("program%s:\n%s\n  stream *s%d* opened by with-open-file is still open afterwards: %s", how, c.Prog, i, open)
				}
				// asked of the operating system as well (open-stream-p probes a file stream by writing nothing to it,
				// which fails on a descriptor opened for input whether it is closed or not)
				if fs, isFile := so.(*slip.FileStream); isFile {
					if _, err := (*os.File)(fs).Stat(); err == nil || !errors.Is(err, os.ErrClosed) {
						return fmt.Sprintf("program%s:\n%s\n  the file of stream *s%d* opened by with-open-file is still open afterwards (stat: %v)", how, c.Prog, i, err)
					}
				}
			}
		}
		return ""
	}
	if res.Err = attempt("", func() ev.Outcome { return ev.EvalForms(scope, c.Prog) }); res.Err != "" {
		return res
	}
	// the same code objects (read once) evaluated twice: exits, cleanups and their markers must work again on code whose
	// argument slots the first evaluation has compiled in place
	if code, o := ev.ReadForms(scope, c.Prog); o.Kind == ev.Value {
		for k := 1; k <= 2; k++ {
			how := fmt.Sprintf(" (read once, evaluation %d of the same code objects)", k)
			if res.Err = attempt(how, func() ev.Outcome { return ev.EvalObjects(scope, code) }); res.Err != "" {
				return res
			}
		}
	}
	exits := kinds["return-from"] || kinds["return"] || kinds["go"] || kinds["error"] || kinds["car"] || kinds["/"] || strings.Contains(c.Prog, "zz-un")
	res.NonTrivial = exits && (hasUP || hasMutex || len(res.Classes) >= 5)
	return res
}

func goInsideLambda(forms []r.Val) bool {
	found := false
	var walk func(v r.Val, in bool)
	walk = func(v r.Val, in bool) {
		l, ok := v.([]r.Val)
		if !ok || len(l) == 0 {
			return
		}
		if hd, isSym := l[0].(r.Sym); isSym {
			if hd == "lambda" {
				in = true
			}
			if hd == "go" && in {
				found = true
			}
		}
		for _, e := range l {
			walk(e, in)
		}
	}
	for _, f := range forms {
		walk(f, false)
	}
	return found
}

func firstVal(vs []r.Val) r.Val {
	if len(vs) == 0 {
		return nil
	}
	return vs[0]
}

func showSlip(o slip.Object) string {
	if o == nil {
		return "nil"
	}
	switch o.Hierarchy()[0] {
	case "file-stream", "output-stream", "stream":
		return "#<stream>"
	case "mutex":
		return "#<mutex>"
	}
	s := sx.Text(o)
	if strings.HasPrefix(s, "#<") {
		// conditions bound by recover and similar opaque objects
		return "#<" + string(o.Hierarchy()[0]) + ">"
	}
	return s
}

func tryLock(mu *gi.Mutex) bool {
	done := make(chan bool, 1)
	go func() {
		if (*sync.Mutex)(mu).TryLock() {
			(*sync.Mutex)(mu).Unlock()
			done <- true
			return
		}
		done <- false
	}()
	select {
	case ok := <-done:
		return ok
	case <-time.After(5 * time.Second):
		return false
	}
}

var exits = h.Prop[Case]{Name: "exits", Gen: genCase, Run: run}

func TestC07(t *testing.T) {
	h.Rule("a block around 1-3 statements, each a trace mark, an exit, or a nested form from {block (named/nil), tagbody with forward and counter-guarded backward go, unwind-protect with 1-2 cleanup marks, " +
		"with-mutex-lock, with-open-file, ignore-errors, recover, let, let*, progn, when/unless, cond, case, if, dolist, dotimes, do, funcall of a lambda} to depth 5; up to three exits per program drawn from " +
		"{return-from each visible block, return, go to each visible tag, (error ..), (car 1), (/ 1 0), unbound variable}; oracle: reference evaluator (primary value, whole ordered trace, class of an escaping " +
		"condition as slip itself reports it for the bare form), every mutex free and every with-open-file stream closed afterwards. Non-trivial: has an exit and (an unwind-protect or with-mutex-lock or >= 5 form kinds). Distinct by program text.")
	h.Assume("internal/refeval models block/return-from/tagbody/go/unwind-protect/ignore-errors/recover from the language definition and slip's documentation of recover")
	h.RunProp(t, exits, h.N(20000, 250000))
}
