package c18

import (
	"bytes"
	"encoding/json"
	"fmt"
	"sort"
	"strconv"
	"strings"
	"testing"

	"github.com/ohler55/slip"
	"github.com/ohler55/slip/pkg/flavors"
	"pgregory.net/rapid"

	"verif/harness/internal/ev"
	"verif/harness/internal/h"
	"verif/harness/internal/refpath"
	"verif/harness/internal/sx"
)

func TestMain(m *testing.M) { h.Main(m, "C18") }

// ================================================================ round trips

// WOpts are the write options of one case ("" = keyword not given).
type WOpts struct {
	Send   bool   `json:"send,omitempty"`   // (send bag :write ...) instead of (bag-write bag ...)
	Dest   bool   `json:"dest,omitempty"`   // explicit nil destination before the keywords
	Pretty string `json:"pretty,omitempty"` // "", "nil", "t"
	Depth  *int   `json:"depth,omitempty"`
	JSON   string `json:"json,omitempty"`  // "", "nil", "t"
	Color  string `json:"color,omitempty"` // "", "nil"
	Margin int    `json:"margin,omitempty"`
}

func (w WOpts) args() string {
	var b strings.Builder
	if w.Dest {
		b.WriteString(" nil")
	}
	if w.Pretty != "" {
		b.WriteString(" :pretty " + w.Pretty)
	}
	if w.Depth != nil {
		b.WriteString(" :depth " + strconv.Itoa(*w.Depth))
	}
	if w.JSON != "" {
		b.WriteString(" :json " + w.JSON)
	}
	if w.Color != "" {
		b.WriteString(" :color " + w.Color)
	}
	if w.Margin > 0 {
		b.WriteString(" :right-margin " + strconv.Itoa(w.Margin))
	}
	return b.String()
}

func (w WOpts) form() string {
	if w.Send {
		return "(send b :write" + w.args() + ")"
	}
	return "(bag-write b" + w.args() + ")"
}

// RTCase: a document, how it is spelled and parsed, what was parsed before it, how it is written.
type RTCase struct {
	Doc    Node          `json:"doc"`
	Style  refpath.Style `json:"style"`
	Via    string        `json:"via"`
	Junk   []string      `json:"junk,omitempty"`
	W      WOpts         `json:"write"`
	Native string        `json:"native"` // make-bag | init-set | bag-set | send-set
}

var vias = []string{"make-bag", "bag-parse", "send-parse", "init-parse", "json-parse", "json-parse-strict", "bag-read", "init-read", "discover"}

func parseForm(via string) string {
	switch via {
	case "make-bag":
		return `(make-bag txt)`
	case "bag-parse":
		return `(bag-parse (make-instance 'bag-flavor) txt)`
	case "send-parse":
		return `(send (make-instance 'bag-flavor) :parse txt)`
	case "init-parse":
		return `(make-instance 'bag-flavor :parse txt)`
	case "json-parse":
		return `(let ((r nil)) (json-parse (lambda (x) (setq r x)) txt) r)`
	case "json-parse-strict":
		return `(let ((r nil)) (json-parse (lambda (x) (setq r x)) txt t) r)`
	case "bag-read":
		return `(bag-read (make-instance 'bag-flavor) (make-string-input-stream txt))`
	case "init-read":
		return `(make-instance 'bag-flavor :read (make-string-input-stream txt))`
	case "discover":
		return `(let ((r nil)) (discover-json (lambda (x) (setq r x) t) (concatenate 'string "note " txt " end")) r)`
	}
	panic("via " + via)
}

func viaOK(via string, doc Node, st refpath.Style) bool {
	switch via {
	case "json-parse-strict":
		return !st.SEN
	case "discover":
		return doc.T == "arr" || doc.T == "obj"
	}
	return true
}

func parseText(sc *slip.Scope, via, text string) (*flavors.Instance, string) {
	sc.Let("txt", slip.String(text))
	out := ev.Eval(sc, parseForm(via))
	if out.Kind != ev.Value {
		return nil, out.String()
	}
	inst, ok := bagOf(out.Val)
	if !ok {
		return nil, "not a bag: " + ev.Show(out.Val)
	}
	return inst, ""
}

// ---- exclusion predicates of open findings (over the case, by construction) ----

// senBareRisk: a string (value or key) that ojg's SEN writer leaves unquoted although its reader
// takes the bare word for something else: the words true false null as values, a word starting
// with - or + (read as a number), a word containing a back quote.
func senBareRisk(doc Node) bool {
	risk := false
	word := func(s string, isKey bool) {
		if s == "" || len(s) > 64 {
			return
		}
		if !isKey && (s == "true" || s == "false" || s == "null") {
			risk = true
		}
		if s[0] == '-' || s[0] == '+' || strings.ContainsRune(s, '`') || strings.HasPrefix(s, "\ufeff") {
			risk = true // (a bare word starting with U+FEFF at the start of the text is taken for a byte order mark)
		}
	}
	doc.Walk(func(n Node) {
		if n.T == "str" {
			word(n.S, false)
		}
		for _, k := range n.K {
			word(k, true)
		}
	})
	return risk
}

// escapedAstral: the text spells a character beyond U+FFFF as a \uD8xx\uDCxx pair.
func escapedAstral(doc Node, st refpath.Style) bool {
	if st.Esc == 0 {
		return false
	}
	found := false
	chk := func(s string) {
		for _, r := range s {
			if r >= 0x10000 {
				found = true
			}
		}
	}
	doc.Walk(func(n Node) {
		if n.T == "str" {
			chk(n.S)
		}
		for _, k := range n.K {
			chk(k)
		}
	})
	return found
}

func hasWide(doc Node) bool {
	w := false
	doc.Walk(func(n Node) {
		if (n.T == "int" || n.T == "float") && refpath.Wide(n.S) {
			w = true
		}
	})
	return w
}

// zeroExp: a number literal whose integer part 0 is directly followed by an exponent (0e0, -0E5).
func zeroExp(doc Node) bool {
	found := false
	doc.Walk(func(n Node) {
		if n.T == "float" {
			s := strings.TrimPrefix(n.S, "-")
			if len(s) > 1 && s[0] == '0' && (s[1] == 'e' || s[1] == 'E') {
				found = true
			}
		}
	})
	return found
}

func rtExcluded(c RTCase) string {
	senOut := c.W.JSON != "t"
	switch {
	case zeroExp(c.Doc) && h.ExclOn("zero-exponent"):
		return "zero-exponent"
	case escapedAstral(c.Doc, c.Style) && h.ExclOn("escaped-surrogate-pair"):
		return "escaped-surrogate-pair"
	case senOut && senBareRisk(c.Doc) && h.ExclOn("sen-bare-word"):
		return "sen-bare-word"
	case hasWide(c.Doc) && h.ExclOn("wide-number"):
		return "wide-number"
	}
	return ""
}

func runRT(c RTCase) *h.Result {
	nHard := countHard(c.Doc)
	res := &h.Result{
		NonTrivial: c.Doc.Depth() >= 2 && nHard >= 1,
		Classes:    []string{"via:" + c.Via, "depth:" + strconv.Itoa(c.Doc.Depth())},
	}
	if c.Style.SEN {
		res.Classes = append(res.Classes, "in:sen")
	} else {
		res.Classes = append(res.Classes, "in:json")
	}
	if c.W.JSON == "t" {
		res.Classes = append(res.Classes, "out:json")
	} else {
		res.Classes = append(res.Classes, "out:sen")
	}
	if c.W.Pretty == "t" {
		res.Classes = append(res.Classes, "out:pretty")
	}
	if len(c.Junk) > 0 {
		res.Classes = append(res.Classes, "junk-before")
	}
	if !viaOK(c.Via, c.Doc, c.Style) {
		return h.Fail("case not well formed: via %s does not apply", c.Via)
	}
	if tag := rtExcluded(c); tag != "" {
		res.Skip = tag
		return res
	}
	fail := func(format string, args ...any) *h.Result {
		res.Err = fmt.Sprintf(format, args...)
		return res
	}
	sc := slip.NewScope()
	text := refpath.Render(c.Doc, c.Style)
	want := c.Doc.Value()

	// parsing is a function of the text: whatever was parsed (or rejected) before must not matter
	for _, j := range c.Junk {
		sc.Let("txt", slip.String(j))
		for _, form := range []string{`(make-bag txt)`, `(json-parse (lambda (x) x) txt t)`} {
			// what happens to these texts is not judged here (a fault on invalid input is C09's subject)
			_ = ev.Eval(sc, form)
		}
	}
	b1, msg := parseText(sc, c.Via, text)
	if c.Via == "discover" && (b1 == nil || refpath.Conforms(want, b1.Any) != "") {
		// discover-json "attempts to discover" documents in other text: what it finds is not fixed by
		// anything (it gives up on a DEL character inside a string, for example); only what it
		// delivers complete is taken further
		res.Classes = append(res.Classes, "discover:miss")
		res.NonTrivial = false
		return res
	}
	if b1 == nil {
		return fail("%s of %q: %s", c.Via, text, msg)
	}
	if d := refpath.Conforms(want, b1.Any); d != "" {
		return fail("%s of %q: %s", c.Via, text, d)
	}
	t1 := refpath.Clone(b1.Any)
	sc.Let("b", b1)

	// write and parse again
	out := ev.Eval(sc, c.W.form())
	if out.Kind != ev.Value {
		return fail("%s of the bag parsed from %q: %s", c.W.form(), text, out)
	}
	ws, ok := out.Val.(slip.String)
	if !ok {
		return fail("%s returned %s, not a string", c.W.form(), ev.Show(out.Val))
	}
	written := string(ws)
	if d := refpath.Same(t1, b1.Any); d != "" {
		return fail("%s changed the bag: %s", c.W.form(), d)
	}
	if strings.Contains(written, "\x1b") {
		return fail("%s wrote colour codes: %q", c.W.form(), written)
	}
	if c.W.JSON == "t" {
		// the text claims to be JSON: an independent JSON parser must accept it and see the same data
		dec := json.NewDecoder(bytes.NewReader([]byte(written)))
		dec.UseNumber()
		var jv any
		if err := dec.Decode(&jv); err != nil {
			return fail("%s of the bag parsed from %q wrote %q which is not JSON: %s", c.W.form(), text, written, err)
		}
		if dec.More() {
			return fail("%s wrote more than one JSON value: %q", c.W.form(), written)
		}
		if d := sameAsJSON(t1, jv, "$"); d != "" {
			return fail("%s of the bag parsed from %q wrote %q, read as JSON: %s", c.W.form(), text, written, d)
		}
	}
	if strings.HasPrefix(c.Via, "json-parse") && (c.Doc.T == "obj" || c.Doc.T == "arr") {
		// several documents in one text, every bag kept by the function until the parse is over: each one must
		// still be its own document afterwards
		strict := ""
		if c.Via == "json-parse-strict" {
			strict = " t"
		}
		sc.Let("txt", slip.String(text+"\n"+text+"\n{\"zz\": {\"e\": 5}}"))
		out := ev.Eval(sc, `(let ((r nil)) (json-parse (lambda (x) (setq r (cons x r))) txt`+strict+`) (nreverse r))`)
		l, _ := out.Val.(slip.List)
		if out.Kind != ev.Value || len(l) != 3 {
			return fail("json-parse of three documents (%q twice and {\"zz\": {\"e\": 5}}) with a function that keeps the bags: %s", text, out)
		}
		for i := 0; i < 2; i++ {
			bi, ok := bagOf(l[i])
			if !ok {
				return fail("json-parse of three documents: item %d is %s", i, ev.Show(l[i]))
			}
			if d := refpath.Conforms(want, bi.Any); d != "" {
				return fail("json-parse of three documents (%q twice and {\"zz\": {\"e\": 5}}): after the parse the bag of document %d is no longer its document: %s", text, i+1, d)
			}
		}
	}
	reparse := []string{"make-bag"}
	if c.W.JSON == "t" {
		reparse = append(reparse, "json-parse-strict")
	}
	var b2 *flavors.Instance
	for _, via := range reparse {
		if b2, msg = parseText(sc, via, written); b2 == nil {
			return fail("%q parsed, written with %s gives %q; %s of that: %s", text, c.W.form(), written, via, msg)
		}
		if d := refpath.Same(t1, b2.Any); d != "" {
			return fail("%q parsed, written with %s gives %q; %s of that differs: %s", text, c.W.form(), written, via, d)
		}
	}
	// the bag's own comparison must agree
	sc.Let("b2", b2)
	if out = ev.Eval(sc, `(list (bag-compare b b2) (bag-compare b2 b))`); out.Kind != ev.Value || sx.Text(out.Val) != "(nil nil)" {
		return fail("%q parsed, written with %s and parsed again: bag-compare says %s", text, c.W.form(), out)
	}
	if !b1.Equal(b2) || !b2.Equal(b1) {
		return fail("%q parsed, written with %s and parsed again: Instance.Equal is false", text, c.W.form())
	}

	// native Lisp data and back
	nform := "(bag-native b)"
	if c.W.Send {
		nform = "(send b :native)"
	}
	out = ev.Eval(sc, nform)
	if out.Kind != ev.Value {
		return fail("%s of the bag parsed from %q: %s", nform, text, out)
	}
	lossy := refpath.Lossy(t1)
	if d := refpath.Same(lossy, fromLisp(out.Val)); d != "" {
		return fail("%s of the bag parsed from %q gives %s: %s", nform, text, ev.Show(out.Val), d)
	}
	sc.Let("n", out.Val)
	via := c.Native
	if _, isStr := out.Val.(slip.String); isStr && via == "make-bag" {
		via = "init-set" // make-bag parses a string argument
	}
	var back string
	switch via {
	case "make-bag":
		back = `(make-bag n)`
	case "init-set":
		back = `(make-instance 'bag-flavor :set n)`
	case "bag-set":
		back = `(bag-set (make-instance 'bag-flavor) n)`
	case "send-set":
		back = `(send (make-instance 'bag-flavor) :set n)`
	default:
		return h.Fail("case not well formed: native %q", c.Native)
	}
	out = ev.Eval(sc, back)
	b3, ok := bagOf(out.Val)
	if out.Kind != ev.Value || !ok {
		return fail("%s with n = %s of the bag parsed from %q: %s", back, nform, text, out)
	}
	if d := refpath.Same(lossy, b3.Any); d != "" {
		return fail("%s with n = %s = %s of the bag parsed from %q: %s", back, nform, ev.Show(out.Val), text, d)
	}
	if d := refpath.Same(t1, b1.Any); d != "" {
		return fail("the native round trip changed the bag: %s", d)
	}
	// the whole contents handed to a function that returns its argument (Lisp data and back inside bag-modify)
	sc.Let("b3", b3)
	mform := "(bag-modify b3 (lambda (x) x))"
	if c.W.Send {
		mform = "(send b3 :modify (lambda (x) x))"
	}
	if out = ev.Eval(sc, mform); out.Kind != ev.Value {
		return fail("%s on the bag %s: %s", mform, refpath.Show(lossy), out)
	}
	if d := refpath.Same(lossy, b3.Any); d != "" {
		return fail("%s on the bag %s leaves %s: %s", mform, refpath.Show(lossy), refpath.Show(b3.Any), d)
	}
	if hasRows(c.Doc) {
		res.Classes = append(res.Classes, "doc:rows")
	}
	return res
}

// sameAsJSON compares a bag tree with what encoding/json (UseNumber) read from the written text.
func sameAsJSON(want, got any, at string) string {
	switch g := got.(type) {
	case json.Number:
		switch want.(type) {
		case int64, float64, json.Number:
			if d := refpath.Conforms(refpath.Big{Text: string(g)}, want); d != "" {
				return d
			}
			return ""
		}
		return fmt.Sprintf("at %s: expected %s, got number %s", at, refpath.Show(want), g)
	case []any:
		w, ok := want.([]any)
		if !ok || len(w) != len(g) {
			return fmt.Sprintf("at %s: expected %s, got %s", at, refpath.Show(want), refpath.Show(got))
		}
		for i := range w {
			if d := sameAsJSON(w[i], g[i], at+"["+strconv.Itoa(i)+"]"); d != "" {
				return d
			}
		}
		return ""
	case map[string]any:
		w, ok := want.(map[string]any)
		if !ok || len(w) != len(g) {
			return fmt.Sprintf("at %s: expected %s, got %s", at, refpath.Show(want), refpath.Show(got))
		}
		for k, wv := range w {
			gv, has := g[k]
			if !has {
				return fmt.Sprintf("at %s: key %q missing", at, k)
			}
			if d := sameAsJSON(wv, gv, at+"["+strconv.Quote(k)+"]"); d != "" {
				return d
			}
		}
		return ""
	}
	return refpath.Same(want, got)
}

var junkTable = []string{"+5", "[+", "[+a]", "\"a\" + ", "+\"a\"", "{a:", "[1 2", "\"abc", "{\"a\" 1}", "tru", "]", "{]", "[1,,2]", "-", "nul", "{a:1}}", "[1e]", "'", "[\"\\u12\"]", "\\", "{a:+}", "[-]", "-a", "1 2", ""}

func genWOpts(rt *rapid.T) WOpts {
	w := WOpts{
		Send:   rapid.Bool().Draw(rt, "wsend"),
		Pretty: rapid.SampledFrom([]string{"", "", "nil", "t", "t"}).Draw(rt, "wpretty"),
		JSON:   rapid.SampledFrom([]string{"", "nil", "t", "t"}).Draw(rt, "wjson"),
		Color:  rapid.SampledFrom([]string{"", "nil"}).Draw(rt, "wcolor"),
		Margin: rapid.SampledFrom([]int{0, 0, 10, 40, 200}).Draw(rt, "wmargin"),
	}
	if d := rapid.IntRange(-2, 6).Draw(rt, "wdepth"); d >= -1 {
		w.Depth = &d
	}
	w.Dest = rapid.Bool().Draw(rt, "wdest")
	return w
}

func genRT(rt *rapid.T) RTCase {
	c := RTCase{}
	c.Doc = genDoc(rt, rapid.SampledFrom([]int{0, 1, 2, 2, 3, 3, 4, 4, 5, 5}).Draw(rt, "maxdepth"), docOpts{wide: true, keys: keyTable})
	c.Style = refpath.Style{
		SEN:    rapid.Bool().Draw(rt, "sen"),
		Esc:    rapid.SampledFrom([]int{0, 0, 1, 2}).Draw(rt, "esc"),
		WS:     rapid.IntRange(0, 2).Draw(rt, "ws"),
		Single: rapid.Bool().Draw(rt, "single"),
	}
	for {
		c.Via = vias[rapid.IntRange(0, len(vias)-1).Draw(rt, "via")]
		if viaOK(c.Via, c.Doc, c.Style) {
			break
		}
	}
	if rapid.IntRange(0, 3).Draw(rt, "junk") == 0 {
		n := rapid.IntRange(1, 2).Draw(rt, "njunk")
		text := refpath.Render(c.Doc, c.Style)
		for i := 0; i < n; i++ {
			switch rapid.IntRange(0, 2).Draw(rt, "junk-kind") {
			case 0:
				c.Junk = append(c.Junk, junkTable[rapid.IntRange(0, len(junkTable)-1).Draw(rt, "junk-i")])
			case 1:
				c.Junk = append(c.Junk, text[:rapid.IntRange(0, len(text)).Draw(rt, "junk-cut")])
			default:
				at := rapid.IntRange(0, len(text)).Draw(rt, "junk-at")
				c.Junk = append(c.Junk, text[:at]+rapid.SampledFrom([]string{"+", "}", "\"", ":", "\\", "-"}).Draw(rt, "junk-ch")+text[at:])
			}
		}
		for i, j := range c.Junk {
			c.Junk[i] = strings.ToValidUTF8(j, "?")
		}
	}
	c.W = genWOpts(rt)
	c.Native = rapid.SampledFrom([]string{"make-bag", "init-set", "bag-set", "send-set"}).Draw(rt, "native")
	return c
}

// ================================================================ path histories

// Op is one operation of a history.
type Op struct {
	Kind    string         `json:"kind"` // set get has remove walk modify (modify: with a function that returns its argument)
	Path    []Frag         `json:"path"`
	PS      refpath.PStyle `json:"ps"`
	PathObj bool           `json:"pathobj,omitempty"` // pass a bag-path object instead of a string
	Send    bool           `json:"send,omitempty"`    // method form
	AsBag   bool           `json:"asbag,omitempty"`   // get/walk: ask for bags; set: the value is a bag
	Val     *Node          `json:"val,omitempty"`
}

// PCase: a document and a history of operations on the bag parsed from it.
type PCase struct {
	Doc Node `json:"doc"`
	Ops []Op `json:"ops"`
}

func opForm(o Op) string {
	switch o.Kind {
	case "get":
		tail := ""
		if o.AsBag {
			tail = " t"
		}
		if o.Send {
			return "(send b :get p" + tail + ")"
		}
		return "(bag-get b p" + tail + ")"
	case "has":
		if o.Send {
			return "(send b :has p)"
		}
		return "(bag-has b p)"
	case "remove":
		if o.Send {
			return "(send b :remove p)"
		}
		return "(bag-remove b p)"
	case "set":
		if o.Send {
			return "(send b :set v p)"
		}
		return "(bag-set b v p)"
	case "modify":
		tail := ""
		if o.AsBag {
			tail = " :as-bag t"
		}
		if o.Send {
			return "(send b :modify (lambda (x) x) p" + tail + ")"
		}
		return "(bag-modify b (lambda (x) x) p" + tail + ")"
	case "walk":
		tail := ""
		if o.AsBag {
			tail = " t"
		}
		if o.Send {
			return "(let ((r nil)) (send b :walk (lambda (x) (setq r (cons x r))) p" + tail + ") r)"
		}
		return "(let ((r nil)) (bag-walk b (lambda (x) (setq r (cons x r))) p" + tail + ") r)"
	}
	panic("op kind " + o.Kind)
}

func multiset(vs []any) string {
	ss := make([]string, len(vs))
	for i, v := range vs {
		ss[i] = refpath.Canon(v)
	}
	sort.Strings(ss)
	return strings.Join(ss, " | ")
}

// multiContainerSet: a set through a path with a wildcard, union or descent whose value is a container.
func multiContainerSet(o Op) bool {
	return o.Kind == "set" && !refpath.Simple(o.Path) && o.Val != nil && (o.Val.T == "arr" || o.Val.T == "obj") && len(o.Val.A) > 0
}

// descAfterMulti: a descent fragment somewhere behind a wildcard or union fragment.
func descAfterMulti(fs []Frag) bool {
	multi := false
	for _, f := range fs {
		switch f.K {
		case "wild", "union":
			multi = true
		case "desc":
			if multi {
				return true
			}
		}
	}
	return false
}

// negUnionLast: the last fragment is a union with a negative index.
func negUnionLast(fs []Frag) bool {
	if len(fs) == 0 || fs[len(fs)-1].K != "union" {
		return false
	}
	for _, m := range fs[len(fs)-1].U {
		if m.K == "idx" && m.I < 0 {
			return true
		}
	}
	return false
}

// aliasUnionInside: a union before the last fragment with a negative and a non-negative index,
// which can name one element twice.
func aliasUnionInside(fs []Frag) bool {
	for i, f := range fs {
		if f.K != "union" || i == len(fs)-1 {
			continue
		}
		neg, pos := false, false
		for _, m := range f.U {
			if m.K == "idx" && m.I < 0 {
				neg = true
			} else if m.K == "idx" {
				pos = true
			}
		}
		if neg && pos {
			return true
		}
	}
	return false
}

func pExcluded(c PCase) string {
	if h.ExclOn("zero-exponent") {
		ze := zeroExp(c.Doc)
		for _, o := range c.Ops {
			if o.Val != nil && zeroExp(*o.Val) {
				ze = true
			}
		}
		if ze {
			return "zero-exponent"
		}
	}
	for _, o := range c.Ops {
		if descAfterMulti(o.Path) && h.ExclOn("desc-after-multi") {
			return "desc-after-multi"
		}
		if o.Kind == "remove" && negUnionLast(o.Path) && h.ExclOn("remove-union-negative") {
			return "remove-union-negative"
		}
		if o.Kind == "remove" && aliasUnionInside(o.Path) && h.ExclOn("remove-union-alias") {
			return "remove-union-alias"
		}
	}
	return ""
}

func runPaths(c PCase) *h.Result {
	res := &h.Result{}
	fail := func(i int, format string, args ...any) *h.Result {
		var hist []string
		for j := 0; j <= i && j < len(c.Ops); j++ {
			o := c.Ops[j]
			s := o.Kind + " " + strconv.Quote(refpath.RenderPath(o.Path, o.PS))
			if o.Val != nil {
				s += " " + refpath.Render(*o.Val, refpath.Style{})
			}
			hist = append(hist, s)
		}
		res.Err = fmt.Sprintf("bag %s; %s: ", refpath.Render(c.Doc, refpath.Style{}), strings.Join(hist, "; ")) + fmt.Sprintf(format, args...)
		return res
	}
	if tag := pExcluded(c); tag != "" {
		res.Skip = tag
		return res
	}
	sc := slip.NewScope()
	b, msg := parseText(sc, "make-bag", refpath.Render(c.Doc, refpath.Style{}))
	if b == nil {
		return fail(-1, "make-bag: %s", msg)
	}
	model := c.Doc.Value()
	if d := refpath.Same(model, b.Any); d != "" {
		return fail(-1, "make-bag: %s", d)
	}
	sc.Let("b", b)
	type held struct {
		inst *flavors.Instance
		want any
		op   int
	}
	var valueBags []held
	var lastSet []Frag
	var lastSetTree any
	for i, o := range c.Ops {
		res.Classes = append(res.Classes, "op:"+o.Kind)
		ptxt := refpath.RenderPath(o.Path, o.PS)
		if o.PathObj {
			sc.Let("ptxt", slip.String(ptxt))
			out := ev.Eval(sc, `(make-bag-path ptxt)`)
			if out.Kind != ev.Value {
				return fail(i, "(make-bag-path %q): %s", ptxt, out)
			}
			sc.Let("p", out.Val)
		} else {
			sc.Let("p", slip.String(ptxt))
		}
		targets := refpath.Eval(model, o.Path)
		var tvals []any
		for _, l := range targets {
			v, _ := refpath.At(model, l)
			tvals = append(tvals, v)
		}
		form := opForm(o)
		switch o.Kind {
		case "get":
			out := ev.Eval(sc, form)
			if out.Kind != ev.Value {
				return fail(i, "%s: %s", form, out)
			}
			var got any
			wants := tvals
			if o.AsBag {
				if out.Val == nil {
					got = nil // documented: no bag for a missing or null value
				} else if inst, ok := bagOf(out.Val); ok {
					got = inst.Any
				} else {
					return fail(i, "%s returned %s, not a bag", form, ev.Show(out.Val))
				}
			} else {
				got = fromLisp(out.Val)
				wants = nil
				for _, v := range tvals {
					wants = append(wants, refpath.Lossy(v))
				}
			}
			if len(wants) == 0 {
				if got != nil {
					return fail(i, "%s: the path denotes nothing in %s but the result is %s", form, refpath.Show(model), refpath.Show(got))
				}
				break
			}
			found := false
			for _, w := range wants {
				if refpath.Same(w, got) == "" {
					found = true
					break
				}
			}
			if !found {
				return fail(i, "%s on %s: expected %s, got %s", form, refpath.Show(model), refpath.Show(wants[0]), refpath.Show(got))
			}
			if lastSet != nil && len(targets) > 0 {
				disjoint := true
				for _, l := range targets {
					if _, existed := refpath.At(lastSetTree, l); !existed || refpath.Related(lastSetTree, l, lastSet) {
						disjoint = false
					}
				}
				if disjoint {
					res.NonTrivial = true
				}
			}
		case "has":
			out := ev.Eval(sc, form)
			if out.Kind != ev.Value {
				return fail(i, "%s: %s", form, out)
			}
			if (out.Val != nil) != (len(targets) > 0) {
				return fail(i, "%s on %s: result %s but the path denotes %d locations", form, refpath.Show(model), ev.Show(out.Val), len(targets))
			}
		case "walk":
			out := ev.Eval(sc, form)
			if out.Kind != ev.Value {
				return fail(i, "%s: %s", form, out)
			}
			var got, wants []any
			lst, _ := out.Val.(slip.List)
			for _, e := range lst {
				if o.AsBag {
					inst, ok := bagOf(e)
					if !ok {
						return fail(i, "%s passed %s, not a bag", form, ev.Show(e))
					}
					got = append(got, inst.Any)
				} else {
					got = append(got, fromLisp(e))
				}
			}
			for _, v := range tvals {
				if o.AsBag {
					wants = append(wants, v)
				} else {
					wants = append(wants, refpath.Lossy(v))
				}
			}
			if w, g := multiset(wants), multiset(got); w != g {
				return fail(i, "%s on %s: expected the values {%s}, visited {%s}", form, refpath.Show(model), w, g)
			}
		case "modify":
			// the function returns its argument: every denoted value goes to Lisp data and back (or, with
			// :as-bag t, into a bag and back) and must come back as it was, up to what Lisp's one nil
			// cannot hold (false and the empty containers) - at the denoted locations only
			out := ev.Eval(sc, form)
			if out.Kind == ev.Fault || out.Kind == ev.Partial {
				return fail(i, "%s: %s", form, out)
			}
			if out.Kind == ev.Condition {
				res.Classes = append(res.Classes, "modify:condition")
				break // the comparison with the unchanged model follows below
			}
			outer := refpath.Outermost(targets)
			norm := func(tree any) any {
				if o.AsBag {
					return tree
				}
				return mapAt(tree, outer, flat)
			}
			if d := refpath.Same(norm(model), norm(b.Any)); d != "" {
				return fail(i, "%s with a function that returns its argument on %s: bag now %s: %s", form, refpath.Show(model), refpath.Show(b.Any), d)
			}
			if len(outer) > 0 {
				res.Classes = append(res.Classes, "modify:done")
			}
			model = refpath.Clone(b.Any)
		case "remove":
			out := ev.Eval(sc, form)
			exp := model
			switch {
			case out.Kind == ev.Fault || out.Kind == ev.Partial:
				return fail(i, "%s: %s", form, out)
			case out.Kind == ev.Condition:
				res.Classes = append(res.Classes, "remove:condition")
			case !refpath.Removable(o.Path):
				return fail(i, "%s: a path ending in .. names no child to remove but the call returned", form)
			default:
				exp = refpath.Remove(model, o.Path)
			}
			if d := refpath.Same(exp, b.Any); d != "" {
				return fail(i, "%s on %s: expected %s, have %s: %s", form, refpath.Show(model), refpath.Show(exp), refpath.Show(b.Any), d)
			}
			model = exp
		case "set":
			v := o.Val.Value()
			stored := v
			if o.AsBag {
				vb, msg := parseText(sc, "make-bag", refpath.Render(*o.Val, refpath.Style{}))
				if vb == nil {
					return fail(i, "make-bag of the value: %s", msg)
				}
				sc.Let("v", vb)
				valueBags = append(valueBags, held{vb, refpath.Clone(v), i})
			} else {
				stored = storedNative(v)
				sc.Let("v", toLisp(v))
			}
			out := ev.Eval(sc, form)
			if out.Kind == ev.Fault || out.Kind == ev.Partial {
				return fail(i, "%s: %s", form, out)
			}
			okSet := out.Kind == ev.Value
			if okSet {
				res.Classes = append(res.Classes, "set:done")
			} else {
				res.Classes = append(res.Classes, "set:condition")
			}
			exp, determinate := refpath.SetSimple(model, o.Path, stored)
			switch {
			case determinate:
				if !okSet {
					return fail(i, "%s on %s with v = %s: %s", form, refpath.Show(model), refpath.Show(stored), out)
				}
				if d := refpath.Same(exp, b.Any); d != "" {
					return fail(i, "%s on %s with v = %s: expected %s, have %s: %s", form, refpath.Show(model), refpath.Show(stored), refpath.Show(exp), refpath.Show(b.Any), d)
				}
			default:
				if okSet && refpath.Simple(o.Path) {
					// the set returned normally: a get of the path must find the value
					now := refpath.Eval(b.Any, o.Path)
					if len(now) != 1 {
						return fail(i, "%s on %s with v = %s returned normally but the path denotes %d locations afterwards (bag now %s)", form, refpath.Show(model), refpath.Show(stored), len(now), refpath.Show(b.Any))
					}
					have, _ := refpath.At(b.Any, now[0])
					if d := refpath.Same(stored, have); d != "" {
						return fail(i, "%s on %s with v = %s: the path holds %s afterwards", form, refpath.Show(model), refpath.Show(stored), refpath.Show(have))
					}
				}
				if okSet && !refpath.Simple(o.Path) {
					for _, l := range refpath.Outermost(targets) {
						have, has := refpath.At(b.Any, l)
						if !has {
							return fail(i, "%s on %s: location %s is gone", form, refpath.Show(model), l.Key())
						}
						if d := refpath.Same(stored, have); d != "" {
							return fail(i, "%s on %s with v = %s: location %s holds %s afterwards", form, refpath.Show(model), refpath.Show(stored), l.Key(), refpath.Show(have))
						}
					}
				}
				// frame: whatever the path cannot reach stays as it was
				for _, l := range refpath.Locs(model) {
					if refpath.Related(model, l, o.Path) {
						continue
					}
					was, _ := refpath.At(model, l)
					have, has := refpath.At(b.Any, l)
					if !has {
						return fail(i, "%s on %s: location %s, which the path cannot reach, is gone (bag now %s)", form, refpath.Show(model), l.Key(), refpath.Show(b.Any))
					}
					if d := refpath.Same(was, have); d != "" {
						return fail(i, "%s on %s: location %s, which the path cannot reach, changed from %s to %s", form, refpath.Show(model), l.Key(), refpath.Show(was), refpath.Show(have))
					}
				}
				exp = refpath.Clone(b.Any)
			}
			if okSet {
				lastSet, lastSetTree = o.Path, model
			}
			model = exp
		default:
			return h.Fail("case not well formed: op kind %q", o.Kind)
		}
		// every operation leaves the bag as the model says (get, has and walk change nothing)
		if d := refpath.Same(model, b.Any); d != "" {
			return fail(i, "%s: the bag should be %s but is %s: %s", form, refpath.Show(model), refpath.Show(b.Any), d)
		}
		// bags that were given as values keep their own contents
		for _, hb := range valueBags {
			if d := refpath.Same(hb.want, hb.inst.Any); d != "" {
				return fail(i, "the bag given as value in operation %d changed through operations on the other bag: %s", hb.op, d)
			}
		}
	}
	return res
}

// flat is refpath.Lossy with the empty containers and false all brought to nil.
func flat(v any) any { return refpath.Lossy(v) }

// mapAt returns a copy of tree with fn applied to the values at the given locations.
func mapAt(tree any, locs []refpath.Loc, fn func(any) any) any {
	keys := map[string]bool{}
	for _, l := range locs {
		keys[l.Key()] = true
	}
	var walk func(node any, at refpath.Loc) any
	walk = func(node any, at refpath.Loc) any {
		if keys[at.Key()] {
			return fn(node)
		}
		switch t := node.(type) {
		case []any:
			out := make([]any, len(t))
			for i, e := range t {
				out[i] = walk(e, append(at[:len(at):len(at)], i))
			}
			return out
		case map[string]any:
			out := make(map[string]any, len(t))
			for k, e := range t {
				out[k] = walk(e, append(at[:len(at):len(at)], k))
			}
			return out
		}
		return node
	}
	return walk(tree, refpath.Loc{})
}

func genOp(rt *rapid.T, doc Node) Op {
	o := Op{
		Kind:    rapid.SampledFrom([]string{"set", "set", "set", "get", "get", "has", "remove", "walk", "modify"}).Draw(rt, "kind"),
		PS:      genPStyle(rt),
		PathObj: rapid.IntRange(0, 3).Draw(rt, "pathobj") == 0,
		Send:    rapid.Bool().Draw(rt, "send"),
	}
	o.Path = genPath(rt, doc)
	if o.Path[len(o.Path)-1].K == "desc" {
		// a path ending in .. is an ojg extension whose meaning on a scalar is not fixed anywhere
		o.Path = append(o.Path, Frag{K: "wild"})
	}
	switch o.Kind {
	case "get", "walk":
		o.AsBag = rapid.Bool().Draw(rt, "asbag")
	case "modify":
		o.AsBag = rapid.IntRange(0, 3).Draw(rt, "asbag") == 0
	case "set":
		o.AsBag = rapid.IntRange(0, 2).Draw(rt, "valbag") == 0
		v := genDoc(rt, rapid.IntRange(0, 2).Draw(rt, "vdepth"), docOpts{keys: pathKeys[:8], plain: true})
		if rapid.IntRange(0, 9).Draw(rt, "vtime") == 0 && !o.AsBag {
			v = Node{T: "time", S: rapid.SampledFrom([]string{"2024-02-29T12:30:45.123456789Z", "1970-01-01T00:00:00Z", "2038-01-19T03:14:08+02:00"}).Draw(rt, "time")}
		}
		o.Val = &v
	}
	return o
}

// nodeSet follows a set in the generator's picture of the document (best effort: only where every
// step but the last exists) so that later paths can lead into values stored earlier.
func nodeSet(doc Node, fs []Frag, v Node) Node {
	if len(fs) == 0 {
		return v
	}
	f := fs[0]
	out := doc
	out.A = append([]Node(nil), doc.A...)
	out.K = append([]string(nil), doc.K...)
	switch {
	case f.K == "key" && doc.T == "obj":
		for i, k := range doc.K {
			if k == f.S {
				out.A[i] = nodeSet(doc.A[i], fs[1:], v)
				return out
			}
		}
		if len(fs) == 1 {
			out.K = append(out.K, f.S)
			out.A = append(out.A, v)
		}
	case f.K == "idx" && doc.T == "arr":
		i := f.I
		if i < 0 {
			i += len(doc.A)
		}
		if i >= 0 && i < len(doc.A) {
			out.A[i] = nodeSet(doc.A[i], fs[1:], v)
		}
	}
	return out
}

func genPaths(rt *rapid.T) PCase {
	c := PCase{}
	c.Doc = genDoc(rt, rapid.IntRange(1, 4).Draw(rt, "maxdepth"), docOpts{keys: pathKeys[:12], plain: true})
	if c.Doc.T != "arr" && c.Doc.T != "obj" && rapid.IntRange(0, 3).Draw(rt, "scalar-root") > 0 {
		c.Doc = Node{T: "obj", K: []string{"a", "b"}, A: []Node{{T: "arr", A: []Node{{T: "int", S: "1"}, {T: "obj", K: []string{"a"}, A: []Node{{T: "int", S: "2"}}}}}, c.Doc}}
	}
	n := rapid.IntRange(1, 6).Draw(rt, "nops")
	// paths are drawn against the generator's picture of the document (the start document plus the
	// simple sets so far); the operations meet whatever the earlier ones really left
	cur := c.Doc
	for len(c.Ops) < n {
		o := genOp(rt, cur)
		c.Ops = append(c.Ops, o)
		if o.Kind == "set" {
			if refpath.Simple(o.Path) {
				cur = nodeSet(cur, o.Path, *o.Val)
			}
			if len(c.Ops) < n && rapid.IntRange(0, 2).Draw(rt, "look") > 0 {
				// look at some other place afterwards
				g := genOp(rt, cur)
				g.Kind, g.Val = "get", nil
				g.AsBag = rapid.Bool().Draw(rt, "look-asbag")
				c.Ops = append(c.Ops, g)
			}
		}
	}
	return c
}

// ================================================================ Go data bridge

// BCase is a plain Go value (described by a Node with the bridge kinds).
type BCase struct {
	V Node `json:"v"`
}

var (
	rtProp     = h.Prop[RTCase]{Name: "roundtrip", Gen: genRT, Run: runRT}
	rtGrid     = h.Prop[RTCase]{Name: "roundtrip-grid", Run: runRT}
	pathsProp  = h.Prop[PCase]{Name: "paths", Gen: genPaths, Run: runPaths}
	pathsGrid  = h.Prop[PCase]{Name: "paths-grid", Run: runPaths}
	bridgeProp = h.Prop[BCase]{Name: "bridge", Gen: genBridge, Run: runBridge}
	bridgeGrid = h.Prop[BCase]{Name: "bridge-grid", Run: runBridge}
)

func TestC18(t *testing.T) {
	h.Rule("roundtrip: a generated document (depth <= 5, tables of boundary integers, floats, strings, keys plus random ones, arrays of rows with a string head at 1 in 10 container positions) is spelled as JSON or SEN text (3 escape styles, 3 white space styles), " +
		"parsed by one of 9 entry points after 0-2 other (mostly invalid) texts, compared with the harness's own reading of the document, written with generated options, parsed again and compared; " +
		"JSON output is also read with encoding/json; bag-native and back. Non-trivial: depth >= 2 and at least one hard scalar (integer of 16+ digits, any float, string that is empty, non-ASCII, " +
		"escaped, punctuation or word-like). paths: histories of <= 6 set/get/has/remove/walk/modify(identity function) operations (function and send forms, string and bag-path) against the reference path evaluator on any-trees; " +
		"non-trivial: a set that returned followed by a get whose targets existed before and are disjoint from the set path. bridge: a generated Go value through SimpleObject and Simplify; " +
		"non-trivial: nested or not int64/float64/string. Distinct by case JSON.")
	h.Assume("encoding/json, strconv and math/big are correct")
	h.Assume("the contents of a bag are read from flavors.Instance.Any; Lisp forms are read and evaluated through slip.ReadString / Code.Eval with the bag, value and path bound as variables")

	h.RunProp(t, rtGrid, 0)
	h.RunProp(t, rtProp, h.N(60000, 700000))
	h.RunProp(t, pathsGrid, 0)
	h.RunProp(t, pathsProp, h.N(60000, 500000))
	testRootStyle(t)
	h.RunProp(t, bridgeGrid, 0)
	h.RunProp(t, bridgeProp, h.N(30000, 300000))
	if h.C.Shard != 0 {
		return
	}
	enumRT(t)
	enumPaths(t)
	enumBridge(t)
}
