package c18

import (
	"fmt"
	"math"
	"strconv"
	"strings"
	"testing"
	"time"

	"github.com/ohler55/slip"
	"pgregory.net/rapid"

	"verif/harness/internal/ev"
	"verif/harness/internal/h"
	"verif/harness/internal/refpath"
)

var intKinds = []string{"i8", "i16", "i32", "i64", "int", "u8", "u16", "u32", "u64", "uint"}

func kindRange(k string) (lo int64, hi uint64) {
	switch k {
	case "i8":
		return math.MinInt8, math.MaxInt8
	case "i16":
		return math.MinInt16, math.MaxInt16
	case "i32":
		return math.MinInt32, math.MaxInt32
	case "i64", "int":
		return math.MinInt64, math.MaxInt64
	case "u8":
		return 0, math.MaxUint8
	case "u16":
		return 0, math.MaxUint16
	case "u32":
		return 0, math.MaxUint32
	case "u64", "uint":
		return 0, math.MaxUint64
	}
	panic(k)
}

func parseFloatLit(s string, bits int) float64 {
	switch s {
	case "+Inf":
		return math.Inf(1)
	case "-Inf":
		return math.Inf(-1)
	}
	f, err := strconv.ParseFloat(s, bits)
	if err != nil && !math.IsInf(f, 0) {
		panic("bad float literal " + s)
	}
	return f
}

// goValue builds the Go value a bridge case describes; want is what Simplify(SimpleObject(v)) has to
// give: the same data, with the identifications slip documents (every integer type -> int64,
// float32 -> float64 exactly, []byte -> string).
func goValue(n Node) (v any, want any) {
	switch n.T {
	case "null":
		return nil, nil
	case "true":
		return true, true
	case "false":
		return false, false
	case "i8", "i16", "i32", "i64", "int":
		i, err := strconv.ParseInt(n.S, 10, 64)
		if err != nil {
			panic(err)
		}
		switch n.T {
		case "i8":
			return int8(i), i
		case "i16":
			return int16(i), i
		case "i32":
			return int32(i), i
		case "int":
			return int(i), i
		}
		return i, i
	case "u8", "u16", "u32", "u64", "uint":
		u, err := strconv.ParseUint(n.S, 10, 64)
		if err != nil {
			panic(err)
		}
		want = int64(u)
		if u > math.MaxInt64 {
			want = refpath.Big{Text: n.S}
		}
		switch n.T {
		case "u8":
			return uint8(u), want
		case "u16":
			return uint16(u), want
		case "u32":
			return uint32(u), want
		case "uint":
			return uint(u), want
		}
		return u, want
	case "f32":
		f := float32(parseFloatLit(n.S, 32))
		return f, float64(f)
	case "f64":
		f := parseFloatLit(n.S, 64)
		return f, f
	case "str":
		return n.S, n.S
	case "bytes":
		return []byte(n.S), n.S
	case "time":
		t, err := time.Parse(time.RFC3339Nano, n.S)
		if err != nil {
			panic(err)
		}
		return t, t
	case "arr":
		vs, ws := make([]any, len(n.A)), make([]any, len(n.A))
		for i, e := range n.A {
			vs[i], ws[i] = goValue(e)
		}
		return vs, ws
	case "obj":
		vs, ws := make(map[string]any, len(n.A)), make(map[string]any, len(n.A))
		for i, e := range n.A {
			vs[n.K[i]], ws[n.K[i]] = goValue(e)
		}
		return vs, ws
	}
	panic("bridge kind " + n.T)
}

// strictSame: the bridge has to give back the same Go data, so types count (int64 is not float64).
func strictSame(want, got any, at string) string {
	bad := func() string {
		return fmt.Sprintf("at %s: expected %T %s, got %T %s", at, want, refpath.Show(want), got, refpath.Show(got))
	}
	switch w := want.(type) {
	case nil:
		if got != nil {
			return bad()
		}
	case bool:
		if g, ok := got.(bool); !ok || g != w {
			return bad()
		}
	case int64:
		if g, ok := got.(int64); !ok || g != w {
			return bad()
		}
	case float64:
		g, ok := got.(float64)
		if !ok || math.Float64bits(g) != math.Float64bits(w) {
			return bad()
		}
	case string:
		if g, ok := got.(string); !ok || g != w {
			return bad()
		}
	case refpath.Big:
		// an unsigned value beyond int64: slip's integers beyond int64 simplify to their decimal text
		if g, ok := got.(string); !ok || g != w.Text {
			return bad()
		}
	case time.Time:
		g, ok := got.(time.Time)
		if !ok || !g.Equal(w) {
			return bad()
		}
		_, wo := w.Zone()
		_, gz := g.Zone()
		if wo != gz {
			return bad()
		}
	case []any:
		g, ok := got.([]any)
		if !ok || len(g) != len(w) {
			return bad()
		}
		for i := range w {
			if d := strictSame(w[i], g[i], at+"["+strconv.Itoa(i)+"]"); d != "" {
				return d
			}
		}
	case map[string]any:
		g, ok := got.(map[string]any)
		if !ok || len(g) != len(w) {
			return bad()
		}
		for k, wv := range w {
			gv, has := g[k]
			if !has {
				return fmt.Sprintf("at %s: key %q missing", at, k)
			}
			if d := strictSame(wv, gv, at+"["+strconv.Quote(k)+"]"); d != "" {
				return d
			}
		}
	default:
		return "unexpected reference type " + fmt.Sprintf("%T", want)
	}
	return ""
}

func containsKind(n Node, kinds ...string) bool {
	found := false
	n.Walk(func(x Node) {
		for _, k := range kinds {
			if x.T == k {
				found = true
			}
		}
	})
	return found
}

// nilCollapse: the value contains false or an empty map, which Lisp can only hold as nil.
func nilCollapse(n Node) bool {
	found := false
	n.Walk(func(x Node) {
		if x.T == "false" || (x.T == "obj" && len(x.A) == 0) {
			found = true
		}
	})
	return found
}

func runBridge(c BCase) *h.Result {
	res := &h.Result{Classes: []string{"go:" + c.V.T}}
	if hasRows(c.V) {
		res.Classes = append(res.Classes, "go:rows")
	}
	res.NonTrivial = c.V.Depth() >= 1 || !(c.V.T == "i64" || c.V.T == "f64" || c.V.T == "str")
	switch {
	case nilCollapse(c.V) && h.ExclOn("bridge-nil-collapse"):
		res.Skip = "bridge-nil-collapse"
		return res
	}
	v, want := goValue(c.V)
	var got any
	out := ev.Try(func() slip.Object {
		got = slip.Simplify(slip.SimpleObject(v))
		return nil
	})
	if out.Kind != ev.Value {
		res.Err = fmt.Sprintf("Simplify(SimpleObject(%#v)): %s", v, out)
		return res
	}
	if d := strictSame(want, got, "$"); d != "" {
		res.Err = fmt.Sprintf("Simplify(SimpleObject(%#v)) = %#v: %s", v, got, d)
	}
	return res
}

var timeTable = []string{
	"1970-01-01T00:00:00Z", "1970-01-01T00:00:01.000000005Z", "2024-02-29T23:59:59.999999999Z", "2038-01-19T03:14:08+02:00",
	"1969-12-31T23:59:59.5-08:00", "0001-01-01T00:00:00Z", "9999-12-31T23:59:59.999999999Z", "2262-04-11T23:47:16.854775807Z", "1677-09-21T00:12:43.145224192Z",
	"2000-06-15T12:00:00+05:45",
}

var f64Table = []string{"0", "-0", "1", "-1", "0.1", "1.5", "1e300", "-1e-300", "5e-324", "1.7976931348623157e308", "9007199254740993", "+Inf", "-Inf", "3.141592653589793", "0.30000000000000004"}
var f32Table = []string{"0", "-0", "1", "0.1", "1.5", "3.4028235e38", "1e-45", "16777217", "+Inf", "-Inf", "0.33333334"}

func genBridgeNode(rt *rapid.T, depth int) Node {
	if depth > 0 && rapid.IntRange(0, 7).Draw(rt, "brows") == 0 {
		// rows with a string head: as Lisp data one cons cell away from the pairs that stand for a map
		return genRows(rt, func() Node { return genBridgeNode(rt, depth-1) }, keyTable)
	}
	k := rapid.IntRange(0, 13).Draw(rt, "bk")
	if depth <= 0 && k >= 12 {
		k = rapid.IntRange(0, 11).Draw(rt, "bk2")
	}
	switch k {
	case 0:
		return Node{T: "null"}
	case 1:
		return Node{T: rapid.SampledFrom([]string{"true", "false"}).Draw(rt, "bool")}
	case 2, 3, 4:
		kind := rapid.SampledFrom(intKinds).Draw(rt, "ikind")
		lo, hi := kindRange(kind)
		if lo == 0 {
			var u uint64
			switch rapid.IntRange(0, 2).Draw(rt, "uedge") {
			case 0:
				u = rapid.SampledFrom([]uint64{0, 1, hi, hi - 1, hi / 2, hi/2 + 1}).Draw(rt, "uv")
			default:
				u = rapid.Uint64Range(0, hi).Draw(rt, "ur")
			}
			return Node{T: kind, S: strconv.FormatUint(u, 10)}
		}
		var i int64
		switch rapid.IntRange(0, 2).Draw(rt, "iedge") {
		case 0:
			i = rapid.SampledFrom([]int64{0, 1, -1, lo, lo + 1, int64(hi), int64(hi) - 1}).Draw(rt, "iv")
		default:
			i = rapid.Int64Range(lo, int64(hi)).Draw(rt, "ir")
		}
		return Node{T: kind, S: strconv.FormatInt(i, 10)}
	case 5:
		if rapid.Bool().Draw(rt, "f64t") {
			return Node{T: "f64", S: rapid.SampledFrom(f64Table).Draw(rt, "f64")}
		}
		f := rapid.Float64().Draw(rt, "f64r")
		if math.IsNaN(f) {
			f = 1
		}
		return Node{T: "f64", S: fmtFloat(f, 64)}
	case 6:
		if rapid.Bool().Draw(rt, "f32t") {
			return Node{T: "f32", S: rapid.SampledFrom(f32Table).Draw(rt, "f32")}
		}
		f := rapid.Float32().Draw(rt, "f32r")
		if f != f {
			f = 1
		}
		return Node{T: "f32", S: fmtFloat(float64(f), 32)}
	case 7, 8:
		return Node{T: "str", S: genStr(rt, "bs")}
	case 9:
		return Node{T: "bytes", S: genStr(rt, "bb")}
	case 10, 11:
		return Node{T: "time", S: rapid.SampledFrom(timeTable).Draw(rt, "time")}
	case 12:
		n := rapid.IntRange(0, 4).Draw(rt, "alen")
		out := Node{T: "arr"}
		for i := 0; i < n; i++ {
			out.A = append(out.A, genBridgeNode(rt, depth-1))
		}
		return out
	}
	n := rapid.IntRange(0, 3).Draw(rt, "mlen")
	out := Node{T: "obj"}
	seen := map[string]bool{}
	for i := 0; i < n; i++ {
		key := keyTable[rapid.IntRange(0, len(keyTable)-1).Draw(rt, "mkey")]
		if seen[key] {
			continue
		}
		seen[key] = true
		out.K = append(out.K, key)
		out.A = append(out.A, genBridgeNode(rt, depth-1))
	}
	return out
}

func fmtFloat(f float64, bits int) string {
	switch {
	case math.IsInf(f, 1):
		return "+Inf"
	case math.IsInf(f, -1):
		return "-Inf"
	}
	return strconv.FormatFloat(f, 'g', -1, bits)
}

func genBridge(rt *rapid.T) BCase {
	return BCase{V: genBridgeNode(rt, rapid.IntRange(0, 3).Draw(rt, "bdepth"))}
}

// ================================================================ enumerations (shard 0)

func enumRT(t *testing.T) {
	var scalars []Node
	for _, s := range intTable {
		scalars = append(scalars, Node{T: "int", S: s})
	}
	for _, s := range floatTable {
		scalars = append(scalars, Node{T: "float", S: s})
	}
	for _, s := range strTable {
		scalars = append(scalars, Node{T: "str", S: s})
	}
	scalars = append(scalars, Node{T: "null"}, Node{T: "true"}, Node{T: "false"}, Node{T: "arr"}, Node{T: "obj"})
	wrap := func(s Node, w int) Node {
		switch w {
		case 1:
			return Node{T: "arr", A: []Node{s}}
		case 2:
			return Node{T: "obj", K: []string{"k"}, A: []Node{s}}
		case 3:
			return Node{T: "arr", A: []Node{{T: "arr", A: []Node{s, s}}, {T: "obj", K: []string{"a b", "c"}, A: []Node{s, {T: "arr", A: []Node{s}}}}}}
		}
		return s
	}
	var wopts []WOpts
	ip := func(i int) *int { return &i }
	for _, pretty := range []string{"", "nil", "t"} {
		for _, depth := range []*int{nil, ip(0), ip(1), ip(2), ip(4)} {
			for _, js := range []string{"", "t"} {
				for _, margin := range []int{0, 10} {
					wopts = append(wopts, WOpts{Pretty: pretty, Depth: depth, JSON: js, Margin: margin, Color: "nil"})
				}
			}
		}
	}
	h.Note("roundtrip-grid: %d scalars x 4 wrappings x %d write option sets, plus every key of the key table", len(scalars), len(wopts))
	h.Enumerate(t, rtGrid, func(yield func(RTCase) bool) {
		for _, s := range scalars {
			for w := 0; w < 4; w++ {
				for i, wo := range wopts {
					c := RTCase{Doc: wrap(s, w), Via: vias[(i+w)%4], W: wo, Native: []string{"make-bag", "init-set", "bag-set", "send-set"}[(i+w)%4]}
					c.Style.SEN = i%3 == 1
					c.Style.Esc = i % 3
					if !yield(c) {
						return
					}
				}
			}
		}
		// arrays of rows with a string head (as Lisp data one cons cell away from a map), alone, with a stranger, in a map
		for ki, k := range keyTable {
			rows := Node{T: "arr", A: []Node{{T: "arr", A: []Node{{T: "str", S: k}, {T: "int", S: "1"}}}, {T: "arr", A: []Node{{T: "str", S: "z"}, {T: "arr", A: []Node{{T: "str", S: k}}}}}}}
			mixed := Node{T: "arr", A: []Node{rows.A[0], {T: "arr", A: []Node{{T: "str", S: k}}}, rows.A[1]}}
			for di, doc := range []Node{rows, mixed, {T: "obj", K: []string{"rows", "map"}, A: []Node{rows, {T: "obj", K: []string{k}, A: []Node{rows}}}}} {
				for i := (ki + di) % 6; i < len(wopts); i += 6 {
					c := RTCase{Doc: doc, Via: vias[(i+di)%4], W: wopts[i], Native: []string{"make-bag", "init-set", "bag-set", "send-set"}[(i+ki)%4]}
					c.W.Send = i%2 == 1
					c.Style.Esc = i % 3
					if !yield(c) {
						return
					}
				}
			}
		}
		for _, k := range keyTable {
			for i, wo := range wopts {
				c := RTCase{Doc: Node{T: "obj", K: []string{k, "z"}, A: []Node{{T: "int", S: "1"}, {T: "obj", K: []string{k}, A: []Node{{T: "str", S: k}}}}}, Via: "make-bag", W: wo, Native: "make-bag"}
				c.Style.Esc = i % 3
				if !yield(c) {
					return
				}
			}
		}
	})
}

// the document of the path grid: maps and arrays, a null, an empty map, and at b[1] an array of rows with a string head.
var gridDoc = Node{T: "obj", K: []string{"a", "b", "c", "d"}, A: []Node{
	{T: "obj", K: []string{"a", "b"}, A: []Node{{T: "int", S: "1"}, {T: "arr", A: []Node{{T: "int", S: "2"}, {T: "obj", K: []string{"a"}, A: []Node{{T: "int", S: "3"}}}, {T: "null"}}}}},
	{T: "arr", A: []Node{{T: "obj", K: []string{"a", "b"}, A: []Node{{T: "str", S: "x"}, {T: "false"}}},
		{T: "arr", A: []Node{{T: "arr", A: []Node{{T: "str", S: "a"}, {T: "int", S: "4"}}}, {T: "arr", A: []Node{{T: "str", S: ""}, {T: "arr", A: []Node{{T: "int", S: "5"}}}}}}}, {T: "float", S: "1.5"}}},
	{T: "null"},
	{T: "obj"},
}}

func containsDesc(fs []Frag) bool {
	for _, f := range fs {
		if f.K == "desc" {
			return true
		}
	}
	return false
}

func enumPaths(t *testing.T) {
	alphabet := []Frag{
		{K: "key", S: "a"}, {K: "key", S: "b"}, {K: "key", S: "zz"}, {K: "idx", I: 0}, {K: "idx", I: 1}, {K: "idx", I: -1}, {K: "idx", I: 5},
		{K: "wild"}, {K: "desc"}, {K: "union", U: []Frag{{K: "idx", I: 0}, {K: "idx", I: 1}}}, {K: "union", U: []Frag{{K: "key", S: "b"}, {K: "key", S: "a"}}},
	}
	var paths [][]Frag
	var build func(prefix []Frag, n int)
	build = func(prefix []Frag, n int) {
		if len(prefix) > 0 {
			paths = append(paths, append([]Frag(nil), prefix...))
		}
		if n == 0 {
			return
		}
		for _, f := range alphabet {
			if f.K == "desc" && containsDesc(prefix) {
				continue // what a second descent multiplies is not fixed anywhere: one descent per path
			}
			build(append(prefix, f), n-1)
		}
	}
	build(nil, 3)
	// a path ending in .. is an ojg extension whose meaning on a scalar is not fixed anywhere: not part of the grammar
	kept := paths[:0]
	for _, p := range paths {
		if p[len(p)-1].K != "desc" {
			kept = append(kept, p)
		}
	}
	paths = kept
	scalar := Node{T: "int", S: "9"}
	container := Node{T: "obj", K: []string{"n"}, A: []Node{{T: "arr", A: []Node{{T: "int", S: "7"}}}}}
	h.Note("paths-grid: %d paths of up to 3 fragments over %d fragments x 11 operations on one document", len(paths), len(alphabet))
	h.Enumerate(t, pathsGrid, func(yield func(PCase) bool) {
		for pi, p := range paths {
			ps := refpath.PStyle{Root: pi%2 == 0, Bracket: pi%3 == 0}
			last := p[len(p)-1].K
			ops := []Op{
				{Kind: "get", Path: p, PS: ps}, {Kind: "get", Path: p, PS: ps, AsBag: true, Send: true}, {Kind: "has", Path: p, PS: ps, PathObj: true},
				{Kind: "walk", Path: p, PS: ps}, {Kind: "walk", Path: p, PS: ps, AsBag: true, Send: true},
				{Kind: "set", Path: p, PS: ps, Val: &scalar}, {Kind: "set", Path: p, PS: ps, Val: &container, Send: true}, {Kind: "set", Path: p, PS: ps, Val: &container, AsBag: true},
			}
			_ = last
			ops = append(ops, Op{Kind: "remove", Path: p, PS: ps}, Op{Kind: "modify", Path: p, PS: ps}, Op{Kind: "modify", Path: p, PS: ps, AsBag: true, Send: true})
			for _, o := range ops {
				c := PCase{Doc: gridDoc, Ops: []Op{o}}
				if o.Kind == "set" || o.Kind == "remove" || o.Kind == "modify" {
					// look at the result through the same path and at four other places
					c.Ops = append(c.Ops, Op{Kind: "has", Path: p, PS: ps}, Op{Kind: "get", Path: p, PS: ps, AsBag: true},
						Op{Kind: "get", Path: []Frag{{K: "key", S: "a"}, {K: "key", S: "a"}}}, Op{Kind: "get", Path: []Frag{{K: "key", S: "b"}, {K: "idx", I: 2}}},
						Op{Kind: "get", Path: []Frag{{K: "key", S: "a"}, {K: "key", S: "b"}, {K: "idx", I: 0}}, AsBag: true}, Op{Kind: "get", Path: []Frag{{K: "key", S: "d"}}, AsBag: true})
				}
				if !yield(c) {
					return
				}
			}
		}
	})
}

// rowShapes: arrays of rows with a string head and their neighbours - heads "a", "", "k k"; rows of
// 1, 2 and 3 elements; 1 and 2 rows; seven kinds of second element; with one element that is no row
// in front, between or behind; a map with the same entries beside it.
func rowShapes() []Node {
	str := func(s string) Node { return Node{T: "str", S: s} }
	seconds := []Node{{T: "i64", S: "1"}, {T: "null"}, str("v"), {T: "true"}, {T: "f64", S: "7.5"},
		{T: "arr", A: []Node{{T: "i64", S: "2"}}}, {T: "obj", K: []string{"x"}, A: []Node{{T: "i64", S: "3"}}},
		{T: "arr", A: []Node{{T: "arr", A: []Node{str("in"), {T: "i64", S: "4"}}}}}}
	var out []Node
	for _, head := range []string{"a", "", "k k"} {
		for _, sec := range seconds {
			row := func(l int, h string) Node {
				r := Node{T: "arr", A: []Node{str(h)}}
				for len(r.A) < l {
					r.A = append(r.A, sec)
				}
				return r
			}
			for l := 1; l <= 3; l++ {
				out = append(out, Node{T: "arr", A: []Node{row(l, head)}}, Node{T: "arr", A: []Node{row(l, head), row(l, "z")}})
			}
			two := []Node{row(2, head), row(2, "z")}
			for _, stranger := range []Node{{T: "i64", S: "0"}, str("s"), row(1, head), row(3, head), {T: "arr"}, {T: "arr", A: []Node{{T: "i64", S: "1"}, sec}}} {
				out = append(out, Node{T: "arr", A: []Node{stranger, two[0], two[1]}}, Node{T: "arr", A: []Node{two[0], stranger, two[1]}}, Node{T: "arr", A: []Node{two[0], two[1], stranger}})
			}
			out = append(out, Node{T: "obj", K: []string{"rows", "map"}, A: []Node{{T: "arr", A: two}, {T: "obj", K: []string{head, "z"}, A: []Node{sec, sec}}}})
		}
	}
	return out
}

func enumBridge(t *testing.T) {
	h.Enumerate(t, bridgeGrid, func(yield func(BCase) bool) {
		emit := func(n Node) bool {
			return yield(BCase{V: n}) && yield(BCase{V: Node{T: "arr", A: []Node{n, {T: "arr", A: []Node{n}}}}}) &&
				yield(BCase{V: Node{T: "obj", K: []string{"k"}, A: []Node{n}}})
		}
		for _, k := range intKinds {
			lo, hi := kindRange(k)
			var lits []string
			if lo == 0 {
				for _, u := range []uint64{0, 1, 2, hi / 2, hi/2 + 1, hi - 1, hi} {
					lits = append(lits, strconv.FormatUint(u, 10))
				}
			} else {
				for _, i := range []int64{lo, lo + 1, -2, -1, 0, 1, 2, int64(hi) - 1, int64(hi)} {
					lits = append(lits, strconv.FormatInt(i, 10))
				}
			}
			for _, s := range lits {
				if !emit(Node{T: k, S: s}) {
					return
				}
			}
		}
		for _, s := range f64Table {
			if !emit(Node{T: "f64", S: s}) {
				return
			}
		}
		for _, s := range f32Table {
			if !emit(Node{T: "f32", S: s}) {
				return
			}
		}
		for _, s := range strTable {
			if !emit(Node{T: "str", S: s}) || !emit(Node{T: "bytes", S: s}) {
				return
			}
		}
		for _, s := range timeTable {
			if !emit(Node{T: "time", S: s}) {
				return
			}
		}
		for _, n := range []Node{{T: "null"}, {T: "true"}, {T: "false"}, {T: "arr"}, {T: "obj"}} {
			if !emit(n) {
				return
			}
		}
		for _, n := range rowShapes() {
			if !emit(n) {
				return
			}
		}
	})
	_ = strings.Repeat
}
