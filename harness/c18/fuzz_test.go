package c18

import (
	"testing"

	"verif/harness/internal/h"
)

// Native fuzz targets over the generators of the sub-properties (h.FuzzRapid): the fuzzer's bytes are rapid's bit stream.

func warmAll() {
	h.Warm(rtProp)
	h.Warm(rtGrid)
	h.Warm(pathsProp)
	h.Warm(pathsGrid)
	h.Warm(bridgeProp)
	h.Warm(bridgeGrid)
}

func FuzzRoundtrip(f *testing.F) { h.FuzzRapid(f, "c18", rtProp, warmAll) }

func FuzzPaths(f *testing.F) { h.FuzzRapid(f, "c18", pathsProp, warmAll) }
