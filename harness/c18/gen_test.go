package c18

import (
	"math"
	"strconv"
	"strings"

	"pgregory.net/rapid"

	"verif/harness/internal/refpath"
)

type Node = refpath.Node
type Frag = refpath.Frag

// ---- boundary tables (listed so that a reader sees what is probed) ----

var intTable = []string{
	"0", "-0", "1", "-1", "7", "42", "255", "-256", "65536", "2147483647", "-2147483648", "4294967296",
	"9007199254740991", "9007199254740992", "9007199254740993", "-9007199254740993",
	"99999999999999999", "100000000000000000", "999999999999999999", "-999999999999999999",
	"1000000000000000000", "-1000000000000000000", "9223372036854775806", "9223372036854775807",
	"-9223372036854775807", "-9223372036854775808", "9223372036854775808", "-9223372036854775809",
	"18446744073709551615", "18446744073709551616", "123456789012345678901234567890", "-123456789012345678901234567890",
}

var floatTable = []string{
	"0.0", "-0.0", "1.0", "1.5", "-2.25", "0.1", "0.2", "0.5", "1e0", "1E2", "1e+2", "1.5e-3", "-1.5E+3", "3.141592653589793",
	"2.718281828459045e0", "1e21", "1e22", "1e23", "1e-7", "123456.789e3", "5e-300", "2.2250738585072014e-300",
	"1.7976931348623157e300", "1e300", "1e-300", "0.000001", "9007199254740993.0", "0.30000000000000004",
	"1.0000000000000002", "4.35", "0.000123", "100.0", "1e15", "1e16", "123456789012.5", "8.41e21", "2.5e-10", "9.5e-1",
	"0.030000000000000002", "0.012345678901234567", "0.0030000000000000001", "-0.099999999999999992", "0.00012345678901234567", "1.7976931348623157e-5",
	"123456789.123456789012345", "0.1234567890123456789", "12345678901234567890.5", "1.00000000000000000001",
}

var strTable = []string{
	"", "a", "abc", "a b", " ", "  x", "true", "false", "null", "nil", "t", "True", "-1", "+1", "1", "12", "1e5", "0x10", ".5", "-", "+", "-a", "+a",
	"a.b", "a:b", "a,b", "{", "}", "[", "]", "{}", "[]", "\"", "'", "a'b", "a\"b", "\\", "a\\b", "/", "a/b", "\\n", "\n", "\t", "\r\n", "\b\f",
	"\u0000", "a\u0000b", "\u0001", "\u001f", "\u007f", "\u0080", "\u009f", "é", "ü", "ß", "日本語", "\u2028", "\u2029", "\ufeff", "😀", "a😀b", "\U0010ffff", "\U00010000",
	"<script>", "&amp;", "a<b", "a>b", "a&b", "a`b", "`", "@x", "#c", "$", "$a", "*", "~", "%", "(", ")", "a(b)", "x y z", "a=b", "a;b", "a|b", "a!b", "a?b", "a^b",
	"Infinity", "NaN", "-Inf", "+Inf", "e", "E5", "1.", "01", "-0", "- 1", "a\tb", "a\nb",
	strings.Repeat("a", 63), strings.Repeat("a", 64), strings.Repeat("a", 65), strings.Repeat("é", 33), "x" + strings.Repeat("0", 70),
}

var strAlphabet = []rune{'a', 'b', 'z', 'A', '0', '1', '9', ' ', '-', '+', '.', '_', ':', ',', '"', '\'', '\\', '/', '{', '}', '[', ']', '\n', '\t', '\r', 0, 1, 0x1f, 0x7f, 0x80,
	'é', 'ñ', 'ж', '日', 0x2028, 0xfeff, 0x1F600, 0x10FFFF, '<', '>', '&', '`', '@', '#', '$', '*', '~', '%', '(', ')', '=', ';', '|', '!', '?', '^', 'e', 'E', 't', 'n', 'u'}

var keyTable = []string{
	"a", "b", "c", "k", "key", "id", "x1", "_u", "A", "", "a b", "a.b", "a-b", "1", "0", "-1", "+1", "true", "false", "null", "nil", "é", "日本", "😀", "\"q\"", "'", "a'b",
	"a:b", "[0]", "*", "$", "..", "@", "#", "\n", "\u0000", "a\\b", "a/b", "{", "}", "a,b", "a`b", "<k>", strings.Repeat("k", 65),
}

// keys a path of the reference grammar may name (the harness spells them in bracket form when needed)
var pathKeys = []string{"a", "b", "c", "k", "x1", "_u", "a b", "a.b", "a-b", "1", "é", "日本", "", "true", "*", "$"}

func digits(rt *rapid.T, label string, n int) string {
	var b strings.Builder
	b.WriteByte(byte('1' + rapid.IntRange(0, 8).Draw(rt, label+"d0")))
	for i := 1; i < n; i++ {
		b.WriteByte(byte('0' + rapid.IntRange(0, 9).Draw(rt, label+"d")))
	}
	return b.String()
}

func genInt(rt *rapid.T, wide bool) Node {
	if rapid.IntRange(0, 2).Draw(rt, "int-table") == 0 {
		for try := 0; try < 8; try++ {
			s := intTable[rapid.IntRange(0, len(intTable)-1).Draw(rt, "int-i")]
			if wide || !refpath.Wide(s) {
				return Node{T: "int", S: s}
			}
		}
	}
	max := 18
	if wide {
		max = 26
	}
	s := digits(rt, "int", rapid.IntRange(1, max).Draw(rt, "int-len"))
	if rapid.Bool().Draw(rt, "int-neg") {
		s = "-" + s
	}
	return Node{T: "int", S: s}
}

func genFloat(rt *rapid.T, wide bool) Node {
	if rapid.IntRange(0, 2).Draw(rt, "float-table") == 0 {
		for try := 0; try < 8; try++ {
			s := floatTable[rapid.IntRange(0, len(floatTable)-1).Draw(rt, "float-i")]
			if wide || !refpath.Wide(s) {
				return Node{T: "float", S: s}
			}
		}
	}
	var b strings.Builder
	switch rapid.IntRange(0, 7).Draw(rt, "f-kind") {
	case 0:
		// as many digits as a double has, behind leading zeros: long fractions that are not wide (17 significant digits)
		if rapid.Bool().Draw(rt, "f-neg") {
			b.WriteByte('-')
		}
		b.WriteString("0.")
		b.WriteString(strings.Repeat("0", rapid.IntRange(0, 6).Draw(rt, "f-lead0")))
		b.WriteString(digits(rt, "fl", rapid.IntRange(14, 17).Draw(rt, "f-llen")))
		return Node{T: "float", S: b.String()}
	case 1:
		// any double, written the shortest way that reads back to it, positional where that is reasonable
		f := rapid.Float64().Draw(rt, "f-any")
		if a := math.Abs(f); a == 0 || math.IsInf(f, 0) || math.IsNaN(f) || a > 1e300 || a < 1e-300 {
			f = 0.1
		}
		lit := strconv.FormatFloat(f, 'g', -1, 64)
		if a := math.Abs(f); a >= 1e-9 && a < 1e21 {
			lit = strconv.FormatFloat(f, 'f', -1, 64)
			if !strings.Contains(lit, ".") {
				lit += ".0"
			}
		}
		if wide || !refpath.Wide(lit) {
			return Node{T: "float", S: lit}
		}
	}
	if rapid.Bool().Draw(rt, "f-neg") {
		b.WriteByte('-')
	}
	if rapid.IntRange(0, 3).Draw(rt, "f-zero") == 0 {
		b.WriteByte('0')
	} else {
		b.WriteString(digits(rt, "fi", rapid.IntRange(1, 6).Draw(rt, "f-ilen")))
	}
	nf := rapid.IntRange(0, 10).Draw(rt, "f-flen")
	hasExp := rapid.IntRange(0, 2).Draw(rt, "f-exp") == 0
	if nf == 0 && !hasExp {
		nf = 1
	}
	if nf > 0 {
		b.WriteByte('.')
		for i := 0; i < nf; i++ {
			b.WriteByte(byte('0' + rapid.IntRange(0, 9).Draw(rt, "f-d")))
		}
	}
	if hasExp {
		b.WriteString(rapid.SampledFrom([]string{"e", "E", "e+", "e-", "E-"}).Draw(rt, "f-e"))
		b.WriteString(strconv.Itoa(rapid.IntRange(0, 40).Draw(rt, "f-ev")))
	}
	return Node{T: "float", S: b.String()}
}

func genStr(rt *rapid.T, label string) string {
	if rapid.Bool().Draw(rt, label+"-table") {
		return strTable[rapid.IntRange(0, len(strTable)-1).Draw(rt, label+"-i")]
	}
	n := rapid.IntRange(0, 8).Draw(rt, label+"-len")
	var b strings.Builder
	for i := 0; i < n; i++ {
		b.WriteRune(strAlphabet[rapid.IntRange(0, len(strAlphabet)-1).Draw(rt, label+"-r")])
	}
	return b.String()
}

type docOpts struct {
	wide  bool     // numbers beyond int64/float64
	keys  []string // key pool
	plain bool     // plain strings only (path histories)
}

func genScalar(rt *rapid.T, o docOpts) Node {
	switch rapid.IntRange(0, 9).Draw(rt, "scalar") {
	case 0:
		return Node{T: "null"}
	case 1:
		return Node{T: "true"}
	case 2:
		return Node{T: "false"}
	case 3, 4:
		return genInt(rt, o.wide)
	case 5, 6:
		return genFloat(rt, o.wide)
	}
	if o.plain {
		return Node{T: "str", S: rapid.SampledFrom([]string{"", "s", "x y", "é", "true", "7"}).Draw(rt, "pstr")}
	}
	return Node{T: "str", S: genStr(rt, "str")}
}

func genDoc(rt *rapid.T, depth int, o docOpts) Node {
	if depth <= 0 || rapid.IntRange(0, 9).Draw(rt, "leaf") < 2 {
		return genScalar(rt, o)
	}
	if rapid.IntRange(0, 9).Draw(rt, "rows") == 0 {
		return genRows(rt, func() Node { return genDoc(rt, depth-1, o) }, o.keys)
	}
	n := rapid.IntRange(0, 4).Draw(rt, "size")
	if rapid.Bool().Draw(rt, "isarr") {
		out := Node{T: "arr"}
		for i := 0; i < n; i++ {
			out.A = append(out.A, genDoc(rt, depth-1, o))
		}
		return out
	}
	out := Node{T: "obj"}
	seen := map[string]bool{}
	for i := 0; i < n; i++ {
		k := o.keys[rapid.IntRange(0, len(o.keys)-1).Draw(rt, "key")]
		if seen[k] {
			continue
		}
		seen[k] = true
		out.K = append(out.K, k)
		out.A = append(out.A, genDoc(rt, depth-1, o))
	}
	return out
}

// genRows builds an array of rows, each row an array with a string head: [["a",1],["b",[2]]]. As Lisp
// data a row of two is the proper list ("a" 1), one cons cell away from the pair ("a" . 1) that stands
// for a map entry, so everything that looks at the shape of lists must keep the two apart. Row
// lengths 1-3 (mostly 2), sometimes one element that is no such row.
func genRows(rt *rapid.T, elem func() Node, keys []string) Node {
	out := Node{T: "arr"}
	n := rapid.IntRange(1, 3).Draw(rt, "nrows")
	rowLen := rapid.SampledFrom([]int{2, 2, 2, 2, 1, 3}).Draw(rt, "rowlen")
	for i := 0; i < n; i++ {
		row := Node{T: "arr", A: []Node{{T: "str", S: keys[rapid.IntRange(0, len(keys)-1).Draw(rt, "rowkey")]}}}
		l := rowLen
		if rapid.IntRange(0, 7).Draw(rt, "rowodd") == 0 {
			l = rapid.IntRange(1, 3).Draw(rt, "rowlen2")
		}
		for len(row.A) < l {
			row.A = append(row.A, elem())
		}
		out.A = append(out.A, row)
	}
	if rapid.IntRange(0, 5).Draw(rt, "stranger") == 0 {
		at := rapid.IntRange(0, len(out.A)).Draw(rt, "stranger-at")
		rest := append([]Node{elem()}, out.A[at:]...)
		out.A = append(out.A[:at:at], rest...)
	}
	return out
}

// isRows: a non-empty array whose elements are all 2-element arrays with a string head.
func isRows(n Node) bool {
	if n.T != "arr" || len(n.A) == 0 {
		return false
	}
	for _, r := range n.A {
		if r.T != "arr" || len(r.A) != 2 || r.A[0].T != "str" {
			return false
		}
	}
	return true
}

func hasRows(n Node) bool {
	found := false
	n.Walk(func(x Node) {
		if isRows(x) {
			found = true
		}
	})
	return found
}

// ---- classification ----

func hardScalar(n Node) bool {
	switch n.T {
	case "int":
		s := strings.TrimLeft(n.S, "-")
		return len(s) >= 16
	case "float":
		return true
	case "str":
		if n.S == "" {
			return true
		}
		for _, r := range n.S {
			if r < 0x20 || r >= 0x7f || strings.ContainsRune(`"\'/{}[]:,`, r) {
				return true
			}
		}
		switch n.S {
		case "true", "false", "null", "nil":
			return true
		}
		c := n.S[0]
		return c == '-' || c == '+' || c == '.' || (c >= '0' && c <= '9')
	}
	return false
}

func countHard(n Node) (hard int) {
	n.Walk(func(x Node) {
		if hardScalar(x) {
			hard++
		}
	})
	return
}

// ---- paths ----

// genPath builds a path by walking down the document and then perturbing it.
func genPath(rt *rapid.T, doc Node) []Frag {
	var fs []Frag
	cur := doc
	maxLen := rapid.IntRange(1, 4).Draw(rt, "plen")
	for len(fs) < maxLen {
		switch cur.T {
		case "obj":
			if len(cur.A) == 0 || rapid.IntRange(0, 7).Draw(rt, "miss-key") == 0 {
				fs = append(fs, Frag{K: "key", S: pathKeys[rapid.IntRange(0, len(pathKeys)-1).Draw(rt, "mk")]})
				cur = Node{T: "null"}
				continue
			}
			i := rapid.IntRange(0, len(cur.A)-1).Draw(rt, "ki")
			fs = append(fs, Frag{K: "key", S: cur.K[i]})
			cur = cur.A[i]
		case "arr":
			n := len(cur.A)
			if n == 0 || rapid.IntRange(0, 7).Draw(rt, "miss-idx") == 0 {
				fs = append(fs, Frag{K: "idx", I: rapid.IntRange(-n-2, n+2).Draw(rt, "oi")})
				cur = Node{T: "null"}
				continue
			}
			i := rapid.IntRange(0, n-1).Draw(rt, "ii")
			f := Frag{K: "idx", I: i}
			if rapid.IntRange(0, 2).Draw(rt, "neg") == 0 {
				f.I = i - n
			}
			fs = append(fs, f)
			cur = cur.A[i]
		default:
			// a scalar: sometimes step further anyway (a path through a scalar)
			if rapid.IntRange(0, 3).Draw(rt, "through") > 0 && len(fs) > 0 {
				maxLen = len(fs)
				continue
			}
			if rapid.Bool().Draw(rt, "thr-key") {
				fs = append(fs, Frag{K: "key", S: pathKeys[rapid.IntRange(0, 5).Draw(rt, "tk")]})
			} else {
				fs = append(fs, Frag{K: "idx", I: rapid.IntRange(-1, 1).Draw(rt, "ti")})
			}
		}
	}
	// perturb: wildcard, union, descent
	switch rapid.IntRange(0, 9).Draw(rt, "perturb") {
	case 0, 1:
		i := rapid.IntRange(0, len(fs)-1).Draw(rt, "wi")
		fs[i] = Frag{K: "wild"}
	case 2:
		i := rapid.IntRange(0, len(fs)-1).Draw(rt, "ui")
		f := fs[i]
		u := Frag{K: "union", U: []Frag{{K: f.K, S: f.S, I: f.I}}}
		if f.K == "key" {
			other := pathKeys[rapid.IntRange(0, 5).Draw(rt, "uk")]
			if other != f.S {
				u.U = append(u.U, Frag{K: "key", S: other})
			}
		} else {
			other := rapid.IntRange(0, 3).Draw(rt, "ux")
			if other != f.I {
				u.U = append(u.U, Frag{K: "idx", I: other})
			}
		}
		if rapid.Bool().Draw(rt, "urev") && len(u.U) == 2 {
			u.U[0], u.U[1] = u.U[1], u.U[0]
		}
		fs[i] = u
	case 3, 4:
		// replace a prefix by a descent
		i := rapid.IntRange(0, len(fs)-1).Draw(rt, "di")
		fs = append([]Frag{{K: "desc"}}, fs[i:]...)
	case 5:
		// descent in the middle
		if len(fs) >= 2 {
			i := rapid.IntRange(1, len(fs)-1).Draw(rt, "dm")
			rest := append([]Frag{{K: "desc"}}, fs[i:]...)
			fs = append(fs[:i:i], rest...)
		}
	}
	return fs
}

func genPStyle(rt *rapid.T) refpath.PStyle {
	return refpath.PStyle{Root: rapid.Bool().Draw(rt, "proot"), Bracket: rapid.IntRange(0, 3).Draw(rt, "pbr") == 0}
}
