package c18

import (
	"fmt"
	"math/big"
	"time"

	"github.com/ohler55/slip"
	"github.com/ohler55/slip/pkg/flavors"

	"verif/harness/internal/ev"
	"verif/harness/internal/refpath"
)

// toLisp builds the native Lisp form of a tree with the harness's own rules (the ones the bag
// documentation gives): map -> assoc list with string keys, array -> list, false -> :false,
// null -> nil, true -> t, integer -> fixnum, float -> double-float, time -> time.
// Empty containers have no native form (they are nil).
func toLisp(v any) slip.Object {
	switch t := v.(type) {
	case nil:
		return nil
	case bool:
		if t {
			return slip.True
		}
		return slip.Symbol(":false")
	case int64:
		return slip.Fixnum(t)
	case float64:
		return slip.DoubleFloat(t)
	case string:
		return slip.String(t)
	case time.Time:
		return slip.Time(t)
	case []any:
		if len(t) == 0 {
			return nil
		}
		out := make(slip.List, len(t))
		for i, e := range t {
			out[i] = toLisp(e)
		}
		return out
	case map[string]any:
		if len(t) == 0 {
			return nil
		}
		out := make(slip.List, 0, len(t))
		for _, k := range refpath.Keys(t) {
			out = append(out, slip.List{slip.String(k), slip.Tail{Value: toLisp(t[k])}})
		}
		return out
	}
	panic(fmt.Sprintf("toLisp: %T", v))
}

// storedNative is what a bag must hold after it was given toLisp(v): empty containers arrive as nil.
func storedNative(v any) any {
	switch t := v.(type) {
	case []any:
		if len(t) == 0 {
			return nil
		}
		out := make([]any, len(t))
		for i, e := range t {
			out[i] = storedNative(e)
		}
		return out
	case map[string]any:
		if len(t) == 0 {
			return nil
		}
		out := make(map[string]any, len(t))
		for k, e := range t {
			out[k] = storedNative(e)
		}
		return out
	}
	return v
}

type odd struct{ what string }

// fromLisp reads a native Lisp form back into a tree (assoc list of conses with string keys ->
// map, other lists -> array). Anything the bag documentation does not list becomes an odd marker,
// which never compares equal to anything.
func fromLisp(o slip.Object) any {
	switch t := o.(type) {
	case nil:
		return nil
	case slip.Fixnum:
		return int64(t)
	case slip.Octet:
		return int64(t)
	case slip.DoubleFloat:
		return float64(t)
	case slip.SingleFloat:
		return float64(t)
	case slip.String:
		return string(t)
	case slip.Time:
		return time.Time(t)
	case *slip.Bignum:
		return refpath.Big{Text: (*big.Int)(t).String()}
	case slip.List:
		if len(t) == 0 {
			return nil
		}
		assoc := true
		for _, e := range t {
			pair, ok := e.(slip.List)
			if !ok || len(pair) != 2 {
				assoc = false
				break
			}
			if _, ok = pair[1].(slip.Tail); !ok {
				assoc = false
				break
			}
			if _, ok = pair[0].(slip.String); !ok {
				assoc = false
				break
			}
		}
		if assoc {
			m := map[string]any{}
			for _, e := range t {
				pair := e.(slip.List)
				k := string(pair[0].(slip.String))
				if _, dup := m[k]; dup {
					return odd{"duplicate key " + k}
				}
				m[k] = fromLisp(pair[1].(slip.Tail).Value)
			}
			return m
		}
		out := make([]any, len(t))
		for i, e := range t {
			if _, isTail := e.(slip.Tail); isTail {
				return odd{"dotted list " + ev.Show(o)}
			}
			out[i] = fromLisp(e)
		}
		return out
	}
	if o == slip.True {
		return true
	}
	return odd{fmt.Sprintf("%T %s", o, ev.Show(o))}
}

func bagOf(o slip.Object) (*flavors.Instance, bool) {
	inst, ok := o.(*flavors.Instance)
	if !ok || inst == nil || inst.Type == nil || inst.Type.Name() != "bag-flavor" {
		return nil, false
	}
	return inst, true
}
