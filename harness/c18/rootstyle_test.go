package c18

import (
	"fmt"
	"strings"
	"testing"

	"github.com/ohler55/slip"

	"verif/harness/internal/ev"
	"verif/harness/internal/h"
	"verif/harness/internal/refpath"
)

// A path names the same locations however it is written: with or without the leading $, keys with a dot or in
// brackets, as a string or as a bag-path object. Every operation on a bag made from the same text must therefore give the
// same outcome and leave the same bag behind for every spelling of one path. The bags include the empty one (a fresh
// instance and a parsed null), the starting point of every bag that is filled by bag-set.

// RSCase: one document text (or "" = a fresh (make-instance 'bag-flavor)), one simple path, one operation.
type RSCase struct {
	Doc  string         `json:"doc"`
	Path []refpath.Frag `json:"path"`
	Op   string         `json:"op"` // set get has remove
}

func runRootStyle(c RSCase) *h.Result {
	res := &h.Result{NonTrivial: true, Classes: []string{"rootstyle:" + c.Op}}
	type outcome struct{ kind, val, bag string }
	var first outcome
	var firstHow string
	n := 0
	for _, st := range []refpath.PStyle{{}, {Root: true}, {Bracket: true}, {Root: true, Bracket: true}} {
		for _, asObj := range []bool{false, true} {
			sc := slip.NewScope()
			mk := "(make-instance 'bag-flavor)"
			if c.Doc != "" {
				sc.Let("txt", slip.String(c.Doc))
				mk = "(make-bag txt)"
			}
			if o := ev.Eval(sc, "(setq b "+mk+")"); o.Kind != ev.Value {
				return h.Fail("%s: %s", mk, o)
			}
			ptxt := refpath.RenderPath(c.Path, st)
			sc.Let("p", slip.String(ptxt))
			how := fmt.Sprintf("%q", ptxt)
			if asObj {
				o := ev.Eval(sc, "(setq p (make-bag-path p))")
				if o.Kind != ev.Value {
					return h.Fail("(make-bag-path %q): %s", ptxt, o)
				}
				how = "(make-bag-path " + how + ")"
			}
			var form string
			switch c.Op {
			case "set":
				form = "(bag-set b 77 p)"
			case "get":
				form = "(bag-get b p)"
			case "has":
				form = "(bag-has b p)"
			case "remove":
				form = "(bag-remove b p)"
			}
			o := ev.Eval(sc, form)
			if o.Kind == ev.Fault || o.Kind == ev.Partial {
				return h.Fail("bag %q: %s with p = %s: %s", c.Doc, form, how, o)
			}
			cur := outcome{kind: fmt.Sprint(o.Kind)}
			if o.Kind == ev.Value && (c.Op == "get" || c.Op == "has") {
				cur.val = ev.Show(o.Val)
			}
			if w := ev.Eval(sc, "(bag-write b)"); w.Kind == ev.Value {
				cur.bag = ev.Show(w.Val)
			} else {
				cur.bag = w.String()
			}
			n++
			if n == 1 {
				first, firstHow = cur, how
				continue
			}
			if cur != first {
				return h.Fail("bag %q: %s gives %v with p = %s but %v with p = %s (the two spell the same path)", c.Doc, form, first, firstHow, cur, how)
			}
		}
	}
	res.Evals = n
	return res
}

var rootStyle = h.Prop[RSCase]{Name: "path-spelling-grid", Run: runRootStyle}

func enumerateRootStyle(yield func(RSCase) bool) {
	docs := []string{"", "null", "{}", "[]", `{"a":{"b":1},"b":[1,2]}`, `[1,[2,3],{"a":4}]`, `{"a":null}`, "3"}
	steps := []refpath.Frag{{K: "key", S: "a"}, {K: "key", S: "b"}, {K: "key", S: "a b"}, {K: "idx", I: 0}, {K: "idx", I: 1}, {K: "idx", I: -1}}
	var paths [][]refpath.Frag
	for _, s1 := range steps {
		paths = append(paths, []refpath.Frag{s1})
		for _, s2 := range steps {
			paths = append(paths, []refpath.Frag{s1, s2})
		}
	}
	for _, d := range docs {
		for _, p := range paths {
			for _, op := range []string{"set", "get", "has", "remove"} {
				if !yield(RSCase{Doc: d, Path: p, Op: op}) {
					return
				}
			}
		}
	}
}

func testRootStyle(t *testing.T) {
	h.RunProp(t, rootStyle, 0)
	if h.C.Shard == 0 {
		h.Enumerate(t, rootStyle, enumerateRootStyle)
	}
}

var _ = strings.TrimSpace
