package c20

import (
	"bytes"
	"fmt"
	"os"
	"path/filepath"
	"sort"
	"strings"
	"sync"
	"testing"

	"github.com/ohler55/slip/pkg/repl"

	"verif/harness/internal/h"
)

// The test binary doubles as the worker process (a fresh REPL process for the settings
// sessions and for real process deaths): the parent re-executes it with VERIF_C20_WORKER set.
func TestMain(m *testing.M) {
	if os.Getenv("VERIF_C20_WORKER") != "" {
		workerMain()
		os.Exit(0)
	}
	captureDefaults()
	repl.VerifHook = hook
	h.Main(m, "C20") // exits; scratch directories live under VERIF_WORK, which the driver removes
}

// ---------------------------------------------------------------- scratch directories

var (
	scratchOnce sync.Once
	scratchBase string
)

func base() string {
	scratchOnce.Do(func() {
		if w := os.Getenv("VERIF_WORK"); w != "" {
			scratchBase = filepath.Join(w, fmt.Sprintf("c20-%d", os.Getpid()))
			if err := os.MkdirAll(scratchBase, 0o755); err != nil {
				panic(err)
			}
			return
		}
		d, err := os.MkdirTemp("", "c20-verif-")
		if err != nil {
			panic(err)
		}
		scratchBase = d
	})
	return scratchBase
}

func cleanupScratch() {
	if scratchBase != "" {
		_ = os.RemoveAll(scratchBase)
	}
}

// newDir gives an empty directory base/<tag> (cases run one after the other, so the same few
// names are used again and again; the name is not part of any case).
func newDir(tag string) string {
	d := filepath.Join(base(), tag)
	_ = os.RemoveAll(d)
	if err := os.MkdirAll(d, 0o755); err != nil {
		panic(err)
	}
	return d
}

// ---------------------------------------------------------------- directory snapshots

// snap is the content of a configuration directory: the regular files in it. It is what a
// process death leaves behind when it happens at that moment (os.File is unbuffered, completed
// system calls persist, the kernel closes the descriptors).
type snap map[string][]byte

func takeSnap(dir string) snap {
	s := snap{}
	ents, err := os.ReadDir(dir)
	if err != nil {
		panic(err)
	}
	for _, e := range ents {
		if e.Type().IsRegular() {
			b, err := os.ReadFile(filepath.Join(dir, e.Name()))
			if err != nil {
				panic(err)
			}
			s[e.Name()] = b
		}
	}
	return s
}

func (s snap) names() []string {
	ns := make([]string, 0, len(s))
	for n := range s {
		ns = append(ns, n)
	}
	sort.Strings(ns)
	return ns
}

func (s snap) key() string {
	var b strings.Builder
	for _, n := range s.names() {
		fmt.Fprintf(&b, "%s\x00%d\x00", n, len(s[n]))
		b.Write(s[n])
	}
	return b.String()
}

func (s snap) equal(o snap) bool {
	if len(s) != len(o) {
		return false
	}
	for n, b := range s {
		ob, has := o[n]
		if !has || !bytes.Equal(b, ob) {
			return false
		}
	}
	return true
}

func (s snap) clone() snap {
	c := snap{}
	for n, b := range s {
		c[n] = append([]byte(nil), b...)
	}
	return c
}

func (s snap) String() string {
	var b strings.Builder
	for _, n := range s.names() {
		fmt.Fprintf(&b, "[%s: %q]", n, s[n])
	}
	return b.String()
}

// materialize makes dir contain exactly the files of s.
func materialize(dir string, s snap) {
	ents, err := os.ReadDir(dir)
	if err != nil {
		if err = os.MkdirAll(dir, 0o755); err != nil {
			panic(err)
		}
	}
	for _, e := range ents {
		if _, keep := s[e.Name()]; !keep {
			_ = os.RemoveAll(filepath.Join(dir, e.Name()))
		}
	}
	for n, b := range s {
		if err := os.WriteFile(filepath.Join(dir, n), b, 0o644); err != nil {
			panic(err)
		}
	}
}

// ---------------------------------------------------------------- the hook

// point is one file-system step passed by an operation.
type point struct {
	name string
	file string
	snap snap
}

var (
	recPoints *[]point // non-nil while an operation is being recorded
	recDir    string
	hookCount int64
)

// hook is installed as repl.VerifHook in the parent process. While recording it stores the
// directory as it is at this step.
func hook(p string, a any) {
	hookCount++
	if recPoints == nil {
		return
	}
	name, _ := a.(string)
	// Every file-system step is bracketed by a :before and an :after point, so at a :before point
	// the directory is what it was at the previous point (runCrash checks the assumption at the end
	// of every operation, and crash-real-death compares with real deaths).
	if n := len(*recPoints); n > 0 && strings.HasSuffix(p, ":before") {
		*recPoints = append(*recPoints, point{name: p, file: name, snap: (*recPoints)[n-1].snap})
		return
	}
	*recPoints = append(*recPoints, point{name: p, file: name, snap: takeSnap(recDir)})
}

func site(pointName string) string {
	if i := strings.IndexByte(pointName, ':'); i > 0 {
		return pointName[:i]
	}
	return pointName
}
