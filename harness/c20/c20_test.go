package c20

import (
	"fmt"
	"strings"
	"testing"

	"pgregory.net/rapid"

	"verif/harness/internal/h"
)

// ---------------------------------------------------------------- cross validation of the death model

// runCrashExit: the directory a process leaves behind when it really dies (os.Exit inside the
// hook, in a fresh process) at step At[0] of the whole sequence must be the directory content the
// parent recorded at that step - the crash enumeration works on those recorded contents.
func runCrashExit(c Case) *h.Result {
	res := &h.Result{}
	if tag := excluded(c); tag != "" {
		res.Skip = tag
		return res
	}
	dirA := newDir("live")
	r, err := newRunner(dirA, c.Limit)
	if err != "" {
		return h.Fail("%s", err)
	}
	var pts []point
	recPoints, recDir = &pts, dirA
	for _, op := range c.Ops {
		_ = r.apply(op) // judged by the other sub-properties
	}
	recPoints = nil
	if len(pts) == 0 || len(c.At) == 0 {
		return res
	}
	k := c.At[0] % len(pts)
	if k < 0 {
		k = -k
	}
	dirW := newDir("death")
	code, out := runWorker(job{Mode: "hist", Dir: dirW, Limit: c.Limit, HOps: c.Ops, Die: k + 1})
	if code != 137 {
		return h.Fail("the worker asked to die at step %d (%s) ended with exit code %d: %s", k, pts[k].name, code, tail(out, 300))
	}
	res.NonTrivial = nonTrivialSite(site(pts[k].name))
	res.Classes = []string{"real-death@" + pts[k].name}
	if got := takeSnap(dirW); !got.equal(pts[k].snap) {
		return h.Fail("a process that dies at step %d (%s) leaves %s, the recorded content is %s", k, pts[k].name, got, pts[k].snap)
	}
	return res
}

// ---------------------------------------------------------------- sub-properties

var (
	restart = h.Prop[Case]{Name: "restart", Gen: func(rt *rapid.T) Case { return genOps(rt, 60, false) }, Run: runRestart}
	// forms with literal TAB, CR, VT, FF: a class of its own so that a finding there does not mask the rest
	restartCtl = h.Prop[Case]{Name: "restart-ctl", Gen: func(rt *rapid.T) Case { return genOps(rt, 30, true) }, Run: runRestart}
	crash      = h.Prop[Case]{Name: "crash", Gen: func(rt *rapid.T) Case { return genOps(rt, 45, false) }, Run: runCrash}
	crashExit  = h.Prop[Case]{Name: "crash-real-death", Gen: func(rt *rapid.T) Case {
		c := genOps(rt, 25, false)
		c.At = []int{rapid.IntRange(0, 1000).Draw(rt, "step")}
		return c
	}, Run: runCrashExit}
	// files larger than the read buffer
	restartLong = h.Prop[Case]{Name: "restart-long", Gen: genLongOps, Run: runRestartLong}
	bufferGrid  = h.Prop[Case]{Name: "buffer-grid", Run: runRestartLong}
	settings    = h.Prop[SCase]{Name: "settings", Gen: genSettings, Run: runSettings}
	// enumerations
	clearGrid = h.Prop[Case]{Name: "clear-grid", Run: runCrash}
	limitGrid = h.Prop[Case]{Name: "limit-grid", Run: runCrash}
)

func form(i int) []string {
	switch i % 4 {
	case 1:
		return []string{fmt.Sprintf("(f%d", i), fmt.Sprintf("  %d)", i)}
	case 2:
		return []string{fmt.Sprintf(" (g %d) ", i)}
	case 3:
		return []string{fmt.Sprintf("(h%d", i), "", " λ)"}
	}
	return []string{fmt.Sprintf("(e%d)", i)}
}

func TestC20(t *testing.T) {
	h.Rule("a case is a sequence of REPL operations on an empty configuration directory: History.Add / clear-history (both entry points) / SetLimit (0-25, 1000; " +
		"start limit 3-20 so that the limit+10% compaction is reached often) / Stash.Add / clear-stash / restart, <= 60 operations, forms of 1-4 lines built from a table of " +
		"Lisp and non-Lisp pieces with blanks at both ends, empty lines, non-ASCII; a second class adds literal TAB, CR, VT, FF. " +
		"restart: after every operation the session's lists and the lists a fresh History.Load / Stash.LoadExpanded reads from the directory must equal the reference model (internal/refhist). " +
		"crash: for every operation the directory content is recorded at every hook point (before/after each open, write, close, rename, truncate = what a process death there leaves), " +
		"every distinct content is restored into a second directory, loaded (must be the list before or after the operation, for clear a prefix of the new list), and the remaining operations " +
		"are applied to what was recovered, ending with a restart check. settings: sessions of (setq <saved variable> <value>) run in fresh processes of the test binary, the next process must " +
		"start with exactly the settings made, every intermediate configuration file and every content at a hook point (plus the empty file os.WriteFile leaves between its open and its write) " +
		"is loaded as well, and sessions are killed (os.Exit inside the hook) at drawn steps. " +
		"Non-trivial: restart - the case has reached at least one compaction; crash point - inside a compaction, a clear or a configuration rewrite. " +
		"Distinct by (sequence) and, for crash points, by (sequence, operation index, step).")
	h.Assume("the os package and the file system behave as documented; a process death at a hook point leaves the directory as it is at that moment (checked against real os.Exit deaths in fresh processes by crash-real-death)")
	h.Assume("a write system call for one history line is not torn by a process death (power loss and torn writes are outside the property's quantifier)")
	h.Assume("os.WriteFile = open(O_CREATE|O_TRUNC), one write, close: a death between its open and its write is emulated by the empty file")
	h.Assume("intermediate configuration states are loaded inside the test process after resetting all saved variables to fresh-process values (verified on every use); session boundaries and every disagreement use a fresh process")

	// shard 0 of the thorough tier also does the enumerations and takes half the generated cases
	n := func(quick, thorough int) int {
		v := h.N(quick, thorough)
		if h.Thorough() && h.C.Shard == 0 && v > 1 {
			v /= 2
		}
		return v
	}
	h.RunProp(t, clearGrid, 0)
	h.RunProp(t, limitGrid, 0)
	h.RunProp(t, restart, n(600, 2000))
	h.RunProp(t, restartCtl, n(150, 600))
	h.RunProp(t, restartLong, n(60, 300))
	h.RunProp(t, bufferGrid, 0)
	h.RunProp(t, crash, n(50, 180))
	h.RunProp(t, crashExit, n(15, 30))
	h.RunProp(t, settings, n(16, 50))

	if h.C.Shard != 0 {
		return // the enumerations are done by shard 0 only
	}
	// every clear range over histories and stashes of 0..5 (thorough: 0..7) forms, with a death at every step
	maxLen, maxLimit := 5, 12
	if h.Thorough() {
		maxLen, maxLimit = 7, 25
	}
	h.Enumerate(t, clearGrid, func(yield func(Case) bool) {
		for _, kind := range []string{"clear", "clearp", "sclear"} {
			for n := 0; n <= maxLen; n++ {
				for a := -1; a <= n+1; a++ {
					for b := -1; b <= n+1; b++ {
						c := Case{Limit: 100}
						addKind := "add"
						if kind == "sclear" {
							addKind = "sadd"
						}
						for i := 0; i < n; i++ {
							c.Ops = append(c.Ops, Op{K: addKind, F: form(i)})
						}
						switch kind {
						case "clear":
							c.Ops = append(c.Ops, Op{K: "clear", A: a, B: b})
						case "clearp":
							c.Ops = append(c.Ops, Op{K: "clear", A: a, B: b, P: true})
						default:
							c.Ops = append(c.Ops, Op{K: "sclear", A: a, B: b})
						}
						c.At = []int{n} // deaths inside the clear only (those inside the adds are the same in every case)
						// two more forms afterwards and a restart between them: nothing comes back
						c.Ops = append(c.Ops, Op{K: addKind, F: form(90)}, Op{K: "restart"}, Op{K: addKind, F: form(91)})
						if !yield(c) {
							return
						}
					}
				}
			}
		}
	})
	// the end of the 4096 byte read buffer at every offset inside a form: a first form of 10+d bytes shifts everything
	// that follows by d, then three-line forms with non-ASCII text take the file over one (thorough: two) buffer ends,
	// with a restart after every form; the same for the stash
	h.Enumerate(t, bufferGrid, func(yield func(Case) bool) {
		maxD, forms := 72, 50
		if h.Thorough() {
			maxD, forms = 130, 95
		}
		for _, kind := range []string{"add", "sadd"} {
			for d := 0; d < maxD; d++ {
				c := Case{Limit: 1000}
				first := "(" + strings.Repeat("x", 10+d) + ")"
				c.Ops = append(c.Ops, Op{K: kind, F: []string{first}})
				for i := 0; i < forms; i++ {
					c.Ops = append(c.Ops, Op{K: kind, F: []string{fmt.Sprintf("(defun f%d (x)", i), "  ;; λ日本語 ñandú Ω≈ç", fmt.Sprintf("  (list x %d \"é%d\"))", i*7, i)}})
				}
				if !yield(c) {
					return
				}
			}
		}
	})
	// every limit 1..12 (thorough: 1..25): fill to two compactions and beyond, a death at every step
	// of every add, then go on to the following compactions
	h.Enumerate(t, limitGrid, func(yield func(Case) bool) {
		for limit := 1; limit <= maxLimit; limit++ {
			max := limit + limit/10
			c := Case{Limit: limit}
			n := 2*max + 3
			if n > 30 {
				n = max + 4
			}
			for i := 0; i < n; i++ {
				c.Ops = append(c.Ops, Op{K: "add", F: form(i)})
			}
			if !yield(c) {
				return
			}
		}
	})
}
