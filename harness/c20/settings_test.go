package c20

import (
	"encoding/json"
	"fmt"
	"os"
	"os/exec"
	"path/filepath"
	"strconv"
	"strings"
	"sync"

	"github.com/ohler55/slip"
	// all packages, as in the slip binary (the bag package owns two of the saved variables)
	_ "github.com/ohler55/slip/pkg"
	"github.com/ohler55/slip/pkg/repl"
	"pgregory.net/rapid"

	"verif/harness/internal/h"
	"verif/harness/internal/sx"
)

// ---------------------------------------------------------------- the saved variables

type varSpec struct {
	name  string
	kind  string // bool int str key strs
	ints  []int  // sample values for int
	nilOK bool   // nil is a documented value (no limit / no conversion)
}

// The variables whose set hook rewrites config.lisp: *print-...*, the two *bag-time-...* and the
// variables of the repl package. Left out: *repl-editor* (switches the terminal reader),
// *default-stash-name* and *stash-load-path* (load a stash from the home directory).
var watched = []varSpec{
	{name: "*print-base*", kind: "int", ints: []int{2, 3, 8, 10, 12, 16, 36}},
	{name: "*print-radix*", kind: "bool"},
	{name: "*print-right-margin*", kind: "int", ints: []int{1, 10, 40, 80, 120, 200}, nilOK: true},
	{name: "*print-length*", kind: "int", ints: []int{0, 1, 2, 3, 10}, nilOK: true},
	{name: "*print-level*", kind: "int", ints: []int{0, 1, 2, 5}, nilOK: true},
	{name: "*print-lines*", kind: "int", ints: []int{0, 1, 2, 10}, nilOK: true},
	{name: "*print-miser-width*", kind: "int", ints: []int{0, 10, 40, 80}},
	{name: "*print-prec*", kind: "int", ints: []int{-1, 1, 3, 8, 20}},
	{name: "*print-pretty*", kind: "bool"},
	{name: "*print-escape*", kind: "bool"},
	{name: "*print-readably*", kind: "bool"},
	{name: "*print-array*", kind: "bool"},
	{name: "*print-circle*", kind: "bool"},
	{name: "*print-gensym*", kind: "bool"},
	{name: "*print-lambda*", kind: "bool"},
	{name: "*print-ansi*", kind: "bool"},
	{name: "*print-case*", kind: "key", nilOK: true},
	{name: "*repl-history-limit*", kind: "int", ints: []int{0, 1, 5, 10, 12, 100, 1000, 2000}},
	{name: "*repl-help-box*", kind: "bool"},
	{name: "*repl-debug*", kind: "bool"},
	{name: "*repl-eval-on-close*", kind: "bool"},
	{name: "*repl-prompt*", kind: "str"},
	{name: "*repl-warning-prefix*", kind: "str"},
	{name: "*repl-match-color*", kind: "str"},
	{name: "*repl-external-editor*", kind: "str"},
	{name: "*repl-editor-flags*", kind: "strs"},
	{name: "*bag-time-format*", kind: "str", nilOK: true},
	{name: "*bag-time-wrap*", kind: "str", nilOK: true},
}

func spec(name string) *varSpec {
	for i := range watched {
		if watched[i].name == name {
			return &watched[i]
		}
	}
	return nil
}

// Val is a setting value in the harness's own terms.
type Val struct {
	K string   `json:"k"` // nil t int str key strs
	I int      `json:"i,omitempty"`
	S string   `json:"s,omitempty"`
	L []string `json:"l,omitempty"`
}

// text is the canonical text the harness expects sx.Typed to give for the variable afterwards.
func (v Val) text(sp *varSpec) string {
	switch v.K {
	case "nil":
		return "nil"
	case "t":
		return "t"
	case "int":
		return "fix:" + strconv.Itoa(v.I)
	case "str":
		if v.S == "" && sp != nil && sp.nilOK {
			return "nil" // the bag time variables read an empty string back as nil
		}
		return strconv.Quote(v.S)
	case "key":
		return ":" + v.S
	case "strs":
		if len(v.L) == 0 {
			return "nil"
		}
		parts := make([]string, len(v.L))
		for i, s := range v.L {
			parts[i] = strconv.Quote(s)
		}
		return "(" + strings.Join(parts, " ") + ")"
	}
	return "?" + v.K
}

func lispString(s string) string {
	return `"` + strings.NewReplacer(`\`, `\\`, `"`, `\"`).Replace(s) + `"`
}

// source is the Lisp text the user types for the value.
func (v Val) source() string {
	switch v.K {
	case "nil":
		return "nil"
	case "t":
		return "t"
	case "int":
		return strconv.Itoa(v.I)
	case "str":
		return lispString(v.S)
	case "key":
		return ":" + v.S
	case "strs":
		if len(v.L) == 0 {
			return "nil"
		}
		parts := make([]string, len(v.L))
		for i, s := range v.L {
			parts[i] = lispString(s)
		}
		return "(list " + strings.Join(parts, " ") + ")"
	}
	return "nil"
}

// object is the value as a slip object.
func (v Val) object() slip.Object {
	switch v.K {
	case "t":
		return slip.True
	case "int":
		return slip.Fixnum(v.I)
	case "str":
		return slip.String(v.S)
	case "key":
		return slip.Symbol(":" + v.S)
	case "strs":
		if len(v.L) == 0 {
			return nil
		}
		l := make(slip.List, len(v.L))
		for i, s := range v.L {
			l[i] = slip.String(s)
		}
		return l
	}
	return nil
}

// SetOp is (setq Var Val) typed at the REPL.
type SetOp struct {
	Var string `json:"var"`
	Val Val    `json:"val"`
}

// Die asks the session to die (os.Exit in the middle of the file update) at its K-th
// file-system step, counted over the whole session from 1.
type Die struct {
	K int `json:"k"`
}

// SCase is a sequence of REPL sessions on one configuration directory, each a fresh process.
type SCase struct {
	Segs [][]SetOp `json:"segs"`
	Die  []Die     `json:"die,omitempty"` // per session; K == 0: the session ends normally
}

// ---------------------------------------------------------------- reading the variables

func readVals() map[string]string {
	vals := map[string]string{}
	for _, sp := range watched {
		func() {
			defer func() {
				if r := recover(); r != nil {
					vals[sp.name] = fmt.Sprintf("<%v>", r)
				}
			}()
			vals[sp.name] = sx.Typed(repl.Scope().Get(slip.Symbol(sp.name)))
		}()
	}
	return vals
}

func diffVals(got, want map[string]string) string {
	var ds []string
	for _, sp := range watched {
		if got[sp.name] != want[sp.name] {
			ds = append(ds, fmt.Sprintf("%s is %s, set to %s", sp.name, got[sp.name], want[sp.name]))
		}
	}
	return strings.Join(ds, "; ")
}

func cloneVals(m map[string]string) map[string]string {
	c := make(map[string]string, len(m))
	for k, v := range m {
		c[k] = v
	}
	return c
}

// ---------------------------------------------------------------- the worker process

type job struct {
	Mode  string  `json:"mode"` // settings | hist
	Dir   string  `json:"dir"`
	Out   string  `json:"out"`
	Ops   []SetOp `json:"ops,omitempty"`
	Die   int     `json:"die,omitempty"`
	Limit int     `json:"limit,omitempty"`
	HOps  []Op    `json:"hops,omitempty"`
}

type wPoint struct {
	Name  string `json:"name"`
	Files snap   `json:"files"`
}

type wStep struct {
	Err    string            `json:"err,omitempty"`
	Vals   map[string]string `json:"vals"`
	Files  snap              `json:"files"`
	Points []wPoint          `json:"points"`
}

type wReport struct {
	LoadPanic string            `json:"load_panic,omitempty"`
	Loaded    map[string]string `json:"loaded"`
	Steps     []wStep           `json:"steps"`
	DiedOp    int               `json:"died_op"` // -1: the session ended normally
	DiedAt    string            `json:"died_at,omitempty"`
	Points    int               `json:"points"`
}

func writeReport(path string, rep any) {
	b, err := json.Marshal(rep)
	if err != nil {
		panic(err)
	}
	if err = os.WriteFile(path, b, 0o644); err != nil {
		panic(err)
	}
}

func workerMain() {
	b, err := os.ReadFile(os.Getenv("VERIF_C20_JOB"))
	if err != nil {
		fmt.Fprintln(os.Stderr, "worker:", err)
		os.Exit(4)
	}
	var j job
	if err = json.Unmarshal(b, &j); err != nil {
		fmt.Fprintln(os.Stderr, "worker:", err)
		os.Exit(4)
	}
	switch j.Mode {
	case "settings":
		settingsWorker(j)
	case "hist":
		histWorker(j)
	default:
		os.Exit(4)
	}
}

// emulated death inside os.WriteFile: it opens with O_CREATE|O_TRUNC, writes once and closes, so
// a death between its open and its write leaves the file empty.
const truncSuffix = "+opened"

func settingsWorker(j job) {
	rep := wReport{DiedOp: -1}
	cur := -1
	var step *wStep
	die := func(name, file string, truncate bool) {
		rep.DiedOp, rep.DiedAt = cur, name
		rep.Steps = append(rep.Steps, *step)
		writeReport(j.Out, rep)
		if truncate {
			f, err := os.OpenFile(file, os.O_WRONLY|os.O_CREATE|os.O_TRUNC, 0o666)
			if err == nil {
				_ = f.Close()
			}
		}
		os.Exit(137)
	}
	repl.VerifHook = func(p string, a any) {
		if cur < 0 {
			return
		}
		file, _ := a.(string)
		s := takeSnap(j.Dir)
		rep.Points++
		step.Points = append(step.Points, wPoint{Name: p, Files: s})
		if rep.Points == j.Die {
			die(p, file, false)
		}
		if strings.HasSuffix(p, ":writefile:before") && filepath.Dir(file) == j.Dir {
			s2 := s.clone()
			s2[filepath.Base(file)] = []byte{}
			rep.Points++
			step.Points = append(step.Points, wPoint{Name: p + truncSuffix, Files: s2})
			if rep.Points == j.Die {
				die(p+truncSuffix, file, true)
			}
		}
	}
	rep.LoadPanic = guard("SetConfigDir", func() { repl.SetConfigDir(j.Dir) })
	rep.Loaded = readVals()
	if rep.LoadPanic == "" {
		for i, op := range j.Ops {
			cur = i
			step = &wStep{}
			// the value is handed over as an object so that the check does not depend on how the
			// reader treats what the user typed; the setq itself is evaluated as at the REPL
			repl.Scope().Let(slip.Symbol("c20-value"), op.Val.object())
			src := "(setq " + op.Var + " c20-value)"
			step.Err = guard("(setq "+op.Var+" "+op.Val.source()+")", func() {
				for _, o := range slip.ReadString(src, repl.Scope()) {
					_ = o.Eval(repl.Scope(), 0)
				}
			})
			step.Vals = readVals()
			step.Files = takeSnap(j.Dir)
			rep.Steps = append(rep.Steps, *step)
		}
	}
	writeReport(j.Out, rep)
}

// histWorker performs history/stash operations and really dies (os.Exit) at step Die.
func histWorker(j job) {
	n := 0
	repl.VerifHook = func(p string, a any) {
		n++
		if n == j.Die {
			os.Exit(137)
		}
	}
	r, err := newRunner(j.Dir, j.Limit)
	if err != "" {
		fmt.Fprintln(os.Stderr, "worker:", err)
		os.Exit(5)
	}
	for _, op := range j.HOps {
		_ = r.apply(op) // the parent judges; the worker only has to pass the same steps
	}
}

// runWorker starts a fresh process of this binary. It returns the exit code.
func runWorker(j job) (int, string) {
	jobFile := filepath.Join(base(), "job.json")
	b, _ := json.Marshal(j)
	if err := os.WriteFile(jobFile, b, 0o644); err != nil {
		panic(err)
	}
	bin := os.Getenv("VERIF_BIN")
	if bin == "" {
		bin, _ = os.Executable()
	}
	cmd := exec.Command(bin)
	cmd.Env = append(os.Environ(), "VERIF_C20_WORKER=1", "VERIF_C20_JOB="+jobFile)
	cmd.Dir = base()
	out, err := cmd.CombinedOutput() // stdin is closed (the null device)
	code := 0
	if err != nil {
		code = -1
		if ee, ok := err.(*exec.ExitError); ok {
			code = ee.ExitCode()
		}
	}
	return code, string(out)
}

func runSettingsWorker(dir string, ops []SetOp, die int) (*wReport, string) {
	out := filepath.Join(base(), "report.json")
	_ = os.Remove(out)
	code, text := runWorker(job{Mode: "settings", Dir: dir, Out: out, Ops: ops, Die: die})
	if code != 0 && code != 137 {
		return nil, fmt.Sprintf("the REPL process ended with exit code %d: %s", code, tail(text, 400))
	}
	b, err := os.ReadFile(out)
	if err != nil {
		return nil, fmt.Sprintf("the REPL process (exit code %d) left no report: %s", code, tail(text, 400))
	}
	var rep wReport
	if err = json.Unmarshal(b, &rep); err != nil {
		return nil, "bad worker report: " + err.Error()
	}
	return &rep, ""
}

func tail(s string, n int) string {
	if len(s) > n {
		return "..." + s[len(s)-n:]
	}
	return s
}

// ---------------------------------------------------------------- restart inside the parent process

var (
	defaultObjs = map[string]slip.Object{}
	defaultVals map[string]string
)

// captureDefaults is called before anything else: the values of a fresh process.
func captureDefaults() {
	for _, sp := range watched {
		defaultObjs[sp.name] = repl.Scope().Get(slip.Symbol(sp.name))
	}
	defaultVals = readVals()
}

// resetGlobals puts the saved variables back to the values of a fresh process and forgets which
// were modified, writing into a dummy directory while doing so.
func resetGlobals() {
	dummy := newDir("dummy")
	repl.SetConfigDir(dummy)
	now := readVals()
	for _, sp := range watched {
		if now[sp.name] != defaultVals[sp.name] {
			repl.Scope().Set(slip.Symbol(sp.name), defaultObjs[sp.name])
		}
	}
	repl.ZeroMods()
	if d := diffVals(readVals(), defaultVals); d != "" {
		panic("harness: cannot reset the saved variables: " + d)
	}
}

// reloadInProc starts "a REPL" on the given directory content inside this process: all saved
// variables at their fresh-process values, then SetConfigDir. Used for the many intermediate
// states; every session boundary uses a real fresh process, and a disagreement found here is
// confirmed with a fresh process before it is reported.
func reloadInProc(files snap) (vals map[string]string, perr string) {
	resetGlobals()
	dir := newDir("reload")
	materialize(dir, files)
	perr = guard("SetConfigDir", func() { repl.SetConfigDir(dir) })
	vals = readVals()
	resetGlobals()
	return
}

// reloadFresh does the same with a fresh process.
func reloadFresh(files snap) (vals map[string]string, perr string) {
	dir := newDir("reloadf")
	materialize(dir, files)
	rep, err := runSettingsWorker(dir, nil, 0)
	if err != "" {
		return nil, err
	}
	return rep.Loaded, rep.LoadPanic
}

// loadsAs checks that a start on files gives one of the acceptable settings; it returns "" or a
// description of what the start gives instead.
func loadsAs(files snap, accept ...map[string]string) string {
	check := func(vals map[string]string, perr string) string {
		if perr != "" {
			return "the start fails: " + perr
		}
		var d string
		for _, a := range accept {
			if d = diffVals(vals, a); d == "" {
				return ""
			}
		}
		return d
	}
	if d := check(reloadInProc(files)); d == "" {
		return ""
	}
	h.Class("settings:confirmed-by-fresh-process", 1)
	return check(reloadFresh(files))
}

var (
	freshOnce     sync.Once
	freshDefaults map[string]string
	freshErr      string
)

// freshProcessDefaults: what a REPL process started on an empty directory reports.
func freshProcessDefaults() (map[string]string, string) {
	freshOnce.Do(func() {
		rep, err := runSettingsWorker(newDir("defaults"), nil, 0)
		if err != "" {
			freshErr = err
			return
		}
		if rep.LoadPanic != "" {
			freshErr = "start on an empty directory fails: " + rep.LoadPanic
			return
		}
		freshDefaults = rep.Loaded
	})
	return freshDefaults, freshErr
}

// ---------------------------------------------------------------- the settings property

func runSettings(c SCase) *h.Result {
	res := &h.Result{}
	defaults, err := freshProcessDefaults()
	if err != "" {
		return h.Fail("%s", err)
	}
	if d := diffVals(defaultVals, defaults); d != "" {
		return h.Fail("harness: the parent's defaults differ from a fresh process: %s", d)
	}
	dir := newDir("config")
	m := cloneVals(defaults)
	var pending []map[string]string // after a death: the acceptable states
	startCheck := func(rep *wReport, s int) string {
		if rep.LoadPanic != "" {
			return fmt.Sprintf("session %d: the REPL cannot start: %s; config.lisp: %q", s, rep.LoadPanic, takeSnap(dir)["config.lisp"])
		}
		if pending == nil {
			if d := diffVals(rep.Loaded, m); d != "" {
				return fmt.Sprintf("session %d starts with %s; config.lisp: %q", s, d, takeSnap(dir)["config.lisp"])
			}
			return ""
		}
		var d string
		for _, p := range pending {
			if d = diffVals(rep.Loaded, p); d == "" {
				m = cloneVals(p)
				pending = nil
				return ""
			}
		}
		return fmt.Sprintf("session %d, started after the death of the previous one, has neither the settings before nor after the interrupted change: %s; config.lisp: %q", s, d, takeSnap(dir)["config.lisp"])
	}
	for s, seg := range c.Segs {
		die := 0
		if s < len(c.Die) {
			die = c.Die[s].K
		}
		rep, werr := runSettingsWorker(dir, seg, die)
		if werr != "" {
			return h.Fail("session %d: %s", s, werr)
		}
		res.Evals++
		if e := startCheck(rep, s); e != "" {
			return h.Fail("%s", e)
		}
		for jx, st := range rep.Steps {
			op := seg[jx]
			sp := spec(op.Var)
			pre := cloneVals(m)
			post := cloneVals(m)
			post[op.Var] = op.Val.text(sp)
			where := fmt.Sprintf("session %d op %d (setq %s %s)", s, jx, op.Var, op.Val.source())
			h.Class("set:"+op.Var, 1)
			seen := map[string]bool{}
			for k, pt := range st.Points {
				h.Class("crash@"+pt.Name, 1)
				if key := pt.Files.key(); seen[key] {
					continue // the same directory content as at an earlier step of this operation
				} else {
					seen[key] = true
				}
				res.Evals++
				res.NonTrivial = true // a death inside a rewrite of the configuration file
				if d := loadsAs(pt.Files, pre, post); d != "" {
					return h.Fail("%s: a death at step %d (%s) leaves a configuration with neither the old nor the new settings: %s; config.lisp: %q", where, k, pt.Name, d, pt.Files["config.lisp"])
				}
			}
			if rep.DiedOp == jx {
				pending = []map[string]string{pre, post}
				h.Class("settings:real-death@"+rep.DiedAt, 1)
				break
			}
			if st.Err != "" {
				return h.Fail("%s fails: %s", where, st.Err)
			}
			if d := diffVals(st.Vals, post); d != "" {
				return h.Fail("%s: in the session afterwards %s", where, d)
			}
			res.Evals++
			if d := loadsAs(st.Files, post); d != "" {
				return h.Fail("%s: a restart afterwards: %s; config.lisp: %q", where, d, st.Files["config.lisp"])
			}
			m = post
		}
	}
	// the last restart
	rep, werr := runSettingsWorker(dir, nil, 0)
	if werr != "" {
		return h.Fail("final restart: %s", werr)
	}
	res.Evals++
	if e := startCheck(rep, len(c.Segs)); e != "" {
		return h.Fail("%s", e)
	}
	return res
}

// ---------------------------------------------------------------- generator

var (
	strPieces = []string{"a", "b", "slip", " ", " ", "> ", "λ", "é", "日本", "😀", `"`, `\`, "\n", "\t", "\x1b[1m", "\x1b[31m", "\x1b[m",
		";", "(", ")", "|", "#", "~a", "'", ",", "%Y-%m-%d", "2006-01-02T15:04:05Z07:00", "@", "-nw", "--flag=1"}
)

func genStr(rt *rapid.T, minPieces int) string {
	n := rapid.IntRange(minPieces, 4).Draw(rt, "nstr")
	var b strings.Builder
	for i := 0; i < n; i++ {
		b.WriteString(rapid.SampledFrom(strPieces).Draw(rt, "strpiece"))
	}
	return b.String()
}

func genVal(rt *rapid.T, sp *varSpec) Val {
	if sp.nilOK && rapid.IntRange(0, 4).Draw(rt, "nil") == 0 {
		return Val{K: "nil"}
	}
	switch sp.kind {
	case "bool":
		if rapid.Bool().Draw(rt, "bool") {
			return Val{K: "t"}
		}
		return Val{K: "nil"}
	case "int":
		return Val{K: "int", I: rapid.SampledFrom(sp.ints).Draw(rt, "int")}
	case "key":
		return Val{K: "key", S: rapid.SampledFrom([]string{"upcase", "downcase", "capitalize"}).Draw(rt, "case")}
	case "str":
		min := 0
		if sp.nilOK {
			min = 1
		}
		return Val{K: "str", S: genStr(rt, min)}
	case "strs":
		n := rapid.IntRange(0, 4).Draw(rt, "nflags")
		v := Val{K: "strs"}
		for i := 0; i < n; i++ {
			v.L = append(v.L, genStr(rt, 0))
		}
		return v
	}
	return Val{K: "nil"}
}

func genSettings(rt *rapid.T) SCase {
	var c SCase
	nseg := rapid.IntRange(1, 3).Draw(rt, "nsessions")
	for s := 0; s < nseg; s++ {
		n := rapid.IntRange(1, 5).Draw(rt, "nops")
		var seg []SetOp
		for i := 0; i < n; i++ {
			sp := &watched[rapid.IntRange(0, len(watched)-1).Draw(rt, "var")]
			seg = append(seg, SetOp{Var: sp.name, Val: genVal(rt, sp)})
		}
		c.Segs = append(c.Segs, seg)
		d := Die{}
		if rapid.IntRange(0, 2).Draw(rt, "dies") == 0 {
			d.K = rapid.IntRange(1, 6*n).Draw(rt, "dieat")
		}
		c.Die = append(c.Die, d)
	}
	return c
}
