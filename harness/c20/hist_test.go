package c20

import (
	"fmt"
	"hash/fnv"
	"os"
	"path/filepath"
	"runtime"
	"strings"

	"github.com/ohler55/slip/pkg/repl"
	"pgregory.net/rapid"

	"verif/harness/internal/h"
	"verif/harness/internal/refhist"
)

// Op is one thing the user does in a session.
//
//	add     enter form F (History.Add)
//	clear   clear-history from A to B; P selects the embedded stash's Clear, which is what the
//	        clear-history function calls, instead of History.Clear
//	limit   set *repl-history-limit* to A (History.SetLimit)
//	sadd    stash form F (Stash.Add)
//	sclear  clear-stash from A to B
//	restart leave the REPL and start it again on the same directory
type Op struct {
	K string   `json:"k"`
	F []string `json:"f,omitempty"`
	A int      `json:"a,omitempty"`
	B int      `json:"b,omitempty"`
	P bool     `json:"p,omitempty"`
}

// Case is a sequence of operations starting from an empty configuration directory.
type Case struct {
	Limit int  `json:"limit"`
	Ops   []Op `json:"ops"`
	// At restricts the crash enumeration to operation At[0] (and, with a second element, to its
	// At[1]-th file-system step); used by witnesses and to name the failing point.
	At []int `json:"at,omitempty"`
}

func (o Op) String() string {
	switch o.K {
	case "add", "sadd":
		return fmt.Sprintf("%s %q", o.K, o.F)
	case "clear", "sclear":
		return fmt.Sprintf("%s %d %d p=%v", o.K, o.A, o.B, o.P)
	case "limit":
		return fmt.Sprintf("limit %d", o.A)
	}
	return o.K
}

// ---------------------------------------------------------------- slip side

const (
	histFile  = "history"
	stashFile = "stash.lisp"
)

// sess is a running REPL session as far as remembering goes: a history and a stash bound to the
// files of a configuration directory.
type sess struct {
	dir string
	h   *repl.History
	s   *repl.Stash
}

func guard(what string, fn func()) (err string) {
	defer func() {
		if r := recover(); r != nil {
			err = fmt.Sprintf("%s panics: %v", what, r)
		}
	}()
	fn()
	return
}

var opens int

// openSess is what starting the REPL does: new objects, loaded from the directory.
func openSess(dir string, limit int) (se *sess, err string) {
	// History.Load and Stash.LoadExpanded never close the file they read; the descriptors are only
	// released when the garbage collector finalizes the os.File values. A REPL loads once, the
	// harness loads hundreds of thousands of times, so it collects regularly.
	if opens++; opens%300 == 0 {
		runtime.GC()
	}
	se = &sess{dir: dir, h: &repl.History{}, s: &repl.Stash{}}
	err = guard("loading the history", func() {
		se.h.SetLimit(limit)
		se.h.Load(filepath.Join(dir, histFile))
	})
	if err == "" {
		err = guard("loading the stash", func() { se.s.LoadExpanded(filepath.Join(dir, stashFile)) })
	}
	return
}

func toForm(lines []string) repl.Form {
	f := make(repl.Form, len(lines))
	for i, l := range lines {
		f[i] = []rune(l)
	}
	return f
}

// scribble overwrites the caller's form in place after it was handed over: the line editor goes on using its buffers,
// what the history and the stash remember must be their own copy.
func scribble(f repl.Form) {
	for _, line := range f {
		for i := range line {
			line[i] = '#'
		}
	}
}

// listForms reads a stash (or the stash inside a history) oldest first through Size and Nth.
func listForms(st *repl.Stash) []refhist.Form {
	n := st.Size()
	out := make([]refhist.Form, 0, n)
	for i := n - 1; i >= 0; i-- {
		f := st.Nth(i)
		rf := make(refhist.Form, len(f))
		for j, l := range f {
			rf[j] = string(l)
		}
		out = append(out, rf)
	}
	return out
}

func show(l []refhist.Form) string {
	var b strings.Builder
	b.WriteByte('[')
	for i, f := range l {
		if i > 0 {
			b.WriteByte(' ')
		}
		fmt.Fprintf(&b, "%q", []string(f))
	}
	b.WriteByte(']')
	return b.String()
}

// ---------------------------------------------------------------- session + model in lock step

type runner struct {
	se        *sess
	m         *refhist.Model
	compacted bool // the last operation cut the history back
	added     bool // the last operation entered a form into the history
}

func newRunner(dir string, limit int) (*runner, string) {
	se, err := openSess(dir, limit)
	return &runner{se: se, m: &refhist.Model{Limit: limit}}, err
}

// apply performs op on slip and on the model and compares what the session now remembers
// (in memory) with the model.
func (r *runner) apply(op Op) string {
	r.compacted, r.added = false, false
	var err string
	switch op.K {
	case "add":
		err = guard("History.Add", func() { f := toForm(op.F); r.se.h.Add(f); scribble(f) })
		before := len(r.m.Hist)
		r.compacted = r.m.HistAdd(refhist.Form(op.F))
		r.added = r.compacted || len(r.m.Hist) != before // not ignored as empty or repeated
	case "sadd":
		err = guard("Stash.Add", func() { f := toForm(op.F); r.se.s.Add(f); scribble(f) })
		r.m.StashAdd(refhist.Form(op.F))
	case "limit":
		err = guard("History.SetLimit", func() { r.se.h.SetLimit(op.A) })
		r.m.Limit = op.A
	case "clear", "sclear":
		list := &r.m.Hist
		st := &r.se.h.Stash
		what := "clear-history"
		if op.K == "sclear" {
			list, st, what = &r.m.Stash, r.se.s, "clear-stash"
		}
		fromOldest, fromRecent, n := refhist.ClearRange(*list, op.A, op.B)
		err = guard(what, func() {
			switch {
			case op.K == "sclear":
				r.se.s.Clear(op.A, op.B)
			case op.P:
				r.se.h.Stash.Clear(op.A, op.B)
			default:
				r.se.h.Clear(op.A, op.B)
			}
		})
		if err != "" {
			return err
		}
		got := listForms(st)
		switch {
		case refhist.Same(got, fromRecent):
			*list = fromRecent
		case refhist.Same(got, fromOldest):
			*list = fromOldest
		default:
			return fmt.Sprintf("%s %d %d on %s (must remove %d forms: entries %d..%d counted from the oldest, giving %s, or from the most recent, giving %s) left %s",
				what, op.A, op.B, show(*list), n, op.A, op.B, show(fromOldest), show(fromRecent), show(got))
		}
	case "restart":
		var se *sess
		if se, err = openSess(r.se.dir, r.m.Limit); err == "" {
			r.se = se
		}
	default:
		return "unknown op " + op.K
	}
	if err != "" {
		return err
	}
	return r.memCheck("after " + op.String())
}

func (r *runner) memCheck(when string) string {
	if got := listForms(&r.se.h.Stash); !refhist.Same(got, r.m.Hist) {
		return fmt.Sprintf("%s the session's history is %s, entered (limit %d): %s", when, show(got), r.m.Limit, show(r.m.Hist))
	}
	if got := listForms(r.se.s); !refhist.Same(got, r.m.Stash) {
		return fmt.Sprintf("%s the session's stash is %s, entered: %s", when, show(got), show(r.m.Stash))
	}
	return ""
}

// reloadCheck is oracle 1: a REPL started now on the directory must load exactly the model.
func (r *runner) reloadCheck(when string) string {
	se, err := openSess(r.se.dir, r.m.Limit)
	if err != "" {
		return when + ": restart: " + err
	}
	hist, stash := listForms(&se.h.Stash), listForms(se.s)
	if !refhist.Same(hist, r.m.Hist) {
		return fmt.Sprintf("%s a restart loads the history %s, entered (limit %d): %s; files %s", when, show(hist), r.m.Limit, show(r.m.Hist), takeSnap(r.se.dir))
	}
	if !refhist.Same(stash, r.m.Stash) {
		return fmt.Sprintf("%s a restart loads the stash %s, entered: %s; files %s", when, show(stash), show(r.m.Stash), takeSnap(r.se.dir))
	}
	// the bound, stated without the model: once a form has been entered under a positive limit the
	// history holds at most limit + 10% forms
	if r.added && r.m.Limit > 0 && len(hist) > r.m.Limit+(r.m.Limit+9)/10 {
		return fmt.Sprintf("%s a restart loads %d forms, limit %d", when, len(hist), r.m.Limit)
	}
	return ""
}

// ---------------------------------------------------------------- exclusions of open findings

// hasTab: some line of an entered form contains a literal TAB (finding: the history and stash
// files use TAB as the line separator and have no escape for it).
func hasTab(ops []Op) bool {
	for _, o := range ops {
		for _, l := range o.F {
			if strings.ContainsRune(l, '\t') {
				return true
			}
		}
	}
	return false
}

func excluded(c Case) string {
	if hasTab(c.Ops) && h.ExclOn("tab-in-line") {
		return "tab-in-line"
	}
	return ""
}

// ---------------------------------------------------------------- oracle 1: restart after every operation

func runRestart(c Case) *h.Result { return runRestartMode(c, false) }

// runRestartLong: the same oracle; a case counts as non-trivial when a restart had to load a history or stash file
// larger than the 4096 byte buffer the files are read through.
func runRestartLong(c Case) *h.Result { return runRestartMode(c, true) }

func runRestartMode(c Case, long bool) *h.Result {
	res := &h.Result{}
	if tag := excluded(c); tag != "" {
		res.Skip = tag
		return res
	}
	dir := newDir("restart")
	r, err := newRunner(dir, c.Limit)
	if err != "" {
		return h.Fail("%s", err)
	}
	kinds := map[string]bool{}
	for i, op := range c.Ops {
		if err = r.apply(op); err != "" {
			return h.Fail("op %d: %s", i, err)
		}
		if err = r.reloadCheck(fmt.Sprintf("op %d: after %s", i, op)); err != "" {
			return h.Fail("%s", err)
		}
		res.Evals++
		kinds[op.K] = true
		formClasses(op, c.Ops, i)
		if r.compacted {
			kinds["compaction"] = true
		}
		if !long && r.m.Compactions > 0 {
			res.NonTrivial = true // restarts after at least one compaction
		}
		if long {
			for _, fn := range []string{histFile, stashFile} {
				if fi, e := os.Stat(filepath.Join(dir, fn)); e == nil && fi.Size() > 4096 {
					res.NonTrivial = true
					if !kinds["big-"+fn] {
						kinds["big-"+fn] = true
					}
					if fi.Size() > 8192 {
						kinds["two-buffers-"+fn] = true
					}
				}
			}
		}
	}
	for k := range kinds {
		res.Classes = append(res.Classes, "restart:has-"+k)
	}
	return res
}

// formClasses tallies what the generated forms look like (evidence only).
func formClasses(op Op, ops []Op, i int) {
	if op.K != "add" && op.K != "sadd" {
		return
	}
	f := refhist.Form(op.F)
	h.Class("form:"+op.K, 1)
	if len(f) > 1 {
		h.Class("form:multi-line", 1)
	}
	if f.Empty() {
		h.Class("form:empty", 1)
		return
	}
	for j := i - 1; j >= 0; j-- {
		if ops[j].K == op.K {
			if refhist.Form(ops[j].F).Equal(f) {
				h.Class("form:same-as-previous", 1)
			}
			break
		}
	}
	first, last := f[0], f[len(f)-1]
	if strings.HasPrefix(first, " ") || strings.HasSuffix(last, " ") {
		h.Class("form:blank-at-an-end", 1)
	}
	if len(f) > 1 && (strings.TrimSpace(first) == "" || strings.TrimSpace(last) == "") {
		h.Class("form:empty-first-or-last-line", 1)
	}
	for k, l := range f {
		if l == "" && k > 0 && k < len(f)-1 {
			h.Class("form:empty-inner-line", 1)
			break
		}
	}
	for _, l := range f {
		if strings.IndexFunc(l, func(r rune) bool { return r > 127 }) >= 0 {
			h.Class("form:non-ascii", 1)
			break
		}
	}
	for _, l := range f {
		if strings.ContainsAny(l, "\t\r\v\f") {
			h.Class("form:control-character", 1)
			break
		}
	}
}

// ---------------------------------------------------------------- oracle 2: a death at every file-system step

// crashID identifies one crash point for the distinct count.
type crashID struct {
	H uint64 `json:"h"`
	I int    `json:"i"`
	K int    `json:"k"`
}

func caseHash(c Case) uint64 {
	hh := fnv.New64a()
	fmt.Fprintf(hh, "%d", c.Limit)
	for _, o := range c.Ops {
		fmt.Fprintf(hh, "|%s|%q|%d|%d|%v", o.K, o.F, o.A, o.B, o.P)
	}
	return hh.Sum64()
}

func nonTrivialSite(s string) bool {
	return s == "history.compact" || s == "history.clear" || s == "stash.clear"
}

func runCrash(c Case) *h.Result {
	res := &h.Result{}
	if tag := excluded(c); tag != "" {
		res.Skip = tag
		return res
	}
	dirA := newDir("live")
	dirB := newDir("crash")
	r, err := newRunner(dirA, c.Limit)
	if err != "" {
		return h.Fail("%s", err)
	}
	ch := caseHash(c)
	for i, op := range c.Ops {
		pre := r.m.Clone()
		var pts []point
		recPoints, recDir = &pts, dirA
		err = r.apply(op)
		recPoints = nil
		if err != "" {
			return h.Fail("op %d: %s", i, err)
		}
		if err = r.reloadCheck(fmt.Sprintf("op %d: after %s", i, op)); err != "" {
			return h.Fail("%s", err)
		}
		if len(c.At) > 0 && c.At[0] != i {
			continue
		}
		if n := len(pts); n > 0 {
			if end := takeSnap(dirA); !end.equal(pts[n-1].snap) {
				// a file-system step that no hook point brackets: still a place to die
				pts = append(pts, point{name: site(pts[n-1].name) + ":unhooked:after", snap: end})
			}
		}
		post := r.m.Clone()
		seen := map[string]bool{}
		for k, pt := range pts {
			if len(c.At) > 1 && c.At[1] != k {
				continue
			}
			key := pt.snap.key()
			if seen[key] {
				continue // the same directory content as at an earlier step of this operation
			}
			seen[key] = true
			res.Evals++
			nt := nonTrivialSite(site(pt.name))
			if nt {
				res.NonTrivial = true
			}
			h.Account("crash-points", crashID{ch, i, k}, &h.Result{NonTrivial: nt, Classes: []string{"crash@" + pt.name}})
			if err = crashAt(c, i, pt, pre, post, dirB); err != "" {
				return h.Fail("death at step %d (%s) of op %d (%s): %s [replay with \"at\":[%d,%d]]", k, pt.name, i, op, err, i, k)
			}
		}
	}
	return res
}

// tailOps bounds how many of the remaining operations are applied to a recovered directory. Under
// the limits generated (<= 25) a compaction follows every second entered form at the latest, so
// the next compactions - where a left-over temporary file matters - are always inside the bound.
const tailOps = 10

// crashAt: the process died at step pt of operation i. The next start must load a consistent
// state, and the rest of the operations, applied to what was recovered, must end in a state
// that a restart loads back exactly (nothing duplicated or resurrected later).
func crashAt(c Case, i int, pt point, pre, post *refhist.Model, dir string) string {
	materialize(dir, pt.snap)
	se, err := openSess(dir, post.Limit)
	if err != "" {
		return "the next start fails: " + err + "; files " + pt.snap.String()
	}
	hist, stash := listForms(&se.h.Stash), listForms(se.s)
	op := c.Ops[i]
	histOK, stashOK := false, false
	switch op.K {
	case "add", "restart", "limit":
		histOK = refhist.Same(hist, pre.Hist) || refhist.Same(hist, post.Hist)
		stashOK = refhist.Same(stash, pre.Stash)
	case "clear":
		// documented as rewrite in place: the old list or a prefix of the new one
		histOK = refhist.Same(hist, pre.Hist) || refhist.IsPrefix(hist, post.Hist)
		stashOK = refhist.Same(stash, pre.Stash)
	case "sadd":
		histOK = refhist.Same(hist, pre.Hist)
		stashOK = refhist.Same(stash, pre.Stash) || refhist.Same(stash, post.Stash)
	case "sclear":
		histOK = refhist.Same(hist, pre.Hist)
		stashOK = refhist.Same(stash, pre.Stash) || refhist.IsPrefix(stash, post.Stash)
	}
	if !histOK {
		return fmt.Sprintf("the next start loads the history %s which is neither the list before the operation %s nor the one after it %s; files %s",
			show(hist), show(pre.Hist), show(post.Hist), pt.snap)
	}
	if !stashOK {
		return fmt.Sprintf("the next start loads the stash %s which is neither the list before the operation %s nor the one after it %s; files %s",
			show(stash), show(pre.Stash), show(post.Stash), pt.snap)
	}
	m := post.Clone()
	m.Hist, m.Stash = hist, stash
	r := &runner{se: se, m: m}
	for j := i + 1; j < len(c.Ops) && j <= i+tailOps; j++ {
		if err = r.apply(c.Ops[j]); err != "" {
			return fmt.Sprintf("continuing on the recovered directory, op %d: %s", j, err)
		}
		if err = r.reloadCheck(fmt.Sprintf("continuing on the recovered directory, op %d: after %s", j, c.Ops[j])); err != "" {
			return err + "; files at the death " + pt.snap.String()
		}
	}
	return ""
}

// ---------------------------------------------------------------- generators

var (
	blanks = []string{"", "", "", " ", "  ", "   "}
	// pieces of history lines: anything a user may type, not necessarily Lisp
	pieces = []string{
		"a", "b", "foo", "bar", "x1", "42", "-7", "(", ")", "(+ 1 2)", "(defun f (x)", "(list", "x)", "))",
		"\"str\"", "\"a b\"", "\"", "'q", "`(,a)", "#\\a", "#'car", "|s p|", "\\", ";; note", ":key", "&rest",
		"λ", "é", "ñandú", "日本", "語", "😀", "Ω≈ç", "ß", " ", " ", "~a~%", "a.b", "1/2", "1.5e3",
	}
	ctlPieces = []string{"\t", "a\tb", "\t\t", "\r", "x\r", "\ry", "\x0b", "\x0c"}
	ctlNoTab  = []string{"\r", "x\r", "\ry", "\x0b", "\x0c", "\r\r", "a\x0bb"}
	// atoms of stash forms: always readable, never a complete form together with an open parenthesis
	atoms = []string{"a", "b", "foo", "bar", "x1", "42", "-7", "nil", "t", "λ", "é1", "日本", "ñ", "car", "list", "quux-2",
		// parentheses that are not syntax: inside a string, as a character, inside a |symbol|
		"\"a ( b\"", "#\\(", "\"~A (~A~%\"", "|x(y|", "#\\)", "\")\""}
)

func genBlank(rt *rapid.T, label string) string {
	return rapid.SampledFrom(blanks).Draw(rt, label)
}

func genLine(rt *rapid.T, ctl bool) string {
	n := rapid.SampledFrom([]int{1, 2, 3, 4, 0}).Draw(rt, "npieces")
	var b strings.Builder
	b.WriteString(genBlank(rt, "lead"))
	for i := 0; i < n; i++ {
		if i > 0 {
			b.WriteString(rapid.SampledFrom([]string{" ", " ", "  "}).Draw(rt, "sep"))
		}
		if ctl && rapid.IntRange(0, 3).Draw(rt, "ctl") == 0 {
			b.WriteString(rapid.SampledFrom(ctlPieces).Draw(rt, "ctlpiece"))
		} else {
			b.WriteString(rapid.SampledFrom(pieces).Draw(rt, "piece"))
		}
	}
	b.WriteString(genBlank(rt, "trail"))
	return b.String()
}

// genHistForm: 1-4 lines, blanks at both ends, empty inner (and, seldom, outer) lines.
func genHistForm(rt *rapid.T, ctl bool) []string {
	n := rapid.SampledFrom([]int{1, 1, 1, 2, 2, 3, 4}).Draw(rt, "nlines")
	f := make([]string, n)
	for i := range f {
		f[i] = genLine(rt, ctl)
	}
	return f
}

func genAtoms(rt *rapid.T, min int) string {
	n := rapid.IntRange(min, 3).Draw(rt, "natoms")
	parts := make([]string, 0, n)
	for i := 0; i < n; i++ {
		if rapid.IntRange(0, 5).Draw(rt, "nest") == 0 {
			parts = append(parts, "("+rapid.SampledFrom(atoms).Draw(rt, "atom")+" "+rapid.SampledFrom(atoms).Draw(rt, "atom")+")")
		} else {
			parts = append(parts, rapid.SampledFrom(atoms).Draw(rt, "atom"))
		}
	}
	return strings.Join(parts, rapid.SampledFrom([]string{" ", "  "}).Draw(rt, "sep"))
}

// genStashForm: one complete expression; when it has several lines the opening parenthesis is on
// the first and its partner ends the last, so every proper prefix of the lines is incomplete
// (the stash file is a Lisp file that is split into forms by reading it).
func genStashForm(rt *rapid.T, ctl bool) []string {
	n := rapid.SampledFrom([]int{1, 1, 2, 2, 3, 4}).Draw(rt, "nlines")
	if n == 1 && rapid.IntRange(0, 3).Draw(rt, "atomform") == 0 {
		return []string{genBlank(rt, "lead") + rapid.SampledFrom(atoms).Draw(rt, "atom") + genBlank(rt, "trail")}
	}
	f := make([]string, n)
	for i := range f {
		var body string
		switch {
		case i > 0 && i < n-1 && rapid.IntRange(0, 3).Draw(rt, "emptyline") == 0:
			body = ""
		default:
			body = genAtoms(rt, 0)
		}
		if ctl && rapid.IntRange(0, 3).Draw(rt, "ctl") == 0 {
			// stash forms must be readable: TAB and CR are white space for slip's reader, VT and FF are
			// a parse error (they appear in history lines only, which are not read)
			if p := rapid.SampledFrom(ctlPieces).Draw(rt, "ctlpiece"); !strings.ContainsAny(p, "\v\f") {
				body += p
			}
		}
		line := genBlank(rt, "lead")
		if i == 0 {
			line += "("
		}
		line += body
		if i == n-1 {
			line += ")"
		} else if rapid.IntRange(0, 3).Draw(rt, "comment") == 0 {
			// a comment to the end of the line: the line break after it is part of the form's syntax
			line += rapid.SampledFrom([]string{" ; note", " ;c", " ;; (x)", " ;; (/ x 2", " ; )"}).Draw(rt, "commenttext") // (after a blank: slip's reader takes a ; that touches a token for a parse error)
		}
		f[i] = line + genBlank(rt, "trail")
	}
	return f
}

// genLongOps: histories and stashes that outgrow the 4096 byte buffer their files are read through: many forms,
// long lines (now and then one line longer than the whole buffer), non-ASCII text so that a character can straddle the
// end of a buffer, a limit high enough that nothing is cut back before the file is large, and lower limits so that a
// compaction rewrites a large file.
func genLongOps(rt *rapid.T) Case {
	c := Case{Limit: rapid.SampledFrom([]int{1000, 1000, 200, 60, 40}).Draw(rt, "limit")}
	n := rapid.IntRange(20, 90).Draw(rt, "nops")
	longLine := func(stash bool) string {
		var b strings.Builder
		want := rapid.SampledFrom([]int{20, 60, 60, 100, 100, 150, 300, 700, 2000, 4090, 4100, 5000}).Draw(rt, "width")
		for b.Len() < want {
			if b.Len() > 0 {
				b.WriteByte(' ')
			}
			if stash {
				b.WriteString(rapid.SampledFrom(atoms).Draw(rt, "atom"))
			} else {
				b.WriteString(rapid.SampledFrom(pieces).Draw(rt, "piece"))
			}
			if want > 600 {
				// filler that keeps the number of draws low
				b.WriteString(strings.Repeat(rapid.SampledFrom([]string{" abcdefghi", " λéñ日本語ß", " (x y)"}).Draw(rt, "fill"), want/40))
			}
		}
		return b.String()
	}
	for i := 0; i < n; i++ {
		w := rapid.IntRange(0, 99).Draw(rt, "kind")
		switch {
		case w < 62:
			nl := rapid.SampledFrom([]int{1, 1, 2, 3}).Draw(rt, "nlines")
			f := make([]string, nl)
			for j := range f {
				f[j] = longLine(false)
			}
			c.Ops = append(c.Ops, Op{K: "add", F: f})
		case w < 88:
			nl := rapid.SampledFrom([]int{1, 2, 3}).Draw(rt, "nlines")
			f := make([]string, nl)
			for j := range f {
				f[j] = longLine(true)
			}
			f[0] = "(" + f[0]
			f[nl-1] += ")"
			c.Ops = append(c.Ops, Op{K: "sadd", F: f})
		case w < 91:
			c.Ops = append(c.Ops, Op{K: "clear", A: rapid.IntRange(-1, 12).Draw(rt, "start"), B: rapid.IntRange(-1, 12).Draw(rt, "end"), P: rapid.Bool().Draw(rt, "viastash")})
		case w < 94:
			c.Ops = append(c.Ops, Op{K: "sclear", A: rapid.IntRange(-1, 5).Draw(rt, "start"), B: rapid.IntRange(-1, 5).Draw(rt, "end")})
		case w < 96:
			c.Ops = append(c.Ops, Op{K: "limit", A: rapid.SampledFrom([]int{10, 30, 50, 1000}).Draw(rt, "newlimit")})
		default:
			c.Ops = append(c.Ops, Op{K: "restart"})
		}
	}
	return c
}

var limits = []int{0, 1, 2, 3, 3, 4, 5, 5, 6, 7, 8, 9, 10, 10, 11, 12, 12, 20, 25, 1000}

func genOps(rt *rapid.T, maxOps int, ctl bool) Case {
	if ctl && rapid.Bool().Draw(rt, "notabs") {
		// half of the control-character cases have CR, VT, FF only
		saved := ctlPieces
		ctlPieces = ctlNoTab
		defer func() { ctlPieces = saved }()
	}
	c := Case{Limit: rapid.SampledFrom([]int{3, 4, 5, 6, 8, 10, 11, 12, 20}).Draw(rt, "limit")}
	n := rapid.IntRange(1, maxOps).Draw(rt, "nops")
	var lastAdd, lastStash []string
	size := 0 // rough size of the history, to aim the clear ranges
	for i := 0; i < n; i++ {
		w := rapid.IntRange(0, 99).Draw(rt, "kind")
		switch {
		case w < 58:
			var f []string
			switch x := rapid.IntRange(0, 19).Draw(rt, "addkind"); {
			case x >= 18 && lastAdd != nil:
				f = lastAdd // the same form again
			case x == 17:
				f = []string{genBlank(rt, "onlyblanks")} // an empty form
			default:
				f = genHistForm(rt, ctl)
			}
			lastAdd = f
			size++
			c.Ops = append(c.Ops, Op{K: "add", F: f})
		case w < 66:
			op := Op{K: "clear", P: rapid.Bool().Draw(rt, "viastash")}
			if rapid.IntRange(0, 2).Draw(rt, "all") == 0 {
				op.A, op.B = 0, -1
			} else {
				op.A = rapid.IntRange(-1, min(size, 12)+1).Draw(rt, "start")
				op.B = rapid.IntRange(-1, min(size, 12)+1).Draw(rt, "end")
			}
			size = 0
			c.Ops = append(c.Ops, op)
		case w < 73:
			c.Ops = append(c.Ops, Op{K: "limit", A: rapid.SampledFrom(limits).Draw(rt, "newlimit")})
		case w < 86:
			var f []string
			if lastStash != nil && rapid.IntRange(0, 7).Draw(rt, "samestash") == 0 {
				f = lastStash
			} else {
				f = genStashForm(rt, ctl)
			}
			lastStash = f
			c.Ops = append(c.Ops, Op{K: "sadd", F: f})
		case w < 91:
			op := Op{K: "sclear"}
			if rapid.Bool().Draw(rt, "all") {
				op.A, op.B = 0, -1
			} else {
				op.A = rapid.IntRange(-1, 5).Draw(rt, "start")
				op.B = rapid.IntRange(-1, 5).Draw(rt, "end")
			}
			c.Ops = append(c.Ops, op)
		default:
			c.Ops = append(c.Ops, Op{K: "restart"})
		}
	}
	return c
}
