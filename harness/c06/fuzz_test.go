package c06

import (
	"testing"

	"verif/harness/internal/h"
)

// Native fuzz target over the generator of list histories (h.FuzzRapid): the fuzzer's bytes are rapid's bit stream.

func FuzzHistory(f *testing.F) { h.FuzzRapid(f, "c06", hist) }
