package c06

import (
	"fmt"
	"strings"
	"testing"

	"github.com/ohler55/slip"
	"pgregory.net/rapid"

	"verif/harness/internal/ev"
	"verif/harness/internal/h"
	"verif/harness/internal/sx"
)

// Sub-property nested-extend: the functions that copy the lists inside a list (copy-alist copies the entries,
// copy-tree everything) give entries that are lists of their own: extending one entry of the copy in place (nconc,
// add, rplacd of its last cell) changes that entry only - not the entries next to it, not the original.

type NCase struct {
	Fn      string  `json:"fn"`      // copy-alist | copy-tree
	Entries [][]int `json:"entries"` // the entries of the source list (lists of integers; the first element is the key)
	Dotted  bool    `json:"dotted"`  // entries of two elements are (k . v) pairs
	Which   int     `json:"which"`   // the entry of the copy that is extended
	How     string  `json:"how"`     // nconc | add | rplacd
	Ext     int     `json:"ext"`     // how many elements are added (1..3)
	Source  bool    `json:"source"`  // extend the entry of the source instead, the copy must not change
}

func (c NCase) entrySrc(e []int) string {
	if c.Dotted && len(e) == 2 {
		return fmt.Sprintf("(cons %d %d)", e[0], e[1])
	}
	return "(list " + nums(e) + ")"
}

func runNested(c NCase) *h.Result {
	res := &h.Result{NonTrivial: len(c.Entries) >= 2 && c.Which < len(c.Entries)-1}
	if len(c.Entries) == 0 || c.Which < 0 || c.Which >= len(c.Entries) || c.Ext < 1 {
		return h.Fail("bad case")
	}
	var parts []string
	for _, e := range c.Entries {
		parts = append(parts, c.entrySrc(e))
	}
	scope := slip.NewScope()
	for _, v := range []string{"src", "dup"} {
		scope.Let(slip.Symbol(v), nil)
	}
	target := "dup"
	if c.Source {
		target = "src"
	}
	ext := make([]string, c.Ext)
	for i := range ext {
		ext[i] = fmt.Sprint(900 + i)
	}
	entry := fmt.Sprintf("(nth %d %s)", c.Which, target)
	var grow string
	switch c.How {
	case "nconc":
		grow = "(nconc " + entry + " (list " + strings.Join(ext, " ") + "))"
	case "add":
		grow = "(add " + entry + " " + strings.Join(ext, " ") + ")"
	default:
		grow = "(rplacd (last " + entry + ") (list " + strings.Join(ext, " ") + "))"
	}
	script := []string{"(setq src (list " + strings.Join(parts, " ") + "))", "(setq dup (" + c.Fn + " src))"}
	show := func(name string) ([]string, string) {
		o := ev.Eval(scope, name)
		l, _ := o.Val.(slip.List)
		if o.Kind != ev.Value || len(l) != len(c.Entries) {
			return nil, fmt.Sprintf("%s => %s", name, o)
		}
		out := make([]string, len(l))
		for i, e := range l {
			out[i] = sx.Text(e)
		}
		return out, ""
	}
	fail := func(format string, args ...any) *h.Result {
		res.Err = strings.Join(script, " ") + "  =>  " + fmt.Sprintf(format, args...)
		return res
	}
	for _, s := range script {
		if o := ev.Eval(scope, s); o.Kind != ev.Value {
			return fail("%s: %s", s, o)
		}
	}
	before := map[string][]string{}
	for _, name := range []string{"src", "dup"} {
		b, bad := show(name)
		if bad != "" {
			return fail("%s", bad)
		}
		before[name] = b
	}
	script = append(script, grow)
	if o := ev.Eval(scope, grow); o.Kind != ev.Value {
		if c.Dotted && len(c.Entries[c.Which]) == 2 {
			res.Classes = append(res.Classes, "extension-of-a-pair-refused")
			return res // a dotted pair has no proper end to extend; a condition is a fine answer
		}
		return fail("%s", o)
	}
	res.Evals = 1
	for _, name := range []string{"src", "dup"} {
		after, bad := show(name)
		if bad != "" {
			return fail("%s", bad)
		}
		for i := range after {
			if name == target && i == c.Which {
				continue // the extended entry itself: its new contents are the business of the main history check
			}
			if after[i] != before[name][i] {
				return fail("entry %d of %s changed from %s to %s although entry %d of %s was extended", i, name, before[name][i], after[i], c.Which, target)
			}
		}
	}
	res.Classes = append(res.Classes, "nested:"+c.Fn+":"+c.How)
	return res
}

var nestedP = h.Prop[NCase]{Name: "nested-extend", Run: runNested, Gen: func(rt *rapid.T) NCase {
	c := NCase{Fn: rapid.SampledFrom([]string{"copy-alist", "copy-alist", "copy-tree"}).Draw(rt, "fn"), Dotted: rapid.Bool().Draw(rt, "dotted"),
		How: rapid.SampledFrom([]string{"nconc", "add", "rplacd"}).Draw(rt, "how"), Ext: rapid.IntRange(1, 3).Draw(rt, "ext"), Source: rapid.IntRange(0, 3).Draw(rt, "source") == 0}
	n := rapid.IntRange(1, 5).Draw(rt, "entries")
	for i := 0; i < n; i++ {
		e := []int{10 * (i + 1)}
		for k := rapid.IntRange(0, 3).Draw(rt, "len"); k > 0; k-- {
			e = append(e, 10*(i+1)+k)
		}
		c.Entries = append(c.Entries, e)
	}
	c.Which = rapid.IntRange(0, n-1).Draw(rt, "which")
	return c
}}

func testNested(t *testing.T) {
	h.RunProp(t, nestedP, h.N(3000, 30000))
}
