// Package c06 checks property C06: lists keep value semantics although slip stores them as
// shared Go slices. Histories of list operations over a pool of named lists are executed by
// slip and by the reference model internal/reflist (values + may-share groups).
package c06

import (
	"fmt"
	"strconv"
	"strings"
	"testing"

	"github.com/ohler55/slip"
	"pgregory.net/rapid"

	"verif/harness/internal/ev"
	"verif/harness/internal/h"
	"verif/harness/internal/reflist"
	"verif/harness/internal/sx"
)

func TestMain(m *testing.M) { h.Main(m, "C06") }

// Var says how one pool variable is created. E are its elements; Mode selects a way of building
// the list that gives a particular slice layout (exact capacity, spare capacity, offset ...).
type Var struct {
	Mode string `json:"mode"`
	E    []int  `json:"e"`
}

// Case is a pool and a history.
type Case struct {
	Vars []Var        `json:"vars"`
	Ops  []reflist.Op `json:"ops"`
	// Global: the variables are global variables (defvar) instead of variables of the evaluation scope
	Global bool `json:"global,omitempty"`
}

var modes = []string{"list", "copy", "append", "add", "butlast", "popped", "nil"}

func nums(v []int) string {
	parts := make([]string, len(v))
	for i, x := range v {
		parts[i] = strconv.Itoa(x)
	}
	return strings.Join(parts, " ")
}

func lst(v []int) string {
	if len(v) == 0 {
		return "(list)"
	}
	return "(list " + nums(v) + ")"
}

// initForm builds a fresh list with elements e.
func initForm(v Var) string {
	e := v.E
	n := len(e)
	switch v.Mode {
	case "copy": // a literal, copied
		if n == 0 {
			return "(copy-list '())"
		}
		return "(copy-list '(" + nums(e) + "))"
	case "append": // result of append: usually spare capacity
		k := n / 2
		return "(append " + lst(e[:k]) + " " + lst(e[k:]) + ")"
	case "add": // grown by add: spare capacity
		if n == 0 {
			return "(add nil)"
		}
		return "(add " + lst(e[:n-1]) + " " + strconv.Itoa(e[n-1]) + ")"
	case "butlast":
		return "(butlast " + lst(append(append([]int{}, e...), 0)) + ")"
	case "popped": // offset into a larger array plus spare capacity
		all := append([]int{0, 0}, e...)
		return "(let ((x (add " + lst(all[:len(all)-1]) + " " + strconv.Itoa(all[len(all)-1]) + "))) (pop x) (pop x) x)"
	case "nil":
		if n == 0 {
			return "nil"
		}
	}
	return lst(e)
}

func vname(i int) string { return "v" + strconv.Itoa(i) }

func gname(i int) string { return "*c06-v" + strconv.Itoa(i) + "*" }

// form is the Lisp text of an applicable operation.
func form(p *reflist.Plan, vname func(int) string) string {
	op := p.Op
	a, b, c, t := vname(op.A), vname(op.B), vname(op.C), vname(op.T)
	x := strconv.Itoa(op.X)
	n, m := strconv.Itoa(p.N), strconv.Itoa(p.M)
	set := func(expr string) string { return "(setq " + t + " " + expr + ")" }
	switch op.F {
	case "cons":
		return set("(cons " + x + " " + a + ")")
	case "list*":
		return set("(list* " + x + " " + strconv.Itoa(op.X+1) + " " + a + ")")
	case "append1":
		return set("(append " + a + ")")
	case "append":
		return set("(append " + a + " " + b + ")")
	case "append3":
		return set("(append " + a + " " + b + " " + c + ")")
	case "cdr", "rest", "copy-list", "copy-seq", "reverse", "nreverse", "remove-duplicates", "delete-duplicates":
		return set("(" + op.F + " " + a + ")")
	case "nconc-end":
		// the end of the list as cdr of its last cell (nthcdr and last at the end give nil, a fresh value)
		if p.N%2 == 0 {
			return set("(nconc (cdr (last " + a + ")) " + b + ")")
		}
		return set("(nconc (rest (nthcdr " + strconv.Itoa(p.N-1) + " " + a + ")) " + b + ")")
	case "nthcdr":
		return set("(nthcdr " + n + " " + a + ")")
	case "last1":
		return set("(last " + a + ")")
	case "last":
		return set("(last " + a + " " + n + ")")
	case "butlast1":
		return set("(butlast " + a + ")")
	case "butlast":
		return set("(butlast " + a + " " + n + ")")
	case "subseq":
		return set("(subseq " + a + " " + n + " " + m + ")")
	case "subseq1":
		return set("(subseq " + a + " " + n + ")")
	case "member", "remove", "delete":
		return set("(" + op.F + " " + x + " " + a + ")")
	case "remove-if", "delete-if":
		return set("(" + op.F + " 'evenp " + a + ")")
	case "remove-fe", "delete-fe":
		return set("(" + op.F[:6] + " " + x + " " + a + " :from-end t :count 1)")
	case "remove-if-fe":
		return set("(remove-if 'evenp " + a + " :from-end t :count 1)")
	case "remove-se", "delete-se":
		return set("(" + op.F[:6] + " " + x + " " + a + " :start " + n + " :end " + m + ")")
	case "remove-duplicates-fe":
		return set("(remove-duplicates " + a + " :from-end t)")
	case "mapcons":
		return set("(mapcar 'car (mapcar 'cons " + a + " " + b + "))")
	case "maplist2":
		return set("(mapcar 'cadr (mapcar 'list " + a + " " + b + "))")
	case "maprest1":
		return set("(mapcar 'car (mapcar (lambda (&rest r) r) " + a + " " + b + "))")
	case "maprest2":
		return set("(mapcar 'cadr (mapcar (lambda (&rest r) r) " + a + " " + b + "))")
	case "mapcar":
		return set("(mapcar '1+ " + a + ")")
	case "alias":
		return set(a)
	case "push":
		return set("(push " + x + " " + a + ")")
	case "pop":
		return "(pop " + a + ")"
	case "setcar":
		return "(setf (car " + a + ") " + x + ")"
	case "setnth":
		return "(setf (nth " + n + " " + a + ") " + x + ")"
	case "setelt":
		return "(setf (elt " + a + " " + n + ") " + x + ")"
	case "rplaca":
		return set("(rplaca " + a + " " + x + ")")
	case "rplacd":
		return set("(rplacd " + a + " " + b + ")")
	case "nconc":
		return set("(nconc " + a + " " + b + ")")
	case "sort", "stable-sort":
		return set("(" + op.F + " " + a + " '<)")
	case "add":
		return set("(add " + a + " " + x + ")")
	case "add2":
		return set("(add " + a + " " + x + " " + strconv.Itoa(op.X+1) + ")")
	}
	panic("no form for " + op.F)
}

// toInts converts a slip value to a list of integers. ok=false: not a proper list of fixnums.
func toInts(o slip.Object) (out []int, ok bool) {
	switch to := o.(type) {
	case nil:
		return nil, true
	case slip.List:
		for _, e := range to {
			f, isFix := e.(slip.Fixnum)
			if !isFix {
				return nil, false
			}
			out = append(out, int(f))
		}
		return out, true
	}
	return nil, false
}

func readVars(scope *slip.Scope, n int, vname func(int) string) ([][]int, string) {
	out := make([][]int, n)
	for i := 0; i < n; i++ {
		o := scope.Get(slip.Symbol(vname(i)))
		v, ok := toInts(o)
		if !ok {
			return nil, fmt.Sprintf("%s holds %s, which is not a proper list of integers", vname(i), sx.Text(o))
		}
		out[i] = v
	}
	return out, ""
}

// extending operations for the non-triviality rule (besides the destructive kinds)
var growing = map[string]bool{"push": true, "append": true, "append3": true, "cons": true, "list*": true}

// exclusions of open findings, as predicates over the case (see known_findings.d/C06.json).
func excluded(c Case) string {
	return ""
}

func run(c Case) *h.Result {
	res := &h.Result{}
	n := len(c.Vars)
	if n == 0 || n > 8 {
		return h.Fail("a case needs 1..8 variables")
	}
	if tag := excluded(c); tag != "" {
		res.Skip = tag
		return res
	}
	scope := slip.NewScope()
	st := reflist.New(n)
	var script []string
	fail := func(format string, args ...any) *h.Result {
		res.Err = strings.Join(script, " ") + "  =>  " + fmt.Sprintf(format, args...)
		return res
	}
	vname := vname
	if c.Global {
		vname = gname
		res.Classes = append(res.Classes, "global-variables")
	}
	for i := range c.Vars {
		if c.Global {
			if out := ev.Eval(scope, "(defvar "+vname(i)+" nil)"); out.Kind != ev.Value {
				return fail("%s", out)
			}
			continue
		}
		scope.Let(slip.Symbol(vname(i)), nil)
	}
	for i, v := range c.Vars {
		src := "(setq " + vname(i) + " " + initForm(v) + ")"
		script = append(script, src)
		out := ev.Eval(scope, src)
		if out.Kind != ev.Value {
			return fail("%s", out)
		}
		got, ok := toInts(out.Val)
		if !ok || !reflist.Eq(got, v.E) {
			return fail("initial list is %s, expected %s", sx.Text(out.Val), reflist.Show(v.E))
		}
		st.Bind(i, v.E)
		res.Classes = append(res.Classes, "init:"+v.Mode)
	}
	aliased, executed := false, 0
	for _, op := range c.Ops {
		p := st.Plan(op)
		if p.Skip != "" {
			res.Classes = append(res.Classes, "skipped-op:"+p.Skip)
			continue
		}
		// statistics before the model advances
		mutGroup := p.Mut
		if mutGroup == 0 {
			mutGroup = st.Grp[op.A]
		}
		destructive := p.Mut != 0 || growing[op.F]
		if aliased && destructive && st.NonEmptyOutside(mutGroup) >= 2 {
			res.NonTrivial = true
		}
		if p.Mut != 0 {
			res.Classes = append(res.Classes, "mutated-group-size:"+strconv.Itoa(st.GroupSize(op.A)))
		}
		src := form(p, vname)
		script = append(script, src)
		out := ev.Eval(scope, src)
		executed++
		res.Classes = append(res.Classes, "op:"+op.F, "kind:"+p.Kind)
		if out.Kind != ev.Value {
			return fail("%s", out)
		}
		g := &reflist.Got{}
		switch tv := out.Val.(type) {
		case slip.Fixnum:
			g.Atom, g.AtomVal = true, int(tv)
		case nil:
			g.AtomNil = true
		default:
			var ok bool
			if g.Res, ok = toInts(out.Val); !ok {
				return fail("returned %s, expected %s", sx.Text(out.Val), expected(p))
			}
		}
		var bad string
		if g.After, bad = readVars(scope, n, vname); bad != "" {
			return fail("%s", bad)
		}
		if err := st.Check(p, g); err != nil {
			return fail("%s", err)
		}
		if p.Store && len(p.Res) > 0 && len(st.Val[op.A]) > 0 {
			aliased = true // a second list derived from a pool list now exists
		}
	}
	res.Classes = append(res.Classes, "executed-ops:"+strconv.Itoa(executed))
	return res
}

func expected(p *reflist.Plan) string {
	if p.Atom {
		if p.AtomNil {
			return "nil"
		}
		return strconv.Itoa(p.AtomVal)
	}
	return reflist.Show(p.Res)
}

// ---------------------------------------------------------------- generator

// weights: every operation of the table is drawn; the sharing and destructive ones more often.
var opPool = func() []string {
	var out []string
	for _, name := range reflist.Names() {
		w := 2
		switch reflist.Ops[name].Kind {
		case reflist.Extending:
			w = 6
		case reflist.Destroy, reflist.PointMut:
			w = 3
		}
		switch name {
		case "subseq", "cdr", "nthcdr", "pop", "push", "cons", "append":
			w = 4
		}
		for i := 0; i < w; i++ {
			out = append(out, name)
		}
	}
	return out
}()

func genCase(rt *rapid.T) Case {
	var c Case
	c.Global = rapid.IntRange(0, 3).Draw(rt, "global") == 0
	nv := rapid.IntRange(2, 6).Draw(rt, "nvars")
	for i := 0; i < nv; i++ {
		v := Var{Mode: rapid.SampledFrom(modes).Draw(rt, "mode")}
		ln := rapid.IntRange(0, 5).Draw(rt, "len")
		v.E = make([]int, ln)
		for k := range v.E {
			v.E[k] = rapid.IntRange(0, 9).Draw(rt, "e")
		}
		c.Vars = append(c.Vars, v)
	}
	maxOps := 6
	if h.Thorough() {
		maxOps = 12
	}
	no := rapid.IntRange(1, maxOps).Draw(rt, "nops")
	for k := 0; k < no; k++ {
		op := reflist.Op{F: rapid.SampledFrom(opPool).Draw(rt, "f")}
		op.T = rapid.IntRange(0, nv-1).Draw(rt, "t")
		op.A = rapid.IntRange(0, nv-1).Draw(rt, "a")
		if k > 0 && rapid.IntRange(0, 2).Draw(rt, "hot") > 0 {
			// work on the objects of the previous step again: its target or its argument
			prev := c.Ops[k-1]
			op.A = prev.T
			if rapid.Bool().Draw(rt, "hot-arg") {
				op.A = prev.A
			}
		}
		info := reflist.Ops[op.F]
		if info.Lists > 1 {
			op.B = rapid.IntRange(0, nv-1).Draw(rt, "b")
		}
		if info.Lists > 2 {
			op.C = rapid.IntRange(0, nv-1).Draw(rt, "c")
		}
		switch op.F {
		case "nthcdr", "last", "butlast", "subseq", "subseq1", "setnth", "setelt", "remove-se", "delete-se":
			op.N = rapid.IntRange(0, 7).Draw(rt, "n")
		}
		if op.F == "subseq" || op.F == "remove-se" || op.F == "delete-se" {
			op.M = rapid.IntRange(0, 7).Draw(rt, "m")
		}
		switch op.F {
		case "member", "remove", "delete", "remove-fe", "delete-fe", "remove-se", "delete-se":
			op.X = rapid.IntRange(0, 9).Draw(rt, "x")
		case "cons", "list*", "push", "setcar", "setnth", "setelt", "rplaca", "add", "add2":
			op.X = 100 + 10*k // distinct from everything else in the pool
		}
		c.Ops = append(c.Ops, op)
	}
	return c
}

// ---------------------------------------------------------------- enumeration

// grid of instances of one operation on list argument a (second list b, third c), target t.
func instances(name string, t, a, b, c, maxN, x int, yield func(reflist.Op)) {
	base := reflist.Op{F: name, T: t, A: a}
	info := reflist.Ops[name]
	if info.Lists > 1 {
		base.B = b
	}
	if info.Lists > 2 {
		base.C = c
	}
	switch name {
	case "nthcdr", "last", "butlast", "subseq1", "setnth", "setelt":
		for n := 0; n <= maxN; n++ {
			o := base
			o.N, o.X = n, x
			yield(o)
		}
	case "subseq":
		for n := 0; n <= maxN; n++ {
			for m := 0; m <= maxN-n; m++ {
				o := base
				o.N, o.M = n, m
				yield(o)
			}
		}
	case "member", "remove", "delete", "remove-fe", "delete-fe":
		for _, xv := range []int{1, 2, 3, 99} {
			o := base
			o.X = xv
			yield(o)
		}
	case "remove-se", "delete-se":
		for _, xv := range []int{1, 2} {
			for n := 0; n <= maxN; n++ {
				for m := 0; m <= maxN-n; m++ {
					o := base
					o.N, o.M, o.X = n, m, xv
					yield(o)
				}
			}
		}
	default:
		base.X = x
		yield(base)
	}
}

var (
	derivers = []string{"alias", "cons", "list*", "append1", "append", "append3", "cdr", "rest", "nthcdr", "last", "last1", "member",
		"remove", "remove-if", "remove-duplicates", "remove-fe", "remove-if-fe", "remove-se", "remove-duplicates-fe", "delete-fe", "delete-se", "butlast", "butlast1", "subseq", "subseq1", "copy-list", "copy-seq",
		"reverse", "mapcar", "mapcons", "maplist2", "maprest1", "maprest2", "push", "pop", "rplaca", "nreverse", "sort", "stable-sort", "delete", "delete-if", "delete-duplicates", "add", "add2", "nconc", "nconc-end", "rplacd"}
	mutators = []string{"setcar", "setnth", "setelt", "rplaca", "rplacd", "nconc", "nreverse", "sort", "stable-sort", "delete", "delete-if",
		"delete-duplicates", "delete-fe", "delete-se", "add", "add2", "push", "pop", "cons", "append", "list*", "nconc-end"}
)

// grid describes an exhaustive family of short histories: v0 = every creation mode x every length in lens;
// v1 = a second list with spare capacity; step 1 derives v2 from v0 with every instance of the operations in first;
// step 2 applies every instance of the operations in second to v0 or v2 (result in v3); if third is not empty, step 3
// applies every instance of its operations to v0, v2 or v3 (result in v1).
type grid struct {
	lens                 []int
	first, second, third []string
}

func (g grid) each(part, parts int, yield func(Case) bool) {
	idx := 0
	for _, mode := range modes[:6] {
		for _, ln := range g.lens {
			e := make([]int, ln)
			for i := range e {
				e[i] = ln - i // descending, so that sort changes something; elements 1..ln
			}
			if ln >= 3 {
				e[ln-1] = e[0] // one duplicate
			}
			vars := []Var{{Mode: mode, E: e}, {Mode: "add", E: []int{21, 22}}, {Mode: "nil"}, {Mode: "nil"}}
			var first, second, third []reflist.Op
			for _, name := range g.first {
				instances(name, 2, 0, 1, 1, ln+1, 70, func(o reflist.Op) { first = append(first, o) })
			}
			for _, name := range g.second {
				for _, a := range []int{0, 2} {
					instances(name, 3, a, 1, 2-a, ln+1, 80, func(o reflist.Op) { second = append(second, o) })
				}
			}
			for _, name := range g.third {
				for _, a := range []int{0, 2, 3} {
					instances(name, 1, a, 1, 1, 1, 90, func(o reflist.Op) { third = append(third, o) })
				}
			}
			for _, o1 := range first {
				for _, o2 := range second {
					idx++
					if idx%parts != part {
						continue
					}
					if len(third) == 0 {
						if !yield(Case{Vars: vars, Ops: []reflist.Op{o1, o2}, Global: idx%3 == 0}) {
							return
						}
						continue
					}
					for _, o3 := range third {
						if !yield(Case{Vars: vars, Ops: []reflist.Op{o1, o2, o3}, Global: idx%3 == 0}) {
							return
						}
					}
				}
			}
		}
	}
}

func (g grid) size() (n int) {
	g.each(0, 1, func(Case) bool { n++; return true })
	return
}

var (
	pairsQuick    = grid{lens: []int{0, 1, 2, 3}, first: derivers, second: reflist.Names()}
	pairsThorough = grid{lens: []int{0, 1, 2, 3, 4}, first: derivers, second: reflist.Names()}
	triplesQuick  = grid{lens: []int{1, 2},
		first:  []string{"alias", "cdr", "pop", "nthcdr", "copy-list", "butlast1", "cons", "append", "add", "push", "subseq1", "last1", "remove", "remove-fe"},
		second: []string{"add", "nconc", "push", "pop", "setcar", "rplaca", "rplacd", "sort", "nreverse", "delete", "cons", "append"},
		third:  []string{"add", "nconc", "setcar", "pop", "push"}}
	triplesThorough = grid{lens: []int{0, 1, 2, 3}, first: derivers, second: reflist.Names(), third: mutators}
)

var (
	hist  = h.Prop[Case]{Name: "history", Gen: genCase, Run: run}
	pairs = h.Prop[Case]{Name: "pairs-grid", Run: run}
	trips = h.Prop[Case]{Name: "triples-grid", Run: run}
)

func TestC06(t *testing.T) {
	h.Rule("a case = a pool of 2..6 variables, each a fresh list of 0..5 integers built in one of 7 ways (exact capacity, spare capacity, offset into a larger array, literal copy ...), " +
		"plus a history of 1..6 (thorough: 1..12) operations out of " + strconv.Itoa(len(reflist.Ops)) + " (cons list* append cdr rest nthcdr last butlast subseq copy-list copy-seq reverse remove* (also with :from-end :count and :start :end) member mapcar alias push pop " +
		"setf-car/nth/elt rplaca rplacd nconc nreverse sort stable-sort delete* add) with arguments and target drawn from the pool, so every aliasing pattern arises. " +
		"Oracle = internal/reflist: value + may-share group per variable; after every step the returned value equals the reference, every variable outside the group the language allows " +
		"to be modified prints exactly as before, defined variables have the defined value; members of the modified group are re-synchronised (don't care). " +
		"Grids: every (creation mode x length) x every deriving operation instance x every operation instance on the original or the derived list (pairs), x every mutator instance on any of the three lists (triples; " +
		"quick tier: restricted operation sets and lengths 1..2, thorough: all operations, lengths 0..3, pairs up to length 4). " +
		"nested-extend: copy-alist / copy-tree of a list of 1..5 entries (lists of 1..4 integers, two-element ones also as dotted pairs), then one entry of the copy (or of the source) is extended in place by 1..3 elements with nconc, add or rplacd of its last cell: every other entry of both lists prints as before. " +
		"Non-trivial: a step that stored a non-empty list derived from a non-empty pool list is followed by a destructive or extending step (setf rplac* nconc n* sort delete* add push append cons list*) " +
		"while at least 2 variables outside the affected group are non-empty. Distinct by the JSON of the case.")
	h.Assume("the reference model internal/reflist implements the Common Lisp rules for which lists may share cells (CLHS: copy-list, subseq, reverse, butlast, mapcar, append's copied arguments are fresh; cdr/nthcdr/last/member/cons/list*/append's last argument share; remove* may share; the empty list shares nothing)")
	h.Assume("variables are read back through Scope.Get and rendered by the harness (no slip printer)")

	h.RunProp(t, pairs, 0)
	h.RunProp(t, trips, 0)
	h.RunProp(t, hist, h.N(60000, 1200000))
	testNested(t)

	if h.C.ReplayIn != "" {
		return
	}
	if !h.Thorough() {
		h.Note("pairs grid: %d cases; triples grid (restricted operation sets): %d cases", pairsQuick.size(), triplesQuick.size())
		h.Enumerate(t, pairs, func(yield func(Case) bool) { pairsQuick.each(0, 1, yield) })
		h.Enumerate(t, trips, func(yield func(Case) bool) { triplesQuick.each(0, 1, yield) })
		return
	}
	if h.C.Shard == 0 {
		h.Note("pairs grid: %d cases; triples grid: %d cases; both split over the shards", pairsThorough.size(), triplesThorough.size())
	}
	h.Enumerate(t, pairs, func(yield func(Case) bool) { pairsThorough.each(h.C.Shard, h.C.NShards, yield) })
	h.Enumerate(t, trips, func(yield func(Case) bool) { triplesThorough.each(h.C.Shard, h.C.NShards, yield) })
}
