package c01

import (
	"fmt"
	"strings"

	"github.com/ohler55/slip"
	"pgregory.net/rapid"

	"verif/harness/internal/ev"
	"verif/harness/internal/h"
	"verif/harness/internal/sx"
)

// QCase is a datum as text; (quote D) and 'D must evaluate to exactly the datum the reader produces for D.
type QCase struct {
	Datum string `json:"datum"`
}

func genDatum(rt *rapid.T, d int) string {
	k := rapid.IntRange(0, 15).Draw(rt, "dk")
	if d >= 4 && k >= 11 {
		k %= 11
	}
	switch k {
	case 0:
		return fmt.Sprint(rapid.IntRange(-1000, 1000).Draw(rt, "int"))
	case 1:
		return rapid.SampledFrom([]string{"18446744073709551616", "-9223372036854775809", "9223372036854775807"}).Draw(rt, "big")
	case 2:
		return rapid.SampledFrom([]string{"1/2", "-3/4", "22/7"}).Draw(rt, "ratio")
	case 3:
		return rapid.SampledFrom([]string{"1.5", "-2.5e10", "1.5s0", "2.5d0", "1.25l0", "0.0"}).Draw(rt, "float")
	case 4:
		return `"` + rapid.StringMatching(`[a-zA-Z0-9 ();'#|,]{0,6}`).Draw(rt, "str") + `"`
	case 5:
		return `#\` + rapid.SampledFrom([]string{"a", "Z", "0", "Space", "Newline", "é"}).Draw(rt, "char")
	case 6:
		return rapid.SampledFrom([]string{"abc", "x-y", "*v*", "car", "+", "foo123", "nil", "t"}).Draw(rt, "sym")
	case 7:
		return rapid.SampledFrom([]string{":key", ":a", ":test"}).Draw(rt, "kw")
	case 8:
		return "|" + rapid.StringMatching(`[a-zA-Z ();]{1,5}`).Draw(rt, "pipe") + "|"
	case 9:
		return rapid.SampledFrom([]string{"#*0101", "#b101", "#xff", "#o17", "@2024-01-02T03:04:05Z"}).Draw(rt, "misc")
	case 10:
		return "()"
	case 11, 12:
		n := rapid.IntRange(1, 4).Draw(rt, "ln")
		parts := make([]string, n)
		for i := range parts {
			parts[i] = genDatum(rt, d+1)
		}
		return "(" + strings.Join(parts, " ") + ")"
	case 13:
		return "(" + genDatum(rt, d+1) + " . " + genDatum(rt, d+1) + ")"
	case 14:
		n := rapid.IntRange(0, 3).Draw(rt, "vn")
		parts := make([]string, n)
		for i := range parts {
			parts[i] = genDatum(rt, d+1)
		}
		return "#(" + strings.Join(parts, " ") + ")"
	default:
		// a form that would do something if it were evaluated
		return "(vt:mark 99 (car 1))"
	}
}

func runQuote(c QCase) *h.Result {
	scope := slip.NewScope()
	res := &h.Result{NonTrivial: strings.ContainsAny(c.Datum, "(#|\"")}
	ref := ev.Try(func() slip.Object {
		code := slip.ReadString(c.Datum, scope)
		if len(code) != 1 {
			panic(fmt.Sprintf("datum reads as %d objects", len(code)))
		}
		return code[0]
	})
	if ref.Kind != ev.Value {
		return h.Fail("harness: datum %q does not read: %s", c.Datum, ref)
	}
	for _, src := range []string{"(quote " + c.Datum + ")", "'" + c.Datum, "(car (list '" + c.Datum + "))", "(funcall (lambda (x) x) '" + c.Datum + ")"} {
		ev.ResetTrace()
		got := ev.Eval(scope, src)
		res.Evals++
		if got.Kind != ev.Value {
			res.Err = fmt.Sprintf("%s: %s", src, got)
			return res
		}
		if tr := ev.TraceString(); tr != "" {
			res.Err = fmt.Sprintf("%s evaluated the quoted datum (trace %s)", src, tr)
			return res
		}
		if w, g := sx.Typed(ref.Val), sx.Typed(got.Val); w != g {
			res.Err = fmt.Sprintf("%s => %s, the datum is %s", src, g, w)
			return res
		}
		if ref.Val != nil && got.Val != nil && string(ref.Val.Hierarchy()[0]) != string(got.Val.Hierarchy()[0]) {
			res.Err = fmt.Sprintf("%s => type %s, the datum has type %s", src, got.Val.Hierarchy()[0], ref.Val.Hierarchy()[0])
			return res
		}
	}
	return res
}

var quote = h.Prop[QCase]{Name: "quote", Gen: func(rt *rapid.T) QCase { return QCase{Datum: genDatum(rt, 0)} }, Run: runQuote}
