package c01

import (
	"fmt"
	"strings"
	"testing"

	"github.com/ohler55/slip"
	"pgregory.net/rapid"

	"verif/harness/internal/ev"
	"verif/harness/internal/h"
	"verif/harness/internal/proggen"
	"verif/harness/internal/refeval"
	"verif/harness/internal/sx"
)

func TestMain(m *testing.M) { h.Main(m, "C01") }

// Case is a closed program over the core forms, as Lisp text (top-level forms separated by newlines).
type Case struct {
	Prog string `json:"program"`
}

func progText(forms []refeval.Val) string {
	var parts []string
	for _, f := range forms {
		parts = append(parts, refeval.Print(f))
	}
	return strings.Join(parts, "\n")
}

// render a slip value the way refeval.Show renders its own: function objects are opaque.
func show(o slip.Object) string {
	switch t := o.(type) {
	case slip.List:
		if len(t) == 0 {
			return "nil"
		}
		parts := make([]string, len(t))
		for i, e := range t {
			parts[i] = show(e)
		}
		return "(" + strings.Join(parts, " ") + ")"
	case slip.Values:
		parts := make([]string, len(t))
		for i, e := range t {
			parts[i] = show(e)
		}
		return "#values(" + strings.Join(parts, " ") + ")"
	case nil:
		return "nil"
	}
	for _, hn := range o.Hierarchy() {
		if hn == slip.FunctionSymbol || hn == slip.LambdaSymbol || hn == slip.BuiltInSymbol {
			return "#<function>"
		}
	}
	if _, ok := o.(*slip.Lambda); ok {
		return "#<function>"
	}
	if _, ok := o.(*slip.FuncInfo); ok {
		return "#<function>"
	}
	return sx.Text(o)
}

func showVals(vs []refeval.Val) string {
	if len(vs) == 1 {
		return refeval.Show(vs[0])
	}
	parts := make([]string, len(vs))
	for i, v := range vs {
		parts[i] = refeval.Show(v)
	}
	return "#values(" + strings.Join(parts, " ") + ")"
}

func undefine(forms []refeval.Val) {
	for _, f := range forms {
		if l, ok := f.([]refeval.Val); ok && len(l) > 1 {
			if hd, _ := l[0].(refeval.Sym); hd == "defun" {
				if n, isSym := l[1].(refeval.Sym); isSym {
					slip.CurrentPackage.Undefine(string(n))
				}
			}
		}
	}
}

var formNames = map[string]bool{}

func init() {
	for _, n := range strings.Fields("progn prog1 if when unless cond case and or let let* setq lambda function funcall apply mapcar defun " +
		"dolist dotimes do do* values multiple-value-bind multiple-value-list quote + - * 1+ list cons car cdr length < = not null eq") {
		formNames[n] = true
	}
}

func features(forms []refeval.Val) (kinds map[string]bool, depth int) {
	kinds = map[string]bool{}
	var walk func(v refeval.Val, d int)
	walk = func(v refeval.Val, d int) {
		l, ok := v.([]refeval.Val)
		if !ok {
			return
		}
		if d > depth {
			depth = d
		}
		if hd, isSym := l[0].(refeval.Sym); isSym && formNames[string(hd)] {
			kinds[string(hd)] = true
		}
		for _, e := range l {
			walk(e, d+1)
		}
	}
	for _, f := range forms {
		walk(f, 1)
	}
	return
}

func run(c Case) *h.Result {
	forms, err := refeval.Parse(c.Prog)
	if err != nil {
		return h.Fail("harness: cannot parse program: %s", err)
	}
	res := &h.Result{}
	kinds, depth := features(forms)
	for k := range kinds {
		res.Classes = append(res.Classes, "form:"+k)
	}
	// exclusions of open findings are predicates over the program text
	if tag := excluded(forms); tag != "" {
		res.Skip = tag
		return res
	}
	m := refeval.NewMachine()
	want := m.Run(forms)
	if want.Err != nil {
		return h.Fail("harness: generated program signals in the reference evaluator: %s\n%s", want.Err, c.Prog)
	}
	if m.Big {
		res.Skip = "reference-integers-beyond-2^31"
		return res
	}
	undefine(forms)
	defer undefine(forms)
	scope := slip.NewScope()
	ev.ResetTrace()
	got := ev.EvalForms(scope, c.Prog)
	gotTrace := ev.TraceString()
	if got.Kind != ev.Value {
		res.Err = fmt.Sprintf("program:\n%s\n  expected value %s\n  got %s\n  expected trace: %s\n  got trace:      %s", c.Prog, showVals(want.Vals), got, want.Trace, gotTrace)
		return res
	}
	if w, g := showVals(want.Vals), show(got.Val); w != g {
		res.Err = fmt.Sprintf("program:\n%s\n  expected value %s\n  got value      %s", c.Prog, w, g)
		return res
	}
	if want.Trace != gotTrace {
		res.Err = fmt.Sprintf("program:\n%s\n  value %s as expected, but the side effects differ\n  expected trace: %s\n  got trace:      %s", c.Prog, showVals(want.Vals), want.Trace, gotTrace)
		return res
	}
	// the whole program once more in the same session: every defun is now a redefinition, closures defined
	// inside a let get a fresh binding, and the results must be the same again
	m.Trace = nil
	want2 := m.Run(forms)
	ev.ResetTrace()
	got2 := ev.EvalForms(scope, c.Prog)
	gotTrace2 := ev.TraceString()
	if got2.Kind != ev.Value || showVals(want2.Vals) != show(got2.Val) || want2.Trace != gotTrace2 {
		res.Err = fmt.Sprintf("program evaluated a second time in the same session:\n%s\n  expected value %s\n  got %s\n  expected trace: %s\n  got trace:      %s", c.Prog, showVals(want2.Vals), got2, want2.Trace, gotTrace2)
		return res
	}
	// the same code objects (read once) evaluated twice: the first evaluation compiles argument slots in place, the
	// second one runs what the first one left behind, and must give the same results again
	if code, o := ev.ReadForms(scope, c.Prog); o.Kind == ev.Value {
		for k := 1; k <= 2; k++ {
			m.Trace = nil
			wantK := m.Run(forms)
			ev.ResetTrace()
			gotK := ev.EvalObjects(scope, code)
			gotTraceK := ev.TraceString()
			if gotK.Kind != ev.Value || showVals(wantK.Vals) != show(gotK.Val) || wantK.Trace != gotTraceK {
				res.Err = fmt.Sprintf("program read once, evaluation %d of the same code object:\n%s\n  expected value %s\n  got %s\n  expected trace: %s\n  got trace:      %s", k, c.Prog, showVals(wantK.Vals), gotK, wantK.Trace, gotTraceK)
				return res
			}
		}
	}
	// once more in a world where every variable name of the pool is also a global variable: the programs are closed, so
	// every occurrence of such a name is bound by the program and must not see (or change) the global
	for i, name := range []string{"a", "b", "c", "d", "w"} {
		slip.CurrentPackage.Set(name, slip.Fixnum(9001+i))
	}
	defer func() {
		for _, name := range []string{"a", "b", "c", "d", "w"} {
			slip.CurrentPackage.Remove(name)
		}
	}()
	undefine(forms)
	m.Trace = nil
	wantG := m.Run(forms)
	ev.ResetTrace()
	gotG := ev.EvalForms(slip.NewScope(), c.Prog)
	gotTraceG := ev.TraceString()
	if gotG.Kind != ev.Value || showVals(wantG.Vals) != show(gotG.Val) || wantG.Trace != gotTraceG {
		res.Err = fmt.Sprintf("program evaluated while global variables named a b c d w exist (values 9001..9005):\n%s\n  expected value %s\n  got %s\n  expected trace: %s\n  got trace:      %s", c.Prog, showVals(wantG.Vals), gotG, wantG.Trace, gotTraceG)
		return res
	}
	for i, name := range []string{"a", "b", "c", "d", "w"} {
		if v, _ := slip.CurrentPackage.Get(name); v != slip.Fixnum(9001+i) {
			res.Err = fmt.Sprintf("program:\n%s\n  changed the global variable %s to %s although it binds every variable it uses", c.Prog, name, slip.ObjectString(v))
			return res
		}
	}
	special := kinds["setq"] || kinds["lambda"] || kinds["dotimes"] || kinds["dolist"] || kinds["do"] || kinds["do*"] ||
		kinds["multiple-value-bind"] || kinds["multiple-value-list"] || kinds["funcall"] || kinds["mapcar"]
	res.NonTrivial = len(kinds) >= 3 && depth >= 3 && len(m.Trace) >= 2 && special
	return res
}

// excluded returns the tag of an open finding whose class contains the program ("" = none).
func excluded(forms []refeval.Val) string {
	return ""
}

func opts() proggen.Opts {
	return proggen.Opts{
		MaxDepth:       6,
		MarkOdds:       5,
		CaseVary:       true,
		NoValuesInInit: h.ExclOn("values-object-bound"), // finding C01-F1 (let binds the values object; pinned by the suite)
	}
}

func gen(rt *rapid.T) Case {
	g := proggen.New(rt, opts(), "")
	return Case{Prog: progText(g.Program())}
}

var core = h.Prop[Case]{Name: "core", Gen: gen, Run: run}

func TestC01(t *testing.T) {
	h.Rule("closed typed programs over literals, variables, calls of total built-ins, progn prog1 if when unless cond case and or let let* setq lambda funcall apply mapcar " +
		"defun (incl. bounded recursion) dolist dotimes do do* values multiple-value-bind multiple-value-list, nesting depth <= 6, variable names from a pool of five so that shadowing " +
		"and closure capture under rebinding occur, (vt:mark k e) around half of the evaluated positions; oracle: independent reference evaluator (value(s) and whole ordered trace equal). " +
		"Non-trivial: >= 3 form kinds, depth >= 3, >= 2 trace events and one of setq/lambda/loop/multiple values/funcall/mapcar. Distinct by program text.")
	h.Assume("internal/refeval implements the language definition for this subset (it is ~600 lines written from the definition, not from slip)")
	h.RunProp(t, core, h.N(25000, 250000))
	h.RunProp(t, quote, h.N(6000, 200000))
}
