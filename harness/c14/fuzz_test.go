package c14

import (
	"testing"

	"verif/harness/internal/h"
)

// Native fuzz targets over the generators of the sub-properties (h.FuzzRapid): the fuzzer's bytes are rapid's bit stream.

func warmAll() {
	setup() // the table of documented keywords the generators consult
	h.Warm(pKnown)
}

func FuzzItem(f *testing.F) { h.FuzzRapid(f, "c14", pItem, warmAll) }

func FuzzTwoSequences(f *testing.F) { h.FuzzRapid(f, "c14", pTwo, warmAll) }

func FuzzSortMerge(f *testing.F) { h.FuzzRapid(f, "c14", pSort, warmAll) }
