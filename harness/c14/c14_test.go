// Package c14 checks property C14: the sequence functions honour their keyword
// arguments on lists, vectors and strings. Generated and enumerated calls are
// compared with the reference model internal/refseq (written from CLHS).
package c14

import (
	"fmt"
	"strconv"
	"strings"
	"testing"

	"github.com/ohler55/slip"

	"verif/harness/internal/ev"
	"verif/harness/internal/h"
	"verif/harness/internal/refseq"
	"verif/harness/internal/sx"
)

func TestMain(m *testing.M) { h.Main(m, "C14") }

// Case is one call of a sequence function. Elements are small integers
// (alphabet 0..3); Kind says how they are materialised: as fixnums in a list
// or vector, as conses (v . index) when Pairs is set (so every element has an
// identity), or as the characters a..d of a string. Keyword arguments are
// strings: "" = not supplied, otherwise the literal value ("nil", "t", "3").
type Case struct {
	Fn      string `json:"fn"`
	Kind    string `json:"kind"`
	Pairs   bool   `json:"pairs,omitempty"`
	Seq     []int  `json:"seq"`
	Kind2   string `json:"kind2,omitempty"`
	Seq2    []int  `json:"seq2,omitempty"`
	Kind3   string `json:"kind3,omitempty"`
	Seq3    []int  `json:"seq3,omitempty"`
	NSeq    int    `json:"nseq,omitempty"` // number of sequence arguments for &rest functions
	Item    int    `json:"item,omitempty"` // in the domain of the key values (a character code for character keys)
	New     int    `json:"new,omitempty"`  // element-space value of the substitute/fill item
	Pred    string `json:"pred,omitempty"` // predicate of the -if functions, ordering predicate of sort/merge, function of map/reduce
	Key     string `json:"key,omitempty"`
	Test    string `json:"test,omitempty"`
	Start   string `json:"start,omitempty"`
	End     string `json:"end,omitempty"`
	Count   string `json:"count,omitempty"`
	FromEnd string `json:"from_end,omitempty"`
	Start1  string `json:"start1,omitempty"`
	End1    string `json:"end1,omitempty"`
	Start2  string `json:"start2,omitempty"`
	End2    string `json:"end2,omitempty"`
	Init    string `json:"init,omitempty"`  // reduce :initial-value
	RType   string `json:"rtype,omitempty"` // result type of map/merge/concatenate
	Style   int    `json:"style,omitempty"` // how function designators are written: 0 #'f, 1 'f, 2 (lambda ...); 3 4 5: a lambda whose true value is not t (0, :yes, a list): predicates and tests answer a generalized boolean
	Rot     int    `json:"rot,omitempty"`   // rotation of the keyword argument order
}

// ---------------------------------------------------------------- values

// V is a model value: an integer, a character, or an opaque object known by its canonical text.
type V struct {
	K byte // 'i' integer, 'c' character, 'o' other
	N int
	T string
}

func vi(n int) V    { return V{K: 'i', N: n} }
func vc(n int) V    { return V{K: 'c', N: n} }
func vo(t string) V { return V{K: 'o', T: t} }
func vb(b bool) V {
	if b {
		return vo("t")
	}
	return vo("nil")
}

// Text is the canonical text (the format of sx.Text).
func (v V) Text() string {
	switch v.K {
	case 'i':
		return strconv.Itoa(v.N)
	case 'c':
		return "#\\u" + strconv.FormatInt(int64(v.N), 16)
	}
	return v.T
}

// Src is the Lisp source of the value as a literal.
func (v V) Src() string {
	switch v.K {
	case 'i':
		return strconv.Itoa(v.N)
	case 'c':
		return "#\\" + string(rune(v.N))
	}
	if v.T == "nil" || v.T == "t" {
		return v.T
	}
	return "'" + v.T
}

func (v V) truthy() bool { return !(v.K == 'o' && v.T == "nil") }

const sortAlphabet = "aAbB"

// charBase is the first character of the string alphabet (b..e; a and f serve as items outside it).
const charBase = 'b'

// elem is element i (value v) of a sequence of the given kind.
func (c Case) elem(kind string, v, idx int) V {
	switch {
	case kind == "string" && c.sortFamily():
		return vc(int(sortAlphabet[v&3]))
	case kind == "string":
		return vc(charBase + v)
	case c.alistFn():
		if v < 0 {
			return vo("nil")
		}
		if strings.HasPrefix(c.Fn, "rassoc") {
			return vo(fmt.Sprintf("(%d . %d)", idx, v))
		}
		return vo(fmt.Sprintf("(%d . %d)", v, idx))
	case c.Pairs:
		return vo(fmt.Sprintf("(%d . %d)", v, idx))
	}
	return vi(v)
}

func (c Case) alistFn() bool {
	return strings.HasPrefix(c.Fn, "assoc") || strings.HasPrefix(c.Fn, "rassoc")
}

func (c Case) sortFamily() bool {
	return c.Fn == "sort" || c.Fn == "stable-sort" || c.Fn == "merge"
}

// obj builds the slip object of a model value.
func obj(v V) slip.Object {
	switch v.K {
	case 'i':
		return slip.Fixnum(v.N)
	case 'c':
		return slip.Character(rune(v.N))
	}
	if v.T == "nil" {
		return nil
	}
	var a, b int
	if _, err := fmt.Sscanf(v.T, "(%d . %d)", &a, &b); err != nil {
		panic("cannot build " + v.T)
	}
	return slip.List{slip.Fixnum(a), slip.Tail{Value: slip.Fixnum(b)}}
}

func (c Case) elems(kind string, seq []int, base int) []V {
	out := make([]V, len(seq))
	for i, v := range seq {
		out[i] = c.elem(kind, v, base+i)
	}
	return out
}

// build materialises a sequence.
func build(kind string, es []V) slip.Object {
	switch kind {
	case "string":
		rs := make([]rune, len(es))
		for i, e := range es {
			rs[i] = rune(e.N)
		}
		return slip.String(rs)
	case "vector":
		l := make(slip.List, len(es))
		for i, e := range es {
			l[i] = obj(e)
		}
		return slip.NewVector(len(l), slip.TrueSymbol, nil, l, false)
	}
	if len(es) == 0 {
		return nil
	}
	l := make(slip.List, len(es))
	for i, e := range es {
		l[i] = obj(e)
	}
	return l
}

// seqText is the canonical text of a sequence of the given kind.
func seqText(kind string, es []V) string {
	switch kind {
	case "string":
		rs := make([]rune, len(es))
		for i, e := range es {
			if e.K != 'c' {
				return "#<not-a-string>"
			}
			rs[i] = rune(e.N)
		}
		return strconv.Quote(string(rs))
	case "vector":
		parts := make([]string, len(es))
		for i, e := range es {
			parts[i] = e.Text()
		}
		return "#(" + strings.Join(parts, " ") + ")"
	}
	if len(es) == 0 {
		return "nil"
	}
	parts := make([]string, len(es))
	for i, e := range es {
		parts[i] = e.Text()
	}
	return "(" + strings.Join(parts, " ") + ")"
}

// ---------------------------------------------------------------- key, test, predicates

// keyVal applies the :key of the case to element value v of a sequence of the given kind.
// Character keys are represented by their code.
func (c Case) keyVal(kind string, v int) V {
	if kind == "string" {
		ch := charBase + v
		switch c.Key {
		case "", "id":
			return vc(ch)
		case "code":
			return vi(ch)
		case "mod2":
			return vi(ch % 2)
		}
		panic("key " + c.Key + " on a string")
	}
	switch c.Key {
	case "", "id":
		if c.Pairs {
			panic("pairs need :key car")
		}
		return vi(v)
	case "car":
		return vi(v)
	case "inc":
		return vi(v + 1)
	case "mod2":
		return vi(v % 2)
	}
	panic("key " + c.Key + " on a " + kind)
}

// truthy: with the styles 3 4 5 the function answers a true value other than t.
func (c Case) truthy(src, params string) string {
	if c.Style < 3 {
		return src
	}
	v := []string{"0", ":yes", "(list nil)"}[(c.Style-3)%3]
	return "(lambda (" + params + ") (if (funcall " + src + " " + params + ") " + v + " nil))"
}

func designator(style int, name, lambda string) string {
	switch style {
	case 0:
		return "#'" + name
	case 1:
		return "'" + name
	}
	return lambda
}

func (c Case) keySrc(kind string) string {
	switch c.Key {
	case "id":
		return "(lambda (x) x)"
	case "inc":
		return designator(c.Style, "1+", "(lambda (x) (1+ x))")
	case "car":
		return designator(c.Style, "car", "(lambda (p) (car p))")
	case "code":
		return designator(c.Style, "char-code", "(lambda (ch) (char-code ch))")
	case "up":
		return designator(c.Style, "char-upcase", "(lambda (ch) (char-upcase ch))")
	case "mod2":
		if kind == "string" {
			return "(lambda (ch) (mod (char-code ch) 2))"
		}
		return "(lambda (x) (mod x 2))"
	}
	panic("no source for key " + c.Key)
}

// test2 is the model of the two-argument tests on key values; a is the item (or the element of
// sequence-1), b the key of the element (of sequence-2).
func test2(name string, a, b V) bool {
	switch name {
	case "", "eql", "equal":
		return a.K == b.K && a.N == b.N
	case "lt":
		return a.N < b.N
	case "par":
		return (a.N%2+2)%2 == (b.N%2+2)%2
	}
	panic("test " + name)
}

func (c Case) testSrc(char bool) string {
	return c.truthy(c.testSrc0(char), "a b")
}

func (c Case) testSrc0(char bool) string {
	switch c.Test {
	case "eql", "equal":
		return designator(c.Style, c.Test, "(lambda (a b) ("+c.Test+" a b))")
	case "lt":
		if char {
			return designator(c.Style, "char<", "(lambda (a b) (char< a b))")
		}
		return designator(c.Style, "<", "(lambda (a b) (< a b))")
	case "par":
		if char {
			return "(lambda (a b) (eql (mod (char-code a) 2) (mod (char-code b) 2)))"
		}
		return "(lambda (a b) (eql (mod a 2) (mod b 2)))"
	}
	panic("no source for test " + c.Test)
}

// pred1 is the model of the one-argument predicates of the -if functions.
func (c Case) pred1(k V) bool {
	switch c.Pred {
	case "even":
		return k.N%2 == 0
	case "odd":
		return k.N%2 != 0
	case "lti":
		return k.N < c.Item
	case "eqi":
		return k.N == c.Item
	case "true":
		return true
	case "false":
		return false
	}
	panic("pred " + c.Pred)
}

func (c Case) predSrc(char bool) string {
	return c.truthy(c.predSrc0(char), "x")
}

func (c Case) predSrc0(char bool) string {
	item := vi(c.Item)
	if char {
		item = vc(c.Item)
	}
	switch c.Pred {
	case "even", "odd":
		if char {
			return "(lambda (ch) (" + c.Pred + "p (char-code ch)))"
		}
		return designator(c.Style, c.Pred+"p", "(lambda (x) ("+c.Pred+"p x))")
	case "lti":
		if char {
			return "(lambda (ch) (char< ch " + item.Src() + "))"
		}
		return "(lambda (x) (< x " + item.Src() + "))"
	case "eqi":
		return "(lambda (x) (eql x " + item.Src() + "))"
	case "true":
		return "(lambda (x) t)"
	case "false":
		return "(lambda (x) nil)"
	}
	panic("no source for pred " + c.Pred)
}

// ---------------------------------------------------------------- keywords

func bound(s string, def int) int {
	if s == "" || s == "nil" {
		return def
	}
	n, err := strconv.Atoi(s)
	if err != nil {
		panic("bad bound " + s)
	}
	return n
}

type kw struct{ k, v string }

// keywords builds the keyword argument text in a rotated order.
func (c Case) keywords(kind string, char bool) (string, int) {
	var ks []kw
	add := func(k, v string) {
		if v != "" {
			ks = append(ks, kw{k, v})
		}
	}
	add(":start", c.Start)
	add(":end", c.End)
	if c.Key != "" {
		add(":key", c.keySrc(kind))
	}
	if c.Test != "" {
		add(":test", c.testSrc(char))
	}
	add(":count", c.Count)
	add(":from-end", c.FromEnd)
	add(":start1", c.Start1)
	add(":end1", c.End1)
	add(":start2", c.Start2)
	add(":end2", c.End2)
	add(":initial-value", c.Init)
	var b strings.Builder
	for i := range ks {
		x := ks[(i+c.Rot)%len(ks)]
		b.WriteByte(' ')
		b.WriteString(x.k)
		b.WriteByte(' ')
		b.WriteString(x.v)
	}
	return b.String(), len(ks)
}

func hasDup(seq []int) bool {
	seen := map[int]bool{}
	for _, v := range seq {
		if seen[v] {
			return true
		}
		seen[v] = true
	}
	return false
}

// ---------------------------------------------------------------- running a call

type call struct {
	c      Case
	res    *h.Result
	scope  *slip.Scope
	inputs []input
}

type input struct {
	name   string
	obj    slip.Object
	before string
}

func newCall(c Case) *call {
	return &call{c: c, res: &h.Result{Classes: []string{"fn:" + c.Fn, "kind:" + c.Kind}}, scope: slip.NewScope()}
}

func (k *call) bind(name, kind string, es []V) {
	o := build(kind, es)
	k.scope.Let(slip.Symbol(name), o)
	k.inputs = append(k.inputs, input{name, o, sx.Text(o)})
}

func (k *call) fail(format string, args ...any) *h.Result {
	k.res.Err = fmt.Sprintf(format, args...)
	return k.res
}

// eval evaluates src; a condition or fault is a failure (every generated call is valid).
func (k *call) eval(src string) (slip.Object, bool) {
	out := ev.Eval(k.scope, src)
	if out.Kind != ev.Value {
		k.fail("%s with %s: got %s", src, k.inputsText(), out)
		return nil, false
	}
	return out.Val, true
}

func (k *call) inputsText() string {
	var parts []string
	for _, in := range k.inputs {
		parts = append(parts, in.name+"="+in.before)
	}
	return strings.Join(parts, " ")
}

// expect compares the result text.
func (k *call) expect(src string, got slip.Object, want string) bool {
	if g := sx.Text(got); g != want {
		k.fail("%s with %s: expected %s, got %s", src, k.inputsText(), want, g)
		return false
	}
	return true
}

// unchanged verifies that a non-destructive function left its arguments alone.
func (k *call) unchanged(src string) bool {
	for _, in := range k.inputs {
		if now := sx.Text(in.obj); now != in.before {
			k.fail("%s altered its argument %s: %s -> %s", src, in.name, in.before, now)
			return false
		}
	}
	return true
}

func nonTrivial(c Case, nkeys int, seq []int, needKeys bool) bool {
	if needKeys {
		h.Class("keywords-supplied:"+strconv.Itoa(nkeys), 1)
		if c.FromEnd != "" && c.Count != "" {
			h.Class("from-end-with-count", 1)
		}
	}
	h.Class("length:"+strconv.Itoa(min(len(seq), 9)), 1)
	if len(seq) < 3 || !hasDup(seq) {
		return false
	}
	if !needKeys || len(docKeys[c.Fn]) < 2 {
		return true
	}
	return nkeys >= 2 || (c.FromEnd != "" && c.Count != "")
}

// run dispatches on the function.
func run(c Case) *h.Result {
	switch c.Fn {
	case "find", "find-if", "position", "position-if", "count", "count-if",
		"remove", "remove-if", "delete", "delete-if",
		"substitute", "substitute-if", "nsubstitute", "nsubstitute-if":
		return runItem(c)
	case "remove-duplicates", "delete-duplicates":
		return runDup(c)
	case "member", "member-if", "assoc", "assoc-if", "assoc-if-not", "rassoc", "rassoc-if":
		return runAlist(c)
	case "search", "mismatch", "replace":
		return runTwo(c)
	case "subseq", "fill", "reverse", "nreverse", "copy-seq", "concatenate":
		return runSimple(c)
	case "sort", "stable-sort", "merge":
		return runSort(c)
	case "union", "nunion", "intersection", "nintersection", "set-difference", "nset-difference",
		"set-exclusive-or", "subsetp", "adjoin":
		return runSet(c)
	case "every", "some", "notany", "notevery", "map", "mapcar", "mapc", "reduce":
		return runMap(c)
	}
	return h.Fail("function %s is not modelled", c.Fn)
}

func isIf(fn string) bool { return strings.HasSuffix(fn, "-if") || strings.HasSuffix(fn, "-if-not") }

// charDomain: are the key values characters?
func (c Case) charDomain(kind string) bool {
	return kind == "string" && (c.Key == "" || c.Key == "id")
}

func (c Case) itemV(kind string) V {
	if c.charDomain(kind) {
		return vc(c.Item)
	}
	return vi(c.Item)
}

func countPtr(s string) *int {
	if s == "" || s == "nil" {
		return nil
	}
	n, err := strconv.Atoi(s)
	if err != nil {
		panic("bad count " + s)
	}
	return &n
}

func truth(s string) bool { return s != "" && s != "nil" }

// ---- find position count remove delete substitute (+ -if)

func runItem(c Case) *h.Result {
	k := newCall(c)
	n := len(c.Seq)
	es := c.elems(c.Kind, c.Seq, 0)
	char := c.charDomain(c.Kind)
	kws, nk := c.keywords(c.Kind, char)
	k.res.NonTrivial = nonTrivial(c, nk, c.Seq, true)
	if tag := excluded(c); tag != "" {
		k.res.Skip = tag
		return k.res
	}
	s, e := bound(c.Start, 0), bound(c.End, n)
	item := c.itemV(c.Kind)
	sat := func(i int) bool {
		kv := c.keyVal(c.Kind, c.Seq[i])
		if isIf(c.Fn) {
			return c.pred1(kv)
		}
		return test2(c.Test, item, kv)
	}
	first := item.Src()
	if isIf(c.Fn) {
		first = c.predSrc(char)
	}
	base := strings.TrimSuffix(c.Fn, "-if")
	newV := c.elem(c.Kind, c.New, -1)
	if c.Kind != "string" && !c.Pairs {
		newV = vi(c.New + 10)
	}
	src := fmt.Sprintf("(%s %s s%s)", c.Fn, first, kws)
	if base == "substitute" || base == "nsubstitute" {
		src = fmt.Sprintf("(%s %s %s s%s)", c.Fn, newV.Src(), first, kws)
	}
	k.bind("s", c.Kind, es)
	got, ok := k.eval(src)
	if !ok {
		return k.res
	}
	var want string
	switch base {
	case "find":
		want = "nil"
		if i := refseq.Find(s, e, truth(c.FromEnd), sat); i >= 0 {
			want = es[i].Text()
		}
	case "position":
		want = "nil"
		if i := refseq.Find(s, e, truth(c.FromEnd), sat); i >= 0 {
			want = strconv.Itoa(i)
		}
	case "count":
		want = strconv.Itoa(refseq.Count(s, e, sat))
	case "remove", "delete":
		sel := refseq.Select(n, s, e, countPtr(c.Count), truth(c.FromEnd), sat)
		var keep []V
		for i, x := range es {
			if !sel[i] {
				keep = append(keep, x)
			}
		}
		want = seqText(c.Kind, keep)
	case "substitute", "nsubstitute":
		sel := refseq.Select(n, s, e, countPtr(c.Count), truth(c.FromEnd), sat)
		out := make([]V, n)
		for i, x := range es {
			out[i] = x
			if sel[i] {
				out[i] = newV
			}
		}
		want = seqText(c.Kind, out)
	}
	if !k.expect(src, got, want) {
		return k.res
	}
	if base != "delete" && base != "nsubstitute" {
		k.unchanged(src)
	}
	return k.res
}

// ---- remove-duplicates delete-duplicates

func runDup(c Case) *h.Result {
	k := newCall(c)
	n := len(c.Seq)
	es := c.elems(c.Kind, c.Seq, 0)
	char := c.charDomain(c.Kind)
	kws, nk := c.keywords(c.Kind, char)
	k.res.NonTrivial = nonTrivial(c, nk, c.Seq, true)
	if tag := excluded(c); tag != "" {
		k.res.Skip = tag
		return k.res
	}
	if c.Test == "lt" {
		return k.fail("remove-duplicates is only modelled for equivalence tests")
	}
	s, e := bound(c.Start, 0), bound(c.End, n)
	gone := refseq.RemoveDup(n, s, e, truth(c.FromEnd), func(i, j int) bool {
		return test2(c.Test, c.keyVal(c.Kind, c.Seq[i]), c.keyVal(c.Kind, c.Seq[j]))
	})
	var keep []V
	for i, x := range es {
		if !gone[i] {
			keep = append(keep, x)
		}
	}
	src := fmt.Sprintf("(%s s%s)", c.Fn, kws)
	k.bind("s", c.Kind, es)
	got, ok := k.eval(src)
	if !ok {
		return k.res
	}
	if !k.expect(src, got, seqText(c.Kind, keep)) {
		return k.res
	}
	if c.Fn == "remove-duplicates" {
		k.unchanged(src)
	}
	return k.res
}

// ---- member assoc rassoc (+ -if, -if-not)

func runAlist(c Case) *h.Result {
	k := newCall(c)
	n := len(c.Seq)
	if c.Kind != "list" {
		return k.fail("%s takes a list", c.Fn)
	}
	es := c.elems("list", c.Seq, 0)
	kws, nk := c.keywords("list", false)
	k.res.NonTrivial = nonTrivial(c, nk, c.Seq, true)
	if tag := excluded(c); tag != "" {
		k.res.Skip = tag
		return k.res
	}
	item := vi(c.Item)
	sat := func(i int) bool {
		if c.Seq[i] < 0 {
			return false // a nil entry of an alist is skipped
		}
		kv := c.keyVal("list", c.Seq[i])
		switch {
		case strings.HasSuffix(c.Fn, "-if-not"):
			return !c.pred1(kv)
		case strings.HasSuffix(c.Fn, "-if"):
			return c.pred1(kv)
		}
		return test2(c.Test, item, kv)
	}
	first := item.Src()
	if isIf(c.Fn) {
		first = c.predSrc(false)
	}
	src := fmt.Sprintf("(%s %s s%s)", c.Fn, first, kws)
	k.bind("s", "list", es)
	got, ok := k.eval(src)
	if !ok {
		return k.res
	}
	i := refseq.Find(0, n, false, sat)
	want := "nil"
	if i >= 0 {
		if strings.HasPrefix(c.Fn, "member") {
			want = seqText("list", es[i:])
		} else {
			want = es[i].Text()
		}
	}
	if k.expect(src, got, want) {
		k.unchanged(src)
	}
	return k.res
}

// ---- search mismatch replace

func runTwo(c Case) *h.Result {
	k := newCall(c)
	n1, n2 := len(c.Seq), len(c.Seq2)
	if (c.Kind == "string") != (c.Kind2 == "string") {
		return k.fail("%s: the two sequences must both be strings or neither", c.Fn)
	}
	es1, es2 := c.elems(c.Kind, c.Seq, 0), c.elems(c.Kind2, c.Seq2, 100)
	char := c.charDomain(c.Kind)
	kws, nk := c.keywords(c.Kind, char)
	main := c.Seq2
	if c.Fn != "search" {
		main = c.Seq
	}
	k.res.NonTrivial = nonTrivial(c, nk, main, true)
	k.res.Classes = append(k.res.Classes, "kind2:"+c.Kind2)
	if tag := excluded(c); tag != "" {
		k.res.Skip = tag
		return k.res
	}
	s1, e1 := bound(c.Start1, 0), bound(c.End1, n1)
	s2, e2 := bound(c.Start2, 0), bound(c.End2, n2)
	eq := func(i, j int) bool {
		return test2(c.Test, c.keyVal(c.Kind, c.Seq[i]), c.keyVal(c.Kind2, c.Seq2[j]))
	}
	src := fmt.Sprintf("(%s s1 s2%s)", c.Fn, kws)
	k.bind("s1", c.Kind, es1)
	k.bind("s2", c.Kind2, es2)
	got, ok := k.eval(src)
	if !ok {
		return k.res
	}
	switch c.Fn {
	case "search":
		p := refseq.Search(s1, e1, s2, e2, truth(c.FromEnd), eq)
		want := "nil"
		if p >= 0 {
			want = strconv.Itoa(p)
		}
		if e1 == s1 && truth(c.FromEnd) {
			// an empty pattern matches everywhere; which position :from-end reports is left open
			k.res.Classes = append(k.res.Classes, "search:empty-pattern-from-end")
			if g := sx.Text(got); g != strconv.Itoa(s2) && g != strconv.Itoa(e2) {
				k.fail("%s with %s: expected %d or %d, got %s", src, k.inputsText(), s2, e2, g)
			}
		} else if !k.expect(src, got, want) {
			return k.res
		}
		k.unchanged(src)
	case "mismatch":
		p := refseq.Mismatch(s1, e1, s2, e2, truth(c.FromEnd), eq)
		want := "nil"
		if p >= 0 {
			want = strconv.Itoa(p)
		}
		if k.expect(src, got, want) {
			k.unchanged(src)
		}
	case "replace":
		from := refseq.Replace(n1, s1, e1, s2, e2)
		out := make([]V, n1)
		for i := range out {
			out[i] = es1[i]
			if from[i] >= 0 {
				out[i] = es2[from[i]]
			}
		}
		if !k.expect(src, got, seqText(c.Kind, out)) {
			return k.res
		}
		// sequence-2 is never modified
		if now := sx.Text(k.inputs[1].obj); now != k.inputs[1].before {
			k.fail("%s altered sequence-2: %s -> %s", src, k.inputs[1].before, now)
		}
	}
	return k.res
}

// ---- subseq fill reverse nreverse copy-seq concatenate

func runSimple(c Case) *h.Result {
	k := newCall(c)
	n := len(c.Seq)
	es := c.elems(c.Kind, c.Seq, 0)
	if tag := excluded(c); tag != "" {
		k.res.Skip = tag
		return k.res
	}
	var src, want string
	destructive := false
	k.bind("s", c.Kind, es)
	switch c.Fn {
	case "subseq":
		s, e := bound(c.Start, 0), bound(c.End, n)
		src = "(subseq s " + strconv.Itoa(s)
		if c.End != "" {
			src += " " + c.End
		}
		src += ")"
		want = seqText(c.Kind, es[s:e])
		k.res.NonTrivial = nonTrivial(c, 0, c.Seq, false) && (s > 0 || e < n)
	case "fill":
		s, e := bound(c.Start, 0), bound(c.End, n)
		kws, nk := c.keywords(c.Kind, false)
		item := c.elem(c.Kind, c.New, -1)
		if c.Kind != "string" && !c.Pairs {
			item = vi(c.New + 10)
		}
		src = fmt.Sprintf("(fill s %s%s)", item.Src(), kws)
		out := append([]V(nil), es...)
		for i := s; i < e; i++ {
			out[i] = item
		}
		want = seqText(c.Kind, out)
		destructive = true
		k.res.NonTrivial = nonTrivial(c, nk, c.Seq, true)
	case "reverse", "nreverse":
		src = "(" + c.Fn + " s)"
		out := make([]V, n)
		for i, x := range es {
			out[n-1-i] = x
		}
		want = seqText(c.Kind, out)
		destructive = c.Fn == "nreverse"
		k.res.NonTrivial = nonTrivial(c, 0, c.Seq, false)
	case "copy-seq":
		src = "(copy-seq s)"
		want = seqText(c.Kind, es)
		k.res.NonTrivial = nonTrivial(c, 0, c.Seq, false)
	case "concatenate":
		all := [][]V{es, c.elems(c.Kind2, c.Seq2, 100), c.elems(c.Kind3, c.Seq3, 200)}
		kinds := []string{c.Kind, c.Kind2, c.Kind3}
		names := []string{"s", "s2", "s3"}
		var out []V
		src = "(concatenate '" + c.RType
		for i := 0; i < c.NSeq && i < 3; i++ {
			if i > 0 {
				k.bind(names[i], kinds[i], all[i])
			}
			src += " " + names[i]
			out = append(out, all[i]...)
		}
		src += ")"
		want = seqText(c.RType, out)
		k.res.NonTrivial = c.NSeq >= 2 && len(out) >= 3
		k.res.Classes = append(k.res.Classes, "rtype:"+c.RType)
	}
	got, ok := k.eval(src)
	if !ok {
		return k.res
	}
	if k.expect(src, got, want) && !destructive {
		k.unchanged(src)
	}
	return k.res
}

// ---- sort stable-sort merge

// sortKey is the value the ordering predicate sees for element value v.
func (c Case) sortKey(kind string, v int) int {
	if kind == "string" {
		if c.Key == "up" || c.Pred == "llt" || c.Pred == "lgt" {
			return v / 2 // case-insensitive letter
		}
		return int(sortAlphabet[v&3])
	}
	switch c.Key {
	case "inc":
		return v + 1
	case "mod2":
		return v % 2
	}
	return v
}

func (c Case) orderSrc(kind string) string {
	return c.truthy(c.orderSrc0(kind), "x y")
}

func (c Case) orderSrc0(kind string) string {
	desc := c.Pred == "gt" || c.Pred == "lgt"
	op := "<"
	if desc {
		op = ">"
	}
	switch {
	case c.Pred == "llt" || c.Pred == "lgt":
		if kind == "string" {
			return "(lambda (x y) (char" + op + " (char-upcase x) (char-upcase y)))"
		}
		return "(lambda (x y) (" + op + " (car x) (car y)))"
	case kind == "string":
		return designator(c.Style, "char"+op, "(lambda (x y) (char"+op+" x y))")
	}
	return designator(c.Style, op, "(lambda (x y) ("+op+" x y))")
}

func runSort(c Case) *h.Result {
	k := newCall(c)
	if tag := excluded(c); tag != "" {
		k.res.Skip = tag
		return k.res
	}
	desc := c.Pred == "gt" || c.Pred == "lgt"
	lessK := func(a, b int) bool {
		if desc {
			return a > b
		}
		return a < b
	}
	// validity of the case itself
	if c.Pairs && c.Key != "car" && c.Pred != "llt" && c.Pred != "lgt" {
		return k.fail("pairs need :key car or a predicate on the cars")
	}
	key := ""
	if c.Key != "" {
		key = " :key " + c.keySrc(c.Kind)
	}
	n := len(c.Seq)
	es := c.elems(c.Kind, c.Seq, 0)
	if c.Fn != "merge" {
		src := fmt.Sprintf("(%s s %s%s)", c.Fn, c.orderSrc(c.Kind), key)
		k.bind("s", c.Kind, es)
		k.res.NonTrivial = n >= 3 && hasDup(c.Seq)
		if n > 12 {
			k.res.Classes = append(k.res.Classes, "sort:longer-than-12")
		}
		got, ok := k.eval(src)
		if !ok {
			return k.res
		}
		ord := refseq.StableOrder(n, func(i, j int) bool {
			return lessK(c.sortKey(c.Kind, c.Seq[i]), c.sortKey(c.Kind, c.Seq[j]))
		})
		stable := make([]V, n)
		for i, p := range ord {
			stable[i] = es[p]
		}
		if c.Fn == "stable-sort" {
			k.expect(src, got, seqText(c.Kind, stable))
			return k.res
		}
		// sort: a permutation of the input with no adjacent pair out of order
		items, kind, good := unpack(got)
		if !good || kind != c.Kind {
			return k.fail("%s with %s: expected a %s, got %s", src, k.inputsText(), c.Kind, sx.Text(got))
		}
		if len(items) != n {
			return k.fail("%s with %s: result %s is not a permutation of the input", src, k.inputsText(), sx.Text(got))
		}
		left := map[string]int{}
		val := map[string]int{}
		for i, x := range es {
			left[x.Text()]++
			val[x.Text()] = c.Seq[i]
		}
		keys := make([]int, n)
		for i, it := range items {
			t := sx.Text(it)
			if left[t] == 0 {
				return k.fail("%s with %s: result %s is not a permutation of the input", src, k.inputsText(), sx.Text(got))
			}
			left[t]--
			keys[i] = c.sortKey(c.Kind, val[t])
		}
		for i := 0; i+1 < n; i++ {
			if lessK(keys[i+1], keys[i]) {
				return k.fail("%s with %s: result %s is out of order at %d", src, k.inputsText(), sx.Text(got), i)
			}
		}
		return k.res
	}
	// merge
	es2 := c.elems(c.Kind2, c.Seq2, 100)
	sorted := func(kind string, seq []int) bool {
		for i := 0; i+1 < len(seq); i++ {
			if lessK(c.sortKey(kind, seq[i+1]), c.sortKey(kind, seq[i])) {
				return false
			}
		}
		return true
	}
	k.res.Classes = append(k.res.Classes, "rtype:"+c.RType, "kind2:"+c.Kind2)
	if !sorted(c.Kind, c.Seq) || !sorted(c.Kind2, c.Seq2) {
		k.res.Classes = append(k.res.Classes, "merge:unsorted-input-not-judged")
		return k.res
	}
	if (c.Kind == "string") != (c.Kind2 == "string") || (c.RType == "string") != (c.Kind == "string") {
		return k.fail("merge: strings only merge with strings into a string")
	}
	picks := refseq.Merge(len(c.Seq), len(c.Seq2), func(a, b refseq.Pick) bool {
		va, vb2 := 0, 0
		if a.Side == 0 {
			va = c.sortKey(c.Kind, c.Seq[a.Idx])
		} else {
			va = c.sortKey(c.Kind2, c.Seq2[a.Idx])
		}
		if b.Side == 0 {
			vb2 = c.sortKey(c.Kind, c.Seq[b.Idx])
		} else {
			vb2 = c.sortKey(c.Kind2, c.Seq2[b.Idx])
		}
		return lessK(va, vb2)
	})
	out := make([]V, len(picks))
	for i, p := range picks {
		if p.Side == 0 {
			out[i] = es[p.Idx]
		} else {
			out[i] = es2[p.Idx]
		}
	}
	src := fmt.Sprintf("(merge '%s s1 s2 %s%s)", c.RType, c.orderSrc(c.Kind), key)
	k.bind("s1", c.Kind, es)
	k.bind("s2", c.Kind2, es2)
	k.res.NonTrivial = len(out) >= 3 && len(c.Seq) > 0 && len(c.Seq2) > 0
	got, ok := k.eval(src)
	if !ok {
		return k.res
	}
	k.expect(src, got, seqText(c.RType, out))
	return k.res
}

// unpack gives the elements and kind of a sequence result.
func unpack(o slip.Object) ([]slip.Object, string, bool) {
	switch t := o.(type) {
	case nil:
		return nil, "list", true
	case slip.List:
		return []slip.Object(t), "list", true
	case *slip.Vector:
		return []slip.Object(t.AsList()), "vector", true
	case slip.String:
		var out []slip.Object
		for _, r := range []rune(t) {
			out = append(out, slip.Character(r))
		}
		return out, "string", true
	}
	return nil, "", false
}

// ---- union intersection set-difference set-exclusive-or subsetp adjoin

func runSet(c Case) *h.Result {
	k := newCall(c)
	if c.Kind != "list" || (c.Fn != "adjoin" && c.Kind2 != "list") {
		return k.fail("%s takes lists", c.Fn)
	}
	kws, nk := c.keywords("list", false)
	k.res.NonTrivial = len(c.Seq)+len(c.Seq2) >= 3 && (hasDup(append(append([]int(nil), c.Seq...), c.Seq2...))) && nk >= 1
	if tag := excluded(c); tag != "" {
		k.res.Skip = tag
		return k.res
	}
	es1, es2 := c.elems("list", c.Seq, 0), c.elems("list", c.Seq2, 100)
	kv := func(v int) V { return c.keyVal("list", v) }
	if c.Fn == "adjoin" {
		item := vi(c.Item) // element space
		src := fmt.Sprintf("(adjoin %s s%s)", item.Src(), kws)
		k.bind("s", "list", es1)
		got, ok := k.eval(src)
		if !ok {
			return k.res
		}
		present := false
		for _, v := range c.Seq {
			if test2(c.Test, kv(c.Item), kv(v)) {
				present = true
			}
		}
		out := es1
		if !present {
			out = append([]V{item}, es1...)
		}
		if k.expect(src, got, seqText("list", out)) {
			k.unchanged(src)
		}
		return k.res
	}
	src := fmt.Sprintf("(%s s1 s2%s)", c.Fn, kws)
	k.bind("s1", "list", es1)
	k.bind("s2", "list", es2)
	got, ok := k.eval(src)
	if !ok {
		return k.res
	}
	match := func(i, j int) bool { return test2(c.Test, kv(c.Seq[i]), kv(c.Seq2[j])) }
	m1 := make([]bool, len(c.Seq))  // element of list-1 has a partner in list-2
	m2 := make([]bool, len(c.Seq2)) // element of list-2 has a partner in list-1
	for i := range c.Seq {
		for j := range c.Seq2 {
			if match(i, j) {
				m1[i], m2[j] = true, true
			}
		}
	}
	if c.Fn == "subsetp" {
		all := true
		for _, m := range m1 {
			all = all && m
		}
		if (got != nil) != all {
			k.fail("%s with %s: expected %v, got %s", src, k.inputsText(), all, sx.Text(got))
		} else {
			k.unchanged(src)
		}
		return k.res
	}
	items, kind, good := unpack(got)
	if !good || kind != "list" {
		return k.fail("%s with %s: expected a list, got %s", src, k.inputsText(), sx.Text(got))
	}
	in := map[string]int{}
	for _, it := range items {
		in[sx.Text(it)]++
	}
	avail := map[string]int{}    // how often a text occurs in the arguments
	allowed := map[string]bool{} // texts that may occur in the result
	must := map[string]bool{}    // texts that must occur
	valOf := map[string]int{}    // text -> element value
	var cover []int              // element values whose equivalence class must be represented (equivalence tests)
	type pair struct{ a, b string }
	var oneOf []pair // matched pairs of which one member must be present (asymmetric test)
	equiv := c.Test != "lt"
	t1 := func(i int) string { return es1[i].Text() }
	t2 := func(j int) string { return es2[j].Text() }
	for i, v := range c.Seq {
		avail[t1(i)]++
		valOf[t1(i)] = v
	}
	for j, v := range c.Seq2 {
		avail[t2(j)]++
		valOf[t2(j)] = v
	}
	// lone: the element is related (in either direction) to no other element of either list
	rel := func(a, b int) bool { return test2(c.Test, kv(a), kv(b)) || test2(c.Test, kv(b), kv(a)) }
	all := append(append([]int(nil), c.Seq...), c.Seq2...)
	lone := func(pos int) bool {
		for q, w := range all {
			if q != pos && rel(all[pos], w) {
				return false
			}
		}
		return true
	}
	switch c.Fn {
	case "union", "nunion":
		// every element of either list, except that of a matching pair only one is required and that
		// duplicates inside a list may be dropped
		for i := range es1 {
			allowed[t1(i)] = true
			if lone(i) {
				must[t1(i)] = true
			}
		}
		for j := range es2 {
			allowed[t2(j)] = true
			if lone(len(es1) + j) {
				must[t2(j)] = true
			}
		}
		if equiv {
			cover = all
		}
	case "intersection", "nintersection":
		for i := range es1 {
			if m1[i] {
				allowed[t1(i)] = true
				if equiv {
					cover = append(cover, c.Seq[i])
				}
			}
		}
		for j := range es2 {
			if m2[j] {
				allowed[t2(j)] = true
			}
		}
		if !equiv {
			// duplicates inside a list (under the test) may be dropped, so with an asymmetric test
			// only this much is fixed: a matching pair exists iff the result is not empty
			for i := range es1 {
				if m1[i] && len(items) == 0 {
					oneOf = append(oneOf, pair{t1(i), t1(i)})
				}
			}
		}
	case "set-difference", "nset-difference":
		for i := range es1 {
			if !m1[i] {
				allowed[t1(i)] = true
				must[t1(i)] = true
			}
		}
	case "set-exclusive-or":
		for i := range es1 {
			if !m1[i] {
				allowed[t1(i)] = true
				must[t1(i)] = true
			}
		}
		for j := range es2 {
			if !m2[j] {
				allowed[t2(j)] = true
				must[t2(j)] = true
			}
		}
	}
	bad := func(why string) *h.Result {
		return k.fail("%s with %s: result %s %s", src, k.inputsText(), sx.Text(got), why)
	}
	for _, t := range sortedCount(in) {
		if !allowed[t] {
			return bad("contains " + t + " which does not belong to it")
		}
		if in[t] > avail[t] {
			return bad("contains " + t + " more often than the arguments do")
		}
	}
	for _, t := range sortedKeys(must) {
		if in[t] == 0 {
			return bad("lacks " + t)
		}
	}
	for _, v := range cover {
		found := false
		for _, t := range sortedCount(in) {
			if test2(c.Test, kv(v), kv(valOf[t])) {
				found = true
				break
			}
		}
		if !found {
			return bad(fmt.Sprintf("has no element matching %d", v))
		}
	}
	for _, p := range oneOf {
		if in[p.a] == 0 && in[p.b] == 0 {
			return bad("has neither " + p.a + " nor " + p.b)
		}
	}
	// with an equivalence test and no duplicates inside either list the size is determined
	if equiv && !dupUnder(c, c.Seq) && !dupUnder(c, c.Seq2) {
		common := 0
		for _, m := range m1 {
			if m {
				common++
			}
		}
		want := -1
		switch c.Fn {
		case "union", "nunion":
			want = len(c.Seq) + len(c.Seq2) - common
		case "intersection", "nintersection":
			want = common
		}
		if want >= 0 && len(items) != want {
			return bad(fmt.Sprintf("has %d elements instead of %d", len(items), want))
		}
		k.res.Classes = append(k.res.Classes, "set:size-determined")
	}
	if !strings.HasPrefix(c.Fn, "n") {
		k.unchanged(src)
	}
	return k.res
}

func dupUnder(c Case, seq []int) bool {
	for i := range seq {
		for j := i + 1; j < len(seq); j++ {
			if test2(c.Test, c.keyVal("list", seq[i]), c.keyVal("list", seq[j])) {
				return true
			}
		}
	}
	return false
}

func sortedCount(m map[string]int) []string {
	b := map[string]bool{}
	for k := range m {
		b[k] = true
	}
	return sortedKeys(b)
}

func sortedKeys(m map[string]bool) []string {
	out := make([]string, 0, len(m))
	for k := range m {
		out = append(out, k)
	}
	// insertion sort, tiny
	for i := 1; i < len(out); i++ {
		for j := i; j > 0 && out[j] < out[j-1]; j-- {
			out[j], out[j-1] = out[j-1], out[j]
		}
	}
	return out
}

// ---- every some notany notevery map mapcar mapc reduce

// fun1 / fun2 are the functions handed to the mapping functions.
func fun1(name string, a V) V {
	switch name {
	case "inc":
		return vi(a.N + 1)
	case "even":
		return vb(a.N%2 == 0)
	case "ceven":
		return vb(a.N%2 == 0)
	case "list1":
		return vo("(" + a.Text() + ")")
	case "evenlist":
		if a.N%2 == 0 {
			return vo("(" + a.Text() + ")")
		}
		return vo("nil")
	case "up":
		return vc(int(strings.ToUpper(string(rune(a.N)))[0]))
	case "code":
		return vi(a.N)
	case "tochar":
		return vc(a.N + 'a')
	case "self":
		return a
	}
	panic("fun1 " + name)
}

func fun1Src(style int, name string) string {
	switch name {
	case "inc":
		return designator(style, "1+", "(lambda (x) (1+ x))")
	case "even":
		return designator(style, "evenp", "(lambda (x) (evenp x))")
	case "ceven":
		return "(lambda (ch) (evenp (char-code ch)))"
	case "list1":
		return designator(style, "list", "(lambda (x) (list x))")
	case "evenlist":
		return "(lambda (x) (if (evenp x) (list x) nil))"
	case "up":
		return designator(style, "char-upcase", "(lambda (ch) (char-upcase ch))")
	case "code":
		return designator(style, "char-code", "(lambda (ch) (char-code ch))")
	case "tochar":
		return "(lambda (x) (code-char (+ x 97)))"
	case "self":
		return "(lambda (x) x)"
	}
	panic("fun1 " + name)
}

func fun2(name string, a, b V) V {
	switch name {
	case "list2", "llist2":
		return vo("(" + a.Text() + " " + b.Text() + ")")
	case "add":
		return vi(a.N + b.N)
	case "sub":
		return vi(a.N - b.N)
	case "lt":
		return vb(a.N < b.N)
	case "clt":
		return vb(a.N < b.N)
	case "eql2", "equal2":
		return vb(a.K == b.K && a.N == b.N && a.K != 'o')
	}
	panic("fun2 " + name)
}

func fun2Src(style int, name string) string {
	switch name {
	case "list2":
		return designator(style, "list", "(lambda (&rest xs) xs)")
	case "llist2":
		return "(lambda (a b) (list a b))"
	case "add":
		return designator(style, "+", "(lambda (&rest xs) (apply #'+ xs))")
	case "sub":
		return designator(style, "-", "(lambda (a b) (- a b))")
	case "lt":
		return designator(style, "<", "(lambda (a b) (< a b))")
	case "clt":
		return designator(style, "char<", "(lambda (a b) (char< a b))")
	case "eql2":
		return designator(style, "eql", "(lambda (a b) (eql a b))")
	case "equal2":
		return designator(style, "equal", "(lambda (a b) (equal a b))")
	}
	panic("fun2 " + name)
}

func runMap(c Case) *h.Result {
	k := newCall(c)
	if tag := excluded(c); tag != "" {
		k.res.Skip = tag
		return k.res
	}
	es := c.elems(c.Kind, c.Seq, 0)
	if c.Fn == "reduce" {
		return runReduce(c, k, es)
	}
	nseq := c.NSeq
	if nseq < 1 {
		nseq = 1
	}
	es2 := c.elems(c.Kind2, c.Seq2, 100)
	k.bind("s", c.Kind, es)
	m := len(es)
	args := "s"
	if nseq == 2 {
		k.bind("s2", c.Kind2, es2)
		args = "s s2"
		if len(es2) < m {
			m = len(es2)
		}
		k.res.Classes = append(k.res.Classes, "kind2:"+c.Kind2)
	}
	vals := make([]V, m)
	for i := 0; i < m; i++ {
		if nseq == 2 {
			vals[i] = fun2(c.Pred, es[i], es2[i])
		} else {
			vals[i] = fun1(c.Pred, es[i])
		}
	}
	var fsrc string
	if nseq == 2 {
		fsrc = fun2Src(c.Style, c.Pred)
	} else {
		fsrc = fun1Src(c.Style, c.Pred)
	}
	k.res.NonTrivial = m >= 3 && hasDup(c.Seq)
	var src string
	switch c.Fn {
	case "every", "some", "notany", "notevery":
		src = fmt.Sprintf("(%s %s %s)", c.Fn, fsrc, args)
		got, ok := k.eval(src)
		if !ok {
			return k.res
		}
		all, any := true, false
		first := vo("nil")
		for _, v := range vals {
			if v.truthy() {
				if !any {
					first = v
				}
				any = true
			} else {
				all = false
			}
		}
		switch c.Fn {
		case "some": // the first true value of the predicate
			k.expect(src, got, first.Text())
		default:
			want := map[string]bool{"every": all, "notany": !any, "notevery": !all}[c.Fn]
			if (got != nil) != want {
				k.fail("%s with %s: expected %v, got %s", src, k.inputsText(), want, sx.Text(got))
			}
		}
	case "map":
		src = fmt.Sprintf("(map '%s %s %s)", c.RType, fsrc, args)
		if c.RType == "nil" {
			src = fmt.Sprintf("(map nil %s %s)", fsrc, args)
		}
		got, ok := k.eval(src)
		if !ok {
			return k.res
		}
		k.res.Classes = append(k.res.Classes, "rtype:"+c.RType)
		want := "nil"
		if c.RType != "nil" {
			want = seqText(c.RType, vals)
		}
		k.expect(src, got, want)
	case "mapcar":
		src = fmt.Sprintf("(mapcar %s %s)", fsrc, args)
		got, ok := k.eval(src)
		if !ok {
			return k.res
		}
		k.expect(src, got, seqText("list", vals))
	case "mapc":
		src = fmt.Sprintf("(mapc %s %s)", fsrc, args)
		got, ok := k.eval(src)
		if !ok {
			return k.res
		}
		k.expect(src, got, seqText("list", es)) // returns its first list
	}
	if k.res.Err == "" {
		k.unchanged(src)
	}
	return k.res
}

func runReduce(c Case, k *call, es []V) *h.Result {
	n := len(c.Seq)
	char := c.charDomain(c.Kind)
	kws, nk := c.keywords(c.Kind, char)
	k.res.NonTrivial = nonTrivial(c, nk, c.Seq, true)
	s, e := bound(c.Start, 0), bound(c.End, n)
	var vals []V
	for i := s; i < e; i++ {
		if c.Key == "" {
			vals = append(vals, es[i])
		} else {
			vals = append(vals, c.keyVal(c.Kind, c.Seq[i]))
		}
	}
	var init *V
	if c.Init != "" {
		nv, _ := strconv.Atoi(c.Init)
		v := vi(nv)
		init = &v
	}
	var zero *V
	switch c.Pred {
	case "list2":
		z := vo("nil")
		zero = &z
	case "add":
		z := vi(0)
		zero = &z
	}
	want, ok := refseq.Reduce(vals, init, truth(c.FromEnd), func(a, b V) V { return fun2(c.Pred, a, b) }, zero)
	if !ok {
		return k.fail("reduce of an empty sequence with %s and no initial value is not modelled", c.Pred)
	}
	src := fmt.Sprintf("(reduce %s s%s)", fun2Src(c.Style, c.Pred), kws)
	k.bind("s", c.Kind, es)
	got, good := k.eval(src)
	if !good {
		return k.res
	}
	if len(vals) == 0 && init == nil {
		k.res.Classes = append(k.res.Classes, "reduce:empty-no-initial-value")
	}
	if k.expect(src, got, want.Text()) {
		k.unchanged(src)
	}
	return k.res
}

// excluded names the exclusion class of an open finding the case falls in (by construction).
func excluded(c Case) string {
	for _, x := range exclusions {
		if h.ExclOn(x.tag) && x.in(c) {
			return x.tag
		}
	}
	return ""
}

type exclusion struct {
	tag string
	in  func(Case) bool
}

var exclusions = []exclusion{
	// C14-F3: reduce of an empty (sub)sequence without :initial-value returns nil instead of calling the
	// function with no arguments (pinned by TestReduceEmpty)
	{"reduce-empty-no-initial-value", func(c Case) bool {
		return c.Fn == "reduce" && c.Init == "" && bound(c.Start, 0) == bound(c.End, len(c.Seq))
	}},
	// C14-F1: fill rejects a :start or :end equal to the length (pinned by TestFillBadStart/TestFillBadEnd)
	{"fill-bound-equals-length", func(c Case) bool {
		if c.Fn != "fill" {
			return false
		}
		n := len(c.Seq)
		_, endNum := strconv.Atoi(c.End)
		return bound(c.Start, 0) == n || (endNum == nil && bound(c.End, n) == n)
	}},
	// C14-F2: mismatch :from-end reports start1 + distance-from-the-end instead of the index in sequence-1
	// whenever an element pair differs (pinned by TestMismatchFromEnd)
	{"mismatch-from-end-index", func(c Case) bool {
		if c.Fn != "mismatch" || !truth(c.FromEnd) {
			return false
		}
		s1, e1 := bound(c.Start1, 0), bound(c.End1, len(c.Seq))
		s2, e2 := bound(c.Start2, 0), bound(c.End2, len(c.Seq2))
		for d := 1; d <= e1-s1 && d <= e2-s2; d++ {
			if !test2(c.Test, c.keyVal(c.Kind, c.Seq[e1-d]), c.keyVal(c.Kind2, c.Seq2[e2-d])) {
				// the first differing pair, d elements from the end: slip answers s1+d, the index is e1-d+1
				return s1+d != e1-d+1
			}
		}
		return false
	}},
}
