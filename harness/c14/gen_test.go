package c14

import (
	"sort"
	"strconv"
	"strings"
	"testing"

	"github.com/ohler55/slip"
	"pgregory.net/rapid"

	"verif/harness/internal/h"
)

// ---------------------------------------------------------------- what slip offers

// wanted lists every function of the property's quantifier (and close relatives).
var wanted = []string{
	"find", "find-if", "find-if-not", "position", "position-if", "position-if-not",
	"count", "count-if", "count-if-not", "remove", "remove-if", "remove-if-not",
	"delete", "delete-if", "delete-if-not", "substitute", "substitute-if", "substitute-if-not",
	"nsubstitute", "nsubstitute-if", "nsubstitute-if-not",
	"remove-duplicates", "delete-duplicates",
	"member", "member-if", "member-if-not", "assoc", "assoc-if", "assoc-if-not", "rassoc", "rassoc-if", "rassoc-if-not",
	"search", "mismatch", "replace",
	"subseq", "fill", "reverse", "nreverse", "copy-seq", "concatenate",
	"sort", "stable-sort", "merge",
	"union", "nunion", "intersection", "nintersection", "set-difference", "nset-difference", "set-exclusive-or", "subsetp", "adjoin",
	"every", "some", "notany", "notevery", "map", "mapcar", "mapc", "reduce",
}

// modelled are the functions run() knows.
var modelled = map[string]bool{}

// docKeys: function -> documented keyword names (without the colon).
var docKeys = map[string]map[string]bool{}

func setup() {
	if len(docKeys) > 0 {
		return
	}
	var missing, undocumented []string
	for _, name := range wanted {
		fi := slip.CLPkg.GetFunc(name)
		if fi == nil {
			missing = append(missing, name)
			continue
		}
		keys := map[string]bool{}
		in := false
		for _, a := range fi.Doc.Args {
			switch {
			case a.Name == "&key":
				in = true
			case strings.HasPrefix(a.Name, "&"):
				in = false
			case in:
				keys[strings.ToLower(a.Name)] = true
			}
		}
		docKeys[name] = keys
		// keywords CLHS defines for the function which slip does not document
		for _, kw := range clhsKeys(name) {
			if !keys[kw] {
				undocumented = append(undocumented, name+" :"+kw)
			}
		}
	}
	h.Note("functions of the quantifier that slip does not define (not tested): %s", strings.Join(missing, " "))
	h.Note("keywords of CLHS that slip does not document (not tested): %s", strings.Join(undocumented, ", "))
}

func clhsKeys(fn string) []string {
	base := strings.TrimSuffix(strings.TrimSuffix(fn, "-if-not"), "-if")
	is := isIf(fn)
	var ks []string
	switch base {
	case "find", "position", "count":
		ks = []string{"from-end", "start", "end", "key"}
	case "remove", "delete", "substitute", "nsubstitute":
		ks = []string{"from-end", "start", "end", "key", "count"}
	case "remove-duplicates", "delete-duplicates":
		ks = []string{"from-end", "start", "end", "key"}
	case "member", "assoc", "rassoc", "union", "nunion", "intersection", "nintersection", "set-difference",
		"nset-difference", "set-exclusive-or", "subsetp", "adjoin":
		ks = []string{"key"}
	case "search", "mismatch":
		ks = []string{"from-end", "key", "start1", "end1", "start2", "end2"}
	case "replace":
		return []string{"start1", "end1", "start2", "end2"}
	case "fill":
		return []string{"start", "end"}
	case "sort", "stable-sort", "merge":
		return []string{"key"}
	case "reduce":
		return []string{"key", "from-end", "start", "end", "initial-value"}
	default:
		return nil
	}
	if !is {
		ks = append(ks, "test", "test-not")
	}
	return ks
}

func has(fn, key string) bool { return docKeys[fn][key] }

func avail(names ...string) []string {
	var out []string
	for _, n := range names {
		if docKeys[n] != nil {
			out = append(out, n)
		}
	}
	return out
}

// ---------------------------------------------------------------- drawing

func pick[T any](rt *rapid.T, label string, xs ...T) T {
	return xs[rapid.IntRange(0, len(xs)-1).Draw(rt, label)]
}

func genSeq(rt *rapid.T, label string, max int) []int {
	n := rapid.IntRange(0, max).Draw(rt, label+"-len")
	s := make([]int, n)
	for i := range s {
		s[i] = rapid.IntRange(0, 3).Draw(rt, label)
	}
	return s
}

func genKind(rt *rapid.T, label string) string {
	return pick(rt, label, "list", "vector", "string")
}

// genBounds draws in-range :start/:end values for a sequence of length n.
func genBounds(rt *rapid.T, label string, n int) (start, end string) {
	s := 0
	if rapid.IntRange(0, 9).Draw(rt, label+"-has-start") < 6 {
		s = rapid.IntRange(0, n).Draw(rt, label+"-start")
		start = strconv.Itoa(s)
	}
	switch k := rapid.IntRange(0, 9).Draw(rt, label+"-has-end"); {
	case k < 6:
		end = strconv.Itoa(rapid.IntRange(s, n).Draw(rt, label+"-end"))
	case k < 7:
		end = "nil"
	}
	return
}

// keysFor lists the :key choices for a kind of sequence.
func keysFor(kind string, pairs bool) []string {
	switch {
	case pairs:
		return []string{"car"}
	case kind == "string":
		return []string{"", "", "id", "code", "mod2"}
	}
	return []string{"", "", "id", "inc", "mod2"}
}

// genItem draws an item in the domain of the key values: mostly the key of one of the alphabet's
// elements, sometimes a value just outside.
func genItem(rt *rapid.T, c Case, kind string) int {
	v := rapid.IntRange(-1, 4).Draw(rt, "item")
	if v >= 0 && v <= 3 {
		return c.keyVal(kind, v).N
	}
	lo, hi := c.keyVal(kind, 0).N, c.keyVal(kind, 0).N
	for a := 1; a <= 3; a++ {
		if x := c.keyVal(kind, a).N; x < lo {
			lo = x
		} else if x > hi {
			hi = x
		}
	}
	if v < 0 {
		return lo - 1
	}
	return hi + 1
}

func genCount(rt *rapid.T) string {
	return pick(rt, "count", "", "", "", "nil", "-1", "0", "1", "1", "2", "2", "3")
}

func genFromEnd(rt *rapid.T) string {
	return pick(rt, "from-end", "", "", "nil", "t", "t", "t")
}

func genTest(rt *rapid.T, tests ...string) string {
	if len(tests) == 0 {
		tests = []string{"", "", "eql", "equal", "lt", "lt", "par"}
	}
	return pick(rt, "test", tests...)
}

func style(rt *rapid.T, c *Case) {
	c.Style = rapid.IntRange(0, 5).Draw(rt, "style")
	c.Rot = rapid.IntRange(0, 5).Draw(rt, "rot")
}

func genItemCase(rt *rapid.T) Case {
	fns := avail("find", "find-if", "position", "position-if", "count", "count-if", "remove", "remove-if",
		"delete", "delete-if", "substitute", "substitute-if", "nsubstitute", "nsubstitute-if")
	c := Case{Fn: pick(rt, "fn", fns...)}
	c.Kind = genKind(rt, "kind")
	if c.Kind != "string" && rapid.IntRange(0, 4).Draw(rt, "pairs") == 0 && has(c.Fn, "key") {
		c.Pairs = true
	}
	c.Seq = genSeq(rt, "seq", 8)
	if has(c.Fn, "key") {
		c.Key = pick(rt, "key", keysFor(c.Kind, c.Pairs)...)
	}
	if has(c.Fn, "start") {
		c.Start, c.End = genBounds(rt, "b", len(c.Seq))
	}
	if isIf(c.Fn) {
		c.Pred = pick(rt, "pred", "even", "odd", "lti", "lti", "eqi", "eqi", "true", "false")
	} else if has(c.Fn, "test") {
		c.Test = genTest(rt)
	}
	c.Item = genItem(rt, c, c.Kind)
	if has(c.Fn, "count") {
		c.Count = genCount(rt)
	}
	if has(c.Fn, "from-end") {
		c.FromEnd = genFromEnd(rt)
	}
	if strings.Contains(c.Fn, "substitute") {
		c.New = rapid.IntRange(0, 5).Draw(rt, "new")
	}
	style(rt, &c)
	return c
}

func genDupCase(rt *rapid.T) Case {
	c := Case{Fn: pick(rt, "fn", avail("remove-duplicates", "delete-duplicates")...)}
	c.Kind = genKind(rt, "kind")
	if c.Kind != "string" && rapid.IntRange(0, 3).Draw(rt, "pairs") == 0 && has(c.Fn, "key") {
		c.Pairs = true
	}
	c.Seq = genSeq(rt, "seq", 8)
	if has(c.Fn, "key") {
		c.Key = pick(rt, "key", keysFor(c.Kind, c.Pairs)...)
	}
	if has(c.Fn, "start") {
		c.Start, c.End = genBounds(rt, "b", len(c.Seq))
	}
	if has(c.Fn, "test") {
		c.Test = genTest(rt, "", "", "eql", "equal", "par")
	}
	if has(c.Fn, "from-end") {
		c.FromEnd = genFromEnd(rt)
	}
	style(rt, &c)
	return c
}

func genAlistCase(rt *rapid.T) Case {
	c := Case{Fn: pick(rt, "fn", avail("member", "member-if", "assoc", "assoc-if", "assoc-if-not", "rassoc", "rassoc-if")...), Kind: "list"}
	c.Seq = genSeq(rt, "seq", 8)
	if c.alistFn() {
		for i := range c.Seq {
			if rapid.IntRange(0, 9).Draw(rt, "nil-entry") == 0 {
				c.Seq[i] = -1
			}
		}
	}
	if has(c.Fn, "key") {
		c.Key = pick(rt, "key", keysFor("list", false)...)
	}
	if isIf(c.Fn) {
		c.Pred = pick(rt, "pred", "even", "odd", "lti", "lti", "eqi", "eqi", "true", "false")
	} else if has(c.Fn, "test") {
		c.Test = genTest(rt)
	}
	c.Item = genItem(rt, c, "list")
	style(rt, &c)
	return c
}

func genTwoCase(rt *rapid.T) Case {
	c := Case{Fn: pick(rt, "fn", avail("search", "search", "mismatch", "mismatch", "replace")...)}
	if rapid.IntRange(0, 2).Draw(rt, "strings") == 0 {
		c.Kind, c.Kind2 = "string", "string"
	} else {
		c.Kind = pick(rt, "kind", "list", "vector")
		c.Kind2 = pick(rt, "kind2", "list", "vector")
	}
	switch c.Fn {
	case "search":
		c.Seq = genSeq(rt, "seq", 4)
		c.Seq2 = genSeq(rt, "seq2", 8)
		// often make the pattern a piece of the text
		switch mode := rapid.IntRange(0, 3).Draw(rt, "mode"); {
		case mode <= 1 && len(c.Seq2) > 0: // the pattern is a piece of the text
			a := rapid.IntRange(0, len(c.Seq2)).Draw(rt, "a")
			b := rapid.IntRange(a, len(c.Seq2)).Draw(rt, "b")
			if b-a <= 4 {
				c.Seq = append([]int(nil), c.Seq2[a:b]...)
			}
		case mode == 2:
			// self-overlapping: pattern = u^k v, text = x u^(k+j) v y, so that the occurrence starts
			// inside an earlier partial match (a scan that skips ahead after a partial match misses it)
			u := genSeq(rt, "unit", 2)
			if len(u) == 0 {
				u = []int{rapid.IntRange(0, 3).Draw(rt, "unit1")}
			}
			v := genSeq(rt, "tail", 2)
			k := rapid.IntRange(1, 2).Draw(rt, "k")
			j := rapid.IntRange(1, 2).Draw(rt, "j")
			c.Seq, c.Seq2 = nil, genSeq(rt, "before", 1)
			for i := 0; i < k; i++ {
				c.Seq = append(c.Seq, u...)
			}
			c.Seq = append(c.Seq, v...)
			for i := 0; i < k+j; i++ {
				c.Seq2 = append(c.Seq2, u...)
			}
			c.Seq2 = append(append(c.Seq2, v...), genSeq(rt, "after", 1)...)
		}
	case "mismatch":
		c.Seq = genSeq(rt, "seq", 8)
		c.Seq2 = genSeq(rt, "seq2", 8)
		switch rapid.IntRange(0, 3).Draw(rt, "similar") {
		case 0: // common prefix
			m := rapid.IntRange(0, len(c.Seq)).Draw(rt, "m")
			c.Seq2 = append(append([]int(nil), c.Seq[:m]...), c.Seq2...)
			if len(c.Seq2) > 8 {
				c.Seq2 = c.Seq2[:8]
			}
		case 1: // common suffix
			m := rapid.IntRange(0, len(c.Seq)).Draw(rt, "m")
			c.Seq2 = append(append([]int(nil), c.Seq2...), c.Seq[m:]...)
			if len(c.Seq2) > 8 {
				c.Seq2 = c.Seq2[len(c.Seq2)-8:]
			}
		}
	default:
		c.Seq = genSeq(rt, "seq", 8)
		c.Seq2 = genSeq(rt, "seq2", 8)
	}
	if has(c.Fn, "key") {
		c.Key = pick(rt, "key", keysFor(c.Kind, false)...)
	}
	if has(c.Fn, "test") {
		c.Test = genTest(rt)
	}
	if has(c.Fn, "from-end") {
		c.FromEnd = genFromEnd(rt)
	}
	if has(c.Fn, "start1") {
		c.Start1, c.End1 = genBounds(rt, "b1", len(c.Seq))
		c.Start2, c.End2 = genBounds(rt, "b2", len(c.Seq2))
	}
	style(rt, &c)
	return c
}

func genSimpleCase(rt *rapid.T) Case {
	c := Case{Fn: pick(rt, "fn", avail("subseq", "subseq", "fill", "fill", "reverse", "nreverse", "copy-seq", "concatenate", "concatenate")...)}
	c.Kind = genKind(rt, "kind")
	c.Seq = genSeq(rt, "seq", 8)
	if c.Kind != "string" && c.Fn != "concatenate" && rapid.IntRange(0, 3).Draw(rt, "pairs") == 0 {
		c.Pairs = true
	}
	switch c.Fn {
	case "subseq":
		c.Start, c.End = genBounds(rt, "b", len(c.Seq))
	case "fill":
		c.Start, c.End = genBounds(rt, "b", len(c.Seq))
		c.New = rapid.IntRange(0, 5).Draw(rt, "new")
	case "concatenate":
		c.NSeq = rapid.IntRange(0, 3).Draw(rt, "nseq")
		c.RType = genKind(rt, "rtype")
		c.Kind2, c.Kind3 = genKind(rt, "kind2"), genKind(rt, "kind3")
		if c.RType == "string" {
			c.Kind, c.Kind2, c.Kind3 = "string", "string", "string"
		}
		c.Seq2, c.Seq3 = genSeq(rt, "seq2", 5), genSeq(rt, "seq3", 5)
	}
	style(rt, &c)
	return c
}

func genSortCase(rt *rapid.T) Case {
	c := Case{Fn: pick(rt, "fn", avail("sort", "stable-sort", "stable-sort", "merge")...)}
	c.Kind = genKind(rt, "kind")
	max := 8
	if c.Fn != "merge" && rapid.IntRange(0, 2).Draw(rt, "long") == 0 {
		max = 40 // library sorts switch algorithm above a dozen elements
	}
	c.Seq = genSeq(rt, "seq", max)
	desc := rapid.Bool().Draw(rt, "descending")
	c.Pred = "lt"
	if desc {
		c.Pred = "gt"
	}
	canKey := has(c.Fn, "key")
	switch c.Kind {
	case "string":
		switch k := rapid.IntRange(0, 2).Draw(rt, "mode"); {
		case k == 0 && canKey:
			c.Key = "up"
		case k == 1:
			c.Pred = "l" + c.Pred
		}
	default:
		switch k := rapid.IntRange(0, 4).Draw(rt, "mode"); {
		case k == 0 && canKey:
			c.Pairs, c.Key = true, "car"
		case k == 1:
			c.Pairs, c.Pred = true, "l"+c.Pred
		case k == 2 && canKey:
			c.Key = "mod2"
		case k == 3 && canKey:
			c.Key = "inc"
		}
	}
	if c.Fn == "merge" {
		c.Kind2 = pick(rt, "kind2", "list", "vector")
		c.RType = pick(rt, "rtype", "list", "vector")
		if c.Kind == "string" {
			c.Kind2, c.RType = "string", "string"
		}
		c.Seq2 = genSeq(rt, "seq2", 8)
		// merge wants ordered arguments
		for _, p := range []struct {
			kind string
			seq  []int
		}{{c.Kind, c.Seq}, {c.Kind2, c.Seq2}} {
			kind, seq := p.kind, p.seq
			sort.SliceStable(seq, func(i, j int) bool {
				a, b := c.sortKey(kind, seq[i]), c.sortKey(kind, seq[j])
				if desc {
					return a > b
				}
				return a < b
			})
		}
	}
	style(rt, &c)
	return c
}

func genSetCase(rt *rapid.T) Case {
	c := Case{Fn: pick(rt, "fn", avail("union", "nunion", "intersection", "nintersection", "set-difference", "nset-difference",
		"set-exclusive-or", "subsetp", "subsetp", "adjoin")...), Kind: "list", Kind2: "list"}
	c.Seq = genSeq(rt, "seq", 6)
	if c.Fn != "adjoin" {
		c.Seq2 = genSeq(rt, "seq2", 6)
		if c.Fn == "subsetp" && rapid.Bool().Draw(rt, "make-subset") {
			c.Seq2 = append(c.Seq2, c.Seq...)
			if len(c.Seq2) > 8 {
				c.Seq2 = c.Seq2[len(c.Seq2)-8:]
			}
		}
	} else {
		c.Kind2 = ""
	}
	if has(c.Fn, "key") {
		c.Key = pick(rt, "key", keysFor("list", false)...)
	}
	if has(c.Fn, "test") {
		c.Test = genTest(rt)
	}
	c.Item = rapid.IntRange(0, 4).Draw(rt, "item")
	style(rt, &c)
	return c
}

func genMapCase(rt *rapid.T) Case {
	c := Case{Fn: pick(rt, "fn", avail("every", "some", "notany", "notevery", "map", "map", "mapcar", "mapc", "reduce", "reduce", "reduce")...)}
	c.Kind = genKind(rt, "kind")
	c.Seq = genSeq(rt, "seq", 8)
	style(rt, &c)
	if c.Fn == "reduce" {
		if has(c.Fn, "key") {
			c.Key = pick(rt, "key", keysFor(c.Kind, false)...)
		}
		if has(c.Fn, "start") {
			c.Start, c.End = genBounds(rt, "b", len(c.Seq))
		}
		if has(c.Fn, "from-end") {
			c.FromEnd = genFromEnd(rt)
		}
		if has(c.Fn, "initial-value") && rapid.Bool().Draw(rt, "init") {
			c.Init = "7"
		}
		fs := []string{"list2", "llist2"}
		if !c.charDomain(c.Kind) {
			fs = append(fs, "add", "sub")
		}
		c.Pred = pick(rt, "fun", fs...)
		// an empty subsequence without :initial-value calls the function with no arguments
		s, e := bound(c.Start, 0), bound(c.End, len(c.Seq))
		if s == e && c.Init == "" && (c.Pred == "llist2" || c.Pred == "sub") {
			c.Pred = "list2"
		}
		return c
	}
	if c.Fn == "mapcar" || c.Fn == "mapc" {
		c.Kind = "list"
	}
	c.NSeq = rapid.IntRange(1, 2).Draw(rt, "nseq")
	char := c.Kind == "string"
	pred := c.Fn == "every" || c.Fn == "some" || c.Fn == "notany" || c.Fn == "notevery"
	if c.NSeq == 2 {
		c.Kind2 = genKind(rt, "kind2")
		if c.Fn == "mapcar" || c.Fn == "mapc" {
			c.Kind2 = "list"
		}
		c.Seq2 = genSeq(rt, "seq2", 8)
		char2 := c.Kind2 == "string"
		switch {
		case pred && !char && !char2:
			c.Pred = pick(rt, "fun", "lt", "eql2")
		case pred && char && char2:
			c.Pred = pick(rt, "fun", "clt", "eql2")
		case pred:
			c.Pred = "equal2" // (slip's eql signals an error for a number and a character; not this property's subject)
		case !char && !char2:
			c.Pred = pick(rt, "fun", "list2", "llist2", "add", "sub")
		default:
			c.Pred = pick(rt, "fun", "list2", "llist2")
		}
	} else {
		switch {
		case pred && char:
			c.Pred = "ceven"
		case pred && c.Fn == "some":
			c.Pred = pick(rt, "fun", "even", "evenlist")
		case pred:
			c.Pred = "even"
		case char:
			c.Pred = pick(rt, "fun", "up", "code", "list1", "self")
		default:
			c.Pred = pick(rt, "fun", "inc", "even", "list1", "tochar", "self")
		}
	}
	if c.Fn == "map" {
		c.RType = pick(rt, "rtype", "list", "vector", "nil", "string")
		if c.RType == "string" {
			// the function must produce characters
			c.NSeq, c.Kind2, c.Seq2 = 1, "", nil
			if char {
				c.Pred = pick(rt, "fun", "up", "self")
			} else {
				c.Pred = "tochar"
			}
		}
	}
	return c
}

// ---------------------------------------------------------------- exhaustive enumeration

// allSeqs yields every sequence over the alphabet 0..alpha-1 of length 0..max.
func allSeqs(alpha, max int, f func([]int) bool) bool {
	for n := 0; n <= max; n++ {
		total := 1
		for i := 0; i < n; i++ {
			total *= alpha
		}
		for code := 0; code < total; code++ {
			s := make([]int, n)
			x := code
			for i := n - 1; i >= 0; i-- {
				s[i] = x % alpha
				x /= alpha
			}
			if !f(s) {
				return false
			}
		}
	}
	return true
}

// allBounds yields every way to supply in-range :start and :end for length n.
func allBounds(n int, f func(start, end string) bool) bool {
	starts := []string{""}
	for s := 0; s <= n; s++ {
		starts = append(starts, strconv.Itoa(s))
	}
	for _, st := range starts {
		s := bound(st, 0)
		ends := []string{"", "nil"}
		for e := s; e <= n; e++ {
			ends = append(ends, strconv.Itoa(e))
		}
		for _, en := range ends {
			if !f(st, en) {
				return false
			}
		}
	}
	return true
}

func opt(present bool, xs ...string) []string {
	if present {
		return xs
	}
	return []string{""}
}

// enumItem enumerates every keyword combination of the item/-if functions for all sequences up
// to maxLen. Cases are dealt to the shards round-robin.
func enumItem(fns []string, seqs func(func([]int) bool) bool, nItems int, yield func(Case) bool) {
	turn := 0
	mine := func() bool {
		turn++
		return turn%h.C.NShards == h.C.Shard
	}
	for _, fn := range fns {
		if docKeys[fn] == nil {
			continue
		}
		for _, kind := range []string{"list", "vector", "string"} {
			keys := []string{"", "id", "inc"}
			if kind == "string" {
				keys = []string{"", "id", "code"}
			}
			if !has(fn, "key") {
				keys = []string{""}
			}
			tests := opt(has(fn, "test") && !isIf(fn), "", "eql", "equal", "lt")
			preds := []string{""}
			if isIf(fn) {
				preds = []string{"even", "lti"}
			}
			counts := opt(has(fn, "count"), "", "nil", "-1", "0", "1", "2", "3")
			fes := opt(has(fn, "from-end"), "", "nil", "t")
			ok := seqs(func(seq []int) bool {
				return allBounds(len(seq), func(st, en string) bool {
					if !has(fn, "start") && (st != "" || en != "") {
						return true
					}
					for _, key := range keys {
						for _, test := range tests {
							for _, pred := range preds {
								for _, cnt := range counts {
									for _, fe := range fes {
										c := Case{Fn: fn, Kind: kind, Seq: seq, Key: key, Test: test, Pred: pred, Start: st, End: en, Count: cnt, FromEnd: fe, New: 4, Style: (len(seq) + len(st) + len(cnt)) % 6}
										// items: the key of every alphabet symbol and one above
										for v := 0; v < nItems; v++ {
											if pred == "even" && v > 0 {
												break
											}
											c.Item = c.keyVal(kind, 0).N + v
											if !mine() {
												continue
											}
											if !yield(c) {
												return false
											}
										}
									}
								}
							}
						}
					}
					return true
				})
			})
			if !ok {
				return
			}
		}
	}
}

func enumDup(alpha, maxLen int, yield func(Case) bool) {
	turn := 0
	for _, fn := range avail("remove-duplicates", "delete-duplicates") {
		for _, kind := range []string{"list", "vector", "string"} {
			keys := []string{"", "id", "mod2"}
			if !has(fn, "key") {
				keys = []string{""}
			}
			tests := opt(has(fn, "test"), "", "eql", "equal", "par")
			fes := opt(has(fn, "from-end"), "", "nil", "t")
			ok := allSeqs(alpha, maxLen, func(seq []int) bool {
				return allBounds(len(seq), func(st, en string) bool {
					if !has(fn, "start") && (st != "" || en != "") {
						return true
					}
					for _, key := range keys {
						for _, test := range tests {
							for _, fe := range fes {
								turn++
								if turn%h.C.NShards != h.C.Shard {
									continue
								}
								if !yield(Case{Fn: fn, Kind: kind, Seq: seq, Key: key, Test: test, Start: st, End: en, FromEnd: fe}) {
									return false
								}
							}
						}
					}
					return true
				})
			})
			if !ok {
				return
			}
		}
	}
}

// enumTwo enumerates search and mismatch over all pairs of short sequences on a 2-symbol
// alphabet with every bounds combination.
func enumTwo(max1, max2 int, yield func(Case) bool) {
	turn := 0
	for _, fn := range avail("search", "mismatch", "replace") {
		for _, kinds := range [][2]string{{"list", "list"}, {"vector", "list"}, {"string", "string"}} {
			tests := opt(has(fn, "test"), "", "lt")
			fes := opt(has(fn, "from-end"), "", "t")
			ok := allSeqs(2, max1, func(s1 []int) bool {
				return allSeqs(2, max2, func(s2 []int) bool {
					return allBounds(len(s1), func(st1, en1 string) bool {
						if en1 == "nil" {
							return true
						}
						return allBounds(len(s2), func(st2, en2 string) bool {
							if en2 == "nil" {
								return true
							}
							for _, test := range tests {
								for _, fe := range fes {
									turn++
									if turn%h.C.NShards != h.C.Shard {
										continue
									}
									c := Case{Fn: fn, Kind: kinds[0], Kind2: kinds[1], Seq: s1, Seq2: s2, Test: test, FromEnd: fe,
										Start1: st1, End1: en1, Start2: st2, End2: en2}
									if !yield(c) {
										return false
									}
								}
							}
							return true
						})
					})
				})
			})
			if !ok {
				return
			}
		}
	}
}

// twoKinds are the kind pairs of the quick two-sequence grids.
var twoKinds = [][2]string{{"list", "list"}, {"vector", "vector"}, {"list", "vector"}, {"vector", "list"}, {"string", "string"}}

// enumTwoPlain enumerates search, mismatch and replace without bounds over all pairs of
// sequences (alphabet of alpha symbols, lengths <= max1 x <= max2) for lists, vectors and
// strings, with the default test (no :test keyword) as well as explicit ones, with and
// without :key and :from-end.
func enumTwoPlain(alpha, max1, max2 int, yield func(Case) bool) {
	for _, fn := range avail("search", "mismatch", "replace") {
		tests := opt(has(fn, "test"), "", "eql", "lt")
		fes := opt(has(fn, "from-end"), "", "t")
		keys := opt(has(fn, "key"), "", "id")
		for _, kinds := range twoKinds {
			ok := allSeqs(alpha, max1, func(s1 []int) bool {
				return allSeqs(alpha, max2, func(s2 []int) bool {
					for _, test := range tests {
						for _, fe := range fes {
							for _, key := range keys {
								c := Case{Fn: fn, Kind: kinds[0], Kind2: kinds[1], Seq: s1, Seq2: s2, Test: test, FromEnd: fe, Key: key}
								if !yield(c) {
									return false
								}
							}
						}
					}
					return true
				})
			})
			if !ok {
				return
			}
		}
	}
}

// enumOverlap enumerates searches for self-overlapping patterns: every pattern p over 3
// symbols up to length 4, every proper prefix q of p, text = x q p y with x, y empty or one
// symbol. The occurrence of p then starts inside (or right after) a partial match.
func enumOverlap(yield func(Case) bool) {
	if docKeys["search"] == nil {
		return
	}
	pads := [][]int{nil, {0}, {1}, {2}}
	tests := opt(has("search", "test"), "", "equal")
	fes := opt(has("search", "from-end"), "", "t")
	for _, kinds := range twoKinds {
		ok := allSeqs(3, 4, func(p []int) bool {
			for ql := 1; ql < len(p); ql++ {
				for _, x := range pads {
					for _, y := range pads {
						text := append(append(append(append([]int(nil), x...), p[:ql]...), p...), y...)
						for _, test := range tests {
							for _, fe := range fes {
								c := Case{Fn: "search", Kind: kinds[0], Kind2: kinds[1], Seq: p, Seq2: text, Test: test, FromEnd: fe}
								if !yield(c) {
									return false
								}
								// and bounded so that only the later occurrence is inside the range
								c.Start2 = strconv.Itoa(len(x))
								if !yield(c) {
									return false
								}
							}
						}
					}
				}
			}
			return true
		})
		if !ok {
			return
		}
	}
}

// ---------------------------------------------------------------- the test

var (
	pItem   = h.Prop[Case]{Name: "item", Gen: genItemCase, Run: run}
	pDup    = h.Prop[Case]{Name: "duplicates", Gen: genDupCase, Run: run}
	pAlist  = h.Prop[Case]{Name: "member-assoc", Gen: genAlistCase, Run: run}
	pTwo    = h.Prop[Case]{Name: "two-sequences", Gen: genTwoCase, Run: run}
	pSimple = h.Prop[Case]{Name: "subseq-fill-reverse-concatenate", Gen: genSimpleCase, Run: run}
	pSort   = h.Prop[Case]{Name: "sort-merge", Gen: genSortCase, Run: run}
	pSet    = h.Prop[Case]{Name: "sets", Gen: genSetCase, Run: run}
	pMap    = h.Prop[Case]{Name: "map-reduce", Gen: genMapCase, Run: run}

	// all witnesses of known findings live in one sub-property that runs first, so that every
	// exclusion is switched on before any search starts
	pKnown   = h.Prop[Case]{Name: "known", Run: run}
	pItemAll = h.Prop[Case]{Name: "item-exhaustive", Run: run}
	pDupAll  = h.Prop[Case]{Name: "duplicates-exhaustive", Run: run}
	pTwoAll  = h.Prop[Case]{Name: "two-sequences-exhaustive", Run: run}
	// unbounded grid with the default test and self-overlapping patterns; runs in both tiers
	pTwoPlain = h.Prop[Case]{Name: "two-sequences-default-test-grid", Run: run}
)

func TestC14(t *testing.T) {
	setup()
	h.Rule("a call (function, sequence kind list|vector|string, contents of length 0..8 over a 4-symbol alphabet - fixnums 0..3, conses (v . index) " +
		"carrying an identity, characters a..d -, keyword arguments restricted to those the function's FuncDoc documents, in-range bounds, " +
		":key in {absent, identity lambda, 1+ | char-code | car, mod 2}, :test in {absent, eql, equal, asymmetric < | char<, same-parity lambda}, " +
		":count in {absent,nil,-1..3}, :from-end in {absent,nil,t}, designators written #'f, 'f or (lambda ...), keywords in rotated order); " +
		"oracle = reference model internal/refseq (CLHS ch. 17) compared through the harness's own renderer; sort: permutation + no adjacent pair out of order; " +
		"stable-sort/merge: exact stable result (sequences up to 40 long); set functions: membership rules of CLHS, duplicates tolerated. " +
		"Non-trivial: sequence of length >= 3 containing a duplicate and (>= 2 keywords supplied or :from-end with :count); for functions with fewer than two " +
		"keywords (reverse, subseq, sort, map, every ...) length >= 3 with a duplicate. Distinct by (function, kind, contents, keywords).")
	h.Assume("sequences are constructed through slip's exported Go types (List, NewVector, String, Tail) and bound with Scope.Let; the call is read and evaluated as Lisp text")
	h.Assume("the helper functions used as :key/:test/predicates (1+ car char-code char-upcase mod evenp oddp < > char< char> eql equal list + - code-char, lambda) work on the 4-symbol alphabet")

	h.RunProp(t, pKnown, 0)
	h.RunProp(t, pItemAll, 0) // (replay entry points of the enumerated sub-properties)
	h.RunProp(t, pDupAll, 0)
	h.RunProp(t, pTwoAll, 0)
	h.RunProp(t, pTwoPlain, 0)
	h.RunProp(t, pItem, h.N(25000, 400000))
	h.RunProp(t, pDup, h.N(8000, 150000))
	h.RunProp(t, pAlist, h.N(6000, 100000))
	h.RunProp(t, pTwo, h.N(15000, 300000))
	h.RunProp(t, pSimple, h.N(6000, 100000))
	h.RunProp(t, pSort, h.N(8000, 150000))
	h.RunProp(t, pSet, h.N(8000, 150000))
	h.RunProp(t, pMap, h.N(10000, 150000))

	itemFns := []string{"find", "find-if", "position", "position-if", "count", "count-if", "remove", "remove-if",
		"delete", "delete-if", "substitute", "substitute-if", "nsubstitute", "nsubstitute-if"}
	if h.C.Shard == 0 {
		h.Enumerate(t, pTwoPlain, func(yield func(Case) bool) {
			stopped := false
			once := func(c Case) bool {
				stopped = stopped || !yield(c)
				return !stopped
			}
			enumTwoPlain(2, 3, 5, once)
			if !stopped {
				enumOverlap(once)
			}
		})
		h.Note("exhaustive in both tiers: search/mismatch/replace without bounds on all pairs of 2-symbol sequences <= 3 x <= 5 for list/vector/string " +
			"with the default test, eql and <, with and without :key and :from-end; search for every self-overlapping pattern (3 symbols, <= 4 long, text = x prefix pattern y)")
	}
	if h.Thorough() {
		// every shard takes its share
		seqs := func(f func([]int) bool) bool {
			// alphabet of 4 up to length 3, alphabet of 2 at length 4
			return allSeqs(4, 3, f) && allSeqs(2, 4, func(s []int) bool { return len(s) < 4 || f(s) })
		}
		h.Enumerate(t, pItemAll, func(yield func(Case) bool) { enumItem(itemFns, seqs, 5, yield) })
		h.Enumerate(t, pDupAll, func(yield func(Case) bool) { enumDup(4, 5, yield) })
		h.Enumerate(t, pTwoAll, func(yield func(Case) bool) { enumTwo(3, 4, yield) })
		h.Note("exhaustive: item functions all sequences of length <= 3 over 4 symbols and of length 4 over 2 symbols, remove-duplicates <= 5, search/mismatch/replace 2-symbol sequences <= 3 x <= 4, every documented keyword combination")
	} else {
		seqs := func(f func([]int) bool) bool { return allSeqs(2, 2, f) }
		h.Enumerate(t, pItemAll, func(yield func(Case) bool) { enumItem(itemFns, seqs, 3, yield) })
		h.Enumerate(t, pDupAll, func(yield func(Case) bool) { enumDup(3, 3, yield) })
		h.Enumerate(t, pTwoAll, func(yield func(Case) bool) { enumTwo(2, 2, yield) })
		h.Note("exhaustive: item functions all sequences of length <= 2 over 2 symbols, remove-duplicates <= 3 over 3 symbols, search/mismatch/replace 2-symbol sequences <= 2 x <= 2, every documented keyword combination")
	}
}
