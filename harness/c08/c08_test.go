package c08

import (
	"fmt"
	"os"
	"path/filepath"
	"regexp"
	"strings"
	"sync/atomic"
	"testing"

	"github.com/ohler55/slip"
	"pgregory.net/rapid"

	"verif/harness/internal/ev"
	"verif/harness/internal/h"
	"verif/harness/internal/proggen"
	r "verif/harness/internal/refeval"
	"verif/harness/internal/sx"
)

func TestMain(m *testing.M) { h.Main(m, "C08") }

// Case is a multi-definition program. Names matching zf<n>, zm<n> and *zg<n>* are renamed per variant so that
// variants cannot contaminate one another.
type Case struct {
	Macros []string `json:"macros"` // defmacro forms, always evaluated first
	Defs   []string `json:"defs"`   // defvar and defun forms in canonical order; every order is tried
	Main   string   `json:"main"`   // main expression, evaluated K times
	K      int      `json:"k"`
	Redef  int      `json:"redef_index"` // index into Defs of a defun that is redefined after the K evaluations (-1: none)
	NewDef string   `json:"redef_form"`
	After  string   `json:"after_form,omitempty"` // evaluated once after the redefinition and the last evaluation of main
	// Unbind: the function is made unbound with fmakunbound right before its redefinition (callers compiled earlier
	// must reach the new definition all the same)
	Unbind bool    `json:"unbind,omitempty"`
	Perms  [][]int `json:"perms"` // the definition orders to run (all of them for <= 4 definitions)
	// Generic: this function is written for slip as a generic function with one method on t for every parameter,
	// (defmethod name ((a t)) ...) for (defun name (a) ...), in its definition and in its redefinition: the same
	// function for every caller, reached through dispatch and its cache
	Generic string `json:"generic,omitempty"`
	// Defgeneric: the generic function is written with a defgeneric form in front of its method
	Defgeneric bool `json:"defgeneric,omitempty"`
}

var defunRx = regexp.MustCompile(`^\(defun (zf\d+) \(([^()&]*)\) `)

// asMethod rewrites the defun of c.Generic as a defmethod whose parameters are all specialized on t.
func (c Case) asMethod(def string) string {
	if c.Generic == "" {
		return def
	}
	m := defunRx.FindStringSubmatch(def)
	if m == nil || m[1] != c.Generic {
		return def
	}
	var ps []string
	for _, p := range strings.Fields(m[2]) {
		ps = append(ps, "("+p+" t)")
	}
	meth := "(defmethod " + m[1] + " (" + strings.Join(ps, " ") + ") " + def[len(m[0]):]
	if c.Defgeneric {
		// the definition a file would hold: a defgeneric in front of the method, evaluated again with every (re)definition
		return "(progn (defgeneric " + m[1] + " (" + m[2] + ")) " + meth + ")"
	}
	return meth
}

var modes = []string{"list-forms", "code-compile", "compile-string", "load-file", "eval-quoted"}

var ctr atomic.Int64

var nameRx = regexp.MustCompile(`\b(zf|zm|zg)(\d+)\b`)

func rename(text string, suffix string) string {
	return nameRx.ReplaceAllString(text, "${1}${2}"+suffix)
}

// ---------------------------------------------------------------- generator

func permutations(n int) [][]int {
	if n == 0 {
		return [][]int{{}}
	}
	var out [][]int
	var rec func(cur []int, used []bool)
	rec = func(cur []int, used []bool) {
		if len(cur) == n {
			out = append(out, append([]int{}, cur...))
			return
		}
		for i := 0; i < n; i++ {
			if !used[i] {
				used[i] = true
				rec(append(cur, i), used)
				used[i] = false
			}
		}
	}
	rec(nil, make([]bool, n))
	return out
}

func genCase(rt *rapid.T) Case {
	g := proggen.New(rt, proggen.Opts{MaxDepth: 5, MarkOdds: 4, NoValuesInInit: true}, "")
	nfun := rapid.IntRange(2, 4).Draw(rt, "nfun")
	nvar := rapid.IntRange(0, 2).Draw(rt, "nvar")
	c := Case{Redef: -1}
	if rapid.Bool().Draw(rt, "macro") {
		g.MacroName = "zm1"
		// slip evaluates a macro expansion only when it is built with backquote (documented by its example and
		// tests), so the macro is written that way; the reference evaluator gets the equivalent list form
		c.Macros = []string{"(defmacro zm1 (zq) `(+ ,zq 1))"}
		if rapid.Bool().Draw(rt, "macro-template") {
			// the same function of its argument, with a template that holds calls without a comma below the top level
			// which depend on a binding the expansion makes: every expansion must get its own copy of them (the
			// evaluation of one expansion compiles its argument slots in place)
			c.Macros = []string{"(defmacro zm1 (zq) `(let ((zy ,zq)) (+ zy (* 0 (+ zy 1)) 1)))"}
		}
	}
	for i := 1; i <= nvar; i++ {
		name := fmt.Sprintf("*zg%d*", i)
		g.GlobalVars = append(g.GlobalVars, name)
		// defvar or defparameter; the initial value form may carry a trace mark (9101, 9102): however the definition is
		// evaluated (list form, compiled, loaded), the form is evaluated exactly once
		def := []string{"defvar", "defvar", "defparameter"}[rapid.IntRange(0, 2).Draw(rt, "gdef")]
		init := fmt.Sprint(rapid.IntRange(-2, 4).Draw(rt, "ginit"))
		if rapid.Bool().Draw(rt, "ginit-marked") {
			init = fmt.Sprintf("(vt:mark %d %s)", 9100+i, init)
		}
		c.Defs = append(c.Defs, fmt.Sprintf("(%s %s %s)", def, name, init))
	}
	if rapid.IntRange(0, 2).Draw(rt, "constant") == 0 {
		// a constant the functions read: defined before or after them like everything else
		g.GlobalConsts = append(g.GlobalConsts, "+zg8+")
		c.Defs = append(c.Defs, fmt.Sprintf("(defconstant +zg8+ %d)", rapid.IntRange(-2, 4).Draw(rt, "cinit")))
	}
	var sigs []proggen.FunSig
	for i := 1; i <= nfun; i++ {
		sigs = append(sigs, proggen.FunSig{Name: fmt.Sprintf("zf%d", i), Arity: 1 + rapid.IntRange(0, 1).Draw(rt, "arity")})
	}
	// half of the programs also have a function that closes over a binding of an enclosing let (a counter):
	// its state must survive forward references, redefinition of other functions and repeated evaluation
	counter := rapid.Bool().Draw(rt, "closure-defun")
	if counter {
		sigs = append(sigs, proggen.FunSig{Name: "zf9", Arity: 1})
	}
	firstFun := len(c.Defs)
	for i := range sigs {
		if counter && i == len(sigs)-1 {
			c.Defs = append(c.Defs, "(let ((cn 0)) (defun zf9 (a) (setq cn (+ cn a 1))))")
			continue
		}
		c.Defs = append(c.Defs, r.Print(g.DefunIndexed(i, sigs)))
	}
	g.SetCallable(sigs)
	// the main form calls the first function (so that the chain is exercised) and may call any other
	call := []string{sigs[0].Name}
	for k := 0; k < sigs[0].Arity; k++ {
		call = append(call, r.Print(g.Expr(proggen.TInt, nil, 3)))
	}
	c.Main = "(list (" + strings.Join(call, " ") + ") " + r.Print(g.Expr(proggen.TInt, nil, 2)) + ")"
	if rapid.IntRange(0, 4).Draw(rt, "self-redefinition") == 0 {
		// a function that is redefined by a function it calls, while its own call is still running: the running call
		// finishes the body it started with, the next call runs the new body
		c.Defs = append(c.Defs,
			"(defun zf8 () (defun zf7 (x) (vt:mark 9001 x) (* x 3)))",
			"(defun zf7 (x) (zf8) (vt:mark 9002 x) (* x 2))")
		c.Main = c.Main[:len(c.Main)-1] + " (zf7 3) (zf7 4))"
	}
	if rapid.IntRange(0, 3).Draw(rt, "defvar-in-main") == 0 {
		// a defvar inside the code that is evaluated k times, of a variable the same code sets to nil every other time:
		// only the first evaluation of the defvar gives the variable a value
		c.Main = c.Main[:len(c.Main)-1] + " (progn (defvar *zg7* t) (setq *zg7* (not *zg7*)) *zg7*))"
	}
	c.K = rapid.IntRange(1, 5).Draw(rt, "k")
	if rapid.IntRange(0, 2).Draw(rt, "redef") == 0 {
		j := rapid.IntRange(0, nfun-1).Draw(rt, "redefwhich")
		c.Redef = firstFun + j
		if rapid.Bool().Draw(rt, "redef-lambda-list") {
			// the new definition has another lambda list (last parameter optional); a form read after the
			// redefinition calls it with one argument less, which the first definition would have rejected
			c.NewDef = r.Print(g.DefunIndexedOpt(j, sigs))
			g.SetCallable(sigs)
			call := []string{sigs[j].Name}
			for k := 0; k < sigs[j].Arity-1; k++ {
				call = append(call, r.Print(g.Expr(proggen.TInt, nil, 3)))
			}
			c.After = "(list (" + strings.Join(call, " ") + "))"
		} else {
			c.NewDef = r.Print(g.DefunIndexed(j, sigs))
		}
		c.Unbind = rapid.IntRange(0, 2).Draw(rt, "unbind") == 0
		if c.After == "" && !c.Unbind && rapid.Bool().Draw(rt, "redef-generic") {
			c.Generic = sigs[j].Name
		}
	} else if rapid.IntRange(0, 3).Draw(rt, "generic") == 0 {
		c.Generic = sigs[rapid.IntRange(0, nfun-1).Draw(rt, "genericwhich")].Name
	}
	if c.Generic != "" {
		c.Defgeneric = rapid.Bool().Draw(rt, "defgeneric")
	}
	all := permutations(len(c.Defs))
	if len(c.Defs) <= 3 {
		c.Perms = all
	} else {
		// identity, reverse and four drawn orders
		c.Perms = append(c.Perms, all[0], all[len(all)-1])
		for i := 0; i < 4; i++ {
			c.Perms = append(c.Perms, all[rapid.IntRange(0, len(all)-1).Draw(rt, "perm")])
		}
	}
	return c
}

// ---------------------------------------------------------------- oracle

type runResult struct {
	results []string // value text of each evaluation of main (K, then one after the redefinition)
	traces  []string
	err     string
	big     bool // the reference evaluator left its integer range
	// initMarks: complaint about how often the marked initial value forms of the definitions were evaluated
	initMarks string
}

func reference(c Case, perm []int) runResult {
	var out runResult
	m := r.NewMachine()
	m.MaxSteps = 400000
	parse := func(src string) []r.Val {
		forms, err := r.Parse(src)
		if err != nil {
			panic("harness: " + err.Error())
		}
		return forms
	}
	for range c.Macros {
		m.Run(parse("(defmacro zm1 (x) (list '+ x 1))"))
	}
	for _, i := range perm {
		m.Run(parse(c.Defs[i]))
	}
	main := parse(c.Main)
	evalMain := func() {
		m.Trace = nil
		o := m.Run(main)
		if o.Err != nil {
			out.err = o.Err.Error()
		}
		v := "?"
		if len(o.Vals) > 0 {
			v = r.Show(o.Vals[0])
		}
		out.results = append(out.results, v)
		out.traces = append(out.traces, o.Trace)
	}
	for k := 0; k < c.K; k++ {
		evalMain()
	}
	if c.Redef >= 0 {
		m.Run(parse(c.NewDef))
		evalMain()
		if c.After != "" {
			main = parse(c.After)
			evalMain()
		}
	}
	out.big = m.Big
	return out
}

func slipRun(c Case, perm []int, mode string) (out runResult) {
	n := ctr.Add(1)
	if h.Thorough() {
		// slip keeps an entry per function name for ever (Package.lambdas is never shrunk), so hundreds of thousands
		// of fresh names per shard cost gigabytes: the thorough tier goes round a pool of names. Every name is undefined
		// again at the end of its variant, so the next user of a name meets an undefined function as before.
		n %= 20000
	}
	suffix := fmt.Sprintf("v%d", n)
	rn := func(s string) string { return rename(s, suffix) }
	scope := slip.NewScope()
	defer func() {
		seen := map[string]bool{}
		for _, text := range append(append(append([]string{}, c.Macros...), c.Defs...), c.Main, c.NewDef, c.After) {
			for _, name := range nameRx.FindAllString(text, -1) {
				name = rename(name, suffix)
				if seen[name] {
					continue
				}
				seen[name] = true
				_ = ev.Try(func() slip.Object {
					if strings.HasPrefix(name, "zg") {
						slip.CurrentPackage.Remove("+" + name + "+")
						slip.CurrentPackage.Remove("*" + name + "*")
					} else {
						slip.CurrentPackage.Undefine(name)
					}
					return nil
				})
			}
		}
	}()
	evalTop := func(src string) ev.Outcome {
		switch mode {
		case "code-compile":
			return ev.Try(func() slip.Object {
				code := slip.ReadString(src, scope)
				code.Compile()
				return code.Eval(scope, nil)
			})
		case "compile-string":
			return ev.Try(func() slip.Object {
				obj := slip.CompileString(src, scope)
				if obj == nil {
					return nil
				}
				return scope.Eval(obj, 0)
			})
		case "eval-quoted":
			return ev.Eval(scope, "(eval '"+src+")")
		}
		return ev.Eval(scope, src)
	}
	var defs []string
	for _, mc := range c.Macros {
		defs = append(defs, rn(mc))
	}
	ev.ResetTrace()
	defer func() {
		if out.err == "" && out.initMarks != "" {
			out.err = out.initMarks
		}
	}()
	for _, i := range perm {
		defs = append(defs, rn(c.asMethod(c.Defs[i])))
	}
	if mode == "load-file" {
		dir := os.Getenv("VERIF_WORK")
		if dir == "" {
			dir = os.TempDir()
		}
		path := filepath.Join(dir, "c08-"+suffix+".lisp")
		if err := os.WriteFile(path, []byte(strings.Join(defs, "\n")+"\n"), 0o644); err != nil {
			out.err = "harness: " + err.Error()
			return
		}
		defer os.Remove(path)
		if o := ev.Eval(scope, fmt.Sprintf("(load %q)", path)); o.Kind != ev.Value {
			out.err = "load: " + o.String()
			return
		}
	} else {
		for _, d := range defs {
			if o := evalTop(d); o.Kind != ev.Value {
				out.err = "definition " + d + ": " + o.String()
				return
			}
		}
	}
	// the initial value form of every defvar / defparameter has been evaluated once
	for id := 9101; id <= 9102; id++ {
		n, want := 0, 0
		for _, e := range ev.Trace() {
			if e.ID == fmt.Sprint(id) {
				n++
			}
		}
		for _, d := range c.Defs {
			if strings.Contains(d, fmt.Sprintf("(vt:mark %d ", id)) {
				want = 1
			}
		}
		if n != want {
			out.initMarks = fmt.Sprintf("the initial value form marked %d was evaluated %d times while the definitions were evaluated (mode %s), expected %d", id, n, mode, want)
		}
	}
	// the same code object of main is evaluated every time
	var mainObj slip.Object
	prep := ev.Try(func() slip.Object {
		src := rn(c.Main)
		switch mode {
		case "code-compile":
			code := slip.ReadString(src, scope)
			code.Compile()
			mainObj = code[0]
		case "compile-string":
			mainObj = slip.CompileString(src, scope)
		default:
			mainObj = slip.ReadString(src, scope)[0]
		}
		return nil
	})
	if prep.Kind != ev.Value {
		out.err = "reading main: " + prep.String()
		return
	}
	evalMain := func() {
		ev.ResetTrace()
		o := ev.Try(func() slip.Object { return mainObj.Eval(scope, 0) })
		if o.Kind != ev.Value {
			out.err = o.String()
			out.results = append(out.results, "?")
		} else {
			out.results = append(out.results, sx.Text(o.Val))
		}
		out.traces = append(out.traces, ev.TraceString())
	}
	for k := 0; k < c.K; k++ {
		evalMain()
	}
	if c.Redef >= 0 && out.err == "" {
		if c.Unbind {
			if f := strings.Fields(c.NewDef); len(f) > 1 && f[0] == "(defun" {
				if o := evalTop(rn("(fmakunbound '" + f[1] + ")")); o.Kind != ev.Value {
					out.err = "fmakunbound before the redefinition: " + o.String()
					return
				}
			}
		}
		if o := evalTop(rn(c.asMethod(c.NewDef))); o.Kind != ev.Value {
			out.err = "redefinition: " + o.String()
			return
		}
		evalMain()
		if c.After != "" && out.err == "" {
			ev.ResetTrace()
			o := evalTop(rn(c.After))
			if o.Kind != ev.Value {
				out.err = "after the redefinition: " + o.String()
				out.results = append(out.results, "?")
			} else {
				out.results = append(out.results, sx.Text(o.Val))
			}
			out.traces = append(out.traces, ev.TraceString())
		}
	}
	return
}

func describe(c Case, perm []int, mode string) string {
	var sb strings.Builder
	fmt.Fprintf(&sb, "mode %s, definition order %v\n", mode, perm)
	for _, mc := range c.Macros {
		sb.WriteString("  " + mc + "\n")
	}
	for _, i := range perm {
		sb.WriteString("  " + c.Defs[i] + "\n")
	}
	fmt.Fprintf(&sb, "  main (evaluated %d times): %s\n", c.K, c.Main)
	if c.Redef >= 0 {
		sb.WriteString("  then redefine: " + c.NewDef + "\n")
		if c.After != "" {
			sb.WriteString("  then evaluate: " + c.After + "\n")
		}
	}
	return sb.String()
}

func run(c Case) *h.Result {
	res := &h.Result{}
	if c.K < 1 {
		c.K = 1
	}
	evals := 0
	forward := false
	for _, perm := range c.Perms {
		want := reference(c, perm)
		if want.big {
			res.Skip = "reference-integers-beyond-2^31"
			return res
		}
		if want.err != "" {
			return h.Fail("harness: the generated program signals in the reference evaluator: %s\n%s", want.err, describe(c, perm, "-"))
		}
		// a caller defined before its callee?
		for pos, i := range perm {
			for _, j := range perm[pos+1:] {
				if m := regexp.MustCompile(`^\(defun (zf\d+)`).FindStringSubmatch(c.Defs[j]); m != nil && strings.Contains(c.Defs[i], "("+m[1]+" ") && strings.HasPrefix(c.Defs[i], "(defun") {
					forward = true
				}
			}
		}
		for _, mode := range modes {
			if mode == "eval-quoted" && h.ExclOn("eval-quoted-defun") {
				continue
			}
			got := slipRun(c, perm, mode)
			evals++
			if got.err != "" {
				res.Err = fmt.Sprintf("%sfails: %s\n  expected results %v", describe(c, perm, mode), got.err, want.results)
				res.Evals = evals
				return res
			}
			for k := range want.results {
				if k >= len(got.results) || want.results[k] != got.results[k] || want.traces[k] != got.traces[k] {
					res.Err = fmt.Sprintf("%sevaluation #%d of main differs\n  expected %s  trace %s\n  got      %s  trace %s\n  all expected: %v\n  all got:      %v",
						describe(c, perm, mode), k+1, want.results[k], want.traces[k], safe(got.results, k), safe(got.traces, k), want.results, got.results)
					res.Evals = evals
					return res
				}
			}
		}
	}
	res.Evals = evals
	res.NonTrivial = forward || c.K >= 2 || c.Redef >= 0
	res.Classes = append(res.Classes, fmt.Sprintf("defs:%d", len(c.Defs)), fmt.Sprintf("k:%d", c.K))
	if forward {
		res.Classes = append(res.Classes, "forward-reference")
	}
	if c.Generic != "" {
		res.Classes = append(res.Classes, "generic-function")
	}
	if c.Redef >= 0 {
		res.Classes = append(res.Classes, "redefinition")
	}
	if len(c.Macros) > 0 {
		res.Classes = append(res.Classes, "macro")
	}
	return res
}

func safe(s []string, i int) string {
	if i < len(s) {
		return s[i]
	}
	return "<missing>"
}

var order = h.Prop[Case]{Name: "order-mode-repeat", Gen: genCase, Run: run}

func TestC08(t *testing.T) {
	h.Rule("programs of 2-4 defuns (acyclic call graph plus counted self recursion, bodies from the C01 expression generator with trace marks), 0-2 defvars read and assigned by the functions, " +
		"an optional macro, and a main form; every order of the definitions (all for <= 3, identity + reverse + 4 drawn for more) x {list forms, Code.Compile, CompileString, load from a file, eval of the quoted form} " +
		"x the same main code object evaluated k = 1..5 times x optional redefinition of one function followed by one more evaluation; oracle: results and traces of every evaluation equal the reference evaluator " +
		"(global functions late-bound), hence equal across orders and modes. factory-rerun: one (lambda () v) / (defun get () v) form inside a function evaluated 2-5 times, each time under a let of v or not, global v assigned before or after, list form or compiled; every closure answers what it answers when it is the only evaluation of the form. Non-trivial: a caller defined before its callee, or k >= 2, or a redefinition. Distinct by case JSON.")
	h.Assume("internal/refeval; fresh function, macro and variable names per variant (renamed by the harness) so variants cannot contaminate one another")
	h.RunProp(t, order, h.N(1200, 12000))
	testFactory(t)
}
