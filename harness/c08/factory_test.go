package c08

import (
	"fmt"
	"strings"
	"testing"

	"github.com/ohler55/slip"
	"pgregory.net/rapid"

	"verif/harness/internal/ev"
	"verif/harness/internal/h"
	"verif/harness/internal/sx"
)

// Sub-property factory-rerun: one (lambda ...) or (defun ...) form, written once inside a function, is evaluated
// several times, each time under other bindings (a let around the call of the function, or none). What a closure made
// by one of those evaluations answers must not depend on the other evaluations: it is compared with the answer of
// the same closure in a program that makes only that one (metamorphic; no model of slip's scoping is involved).

type FCase struct {
	Under     []bool `json:"under"`      // evaluation i happens under (let ((v 'l<i>)) ...)
	SetBefore bool   `json:"set_before"` // the global value of v is assigned before the evaluations (else after them)
	Defun     bool   `json:"defun"`      // the form is (defun get () v), each evaluation redefines it; else (lambda () v), all closures are kept
	Body      int    `json:"body"`       // 0: v is the body; 1: (progn v); 2: v twice as body forms; 3: (list v)
	Compile   bool   `json:"compile"`
	CallEarly bool   `json:"call_early"` // every closure is also called right after it is made
}

func (c FCase) program(suffix string, only int) string {
	v, mk := "zfv"+suffix, "zfmk"+suffix
	body := []string{v, "(progn " + v + ")", v + " " + v, "(car (list " + v + "))"}[c.Body%4]
	var b strings.Builder
	inner := "(lambda () " + body + ")"
	if c.Defun {
		inner = "(defun zfget" + suffix + " () " + body + ")"
	}
	fmt.Fprintf(&b, "(defun %s () %s)\n", mk, inner)
	if c.SetBefore {
		fmt.Fprintf(&b, "(setq %s 'global)\n", v)
	}
	var calls []string
	for i, u := range c.Under {
		if only >= 0 && i != only {
			continue
		}
		r := fmt.Sprintf("zfr%d%s", i, suffix)
		mkc := "(" + mk + ")"
		if u {
			mkc = fmt.Sprintf("(let ((%s 'l%d)) %s)", v, i, mkc)
		}
		call := "(funcall " + r + ")"
		if c.Defun {
			fmt.Fprintf(&b, "%s\n", mkc)
			call = "(zfget" + suffix + ")"
			// a redefined function: only the last definition can be asked afterwards, the earlier ones right away
			if c.CallEarly || true {
				fmt.Fprintf(&b, "(setq %s (ignore-errors %s))\n", r, call)
			}
			calls = append(calls, r)
			continue
		}
		fmt.Fprintf(&b, "(setq %s %s)\n", r, mkc)
		if c.CallEarly {
			fmt.Fprintf(&b, "(ignore-errors %s)\n", call)
		}
		calls = append(calls, "(ignore-errors "+call+")")
	}
	if !c.SetBefore {
		fmt.Fprintf(&b, "(setq %s 'global)\n", v)
	}
	if c.Defun {
		calls = append(calls, "(zfget"+suffix+")")
	}
	fmt.Fprintf(&b, "(list %s)\n", strings.Join(calls, " "))
	return b.String()
}

func (c FCase) eval(src string) ev.Outcome {
	scope := slip.NewScope()
	return ev.Try(func() slip.Object {
		code := slip.ReadString(src, scope)
		if c.Compile {
			code.Compile()
		}
		return code.Eval(scope, nil)
	})
}

func runFactory(c FCase) *h.Result {
	res := &h.Result{NonTrivial: len(c.Under) >= 2}
	if len(c.Under) == 0 || len(c.Under) > 5 {
		return h.Fail("bad case")
	}
	n := ctr.Add(1)
	full := c.program(fmt.Sprintf("f%d", n), -1)
	fo := c.eval(full)
	if fo.Kind != ev.Value {
		return h.Fail("the program does not evaluate: %s\n%s", fo, full)
	}
	fl, _ := fo.Val.(slip.List)
	want := len(c.Under)
	if c.Defun {
		want++
	}
	if len(fl) != want {
		return h.Fail("the program answers %s, expected %d values\n%s", sx.Text(fo.Val), want, full)
	}
	for i := range c.Under {
		single := c.program(fmt.Sprintf("s%d-%d", n, i), i)
		so := c.eval(single)
		res.Evals++
		sl, _ := so.Val.(slip.List)
		if so.Kind != ev.Value || len(sl) == 0 {
			return h.Fail("the program with evaluation %d only does not evaluate: %s\n%s", i, so, single)
		}
		if a, b := sx.Text(fl[i]), sx.Text(sl[0]); a != b {
			return h.Fail("what evaluation %d of the form made answers %s, but %s when it is the only evaluation of the form\nall evaluations:\n%sonly that one:\n%s", i, a, b, full, single)
		}
		if c.Defun && i == len(c.Under)-1 {
			if a, b := sx.Text(fl[len(fl)-1]), sx.Text(sl[len(sl)-1]); a != b {
				return h.Fail("the function as defined last answers %s at the end, but %s when that is the only definition\nall evaluations:\n%sonly that one:\n%s", a, b, full, single)
			}
		}
	}
	return res
}

var factory = h.Prop[FCase]{Name: "factory-rerun", Run: runFactory, Gen: func(rt *rapid.T) FCase {
	c := FCase{SetBefore: rapid.Bool().Draw(rt, "set-before"), Defun: rapid.Bool().Draw(rt, "defun"), Body: rapid.IntRange(0, 3).Draw(rt, "body"),
		Compile: rapid.Bool().Draw(rt, "compile"), CallEarly: rapid.Bool().Draw(rt, "call-early")}
	for i := rapid.IntRange(2, 5).Draw(rt, "n"); i > 0; i-- {
		c.Under = append(c.Under, rapid.Bool().Draw(rt, "under"))
	}
	return c
}}

func testFactory(t *testing.T) {
	h.RunProp(t, factory, h.N(600, 6000))
}
