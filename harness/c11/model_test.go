package c11

// The reference model of C11. It is written from the property statement only and never looks at slip:
//
//   precedence(F) = F followed by its components depth-first in the order written in defflavor, first
//   occurrence kept;
//   (send inst :msg x) = whoppers of precedence(F) outermost-first, every :before in precedence order, the first
//   primary in precedence order, every :after in reverse precedence order;
//   a variable's default, its accessors, initable variables and init keywords come from precedence(F).

import (
	"fmt"
	"strconv"
	"strings"
)

// Var is an instance variable declaration; Def nil = declared without a default.
type Var struct {
	Name string `json:"n"`
	Def  *int   `json:"d,omitempty"`
	Nil  bool   `json:"nil,omitempty"` // (name nil): the default is given and it is nil
}

// Flv is one defflavor form. Comps index earlier flavors in written order.
type Flv struct {
	Comps   []int    `json:"comps"`
	Vars    []Var    `json:"vars,omitempty"`
	GetAll  bool     `json:"getall,omitempty"`  // bare :gettable-instance-variables
	Get     []string `json:"get,omitempty"`     // (:gettable-instance-variables ...) own variables
	SetAll  bool     `json:"setall,omitempty"`  // bare :settable-instance-variables
	Set     []string `json:"set,omitempty"`     //
	InitAll bool     `json:"initall,omitempty"` // bare :initable-instance-variables
	Init    []string `json:"init,omitempty"`    //
	Keys    []string `json:"keys,omitempty"`    // (:init-keywords ...)
}

// Meth is one defmethod / defwhopper form: kind p(rimary) b(efore) a(fter) w(hopper).
type Meth struct {
	F    int    `json:"f"`
	Msg  string `json:"msg"`
	Kind string `json:"k"`
}

// Case is a definition history: Order is a permutation of the forms, form i < len(Flavors) is the defflavor of
// flavor i, form len(Flavors)+j is method j.
type Case struct {
	Flavors []Flv  `json:"flavors"`
	Meths   []Meth `json:"meths"`
	Order   []int  `json:"order"`
	Mid     bool   `json:"mid,omitempty"`   // observe every flavor after every form, not only at the end
	Bound   bool   `json:"bound,omitempty"` // deliver the messages through Instance.BoundReceive
}

var (
	varPool = []string{"u", "v", "w"}
	keyPool = []string{"k1", "k2"}
	// :id is also handled by vanilla-flavor (a primary that ignores its arguments); vanilla-flavor is the last
	// entry of every precedence list, so any primary of a component comes first.
	msgPool = []string{"m", "n", "id"}
)

// valid reports why a case is not a legal history ("" = legal).
func (c Case) valid() string {
	nf, n := len(c.Flavors), len(c.Flavors)+len(c.Meths)
	if nf == 0 || len(c.Order) != n {
		return "order length"
	}
	for i, f := range c.Flavors {
		seen := map[int]bool{}
		for _, k := range f.Comps {
			if k < 0 || k >= i || seen[k] {
				return "component index"
			}
			seen[k] = true
		}
		own := map[string]bool{}
		for _, v := range f.Vars {
			if own[v.Name] || !in(v.Name, varPool...) {
				return "variable"
			}
			own[v.Name] = true
		}
		for _, l := range [][]string{f.Get, f.Set, f.Init} {
			for _, x := range l {
				if !own[x] {
					return "option names a variable the flavor does not declare"
				}
			}
		}
		for _, k := range f.Keys {
			if !in(k, keyPool...) {
				return "keyword"
			}
		}
	}
	for _, m := range c.Meths {
		if m.F < 0 || m.F >= nf || !in(m.Msg, msgPool...) || !in(m.Kind, "p", "b", "a", "w") {
			return "method"
		}
	}
	pos := make([]int, n)
	for i := range pos {
		pos[i] = -1
	}
	for p, f := range c.Order {
		if f < 0 || f >= n || pos[f] >= 0 {
			return "order is not a permutation"
		}
		pos[f] = p
	}
	for i, f := range c.Flavors {
		for _, k := range f.Comps {
			if pos[k] > pos[i] {
				return "component after user"
			}
		}
	}
	for j, m := range c.Meths {
		if pos[m.F] > pos[nf+j] {
			return "method before its flavor"
		}
	}
	return ""
}

func in(s string, set ...string) bool {
	for _, x := range set {
		if s == x {
			return true
		}
	}
	return false
}

// prec is the component precedence of flavor f.
func prec(fl []Flv, f int) []int {
	var out []int
	seen := make([]bool, len(fl))
	var visit func(int)
	visit = func(g int) {
		if seen[g] {
			return
		}
		seen[g] = true
		out = append(out, g)
		for _, k := range fl[g].Comps {
			visit(k)
		}
	}
	visit(f)
	return out
}

// expectation of one send.
type sendExp struct {
	none    bool     // nothing handles the message: a condition is expected
	vanilla bool     // no primary among the components: vanilla-flavor's runs (no mark, value not fixed)
	trace   []string // id=value entries
	value   string   // expected value text ("" = not fixed: no primary)
	nWhop   int
	nBefore int
	nAfter  int
}

func tag(kind string, f, j int) string { return kind + strconv.Itoa(f) + "j" + strconv.Itoa(j) }

// expectSend computes what (send inst-of-f :msg x) must do when exactly the methods with live[j] are defined;
// live[j] is the position in the history at which method j was defined (-1 = not yet). A later definition of the
// same (flavor, message, kind) replaces an earlier one.
func expectSend(c Case, f int, msg string, x int, live []int) sendExp {
	// current definition per (flavor, kind)
	cur := map[string]int{}
	for j, m := range c.Meths {
		if m.Msg != msg || live[j] < 0 {
			continue
		}
		key := m.Kind + strconv.Itoa(m.F)
		if old, has := cur[key]; !has || live[old] < live[j] {
			cur[key] = j
		}
	}
	var e sendExp
	if len(cur) == 0 && msg != "id" {
		e.none = true
		return e
	}
	p := prec(c.Flavors, f)
	pick := func(kind string) (js []int, fs []int) {
		for _, g := range p {
			if j, has := cur[kind+strconv.Itoa(g)]; has {
				js = append(js, j)
				fs = append(fs, g)
			}
		}
		return
	}
	wj, wf := pick("w")
	bj, bf := pick("b")
	aj, af := pick("a")
	pj, pf := pick("p")
	if len(wj)+len(bj)+len(aj)+len(pj) == 0 && msg != "id" {
		e.none = true
		return e
	}
	e.vanilla = msg == "id" && len(pj) == 0
	e.nWhop, e.nBefore, e.nAfter = len(wj), len(bj), len(aj)
	arg := x
	for i := range wj {
		e.trace = append(e.trace, fmt.Sprintf("%s=%d", tag("wi", wf[i], wj[i]), arg))
		arg++
	}
	for i := range bj {
		e.trace = append(e.trace, fmt.Sprintf("%s=%d", tag("b", bf[i], bj[i]), arg))
	}
	if len(pj) > 0 {
		e.trace = append(e.trace, fmt.Sprintf("%s=%d", tag("p", pf[0], pj[0]), arg))
	}
	for i := len(aj) - 1; i >= 0; i-- {
		e.trace = append(e.trace, fmt.Sprintf("%s=%d", tag("a", af[i], aj[i]), arg))
	}
	for i := len(wj) - 1; i >= 0; i-- {
		e.trace = append(e.trace, fmt.Sprintf("%s=%d", tag("wo", wf[i], wj[i]), x+i))
	}
	if len(pj) > 0 {
		var parts []string
		for i := range wj {
			parts = append(parts, tag("w", wf[i], wj[i]))
		}
		parts = append(parts, tag("p", pf[0], pj[0]), strconv.Itoa(arg))
		e.value = "(" + strings.Join(parts, " ") + ")"
	}
	return e
}

// three-valued answers for what the statement leaves open.
const (
	no = iota
	yes
	maybe
)

type varExp struct {
	declared bool
	def      *int // default that must be seen (nil = not fixed)
	defNil   bool // the default that must be seen is nil
	gettable int
	settable int
	initable int
}

func declares(f Flv, x string) (Var, bool) {
	for _, v := range f.Vars {
		if v.Name == x {
			return v, true
		}
	}
	return Var{}, false
}

// expectVar: what an instance of flavor f must show for variable x.
func expectVar(fl []Flv, f int, x string) (e varExp) {
	p := prec(fl, f)
	for _, g := range p {
		if v, has := declares(fl[g], x); has {
			if !e.declared {
				e.declared = true
				e.defNil = v.Nil && v.Def == nil
				e.def = v.Def // the first declaring flavor decides; no default there = not fixed
			}
		}
	}
	if !e.declared {
		return
	}
	up := func(cur *int, v int) {
		if v == yes || (*cur == no && v == maybe) {
			*cur = v
		}
	}
	for _, g := range p {
		_, own := declares(fl[g], x)
		// does g know x at all (own or inherited)? a bare option may or may not cover inherited variables.
		known := false
		for _, h := range prec(fl, g) {
			if _, has := declares(fl[h], x); has {
				known = true
			}
		}
		opt := func(all bool, list []string) int {
			switch {
			case in(x, list...):
				return yes
			case all && own:
				return yes
			case all && known:
				return maybe
			}
			return no
		}
		up(&e.gettable, opt(fl[g].GetAll, fl[g].Get))
		up(&e.settable, opt(fl[g].SetAll, fl[g].Set))
		up(&e.initable, opt(fl[g].InitAll, fl[g].Init))
	}
	// Symbolics: settable implies gettable and initable; slip does not say. Left open.
	if e.settable != no {
		if e.gettable == no {
			e.gettable = maybe
		}
	}
	// whether a variable that nobody declared initable is rejected by make-instance is left open
	if e.initable == no {
		e.initable = maybe
	}
	return
}

// expectKey: must (make-instance f :key 1) be accepted?
func expectKey(fl []Flv, f int, key string) bool {
	for _, g := range prec(fl, f) {
		if in(key, fl[g].Keys...) {
			return true
		}
	}
	return false
}

// inheritors counts the flavors among defined (other than b) that have b in their precedence.
func inheritors(fl []Flv, b int, defined []bool) (n int) {
	for g := range fl {
		if g == b || !defined[g] {
			continue
		}
		for _, h := range prec(fl, g) {
			if h == b {
				n++
				break
			}
		}
	}
	return
}

// late: the largest number of already defined inheritors any method sees at its definition.
func late(c Case) (maxInh int, nLate int) {
	nf := len(c.Flavors)
	defined := make([]bool, nf)
	for _, f := range c.Order {
		if f < nf {
			defined[f] = true
			continue
		}
		k := inheritors(c.Flavors, c.Meths[f-nf].F, defined)
		if k > 0 {
			nLate++
		}
		if k > maxInh {
			maxInh = k
		}
	}
	return
}
