package c11

import (
	"fmt"
	"strconv"
	"sync/atomic"

	"github.com/ohler55/slip"
	"pgregory.net/rapid"

	"verif/harness/internal/ev"
	"verif/harness/internal/h"
	"verif/harness/internal/sx"
)

// Accessors and hand-written methods of the same name. The getter :u and the setter :set-u that a flavor gets from
// :gettable- / :settable-instance-variables are primaries of that flavor; a flavor may also define a primary named :u or
// :set-u itself. "The first primary in component precedence order" decides between them, whatever the order of the
// forms: a (defmethod (g :u)) replaces g's own accessor (it is defined after g), an accessor of a flavor earlier in the
// precedence wins over a hand-written method of a later one and the other way round.

// AccCase: Flavors as in Case (variable u only); Meths are primaries with Msg "u" or "set-u"; Order as in Case.
type AccCase struct {
	Flavors []Flv  `json:"flavors"`
	Meths   []Meth `json:"meths"`
	Order   []int  `json:"order"`
}

func (c AccCase) asCase() Case { return Case{Flavors: c.Flavors, Meths: c.Meths, Order: c.Order} }

// accessorOf: does flavor g itself supply the accessor (getter or setter) of u: yes / no / maybe (a bare option on a
// flavor that only inherits u: slip documents "all variables", the statement does not say whether inherited ones count).
func accessorOf(fl []Flv, g int, setter bool) int {
	all, list := fl[g].GetAll, fl[g].Get
	if setter {
		all, list = fl[g].SetAll, fl[g].Set
	}
	_, own := declares(fl[g], "u")
	switch {
	case in("u", list...):
		return yes
	case all && own:
		return yes
	case all:
		for _, k := range prec(fl, g) {
			if _, has := declares(fl[k], "u"); has {
				return maybe
			}
		}
	}
	return no
}

type accExp struct {
	open    bool   // not fixed
	none    bool   // nobody handles the message
	user    string // tag of the hand-written primary that must run
	getter  bool   // the accessor must run
	fromFlv int
}

func expectAccessor(c AccCase, f int, setter bool, live []int) (e accExp) {
	msg := "u"
	if setter {
		msg = "set-u"
	}
	for _, g := range prec(c.Flavors, f) {
		// the hand-written primary of g, the latest definition
		best := -1
		for j, m := range c.Meths {
			if m.F == g && m.Msg == msg && live[j] >= 0 && (best < 0 || live[best] < live[j]) {
				best = j
			}
		}
		if best >= 0 {
			return accExp{user: tag("p", g, best), fromFlv: g}
		}
		switch accessorOf(c.Flavors, g, setter) {
		case yes:
			return accExp{getter: true, fromFlv: g}
		case maybe:
			return accExp{open: true}
		}
		// settable implies gettable in Symbolics; slip does not say: a settable flavor leaves the getter open
		if !setter && accessorOf(c.Flavors, g, true) != no {
			return accExp{open: true}
		}
	}
	return accExp{none: true}
}

var accCtr int64

func runAccessor(c AccCase) *h.Result {
	cc := c.asCase()
	for _, m := range c.Meths {
		if m.Kind != "p" || (m.Msg != "u" && m.Msg != "set-u") {
			return h.Fail("bad case: method %+v", m)
		}
	}
	nf := len(c.Flavors)
	id := atomic.AddInt64(&accCtr, 1)
	w := &world{c: cc, scope: slip.NewScope(), first: make([]slip.Object, nf)}
	for i := range c.Flavors {
		w.names = append(w.names, fmt.Sprintf("c11a%dz%d", id, i))
	}
	defer w.cleanup()
	res := &h.Result{}
	live := make([]int, len(c.Meths))
	for j := range live {
		live[j] = -1
	}
	form := func(f int) string {
		if f < nf {
			return w.defflavor(f)
		}
		j := f - nf
		m := c.Meths[j]
		t := tag("p", m.F, j)
		if m.Msg == "u" {
			return fmt.Sprintf("(defmethod (%s :u) () (vt:mark '%s 0) '%s)", w.names[m.F], t, t)
		}
		return fmt.Sprintf("(defmethod (%s :set-u) (v) (vt:mark '%s v) (setq u (+ v 1000)) '%s)", w.names[m.F], t, t)
	}
	var hist []string
	defined := make([]bool, nf)
	lateUser, shadowing := false, false
	for p, f := range c.Order {
		src := form(f)
		hist = append(hist, src)
		if out := ev.Eval(w.scope, src); out.Kind != ev.Value {
			return h.Fail("%v: the last form => %s", hist, out)
		}
		if f < nf {
			defined[f] = true
		} else {
			live[f-nf] = p
			// defined after a flavor that inherits from its flavor exists?
			for g := range c.Flavors {
				if g != c.Meths[f-nf].F && defined[g] && in(strconv.Itoa(c.Meths[f-nf].F), precStrings(c.Flavors, g)...) {
					lateUser = true
				}
			}
		}
		// observe after every form
		for g := 0; g < nf; g++ {
			if !defined[g] {
				continue
			}
			uDeclared := false
			for _, k := range prec(c.Flavors, g) {
				if _, has := declares(c.Flavors[k], "u"); has {
					uDeclared = true
				}
			}
			for _, setter := range []bool{false, true} {
				e := expectAccessor(c, g, setter, live)
				if e.open {
					continue
				}
				if setter && !uDeclared && e.user == "" {
					continue
				}
				rest := ":u"
				if setter {
					rest = ":set-u 77"
				}
				ev.ResetTrace()
				out, inst := w.probe(g, rest)
				var tr string
				for _, t := range ev.Trace() {
					tr += t.ID + "=" + t.Val + " "
				}
				where := fmt.Sprintf("after %v: (send (make-instance '%s) %s) (precedence %s)", hist, w.names[g], rest, w.precNames(g))
				switch {
				case e.none:
					if out.Kind != ev.Condition {
						return h.Fail("%s: nobody in the precedence list handles the message, got %s", where, out)
					}
				case e.user != "":
					if e.fromFlv != g {
						shadowing = true
					}
					if out.Kind != ev.Value || sx.Text(out.Val) != e.user {
						return h.Fail("%s: the first primary in precedence order is the hand-written method %s of %s, got %s (trace %s)", where, e.user, w.names[e.fromFlv], out, tr)
					}
				case e.getter:
					if tr != "" {
						shadowing = true
						return h.Fail("%s: the first primary in precedence order is the accessor that %s declares, but a hand-written method ran: %s => %s", where, w.names[e.fromFlv], tr, out)
					}
					if out.Kind != ev.Value {
						return h.Fail("%s: the accessor declared by %s must handle it, got %s", where, w.names[e.fromFlv], out)
					}
					if setter && inst != nil {
						if v, _ := inst.SlotValue(slip.Symbol("u")); sx.Text(v) != "77" {
							return h.Fail("%s: the setter declared by %s must set u to 77, u is %s", where, w.names[e.fromFlv], sx.Text(v))
						}
					}
				}
				res.Evals++
			}
		}
	}
	res.NonTrivial = lateUser || shadowing
	if lateUser {
		res.Classes = append(res.Classes, "acc:method-defined-after-an-inheritor")
	}
	return res
}

func precStrings(fl []Flv, g int) (out []string) {
	for _, k := range prec(fl, g) {
		out = append(out, strconv.Itoa(k))
	}
	return
}

// legalOrder: components before users, a flavor before its methods.
func legalOrder(c AccCase) bool { return c.asCaseMsgFree().valid() == "" }

// asCaseMsgFree: the same history with message names the general validator knows.
func (c AccCase) asCaseMsgFree() Case {
	cc := c.asCase()
	cc.Meths = append([]Meth(nil), c.Meths...)
	for i := range cc.Meths {
		cc.Meths[i].Msg = "m"
	}
	return cc
}

func genAccCase(rt *rapid.T) AccCase {
	var c AccCase
	nf := rapid.IntRange(2, 4).Draw(rt, "flavors")
	for i := 0; i < nf; i++ {
		f := Flv{Comps: []int{}}
		if i > 0 {
			f.Comps = append(f.Comps, rapid.IntRange(0, i-1).Draw(rt, "comp"))
			if i > 1 && rapid.IntRange(0, 2).Draw(rt, "second") == 0 {
				if k := rapid.IntRange(0, i-1).Draw(rt, "comp2"); k != f.Comps[0] {
					f.Comps = append(f.Comps, k)
				}
			}
		}
		if i == 0 || rapid.IntRange(0, 1).Draw(rt, "declares") == 0 {
			d := 10 + i
			f.Vars = []Var{{Name: "u", Def: &d}}
		}
		own := len(f.Vars) > 0
		for _, setter := range []bool{false, true} {
			switch k := rapid.IntRange(0, 3).Draw(rt, "option"); {
			case k == 1:
				if setter {
					f.SetAll = true
				} else {
					f.GetAll = true
				}
			case k == 2 && own:
				if setter {
					f.Set = []string{"u"}
				} else {
					f.Get = []string{"u"}
				}
			}
		}
		c.Flavors = append(c.Flavors, f)
	}
	nm := rapid.IntRange(1, 3).Draw(rt, "methods")
	for j := 0; j < nm; j++ {
		c.Meths = append(c.Meths, Meth{F: rapid.IntRange(0, nf-1).Draw(rt, "mf"), Msg: rapid.SampledFrom([]string{"u", "u", "set-u"}).Draw(rt, "msg"), Kind: "p"})
	}
	// a legal order: drawn permutation repaired by moving every form behind what it needs
	n := nf + nm
	perm := rapid.Permutation(seqInts(n)).Draw(rt, "order")
	placed := map[int]bool{}
	var order []int
	var place func(f int)
	place = func(f int) {
		if placed[f] {
			return
		}
		if f < nf {
			for _, k := range c.Flavors[f].Comps {
				place(k)
			}
		} else {
			place(c.Meths[f-nf].F)
		}
		placed[f] = true
		order = append(order, f)
	}
	for _, f := range perm {
		place(f)
	}
	c.Order = order
	return c
}

func seqInts(n int) []int {
	s := make([]int, n)
	for i := range s {
		s[i] = i
	}
	return s
}

// enumerateAcc: base (declares u) and top (base) with every option combination on both (none / bare / listed where the
// flavor declares u; top declares u or not), one hand-written :u or :set-u on base or top, in every legal order.
func enumerateAcc(yield func(AccCase) bool) {
	opts := []int{0, 1, 2}
	d0, d1 := 10, 11
	for _, topDeclares := range []bool{false, true} {
		for _, bg := range opts {
			for _, bs := range opts {
				for _, tg := range opts {
					for _, ts := range opts {
						if !topDeclares && (tg == 2 || ts == 2) {
							continue
						}
						mk := func(g, s int, vars []Var) Flv {
							f := Flv{Comps: []int{}, Vars: vars, GetAll: g == 1, SetAll: s == 1}
							if g == 2 {
								f.Get = []string{"u"}
							}
							if s == 2 {
								f.Set = []string{"u"}
							}
							return f
						}
						base := mk(bg, bs, []Var{{Name: "u", Def: &d0}})
						var tv []Var
						if topDeclares {
							tv = []Var{{Name: "u", Def: &d1}}
						}
						top := mk(tg, ts, tv)
						top.Comps = []int{0}
						for _, mf := range []int{0, 1} {
							for _, msg := range []string{"u", "set-u"} {
								for _, order := range [][]int{{0, 1, 2}, {0, 2, 1}} {
									c := AccCase{Flavors: []Flv{base, top}, Meths: []Meth{{F: mf, Msg: msg, Kind: "p"}}, Order: order}
									if !legalOrder(c) {
										continue
									}
									if !yield(c) {
										return
									}
								}
							}
						}
					}
				}
			}
		}
	}
}

var (
	accProp = h.Prop[AccCase]{Name: "accessor-vs-method", Gen: genAccCase, Run: runAccessor}
	accGrid = h.Prop[AccCase]{Name: "accessor-vs-method-grid", Run: runAccessor}
)
