package c11

import (
	"fmt"
	"os"
	"strconv"
	"strings"
	"sync/atomic"
	"testing"

	"github.com/ohler55/slip"
	"github.com/ohler55/slip/pkg/flavors"
	"pgregory.net/rapid"

	"verif/harness/internal/ev"
	"verif/harness/internal/h"
	"verif/harness/internal/sx"
)

func TestMain(m *testing.M) { h.Main(m, "C11") }

// process-unique suffix for flavor names (flavors cannot be redefined); not part of the case.
var ctr int64

type world struct {
	c     Case
	names []string
	scope *slip.Scope
	first []slip.Object // per flavor: the instance made right after its defflavor
}

func (w *world) defflavor(i int) string {
	f := w.c.Flavors[i]
	var b strings.Builder
	b.WriteString("(defflavor " + w.names[i] + " (")
	for k, v := range f.Vars {
		if k > 0 {
			b.WriteByte(' ')
		}
		if v.Def != nil {
			fmt.Fprintf(&b, "(%s %d)", v.Name, *v.Def)
		} else if v.Nil {
			fmt.Fprintf(&b, "(%s nil)", v.Name)
		} else {
			b.WriteString(v.Name)
		}
	}
	b.WriteString(") (")
	for k, g := range f.Comps {
		if k > 0 {
			b.WriteByte(' ')
		}
		b.WriteString(w.names[g])
	}
	b.WriteString(")")
	opt := func(name string, all bool, list []string, prefix string) {
		switch {
		case len(list) > 0:
			b.WriteString(" (" + name)
			for _, x := range list {
				b.WriteString(" " + prefix + x)
			}
			b.WriteString(")")
		case all:
			b.WriteString(" " + name)
		}
	}
	opt(":gettable-instance-variables", f.GetAll, f.Get, "")
	opt(":settable-instance-variables", f.SetAll, f.Set, "")
	opt(":initable-instance-variables", f.InitAll, f.Init, "")
	opt(":init-keywords", false, f.Keys, ":")
	b.WriteString(")")
	return b.String()
}

func (w *world) defmethod(j int) string {
	m := w.c.Meths[j]
	name := w.names[m.F]
	switch m.Kind {
	case "p":
		t := tag("p", m.F, j)
		return fmt.Sprintf("(defmethod (%s :%s) (x) (vt:mark '%s x) (list '%s x))", name, m.Msg, t, t)
	case "b":
		return fmt.Sprintf("(defmethod (%s :before :%s) (x) (vt:mark '%s x))", name, m.Msg, tag("b", m.F, j))
	case "a":
		return fmt.Sprintf("(defmethod (%s :after :%s) (x) (vt:mark '%s x))", name, m.Msg, tag("a", m.F, j))
	}
	return fmt.Sprintf("(defwhopper (%s :%s) (x) (vt:mark '%s x) (let ((r (continue-whopper (+ x 1)))) (vt:mark '%s x) (cons '%s r)))",
		name, m.Msg, tag("wi", m.F, j), tag("wo", m.F, j), tag("w", m.F, j))
}

func (w *world) form(f int) string {
	if f < len(w.c.Flavors) {
		return w.defflavor(f)
	}
	return w.defmethod(f - len(w.c.Flavors))
}

// history renders the forms evaluated so far (for messages).
func (w *world) history(upto int) string {
	var parts []string
	for p := 0; p <= upto && p < len(w.c.Order); p++ {
		parts = append(parts, w.form(w.c.Order[p]))
	}
	return strings.Join(parts, " ")
}

func (w *world) make(f int, args string) ev.Outcome {
	return ev.Eval(w.scope, "(make-instance '"+w.names[f]+args+")")
}

// send delivers (:msg x) to inst and returns outcome and trace.
func (w *world) send(inst slip.Object, msg string, x int) (ev.Outcome, []string) {
	ev.ResetTrace()
	var out ev.Outcome
	if w.c.Bound {
		fi, ok := inst.(*flavors.Instance)
		if !ok {
			return ev.Outcome{Kind: ev.Fault, Msg: "not a *flavors.Instance"}, nil
		}
		bind := slip.NewScope()
		bind.Let(slip.Symbol("x"), slip.Fixnum(x))
		out = ev.Try(func() slip.Object { return fi.BoundReceive(w.scope, ":"+msg, bind, 0) })
	} else {
		w.scope.Let(slip.Symbol("c11-inst"), inst)
		out = ev.Eval(w.scope, "(send c11-inst :"+msg+" "+strconv.Itoa(x)+")")
	}
	var tr []string
	for _, e := range ev.Trace() {
		tr = append(tr, e.ID+"="+e.Val)
	}
	return out, tr
}

// checkSends verifies both messages on an instance of every defined flavor.
func (w *world) checkSends(defined []bool, live []int, at int, last bool, st *stats) string {
	for f := range w.c.Flavors {
		if !defined[f] {
			continue
		}
		for _, msg := range msgPool {
			if !w.usesMsg(msg) {
				continue // no method of the case is on this message: nothing to order
			}
			// a fresh instance for every send (an unhandled message leaves the instance's self rebound to the
			// condition object; that is outside this property)
			mk := w.make(f, "")
			if mk.Kind != ev.Value {
				return fmt.Sprintf("after %s: (make-instance '%s) => %s", w.history(at), w.names[f], mk)
			}
			e := expectSend(w.c, f, msg, 0, live)
			targets := []slip.Object{mk.Val}
			if last && !e.none && w.first[f] != nil {
				// also the instance made right after the defflavor, before any later method existed
				targets = append(targets, w.first[f])
			}
			for ti, target := range targets {
				out, tr := w.send(target, msg, 0)
				st.sends++
				where := func() string {
					how := "send"
					if w.c.Bound {
						how = "BoundReceive"
					}
					which := "a new instance"
					if ti > 0 {
						which = "the instance made right after the defflavor"
					}
					return fmt.Sprintf("after %s: %s :%s 0 to %s of %s (precedence %s)", w.history(at), how, msg, which, w.names[f], w.precNames(f))
				}
				if e.none {
					if out.Kind != ev.Condition {
						return fmt.Sprintf("%s: no method is defined in the precedence, expected a condition, got %s trace [%s]", where(), out, strings.Join(tr, " "))
					}
					if len(tr) != 0 {
						return fmt.Sprintf("%s: no method is defined in the precedence, yet methods ran: [%s]", where(), strings.Join(tr, " "))
					}
					continue
				}
				st.handled++
				if e.nWhop > st.maxWhop {
					st.maxWhop = e.nWhop
				}
				if e.nBefore+e.nAfter > st.maxDaemons {
					st.maxDaemons = e.nBefore + e.nAfter
				}
				if out.Kind != ev.Value {
					return fmt.Sprintf("%s: expected trace [%s], got %s trace [%s]", where(), strings.Join(e.trace, " "), out, strings.Join(tr, " "))
				}
				if got, want := strings.Join(tr, " "), strings.Join(e.trace, " "); got != want {
					return fmt.Sprintf("%s: expected trace [%s], got [%s]", where(), want, got)
				}
				if e.value != "" {
					if got := sx.Text(out.Val); got != e.value {
						return fmt.Sprintf("%s: expected value %s, got %s", where(), e.value, got)
					}
				}
			}
		}
	}
	return ""
}

func (w *world) usesMsg(msg string) bool {
	for _, m := range w.c.Meths {
		if m.Msg == msg {
			return true
		}
	}
	return false
}

// somebody: does any flavor of the case (inherited or not) declare variable x / keyword k?
func (w *world) somebody(x string, key bool) bool {
	for _, f := range w.c.Flavors {
		if key && in(x, f.Keys...) {
			return true
		}
		if _, has := declares(f, x); has && !key {
			return true
		}
	}
	return false
}

func (w *world) precNames(f int) string {
	var parts []string
	for _, g := range prec(w.c.Flavors, f) {
		parts = append(parts, w.names[g])
	}
	return strings.Join(parts, " ")
}

// checkStatic verifies class-precedence, variables, accessors and init keywords of every flavor.
func (w *world) checkStatic(st *stats) string {
	all := w.history(len(w.c.Order))
	for f := range w.c.Flavors {
		name := w.names[f]
		// class-precedence
		cp := ev.Eval(w.scope, "(class-precedence '"+name+")")
		if cp.Kind != ev.Value {
			return fmt.Sprintf("after %s: (class-precedence '%s) => %s", all, name, cp)
		}
		want := w.precNames(f)
		if got := strings.Trim(sx.Text(cp.Val), "()"); !strings.HasPrefix(got+" ", want+" vanilla-flavor ") {
			return fmt.Sprintf("after %s: (class-precedence '%s) expected (%s vanilla-flavor ...), got (%s)", all, name, want, got)
		}
		mk := w.make(f, "")
		if mk.Kind != ev.Value {
			return fmt.Sprintf("after %s: (make-instance '%s) => %s", all, name, mk)
		}
		inst, ok := mk.Val.(*flavors.Instance)
		if !ok {
			return fmt.Sprintf("(make-instance '%s) is a %T", name, mk.Val)
		}
		for _, x := range varPool {
			e := expectVar(w.c.Flavors, f, x)
			v, has := inst.SlotValue(slip.Symbol(x))
			if has != e.declared {
				return fmt.Sprintf("after %s: an instance of %s (precedence %s): variable %s present=%v, expected %v", all, name, want, x, has, e.declared)
			}
			if !e.declared {
				if !w.somebody(x, false) {
					continue
				}
				// a variable of an unrelated flavor: no accessor may exist either
				if out, _ := w.probe(f, ":"+x); out.Kind != ev.Condition {
					return fmt.Sprintf("after %s: an instance of %s (precedence %s): (send i :%s) for a variable nobody declares => %s", all, name, want, x, out)
				}
				continue
			}
			st.vars++
			if e.def != nil {
				st.defaults++
				if got := sx.Text(v); got != strconv.Itoa(*e.def) {
					return fmt.Sprintf("after %s: an instance of %s (precedence %s): variable %s = %s, expected the default %d of the first declaring flavor", all, name, want, x, got, *e.def)
				}
			}
			if e.defNil {
				st.defaults++
				if got := sx.Text(v); got != "nil" {
					return fmt.Sprintf("after %s: an instance of %s (precedence %s): variable %s = %s, expected the default nil given by the first declaring flavor", all, name, want, x, got)
				}
			}
			cur := sx.Text(v)
			// getter
			if e.gettable != maybe {
				out, _ := w.probe(f, ":"+x)
				switch {
				case e.gettable == yes && (out.Kind != ev.Value || sx.Text(out.Val) != cur):
					return fmt.Sprintf("after %s: an instance of %s (precedence %s): %s is gettable, (send i :%s) => %s, expected %s", all, name, want, x, x, out, cur)
				case e.gettable == no && out.Kind != ev.Condition:
					return fmt.Sprintf("after %s: an instance of %s (precedence %s): %s is not gettable anywhere, (send i :%s) => %s", all, name, want, x, x, out)
				}
				if e.gettable == yes {
					st.getters++
				}
			}
			// setter (on a fresh instance so that the getter check above saw the default)
			if e.settable != maybe {
				out, si := w.probe(f, ":set-"+x+" 77")
				var nv slip.Object
				if si != nil {
					nv, _ = si.SlotValue(slip.Symbol(x))
				}
				switch {
				case e.settable == yes && (out.Kind != ev.Value || sx.Text(nv) != "77"):
					return fmt.Sprintf("after %s: an instance of %s (precedence %s): %s is settable, (send i :set-%s 77) => %s, variable is %s", all, name, want, x, x, out, sx.Text(nv))
				case e.settable == no && out.Kind != ev.Condition:
					return fmt.Sprintf("after %s: an instance of %s (precedence %s): %s is not settable anywhere, (send i :set-%s 77) => %s", all, name, want, x, x, out)
				}
				if e.settable == yes {
					st.setters++
				}
			}
			if e.initable == yes {
				st.inits++
				out := w.make(f, " :"+x+" 55")
				if out.Kind != ev.Value {
					return fmt.Sprintf("after %s: (make-instance '%s :%s 55) (precedence %s; %s is initable) => %s", all, name, x, want, x, out)
				}
				iv, _ := out.Val.(*flavors.Instance).SlotValue(slip.Symbol(x))
				if sx.Text(iv) != "55" {
					return fmt.Sprintf("after %s: (make-instance '%s :%s 55) (precedence %s): variable is %s", all, name, x, want, sx.Text(iv))
				}
			}
		}
		for _, k := range keyPool {
			if !w.somebody(k, true) {
				continue
			}
			out := w.make(f, " :"+k+" 1")
			if expectKey(w.c.Flavors, f, k) {
				st.keys++
				if out.Kind != ev.Value {
					return fmt.Sprintf("after %s: (make-instance '%s :%s 1) (precedence %s declares the init keyword) => %s", all, name, k, want, out)
				}
			} else if out.Kind != ev.Condition {
				return fmt.Sprintf("after %s: (make-instance '%s :%s 1) (no flavor of the precedence %s declares the keyword) => %s", all, name, k, want, out)
			}
		}
	}
	return ""
}

// probe evaluates (send i <rest>) on a fresh instance of f (fresh because an unhandled message damages the
// receiving instance, see checkSends) and returns the instance too.
func (w *world) probe(f int, rest string) (ev.Outcome, *flavors.Instance) {
	mk := w.make(f, "")
	if mk.Kind != ev.Value {
		return mk, nil
	}
	inst, _ := mk.Val.(*flavors.Instance)
	w.scope.Let(slip.Symbol("c11-inst"), mk.Val)
	return ev.Eval(w.scope, "(send c11-inst "+rest+")"), inst
}

type stats struct {
	sends, handled, maxWhop, maxDaemons           int
	vars, defaults, getters, setters, inits, keys int
}

// cleanup removes the flavors of a case so that slip's global tables do not grow with the number of cases
// (DefClassMethod walks every class of the current package).
func (w *world) cleanup() {
	for i := len(w.names) - 1; i >= 0; i-- {
		_ = ev.Eval(w.scope, "(undefflavor '"+w.names[i]+")")
		_ = ev.Try(func() slip.Object { slip.CurrentPackage.Remove(w.names[i]); return nil })
	}
}

func run(c Case) *h.Result {
	if why := c.valid(); why != "" {
		return h.Fail("not a legal history: %s", why)
	}
	id := atomic.AddInt64(&ctr, 1)
	w := &world{c: c, scope: slip.NewScope(), first: make([]slip.Object, len(c.Flavors))}
	for i := range c.Flavors {
		w.names = append(w.names, fmt.Sprintf("c11x%dz%d", id, i))
	}
	defer w.cleanup()

	nf := len(c.Flavors)
	maxInh, nLate := late(c)
	res := &h.Result{NonTrivial: maxInh >= 2}
	res.Classes = append(res.Classes,
		"flavors:"+strconv.Itoa(nf),
		"methods:"+bucket(len(c.Meths)),
		"late-methods:"+bucket(nLate),
		"max-inheritors-at-definition:"+strconv.Itoa(maxInh),
		"max-precedence:"+strconv.Itoa(maxPrec(c)))
	if c.Mid {
		res.Classes = append(res.Classes, "observe:every-step")
	}
	if c.Bound {
		res.Classes = append(res.Classes, "deliver:bound-receive")
	}

	defined := make([]bool, nf)
	live := make([]int, len(c.Meths))
	for j := range live {
		live[j] = -1
	}
	var st stats
	for p, f := range c.Order {
		out := ev.Eval(w.scope, w.form(f))
		if out.Kind != ev.Value {
			res.Err = fmt.Sprintf("%s: the last form => %s", w.history(p), out)
			return res
		}
		if f < nf {
			defined[f] = true
			if mk := w.make(f, ""); mk.Kind == ev.Value {
				w.first[f] = mk.Val
			}
		} else {
			live[f-nf] = p
		}
		if c.Mid || p == len(c.Order)-1 {
			if msg := w.checkSends(defined, live, p, p == len(c.Order)-1, &st); msg != "" {
				res.Err = msg
				return res
			}
		}
	}
	if msg := w.checkStatic(&st); msg != "" {
		res.Err = msg
		return res
	}
	res.Evals = 1
	res.Classes = append(res.Classes, "max-whoppers-in-a-send:"+strconv.Itoa(st.maxWhop), "max-daemons-in-a-send:"+bucket(st.maxDaemons))
	h.Class("sends", int64(st.sends))
	h.Class("sends-handled", int64(st.handled))
	h.Class("variables-checked", int64(st.vars))
	h.Class("defaults-checked", int64(st.defaults))
	h.Class("getters-checked", int64(st.getters))
	h.Class("setters-checked", int64(st.setters))
	h.Class("initable-checked", int64(st.inits))
	h.Class("init-keywords-checked", int64(st.keys))
	return res
}

func bucket(n int) string {
	switch {
	case n <= 4:
		return strconv.Itoa(n)
	case n <= 6:
		return "5-6"
	case n <= 9:
		return "7-9"
	}
	return "10+"
}

func maxPrec(c Case) (n int) {
	for f := range c.Flavors {
		if k := len(prec(c.Flavors, f)); k > n {
			n = k
		}
	}
	return
}

// ---------------------------------------------------------------- generator

func genCase(rt *rapid.T) Case {
	var c Case
	nf := rapid.IntRange(2, 5).Draw(rt, "flavors")
	for i := 0; i < nf; i++ {
		var f Flv
		f.Comps = []int{}
		if i > 0 {
			// mostly 1-3 components so that chains, siblings and diamonds occur
			k := rapid.SampledFrom([]int{0, 1, 1, 1, 2, 2, 2, 3, 3}).Draw(rt, "ncomps")
			if k > i {
				k = i
			}
			avail := make([]int, i)
			for a := range avail {
				avail[a] = a
			}
			for ; k > 0; k-- {
				a := rapid.IntRange(0, len(avail)-1).Draw(rt, "comp")
				f.Comps = append(f.Comps, avail[a])
				avail = append(avail[:a], avail[a+1:]...)
			}
		}
		for vi, x := range varPool {
			if rapid.IntRange(0, 9).Draw(rt, "declare") < 4 {
				v := Var{Name: x}
				switch k := rapid.IntRange(0, 9).Draw(rt, "default"); {
				case k < 6:
					d := 100*(i+1) + vi
					v.Def = &d
				case k < 8:
					v.Nil = true // (x nil): a default that is nil, not the same as no default
				}
				f.Vars = append(f.Vars, v)
			}
		}
		option := func(label string) (all bool, list []string) {
			switch k := rapid.IntRange(0, 9).Draw(rt, label); {
			case k < 4:
			case k < 6:
				all = true
			default:
				for _, v := range f.Vars {
					if rapid.Bool().Draw(rt, label+"-var") {
						list = append(list, v.Name)
					}
				}
			}
			return
		}
		f.GetAll, f.Get = option("gettable")
		f.SetAll, f.Set = option("settable")
		f.InitAll, f.Init = option("initable")
		for _, k := range keyPool {
			if rapid.IntRange(0, 9).Draw(rt, "key") < 2 {
				f.Keys = append(f.Keys, k)
			}
		}
		c.Flavors = append(c.Flavors, f)
	}
	maxM := 8
	if h.Thorough() {
		maxM = 14
	}
	nm := rapid.IntRange(0, maxM).Draw(rt, "methods")
	c.Meths = []Meth{}
	for j := 0; j < nm; j++ {
		m := Meth{F: rapid.IntRange(0, nf-1).Draw(rt, "mflavor")}
		m.Msg = rapid.SampledFrom([]string{"m", "m", "m", "m", "n", "id"}).Draw(rt, "msg")
		m.Kind = rapid.SampledFrom([]string{"p", "b", "a", "w", "b", "a", "w"}).Draw(rt, "kind")
		c.Meths = append(c.Meths, m)
	}
	// a legal order: repeatedly pick one of the forms whose prerequisites are done. Half of the cases prefer
	// flavors first (every method is then defined late).
	n := nf + nm
	flavorsFirst := rapid.Bool().Draw(rt, "flavors-first")
	done := make([]bool, n)
	for len(c.Order) < n {
		var ready []int
		for f := 0; f < n; f++ {
			if done[f] {
				continue
			}
			ok := true
			if f < nf {
				for _, k := range c.Flavors[f].Comps {
					ok = ok && done[k]
				}
			} else {
				ok = done[c.Meths[f-nf].F]
			}
			if ok {
				ready = append(ready, f)
			}
		}
		if flavorsFirst && ready[0] < nf {
			k := 0
			for k < len(ready) && ready[k] < nf {
				k++
			}
			ready = ready[:k]
		}
		f := ready[rapid.IntRange(0, len(ready)-1).Draw(rt, "next")]
		done[f] = true
		c.Order = append(c.Order, f)
	}
	c.Mid = rapid.Bool().Draw(rt, "mid")
	c.Bound = rapid.IntRange(0, 3).Draw(rt, "bound") == 0
	return c
}

// ---------------------------------------------------------------- enumeration

// extensions yields every legal order of the forms of c.
func extensions(c Case, yield func([]int) bool) {
	nf := len(c.Flavors)
	n := nf + len(c.Meths)
	done := make([]bool, n)
	order := make([]int, 0, n)
	var rec func() bool
	rec = func() bool {
		if len(order) == n {
			return yield(append([]int(nil), order...))
		}
		for f := 0; f < n; f++ {
			if done[f] {
				continue
			}
			ok := true
			if f < nf {
				for _, k := range c.Flavors[f].Comps {
					ok = ok && done[k]
				}
			} else {
				ok = done[c.Meths[f-nf].F]
			}
			if !ok {
				continue
			}
			done[f] = true
			order = append(order, f)
			if !rec() {
				return false
			}
			order = order[:len(order)-1]
			done[f] = false
		}
		return true
	}
	rec()
}

// dags yields every component structure on nf flavors (ordered component lists of up to 3 earlier flavors).
func dags(nf int, yield func([]Flv) bool) {
	var subsets func(i int) [][]int
	subsets = func(i int) [][]int {
		out := [][]int{{}}
		var rec func(cur []int)
		rec = func(cur []int) {
			if len(cur) == 3 {
				return
			}
			for k := 0; k < i; k++ {
				used := false
				for _, x := range cur {
					used = used || x == k
				}
				if used {
					continue
				}
				next := append(append([]int(nil), cur...), k)
				out = append(out, next)
				rec(next)
			}
		}
		rec(nil)
		return out
	}
	fl := make([]Flv, nf)
	var rec func(i int) bool
	rec = func(i int) bool {
		if i == nf {
			cp := make([]Flv, nf)
			copy(cp, fl)
			return yield(cp)
		}
		for _, s := range subsets(i) {
			fl[i] = Flv{Comps: s}
			if !rec(i + 1) {
				return false
			}
		}
		return true
	}
	rec(0)
}

// methodSets yields every set of k distinct (flavor, kind) methods on message m.
func methodSets(nf, k int, yield func([]Meth) bool) {
	var slots []Meth
	for f := 0; f < nf; f++ {
		for _, kind := range []string{"p", "b", "a", "w"} {
			slots = append(slots, Meth{F: f, Msg: "m", Kind: kind})
		}
	}
	var rec func(start int, cur []Meth) bool
	rec = func(start int, cur []Meth) bool {
		if len(cur) == k {
			return yield(append([]Meth(nil), cur...))
		}
		for s := start; s < len(slots); s++ {
			if !rec(s+1, append(cur, slots[s])) {
				return false
			}
		}
		return true
	}
	rec(0, nil)
}

// diamond is the fixed DAG a; b(a); c(a); d(b c).
func diamond(_ int, yield func([]Flv) bool) {
	yield([]Flv{{Comps: []int{}}, {Comps: []int{0}}, {Comps: []int{0}}, {Comps: []int{1, 2}}})
}

// enumerate every DAG of the family on nf flavors x every set of k methods on :m (same != "": only sets whose
// methods all have that kind, i.e. dense daemon lists) x every legal order; split over the shards.
func enumerate(family func(int, func([]Flv) bool), nf, k int, same string) func(yield func(Case) bool) {
	return func(yield func(Case) bool) {
		idx := 0
		family(nf, func(fl []Flv) bool {
			ok := true
			methodSets(nf, k, func(ms []Meth) bool {
				if same != "" {
					for _, m := range ms {
						if m.Kind != same {
							return true
						}
					}
				}
				idx++
				if idx%h.C.NShards != h.C.Shard {
					return true
				}
				base := Case{Flavors: fl, Meths: ms, Mid: true}
				extensions(base, func(o []int) bool {
					cc := base
					cc.Order = o
					ok = yield(cc)
					return ok
				})
				return ok
			})
			return ok
		})
	}
}

type space struct {
	p        h.Prop[Case]
	family   func(int, func([]Flv) bool)
	nf, k    int
	same     string
	thorough bool // only in the thorough tier
}

func sp(name string, family func(int, func([]Flv) bool), nf, k int, same string, thorough bool) space {
	return space{p: h.Prop[Case]{Name: name, Run: run}, family: family, nf: nf, k: k, same: same, thorough: thorough}
}

var (
	history = h.Prop[Case]{Name: "history", Gen: genCase, Run: run}
	spaces  = []space{
		sp("orders-3flavors-2methods", dags, 3, 2, "", false),
		sp("orders-3flavors-3whoppers", dags, 3, 3, "w", false),
		sp("orders-3flavors-3befores", dags, 3, 3, "b", false),
		sp("orders-3flavors-3afters", dags, 3, 3, "a", false),
		sp("orders-3flavors-3primaries", dags, 3, 3, "p", false),
		sp("orders-diamond-2methods", diamond, 4, 2, "", false),
		sp("orders-3flavors-3methods", dags, 3, 3, "", true),
		sp("orders-4flavors-2methods", dags, 4, 2, "", true),
		sp("orders-4flavors-3whoppers", dags, 4, 3, "w", true),
		sp("orders-4flavors-3befores", dags, 4, 3, "b", true),
		sp("orders-4flavors-3afters", dags, 4, 3, "a", true),
		sp("orders-4flavors-3primaries", dags, 4, 3, "p", true),
		sp("orders-diamond-3methods", diamond, 4, 3, "", true),
	}
)

func TestC11(t *testing.T) {
	h.Rule("a case = a flavor DAG (2-5 flavors, 0-3 components each, written order drawn, so chains, siblings and diamonds occur; variables u v w with " +
		"distinct defaults or none, bare or listed :gettable/:settable/:initable-instance-variables, :init-keywords) x methods (primary, :before, :after, whopper " +
		"on messages :m/:n and on :id, which vanilla-flavor also handles; redefinitions allowed) x one legal order of the defflavor/defmethod/defwhopper forms " +
		"(components before users, a flavor before its own methods; half of the generated cases define all flavors first) x observe after every form or only at " +
		"the end x delivery by send or by Instance.BoundReceive. " +
		"Oracle = independent model (depth-first component precedence, vanilla-flavor last; whoppers, :before, first primary, :after reversed; first declaring flavor " +
		"decides a default; accessors, initable variables and init keywords are the union over the precedence), compared with the vt:mark trace, the value, " +
		"class-precedence and the instance variables read through the Go API. Non-trivial: some method is defined when at least two already defined flavors " +
		"inherit from its flavor. Distinct by (DAG, options, methods, order, flags). Enumerations (orders-*): every DAG of the family x every set of k methods " +
		"on :m x every legal order, observed after every form. " +
		"Sub-properties accessor-vs-method(-grid): the getter :u / setter :set-u a flavor gets from its options are primaries of that flavor; flavors may also define a primary of " +
		"that name by hand; the first primary in precedence order (hand-written replaces the flavor's own accessor; a bare option on a flavor that only inherits u is left open) " +
		"must run after every form of every legal order; the grid has base/top with every option combination on both, one hand-written method, both orders.")
	h.Assume("vt:mark (harness primitive) records the daemon that runs; Instance.SlotValue reads an instance variable")
	h.Assume("undefflavor / Package.Remove are used only to discard the flavors of a finished case (names are never reused)")

	h.RunProp(t, history, h.N(20000, 60000))
	// accessors against hand-written primaries of the same name (:u, :set-u)
	h.RunProp(t, accGrid, 0)
	h.RunProp(t, accProp, h.N(4000, 20000))
	if h.C.Shard == 0 {
		h.Enumerate(t, accGrid, enumerateAcc)
	}
	if os.Getenv("C11_NOENUM") != "" { // development aid
		return
	}
	for _, s := range spaces {
		h.RunProp(t, s.p, 0) // witnesses, replay
		if s.thorough && !h.Thorough() {
			continue
		}
		h.Enumerate(t, s.p, enumerate(s.family, s.nf, s.k, s.same))
	}
}
