package c16

import (
	"fmt"
	"sort"
	"strconv"
	"strings"
	"testing"

	"github.com/ohler55/slip"
	"pgregory.net/rapid"

	"verif/harness/internal/ev"
	"verif/harness/internal/h"
	"verif/harness/internal/sx"
)

// HOp is one step of a history. K indexes the key pool; the value stored by step i is 100+i.
type HOp struct {
	Op string `json:"op"` // put get rem clr count map
	K  int    `json:"k,omitempty"`
}

// HCase is a table made with :test Test ("" = no argument) and a history over a pool of key
// objects. Every pool entry is one object (built once); two entries with the same descriptor
// are two separately allocated objects.
type HCase struct {
	Test string `json:"test,omitempty"`
	Keys []Obj  `json:"keys"`
	Ops  []HOp  `json:"ops"`
}

type entry struct{ key, val int }

// keys used by some operation
func usedKeys(c HCase) []int {
	seen := map[int]bool{}
	var out []int
	for _, op := range c.Ops {
		switch op.Op {
		case "put", "putnil", "get", "rem":
			if !seen[op.K] {
				seen[op.K] = true
				out = append(out, op.K)
			}
		}
	}
	sort.Ints(out)
	return out
}

// goMapKeyTrouble: the class of histories explained by the finding "hash table is a Go map keyed
// by the interface value": a used key that Go cannot hash (list), or two used pool entries that
// denote the same number but are not the same Go value (different number type, or a
// pointer-represented number: bignum, ratio).
func goMapKeyTrouble(c HCase) bool {
	used := usedKeys(c)
	for _, i := range used {
		if c.Keys[i].K == "list" {
			return true
		}
	}
	// a float that is not a number is eql to itself, but a Go map never finds a NaN key again
	for _, i := range used {
		if k := c.Keys[i]; k.K == "src" && strings.Contains(k.S, "(- (* 1e308 10) (* 1e308 10))") {
			return true
		}
	}
	// infinities of different float types are eql for slip, and separate keys of the Go map
	special := func(o Obj) bool { return o.K == "src" && strings.Contains(o.S, "1e308") }
	for a, i := range used {
		for _, j := range used[a+1:] {
			if x, y := c.Keys[i], c.Keys[j]; special(x) && special(y) && x.S != y.S {
				return true
			}
		}
	}
	// a complex number is one more number type: #C(1 0) is eql to 1 and 1.0 but a different Go value
	isComplex := func(o Obj) bool { return o.K == "src" && strings.HasPrefix(o.S, "#C(") }
	for a, i := range used {
		for _, j := range used[a+1:] {
			if x, y := c.Keys[i], c.Keys[j]; (isComplex(x) && (isNum(y) || isComplex(y))) || (isComplex(y) && isNum(x)) {
				return true
			}
		}
	}
	for a, i := range used {
		for _, j := range used[a+1:] {
			x, y := c.Keys[i], c.Keys[j]
			if isNum(x) && isNum(y) && exact(x).Cmp(exact(y)) == 0 && (x.K != y.K || pointerish(x)) {
				return true
			}
		}
	}
	return false
}

func runHash(c HCase) *h.Result {
	res := &h.Result{Classes: []string{"hash:test=" + c.Test}}
	if len(c.Keys) == 0 {
		return h.Fail("history without keys")
	}
	for _, op := range c.Ops {
		if op.K < 0 || op.K >= len(c.Keys) {
			return h.Fail("bad key index")
		}
	}
	used := usedKeys(c)
	var usedObjs []Obj
	for _, i := range used {
		usedObjs = append(usedObjs, c.Keys[i])
	}
	if tag := predExcluded(true, usedObjs...); tag != "" {
		res.Skip = tag
		return res
	}
	if h.ExclOn("hash-go-map-key") && goMapKeyTrouble(c) {
		res.Skip = "hash-go-map-key"
		return res
	}
	scope := slip.NewScope()
	mk := "(make-hash-table)"
	if c.Test != "" {
		mk = "(make-hash-table :test '" + c.Test + ")"
	}
	out := ev.Eval(scope, mk)
	if out.Kind != ev.Value {
		return h.Fail("%s: %s", mk, out)
	}
	scope.Let("h", out.Val)
	n := len(c.Keys)
	objs := make([]slip.Object, n)
	text := make([]string, n)
	for i, k := range c.Keys {
		objs[i] = build(scope, k)
		text[i] = sx.Typed(objs[i])
		scope.Let(slip.Symbol("k"+strconv.Itoa(i)), objs[i])
	}
	evals := 0
	// the table's test, evaluated by slip on the pool
	eqv := make([][]bool, n)
	for i := range eqv {
		eqv[i] = make([]bool, n)
	}
	// (only keys that some operation uses take part)
	for _, i := range used {
		for _, j := range used {
			v, msg := call(scope, fmt.Sprintf("(eql k%d k%d)", i, j))
			evals++
			if msg != "" {
				return h.Fail("keys %v: %s", c.Keys, msg)
			}
			eqv[i][j] = v
		}
	}
	for _, i := range used {
		for _, j := range used {
			if eqv[i][j] != eqv[j][i] || (i == j && !eqv[i][j]) {
				return h.Fail("eql is not an equivalence on the key pool %v (k%d, k%d)", c.Keys, i, j)
			}
			for _, k := range used {
				if eqv[i][j] && eqv[j][k] && !eqv[i][k] {
					return h.Fail("eql is not transitive on the key pool %v (k%d, k%d, k%d)", c.Keys, i, j, k)
				}
			}
		}
	}
	var model []entry
	find := func(k int) int {
		for i, e := range model {
			if eqv[e.key][k] {
				return i
			}
		}
		return -1
	}
	var log []string
	fail := func(format string, args ...any) *h.Result {
		res.Err = fmt.Sprintf("table :test %q keys %v after [%s]: ", c.Test, c.Keys, strings.Join(log, " ")) + fmt.Sprintf(format, args...)
		return res
	}
	check := func(src string) (slip.Object, string) {
		o := ev.Eval(scope, src)
		evals++
		if o.Kind != ev.Value {
			return nil, fmt.Sprintf("%s does not return: %s", src, o)
		}
		return o.Val, ""
	}
	get := func(k int) string {
		src := fmt.Sprintf("(multiple-value-list (gethash k%d h))", k)
		v, msg := check(src)
		if msg != "" {
			return msg
		}
		want := "(nil nil)"
		if i := find(k); i >= 0 {
			want = fmt.Sprintf("(fix:%d t)", model[i].val)
			if model[i].val < 0 {
				want = "(nil t)" // nil was stored: the key is present
			}
		}
		if got := sx.Typed(v); got != want {
			return fmt.Sprintf("(gethash k%d h) gives %s, the value last stored under an equivalent key gives %s", k, got, want)
		}
		return ""
	}
	count := func() string {
		v, msg := check("(hash-table-count h)")
		if msg != "" {
			return msg
		}
		if got := sx.Typed(v); got != fmt.Sprintf("fix:%d", len(model)) {
			return fmt.Sprintf("hash-table-count gives %s, there are %d distinct keys", got, len(model))
		}
		return ""
	}
	walk := func() string {
		ev.ResetTrace()
		if _, msg := check("(maphash 'vt:mark h)"); msg != "" {
			return msg
		}
		tr := ev.Trace()
		seen := map[string]int{}
		for _, e := range tr {
			seen[e.Val]++
		}
		if len(tr) != len(model) {
			return fmt.Sprintf("maphash visits %d entries, there are %d distinct keys (visited: %s)", len(tr), len(model), ev.TraceString())
		}
		nils := 0
		for _, e := range model {
			if e.val < 0 {
				nils++
			}
		}
		if seen["nil"] != nils {
			return fmt.Sprintf("maphash visits %d entries whose value is nil, %d were stored (visited: %s)", seen["nil"], nils, ev.TraceString())
		}
		for _, e := range model {
			val := strconv.Itoa(e.val)
			if e.val < 0 {
				// one of the visited nil entries carries an equivalent key
				ok := false
				for _, te := range tr {
					for j := 0; j < n && te.Val == "nil"; j++ {
						if eqv[e.key][j] && sx.Text(objs[j]) == te.ID {
							ok = true
						}
					}
				}
				if !ok {
					return fmt.Sprintf("maphash does not visit the entry stored with value nil under k%d (visited: %s)", e.key, ev.TraceString())
				}
				continue
			}
			if seen[val] != 1 {
				return fmt.Sprintf("maphash visits the entry with value %s %d times (visited: %s)", val, seen[val], ev.TraceString())
			}
			for _, te := range tr {
				if te.Val != val {
					continue
				}
				ok := false
				for j := 0; j < n; j++ {
					if eqv[e.key][j] && sx.Text(objs[j]) == te.ID {
						ok = true
					}
				}
				if !ok {
					return fmt.Sprintf("maphash gives key %s for the entry stored under k%d", te.ID, e.key)
				}
			}
		}
		return ""
	}
	crossHit, pointerHit := false, false
	hit := func(k int) {
		if i := find(k); i >= 0 && model[i].key != k {
			crossHit = true
			if pointerish(c.Keys[k]) {
				pointerHit = true
			}
		}
	}
	for step, op := range c.Ops {
		var msg string
		switch op.Op {
		case "put":
			val := 100 + step
			log = append(log, fmt.Sprintf("put k%d %d", op.K, val))
			_, msg = check(fmt.Sprintf("(setf (gethash k%d h) %d)", op.K, val))
			hit(op.K)
			if i := find(op.K); i >= 0 {
				model[i].val = val
			} else {
				model = append(model, entry{op.K, val})
			}
		case "putnil":
			log = append(log, fmt.Sprintf("put k%d nil", op.K))
			_, msg = check(fmt.Sprintf("(setf (gethash k%d h) nil)", op.K))
			hit(op.K)
			if i := find(op.K); i >= 0 {
				model[i].val = -1
			} else {
				model = append(model, entry{op.K, -1})
			}
		case "get":
			log = append(log, fmt.Sprintf("get k%d", op.K))
			hit(op.K)
			msg = get(op.K)
		case "rem":
			log = append(log, fmt.Sprintf("rem k%d", op.K))
			hit(op.K)
			var v slip.Object
			v, msg = check(fmt.Sprintf("(remhash k%d h)", op.K))
			i := find(op.K)
			if msg == "" && truth(v) != (i >= 0) {
				msg = fmt.Sprintf("(remhash k%d h) returns %s, an equivalent key present: %v", op.K, sx.Text(v), i >= 0)
			}
			if i >= 0 {
				model = append(model[:i], model[i+1:]...)
			}
		case "clr":
			log = append(log, "clr")
			_, msg = check("(clrhash h)")
			model = nil
		case "count":
			log = append(log, "count")
			msg = count()
		case "map":
			log = append(log, "map")
			msg = walk()
		default:
			msg = "unknown op " + op.Op
		}
		if msg != "" {
			return fail("%s", msg)
		}
	}
	// final audit: count, every pool key, a walk
	log = append(log, "audit")
	if msg := count(); msg != "" {
		return fail("%s", msg)
	}
	for _, k := range used {
		if msg := get(k); msg != "" {
			return fail("%s", msg)
		}
	}
	if msg := walk(); msg != "" {
		return fail("%s", msg)
	}
	for i, o := range objs {
		if now := sx.Typed(o); now != text[i] {
			return fail("key k%d was altered: %s -> %s", i, text[i], now)
		}
	}
	res.NonTrivial = crossHit
	if crossHit {
		res.Classes = append(res.Classes, "hash:cross-key-hit")
	}
	if pointerHit {
		res.Classes = append(res.Classes, "hash:cross-key-hit-pointer-or-slice")
	}
	for _, i := range used {
		res.Classes = append(res.Classes, "hash:key="+kindClass(c.Keys[i]))
	}
	res.Evals = evals
	return res
}

var hashTests = []string{"", "eq", "eql", "equal", "equalp"}

func genKey(rt *rapid.T, label string) Obj {
	if rapid.IntRange(0, 9).Draw(rt, label+"-struct") == 0 {
		o := genObj(rt, label, 1)
		return o
	}
	return genLeaf(rt, label)
}

func genHash(rt *rapid.T) HCase {
	c := HCase{Test: rapid.SampledFrom(hashTests).Draw(rt, "test")}
	nk := rapid.IntRange(1, 6).Draw(rt, "nkeys")
	for i := 0; i < nk; i++ {
		k := rapid.IntRange(0, 9).Draw(rt, "keyrel")
		switch {
		case i > 0 && k < 3: // a separately allocated copy of an earlier key
			c.Keys = append(c.Keys, c.Keys[rapid.IntRange(0, i-1).Draw(rt, "copyof")])
		case i > 0 && k < 5: // another representation / case of an earlier key
			c.Keys = append(c.Keys, variant(rt, "kv", c.Keys[rapid.IntRange(0, i-1).Draw(rt, "variantof")]))
		default:
			c.Keys = append(c.Keys, genKey(rt, "key"))
		}
	}
	max := 12
	if h.Thorough() {
		max = 40
	}
	nops := rapid.IntRange(1, max).Draw(rt, "nops")
	for i := 0; i < nops; i++ {
		op := HOp{}
		switch w := rapid.IntRange(0, 99).Draw(rt, "op"); {
		case w < 8:
			op.Op = "putnil" // nil is a value like any other: the key is present afterwards
		case w < 35:
			op.Op = "put"
		case w < 65:
			op.Op = "get"
		case w < 80:
			op.Op = "rem"
		case w < 87:
			op.Op = "count"
		case w < 95:
			op.Op = "map"
		default:
			op.Op = "clr"
		}
		if op.Op == "put" || op.Op == "putnil" || op.Op == "get" || op.Op == "rem" {
			op.K = rapid.IntRange(0, nk-1).Draw(rt, "k")
		}
		c.Ops = append(c.Ops, op)
	}
	return c
}

var (
	hashProp = h.Prop[HCase]{Name: "hash-history", Gen: genHash, Run: runHash}
	hashGrid = h.Prop[HCase]{Name: "hash-key-grid", Run: runHash}
)

func testHash(t *testing.T) {
	h.RunProp(t, hashGrid, 0)
	h.RunProp(t, hashProp, h.N(15000, 200000))
	if h.C.Shard != 0 {
		return
	}
	// every pair of universe leaves / small structures as two keys, one fixed history that stores through
	// the first, reads and removes through the second, for every :test
	script := []HOp{{Op: "put", K: 0}, {Op: "get", K: 1}, {Op: "count"}, {Op: "put", K: 1}, {Op: "get", K: 0}, {Op: "map"},
		{Op: "rem", K: 0}, {Op: "get", K: 1}, {Op: "put", K: 1}, {Op: "put", K: 0}, {Op: "count"}, {Op: "putnil", K: 1}, {Op: "get", K: 0}, {Op: "count"}, {Op: "map"},
		{Op: "rem", K: 0}, {Op: "count"}, {Op: "get", K: 1}, {Op: "putnil", K: 0}, {Op: "clr"}, {Op: "get", K: 0}}
	h.Enumerate(t, hashGrid, func(yield func(HCase) bool) {
		for ti, test := range hashTests {
			for _, x := range universe {
				for _, y := range universe {
					if ti > 0 && ckey(x) != ckey(y) {
						continue // the other :test values only on related keys
					}
					if !yield(HCase{Test: test, Keys: []Obj{x, y}, Ops: script}) {
						return
					}
				}
			}
		}
	})
}
