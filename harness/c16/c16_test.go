package c16

import (
	"fmt"
	"testing"

	"github.com/ohler55/slip"
	"pgregory.net/rapid"

	"verif/harness/internal/ev"
	"verif/harness/internal/h"
	"verif/harness/internal/sx"
)

func TestMain(m *testing.M) { h.Main(m, "C16") }

var preds = []string{"eq", "eql", "equal", "equalp"}

// PCase is a pair (Same: y is the very object x, bound to a second variable) or, with Z, a triple.
type PCase struct {
	X    Obj  `json:"x"`
	Y    Obj  `json:"y"`
	Z    *Obj `json:"z,omitempty"`
	Same bool `json:"same,omitempty"`
}

func truth(o slip.Object) bool {
	if o == nil {
		return false
	}
	if l, ok := o.(slip.List); ok && len(l) == 0 {
		return false
	}
	return true
}

// call evaluates (fn a b) on bound variables; the result must be a value.
func call(scope *slip.Scope, src string) (bool, string) {
	out := ev.Eval(scope, src)
	if out.Kind != ev.Value {
		return false, fmt.Sprintf("%s does not return: %s", src, out)
	}
	return truth(out.Val), ""
}

// exclusions of open findings that concern the predicates; each is a predicate over the case.
// transitive: the case asserts transitivity (triples, hash histories). C16-F6 (a rational is rounded to the
// float's format before the comparison) explains failures of transitivity only; symmetry, reflexivity,
// the implication chain and sxhash consistency of a lossy pair are still checked.
func predExcluded(transitive bool, objs ...Obj) string {
	for i := range objs {
		for j := i + 1; j < len(objs); j++ {
			if transitive && h.ExclOn("eq-through-float") && lossy(objs[i], objs[j]) {
				return "eq-through-float"
			}
			if h.ExclOn("ratio-bignum-eq") && (ratioBig(objs[i], objs[j]) || ratioBig(objs[j], objs[i])) {
				return "ratio-bignum-eq"
			}
		}
	}
	return ""
}

// ratioBig: a ratio inside x and an integer outside int64 inside y (NormalizeNumber turns such a
// pair into long-floats, in one argument order only).
func ratioBig(x, y Obj) bool {
	hasRat := false
	for _, a := range leaves(x, nil) {
		if a.K == "rat" {
			hasRat = true
		}
	}
	if !hasRat {
		return false
	}
	for _, b := range leaves(y, nil) {
		if b.K == "int" && pointerish(b) {
			return true
		}
	}
	return false
}

func runPair(c PCase) *h.Result {
	res := &h.Result{Classes: []string{"pair:" + kindClass(c.X) + "/" + kindClass(c.Y)}}
	if c.Same {
		c.Y = c.X
	}
	res.NonTrivial = !c.Same && ckey(c.X) == ckey(c.Y)
	if res.NonTrivial {
		res.Classes = append(res.Classes, "pair:one-cluster")
	}
	if tag := predExcluded(false, c.X, c.Y); tag != "" {
		res.Skip = tag
		return res
	}
	scope := slip.NewScope()
	x := build(scope, c.X)
	y := x
	if !c.Same {
		y = build(scope, c.Y)
	}
	scope.Let("x", x)
	scope.Let("y", y)
	tx, ty := sx.Typed(x), sx.Typed(y)
	var xy [4]bool
	n := 0
	for i, p := range preds {
		var got [4]bool
		for k, src := range []string{"(" + p + " x y)", "(" + p + " y x)", "(" + p + " x x)", "(" + p + " y y)"} {
			v, msg := call(scope, src)
			n++
			if msg != "" {
				res.Err = fmt.Sprintf("x=%s y=%s: %s", c.X, c.Y, msg)
				return res
			}
			got[k] = v
		}
		xy[i] = got[0]
		switch {
		case !got[2] || !got[3]:
			res.Err = fmt.Sprintf("%s is not reflexive: x=%s y=%s: (%s x x)=%v (%s y y)=%v", p, c.X, c.Y, p, got[2], p, got[3])
		case got[0] != got[1]:
			res.Err = fmt.Sprintf("%s is not symmetric: x=%s y=%s: (%s x y)=%v (%s y x)=%v", p, c.X, c.Y, p, got[0], p, got[1])
		case c.Same && !got[0]:
			res.Err = fmt.Sprintf("(%s x y) is false for one object bound to two variables: %s", p, c.X)
		}
		if res.Err != "" {
			return res
		}
	}
	for i := 0; i+1 < len(preds); i++ {
		if xy[i] && !xy[i+1] {
			res.Err = fmt.Sprintf("%s holds but %s does not: x=%s y=%s", preds[i], preds[i+1], c.X, c.Y)
			return res
		}
	}
	// sxhash: a value, stable, and equal codes for equal objects
	var code [3]string
	for k, src := range []string{"(sxhash x)", "(sxhash y)", "(sxhash x)"} {
		out := ev.Eval(scope, src)
		n++
		if out.Kind != ev.Value {
			res.Err = fmt.Sprintf("x=%s y=%s: %s does not return: %s", c.X, c.Y, src, out)
			return res
		}
		if _, ok := out.Val.(slip.Fixnum); !ok {
			res.Err = fmt.Sprintf("x=%s: %s is not a fixnum: %s", c.X, src, sx.Typed(out.Val))
			return res
		}
		code[k] = sx.Typed(out.Val)
	}
	if code[0] != code[2] {
		res.Err = fmt.Sprintf("sxhash of one object changes: x=%s: %s then %s", c.X, code[0], code[2])
		return res
	}
	if xy[2] && code[0] != code[1] {
		if h.ExclOn("sxhash-by-rendering") && sxhashExcluded(c.X, c.Y) {
			h.Excluded("sxhash-by-rendering")
		} else {
			res.Err = fmt.Sprintf("equal objects with different sxhash: x=%s (%s) y=%s (%s)", c.X, code[0], c.Y, code[1])
			return res
		}
	}
	if sx.Typed(x) != tx || sx.Typed(y) != ty {
		res.Err = fmt.Sprintf("an operand was altered: x=%s now %s, y=%s now %s", c.X, sx.Typed(x), c.Y, sx.Typed(y))
	}
	for i, p := range preds {
		if xy[i] {
			res.Classes = append(res.Classes, "holds:"+p)
		}
	}
	res.Evals = n
	return res
}

// sxhashExcluded: see finding C16 sxhash-by-rendering (filled in by triage; default none).
func sxhashExcluded(x, y Obj) bool { return false }

func runTriple(c PCase) *h.Result {
	if c.Z == nil {
		return h.Fail("triple case without z")
	}
	kx, ky, kz := ckey(c.X), ckey(c.Y), ckey(*c.Z)
	res := &h.Result{NonTrivial: kx == ky && ky == kz, Classes: []string{"triple"}}
	if res.NonTrivial {
		res.Classes = append(res.Classes, "triple:one-cluster")
	}
	if tag := predExcluded(true, c.X, c.Y, *c.Z); tag != "" {
		res.Skip = tag
		return res
	}
	scope := slip.NewScope()
	scope.Let("x", build(scope, c.X))
	scope.Let("y", build(scope, c.Y))
	scope.Let("z", build(scope, *c.Z))
	n := 0
	for _, p := range preds {
		xy, msg := call(scope, "("+p+" x y)")
		n++
		if msg == "" && xy {
			var yz bool
			yz, msg = call(scope, "("+p+" y z)")
			n++
			if msg == "" && yz {
				var xz bool
				xz, msg = call(scope, "("+p+" x z)")
				n++
				res.Classes = append(res.Classes, "chain:"+p)
				if msg == "" && !xz {
					res.Err = fmt.Sprintf("%s is not transitive: x=%s y=%s z=%s: (x y) and (y z) hold, (x z) does not", p, c.X, c.Y, *c.Z)
					return res
				}
			}
		}
		if msg != "" {
			res.Err = fmt.Sprintf("x=%s y=%s z=%s: %s", c.X, c.Y, *c.Z, msg)
			return res
		}
	}
	res.Evals = n
	return res
}

func kindClass(o Obj) string {
	if o.K == "int" && pointerish(o) {
		return "big"
	}
	return o.K
}

func genPair(rt *rapid.T) PCase {
	x := genObj(rt, "x", 2)
	c := PCase{X: x}
	switch rapid.IntRange(0, 5).Draw(rt, "rel") {
	case 0:
		c.Same = true
		c.Y = x
	case 1:
		c.Y = x // a separately allocated copy
	case 2, 3:
		c.Y = variant(rt, "y", x)
	default:
		c.Y = genObj(rt, "y", 2)
	}
	return c
}

func genTriple(rt *rapid.T) PCase {
	x := genObj(rt, "x", 2)
	derive := func(label string, from ...Obj) Obj {
		k := rapid.IntRange(0, 5).Draw(rt, label+"-rel")
		src := from[rapid.IntRange(0, len(from)-1).Draw(rt, label+"-from")]
		switch {
		case k == 0:
			return src
		case k <= 3:
			return variant(rt, label, src)
		}
		return genObj(rt, label, 2)
	}
	y := derive("y", x)
	z := derive("z", x, y)
	return PCase{X: x, Y: y, Z: &z}
}

var (
	pairs      = h.Prop[PCase]{Name: "pred-pair", Gen: genPair, Run: runPair}
	pairsAll   = h.Prop[PCase]{Name: "pred-pair-universe", Run: runPair}
	triples    = h.Prop[PCase]{Name: "pred-triple", Gen: genTriple, Run: runTriple}
	triplesAll = h.Prop[PCase]{Name: "pred-triple-universe", Run: runTriple}
)

func TestC16(t *testing.T) {
	h.Rule("predicates: pairs and triples of object descriptors (fixed universe of " + fmt.Sprint(len(universe)) + " objects in clusters of one value in several representations/cases/allocations, " +
		"enumerated exhaustively; random nested objects with representation/case variants, copies and lossy float neighbours); objects are built through slip's Go types and bound to variables, " +
		"the predicates are evaluated as Lisp text; laws: total, reflexive, symmetric, transitive, eq=>eql=>equal=>equalp, equal=>same sxhash. " +
		"hash tables: histories of setf-gethash/gethash/remhash/clrhash/maphash/hash-table-count over a pool of key objects, model = association list under slip's own eql. " +
		"types: object x type symbol of the class registry; typep of type-of and of its class precedence list, subtypep reflexive/transitive/agreeing with typep, coerce result typep target. " +
		"Non-trivial: pair/triple whose members have one cluster key (same exact number / case-folded text / element-wise) and are not one object; history with a lookup or removal that hits an entry stored through another key object; " +
		"type case whose object satisfies the type. Distinct by case JSON.")
	h.Assume("slip's exported Go constructors for numbers, strings, symbols, characters, lists and vectors, Scope.Let, and reading/evaluating a call on variables")
	h.Assume("for the hash-table model: slip's eql predicate is the documented table test (make-hash-table: :test is ignored, eql always used)")

	// all witnesses of known findings first: an exclusion tag concerns several sub-properties
	if h.C.ReplayIn == "" {
		h.RunProp(t, pairs, 0)
		h.RunProp(t, triples, 0)
		witnessesFirst(t)
	}

	h.RunProp(t, pairsAll, 0)
	h.RunProp(t, pairs, h.N(30000, 400000))
	h.RunProp(t, triplesAll, 0)
	h.RunProp(t, triples, h.N(30000, 400000))
	testHash(t)
	testTypes(t)

	if h.C.Shard != 0 {
		return
	}
	h.Enumerate(t, pairsAll, func(yield func(PCase) bool) {
		for _, x := range universe {
			if !yield(PCase{X: x, Y: x, Same: true}) {
				return
			}
			for _, y := range universe {
				if !yield(PCase{X: x, Y: y}) {
					return
				}
			}
		}
	})
	h.Enumerate(t, triplesAll, func(yield func(PCase) bool) {
		for _, x := range universe {
			for _, y := range universe {
				for k := range universe {
					if !yield(PCase{X: x, Y: y, Z: &universe[k]}) {
						return
					}
				}
			}
		}
	})
	enumTypes(t)
}
