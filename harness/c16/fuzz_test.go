package c16

import (
	"testing"

	"verif/harness/internal/h"
)

// Native fuzz targets over the generators of the sub-properties (h.FuzzRapid): the fuzzer's bytes are rapid's bit stream.

func warmAll() {
	h.Warm(hashProp)
	h.Warm(hashGrid)
	h.Warm(pairs)
	h.Warm(triples)
}

func FuzzPredPair(f *testing.F) { h.FuzzRapid(f, "c16", pairs, warmAll) }

func FuzzHashHistory(f *testing.F) { h.FuzzRapid(f, "c16", hashProp, warmAll) }
