package c16

import (
	"fmt"
	"math"
	"math/big"
	"strconv"
	"strings"
	"unicode"

	"github.com/ohler55/slip"
	"pgregory.net/rapid"

	"verif/harness/internal/ev"
)

// Obj describes one Lisp object; it is the JSON form used in cases, replay files and witnesses.
// Objects are built through slip's exported Go types (no reader involved) except kind "src",
// which is Lisp source evaluated by slip.
//
//	int  S=decimal (fixnum when it fits int64, else bignum)     rat  S="n/d" (a *Ratio, also for d=1: the reader gives that for 2/2)
//	df   S=double-float token    sf  S=single-float token        str/sym/chr  S=text (sym: ":abc" is a keyword)
//	list/vec  E=elements         nil, t                          src  S=Lisp source
type Obj struct {
	K string `json:"k"`
	S string `json:"s,omitempty"`
	E []Obj  `json:"e,omitempty"`
}

func (o Obj) String() string {
	switch o.K {
	case "nil", "t":
		return o.K
	case "list", "vec", "arr":
		parts := make([]string, len(o.E))
		for i, e := range o.E {
			parts[i] = e.String()
		}
		open := "("
		if o.K == "vec" {
			open = "#("
		}
		if o.K == "arr" {
			open = "#2A(("
			return open + strings.Join(parts, " ") + "))"
		}
		return open + strings.Join(parts, " ") + ")"
	case "str":
		return strconv.Quote(o.S)
	case "chr":
		return "#\\" + o.S
	case "sym":
		return "'" + o.S
	case "src":
		return "{" + o.S + "}"
	}
	return o.K + ":" + o.S
}

func isNum(o Obj) bool { return o.K == "int" || o.K == "rat" || o.K == "df" || o.K == "sf" }

func isFloat(o Obj) bool { return o.K == "df" || o.K == "sf" }

// exact value of a number descriptor (nil for NaN/Inf, which are not generated).
func exact(o Obj) *big.Rat {
	switch o.K {
	case "int":
		if v, ok := new(big.Int).SetString(o.S, 10); ok {
			return new(big.Rat).SetInt(v)
		}
	case "rat":
		if r, ok := new(big.Rat).SetString(o.S); ok {
			return r
		}
	case "df":
		f, err := strconv.ParseFloat(o.S, 64)
		if err == nil && !math.IsInf(f, 0) && !math.IsNaN(f) {
			return new(big.Rat).SetFloat64(f)
		}
	case "sf":
		f, err := strconv.ParseFloat(o.S, 32)
		if err == nil && !math.IsInf(f, 0) && !math.IsNaN(f) {
			return new(big.Rat).SetFloat64(float64(float32(f)))
		}
	}
	panic("bad number descriptor " + o.K + ":" + o.S)
}

// build makes the slip object. Every call allocates afresh, so two calls give "separately
// allocated" objects.
func build(scope *slip.Scope, o Obj) slip.Object {
	switch o.K {
	case "int":
		v, ok := new(big.Int).SetString(o.S, 10)
		if !ok {
			panic("bad int " + o.S)
		}
		if v.IsInt64() {
			return slip.Fixnum(v.Int64())
		}
		return (*slip.Bignum)(v)
	case "rat":
		r, ok := new(big.Rat).SetString(o.S)
		if !ok {
			panic("bad ratio " + o.S)
		}
		return (*slip.Ratio)(r)
	case "df":
		f, err := strconv.ParseFloat(o.S, 64)
		if err != nil {
			panic("bad double " + o.S)
		}
		return slip.DoubleFloat(f)
	case "sf":
		f, err := strconv.ParseFloat(o.S, 32)
		if err != nil {
			panic("bad single " + o.S)
		}
		return slip.SingleFloat(float32(f))
	case "str":
		return slip.String(o.S)
	case "sym":
		return slip.Symbol(o.S)
	case "chr":
		return slip.Character([]rune(o.S)[0])
	case "list":
		// no elements: the empty slice, which is what '() (list) (cdr '(1)) give; kind "nil" is the nil interface
		l := make(slip.List, len(o.E))
		for i, e := range o.E {
			l[i] = build(scope, e)
		}
		return l
	case "vec":
		l := make(slip.List, len(o.E))
		for i, e := range o.E {
			l[i] = build(scope, e)
		}
		return slip.NewVector(len(l), slip.TrueSymbol, nil, l, false)
	case "arr": // rank 2, dimensions 1 x len(E)
		row := make(slip.List, len(o.E))
		for i, e := range o.E {
			row[i] = build(scope, e)
		}
		return slip.NewArray([]int{1, len(row)}, slip.TrueSymbol, nil, slip.List{row}, false)
	case "nil":
		return nil
	case "t":
		return slip.True
	case "src":
		out := ev.Eval(scope, o.S)
		if out.Kind != ev.Value {
			panic(fmt.Sprintf("object source %s does not evaluate: %s", o.S, out))
		}
		return out.Val
	}
	panic("unknown object kind " + o.K)
}

// ckey is the cluster key: two descriptors with the same key denote "the same value" in possibly
// different representation or case (numbers by exact value; strings, characters and symbols
// with case folded; lists and vectors element-wise). It is only used for the non-triviality
// counter and for the generator, never for a verdict.
func ckey(o Obj) string {
	switch {
	case isNum(o):
		return "n:" + exact(o).RatString()
	case o.K == "str":
		return "s:" + strings.ToLower(o.S)
	case o.K == "chr":
		return "c:" + strings.ToLower(o.S)
	case o.K == "sym":
		return "y:" + strings.ToLower(o.S)
	case o.K == "nil" || (o.K == "list" && len(o.E) == 0):
		return "()"
	case o.K == "list" || o.K == "vec" || o.K == "arr":
		var b strings.Builder
		if o.K == "vec" {
			b.WriteByte('#')
		}
		if o.K == "arr" {
			b.WriteString("#2A")
		}
		b.WriteByte('(')
		for _, e := range o.E {
			b.WriteString(ckey(e))
			b.WriteByte(' ')
		}
		b.WriteByte(')')
		return b.String()
	}
	return o.K + ":" + o.S
}

// pointerish: the Go representation is a pointer or a slice (bignum, ratio, list, vector).
func pointerish(o Obj) bool {
	switch o.K {
	case "rat", "vec", "arr":
		return true
	case "list":
		return len(o.E) > 0
	case "int":
		v, _ := new(big.Int).SetString(o.S, 10)
		return v != nil && !v.IsInt64()
	}
	return false
}

func leaves(o Obj, out []Obj) []Obj {
	if o.K == "list" || o.K == "vec" || o.K == "arr" {
		for _, e := range o.E {
			out = leaves(e, out)
		}
		return out
	}
	return append(out, o)
}

// roundsTo reports whether the rational r, converted to the float format of f the way slip's
// NormalizeNumber does (directly, or through a double first for a single-float), gives f
// although r is not exactly f.
func lossyNums(a, b Obj) bool {
	if !isNum(a) || !isNum(b) || isFloat(a) == isFloat(b) {
		return false
	}
	f, r := a, b
	if isFloat(b) {
		f, r = b, a
	}
	fe, re := exact(f), exact(r)
	if fe.Cmp(re) == 0 {
		return false
	}
	d, _ := re.Float64()
	if f.K == "df" {
		return !math.IsInf(d, 0) && new(big.Rat).SetFloat64(d).Cmp(fe) == 0
	}
	s1, _ := re.Float32()
	s2 := float32(d)
	for _, s := range []float32{s1, s2} {
		if !math.IsInf(float64(s), 0) && new(big.Rat).SetFloat64(float64(s)).Cmp(fe) == 0 {
			return true
		}
	}
	return false
}

// lossy: some number inside x and some number inside y differ exactly but coincide once the
// rational one is rounded to the other's float format (class of finding cmp-through-float).
func lossy(x, y Obj) bool {
	lx, ly := leaves(x, nil), leaves(y, nil)
	for _, a := range lx {
		if !isNum(a) {
			continue
		}
		for _, b := range ly {
			if lossyNums(a, b) {
				return true
			}
		}
	}
	return false
}

// ---------------------------------------------------------------- the fixed universe

func I(s string) Obj        { return Obj{K: "int", S: s} }
func R(s string) Obj        { return Obj{K: "rat", S: s} }
func D(s string) Obj        { return Obj{K: "df", S: s} }
func F(s string) Obj        { return Obj{K: "sf", S: s} }
func Str(s string) Obj      { return Obj{K: "str", S: s} }
func Sym(s string) Obj      { return Obj{K: "sym", S: s} }
func Chr(s string) Obj      { return Obj{K: "chr", S: s} }
func L(e ...Obj) Obj        { return Obj{K: "list", E: e} }
func V(e ...Obj) Obj        { return Obj{K: "vec", E: e} }
func A(e ...Obj) Obj        { return Obj{K: "arr", E: e} }
func Src(s string) Obj      { return Obj{K: "src", S: s} }
func (o Obj) eq(p Obj) bool { return o.String() == p.String() && o.K == p.K }

var (
	two64  = "18446744073709551616"
	two53  = "9007199254740992"
	two53p = "9007199254740993"
)

// universe: clusters of "same value, different representation or identity". A pair (u, u) with
// Same=false is two separately allocated copies.
var universe = []Obj{
	// one
	I("1"), D("1"), F("1"), R("1/1"),
	// two (neighbours for lists)
	I("2"), D("2"),
	// zero, signed zero
	I("0"), D("0"), D("-0"),
	// 2^64 as bignum, double, single
	I(two64), D("18446744073709551616"), F("18446744073709551616"),
	I("18446744073709551617"),
	// a half
	R("1/2"), D("0.5"), F("0.5"),
	// a third and the floats nearest to it (inexact)
	R("1/3"), D("0.3333333333333333"), F("0.33333334"),
	// 2^53, 2^53+1 and the double 2^53 (the double cannot tell them apart)
	I(two53), I(two53p), D("9007199254740992"),
	// strings
	Str("abc"), Str("ABC"), Str("Abc"), Str("abd"), Str(""), Str("1"),
	// letters whose two cases differ in the number of UTF-8 bytes (capital sharp s, kelvin sign, long s, angstrom sign)
	Str("straße"), Str("STRAẞE"), Str("k"), Str("\u212a"), Str("s"), Str("\u017f"), Str("å"), Str("\u212b"), L(Str("\u212a")), L(Str("k")),
	// symbols
	Sym("abc"), Sym("ABC"), Sym(":abc"), Sym("abd"),
	// characters
	Chr("a"), Chr("A"), Chr("b"), Chr("1"), Chr("k"), Chr("\u212a"), Chr("ß"), Chr("ẞ"),
	// lists
	L(I("1"), I("2")), L(D("1"), I("2")), L(I("1"), Str("a")), L(I("1"), Str("A")),
	L(I("1"), Chr("a")), L(I("1"), Chr("A")), L(L(I("1"), I("2")), Str("x")), L(L(I("1"), I("2")), Str("X")),
	L(Sym("abc")), L(Sym("ABC")), L(I(two64)), L(R("1/2")), L(R("1/3")), L(D("0.5")), L(Obj{K: "nil"}),
	// vectors
	V(I("1"), I("2")), V(D("1"), I("2")), V(Str("a")), V(Str("A")), V(Chr("a")), V(Chr("A")), V(),
	V(I(two64)), V(R("1/2")), V(R("1/3")), V(D("0.5")), V(L(I("1"), I("2"))),
	// sequences nested in a vector / array / list where one is a proper prefix of the other (elements of vectors and
	// arrays are compared through Object.Equal, not by equal itself): a comparison that stops at the shorter length
	// calls them equal, from one side only
	V(L(I("1"), I("2"), I("3"))), V(L(I("1"))), V(L()), V(V(I("1"))), V(V(I("1"), I("2"))), V(V()), A(L(I("1"), I("2"))), A(L(I("1"), I("2"), I("3"))), A(V(I("1"))), A(V(I("1"), I("2"))),
	L(V(L(I("1")))), L(V(L(I("1"), Obj{K: "nil"}))), L(L(I("1"), I("2"), I("3"))), V(Str("ab")), V(Str("abc")), L(Sym("k"), V(L(I("1")))), L(Sym("k"), V(L(I("1"), I("2")))),
	// vectors with a fill pointer below their size: whichever way equality treats the elements beyond the fill pointer, it
	// must do so from both sides (and for the vector as an element of a list)
	Src("(make-array 3 :initial-contents '(1 2 3) :fill-pointer 2)"), Src("(make-array 3 :initial-contents '(1 2 9) :fill-pointer 2)"), Src("(make-array 2 :initial-contents '(1 2) :fill-pointer 2)"),
	Src("(make-array 3 :initial-contents '(1 2 3) :fill-pointer 3)"), V(I("1"), I("2"), I("3")), L(Src("(make-array 3 :initial-contents '(1 2 3) :fill-pointer 2)")), L(V(I("1"), I("2"))),
	Src("(make-array 2 :initial-contents '(1 2) :fill-pointer 0)"),
	// lossy rational/float pairs inside vectors, lists and rank-2 arrays (elements are compared through Object.Equal)
	V(D("0.3333333333333333")), V(F("0.33333334")), L(D("0.3333333333333333")), L(F("0.33333334")),
	V(R("1/10")), V(D("0.1")), V(F("0.1")), V(I(two53p)), V(D("9007199254740992")), V(I("16777217")), V(F("16777216")),
	A(R("1/3")), A(D("0.3333333333333333")), A(F("0.33333334")), A(R("1/2")), A(D("0.5")), A(I("1")), A(D("1")), A(Str("a")), A(Str("A")),
	A(I(two53p)), A(D("9007199254740992")), V(V(R("1/3"))), V(V(D("0.3333333333333333"))),
	// complex numbers, with a zero imaginary part (equal to a real) and without
	Src("#C(1 0)"), Src("#C(2.5 0)"), Src("#C(1 2)"), Src("#C(0 0)"), D("2.5"), R("5/2"),
	// integers that agree in their low 64 bits (0 and 2^64, 1 and 2^64+1, -2^63 and 2^63), bare and as elements: a
	// comparison that takes a bignum's low word for its value calls them equal, from one side only
	I("-9223372036854775808"), I("9223372036854775808"), V(I("0")), V(I("1")), V(I("18446744073709551617")), V(I("-9223372036854775808")), V(I("9223372036854775808")),
	L(I("0")), L(I("18446744073709551617")), L(I("1")), A(I("0")), A(I(two64)), A(I("18446744073709551617")), V(V(I("0"))), V(V(I(two64))),
	// floats that are not numbers and infinities, double and single, bare and inside a list: every predicate must still be
	// reflexive on one object and the chain must hold between two of them (= is false for a NaN and itself)
	Src("(- (* 1e308 10) (* 1e308 10))"), Src("(coerce (- (* 1e308 10) (* 1e308 10)) 'single-float)"), Src("(* 1e308 10)"), Src("(- (* 1e308 10))"),
	Src("(coerce (* 1e308 10) 'single-float)"), L(Src("(- (* 1e308 10) (* 1e308 10))")), V(Src("(* 1e308 10)")),
	// nil, the empty list, t
	{K: "nil"}, L(), {K: "t"},
}

// objects that only take part in the type checks (built from source).
var typeExtras = []Obj{
	Src("1.5l0"), Src("#C(1 2)"), Src("(make-hash-table)"), Src("(coerce 7 'octet)"), Src("(coerce \"ab\" 'octets)"),
	Src("(coerce (list 1 0 1 1) (quote bit-vector))"), Src("(make-array '(2 2))"), Src("(make-array 3 :fill-pointer 1)"), Src("(lambda (x) x)"), Src("#'car"),
	Src("*standard-output*"), Src("*package*"), Src("(make-instance 'vanilla-flavor)"), Src("(find-class 'fixnum)"),
	Src("(find-class 'vanilla-flavor)"), Src("(make-condition 'error)"), Src("(make-condition 'type-error)"),
	Src("(make-string-input-stream \"x\")"), Src("(make-string-output-stream)"), Src("(coerce 5 'signed-byte)"),
	Src("(coerce 5 'unsigned-byte)"), Src("(coerce 1 'bit)"), Src("(cons 1 2)"), Src("(now)"), Src("(make-channel 1)"),
	Src("(make-instance 'bag-flavor)"), Src("(find-package 'cl)"),
}

// ---------------------------------------------------------------- random objects

var (
	poolInt = []string{"0", "1", "2", "-1", "3", "255", "256", "16777216", "16777217", two53, two53p, "9223372036854775807",
		"9223372036854775808", two64, "18446744073709551617", "-18446744073709551616"}
	poolDf  = []string{"0", "-0", "1", "2", "3", "0.5", "1.5", "-1", "0.1", "0.3333333333333333", "16777216", "9007199254740992", "18446744073709551616", "9.223372036854775808e18"}
	poolSf  = []string{"0", "1", "2", "0.5", "1.5", "0.1", "0.33333334", "16777216", "18446744073709551616"}
	poolRat = []string{"1/2", "1/3", "3/2", "1/1", "2/1", "1/10", "-1/2", "18446744073709551616/3"}
	poolStr = []string{"", "a", "A", "abc", "ABC", "Abc", "abd", "1", "é", "É", "ß", "ẞ", "k", "\u212a", "\u017f"}
	poolSym = []string{"a", "A", "abc", "ABC", ":abc", ":ABC", "b", "abd"}
	poolChr = []string{"a", "A", "b", "1", " ", "é", "É", "ß", "ẞ", "k", "\u212a"}
)

func genLeaf(rt *rapid.T, label string) Obj {
	switch rapid.IntRange(0, 11).Draw(rt, label+"-kind") {
	case 0, 1:
		return I(rapid.SampledFrom(poolInt).Draw(rt, label+"-int"))
	case 2, 3:
		return D(rapid.SampledFrom(poolDf).Draw(rt, label+"-df"))
	case 4:
		return F(rapid.SampledFrom(poolSf).Draw(rt, label+"-sf"))
	case 5:
		return R(rapid.SampledFrom(poolRat).Draw(rt, label+"-rat"))
	case 6, 7:
		return Str(rapid.SampledFrom(poolStr).Draw(rt, label+"-str"))
	case 8:
		return Sym(rapid.SampledFrom(poolSym).Draw(rt, label+"-sym"))
	case 9:
		return Chr(rapid.SampledFrom(poolChr).Draw(rt, label+"-chr"))
	case 10:
		return Obj{K: "nil"}
	}
	return Obj{K: "t"}
}

func genObj(rt *rapid.T, label string, depth int) Obj {
	if depth <= 0 || rapid.IntRange(0, 9).Draw(rt, label+"-leaf") < 6 {
		return genLeaf(rt, label)
	}
	n := rapid.IntRange(0, 3).Draw(rt, label+"-n")
	o := Obj{K: "list"}
	switch rapid.IntRange(0, 5).Draw(rt, label+"-vec") {
	case 0, 1:
		o.K = "vec"
	case 2:
		o.K = "arr"
	}
	for i := 0; i < n; i++ {
		o.E = append(o.E, genObj(rt, label+"e", depth-1))
	}
	return o
}

func flipCase(s string) string {
	rs := []rune(s)
	for i, r := range rs {
		if unicode.IsUpper(r) {
			rs[i] = unicode.ToLower(r)
		} else {
			rs[i] = unicode.ToUpper(r)
		}
	}
	return string(rs)
}

// representations of the exact value of a number descriptor (other than itself), plus its lossy float neighbours.
func numVariants(o Obj) (same []Obj, near []Obj) {
	r := exact(o)
	add := func(c Obj, exactOnly bool) {
		if c.K == o.K && c.S == o.S {
			return
		}
		if exact(c).Cmp(r) == 0 {
			same = append(same, c)
		} else if !exactOnly {
			near = append(near, c)
		}
	}
	if r.IsInt() {
		add(I(r.Num().String()), true)
		add(R(r.Num().String()+"/1"), true)
	} else {
		add(R(r.RatString()), true)
	}
	d, _ := r.Float64()
	if !math.IsInf(d, 0) {
		add(D(strconv.FormatFloat(d, 'g', -1, 64)), false)
	}
	s, _ := r.Float32()
	if !math.IsInf(float64(s), 0) {
		add(F(strconv.FormatFloat(float64(s), 'g', -1, 32)), false)
	}
	return
}

// variant gives an object of the same cluster in another representation/case where one exists
// (sometimes a lossy float neighbour instead), else a copy.
func variant(rt *rapid.T, label string, o Obj) Obj {
	switch {
	case isNum(o):
		same, near := numVariants(o)
		if len(near) > 0 && rapid.IntRange(0, 5).Draw(rt, label+"-near") == 0 {
			return near[rapid.IntRange(0, len(near)-1).Draw(rt, label+"-nearsel")]
		}
		if len(same) > 0 {
			return same[rapid.IntRange(0, len(same)-1).Draw(rt, label+"-samesel")]
		}
		return o
	case o.K == "str" || o.K == "chr" || o.K == "sym":
		if rapid.IntRange(0, 3).Draw(rt, label+"-flip") > 0 {
			return Obj{K: o.K, S: flipCase(o.S)}
		}
		return o
	case o.K == "list" || o.K == "vec" || o.K == "arr":
		c := Obj{K: o.K}
		for _, e := range o.E {
			if rapid.Bool().Draw(rt, label+"-sub") {
				c.E = append(c.E, variant(rt, label+"v", e))
			} else {
				c.E = append(c.E, e)
			}
		}
		return c
	}
	return o
}
