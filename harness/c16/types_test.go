package c16

import (
	"fmt"
	"sort"
	"strings"
	"sync"
	"testing"

	"github.com/ohler55/slip"
	"pgregory.net/rapid"

	"verif/harness/internal/ev"
	"verif/harness/internal/h"
	"verif/harness/internal/sx"
)

// TCase: an object and, depending on the sub-property, a type symbol (A).
type TCase struct {
	X Obj    `json:"x"`
	A string `json:"a,omitempty"`
}

// SCase: subtypep laws for one type symbol against all others.
type SCase struct {
	A string `json:"a"`
}

var (
	regOnce   sync.Once
	regNames  []string        // every class name visible in the current package, sorted
	hierNames map[string]bool // every symbol that appears in the Hierarchy() of some object of the universe
	// coerce's dispatcher (coerce.go) accepts these symbols
	coerceTargets = []string{"t", "list", "string", "vector", "character", "integer", "fixnum", "octet", "byte", "octets", "bytes", "bignum",
		"float", "short-float", "single-float", "double-float", "long-float", "rational", "ratio", "complex", "symbol", "assoc",
		"hash-table", "function", "bit-vector", "signed-byte", "unsigned-byte", "bit"}
	allTargets []string
)

func registry() []string {
	regOnce.Do(func() {
		seen := map[string]bool{}
		for _, c := range slip.CurrentPackage.AllClasses() {
			n := strings.ToLower(c.Name())
			if !seen[n] && slip.FindClass(n) != nil {
				seen[n] = true
				regNames = append(regNames, n)
			}
		}
		sort.Strings(regNames)
		hierNames = map[string]bool{}
		scope := slip.NewScope()
		for _, o := range append(append([]Obj{}, universe...), typeExtras...) {
			out := ev.Try(func() slip.Object { return build(scope, o) })
			if out.Kind != ev.Value || out.Val == nil {
				continue
			}
			for _, s := range out.Val.Hierarchy() {
				hierNames[strings.ToLower(string(s))] = true
			}
		}
		allTargets = append(allTargets, regNames...)
		for _, t := range coerceTargets {
			if !seen[t] {
				allTargets = append(allTargets, t)
			}
		}
	})
	return regNames
}

func knownType(name string) bool {
	registry()
	return slip.FindClass(name) != nil || hierNames[name]
}

func lambdaSrc(o Obj) bool { return o.K == "src" && strings.HasPrefix(o.S, "(lambda") }

// multiDim: an array of rank other than 1, built from source.
func multiDim(o Obj) bool {
	return o.K == "arr" || (o.K == "src" && strings.HasPrefix(o.S, "(make-array '("))
}

func bindX(c TCase) (*slip.Scope, slip.Object, string) {
	scope := slip.NewScope()
	out := ev.Try(func() slip.Object { return build(scope, c.X) })
	if out.Kind != ev.Value {
		return nil, nil, fmt.Sprintf("object %s cannot be built: %s", c.X, out)
	}
	scope.Let("x", out.Val)
	return scope, out.Val, ""
}

func typepOf(scope *slip.Scope, ty slip.Object) (bool, string) {
	scope.Let("ty", ty)
	v, msg := call(scope, "(typep x ty)")
	if msg != "" {
		return false, fmt.Sprintf("type %s: %s", sx.Text(ty), msg)
	}
	return v, ""
}

// typep of type-of and of every member of the class precedence list of type-of.
func runTypeOwn(c TCase) *h.Result {
	res := &h.Result{}
	scope, x, msg := bindX(c)
	if msg != "" {
		return h.Fail("%s", msg)
	}
	out := ev.Eval(scope, "(type-of x)")
	if out.Kind != ev.Value {
		return h.Fail("(type-of x) on %s does not return: %s", c.X, out)
	}
	t0, ok := out.Val.(slip.Symbol)
	if !ok {
		return h.Fail("(type-of x) on %s is not a symbol: %s", c.X, sx.Text(out.Val))
	}
	res.Classes = append(res.Classes, "type-of:"+strings.ToLower(string(t0)))
	n := 2
	v, msg := typepOf(scope, t0)
	if msg != "" {
		return h.Fail("x=%s: %s", c.X, msg)
	}
	if !v {
		return h.Fail("(typep x (type-of x)) is false: x=%s type-of=%s", c.X, t0)
	}
	_ = x
	// supertypes as the class registry gives them
	if slip.FindClass(string(t0)) != nil {
		scope.Let("ty", t0)
		out = ev.Eval(scope, "(class-precedence ty)")
		n++
		if out.Kind != ev.Value {
			return h.Fail("(class-precedence '%s) does not return: %s", t0, out)
		}
		cpl, _ := out.Val.(slip.List)
		for _, s := range cpl {
			if multiDim(c.X) && sx.Text(s) == "sequence" && h.Excluded("array-not-sequence") {
				continue
			}
			v, msg = typepOf(scope, s)
			n++
			if msg != "" {
				return h.Fail("x=%s: %s", c.X, msg)
			}
			if !v {
				return h.Fail("x=%s has type-of %s whose class precedence list %s contains %s, but (typep x '%s) is false", c.X, t0, sx.Text(cpl), sx.Text(s), sx.Text(s))
			}
		}
		res.NonTrivial = len(cpl) > 1
		res.Classes = append(res.Classes, "type-own:with-class")
	} else {
		res.Classes = append(res.Classes, "type-own:no-class")
	}
	res.Evals = n
	return res
}

var (
	rowMu sync.Mutex
	rows  = map[string][]bool{}
)

// subRow evaluates (subtypep a b) for every registry type b.
func subRow(a string) ([]bool, string) {
	reg := registry()
	scope := slip.NewScope()
	scope.Let("a", slip.Symbol(a))
	row := make([]bool, len(reg))
	for i, b := range reg {
		scope.Let("b", slip.Symbol(b))
		out := ev.Eval(scope, "(subtypep a b)")
		if out.Kind != ev.Value {
			return nil, fmt.Sprintf("(subtypep '%s '%s) does not return: %s", a, b, out)
		}
		val := out.Val
		if vs, ok := val.(slip.Values); ok {
			val = nil
			if len(vs) > 0 {
				val = vs[0]
			}
		}
		row[i] = truth(val)
	}
	return row, ""
}

func cachedRow(a string) ([]bool, string) {
	rowMu.Lock()
	r := rows[a]
	rowMu.Unlock()
	if r != nil {
		return r, ""
	}
	r, msg := subRow(a)
	if msg == "" {
		rowMu.Lock()
		rows[a] = r
		rowMu.Unlock()
	}
	return r, msg
}

func regIndex(name string) int {
	reg := registry()
	i := sort.SearchStrings(reg, name)
	if i < len(reg) && reg[i] == name {
		return i
	}
	return -1
}

// subtypep is reflexive and transitive over the registry (row of A against all B, C).
func runSubLaws(c SCase) *h.Result {
	reg := registry()
	ia := regIndex(c.A)
	if ia < 0 {
		return h.Fail("type %s is not in the registry", c.A)
	}
	res := &h.Result{Classes: []string{"subtypep-row"}}
	row, msg := subRow(c.A) // always evaluated afresh
	if msg != "" {
		return h.Fail("%s", msg)
	}
	if old, _ := cachedRow(c.A); old != nil {
		for i := range old {
			if old[i] != row[i] {
				return h.Fail("(subtypep '%s '%s) changes between two calls", c.A, reg[i])
			}
		}
	}
	if !row[ia] {
		return h.Fail("subtypep is not reflexive: (subtypep '%s '%s) is false", c.A, c.A)
	}
	n := len(reg)
	supers := 0
	for ib, ab := range row {
		if !ab {
			continue
		}
		if ib != ia {
			supers++
		}
		rb, msg := cachedRow(reg[ib])
		if msg != "" {
			return h.Fail("%s", msg)
		}
		n += len(reg)
		for ic, bc := range rb {
			if bc && !row[ic] {
				return h.Fail("subtypep is not transitive: %s <= %s and %s <= %s but not %s <= %s", c.A, reg[ib], reg[ib], reg[ic], c.A, reg[ic])
			}
		}
	}
	res.NonTrivial = supers > 0
	res.Evals = n
	return res
}

// subtypep agrees with typep: x of type A and A <= B give x of type B.
func runTypeSub(c TCase) *h.Result {
	reg := registry()
	res := &h.Result{}
	if regIndex(c.A) < 0 {
		return h.Fail("type %s is not in the registry", c.A)
	}
	scope, _, msg := bindX(c)
	if msg != "" {
		return h.Fail("%s", msg)
	}
	is, msg := typepOf(scope, slip.Symbol(c.A))
	if msg != "" {
		return h.Fail("x=%s: %s", c.X, msg)
	}
	if !is {
		res.Classes = append(res.Classes, "typep:false")
		return res
	}
	res.Classes = append(res.Classes, "typep:true")
	row, msg := cachedRow(c.A)
	if msg != "" {
		return h.Fail("%s", msg)
	}
	n := 1
	for ib, ab := range row {
		if !ab {
			continue
		}
		if multiDim(c.X) && c.A == "array" && reg[ib] == "sequence" && h.Excluded("array-not-sequence") {
			continue
		}
		v, msg := typepOf(scope, slip.Symbol(reg[ib]))
		n++
		if msg != "" {
			return h.Fail("x=%s: %s", c.X, msg)
		}
		if !v {
			return h.Fail("x=%s: (typep x '%s) and (subtypep '%s '%s) hold but (typep x '%s) is false", c.X, c.A, c.A, reg[ib], reg[ib])
		}
		if reg[ib] != c.A {
			res.NonTrivial = true
		}
	}
	res.Evals = n
	return res
}

// coerce returns an object of the requested type (when it returns).
func runCoerce(c TCase) *h.Result {
	res := &h.Result{}
	scope, x, msg := bindX(c)
	if msg != "" {
		return h.Fail("%s", msg)
	}
	switch {
	case (c.A == "byte" || c.A == "short-float") && h.ExclOn("type-alias-class"):
		res.Skip = "type-alias-class"
	case c.A == "function" && lambdaSrc(c.X) && h.ExclOn("lambda-not-function"):
		res.Skip = "lambda-not-function"
	case c.X.K == "nil" && (c.A == "vector" || c.A == "octets") && h.ExclOn("coerce-nil-to-nil"):
		res.Skip = "coerce-nil-to-nil"
	}
	if res.Skip != "" {
		return res
	}
	before := sx.Typed(x)
	scope.Let("ty", slip.Symbol(c.A))
	out := ev.Eval(scope, "(coerce x ty)")
	switch out.Kind {
	case ev.Value:
	case ev.Fault:
		res.Classes = append(res.Classes, "coerce:fault")
		return res // faults are the subject of C09; the statement only speaks about what coerce returns
	default:
		res.Classes = append(res.Classes, "coerce:signals")
		return res
	}
	if !knownType(c.A) {
		res.Classes = append(res.Classes, "coerce:target-not-a-type")
		return res
	}
	res.Classes = append(res.Classes, "coerce:returns", "coerce:to="+c.A)
	scope.Let("r", out.Val)
	v, msg := call(scope, "(typep r ty)")
	if msg != "" {
		return h.Fail("x=%s: (coerce x '%s) = %s: %s", c.X, c.A, sx.Typed(out.Val), msg)
	}
	if !v {
		return h.Fail("(coerce x '%s) on x=%s returns %s (type-of %s), which is not typep %s", c.A, c.X, sx.Typed(out.Val), sx.Text(ev.Eval(scope, "(type-of r)").Val), c.A)
	}
	if now := sx.Typed(x); now != before && c.X.K != "src" {
		return h.Fail("coerce altered its argument: %s -> %s", before, now)
	}
	res.NonTrivial = true
	res.Evals = 2
	return res
}

func genTypeObj(rt *rapid.T) Obj {
	if rapid.IntRange(0, 4).Draw(rt, "extra") == 0 {
		return rapid.SampledFrom(typeExtras).Draw(rt, "extra-obj")
	}
	return genObj(rt, "x", 2)
}

var (
	typeOwn    = h.Prop[TCase]{Name: "typep-own", Run: runTypeOwn, Gen: func(rt *rapid.T) TCase { return TCase{X: genTypeObj(rt)} }}
	typeOwnAll = h.Prop[TCase]{Name: "typep-own-universe", Run: runTypeOwn}
	typeSub    = h.Prop[TCase]{Name: "typep-subtypep", Run: runTypeSub, Gen: func(rt *rapid.T) TCase {
		return TCase{X: genTypeObj(rt), A: rapid.SampledFrom(registry()).Draw(rt, "a")}
	}}
	typeSubAll = h.Prop[TCase]{Name: "typep-subtypep-universe", Run: runTypeSub}
	subLaws    = h.Prop[SCase]{Name: "subtypep-laws", Run: runSubLaws}
	coerce     = h.Prop[TCase]{Name: "coerce", Run: runCoerce, Gen: func(rt *rapid.T) TCase {
		registry()
		return TCase{X: genTypeObj(rt), A: rapid.SampledFrom(allTargets).Draw(rt, "a")}
	}}
	coerceAll = h.Prop[TCase]{Name: "coerce-universe", Run: runCoerce}
)

func witnessesFirst(t *testing.T) {
	h.RunProp(t, hashProp, 0)
	h.RunProp(t, typeOwn, 0)
	h.RunProp(t, typeSub, 0)
	h.RunProp(t, coerce, 0)
}

func testTypes(t *testing.T) {
	registry()
	h.RunProp(t, typeOwnAll, 0)
	h.RunProp(t, typeOwn, h.N(3000, 50000))
	h.RunProp(t, typeSubAll, 0)
	h.RunProp(t, typeSub, h.N(5000, 100000))
	h.RunProp(t, subLaws, 0)
	h.RunProp(t, coerceAll, 0)
	h.RunProp(t, coerce, h.N(8000, 150000))
}

func enumTypes(t *testing.T) {
	reg := registry()
	h.Note("class registry: %d type symbols; coerce targets: %d", len(reg), len(allTargets))
	objs := append(append([]Obj{}, universe...), typeExtras...)
	h.Enumerate(t, typeOwnAll, func(yield func(TCase) bool) {
		for _, o := range objs {
			if !yield(TCase{X: o}) {
				return
			}
		}
	})
	h.Enumerate(t, subLaws, func(yield func(SCase) bool) {
		for _, a := range reg {
			if !yield(SCase{A: a}) {
				return
			}
		}
	})
	h.Enumerate(t, typeSubAll, func(yield func(TCase) bool) {
		for _, o := range objs {
			for _, a := range reg {
				if !yield(TCase{X: o, A: a}) {
					return
				}
			}
		}
	})
	h.Enumerate(t, coerceAll, func(yield func(TCase) bool) {
		for _, o := range objs {
			for _, a := range allTargets {
				if !yield(TCase{X: o, A: a}) {
					return
				}
			}
		}
	})
}
