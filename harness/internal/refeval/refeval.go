// Package refeval is an independent reference evaluator for the core language
// subset used by C01, C07 and C08. It is written from the language definition
// (lexical environments of boxed cells, closures capture the environment,
// multiple values, lexical blocks and tags, unwind-protect) and shares no code
// with slip. Programs are S-expressions in the representation below; Print
// renders them as Lisp text for slip.
package refeval

import (
	"fmt"
	"strconv"
	"strings"
)

// Val is a value or a program node:
//
//	nil            NIL / the empty list / false
//	int64          integer
//	Str            string
//	Sym            symbol (T is Sym("t"), keywords start with ':')
//	[]Val          proper list (never empty; empty is nil)
//	*Closure       function object
type Val any

// Sym is a symbol.
type Sym string

// Str is a string.
type Str string

// T is the true value.
const T = Sym("t")

// L builds a list.
func L(vs ...Val) Val {
	if len(vs) == 0 {
		return nil
	}
	return []Val(vs)
}

// Closure is a function object.
type Closure struct {
	Name   string
	Params []string
	Opt    []OptParam // &optional parameters after the required ones
	Body   []Val
	Env    *Env
	Defun  bool // made by defun: the body is an implicit block named after the function
}

type cell struct{ v Val }

// Env is a lexical environment frame.
type Env struct {
	vars   map[string]*cell
	blocks map[string]*blockID
	tags   map[string]*tagbodyID
	up     *Env
}

type blockID struct {
	name   string
	active bool
}
type tagbodyID struct{ active bool }

// NewEnv makes a child frame.
func NewEnv(up *Env) *Env { return &Env{up: up} }

func (e *Env) bind(name string, v Val) {
	if e.vars == nil {
		e.vars = map[string]*cell{}
	}
	e.vars[name] = &cell{v: v}
}

func (e *Env) lookup(name string) *cell {
	for f := e; f != nil; f = f.up {
		if c, ok := f.vars[name]; ok {
			return c
		}
	}
	return nil
}

func (e *Env) findBlock(name string) *blockID {
	for f := e; f != nil; f = f.up {
		if b, ok := f.blocks[name]; ok {
			return b
		}
	}
	return nil
}

func (e *Env) findTag(name string) *tagbodyID {
	for f := e; f != nil; f = f.up {
		if b, ok := f.tags[name]; ok {
			return b
		}
	}
	return nil
}

// LispError is a signalled condition that escapes (or is caught by ignore-errors).
type LispError struct {
	Class string
	Msg   string
}

func (e *LispError) Error() string { return e.Class + ": " + e.Msg }

type returnFrom struct {
	id   *blockID
	vals []Val
}
type goTag struct {
	id  *tagbodyID
	tag string
}

// Event is one trace entry.
type Event struct {
	ID  string
	Val string
}

// Machine holds the global state of one program run.
type Machine struct {
	Funcs   map[string]*Closure
	Macros  map[string]*Closure
	Globals map[string]*cell
	Trace   []Event
	Steps   int
	// MaxSteps bounds the evaluation (generated programs terminate; this guards the harness).
	MaxSteps int
	// Hooks for forms with outside effects (C07): called on entry/exit of with-mutex-lock, with-open-file.
	Locked map[string]bool
	// Big is set when an integer beyond 2^31 was computed: the machine's integers are int64 (slip goes on with bignums),
	// so from there on its results are not the reference any more and the harness sets the case aside.
	Big bool
}

// NewMachine returns an empty machine.
func NewMachine() *Machine {
	return &Machine{Funcs: map[string]*Closure{}, Macros: map[string]*Closure{}, Globals: map[string]*cell{}, MaxSteps: 200000, Locked: map[string]bool{}}
}

// TraceString renders the trace like ev.TraceString.
func (m *Machine) TraceString() string {
	var b strings.Builder
	for i, e := range m.Trace {
		if i > 0 {
			b.WriteByte(' ')
		}
		b.WriteString(e.ID)
		if e.Val != "" {
			b.WriteByte('=')
			b.WriteString(e.Val)
		}
	}
	return b.String()
}

// Outcome of running a program.
type Outcome struct {
	Vals  []Val      // values when it returned
	Err   *LispError // escaping condition
	Trace string
}

// Run evaluates the top-level forms in order and returns the outcome of the last one.
func (m *Machine) Run(forms []Val) (out Outcome) {
	defer func() {
		if r := recover(); r != nil {
			switch tr := r.(type) {
			case *LispError:
				out.Err = tr
			case *returnFrom:
				out.Err = &LispError{Class: "control-error", Msg: "return from a block that is no longer active"}
			case *goTag:
				out.Err = &LispError{Class: "control-error", Msg: "go to a tag that is no longer active"}
			default:
				panic(r)
			}
		}
		out.Trace = m.TraceString()
	}()
	env := NewEnv(nil)
	for _, f := range forms {
		out.Vals = m.eval(f, env)
	}
	return
}

func (m *Machine) fail(class, format string, args ...any) {
	panic(&LispError{Class: class, Msg: fmt.Sprintf(format, args...)})
}

func truthy(v Val) bool { return v != nil }

func one(vs []Val) Val {
	if len(vs) == 0 {
		return nil
	}
	return vs[0]
}

func (m *Machine) big(s int64) int64 {
	if s > 1<<31 || s < -(1<<31) {
		m.Big = true
	}
	return s
}

func single(v Val) []Val { return []Val{v} }

func boolVal(b bool) Val {
	if b {
		return T
	}
	return nil
}

func (m *Machine) evalOne(n Val, env *Env) Val { return one(m.eval(n, env)) }

func (m *Machine) body(forms []Val, env *Env) []Val {
	res := single(nil)
	for _, f := range forms {
		res = m.eval(f, env)
	}
	return res
}

func asList(v Val) []Val {
	switch t := v.(type) {
	case nil:
		return nil
	case []Val:
		return t
	}
	panic(&LispError{Class: "type-error", Msg: fmt.Sprintf("%s is not a list", Print(v))})
}

func asInt(v Val) int64 {
	if i, ok := v.(int64); ok {
		return i
	}
	panic(&LispError{Class: "type-error", Msg: fmt.Sprintf("%s is not a number", Print(v))})
}

func symName(v Val) string {
	s, ok := v.(Sym)
	if !ok {
		panic(fmt.Sprintf("refeval: expected a symbol, got %s", Print(v)))
	}
	return strings.ToLower(string(s))
}

// Equal is structural equality (equal).
func Equal(a, b Val) bool {
	switch ta := a.(type) {
	case nil:
		return b == nil
	case int64:
		tb, ok := b.(int64)
		return ok && ta == tb
	case Str:
		tb, ok := b.(Str)
		return ok && ta == tb
	case Sym:
		tb, ok := b.(Sym)
		return ok && strings.EqualFold(string(ta), string(tb))
	case []Val:
		tb, ok := b.([]Val)
		if !ok || len(ta) != len(tb) {
			return false
		}
		for i := range ta {
			if !Equal(ta[i], tb[i]) {
				return false
			}
		}
		return true
	}
	return a == b
}

func eql(a, b Val) bool {
	switch a.(type) {
	case []Val:
		return false // lists are never eql in generated programs (no shared identity is generated)
	}
	return Equal(a, b)
}

func (m *Machine) eval(n Val, env *Env) []Val {
	m.Steps++
	if m.Steps > m.MaxSteps {
		panic("refeval: step limit exceeded")
	}
	switch t := n.(type) {
	case nil:
		return single(nil)
	case int64, Str, *Closure:
		return single(t)
	case Sym:
		name := strings.ToLower(string(t))
		if name == "t" {
			return single(T)
		}
		if name == "nil" {
			return single(nil)
		}
		if strings.HasPrefix(name, ":") {
			return single(t)
		}
		if c := env.lookup(name); c != nil {
			return single(c.v)
		}
		if c, ok := m.Globals[name]; ok {
			return single(c.v)
		}
		m.fail("unbound-variable", "Variable %s is unbound.", name)
	case []Val:
		return m.evalForm(t, env)
	}
	panic(fmt.Sprintf("refeval: cannot evaluate %T", n))
}

func (m *Machine) function(designator Val, env *Env) *Closure {
	switch t := designator.(type) {
	case *Closure:
		return t
	case Sym:
		name := strings.ToLower(string(t))
		if c, ok := m.Funcs[name]; ok {
			return c
		}
		if _, ok := builtins[name]; ok {
			return &Closure{Name: name}
		}
		m.fail("undefined-function", "Function %s is not defined.", name)
	}
	m.fail("type-error", "%s is not a function", Print(designator))
	return nil
}

// Apply calls a function object with evaluated arguments.
func (m *Machine) Apply(f *Closure, args []Val) []Val {
	if f.Body == nil && f.Params == nil && f.Env == nil {
		if b, ok := builtins[f.Name]; ok {
			return b(m, args)
		}
	}
	if len(args) < len(f.Params) || len(args) > len(f.Params)+len(f.Opt) {
		m.fail("error", "wrong number of arguments to %s: %d", f.Name, len(args))
	}
	env := NewEnv(f.Env)
	for i, p := range f.Params {
		env.bind(p, args[i])
	}
	for i, op := range f.Opt {
		if k := len(f.Params) + i; k < len(args) {
			env.bind(op.Name, args[k])
		} else {
			env.bind(op.Name, m.evalOne(op.Default, env))
		}
	}
	// the body of a function made by defun is an implicit block named after the function
	if f.Defun {
		return m.inBlock(f.Name, env, func(be *Env) []Val { return m.body(f.Body, be) })
	}
	return m.body(f.Body, env)
}

func (m *Machine) evalArgs(forms []Val, env *Env) []Val {
	args := make([]Val, len(forms))
	for i, a := range forms {
		args[i] = m.evalOne(a, env)
	}
	return args
}

func (m *Machine) evalForm(form []Val, env *Env) []Val {
	head, ok := form[0].(Sym)
	if !ok {
		// ((lambda ...) args)
		if lf, isList := form[0].([]Val); isList && len(lf) > 0 && symIs(lf[0], "lambda") {
			f := m.evalOne(form[0], env).(*Closure)
			return m.Apply(f, m.evalArgs(form[1:], env))
		}
		panic(fmt.Sprintf("refeval: bad form head %s", Print(form[0])))
	}
	name := strings.ToLower(string(head))
	args := form[1:]
	switch name {
	case "quote":
		return single(args[0])
	case "function":
		if lf, isList := args[0].([]Val); isList {
			return m.eval(lf, env)
		}
		return single(m.function(args[0], env))
	case "vt:mark":
		vals := m.evalArgs(args, env)
		e := Event{ID: Print(vals[0])}
		var res Val
		if len(vals) > 1 {
			res = vals[1]
			e.Val = Print(res)
		}
		m.Trace = append(m.Trace, e)
		return single(res)
	case "progn":
		return m.body(args, env)
	case "prog1":
		v := m.evalOne(args[0], env)
		m.body(args[1:], env)
		return single(v)
	case "if":
		if truthy(m.evalOne(args[0], env)) {
			return m.eval(args[1], env)
		}
		if len(args) > 2 {
			return m.eval(args[2], env)
		}
		return single(nil)
	case "when":
		if truthy(m.evalOne(args[0], env)) {
			return m.body(args[1:], env)
		}
		return single(nil)
	case "unless":
		if !truthy(m.evalOne(args[0], env)) {
			return m.body(args[1:], env)
		}
		return single(nil)
	case "cond":
		for _, c := range args {
			clause := asList(c)
			test := m.eval(clause[0], env)
			if truthy(one(test)) {
				if len(clause) == 1 {
					return single(one(test))
				}
				return m.body(clause[1:], env)
			}
		}
		return single(nil)
	case "case":
		key := m.evalOne(args[0], env)
		for _, c := range args[1:] {
			clause := asList(c)
			match := false
			switch k := clause[0].(type) {
			case Sym:
				kn := strings.ToLower(string(k))
				match = kn == "t" || kn == "otherwise" || Equal(key, k)
			case []Val:
				for _, kk := range k {
					if Equal(key, kk) {
						match = true
					}
				}
			default:
				match = Equal(key, k)
			}
			if match {
				return m.body(clause[1:], env)
			}
		}
		return single(nil)
	case "and":
		res := single(T)
		for i, a := range args {
			res = m.eval(a, env)
			if !truthy(one(res)) {
				return single(nil)
			}
			if i < len(args)-1 {
				res = single(one(res))
			}
		}
		return res
	case "or":
		for i, a := range args {
			res := m.eval(a, env)
			if i == len(args)-1 {
				return res
			}
			if truthy(one(res)) {
				return single(one(res))
			}
		}
		return single(nil)
	case "let":
		ne := NewEnv(env)
		type b struct {
			n string
			v Val
		}
		var bs []b
		for _, bd := range asList(args[0]) {
			switch tb := bd.(type) {
			case Sym:
				bs = append(bs, b{symName(tb), nil})
			case []Val:
				var v Val
				if len(tb) > 1 {
					v = m.evalOne(tb[1], env)
				}
				bs = append(bs, b{symName(tb[0]), v})
			}
		}
		for _, x := range bs {
			ne.bind(x.n, x.v)
		}
		return m.body(args[1:], ne)
	case "let*":
		ne := env
		for _, bd := range asList(args[0]) {
			switch tb := bd.(type) {
			case Sym:
				ne = NewEnv(ne)
				ne.bind(symName(tb), nil)
			case []Val:
				var v Val
				if len(tb) > 1 {
					v = m.evalOne(tb[1], ne)
				}
				ne = NewEnv(ne)
				ne.bind(symName(tb[0]), v)
			}
		}
		return m.body(args[1:], NewEnv(ne))
	case "setq":
		var v Val
		for i := 0; i+1 < len(args); i += 2 {
			v = m.evalOne(args[i+1], env)
			m.assign(symName(args[i]), v, env)
		}
		return single(v)
	case "defvar", "defparameter", "defconstant":
		vn := symName(args[0])
		if _, has := m.Globals[vn]; !has || name == "defparameter" || name == "defconstant" {
			var v Val
			if len(args) > 1 {
				v = m.evalOne(args[1], env)
			}
			m.Globals[vn] = &cell{v: v}
		}
		return single(Sym(vn))
	case "lambda":
		return single(&Closure{Name: "lambda", Params: params(args[0]), Opt: optParams(args[0]), Body: args[1:], Env: env})
	case "defun":
		fn := symName(args[0])
		m.Funcs[fn] = &Closure{Name: fn, Params: params(args[1]), Opt: optParams(args[1]), Body: args[2:], Env: env, Defun: true}
		return single(Sym(fn))
	case "defmacro":
		fn := symName(args[0])
		m.Macros[fn] = &Closure{Name: fn, Params: params(args[1]), Body: args[2:], Env: env}
		return single(Sym(fn))
	case "funcall":
		vals := m.evalArgs(args, env)
		return m.Apply(m.function(vals[0], env), vals[1:])
	case "apply":
		vals := m.evalArgs(args, env)
		last := asList(vals[len(vals)-1])
		all := append(append([]Val{}, vals[1:len(vals)-1]...), last...)
		return m.Apply(m.function(vals[0], env), all)
	case "mapcar":
		vals := m.evalArgs(args, env)
		f := m.function(vals[0], env)
		lists := make([][]Val, len(vals)-1)
		n := -1
		for i, l := range vals[1:] {
			lists[i] = asList(l)
			if n < 0 || len(lists[i]) < n {
				n = len(lists[i])
			}
		}
		var out []Val
		for i := 0; i < n; i++ {
			call := make([]Val, len(lists))
			for j := range lists {
				call[j] = lists[j][i]
			}
			out = append(out, one(m.Apply(f, call)))
		}
		return single(L(out...))
	case "values":
		return m.evalArgs(args, env)
	case "multiple-value-list":
		return single(L(m.eval(args[0], env)...))
	case "multiple-value-bind":
		vals := m.eval(args[1], env)
		ne := NewEnv(env)
		for i, p := range asList(args[0]) {
			var v Val
			if i < len(vals) {
				v = vals[i]
			}
			ne.bind(symName(p), v)
		}
		return m.body(args[2:], ne)
	case "dolist":
		spec := asList(args[0])
		vn := symName(spec[0])
		list := asList(m.evalOne(spec[1], env))
		return m.inBlock("", env, func(be *Env) []Val {
			ne := NewEnv(be)
			ne.bind(vn, nil)
			for _, x := range list {
				ne.vars[vn].v = x
				m.tagbodyBody(args[1:], ne)
			}
			ne.vars[vn].v = nil
			if len(spec) > 2 {
				return m.eval(spec[2], ne)
			}
			return single(nil)
		})
	case "dotimes":
		spec := asList(args[0])
		vn := symName(spec[0])
		cnt := asInt(m.evalOne(spec[1], env))
		return m.inBlock("", env, func(be *Env) []Val {
			ne := NewEnv(be)
			ne.bind(vn, int64(0))
			for i := int64(0); i < cnt; i++ {
				ne.vars[vn].v = i
				m.tagbodyBody(args[1:], ne)
			}
			if cnt > 0 {
				ne.vars[vn].v = cnt
			}
			if len(spec) > 2 {
				return m.eval(spec[2], ne)
			}
			return single(nil)
		})
	case "do", "do*":
		return m.doLoop(name == "do*", args, env)
	case "block":
		return m.inBlock(symName0(args[0]), env, func(be *Env) []Val { return m.body(args[1:], be) })
	case "return-from":
		id := env.findBlock(symName0(args[0]))
		if id == nil {
			m.fail("control-error", "return from unknown block: %s", Print(args[0]))
		}
		vals := single(nil)
		if len(args) > 1 {
			vals = m.eval(args[1], env)
		}
		if !id.active {
			m.fail("control-error", "block %s is no longer active", id.name)
		}
		panic(&returnFrom{id: id, vals: vals})
	case "return":
		id := env.findBlock("")
		if id == nil {
			m.fail("control-error", "return from unknown block: nil")
		}
		vals := single(nil)
		if len(args) > 0 {
			vals = m.eval(args[0], env)
		}
		if !id.active {
			m.fail("control-error", "block nil is no longer active")
		}
		panic(&returnFrom{id: id, vals: vals})
	case "tagbody":
		ne := NewEnv(env)
		m.tagbodyBody(args, ne)
		return single(nil)
	case "go":
		tag := Print(args[0])
		id := env.findTag(tag)
		if id == nil || !id.active {
			m.fail("control-error", "go to unknown tag %s", tag)
		}
		panic(&goTag{id: id, tag: tag})
	case "unwind-protect":
		var res []Val
		func() {
			defer func() {
				// cleanup forms run on every exit; an exit from the cleanup replaces the pending one
				m.body(args[1:], env)
			}()
			res = m.eval(args[0], env)
		}()
		return res
	case "ignore-errors":
		var res []Val
		func() {
			defer func() {
				if r := recover(); r != nil {
					if le, isErr := r.(*LispError); isErr {
						res = []Val{nil, Sym("#<" + le.Class + ">")}
						return
					}
					panic(r)
				}
			}()
			res = m.body(args, env)
		}()
		return res
	case "recover":
		// (recover sym on-recover forms...): a signalled condition is caught, sym bound, on-recover evaluated
		var res []Val
		func() {
			defer func() {
				if r := recover(); r != nil {
					if le, isErr := r.(*LispError); isErr {
						ne := NewEnv(env)
						ne.bind(symName(args[0]), Sym("#<"+le.Class+">"))
						res = m.eval(args[1], ne)
						return
					}
					panic(r)
				}
			}()
			res = m.body(args[2:], env)
		}()
		return res
	case "with-mutex-lock":
		mu := Print(args[0])
		m.evalOne(args[0], env)
		if m.Locked[mu] {
			panic("refeval: generated program locks a mutex twice: " + mu)
		}
		m.Locked[mu] = true
		var res []Val
		func() {
			defer func() { m.Locked[mu] = false }()
			res = m.body(args[1:], env)
		}()
		return res
	case "with-open-file":
		spec := asList(args[0])
		ne := NewEnv(env)
		ne.bind(symName(spec[0]), Sym("#<stream>"))
		return m.body(args[1:], ne)
	case "make-mutex":
		return single(Sym("#<mutex>"))
	case "error":
		vals := m.evalArgs(args, env)
		msg := ""
		if s, isStr := vals[0].(Str); isStr {
			msg = string(s)
		}
		m.fail("error:"+msg, "%s", msg)
	}
	// macro?
	if mac, isMacro := m.Macros[name]; isMacro {
		expansion := one(m.Apply(mac, args))
		return m.eval(expansion, env)
	}
	// user function or builtin: evaluate arguments left to right, primary values only
	vals := m.evalArgs(args, env)
	if f, isUser := m.Funcs[name]; isUser {
		return m.Apply(f, vals)
	}
	if b, isBuiltin := builtins[name]; isBuiltin {
		return b(m, vals)
	}
	m.fail("undefined-function", "Function %s is not defined.", name)
	return nil
}

func symIs(v Val, name string) bool {
	s, ok := v.(Sym)
	return ok && strings.EqualFold(string(s), name)
}

func symName0(v Val) string {
	if v == nil {
		return ""
	}
	n := symName(v)
	if n == "nil" {
		return ""
	}
	return n
}

// OptParam is an &optional parameter with its default form (evaluated in the scope of the call when needed).
type OptParam struct {
	Name    string
	Default Val
}

func params(v Val) []string {
	ps := []string{}
	for _, p := range asList(v) {
		if symIs(p, "&optional") {
			break
		}
		ps = append(ps, symName(p))
	}
	return ps
}

func optParams(v Val) (ops []OptParam) {
	seen := false
	for _, p := range asList(v) {
		switch {
		case symIs(p, "&optional"):
			seen = true
		case !seen:
		default:
			if l, ok := p.([]Val); ok {
				op := OptParam{Name: symName(l[0])}
				if len(l) > 1 {
					op.Default = l[1]
				}
				ops = append(ops, op)
			} else {
				ops = append(ops, OptParam{Name: symName(p)})
			}
		}
	}
	return
}

func (m *Machine) assign(name string, v Val, env *Env) {
	if c := env.lookup(name); c != nil {
		c.v = v
		return
	}
	if c, ok := m.Globals[name]; ok {
		c.v = v
		return
	}
	m.Globals[name] = &cell{v: v}
}

func (m *Machine) inBlock(name string, env *Env, fn func(be *Env) []Val) (res []Val) {
	id := &blockID{name: name, active: true}
	be := NewEnv(env)
	be.blocks = map[string]*blockID{name: id}
	defer func() {
		id.active = false
		if r := recover(); r != nil {
			if rf, ok := r.(*returnFrom); ok && rf.id == id {
				res = rf.vals
				return
			}
			panic(r)
		}
	}()
	return fn(be)
}

// tagbodyBody runs forms where symbols/integers at top level are tags.
func (m *Machine) tagbodyBody(forms []Val, env *Env) {
	id := &tagbodyID{active: true}
	hasTags := false
	for _, f := range forms {
		switch f.(type) {
		case Sym, int64:
			hasTags = true
			if env.tags == nil {
				env.tags = map[string]*tagbodyID{}
			}
			env.tags[Print(f)] = id
		}
	}
	defer func() { id.active = false }()
	pc := 0
	for pc < len(forms) {
		next := -1
		func() {
			defer func() {
				if !hasTags {
					return
				}
				if r := recover(); r != nil {
					if g, ok := r.(*goTag); ok && g.id == id {
						for i, f := range forms {
							switch f.(type) {
							case Sym, int64:
								if Print(f) == g.tag {
									next = i + 1
								}
							}
						}
						return
					}
					panic(r)
				}
			}()
			switch forms[pc].(type) {
			case Sym, int64:
				// a tag: nothing to do
			default:
				m.eval(forms[pc], env)
			}
		}()
		if next >= 0 {
			pc = next
		} else {
			pc++
		}
	}
}

func (m *Machine) doLoop(sequential bool, args []Val, env *Env) []Val {
	specs := asList(args[0])
	end := asList(args[1])
	return m.inBlock("", env, func(be *Env) []Val {
		ne := NewEnv(be)
		type vs struct {
			name string
			step Val
			has  bool
		}
		var vars []vs
		if sequential {
			for _, s := range specs {
				sp := asList(s)
				var v Val
				if len(sp) > 1 {
					v = m.evalOne(sp[1], ne)
				}
				ne.bind(symName(sp[0]), v)
				x := vs{name: symName(sp[0])}
				if len(sp) > 2 {
					x.step, x.has = sp[2], true
				}
				vars = append(vars, x)
			}
		} else {
			inits := make([]Val, len(specs))
			for i, s := range specs {
				sp := asList(s)
				if len(sp) > 1 {
					inits[i] = m.evalOne(sp[1], be)
				}
				x := vs{name: symName(sp[0])}
				if len(sp) > 2 {
					x.step, x.has = sp[2], true
				}
				vars = append(vars, x)
			}
			for i, x := range vars {
				ne.bind(x.name, inits[i])
			}
		}
		for {
			if truthy(m.evalOne(end[0], ne)) {
				if len(end) > 1 {
					return m.body(end[1:], ne)
				}
				return single(nil)
			}
			m.tagbodyBody(args[2:], ne)
			if sequential {
				for _, x := range vars {
					if x.has {
						ne.vars[x.name].v = m.evalOne(x.step, ne)
					}
				}
			} else {
				news := make([]Val, len(vars))
				for i, x := range vars {
					if x.has {
						news[i] = m.evalOne(x.step, ne)
					}
				}
				for i, x := range vars {
					if x.has {
						ne.vars[x.name].v = news[i]
					}
				}
			}
		}
	})
}

var builtins map[string]func(m *Machine, a []Val) []Val

func init() {
	builtins = map[string]func(m *Machine, a []Val) []Val{
		"+": func(m *Machine, a []Val) []Val {
			s := int64(0)
			for _, x := range a {
				s = m.big(s + asInt(x))
			}
			return single(s)
		},
		"-": func(m *Machine, a []Val) []Val {
			if len(a) == 1 {
				return single(-asInt(a[0]))
			}
			s := asInt(a[0])
			for _, x := range a[1:] {
				s = m.big(s - asInt(x))
			}
			return single(s)
		},
		"*": func(m *Machine, a []Val) []Val {
			s := int64(1)
			for _, x := range a {
				s = m.big(s * asInt(x))
			}
			return single(s)
		},
		"/": func(m *Machine, a []Val) []Val {
			if asInt(a[1]) == 0 {
				m.fail("division-by-zero", "divide by zero")
			}
			return single(asInt(a[0]) / asInt(a[1]))
		},
		"1+":   func(m *Machine, a []Val) []Val { return single(m.big(asInt(a[0]) + 1)) },
		"1-":   func(m *Machine, a []Val) []Val { return single(m.big(asInt(a[0]) - 1)) },
		"list": func(m *Machine, a []Val) []Val { return single(L(append([]Val{}, a...)...)) },
		"cons": func(m *Machine, a []Val) []Val {
			return single(L(append([]Val{a[0]}, asList(a[1])...)...))
		},
		"car": func(m *Machine, a []Val) []Val {
			l := asList(a[0])
			if len(l) == 0 {
				return single(nil)
			}
			return single(l[0])
		},
		"cdr": func(m *Machine, a []Val) []Val {
			l := asList(a[0])
			if len(l) <= 1 {
				return single(nil)
			}
			return single(L(append([]Val{}, l[1:]...)...))
		},
		"eq":     func(m *Machine, a []Val) []Val { return single(boolVal(eql(a[0], a[1]))) },
		"eql":    func(m *Machine, a []Val) []Val { return single(boolVal(eql(a[0], a[1]))) },
		"equal":  func(m *Machine, a []Val) []Val { return single(boolVal(Equal(a[0], a[1]))) },
		"not":    func(m *Machine, a []Val) []Val { return single(boolVal(a[0] == nil)) },
		"null":   func(m *Machine, a []Val) []Val { return single(boolVal(a[0] == nil)) },
		"length": func(m *Machine, a []Val) []Val { return single(int64(len(asList(a[0])))) },
		"<": func(m *Machine, a []Val) []Val {
			for i := 0; i+1 < len(a); i++ {
				if !(asInt(a[i]) < asInt(a[i+1])) {
					return single(nil)
				}
			}
			return single(T)
		},
		">": func(m *Machine, a []Val) []Val {
			for i := 0; i+1 < len(a); i++ {
				if !(asInt(a[i]) > asInt(a[i+1])) {
					return single(nil)
				}
			}
			return single(T)
		},
		"=": func(m *Machine, a []Val) []Val {
			for i := 0; i+1 < len(a); i++ {
				if asInt(a[i]) != asInt(a[i+1]) {
					return single(nil)
				}
			}
			return single(T)
		},
	}
}

// Print renders a value / program as Lisp text (lower case symbols).
func Print(v Val) string {
	var b strings.Builder
	printTo(&b, v)
	return b.String()
}

func printTo(b *strings.Builder, v Val) {
	switch t := v.(type) {
	case nil:
		b.WriteString("nil")
	case int64:
		b.WriteString(strconv.FormatInt(t, 10))
	case Str:
		b.WriteString(strconv.Quote(string(t)))
	case Sym:
		b.WriteString(string(t))
	case []Val:
		if len(t) == 2 && symIs(t[0], "quote") {
			b.WriteByte('\'')
			printTo(b, t[1])
			return
		}
		b.WriteByte('(')
		for i, e := range t {
			if i > 0 {
				b.WriteByte(' ')
			}
			printTo(b, e)
		}
		b.WriteByte(')')
	case *Closure:
		b.WriteString("#<function " + t.Name + ">")
	default:
		fmt.Fprintf(b, "#<%T>", v)
	}
}

// Show renders a value (no quote abbreviation), in the same form as sx.Text renders slip objects.
func Show(v Val) string {
	var b strings.Builder
	showTo(&b, v)
	return b.String()
}

func showTo(b *strings.Builder, v Val) {
	switch t := v.(type) {
	case []Val:
		b.WriteByte('(')
		for i, e := range t {
			if i > 0 {
				b.WriteByte(' ')
			}
			showTo(b, e)
		}
		b.WriteByte(')')
	case *Closure:
		b.WriteString("#<function>")
	default:
		printTo(b, v)
	}
}

// Parse reads the program text produced by Print (integers, strings, symbols, lists, 'x and #'x).
func Parse(src string) ([]Val, error) {
	p := &parser{src: src}
	var out []Val
	for {
		p.skip()
		if p.pos >= len(p.src) {
			return out, nil
		}
		v, err := p.read()
		if err != nil {
			return nil, err
		}
		out = append(out, v)
	}
}

type parser struct {
	src string
	pos int
}

func (p *parser) skip() {
	for p.pos < len(p.src) {
		c := p.src[p.pos]
		if c == ' ' || c == '\n' || c == '\t' {
			p.pos++
			continue
		}
		if c == ';' {
			for p.pos < len(p.src) && p.src[p.pos] != '\n' {
				p.pos++
			}
			continue
		}
		break
	}
}

func (p *parser) read() (Val, error) {
	p.skip()
	if p.pos >= len(p.src) {
		return nil, fmt.Errorf("unexpected end")
	}
	c := p.src[p.pos]
	switch {
	case c == '(':
		p.pos++
		var items []Val
		for {
			p.skip()
			if p.pos >= len(p.src) {
				return nil, fmt.Errorf("unterminated list")
			}
			if p.src[p.pos] == ')' {
				p.pos++
				return L(items...), nil
			}
			v, err := p.read()
			if err != nil {
				return nil, err
			}
			items = append(items, v)
		}
	case c == ')':
		return nil, fmt.Errorf("unexpected )")
	case c == '\'':
		p.pos++
		v, err := p.read()
		if err != nil {
			return nil, err
		}
		return L(Sym("quote"), v), nil
	case c == '#' && p.pos+1 < len(p.src) && p.src[p.pos+1] == '\'':
		p.pos += 2
		v, err := p.read()
		if err != nil {
			return nil, err
		}
		return L(Sym("function"), v), nil
	case c == '"':
		end := p.pos + 1
		for end < len(p.src) && p.src[end] != '"' {
			if p.src[end] == '\\' {
				end++
			}
			end++
		}
		if end >= len(p.src) {
			return nil, fmt.Errorf("unterminated string")
		}
		s, err := strconv.Unquote(p.src[p.pos : end+1])
		if err != nil {
			return nil, err
		}
		p.pos = end + 1
		return Str(s), nil
	}
	start := p.pos
	for p.pos < len(p.src) && !strings.ContainsRune(" \n\t()'\";", rune(p.src[p.pos])) {
		p.pos++
	}
	tok := p.src[start:p.pos]
	if i, err := strconv.ParseInt(tok, 10, 64); err == nil {
		return i, nil
	}
	if strings.EqualFold(tok, "nil") {
		return nil, nil
	}
	return Sym(strings.ToLower(tok)), nil
}
