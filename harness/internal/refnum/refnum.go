// Package refnum is the exact reference model for C05 (and the integer
// rendering parts of C15): math/big only, nothing from slip's arithmetic.
package refnum

import (
	"fmt"
	"math"
	"math/big"
	"strconv"
	"strings"

	"github.com/ohler55/slip"
)

// Num is an operand: exact value plus representation kind.
type Num struct {
	Kind string // int | ratio | single | double | long
	R    *big.Rat
}

// Parse decodes an operand descriptor:
//
//	"123" "-5" integer; "1/3" ratio; "d:<float64 bits hex>"; "s:<float32 bits hex>"; "l:<integer>" long float with that value.
func Parse(s string) Num {
	switch {
	case strings.HasPrefix(s, "d:"):
		bits, err := strconv.ParseUint(s[2:], 16, 64)
		if err != nil {
			panic(err)
		}
		f := math.Float64frombits(bits)
		r := new(big.Rat)
		r.SetFloat64(f)
		return Num{Kind: "double", R: r}
	case strings.HasPrefix(s, "s:"):
		bits, err := strconv.ParseUint(s[2:], 16, 32)
		if err != nil {
			panic(err)
		}
		f := math.Float32frombits(uint32(bits))
		r := new(big.Rat)
		r.SetFloat64(float64(f))
		return Num{Kind: "single", R: r}
	case strings.HasPrefix(s, "l:"):
		r, ok := new(big.Rat).SetString(s[2:])
		if !ok {
			panic("bad long " + s)
		}
		return Num{Kind: "long", R: r}
	}
	r, ok := new(big.Rat).SetString(s)
	if !ok {
		panic("bad number " + s)
	}
	if r.IsInt() {
		return Num{Kind: "int", R: r}
	}
	return Num{Kind: "ratio", R: r}
}

// Object builds the slip object for a descriptor (operands are constructed by
// the harness, not read by slip's reader).
func Object(s string) slip.Object {
	n := Parse(s)
	switch n.Kind {
	case "double":
		f, _ := n.R.Float64()
		return slip.DoubleFloat(f)
	case "single":
		f, _ := n.R.Float32()
		return slip.SingleFloat(f)
	case "long":
		z := new(big.Float).SetPrec(256)
		z.SetRat(n.R)
		return (*slip.LongFloat)(z)
	case "int":
		if n.R.Num().IsInt64() {
			return slip.Fixnum(n.R.Num().Int64())
		}
		return (*slip.Bignum)(new(big.Int).Set(n.R.Num()))
	}
	return (*slip.Ratio)(new(big.Rat).Set(n.R))
}

// Canon renders the canonical typed text (as sx.Typed does) of an exact rational.
func Canon(r *big.Rat) string {
	if r.IsInt() {
		if r.Num().IsInt64() {
			return "fix:" + r.Num().String()
		}
		return "big:" + r.Num().String()
	}
	return "rat:" + r.Num().String() + "/" + r.Denom().String()
}

// Loose drops the fix:/big: distinction of a typed text.
func Loose(s string) string {
	s = strings.ReplaceAll(s, "fix:", "int:")
	return strings.ReplaceAll(s, "big:", "int:")
}

// Exact returns the exact value of a real slip number.
func Exact(o slip.Object) (*big.Rat, bool) {
	switch t := o.(type) {
	case slip.Fixnum:
		return new(big.Rat).SetInt64(int64(t)), true
	case *slip.Bignum:
		return new(big.Rat).SetInt((*big.Int)(t)), true
	case *slip.Ratio:
		return new(big.Rat).Set((*big.Rat)(t)), true
	case slip.SingleFloat:
		if math.IsInf(float64(t), 0) || math.IsNaN(float64(t)) {
			return nil, false
		}
		return new(big.Rat).SetFloat64(float64(t)), true
	case slip.DoubleFloat:
		if math.IsInf(float64(t), 0) || math.IsNaN(float64(t)) {
			return nil, false
		}
		return new(big.Rat).SetFloat64(float64(t)), true
	case *slip.LongFloat:
		r, _ := (*big.Float)(t).Rat(nil)
		return r, r != nil
	}
	return nil, false
}

// DivKind selects the rounding of the four divisions.
type DivKind int

// The four rounding divisions.
const (
	Floor DivKind = iota
	Ceiling
	Truncate
	Round
)

// Div computes quotient and remainder of n/d under kind; d != 0.
func Div(kind DivKind, n, d *big.Rat) (q *big.Int, r *big.Rat) {
	x := new(big.Rat).Quo(n, d)
	// floor of x
	fl := new(big.Int)
	m := new(big.Int)
	fl.DivMod(x.Num(), x.Denom(), m) // Euclidean with positive denominator = floor
	isInt := m.Sign() == 0
	switch kind {
	case Floor:
		q = fl
	case Ceiling:
		q = new(big.Int).Set(fl)
		if !isInt {
			q.Add(q, big.NewInt(1))
		}
	case Truncate:
		q = new(big.Int).Set(fl)
		if !isInt && x.Sign() < 0 {
			q.Add(q, big.NewInt(1))
		}
	case Round:
		// frac = x - floor in [0,1)
		frac := new(big.Rat).Sub(x, new(big.Rat).SetInt(fl))
		c := frac.Cmp(big.NewRat(1, 2))
		q = new(big.Int).Set(fl)
		switch {
		case c > 0:
			q.Add(q, big.NewInt(1))
		case c == 0:
			if fl.Bit(0) == 1 { // odd floor: go up to the even neighbour
				q.Add(q, big.NewInt(1))
			}
		}
	}
	r = new(big.Rat).Sub(n, new(big.Rat).Mul(new(big.Rat).SetInt(q), d))
	return
}

// Expt is exact base^e for rational base and integer e; ok=false for 0^negative.
func Expt(base *big.Rat, e int) (*big.Rat, bool) {
	if e < 0 {
		if base.Sign() == 0 {
			return nil, false
		}
		inv := new(big.Rat).Inv(base)
		return Expt(inv, -e)
	}
	n := new(big.Int).Exp(base.Num(), big.NewInt(int64(e)), nil)
	d := new(big.Int).Exp(base.Denom(), big.NewInt(int64(e)), nil)
	return new(big.Rat).SetFrac(n, d), true
}

// Ash is floor(n * 2^k).
func Ash(n *big.Int, k int) *big.Int {
	if k >= 0 {
		return new(big.Int).Lsh(n, uint(k))
	}
	return new(big.Int).Rsh(n, uint(-k)) // big.Int.Rsh is arithmetic (floor) for negatives
}

// Pow2 returns 2^k.
func Pow2(k uint) *big.Int { return new(big.Int).Lsh(big.NewInt(1), k) }

// Boundary is the boundary grid of the property statement (plus a few neighbours).
func Boundary() []*big.Int {
	var out []*big.Int
	add := func(v *big.Int) {
		for _, x := range out {
			if x.Cmp(v) == 0 {
				return
			}
		}
		out = append(out, v)
	}
	pm := func(v *big.Int) {
		add(v)
		add(new(big.Int).Neg(v))
	}
	add(big.NewInt(0))
	pm(big.NewInt(1))
	pm(big.NewInt(2))
	pm(big.NewInt(3))
	pm(Pow2(31))
	pm(Pow2(32))
	pm(Pow2(62))
	add(new(big.Int).Sub(Pow2(63), big.NewInt(1)))
	add(new(big.Int).Neg(Pow2(63)))
	pm(Pow2(63))
	add(new(big.Int).Add(new(big.Int).Neg(Pow2(63)), big.NewInt(1)))
	pm(Pow2(64))
	pm(new(big.Int).Add(Pow2(64), big.NewInt(1)))
	pm(new(big.Int).Sub(Pow2(64), big.NewInt(1)))
	return out
}

// FloatsNear returns descriptors of the single and double floats at and
// adjacent (one ulp either side) to r.
func FloatsNear(r *big.Rat) []string {
	var out []string
	f, _ := r.Float64()
	if !math.IsInf(f, 0) {
		for _, g := range []float64{f, math.Nextafter(f, math.Inf(1)), math.Nextafter(f, math.Inf(-1))} {
			if !math.IsInf(g, 0) {
				out = append(out, fmt.Sprintf("d:%x", math.Float64bits(g)))
			}
		}
	}
	f32, _ := r.Float32()
	if !math.IsInf(float64(f32), 0) {
		for _, g := range []float32{f32, math.Nextafter32(f32, float32(math.Inf(1))), math.Nextafter32(f32, float32(math.Inf(-1)))} {
			if !math.IsInf(float64(g), 0) {
				out = append(out, fmt.Sprintf("s:%x", math.Float32bits(g)))
			}
		}
	}
	return out
}
