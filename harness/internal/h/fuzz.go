package h

import (
	"encoding/json"
	"flag"
	"fmt"
	"os"
	"path/filepath"
	"sort"
	"strconv"
	"strings"
	"testing"

	"pgregory.net/rapid"
)

// Native, coverage-guided fuzzing (go test -fuzz) next to the rapid search.
//
// A fuzz target decodes the bytes the fuzzer mutates into a case of a sub-property and runs it through the same
// oracle as the generated cases. The target has two modes:
//
//   - campaign (the driver's thorough tier starts the test binary with -test.fuzz, the go fuzzer starts worker
//     processes of the same binary): the oracle's verdict is handed to the fuzzer (t.Fatalf), which minimises a failing
//     input and writes it to testdata/fuzz/<target>/ below the campaign's working directory. Nothing is counted and no
//     stats file is written by these processes.
//   - corpus pass (every ordinary run of the test binary, so the quick tier too): the built-in seed inputs, the corpus
//     committed under harness/<pkg>/testdata/fuzz/<target>/ and, after a campaign, every input the campaign kept
//     (VERIF_FUZZ_CORPUS) are run through the oracle like enumerated cases: counted, classified, and a failing one is a
//     VIOLATION with an ordinary JSON replay file of the sub-property.
//
// go's fuzzer has no seed flag, so a campaign is not a function of VERIF_SEED; the saved input is the reproducible unit.

// FuzzCampaign reports whether this process is the coordinator or a worker of a native fuzz campaign.
func FuzzCampaign() bool {
	for _, a := range os.Args[1:] {
		if strings.HasPrefix(a, "-test.fuzzworker") || strings.HasPrefix(a, "-test.fuzz=") || a == "-test.fuzz" {
			return true
		}
	}
	if f := flag.Lookup("test.fuzz"); f != nil && f.Value.String() != "" {
		return true
	}
	return false
}

// CorpusFile parses one file in the format of go's fuzz corpus with a single []byte value.
func CorpusFile(path string) ([]byte, bool) {
	b, err := os.ReadFile(path)
	if err != nil {
		return nil, false
	}
	lines := strings.Split(string(b), "\n")
	if len(lines) < 2 || !strings.HasPrefix(lines[0], "go test fuzz v1") {
		return nil, false
	}
	v := strings.TrimSpace(lines[1])
	if !strings.HasPrefix(v, "[]byte(") || !strings.HasSuffix(v, ")") {
		return nil, false
	}
	s, err := strconv.Unquote(v[len("[]byte(") : len(v)-1])
	if err != nil {
		return nil, false
	}
	return []byte(s), true
}

func corpusDirs(pkg, target string) []string {
	var dirs []string
	root := env("VERIF_HARNESS", "/verif/harness")
	dirs = append(dirs, filepath.Join(root, pkg, "testdata", "fuzz", target))
	for _, d := range strings.Split(os.Getenv("VERIF_FUZZ_CORPUS"), string(os.PathListSeparator)) {
		if d != "" {
			dirs = append(dirs, filepath.Join(d, target))
		}
	}
	return dirs
}

// FuzzProp is the body of a native fuzz target for sub-property p. pkg is the directory of the test package below
// harness/ (where the committed corpus lives), dec turns fuzzer bytes into a case (false = the bytes do not denote one),
// seeds are built-in inputs.
func FuzzProp[K any](f *testing.F, pkg string, p Prop[K], dec func([]byte) (K, bool), seeds [][]byte) {
	FuzzProp2(f, pkg, p, nil, dec, seeds)
}

// FuzzProp2: fast, when not nil, is the oracle used inside the campaign (in-process, no bookkeeping); everything the
// campaign keeps is judged by p.Run in the corpus pass.
func FuzzProp2[K any](f *testing.F, pkg string, p Prop[K], fast func(K) *Result, dec func([]byte) (K, bool), seeds [][]byte) {
	target := f.Name()
	if C.ReplayIn != "" {
		replay(f, p)
		return
	}
	campaign := FuzzCampaign()
	if !campaign && C.Shard != 0 {
		f.Skip("the corpus pass is the same in every shard")
	}
	if campaign {
		quiet = true
	}
	if !witnesses(p) {
		f.Fail()
		return
	}
	seen := map[string]bool{}
	var inputs [][]byte
	add := func(b []byte) {
		if !seen[string(b)] {
			seen[string(b)] = true
			inputs = append(inputs, b)
		}
	}
	for _, s := range seeds {
		add(s)
	}
	for _, d := range corpusDirs(pkg, target) {
		files, _ := filepath.Glob(filepath.Join(d, "*"))
		sort.Strings(files)
		for _, fn := range files {
			if b, ok := CorpusFile(fn); ok {
				add(b)
			}
		}
	}
	if campaign {
		for _, b := range inputs {
			f.Add(b)
		}
		f.Fuzz(func(t *testing.T, data []byte) {
			c, ok := dec(data)
			if !ok {
				return
			}
			q := p
			if fast != nil {
				q.Run = fast
			}
			if r := safeRun(q, c); r.Err != "" {
				t.Fatalf("%s", r.Err)
			}
		})
		return
	}
	// corpus pass
	viol := 0
	for _, b := range inputs {
		c, ok := dec(b)
		if !ok {
			Class("fuzz-corpus-not-a-case", 1)
			continue
		}
		r := safeRun(p, c)
		r.Classes = append(r.Classes, "fuzz-corpus-input")
		Account(p.Name, c, r)
		if r.Err != "" {
			Violate(p.Name, c, r.Err)
			f.Fail()
			if viol++; viol >= maxViol() {
				break
			}
		}
	}
	Note("%s: %d corpus inputs (built-in seeds, committed corpus, campaign corpus) run through the oracle of %s", target, len(inputs), p.Name)
	// go test wants a fuzz target to call Fuzz
	f.Fuzz(func(t *testing.T, data []byte) {})
}

// quiet: no KNOWN-FINDING lines (workers of a campaign run the witnesses only to switch the exclusions on).
var quiet bool

// WriteCorpusFile writes b in go's corpus format.
func WriteCorpusFile(path string, b []byte) error {
	return os.WriteFile(path, []byte(fmt.Sprintf("go test fuzz v1\n[]byte(%s)\n", strconv.Quote(string(b)))), 0o644)
}

// Warm runs the witnesses of the open findings of another sub-property, silently, so that their exclusion tags are on
// in a process that does not run that sub-property (a worker of a fuzz campaign, the corpus pass).
func Warm[K any](p Prop[K]) {
	for _, f := range fnd {
		if f.Sub != p.Name || len(f.Witness) == 0 || f.Status != "open" || f.Exclusion == "" {
			continue
		}
		var c K
		if err := json.Unmarshal(f.Witness, &c); err != nil {
			continue
		}
		if r := safeRun(p, c); r.Err != "" {
			mu.Lock()
			excl[f.Exclusion] = true
			mu.Unlock()
		}
	}
}

// FuzzRapid is a native fuzz target over the generator of an existing sub-property: the fuzzer's bytes are the random
// bit stream of rapid (rapid.MakeFuzz), so coverage guidance steers the same generator that the rapid search draws
// from, and every case found is an ordinary case of p (same counters, same replay format, replayed by RunProp).
// Built-in inputs are pseudo-random byte strings from a fixed recurrence; bytes that run out before the generator is
// done are skipped by rapid.
func FuzzRapid[K any](f *testing.F, pkg string, p Prop[K], warm ...func()) {
	if C.ReplayIn != "" {
		f.Skip("replay files are run by the sub-property itself")
	}
	campaign := FuzzCampaign()
	if !campaign && C.Shard != 0 {
		f.Skip("the corpus pass is the same in every shard")
	}
	if campaign {
		quiet = true
	}
	for _, w := range warm {
		w()
	}
	Warm(p)
	x := uint64(88172645463325252)
	for i := 0; i < 24; i++ {
		b := make([]byte, 64+i*24)
		for j := range b {
			x ^= x << 13
			x ^= x >> 7
			x ^= x << 17
			b[j] = byte(x >> 32)
		}
		f.Add(b)
	}
	for _, d := range corpusDirs(pkg, f.Name()) {
		files, _ := filepath.Glob(filepath.Join(d, "*"))
		sort.Strings(files)
		for _, fn := range files {
			if b, ok := CorpusFile(fn); ok {
				f.Add(b)
			}
		}
	}
	n := 0
	f.Fuzz(rapid.MakeFuzz(func(rt *rapid.T) {
		c := p.Gen(rt)
		r := safeRun(p, c)
		if campaign {
			if r.Err != "" {
				rt.Fatalf("%s", r.Err)
			}
			return
		}
		r.Classes = append(r.Classes, "fuzz-corpus-input")
		Account(p.Name, c, r)
		n++
		if r.Err != "" {
			Violate(p.Name, c, r.Err)
			rt.Fatalf("%s", r.Err)
		}
	}))
	if !campaign {
		Note("%s: %d corpus inputs decoded by the generator of %s and run through its oracle", f.Name(), n, p.Name)
	}
}
